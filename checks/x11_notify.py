"""C11 extension -- the input loop that feeds a dispatcher (spec/Notify.tla).

run_part(ck, tier) adds to the C11 check: exhaustive TLC run of Notify (which EXTENDS Dispatch and delivers through
Dispatch!EmitMsg / EmitNone), replay of TLC-generated behaviours into mpt_notify_* / mpt_stream_input /
mpt_notify_connect / mpt_notify_bind / mpt_notify_dispatch (drv/notify.c) and TLC trace validation of seeded histories
including runs of the real mpt_loop (every internal step recorded).  Where the implementation may choose (which listed
input mpt_notify_next returns) a replay difference is not judged here: the recorded behaviour goes to TLC."""
import json
import os
import time
import vlib
import vseam

PID = "C11"
DEFS = ("mpt_loop=drv_mpt_loop", "mpt_notify_wait=hk_notify_wait", "mpt_notify_next=hk_notify_next")
CFG = {
    "quick":    dict(mcs=["MC_Notify.cfg"], gens=["Gen_Notify.cfg"], dump=False, poll_gen=None, poll_every=4,
                     cxx_every=3, nhist=24, steps=50),
    "thorough": dict(mcs=["MC_Notify_t.cfg", "MC_Notify_t3.cfg", "MC_Notify_tp.cfg"], gens=["Gen_Notify_t.cfg"], dump=True,
                     poll_gen="Gen_Notify_p.cfg", poll_every=1, cxx_every=1, nhist=300, steps=120),
}
POLL_SRC = tuple("mptio/notify/notify_%s.c" % n for n in ("add", "wait", "next", "fini", "bind", "connect"))
ENV = {"ASAN_OPTIONS": vlib.ASAN_ENV + ":symbolize=0"}
CHUNK = 6000
MAX_FAULTS = 60
MAX_DEFER = 400


def enabled():
    """The part needs its fix commits (docs/X11_notify.md) in the tree under test: it is switched on by the marker file
    checks/x11_notify.accepted (created when those commits are integrated) or by VERIF_X11=1, off by VERIF_X11=0."""
    env = os.environ.get("VERIF_X11")
    if env is not None:
        return env not in ("0", "")
    return os.path.exists(os.path.join(vlib.ROOT, "checks", "x11_notify.accepted"))


def build():
    return vlib.build_driver("notify", ["notify.c"], libs=("mptio", "mptcore"), defines=DEFS,
                             repo_sources=("mptio/notify/loop.c",))


def build_cxx():
    """the mpt++ notify class with inputs derived from the C++ input interface (drv/notify_cxx.cpp)"""
    return vlib.build_driver("notify_cxx", ["notify_cxx.cpp"], libs=("mpt++", "mptio", "mptcore"), cxx=True)


CXX_ACTIONS = {"init", "attach", "set", "clear", "seterror", "add", "addsame", "addbad", "send", "shut", "wait", "next",
               "dispatch", "default", "unreg", "fini"}


def no_kill(st):
    return st["a"] != "wait" or not (st["arg"].get("kill") or [0])[0]


def cxx_subset(behs):
    """behaviours the C++ driver can execute: harness and socket-pair inputs, no listener, no mpt_loop, handlers
    through a dispatch object only, no input removing another"""
    return [b for b in behs if all(st["a"] in CXX_ACTIONS and (st["a"] != "add" or st["arg"]["k"] in "hs") and no_kill(st)
                                   for st in b)]


def poll_subset(behs):
    """the poll() path has no kernel registration that could refuse a descriptor"""
    return [b for b in behs if all(st["a"] != "addfile" for st in b)]


def build_poll():
    """the notifier's portable poll() path: epoll_create1 renamed to a function of the driver that fails"""
    return vlib.build_driver("notify_poll", ["notify.c"], libs=("mptio", "mptcore"),
                             defines=("DRV_POLL", "epoll_create1=drv_epoll_create1"), repo_sources=POLL_SRC)


def match(exp, obs, step=None, rec=None, prev=None):
    """Key-wise equality with the specification's expected observation; "any" / dany = not demanded."""
    for k, v in exp.items():
        if k == "dany" or v == "any":
            continue
        if k not in obs:
            return "missing observation %r" % k
        if k == "d":
            for k2, v2 in v.items():
                if k2 == "ret" and exp.get("dany"):
                    continue
                if obs[k].get(k2) != v2:
                    return "d.%s: expected %s, observed %s" % (k2, json.dumps(v2)[:200], json.dumps(obs[k].get(k2))[:200])
            continue
        if obs[k] != v:
            return "%s: expected %s, observed %s" % (k, json.dumps(v)[:200], json.dumps(obs[k])[:200])
    return None


def kinds_of(beh, upto):
    ks = sorted({s["arg"]["k"] for s in beh[:upto + 1] if s["a"] == "add"})
    return "".join(ks) or "-"


MODE = [""]      # "" = epoll (the library as built), "poll:" = the portable poll() path, "cxx:" = mpt++ notify


def signature(step, why, beh=None, i=0):
    a = step["a"]
    key = why.lower() if why in ("Crash", "Hang", "Garbled", "Missing") else why.split(":")[0].split(" ")[0]
    return "x:notify:%s%s:%s:%s" % (MODE[0], a, key, kinds_of(beh, i) if beh else "-")


def run_chunks(exe, behs):
    recs, faults, done = [], 0, 0
    for lo in range(0, len(behs), CHUNK):
        part = behs[lo:lo + CHUNK]
        r, _ = vlib.run_driver(exe, vlib.to_script(part), env=ENV)
        # the per-behaviour alarm can fire on an overloaded machine: such a behaviour is run once more on its own
        r = vseam.rerun_hung(exe, part, r)
        for x in r:
            if isinstance(x.get("b"), int):
                x["b"] += lo
            if x.get("a") in ("Crash", "Hang"):
                faults += 1
        recs += r
        done = lo + len(part)
        if faults > MAX_FAULTS:
            break
    return recs, done


def flatten(behs, recs, base=0):
    """script steps + driver records -> trace events; the internal steps of mpt_loop ("sub" records) become events
    of their own, in the order the driver wrote them (no judgement: renaming and ordering only)."""
    by = vlib.group_records(recs)
    out = []
    for b, beh in enumerate(behs):
        rs = by.get(b, [])
        pos = 0
        for i, st in enumerate(beh):
            ended = False
            while pos < len(rs) and rs[pos].get("i") == i and "sub" in rs[pos]:
                r = rs[pos]
                out.append({"a": r["a"], "arg": r.get("arg") or {}, "obs": r.get("obs") or {}, "b": b + base, "i": i, "sub": r["sub"]})
                pos += 1
            if pos < len(rs) and rs[pos].get("a") not in ("Crash", "Hang", "Garbled") and rs[pos].get("i") == i:
                r = rs[pos]
                pos += 1
                out.append({"a": st["a"], "arg": st.get("arg") or {}, "obs": r.get("obs") or {}, "b": b + base, "i": i})
            else:
                out.append({"a": rs[pos]["a"] if pos < len(rs) else "Missing", "arg": st.get("arg") or {}, "b": b + base, "i": i,
                            "of": st["a"]})
                ended = True
            if ended:
                break
    return [e for e in out if (e.get("obs") or {}).get("ret") != "skipped"]


def validate(ck, events, what, behs, binding):
    ok, matched, tres = vlib.validate_trace("Trace_Notify", events, tag="Trace_Notify_" + what)
    ck.cov["transitions"] += tres.generated
    bad = None
    if not ok:
        ok2, matched2, tres2 = vlib.validate_trace("Trace_Notify", events, tag="Trace_Notify_" + what)
        if not ok2 and matched2 == matched:
            ev = events[matched] if matched < len(events) else None
            beh = behs[ev["b"]] if ev and ev.get("b") is not None and ev["b"] < len(behs) else None
            saved = MODE[0]
            if ev and ev.get("cxx"):
                MODE[0] = "cxx:"
            if ev is None:
                sig = "x:notify:trace:short"
            elif ev["a"] in ("Crash", "Hang", "Garbled", "Missing"):
                sig = "x:notify:trace:" + signature({"a": ev.get("of", "?")}, ev["a"], beh, ev["i"])[9:]
            else:
                sig = "x:notify:trace:" + signature(ev, "rejected" + ("-in-loop" if "sub" in ev else ""), beh, ev["i"])[9:]
            ck.violation(sig, {"binding": binding, "matched_prefix": matched, "rejected_event": ev,
                               "previous_event": events[matched - 1] if matched else None,
                               "behaviour": beh, "tlc": (tres2.violation or ""), "part": "x11_notify",
                               "poll": MODE[0] == "poll:", "cxx": MODE[0] == "cxx:" or bool(ev and ev.get("cxx"))})
            bad = ev
            MODE[0] = saved
        else:
            ok, matched = ok2, matched2
    return ok, matched, bad


def defer(ck, behs, recs, mms):
    """Replay differences: the recorded behaviours are handed to TLC (one run, executions separated by init)."""
    by = vlib.group_records(recs)
    hard = [mm for mm in mms if mm["why"] in ("Crash", "Hang", "Garbled") or mm["rec"] is None]
    soft = [mm for mm in mms if mm not in hard]
    per_sig = {}
    for mm in hard:
        sig = signature(mm["step"], mm["why"] if mm["rec"] else "Missing", behs[mm["b"]], mm["i"])
        per_sig[sig] = per_sig.get(sig, 0) + 1
        if per_sig[sig] <= 2:
            ck.violation(sig, {"binding": "A(replay)", "behaviour": behs[mm["b"]], "step": mm["i"], "why": mm["why"],
                               "record": mm["rec"], "part": "x11_notify", "poll": MODE[0] == "poll:",
                               "cxx": MODE[0] == "cxx:"})
    accepted = 0
    todo = soft[:MAX_DEFER]
    while todo:
        sub = [behs[mm["b"]] for mm in todo]
        rs = []
        for k, mm in enumerate(todo):
            for r in by.get(mm["b"], []):
                r2 = dict(r)
                r2["b"] = k
                rs.append(r2)
        events = flatten(sub, rs)
        ok, matched, bad = validate(ck, events, "deferred", sub, "A(replay, recorded behaviour rejected by TLC)")
        if ok:
            accepted += len(todo)
            break
        if bad is None or bad.get("b") is None:
            break
        k = bad["b"]
        accepted += k
        mm = todo[k]
        per_sig["replay:" + signature(mm["step"], mm["why"], behs[mm["b"]], mm["i"])] = 1
        todo = todo[k + 1:]
        if len(ck.violations) > 6:
            break
    return accepted, len(soft), per_sig


def nontrivial(recs):
    """a message reached a harness handler AND an input was released."""
    ev = rel = 0
    for r in recs:
        o = r.get("obs") or {}
        if o.get("data"):
            ev += 1
        if o.get("rel"):
            rel += 1
    return ev > 0 and rel > 0


def key_of(beh):
    return json.dumps([(s["a"], s.get("arg")) for s in beh], sort_keys=True)


# ---------------------------------------------------------------------------
# binding B inputs: call sequences only, no expected values
# ---------------------------------------------------------------------------
def limbs(v):
    return [(v >> (16 * i)) & 0xffff for i in range(4)]


def gen_histories(ck, n, steps, cxx=False):
    rng = ck.rng
    behs = []
    for hno in range(n):
        beh = [{"a": "init", "arg": {"x": 0}}]
        tok = 0            # handler tokens
        nin = 0            # input tokens drawn by add
        shut = set()
        ids = rng.sample([1, 2, 3, 4, 5, 6, 7, 8], rng.randrange(1, 5))
        listener = None
        late_listener = rng.random() < 0.5

        def hr():
            return {"r": rng.choice([0, 0, 0, 1, 1, 2, 3, 4, 5, 6, 7, -1, -2]), "clear": rng.choice([0, 0, 1])}

        def table_ops(k):
            nonlocal tok
            for _ in range(k):
                op = rng.choice(["set", "set", "set", "clear", "seterror"])
                if op == "set":
                    tok += 1
                    beh.append({"a": "set", "arg": {"id": limbs(rng.choice(ids)), "tok": tok}})
                elif op == "clear":
                    beh.append({"a": "clear", "arg": {"id": limbs(rng.choice(ids))}})
                elif rng.random() < 0.4:
                    tok += 1
                    beh.append({"a": "seterror", "arg": {"tok": tok}})

        def mid(i):
            """message id in front of the messages of id-carrying inputs (connected / accepted sockets: none or an
            id announcing a reply; read-only pipe: also request ids, nobody can be answered there)"""
            k = kinds.get(i, "c")
            if k == "p":
                return rng.choice([[0, 0], [0, 0], [1, 5], [0, rng.randrange(1, 256)], [128 + rng.randrange(128), rng.randrange(1, 256)]])
            if k == "c":
                return rng.choice([[0, 0], [0, 0], [0, 0], [128 + rng.randrange(128), rng.randrange(1, 256)]])
            return []

        def message(i):
            first = rng.choice(ids + ids + [200, 0, 9])
            return mid(i) + [first, i % 256, rng.randrange(256)] + [rng.randrange(256) for _ in range(rng.choice([0, 0, 1, 5, 40]))]

        def kill():
            """now and then a harness input's next() removes another input"""
            hs = [i for i in kinds if kinds[i] == "h"]
            if cxx or not hs or rng.random() < 0.7:
                return [0, 0]
            return [rng.choice(hs), rng.randrange(1, nin + extra + 1)]

        attached = False
        kinds = {}
        extra = 0
        if not cxx and hno % 3 == 0:
            tok += 1
            beh.append({"a": "direct", "arg": {"tok": tok}})
        elif rng.random() < 0.9:
            beh.append({"a": "attach", "arg": {"x": 0}})
            attached = True
            table_ops(rng.randrange(1, 5))
        for _ in range(rng.randrange(2, 7)):
            nin += 1
            kinds[nin] = rng.choice("hhsss" if cxx else "hhssccfpp")
            beh.append({"a": "add", "arg": {"k": kinds[nin], "tok": nin}})
        if hno % 2 == 0:
            # a burst on a fresh library input that fills what it reads in one go (4 messages, 64 bytes on the wire), then the loop
            cand = [i for i in kinds if kinds[i] != "h"]
            if cand:
                i = rng.choice(cand)
                n = 12 if kinds[i] in "cp" else 14
                for k in range(4):
                    beh.append({"a": "send", "arg": {"i": i, "data": ([0, 0] if kinds[i] in "cp" else []) + [rng.choice(ids), i, k] + [rng.randrange(1, 256) for _ in range(n - 3)]}})
                beh.append({"a": "wait" if cxx else "loop", "arg": {"what": -1, "rvs": [1] * nin} if cxx else {"rs": [0, 0, 1, 0, 0, 0], "rvs": [1] * nin}})
        if hno % 4 == 1:
            # traffic in installments on a fresh socket-pair input: more than it reads in one go, a wait, more, then the loop
            cand = [i for i in kinds if kinds[i] == "s"]
            if cand:
                i = rng.choice(cand)
                for n in (4, 43, 3, 3, 3, 43, 8):
                    beh.append({"a": "send", "arg": {"i": i, "data": [rng.choice(ids), i] + [rng.randrange(256) for _ in range(n - 2)]}})
                beh.append({"a": "wait", "arg": {"what": -1, "rvs": [1] * nin}})
                for n in (3, 43, 3, 4):
                    beh.append({"a": "send", "arg": {"i": i, "data": [rng.choice(ids), i] + [rng.randrange(256) for _ in range(n - 2)]}})
                if cxx:
                    for _ in range(3):
                        beh.append({"a": "wait", "arg": {"what": -1, "rvs": [1] * nin}})
                        beh.append({"a": "next", "arg": {"x": 0}})
                        for _ in range(5):
                            beh.append({"a": "dispatch", "arg": {"r": 0, "clear": 0}})
                else:
                    beh.append({"a": "loop", "arg": {"rs": [0] * 12, "rvs": [1] * nin}})
        if hno % 3 == 0 and not cxx:
            # handler answers with and without the Default flag back to back (two messages buffered on one input)
            i = rng.randrange(1, nin + 1)
            beh.append({"a": "send", "arg": {"i": i, "data": message(i)}})
            beh.append({"a": "send", "arg": {"i": i, "data": message(i)}})
            beh.append({"a": "loop", "arg": {"rs": [1, 0, 0], "cl": [0, 0, 0], "rvs": [1] * nin, "kill": [0, 0]}})
        if hno % 4 == 2 and not cxx:
            # a listener accepts a connection (the slot table grows) while another input is ready in the same wait
            nin += 1
            listener = nin
            beh.append({"a": "add", "arg": {"k": "l", "tok": nin}})
            beh.append({"a": "conn", "arg": {"i": listener}})
            beh.append({"a": "send", "arg": {"i": 1, "data": message(1)}})
            beh.append({"a": "wait", "arg": {"what": -1, "rvs": [1] * nin, "kill": [0, 0]}})
            extra = 1
        for _ in range(steps):
            live = [i for i in range(1, nin + extra + 1) if i not in shut and i != listener]
            op = rng.choice(["send", "send", "send", "send", "shut", "wait", "wait", "next", "dispatch", "dispatch",
                             "dispatch", "loop", "loop", "unreg", "table", "attach", "refuse", "listen", "conn", "conn",
                             "relist", "default", "fini"])
            if cxx and op in ("loop", "listen", "conn", "relist"):
                op = rng.choice(["wait", "next", "dispatch"])
            if op == "send" and live:
                i = rng.choice(live)
                for _ in range(rng.choice([1, 1, 2, 3, 6])):
                    beh.append({"a": "send", "arg": {"i": i, "data": message(i)}})
            elif op == "shut" and live and rng.random() < 0.5:
                i = rng.choice(live)
                shut.add(i)
                beh.append({"a": "shut", "arg": {"i": i, "how": rng.choice(["shut", "close"])}})
            elif op == "wait":
                rvs = [rng.choice([1, 1, 1, 0, -1]) for _ in range(nin + extra)]
                beh.append({"a": "wait", "arg": {"what": rng.choice([-1, -1, -1, 1, 1, 4]), "rvs": rvs, "kill": kill()}})
                if listener:
                    extra = min(extra + 1, 6)
            elif op == "next":
                beh.append({"a": "next", "arg": {"x": 0}})
            elif op == "dispatch":
                beh.append({"a": "dispatch", "arg": hr()})
            elif op == "default" and rng.random() < 0.3:
                beh.append({"a": "default", "arg": hr()})
            elif op == "relist" and rng.random() < 0.3:
                beh.append({"a": "relist", "arg": {"x": 0}})
            elif op == "loop":
                rvs = [rng.choice([1, 1, 1, 1, 0, -1]) for _ in range(nin + extra)]
                rs = [rng.choice([0, 0, 0, 0, 1, 1, 2, 3, 4, 6, -1]) for _ in range(rng.randrange(0, 12))]
                cl = [rng.choice([0, 0, 0, 1]) for _ in rs]
                beh.append({"a": "loop", "arg": {"rs": rs, "cl": cl, "rvs": rvs, "kill": kill()}})
                if listener:
                    extra = min(extra + 2, 6)
            elif op == "unreg" and rng.random() < 0.3 and nin:
                beh.append({"a": "unreg", "arg": {"i": rng.randrange(1, nin + extra + 1)}})
            elif op == "table" and attached:
                table_ops(1)
            elif op == "attach" and rng.random() < 0.15:
                if not cxx and rng.random() < 0.4:
                    tok += 1
                    beh.append({"a": "direct", "arg": {"tok": tok}})
                    attached = False
                else:
                    beh.append({"a": "attach", "arg": {"x": 0}})
                    attached = True
                    table_ops(rng.randrange(0, 3))
            elif op == "refuse" and rng.random() < 0.3:
                if nin and rng.random() < 0.6:
                    beh.append({"a": "addsame", "arg": {"of": rng.randrange(1, nin + 1)}})
                elif cxx or rng.random() < 0.4:
                    beh.append({"a": "addbad", "arg": {"x": 0}})
                else:
                    beh.append({"a": "addfile", "arg": {"x": 0}})
            elif op == "listen" and late_listener and listener is None and rng.random() < 0.5:
                # the listener is the last input added: what it accepts gets the following tokens
                nin += 1
                listener = nin
                beh.append({"a": "add", "arg": {"k": rng.choice("llo"), "tok": nin}})
            elif op == "conn" and listener:
                beh.append({"a": "conn", "arg": {"i": listener}})
            elif op == "fini" and rng.random() < 0.1 and listener is None:
                beh.append({"a": "fini", "arg": {"x": 0}})
                attached = False
                if rng.random() < 0.7:
                    beh.append({"a": "attach", "arg": {"x": 0}})
                    attached = True
                    table_ops(rng.randrange(1, 3))
        beh.append({"a": "fini", "arg": {"x": 0}})
        behs.append(beh)
    return behs


def run_part(ck, tier):
    cfg = CFG[tier]
    exe = build()
    notes = ck.notes.setdefault("x11_notify", {})

    t0 = time.time()
    def mark(name, _l=[t0]):
        notes.setdefault("phase_wall_s", {})[name] = round(time.time() - _l[0], 1)
        _l[0] = time.time()
    mark("build")
    # 1. model
    for mc in cfg["mcs"]:
        res = vlib.tlc("MC_Notify", mc)
        ck.add_tlc(res, "exhaustive " + mc)

    mark("model_check")
    # 2. binding A
    nt = set()
    if cfg["dump"]:
        # large dumps: streamed, parallel replay; the behaviours that differ are run again and handed to TLC
        ngen = done = 0
        behs, recs, mms = [], [], []
        for g in cfg["gens"]:
            path = os.path.join(vlib.WORK, "x11-%s-%d.out" % (g.split(".")[0], os.getpid()))
            try:
                gen = vlib.tlc_to_file("Gen_Notify", g, path, workers=1)
                if gen.error:
                    raise vlib.MachineryError("behaviour export failed (%s): %s" % (g, gen.error))
                mark("behaviour_export")
                tot = vlib.replay_file(path, exe, match=match, nontrivial=nontrivial, chunk=8000, procs=8)
            finally:
                if os.path.exists(path):
                    os.unlink(path)
            ngen += tot["n"]
            done += tot["n"]
            nt |= tot["nontrivial"]
            notes["replay_mismatches_first_pass"] = notes.get("replay_mismatches_first_pass", 0) + tot["mismatches"]
            behs += [d["behaviour"] for d in tot["details"]]
            if tot["samples"]:
                ck.cov["samples"] = ck.cov.get("samples", []) + tot["samples"][:1]
        mark("replay")
        if behs:
            recs, _ = run_chunks(exe, behs)
            mms = vlib.compare(behs, recs, match)
        accepted, soft, kinds = defer(ck, behs, recs, mms)
        mark("deferred_to_tlc")
        notes["behaviours_generated"] = ngen
    else:
        behs = []
        for g in cfg["gens"]:
            gen = vlib.tlc("Gen_Notify", g, workers=1, tag="Gen_Notify_" + g.split(".")[0][4:])
            if gen.error or gen.violation:
                raise vlib.MachineryError("behaviour export failed (%s): %s %s" % (g, gen.error, gen.violation))
            behs += vlib.parse_behaviours(gen.out)
        mark("behaviour_export")
        recs, done = run_chunks(exe, behs)
        mms = vlib.compare(behs[:done], recs, match)
        mark("replay")
        accepted, soft, kinds = defer(ck, behs, recs, mms)
        mark("deferred_to_tlc")
        by = vlib.group_records(recs)
        for b, beh in enumerate(behs[:done]):
            if nontrivial(by.get(b, [])):
                nt.add(key_of(beh))
        notes["behaviours_generated"] = len(behs)
        if done < len(behs):
            notes["replay_cut_short"] = "more than %d crashes" % MAX_FAULTS
        if behs:
            ck.cov["samples"] = ck.cov.get("samples", []) + [vlib.sample_repr(behs[len(behs) // 2])]
    ck.cov["evaluations"] += done
    notes["replayed_behaviours"] = done
    notes["replay_differences_handed_to_tlc"] = soft
    notes["of_these_accepted_by_tlc"] = accepted
    notes["replay_mismatch_kinds"] = kinds

    # 2b. the same for the notifier's portable poll() path (waits for POLLIN only: there the two paths mean the same)
    expoll = build_poll()
    if cfg["poll_gen"]:
        gen = vlib.tlc("Gen_Notify", cfg["poll_gen"], workers=1, tag="Gen_Notify_p")
        if gen.error or gen.violation:
            raise vlib.MachineryError("behaviour export failed (%s): %s %s" % (cfg["poll_gen"], gen.error, gen.violation))
        pbehs = poll_subset(vlib.parse_behaviours(gen.out))
    else:
        pbehs = poll_subset([b for b in behs if all("exp" in st for st in b)])[::cfg["poll_every"]]
    MODE[0] = "poll:"
    try:
        precs, pdone = run_chunks(expoll, pbehs)
        pmms = vlib.compare(pbehs[:pdone], precs, match)
        paccepted, psoft, pkinds = defer(ck, pbehs, precs, pmms)
    finally:
        MODE[0] = ""
    ck.cov["evaluations"] += pdone
    notes["poll_path"] = {"replayed_behaviours": pdone, "replay_differences_handed_to_tlc": psoft,
                          "of_these_accepted_by_tlc": paccepted, "replay_mismatch_kinds": pkinds}
    mark("poll_path")

    # 2c. the mpt++ notify class (inputs of the C++ interface): a share of the behaviours it can execute
    excxx = build_cxx()
    cbehs = cxx_subset(pbehs if cfg["poll_gen"] else [b for b in behs if all("exp" in st for st in b)])[::cfg["cxx_every"]]
    MODE[0] = "cxx:"
    try:
        crecs, cdone = run_chunks(excxx, cbehs)
        cmms = vlib.compare(cbehs[:cdone], crecs, match)
        caccepted, csoft, ckinds = defer(ck, cbehs, crecs, cmms)
    finally:
        MODE[0] = ""
    ck.cov["evaluations"] += cdone
    notes["cxx"] = {"replayed_behaviours": cdone, "replay_differences_handed_to_tlc": csoft,
                    "of_these_accepted_by_tlc": caccepted, "replay_mismatch_kinds": ckinds}
    mark("cxx")

    # 3. binding B: seeded histories (fine-grained calls and runs of the real mpt_loop) validated by TLC
    hist = gen_histories(ck, cfg["nhist"], cfg["steps"])
    recs2, _ = vlib.run_driver(exe, vlib.to_script(hist), env=ENV, timeout=1200)
    recs2 = vseam.rerun_hung(exe, hist, recs2)
    events = flatten(hist, recs2)
    hx = gen_histories(ck, max(cfg["nhist"] // 4, 6), cfg["steps"], cxx=True)
    recs3, _ = vlib.run_driver(excxx, vlib.to_script(hx), env=ENV, timeout=1200)
    recs3 = vseam.rerun_hung(excxx, hx, recs3)
    evx = flatten(hx, recs3, base=len(hist))
    for e in evx:
        e["cxx"] = 1
    events += evx
    hist = hist + hx
    mark("histories_run")
    ok, matched, bad = validate(ck, events, "hist", hist, "B(trace validation)")
    mark("trace_validation")
    by2 = vlib.group_records(recs2)
    loops = sum(1 for e in events if e["a"] == "loop")
    subs = sum(1 for e in events if "sub" in e)
    for b, beh in enumerate(hist):
        if nontrivial(by2.get(b, [])):
            nt.add(key_of(beh))
    ck.cov["traces_validated_against_impl"] += len(hist) if ok else 0
    ck.cov["evaluations"] += len(hist)
    ck.cov["distinct_nontrivial"] += len(nt)
    notes["trace_events"] = len(events)
    notes["trace_events_matched"] = matched
    notes["mpt_loop_runs"] = loops
    notes["mpt_loop_internal_steps"] = subs
    notes["rule"] = ("A: one behaviour per transition of the TLC state graph of Notify under the view (kinds, registered / "
                     "listed / in-hand inputs, messages on the wire, ids buffered, end of data, pending connections, "
                     "dispatcher attached, ids with a handler) replayed into the C functions; differences go to TLC.  "
                     "B: seeded histories over up to 7 inputs of all kinds with runs of the real mpt_loop, validated by TLC.")
    ck.assumptions += ["drv/notify.c projects without judgement (maps pointers in notify._slot/_wait to input tokens, "
                       "detects release of library inputs by their descriptor's inode, logs handler and harness-input calls)",
                       "mptio/notify/loop.c is compiled into the driver with mpt_notify_wait/next renamed to recording hooks "
                       "that call the library functions (wait with timeout 0; an idle blocking wait ends the loop)"]


def replay(det, path="-"):
    beh = det.get("behaviour")
    if not beh:
        print(json.dumps(det, indent=1)[:4000])
        return 2
    exe = build_poll() if det.get("poll") else build_cxx() if det.get("cxx") else build()
    recs, err = vlib.run_driver(exe, vlib.to_script([beh]), env=ENV)
    recs = vseam.rerun_hung(exe, [beh], recs)
    events = flatten([beh], recs)
    ok, matched, _ = vlib.validate_trace("Trace_Notify", events, tag="Trace_Notify_replay")
    if not ok:
        print("VIOLATION property=%s replay=%s  (trace rejected at event %d: %s)" % (
            PID, path, matched, json.dumps(events[matched])[:600] if matched < len(events) else "-"))
    return 0 if ok else 1
