"""X17 (extension of C17) -- the other consumers and producers of fragmented messages (spec/MsgUse.tla).

run_part(ck, tier) adds to the vlib.Check of C17:
  * TLC: exhaustive check of MsgUse (heads x strings x every cut incl. empty fragments and the cut with no fragment
    x every use): the fragment design of every use answers what its meaning on the contiguous string says,
  * binding A: every case (string, cut, use, expected answer) exported by TLC and replayed into drv/msguse.c and
    drv/msguse_cxx.cpp (C++ wrappers), all expected keys compared for equality,
  * binding B: seeded long messages (up to 2000 bytes, <= 14 fragments) run through the real code, the recorded
    answers validated by TLC against the same operators (Trace_MsgUse).
"""
import concurrent.futures
import hashlib
import json
import os
import random
import time

import vlib

TAG = "x17"
CFG = {
    "quick": dict(mc=[("MC_MsgUse_a.cfg", 3), ("MC_MsgUse_b.cfg", 3), ("MC_MsgUse_c.cfg", 2), ("MC_MsgUse_v.cfg", 2)],
                  gen=["Gen_MsgUse_a.cfg", "Gen_MsgUse_b.cfg", "Gen_MsgUse_c.cfg", "Gen_MsgUse_v.cfg"],
                  nmsg=120, nlong=10, shards=2),
    "thorough": dict(mc=[("MC_MsgUse_at.cfg", 6), ("MC_MsgUse_bt.cfg", 6), ("MC_MsgUse_ct.cfg", 3), ("MC_MsgUse_vt.cfg", 3),
                         ("MC_MsgUse_af.cfg", 4), ("MC_MsgUse_bf.cfg", 4)],
                     gen=["Gen_MsgUse_at.cfg", "Gen_MsgUse_bt.cfg", "Gen_MsgUse_ct.cfg", "Gen_MsgUse_vt.cfg"],
                     nmsg=1200, nlong=80, shards=6),
}
FAST_ASAN = {"ASAN_OPTIONS": vlib.ASAN_ENV + ":symbolize=0"}
JVM = {"JAVA_TOOL_OPTIONS": "-XX:ParallelGCThreads=2"}
CXX_ACTIONS = {"init", "read", "length", "cxxdispatch"}
CHUNK = 8000


def enabled():
    """The part needs its fix commits (docs/X17_msgiter.md) in the tree under test: it is switched on by the marker file
    checks/x17_msgiter.accepted (created when those commits are integrated) or by VERIF_X17=1, off by VERIF_X17=0."""
    env = os.environ.get("VERIF_X17")
    if env is not None:
        return env not in ("0", "")
    return os.path.exists(os.path.join(vlib.ROOT, "checks", "x17_msgiter.accepted"))


def build():
    exe = vlib.build_driver("msguse", ["msguse.c"], libs=("mptplot", "mptio", "mptcore"))
    exx = vlib.build_driver("msguse_cxx", ["msguse_cxx.cpp"], libs=("mpt++", "mptcore"), cxx=True)
    return exe, exx


def match(exp, obs, step=None, rec=None, prev=None):
    """Key-wise equality of what the specification expects.  The command text a handler was looked up by is observed
    through its hash: the driver lists every substring of the message with that hash ("cmds", normally one) and the
    expected text has to be among them."""
    for k, v in exp.items():
        if k == "cmd" and "cmds" in obs:
            c = obs["cmds"]
            if (not v and c) or (v and v[0] not in c):
                return "cmd: expected %s, observed (by hash) %s" % (json.dumps(v)[:300], json.dumps(c)[:300])
            continue
        if k not in obs:
            return "%s: missing observation" % k
        if obs[k] != v:
            return "%s: expected %s, observed %s" % (k, json.dumps(v)[:300], json.dumps(obs[k])[:300])
    return None


def frag_class(beh):
    for st in beh:
        if st["a"] == "init":
            cut = st["arg"]["cut"]
            n = len(st["arg"]["data"])
            size = ",len>1024" if n > 1024 else ",len>256" if n > 256 else ",len>128" if n > 128 else ""
            return ("no-fragment" if not cut else "one-fragment" if len(cut) == 1 else "fragmented") + size
    return "none"


def signature(beh, i, why, lang="c"):
    """x17:<use>:<differing observation>:<how the message was cut>[,<size class>][,dst=no-fragment][:cxx]"""
    extra = ""
    if beh[i]["a"] == "vmemcpy" and not (beh[i].get("arg") or {}).get("dcut"):
        extra = ",dst=no-fragment"
    return "x17:%s:%s:%s%s%s" % (beh[i]["a"], why.split(":")[0].split(" ")[0], frag_class(beh[:i + 1]), extra,
                                 ":cxx" if lang == "cxx" else "")


def case_key(beh):
    return hashlib.sha1(json.dumps([(s["a"], s.get("arg")) for s in beh], sort_keys=True).encode()).digest()[:8]


def nontrivial(beh):
    """the message had at least two fragments and at least two bytes, or no fragment at all."""
    for st in beh:
        if st["a"] == "init":
            cut = st["arg"]["cut"]
            return (len(cut) >= 2 and len(st["arg"]["data"]) >= 2) or not cut
    return False


def split_lang(behs):
    bc = [b for b in behs if all(s["a"] != "cxxdispatch" for s in b)]
    bx = [b for b in behs if len(b) > 1 and all(s["a"] in CXX_ACTIONS for s in b)]
    return bc, bx


def run_chunks(exe, behs):
    recs = []
    for lo in range(0, len(behs), CHUNK):
        r, _ = vlib.run_driver(exe, vlib.to_script(behs[lo:lo + CHUNK]), env=FAST_ASAN, timeout=1200)
        for x in r:
            if isinstance(x.get("b"), int):
                x["b"] += lo
        recs += r
    return recs


def replay_cases(exe, behs, lang):
    recs = run_chunks(exe, behs)
    mms = vlib.compare(behs, recs, match)
    kept = []
    for mm in mms:
        # a fault or time-out is re-run alone once before it is reported
        if mm["why"] in ("Crash", "Hang", "no record (driver stopped)"):
            recs1, _ = vlib.run_driver(exe, vlib.to_script([behs[mm["b"]]]), env=FAST_ASAN)
            again = vlib.compare([behs[mm["b"]]], recs1, match)
            if not again:
                continue
            mm = dict(again[0], b=mm["b"])
        kept.append(dict(mm, lang=lang))
    return kept


def gen_job(a):
    cfg, exe, exx = a
    t0 = time.time()
    gen = vlib.tlc("Gen_MsgUse", cfg, workers=2, env=JVM, tag="Gen_MsgUse-" + cfg)
    if gen.error or gen.violation:
        return dict(kind="gen", cfg=cfg, error="behaviour export failed: %s %s" % (gen.error, gen.violation))
    behs = [b[1:] for b in vlib.parse_behaviours(gen.out)]
    generated = gen.generated
    gen.out = ""
    bc, bx = split_lang(behs)
    out, seen = [], {}
    nmm = 0
    for exe_, bl, lang in ((exe, bc, "c"), (exx, bx, "cxx")):
        for mm in replay_cases(exe_, bl, lang):
            nmm += 1
            beh = bl[mm["b"]]
            sig = signature(beh, mm["i"], mm["why"], lang)
            seen[sig] = seen.get(sig, 0) + 1
            if seen[sig] <= 3:
                out.append(dict(sig=sig, behaviour=beh, step=mm["i"], why=mm["why"], record=mm["rec"], lang=lang))
    nt = set(case_key(b) for b in behs if nontrivial(b))
    uses = {}
    for b in behs:
        uses[b[-1]["a"]] = uses.get(b[-1]["a"], 0) + 1
    mid = len(bc) // 2
    return dict(kind="gen", cfg=cfg, error=None, n=len(bc) + len(bx), ncases=len(behs), ncxx=len(bx), nmm=nmm, mms=out,
                sigcount=seen, nt=nt, generated=generated, wall=time.time() - t0, uses=uses,
                samples=[vlib.sample_repr(b) for b in bc[mid:mid + 1]])


def mc_job(a):
    cfg, workers = a
    res = vlib.tlc("MC_MsgUse", cfg, workers=workers, tag="MC_MsgUse-" + cfg, env=JVM)
    return dict(kind="mc", cfg=cfg, distinct=res.distinct, generated=res.generated, depth=res.depth, wall=res.wall,
                error=res.error, violation=res.violation, tail=res.out[-6000:] if (res.violation or res.error) else "")


# --------------------------------------------------------------------------
# binding B: seeded long messages -- call sequences only, no expected values
# --------------------------------------------------------------------------
WORDS = [b"set", b"a", b"value", b"x=1", b"mpt", b"path.to.item", b"12.5", b"--flag", b"it's", b"name=val", b"'q x'=1",
         b"k=\"v w\"", b"=", b"a=", b"\"n=m\"", b"longer-command-word", b"q\\\"q"]
WHITE = [b" ", b" ", b"  ", b"\t", b"\n", b" \v"]
SEPS = [0, 32, 32, 44, 47, 9, 97]


def rand_text(rng, n, sep):
    out = bytearray()
    if rng.random() < 0.3:
        out += rng.choice(WHITE) * rng.randrange(1, 3)
    while len(out) < n:
        r = rng.random()
        w = rng.choice(WORDS)
        if r < 0.15:
            q = rng.choice([b'"', b"'"])
            w = q + w + rng.choice(WHITE) + rng.choice(WORDS) + (q if rng.random() < 0.85 else b"")
        elif r < 0.2:
            w = bytes(rng.choice([0, 1, 32, 61, 34, 200, 255, 97]) for _ in range(rng.randrange(1, 6)))
        elif r < 0.25:
            w = w * rng.randrange(2, 30)          # long arguments (beyond the 128 byte buffer of dispatch_hash)
        out += w
        if sep in (0, 44, 47, 97) and rng.random() < 0.8:
            out += bytes([sep])
        elif rng.random() < 0.06:
            out += b"\0"
        else:
            out += rng.choice(WHITE)
    return list(out[:n])


INT_FORMATS = [224, 160, 225, 161, 227, 163, 231, 167]      # native order int8/uint8/int16/uint16/int32/uint32/int64/uint64


def rand_values(rng, n):
    """A value-format message (type 9): format list or inline formats, integer elements (mostly small numbers)."""
    nf = rng.choice([0, 0, 1, 2, 3, 5])
    fl = [rng.choice(INT_FORMATS) for _ in range(nf)]
    out = [9, nf] + fl
    k = 0
    while len(out) < n + 2 and k < 200:
        f = fl[k % nf] if nf else rng.choice(INT_FORMATS)
        size = (f % 32) + 1
        signed = (f % 128) // 32 == 3
        v = rng.choice([0, 1, -1, 5, 127, 128, 255, 256, -129, 65535, 70000, -70000, 536870911, 536870912, -536870912,
                        rng.randrange(-1 << 40, 1 << 40), rng.randrange(-300, 300)])
        raw = list((v % (1 << (8 * size))).to_bytes(size, "little"))
        out += ([] if nf else [f]) + raw
        k += 1
    r = rng.random()
    if r < 0.15 and len(out) > 3:
        out = out[:rng.randrange(1, len(out))]      # cut short: incomplete value / format list
    elif r < 0.2:
        out += [0, 1]
    return out


def rand_cut(rng, total, maxfrag):
    if total == 0 and rng.random() < 0.3:
        return []
    k = rng.choice([1, 2, 2, 3, 3, 4, rng.randrange(1, maxfrag + 1)])
    pts = sorted(rng.choice([0, total, rng.randrange(total + 1), rng.randrange(total + 1), min(total, rng.randrange(1, 4))])
                 for _ in range(k - 1))
    pts = [0] + pts + [total]
    return [pts[i + 1] - pts[i] for i in range(k)]


def rand_len(rng, big):
    if big:
        return rng.choice([129, 200, 255, 256, 257, 300, 600, 1022, 1023, 1024, 1025, 1030, 1500, 2000])
    return rng.choice([0, 1, 2, 3, rng.randrange(4, 40), rng.randrange(40, 128), rng.randrange(4, 300)])


def gen_traces(rng, nmsg, nlong, cxx=False):
    behs = []
    for m in range(nmsg + nlong):
        big = m >= nmsg
        fam = rng.choice(["cmd", "cmd", "cfg", "assign", "sink", "val"])
        sep = rng.choice(SEPS)
        n = rand_len(rng, big)
        if fam == "cmd":
            head = rng.choice([[4, sep], [4, sep], [4, sep], [4, 0], [5, 32], [0, 0], [4], []])
            data = head + rand_text(rng, n, sep)
        elif fam == "assign":
            k = rng.choice([0, 1, 1, 2, 3])
            body = bytearray()
            for _ in range(rng.choice([k, k, k + 1, max(k - 1, 0)])):
                body += rng.choice(WORDS) + b"\0"
            body += bytes(rand_text(rng, n, 32))
            data = rng.choice([[6, k], [6, k], [7, k], [6], []]) + list(body)
        elif fam == "val":
            data = rand_values(rng, n)
        else:
            data = rand_text(rng, n, sep)
        beh = [{"a": "init", "arg": {"data": data, "cut": rand_cut(rng, len(data), 14)}}]
        est = len(data)
        if cxx:
            ops = ["read", "length", "cxxdispatch", "cxxdispatch"]
        elif fam == "val":
            ops = ["histpush", "histpush", "length"]
        elif big:
            ops = ["hash", "assign", "property", "dgreply", "read", "length", "sappend", "emit", "cfgnext", "outvals", "deccmd"]
        elif fam == "cmd":
            ops = ["evcmd", "evcmd", "hash", "hash", "emit", "clientcmd", "iter", "read", "length"]
        elif fam == "cfg":
            ops = ["cfgnext", "cfgnext", "cfgnext", "property", "property", "iter", "clientcmd", "length", "deccmd"]
        elif fam == "assign":
            ops = ["assign", "assign", "assign", "cfgnext", "length", "read"]
        else:
            ops = ["sappend", "sappend", "dgreply", "read", "length", "iter", "vmemcpy", "outvals", "outvals", "deccmd"]
        for _ in range(rng.randrange(2, 5) if big else rng.randrange(4, 12)):
            op = rng.choice(ops)
            if op in ("hash", "clientcmd", "cxxdispatch") and len(data) > 700:
                op = "length"      # the driver's search for the hashed text is cubic in the message length
            if op == "deccmd" and not beh[0]["arg"]["cut"]:
                op = "length"      # a list without entries means "no more input" to the decoder, not empty data
            if op == "read":
                k = rng.choice([0, 1, 2, 3, rng.randrange(est + 3), rng.randrange(est // 4 + 2)])
                arg = {"n": k, "dest": rng.choice([0, 1, 1])}
                est = max(est - k, 0)
            elif op in ("iter", "clientcmd", "cfgnext", "property"):
                arg = {"sep": rng.choice([sep, sep, sep, 0, 32])}
            elif op == "assign":
                arg = {"n": rng.choice([-1, -1, 0, 1, 2, 3])}
            elif op == "sappend":
                arg = {"kind": rng.choice(["raw", "cobs", "cobs"]), "pre": rng.choice([[], [], [7, 0], [1, 2, 3]]),
                       "twice": rng.choice([0, 0, 1])}
            elif op == "dgreply":
                il = rng.choice([0, 1, 2, 4])
                arg = {"idlen": il, "id": rng.randrange(1 << (8 * il - 1)) if il else 0}
            elif op == "outvals":
                ld = rng.choice([1, 1, 2, 3])
                arg = {"n": rng.choice([0, 1, 2, 31, 32, 33, 64, 65, 100, est // (8 * ld) + 1, rng.randrange(est // 8 + 2)]),
                       "ld": ld, "cap": rng.choice([0, 0, 1, 5, 8, 64, 255, 256, 257, rng.randrange(1, 300)])}
            elif op == "deccmd":
                arg = {"curr": rng.choice([2, 2, 2, 3, 0, 1, est, est + 1, est + 2, est + 3, rng.randrange(est + 4)])}
            elif op == "vmemcpy":
                total = rng.choice([0, 1, est, rng.randrange(est + 4)])
                arg = {"n": rng.choice([-1, 0, 1, total, est, total + 1]), "dcut": rand_cut(rng, total, 5)}
            else:
                arg = {"x": 0}
            beh.append({"a": op, "arg": arg})
        behs.append(beh)
    return behs


# --------------------------------------------------------------------------
# binding B, second family: messages sized around the consumers' internal buffers, every one in several cuts
# (same bytes, same use: the answer recomputed by TLC from the contiguous string has to fit every cut)
# --------------------------------------------------------------------------


def limit_cuts(rng, total, lim, extra):
    """Cuts of a message of `total` bytes whose payload meets a buffer of `lim` bytes: one piece, small / empty leading
    piece, borders just below / at / above the limit, many pieces."""
    cuts = [[total], [min(3, total), total - min(3, total)], [0, total]]
    for b in (lim - 1, lim, lim + 1):
        if 0 < b < total:
            cuts.append([b, total - b])
    if total > 8:
        h = total // 2
        cuts.append([h, 0, total - h])
        cuts.append([1, 1, total - 2])
    for _ in range(extra):
        cuts.append(rand_cut(rng, total, 14) or [total])
    return cuts


def text_bytes(rng, n):
    return [rng.choice(b"abcdefghijklmnopqrstuvwxyz0123456789.-") for _ in range(n)]


def gen_limit_traces(rng, tier):
    """Call sequences only.  For every consumer with a fixed internal buffer: payload sizes limit-2 .. limit+2 and
    clearly larger ones x several cuts x the use (in the forms that matter)."""
    full = tier != "quick"
    extra = 3 if full else 0
    behs = []

    def add(data, lim, steps):
        for cut in limit_cuts(rng, len(data), lim, extra):
            behs.append([{"a": "init", "arg": {"data": data, "cut": cut}}] + [dict(a=a, arg=dict(arg)) for a, arg in steps])

    def sizes(lim):
        base = [lim - 2, lim - 1, lim, lim + 1, lim + 2]
        return base + ([lim + 200, 2 * lim + 1] if full else [lim + rng.choice([100, 476])])

    # mpt_message_assign: 1024 byte copy of everything behind the head
    for t in sizes(1024):
        key = rng.choice([b"key", b"path.to.item", b"k"])
        body = list(key) + [0] + text_bytes(rng, t - len(key) - 1)
        add(body, 1024, [("assign", {"n": 1}), ("assign", {"n": 0})])
        add([6, 1] + body, 1026, [("assign", {"n": -1})])
        if full:
            body2 = list(b"a") + [0] + list(b"b") + [0] + text_bytes(rng, t - 4)
            add(body2, 1024, [("assign", {"n": 2}), ("assign", {"n": 3})])
    # mpt_message_property: 1024 byte copy of the argument (separator 0: the argument is everything up to a NUL)
    for t in sizes(1024):
        arg = list(b"name=") + text_bytes(rng, t - 5)
        add(arg + rng.choice([[], [0, 120, 61, 49]]), 1024, [("property", {"sep": 0})])
    # mpt_dispatch_hash: 128 byte copy of a command text that is not in one piece
    for t in sizes(128):
        txt = text_bytes(rng, t)
        add([4, 0] + txt, 130, [("hash", {"x": 0}), ("evcmd", {"x": 0})])
        add([4, 32] + txt + [32, 97], 130, [("hash", {"x": 0})])
    # mpt_outdata_reply: 256 byte datagram buffer including the identifier
    for t in sizes(254):
        add(text_bytes(rng, t), 254, [("dgreply", {"idlen": 2, "id": 258})])
    for t in ([255, 256, 257] if full else [256]):
        add(text_bytes(rng, t), 256, [("dgreply", {"idlen": 0, "id": 0})])
    # mpt_stream_append: the write queue grows in steps of 256 bytes
    for t in ([255, 256, 257, 513] if full else [256, 513]):
        add(text_bytes(rng, t), 256, [("sappend", {"kind": "cobs", "pre": [], "twice": 0}),
                                       ("sappend", {"kind": "raw", "pre": [7, 0], "twice": 1})])
    # mpt_output_values: 32 values per 256 byte buffer, outputs taking parts of it
    for n in ([31, 32, 33, 65] if full else [32, 33]):
        data = [rng.randrange(256) for _ in range(n * 16)]
        behs.append([{"a": "init", "arg": {"data": data, "cut": [len(data)]}}] +
                    [{"a": "outvals", "arg": {"n": n, "ld": 2, "cap": cap}} for cap in (0, 5, 255, 256, 257)])
    return behs


def trace_job(a):
    seed, nmsg, nlong, exe, lang = a
    t0 = time.time()
    rng = random.Random(seed)
    if lang == "limits":
        hist = gen_limit_traces(rng, nmsg)[nlong::2]       # (tier, shard) in the places of (nmsg, nlong)
    else:
        hist = gen_traces(rng, nmsg, nlong, cxx=(lang == "cxx"))
    recs, _ = vlib.run_driver(exe, vlib.to_script(hist), env=FAST_ASAN, timeout=1200)
    events = vlib.merge_trace(hist, recs)
    tag = "Trace_MsgUse-%s-%d" % (lang, seed)
    ok, matched, tres = vlib.validate_trace("Trace_MsgUse", events, tag=tag, extra_env=JVM, xss="1g")
    bad = None
    if not ok:
        ok2, matched2, _ = vlib.validate_trace("Trace_MsgUse", events, tag=tag, extra_env=JVM, xss="1g")
        if ok2:
            ok, matched = ok2, matched2
        elif matched2 == matched:
            ev = events[matched] if matched < len(events) else None
            beh = hist[ev["b"]] if ev else None
            why = ev["a"] if ev and ev["a"] in ("Crash", "Hang", "Missing", "Garbled") else "rejected"
            bad = dict(event=ev, previous=events[matched - 1] if matched else None, behaviour=beh, matched=matched, lang=lang,
                       sig="trace:" + (signature(beh, ev["i"], why, lang) if ev else "x17:short"))
        else:
            raise vlib.MachineryError("trace validation is not repeatable (%s / %s events matched)" % (matched, matched2))
    nt = set(case_key(b) for b in hist if nontrivial(b))
    return dict(kind="trace", ok=ok, n=len(hist), events=len(events), matched=matched, generated=tres.generated, bad=bad,
                nt=nt, lang=lang, samples=[vlib.sample_repr(hist[0][:4])], wall=time.time() - t0, wall_tlc=tres.wall)


def run_part(ck, tier):
    cfg = CFG[tier]
    exe, exx = build()
    jobs = [(mc_job, (c, w)) for c, w in cfg["mc"]]
    jobs += [(gen_job, (c, exe, exx)) for c in cfg["gen"]]
    ns = cfg["shards"]
    for s in range(ns):
        jobs.append((trace_job, (ck.seed * 1000 + 170 + s, cfg["nmsg"] // ns, max(cfg["nlong"] // ns, 1), exe, "c")))
    jobs.append((trace_job, (ck.seed * 1000 + 199, cfg["nmsg"] // 4, max(cfg["nlong"] // 4, 1), exx, "cxx")))
    # messages sized around the consumers' buffers (128 / 256 / 1024 bytes), each in several cuts; two shards
    jobs.append((trace_job, (ck.seed * 1000 + 160, tier, 0, exe, "limits")))
    jobs.append((trace_job, (ck.seed * 1000 + 160, tier, 1, exe, "limits")))
    results = []
    with concurrent.futures.ProcessPoolExecutor(max_workers=6 if tier == "quick" else 8) as ex:
        futs = [ex.submit(f, a) for f, a in jobs]
        for fu in futs:
            results.append(fu.result())

    notes = ck.notes.setdefault("x17_msgiter", {})
    nt = set()
    replayed = cases = mism = traces = tevents = tmatched = 0
    uses, sigs = {}, {}
    samples = []
    for r in results:
        if r["kind"] == "mc":
            res = vlib.TlcResult()
            res.rc, res.distinct, res.generated, res.depth, res.wall = 0, r["distinct"], r["generated"], r["depth"], r["wall"]
            res.error, res.violation, res.out = r["error"], r["violation"], r["tail"]
            ck.add_tlc(res, "x17 exhaustive " + r["cfg"])
        elif r["kind"] == "gen":
            if r["error"]:
                raise vlib.MachineryError(r["error"])
            replayed += r["n"]
            cases += r["ncases"]
            mism += r["nmm"]
            nt |= r["nt"]
            ck.cov["transitions"] += r["generated"]
            samples += r["samples"]
            for k, v in r["uses"].items():
                uses[k] = uses.get(k, 0) + v
            for k, v in r["sigcount"].items():
                sigs[k] = sigs.get(k, 0) + v
            for mm in r["mms"]:
                ck.violation(mm["sig"], {"binding": "A(replay)", "part": "x17", "cfg": r["cfg"], "lang": mm["lang"],
                                         "behaviour": mm["behaviour"], "step": mm["step"], "why": mm["why"],
                                         "record": mm["record"], "cases_with_this_signature": r["sigcount"][mm["sig"]]})
        else:
            traces += r["n"] if r["ok"] else 0
            tevents += r["events"]
            tmatched += r["matched"]
            nt |= r["nt"]
            ck.cov["transitions"] += r["generated"]
            samples += r["samples"]
            if r["bad"]:
                b = r["bad"]
                ck.violation(b["sig"], {"binding": "B(trace validation)", "part": "x17", "lang": b["lang"],
                                        "matched_prefix": b["matched"], "rejected_event": b["event"],
                                        "previous_event": b["previous"], "behaviour": b["behaviour"]})
    ck.cov["evaluations"] += replayed + tevents
    ck.cov["traces_validated_against_impl"] += traces
    ck.cov["distinct_nontrivial"] += len(nt)
    ck.cov["samples"] = ck.cov.get("samples", []) + samples[:2]
    notes["cases_generated"] = cases
    notes["cases_replayed"] = replayed
    notes["cases_by_use"] = uses
    notes["replay_mismatches"] = mism
    notes["replay_mismatch_kinds"] = sigs
    notes["wall_s"] = {"gen": {r["cfg"]: round(r["wall"], 1) for r in results if r["kind"] == "gen"},
                       "trace": [round(r["wall"], 1) for r in results if r["kind"] == "trace"],
                       "trace_tlc": [round(r["wall_tlc"], 1) for r in results if r["kind"] == "trace"]}
    notes["trace_messages"] = traces
    notes["trace_events"] = tevents
    notes["trace_events_matched"] = tmatched
    notes["rule"] = ("A: one case per transition of the TLC state graph of MsgUse (heads x all strings over the configured "
                     "alphabets up to MaxLen x all cuts into <= MaxFrag fragments incl. empty ones and the cut with no "
                     "fragment x every use with every argument of the bounded sets), replayed into the C functions and, "
                     "for read/length/client::dispatch, into the C++ wrappers; B: seeded messages (<= 300 bytes, some up to "
                     "2000 bytes to pass the 128/256/1024 byte buffers of the consumers, <= 14 fragments) with 2..11 uses "
                     "each, recorded from the real code and validated by TLC.  Non-trivial = the message had >= 2 "
                     "fragments and >= 2 bytes, or no fragment at all; distinct by (string, cut, use sequence).")
    ck.assumptions += ["x17: drv/msguse.c / msguse_cxx.cpp project without judgement (copy iterator elements, paths, values, "
                       "datagrams, stream content; map return codes to classes); the command text of dispatch_hash / "
                       "client_command is observed through its hash (the driver lists the substrings of the message with that hash)",
                       "x17: frames of an encoded stream are read back with the library's own decoder (property C02)",
                       "x17: the meaning of a use on a contiguous string is the specification's, calibrated on one-fragment runs"]
    return ck


def replay(det, path=""):
    """Re-run the behaviour of a violation file written by run_part; returns 0/1/2 like check.py --replay."""
    beh = det.get("behaviour")
    if not beh:
        print(json.dumps(det, indent=1)[:4000])
        return 2
    exe, exx = build()
    use = exx if det.get("lang") == "cxx" else exe
    recs, err = vlib.run_driver(use, vlib.to_script([beh]))
    if all("exp" in s for s in beh):
        mms = vlib.compare([beh], recs, match)
        for mm in mms:
            print("VIOLATION property=C17 replay=%s  (%s: %s)" % (path, signature(beh, mm["i"], mm["why"], det.get("lang", "c")),
                                                                  mm["why"]))
            if mm["why"] in ("Crash", "Hang"):
                print(err[-3000:])
        return 1 if mms else 0
    events = vlib.merge_trace([beh], recs)
    ok, matched, _ = vlib.validate_trace("Trace_MsgUse", events, tag="Trace_MsgUse_replay", xss="1g")
    if not ok:
        print("VIOLATION property=C17 replay=%s  (x17 trace rejected at event %d: %s)" % (
            path, matched, json.dumps(events[matched])[:600] if matched < len(events) else "-"))
    return 0 if ok else 1
