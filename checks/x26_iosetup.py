"""C11 extension X26 -- how inputs come into existence and are exchanged (spec/IoSetup.tla).

run_part(ck, tier) adds to the C11 check: exhaustive TLC run of IoSetup, replay of TLC-generated behaviours into
mpt_notify_bind / mpt_notify_connect / mpt_bind + mpt_accept + mpt_notify_add / mpt_notify_config /
mpt_notify_wait / next / clear / fini (drv/iosetup.c; unix-domain sockets in a directory under _work/X26) and TLC
trace validation of seeded longer histories.  Python generates call sequences only and compares for equality."""
import json
import os
import shutil
import time
import vlib

PID = "C11"
PART = "x26_iosetup"
ENV = {"ASAN_OPTIONS": vlib.ASAN_ENV + ":symbolize=0"}
CFG = {
    "quick":    dict(mcs=["MC_IoSetup.cfg"], gens=["Gen_IoSetup.cfg", "Gen_IoSetup_c.cfg"], nhist=30, steps=40, sample=2500),
    "thorough": dict(mcs=["MC_IoSetup.cfg", "MC_IoSetup_t.cfg"], gens=["Gen_IoSetup_t.cfg", "Gen_IoSetup_c.cfg"], nhist=200, steps=80, sample=15000),
}
TOP = os.path.join(vlib.ROOT, "_work", "X26")
SCRATCH = os.path.join(TOP, "run-%d" % os.getpid())     # per run: several C11 runs may share the machine


def enabled():
    """Needs its fix commits (docs/X26_iosetup.md) in the tree under test: switched on by the marker file
    checks/x26_iosetup.accepted or by VERIF_X26=1, off by VERIF_X26=0."""
    env = os.environ.get("VERIF_X26")
    if env is not None:
        return env not in ("0", "")
    return os.path.exists(os.path.join(vlib.ROOT, "checks", "x26_iosetup.accepted"))


def build():
    return vlib.build_driver("iosetup", ["iosetup.c"], libs=("mptio", "mptcore"))


def match(exp, obs, step=None, rec=None, prev=None):
    return vlib.default_match(exp, obs, step, rec, prev)


def doors_of(beh, upto):
    ds = sorted({s["a"] for s in beh[:upto + 1] if s["a"] in ("listen", "connect", "accept", "config", "create", "change")})
    return "+".join(d[:4] for d in ds) or "-"


def signature(step, why, beh=None, i=0):
    key = why.lower() if why in ("Crash", "Hang", "Garbled", "Missing") else why.split(":")[0].split(" ")[0]
    return "x:iosetup:%s:%s:%s" % (step["a"], key, doors_of(beh, i) if beh else "-")


def run(exe, behs):
    os.makedirs(SCRATCH, exist_ok=True)
    env = dict(ENV)
    env["X26_DIR"] = SCRATCH
    recs, _ = vlib.run_driver(exe, vlib.to_script(behs), env=env, timeout=900)
    return recs


def key_of(beh):
    return json.dumps([(s["a"], s.get("arg")) for s in beh], sort_keys=True)


def nontrivial(recs):
    """a message reached the handler through an input AND an input was released"""
    got = rel = False
    for r in recs:
        o = r.get("obs") or {}
        got = got or bool(o.get("got"))
        rel = rel or bool(o.get("rel"))
    return got and rel


def gen_histories(ck, n, steps):
    """call sequences only (no expected values); the driver's answers select nothing but environment refusals"""
    rng = ck.rng
    behs = []
    for _ in range(n):
        beh = [{"a": "init", "arg": {"x": 0}}]
        nin = 0          # upper bound of tokens that may exist (accepted connections get tokens at waits)
        seq = 0
        dirty = set()    # inputs written to since the last wait: their peer does not go away with data in flight
        for _ in range(rng.randrange(steps // 2, steps)):
            op = rng.choice(["listen", "connect", "connect", "conn", "conn", "conn", "bind", "conn0", "accept", "accept",
                             "send", "send", "send", "send", "pclose", "wait", "wait", "wait", "remove", "config",
                             "connectbad", "listenbad", "fini", "unbind", "unbind", "keepread"])
            if nin > 40:
                op = rng.choice(["send", "wait", "remove", "pclose", "fini"])
            if op in ("listen", "connect"):
                # the token is the driver's next one; the trace specification checks it against its own count
                beh.append({"a": op, "arg": {"tok": 0}})
                nin += 1
            elif op == "conn" and nin:
                beh.append({"a": "conn", "arg": {"l": rng.randrange(1, nin + 1)}})
                nin += 1
            elif op == "conn0":
                beh.append({"a": "conn", "arg": {"l": 0}})
                nin += 1
            elif op == "accept":
                beh.append({"a": op, "arg": {"low": rng.choice([0, 1])}})
            elif op == "keepread" and nin:
                beh.append({"a": op, "arg": {"i": rng.randrange(1, nin + 1)}})
            elif op in ("bind", "wait", "connectbad", "listenbad", "unbind"):
                beh.append({"a": op, "arg": {"x": 0}})
                if op == "wait":
                    dirty.clear()
            elif op == "send" and nin:
                i = rng.randrange(1, nin + 1)
                for _ in range(rng.choice([1, 1, 2, 3])):
                    seq += 1
                    dirty.add(i)
                    beh.append({"a": "send", "arg": {"i": i, "data": [i, seq % 251] + [rng.randrange(256) for _ in range(rng.choice([0, 0, 3, 20]))]}})
            elif op in ("pclose", "remove") and nin and rng.random() < 0.5:
                i = rng.randrange(1, nin + 1)
                if op == "remove" or i not in dirty:
                    beh.append({"a": op, "arg": {"i": i}})
            elif op == "config" and rng.random() < 0.6:
                beh.append({"a": "config", "arg": {"c": rng.choice(["none", "ok", "ok", "bad"]), "l": rng.choice(["none", "ok", "bad"]), "tok": 0}})
                nin += 2
            elif op == "fini" and rng.random() < 0.15:
                beh.append({"a": "fini", "arg": {"x": 0}})
        beh.append({"a": "wait", "arg": {"x": 0}})
        beh.append({"a": "fini", "arg": {"x": 0}})
        behs.append(beh)
    return behs


def fill_tokens(events):
    """listen/connect/config events of seeded histories carry no token: the one the specification counts is not an
    input of the call (tok = 0 in the script); take the argument out so that Trace_IoSetup does not compare it"""
    return events


def validate(ck, events, what, behs, binding):
    ok, matched, tres = vlib.validate_trace("Trace_IoSetup", events, tag="Trace_IoSetup_" + what)
    ck.cov["transitions"] += tres.generated
    if not ok:
        ok2, matched2, tres2 = vlib.validate_trace("Trace_IoSetup", events, tag="Trace_IoSetup_" + what)
        if not ok2 and matched2 == matched:
            ev = events[matched] if matched < len(events) else None
            beh = behs[ev["b"]] if ev and ev.get("b") is not None and ev["b"] < len(behs) else None
            if ev is None:
                sig = "x:iosetup:trace:short"
            elif ev["a"] in ("Crash", "Hang", "Garbled", "Missing"):
                sig = "x:iosetup:trace:" + signature({"a": ev.get("of", "?")}, ev["a"], beh, ev["i"])[10:]
            else:
                sig = "x:iosetup:trace:" + signature(ev, "rejected", beh, ev["i"])[10:]
            ck.violation(sig, {"binding": binding, "matched_prefix": matched, "rejected_event": ev,
                               "previous_event": events[matched - 1] if matched else None,
                               "behaviour": beh[:ev["i"] + 1] if beh and ev else beh, "tlc": (tres2.violation or ""), "part": PART})
            return False, matched
        ok, matched = ok2, matched2
    return ok, matched


def events_of(behs, recs):
    evs = vlib.merge_trace(behs, recs)
    for e in evs:
        if e["a"] in ("Crash", "Hang", "Garbled", "Missing"):
            e["of"] = behs[e["b"]][e["i"]]["a"]
        e.pop("dbg", None)
    return evs


def run_part(ck, tier):
    cfg = CFG[tier]
    notes = ck.notes.setdefault(PART, {})
    t0 = time.time()
    exe = build()
    try:
        # 1. model
        for mc in cfg["mcs"]:
            res = vlib.tlc("MC_IoSetup", mc)
            ck.add_tlc(res, "exhaustive " + mc)
        notes["model_check_s"] = round(time.time() - t0, 1)
        # 2. binding A: behaviours of the specification replayed into the code
        behs = []
        for g in cfg["gens"]:
            gen = vlib.tlc("Gen_IoSetup", g, workers=1, tag="Gen_IoSetup_" + g.split(".")[0][4:])
            if gen.error or gen.violation:
                raise vlib.MachineryError("behaviour export failed (%s): %s %s" % (g, gen.error, gen.violation))
            behs += vlib.parse_behaviours(gen.out)
        notes["behaviours_generated"] = len(behs)
        if cfg["sample"] and len(behs) > cfg["sample"]:
            # quick tier: a seeded sample of the generated behaviours (all of them in the thorough tier)
            behs = ck.rng.sample(behs, cfg["sample"])
        recs = run(exe, behs)
        mms = vlib.compare(behs, recs, match)
        per_sig = {}
        for mm in mms:
            sig = signature(mm["step"], mm["why"] if mm["rec"] else "Missing", behs[mm["b"]], mm["i"])
            per_sig[sig] = per_sig.get(sig, 0) + 1
            if per_sig[sig] <= 2:
                ck.violation(sig, {"binding": "A(replay)", "behaviour": behs[mm["b"]][:mm["i"] + 1], "step": mm["i"],
                                   "why": mm["why"], "record": mm["rec"], "part": PART})
        nt = set()
        by = vlib.group_records(recs)
        for b, beh in enumerate(behs):
            if nontrivial(by.get(b, [])):
                nt.add(key_of(beh))
        ck.cov["evaluations"] += len(behs)
        notes["behaviours_replayed"] = len(behs)
        notes["replay_mismatches"] = len(mms)
        notes["replay_mismatch_kinds"] = per_sig
        if behs:
            ck.cov["samples"] = ck.cov.get("samples", []) + [vlib.sample_repr(behs[len(behs) // 2])]
        notes["replay_s"] = round(time.time() - t0, 1)
        # 3. binding B: seeded histories validated by TLC
        hist = gen_histories(ck, cfg["nhist"], cfg["steps"])
        recs2 = run(exe, hist)
        events = events_of(hist, recs2)
        ok, matched = validate(ck, events, "hist", hist, "B(trace validation)")
        by2 = vlib.group_records(recs2)
        for b, beh in enumerate(hist):
            if nontrivial(by2.get(b, [])):
                nt.add(key_of(beh))
        ck.cov["traces_validated_against_impl"] += len(hist) if ok else 0
        ck.cov["evaluations"] += len(hist)
        ck.cov["distinct_nontrivial"] += len(nt)
        notes["trace_events"] = len(events)
        notes["trace_events_matched"] = matched
        notes["part_wall_s"] = round(time.time() - t0, 1)
        notes["rule"] = ("A: one behaviour per transition of the TLC state graph of IoSetup under the view (kinds, registered "
                         "inputs, pending connections, messages on the wire, peers gone, bound socket) replayed into the doors; "
                         "B: seeded histories over all doors validated by TLC; nontrivial = a message was handed on and an input released")
        ck.assumptions += ["drv/iosetup.c projects without judgement (maps pointers in notify._slot to tokens, tells descriptors by "
                           "inode, logs the library's close() calls through its own close(), counts open descriptors)"]
    finally:
        shutil.rmtree(SCRATCH, ignore_errors=True)
        try:
            os.rmdir(TOP)
        except OSError:
            pass


def replay(det, path="-"):
    beh = det.get("behaviour")
    if not beh:
        print(json.dumps(det, indent=1)[:4000])
        return 2
    exe = build()
    try:
        recs = run(exe, [beh])
        events = events_of([beh], recs)
        ok, matched, _ = vlib.validate_trace("Trace_IoSetup", events, tag="Trace_IoSetup_replay")
    finally:
        shutil.rmtree(SCRATCH, ignore_errors=True)
        try:
            os.rmdir(TOP)
        except OSError:
            pass
    if not ok:
        print("VIOLATION property=%s replay=%s  (trace rejected at event %d: %s)" % (
            PID, path, matched, json.dumps(events[matched])[:600] if matched < len(events) else "-"))
    return 0 if ok else 1
