"""C12 -- each request is answered at most once, to the right requester (spec/Reply.tla)."""
import json
import resource
import vlib

PID = "C12"
MANIFEST = dict(
        spec="Reply.tla (+MC_Reply, Gen_Reply, Trace_Reply)",
        text="TLC checks (a) that the byte loops of mpt_message_id2buf/buf2id compute the positional meaning of a 64-bit id "
             "(as 16-bit limbs) for every header width 0..9, refuse exactly the ids that do not fit below the reply marker bit, "
             "and read back what was written; (b) exhaustively over histories of arm/reply/defer/deferred reply/release on one "
             "reply context with up to 2 (quick) / 3 (thorough) deferred handles and accepting/rejecting transport, that every "
             "message handed to the transport speaks for one outstanding request and carries its id marked as reply, that an "
             "accepted reply is final, that attempts with nothing outstanding are refused, that a rejected send may be retried and "
             "that releasing an unanswered request yields exactly one default reply while the transport is linked.  Every "
             "transition of the model's control skeleton is replayed into mpt_reply_deferrable()/mpt_reply_set()/"
             "mpt_context_reply() with a scripted send callback, into the real id codec, and -- over a socket pair with COBS "
             "framing -- into the reply context of a stream input (mpt_stream_input) and of a stream backed connection "
             "(mpt_connection_dispatch, including replies deferred past later requests); seeded call histories (ids 0, 2^k-1, "
             "2^k, 2^k+1 and random x widths 0..12; contexts with id widths up to 255 and 8 handles; stream/connection "
             "request sequences) recorded from the real code are validated by TLC against the same specification "
             "including its action properties.",
        note="Trusted: TLC, drv/reply.c and drv/reply_stream.c (projection only; the peer end of the socket pair uses the "
             "library's own stream codec), bounded model.  On the socket side the transport always accepts; datagram "
             "connections, output_remote.c and stream_sync.c are covered only through the functions they share "
             "(mpt_reply_deferrable, mpt_reply_set, mpt_message_id2buf/buf2id).",
        technique="TLA+ spec + TLC exhaustive check; TLC-generated behaviours replayed into the C code; TLC trace validation of recorded runs",
        design="5/C12")
CFG = {
    "quick":    dict(mc="MC_Reply.cfg",   gen="Gen_Reply.cfg",   nhist=40,  steps=60,  nrand=300),
    "thorough": dict(mc="MC_Reply_t.cfg", gen="Gen_Reply_t.cfg", nhist=300, steps=150, nrand=4000),
}
ENV = {"ASAN_OPTIONS": vlib.ASAN_ENV + ":symbolize=0"}
CHUNK = 4000
MAX_FAULTS = 150     # crashes/hangs after which the replay is cut short (a broken tree costs ~0.1 s per fault)


def cpu_mark(ck, name, _last=[None]):
    """CPU seconds (children + self) spent since the previous mark -- wall time depends on the machine's load."""
    a, b = resource.getrusage(resource.RUSAGE_CHILDREN), resource.getrusage(resource.RUSAGE_SELF)
    now = a.ru_utime + a.ru_stime + b.ru_utime + b.ru_stime
    if _last[0] is not None:
        ck.notes.setdefault("phase_cpu_s", {})[name] = round(now - _last[0], 1)
    _last[0] = now


def match(exp, obs, step, rec, prev):
    """Verdict projection: key-wise equality on the keys the specification states ("any" = silent)."""
    return vlib.default_match(exp, obs, step, rec, prev)


def signature(mm):
    """action + differing observation + discriminating argument class."""
    st = mm["step"]
    a, arg = st["a"], st.get("arg") or {}
    why = mm["why"]
    key = why.lower() if why in ("Crash", "Hang", "Garbled") else why.split(":")[0].split(" ")[0]
    cls = ""
    if "w" in arg:
        cls = ":w=%s" % ("0" if arg["w"] == 0 else "9" if arg["w"] >= 9 else "1..8")
    elif "buf" in arg:
        n = len(arg["buf"] or [])
        cls = ":len=%s" % ("0" if n == 0 else "1" if n == 1 else "2..8" if n <= 8 else ">8")
    elif "tv" in arg:
        cls = ":tv=%s" % arg["tv"]
    elif "act" in arg:
        cls = ":act=%s%s" % (arg["act"], ",zero-id" if not any(arg.get("id") or []) else "")
    return "%s:%s%s" % (a, key, cls)


def run_chunks(exe, behs):
    """Replay in chunks; stop when the tree is evidently broken (bounded cost)."""
    recs = []
    faults = 0
    done = 0
    for lo in range(0, len(behs), CHUNK):
        part = behs[lo:lo + CHUNK]
        r, _ = vlib.run_driver(exe, vlib.to_script(part), env=ENV)
        for x in r:
            if isinstance(x.get("b"), int):
                x["b"] += lo
            if x.get("a") in ("Crash", "Hang"):
                faults += 1
        recs += r
        done = lo + len(part)
        if faults > MAX_FAULTS:
            break
    return recs, done


# ---------------------------------------------------------------------------
# binding B inputs: call sequences only, no expected values
# ---------------------------------------------------------------------------
def limbs(v):
    return [(v >> (16 * i)) & 0xffff for i in range(4)]


def gen_id_history(ck, nrand):
    rng = ck.rng
    ids = {0}
    for k in range(0, 65):
        for d in (-1, 0, 1):
            v = (1 << k) + d
            if 0 <= v < (1 << 64):
                ids.add(v)
    for _ in range(nrand):
        ids.add(rng.getrandbits(rng.randrange(1, 65)))
    beh = [{"a": "init", "arg": {"mode": "id"}}]
    for v in sorted(ids):
        ws = list(range(0, 10)) if v.bit_length() in (0, 1, 7, 8, 15, 16, 31, 32, 63, 64) or rng.random() < 0.15 \
            else [rng.randrange(0, 13), max((v.bit_length() + 7) // 8, 1), (v.bit_length() + 8) // 8]
        for w in ws:
            beh.append({"a": rng.choice(["id2buf", "roundtrip"]), "arg": {"id": limbs(v), "w": w}})
    for _ in range(nrand):
        n = rng.randrange(0, 13)
        lead = rng.randrange(0, n + 1)
        buf = [0] * lead + [rng.choice([0, 1, 127, 128, 255, rng.randrange(256)]) for _ in range(n - lead)]
        beh.append({"a": "buf2id", "arg": {"buf": buf}})
    return beh


def gen_ctx_histories(ck, n, steps):
    rng = ck.rng
    behs = []
    for _ in range(n):
        mx = rng.choice([0, 1, 2, 3, 4, 5, 6, 8, 9, 12, 16, 64, 255])
        beh = [{"a": "init", "arg": {"mode": "ctx", "max": mx,
                                     "target": 0 if rng.random() < 0.1 else 1,
                                     "attached": 0 if rng.random() < 0.1 else 1}}]
        ctr = 0
        live = set()      # rough guess which handle slots are in use; the driver skips calls that are not possible
        owned = True      # rough guess: the owner still holds the context
        for k in range(steps):
            if owned:
                op = rng.choice(["arm", "arm", "arm", "arm", "reply", "reply", "replytext", "defer", "defer", "dreply",
                                 "dreply", "drelease", "addref", "release"])
            else:
                if not live:
                    break
                op = rng.choice(["dreply", "dreply", "drelease"])
            tv = "reject" if rng.random() < 0.3 else "ok"
            if op == "arm":
                n_ = rng.choice([mx, mx, mx, mx, 1, 0, mx + 1, rng.randrange(mx + 2)])
                ctr += 1
                idb = [rng.randrange(128)] + [rng.randrange(256) for _ in range(n_ - 1)] if n_ else []
                if n_ and rng.random() < 0.5:
                    idb[-1] = ctr % 256 if n_ > 1 else ctr % 128
                beh.append({"a": "arm", "arg": {"id": idb}})
            elif op == "reply":
                null = 1 if rng.random() < 0.2 else 0
                data = [] if null else [rng.randrange(256) for _ in range(rng.choice([0, 1, 2, 3, 10, 40]))]
                beh.append({"a": "reply", "arg": {"null": null, "data": data, "tv": tv}})
            elif op == "replytext":
                text = [rng.randrange(33, 127) for _ in range(rng.choice([0, 1, 5, 30]))]
                beh.append({"a": "replytext", "arg": {"code": rng.choice([0, 1, 2, 3, 127, 128, 255]), "text": text, "tv": tv}})
            elif op == "defer":
                free = [h for h in range(1, 9) if h not in live]
                h = rng.choice(free) if free and rng.random() < 0.9 else rng.randrange(1, 9)
                beh.append({"a": "defer", "arg": {"h": h}})
                live.add(h)
            elif op in ("dreply", "drelease"):
                h = rng.choice(sorted(live)) if live and rng.random() < 0.9 else rng.randrange(1, 9)
                if op == "dreply":
                    data = [rng.randrange(256) for _ in range(rng.choice([0, 2, 3, 17]))]
                    beh.append({"a": "dreply", "arg": {"h": h, "null": 0, "data": data, "tv": tv}})
                    if tv == "ok":
                        live.discard(h)
                else:
                    beh.append({"a": "drelease", "arg": {"h": h, "tv": tv}})
                    live.discard(h)
            elif op == "addref":
                if rng.random() < 0.2:
                    beh.append({"a": "addref", "arg": {"x": 0}})
            elif op == "release":
                if k > steps // 3 and rng.random() < 0.25:
                    beh.append({"a": "release", "arg": {"tv": tv}})
                    owned = rng.random() < 0.1     # (an addref may have happened)
        behs.append(beh)
    return behs


def gen_stream_histories(ck, n, steps):
    rng = ck.rng
    behs = []
    for _ in range(n):
        mx = rng.choice([1, 2, 3, 4, 5, 8])
        via = rng.choice(["input", "conn"])
        beh = [{"a": "init", "arg": {"mode": "stream", "max": mx, "via": via}}]
        for _ in range(steps):
            op = rng.choice(["srequest", "srequest", "srequest", "slate"] +
                            (["sanswer"] if via == "input" else ["sdefer", "sdefer", "sdreply", "sdreply"]))
            if op == "sdefer":
                idb = [rng.randrange(128)] + [rng.randrange(256) for _ in range(mx - 1)]
                if not any(idb):
                    idb[-1] = 1
                beh.append({"a": "srequest", "arg": {"id": idb, "payload": [rng.randrange(256) for _ in range(3)],
                                                    "act": "defer", "h": rng.randrange(1, 9), "data": [], "hret": 0}})
                continue
            if op == "sdreply":
                beh.append({"a": "sdreply", "arg": {"h": rng.randrange(1, 9),
                                                   "data": [rng.randrange(256) for _ in range(rng.choice([0, 1, 4, 20]))]}})
                continue
            if op == "srequest":
                if rng.random() < 0.15:
                    idb = [0] * mx
                else:
                    idb = [rng.randrange(128)] + [rng.randrange(256) for _ in range(mx - 1)]
                pay = [rng.randrange(256) for _ in range(rng.choice([0, 1, 3, 8, 30]))]
                data = [rng.randrange(256) for _ in range(rng.choice([0, 1, 2, 3, 9, 40]))]
                beh.append({"a": "srequest", "arg": {"id": idb, "payload": pay, "act": rng.choice(["none", "reply", "reply2"]),
                                                    "data": data, "hret": rng.choice([0, 0, 0, -1, -3, -128])}})
            elif op == "slate":
                beh.append({"a": "slate", "arg": {"data": [rng.randrange(256) for _ in range(rng.choice([0, 2, 5]))]}})
            else:
                idb = [128 + rng.randrange(128)] + [rng.randrange(256) for _ in range(mx - 1)]
                pay = [rng.randrange(256) for _ in range(rng.choice([0, 2, 6]))]
                beh.append({"a": "sanswer", "arg": {"id": idb, "payload": pay}})
        behs.append(beh)
    return behs


def drop_skipped(events):
    """Calls the driver did not make (handle slot not in the needed state, context already released)."""
    return [e for e in events if (e.get("obs") or {}).get("ret") != "skipped"]


def nontrivial_ctx(recs):
    """the transport saw a message AND (a deferred handle was created OR >= 2 requests were armed)."""
    sends = sum(len((r.get("obs") or {}).get("sends") or []) for r in recs)
    handles = sum(1 for r in recs if (r.get("obs") or {}).get("ret") == "handle")
    arms = sum(1 for r in recs if r.get("a") == "arm" and (r.get("obs") or {}).get("armed") == 1)
    return sends > 0 and (handles > 0 or arms >= 2)


def validate(ck, events, what, behs):
    ok, matched, tres = vlib.validate_trace("Trace_Reply", events, tag="Trace_Reply_" + what)
    ck.cov["transitions"] += tres.generated
    if not ok:
        ok2, matched2, tres2 = vlib.validate_trace("Trace_Reply", events, tag="Trace_Reply_" + what)
        if not ok2 and matched2 == matched:
            ev = events[matched] if matched < len(events) else None
            if ev is None:
                sig = "trace:%s:short" % what
            elif ev["a"] in ("Crash", "Hang", "Garbled", "Missing"):
                prev = behs[ev["b"]][ev["i"]] if ev.get("b") is not None else {"a": "?"}
                sig = "trace:" + signature({"step": prev, "why": ev["a"] if ev["a"] != "Missing" else "Crash"})
            else:
                sig = "trace:" + signature({"step": ev, "why": "rejected"})
            ck.violation(sig, {"binding": "B(trace validation)", "matched_prefix": matched, "rejected_event": ev,
                               "previous_event": events[matched - 1] if matched else None,
                               "behaviour": behs[ev["b"]] if ev and ev.get("b") is not None else None,
                               "tlc": (tres2.violation or "")})
        else:
            ok = ok2
    return ok, matched


def run(tier):
    cfg = CFG[tier]
    ck = vlib.Check(PID, tier)
    exe = vlib.build_driver("reply", ["reply.c"])
    exs = vlib.build_driver("reply_stream", ["reply_stream.c"], libs=("mptio", "mptcore"))

    cpu_mark(ck, "build")
    # 1. model: tiers agree (id codec), the reply protocol satisfies the statement on the ghost
    res = vlib.tlc("MC_Reply", cfg["mc"], coverage=False)
    ck.add_tlc(res, "exhaustive " + cfg["mc"])

    cpu_mark(ck, "model_check")
    # 2. binding A: every transition of the control skeleton replayed into the real code
    gen = vlib.tlc("Gen_Reply", cfg["gen"], workers=4)
    if gen.error or gen.violation:
        raise vlib.MachineryError("behaviour export failed: %s %s" % (gen.error, gen.violation))
    behs = vlib.parse_behaviours(gen.out)
    cpu_mark(ck, "behaviour_export")
    # the reply-context behaviours first: a broken id codec must not hide them
    sbehs = [b for b in behs if b[0]["arg"]["mode"] == "stream"]
    behs = [b for b in behs if b[0]["arg"]["mode"] != "stream"]
    behs.sort(key=lambda b: 0 if b[0]["arg"]["mode"] == "ctx" else 1)
    recs, done = run_chunks(exe, behs)
    mms = vlib.compare(behs[:done], recs, match)
    srecs, sdone = run_chunks(exs, sbehs)
    smms = vlib.compare(sbehs[:sdone], srecs, match)
    per_s = {}
    for mm in smms:
        sig = "stream:" + signature(mm)
        per_s[sig] = per_s.get(sig, 0) + 1
        if per_s[sig] <= 2:
            ck.violation(sig, {"binding": "A(replay stream)", "behaviour": sbehs[mm["b"]], "step": mm["i"],
                               "why": mm["why"], "record": mm["rec"], "stream": True})
    sby = vlib.group_records(srecs)
    per_sig = {}
    for mm in mms:
        sig = signature(mm)
        per_sig[sig] = per_sig.get(sig, 0) + 1
        if per_sig[sig] > 2:        # two replay files per kind of failure are enough
            continue
        ck.violation(sig, {"binding": "A(replay)", "behaviour": behs[mm["b"]], "step": mm["i"],
                           "why": mm["why"], "record": mm["rec"]})
    per_sig.update(per_s)
    ck.notes["replay_mismatch_kinds"] = per_sig
    by = vlib.group_records(recs)
    nt = set()
    for b, beh in enumerate(behs[:done]):
        last = beh[-1]
        if beh[0]["arg"]["mode"] == "ctx":
            if nontrivial_ctx(by.get(b, [])):
                nt.add(json.dumps([(s["a"], s.get("arg")) for s in beh], sort_keys=True))
        elif last["a"] in ("id2buf", "roundtrip"):
            if last["arg"]["w"] > 0 and any(last["arg"]["id"]):
                nt.add(json.dumps((last["a"], last["arg"]), sort_keys=True))
        elif last["a"] == "buf2id" and any(last["arg"]["buf"]):
            nt.add(json.dumps((last["a"], last["arg"]), sort_keys=True))
    for b, beh in enumerate(sbehs[:sdone]):
        if any((r.get("obs") or {}).get("frames") for r in sby.get(b, [])):
            nt.add(json.dumps([(s["a"], s.get("arg")) for s in beh], sort_keys=True))
    ck.cov["evaluations"] += done + sdone
    ck.notes["replayed_behaviours"] = {"context_and_id": done, "stream": sdone}
    ck.notes["behaviours_generated"] = len(behs) + len(sbehs)
    ck.notes["replay_mismatches"] = len(mms) + len(smms)
    if done < len(behs):
        ck.notes["replay_cut_short"] = "more than %d crashes; %d of %d behaviours replayed" % (MAX_FAULTS, done, len(behs))

    cpu_mark(ck, "replay")
    # 3. binding B: recorded executions at production sizes validated by TLC
    idh = [gen_id_history(ck, cfg["nrand"])]
    recs_i, _ = vlib.run_driver(exe, vlib.to_script(idh), env=ENV)
    ev_i = vlib.merge_trace(idh, recs_i)
    hist = gen_ctx_histories(ck, cfg["nhist"], cfg["steps"])
    recs_c, _ = vlib.run_driver(exe, vlib.to_script(hist), env=ENV)
    ev_c = drop_skipped(vlib.merge_trace(hist, recs_c))
    shist = gen_stream_histories(ck, max(cfg["nhist"] // 2, 10), max(cfg["steps"] // 2, 20))
    recs_s, _ = vlib.run_driver(exs, vlib.to_script(shist), env=ENV)
    ev_s = drop_skipped(vlib.merge_trace(shist, recs_s))
    for e in ev_c:
        e["b"] += 1
    for e in ev_s:
        e["b"] += 1 + len(hist)
    allh = idh + hist + shist
    ok_all, m_all = validate(ck, ev_i + ev_c + ev_s, "all", allh)
    ok_i = ok_c = ok_s = ok_all
    m_i = min(m_all, len(ev_i))
    m_c = min(max(m_all - len(ev_i), 0), len(ev_c))
    m_s = max(m_all - len(ev_i) - len(ev_c), 0)
    cpu_mark(ck, "trace_validation")
    by2 = vlib.group_records(recs_c)
    ntb = 0
    for b, beh in enumerate(hist):
        if nontrivial_ctx(by2.get(b, [])):
            nt.add(json.dumps([(s["a"], s.get("arg")) for s in beh], sort_keys=True))
            ntb += 1
    for e in ev_i:
        if e["a"] in ("id2buf", "roundtrip") and e["arg"]["w"] > 0 and any(e["arg"]["id"]):
            nt.add(json.dumps((e["a"], e["arg"]), sort_keys=True))
    ck.cov["traces_validated_against_impl"] = (len(hist) + len(shist) + 1) if ok_all else 0
    ck.cov["evaluations"] += len(hist) + len(shist) + len(ev_i) - 1
    ck.notes["trace_events"] = {"id": len(ev_i), "ctx": len(ev_c), "stream": len(ev_s)}
    ck.notes["trace_events_matched"] = {"id": m_i, "ctx": m_c, "stream": m_s}
    ck.notes["ctx_histories_nontrivial"] = ntb
    ck.notes["ctx_calls_skipped_by_driver"] = sum(1 for r in recs_c if (r.get("obs") or {}).get("ret") == "skipped")
    ck.cov["distinct_nontrivial"] = len(nt)
    ck.cov["exhaustive"] = True
    ck.cov["rule"] = ("A: one behaviour per transition of the TLC state graph of Reply under the view (mode, id capacity, "
                      "target, owner refs, attached, armed, live handle slots, last call was a rejected send) -- every reply/"
                      "defer/release call with accepting and rejecting transport from every such configuration, and every "
                      "(id, width) / buffer of the small id domain -- replayed into the real code.  B: one id history (0, "
                      "2^k-1, 2^k, 2^k+1 for k<=64, random ids x widths 0..12, random buffers) and seeded reply-context "
                      "histories (id capacity 0..255, 8 handle slots) recorded from the real code and validated by TLC.  "
                      "Non-trivial: context history = the transport saw a message and (a handle was created or two requests "
                      "were armed); id case = non-zero id / buffer with width > 0.  Distinct by call sequence / by input.")
    ctxb = [b for b in behs if b[0]["arg"]["mode"] == "ctx"]
    ck.cov["samples"] = [vlib.sample_repr(b) for b in (ctxb[len(ctxb) // 2: len(ctxb) // 2 + 1] + [behs[-1]])] + \
                        [vlib.sample_repr(hist[0][:8]), idh[0][200:204]]
    ck.assumptions = ["TLC/SANY and the CommunityModules Json/IOUtils are correct",
                      "drv/reply.c projects without judgement (copies the id and message bytes the send callback was given, "
                      "maps return codes to ok/refused, pointer non-NULL to handle/none)",
                      "a handle is treated as consumed when its reply() returned >= 0 (API contract of reply_context_detached)",
                      "the exhaustive model is bounded (see MC cfg); beyond it coverage is by the seeded histories",
                      "memory safety of the calls is observed (exact-size heap buffers, ASan), not proved"]
    # extension X12: requester side and datagram path (checks/x12_conn.py, docs/X12_conn.md)
    import x12_conn
    if x12_conn.enabled():
        x12_conn.run_part(ck, tier)
    return ck.finish()


def replay(path):
    d = json.load(open(path))
    det = d["detail"]
    if det.get("x12"):
        import x12_conn
        return x12_conn.replay(det, path)
    beh = det.get("behaviour")
    if not beh:
        print(json.dumps(det, indent=1)[:4000])
        return 2
    if beh[0]["arg"].get("mode") == "stream":
        exe = vlib.build_driver("reply_stream", ["reply_stream.c"], libs=("mptio", "mptcore"))
    else:
        exe = vlib.build_driver("reply", ["reply.c"])
    recs, err = vlib.run_driver(exe, vlib.to_script([beh]))
    if all("exp" in s for s in beh):
        mms = vlib.compare([beh], recs, match)
        for mm in mms:
            print("VIOLATION property=%s replay=%s  (%s: %s)" % (PID, path, signature(mm), mm["why"]))
        return 1 if mms else 0
    events = drop_skipped(vlib.merge_trace([beh], recs))
    ok, matched, _ = vlib.validate_trace("Trace_Reply", events, tag="Trace_Reply_replay")
    if not ok:
        print("VIOLATION property=%s replay=%s  (trace rejected at event %d: %s)" % (
            PID, path, matched, json.dumps(events[matched])[:400] if matched < len(events) else "-"))
    return 0 if ok else 1
