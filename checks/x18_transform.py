"""X18 (extension of C18) -- graph transform and polyline consumers of the line parts (spec/PolyTransform.tla).

run_part(ck, tier) adds to the vlib.Check of C18:
  * TLC: exhaustive check of PolyTransform (every sequence of positions over {below,min,inside,max,above} plus
    the values 0 and -10 under log, transform kinds lin+/lin-/log per dimension, one and two dimensions,
    dimensions of unequal length),
  * binding A: every transition of those models replayed into drv/polytransform.cpp
    (layout::graph::transform3 part/apply, linepart::array::apply, polyline::set, iterator, points(), line());
    a result that differs from the design is judged by TLC against the meaning (Trace_PolyTransform),
  * binding B: seeded longer runs (incl. runs around the 65535 per-part limit and the 65533 chunk of
    array::set, the 32-value blocks of apply_log, dimensions of unequal length) recorded from the real code and
    validated by TLC against Trace_PolyTransform.
"""
import json
import os
import threading
import vlib

TAG = "x18"
CFG = {
    "quick": dict(mc=[("MC_PolyTransform.cfg", "one dimension"), ("MC_PolyTransform_2.cfg", "two dimensions, any lengths"),
                      ("MC_PolyTransform_n.cfg", "log, negative decades, non-integral limit exponents")],
                  gen=["Gen_PolyTransform.cfg", "Gen_PolyTransform_2.cfg", "Gen_PolyTransform_u.cfg", "Gen_PolyTransform_n.cfg"],
                  nrand=250, nlong=6),
    "thorough": dict(mc=[("MC_PolyTransform_t.cfg", "one dimension"), ("MC_PolyTransform_2_t.cfg", "two dimensions, any lengths"),
                         ("MC_PolyTransform_u_t.cfg", "short second dimension"),
                         ("MC_PolyTransform_n_t.cfg", "log, negative decades, non-integral limit exponents")],
                     gen=["Gen_PolyTransform_t.cfg", "Gen_PolyTransform_2_t.cfg", "Gen_PolyTransform_u_t.cfg", "Gen_PolyTransform_n_t.cfg"],
                     nrand=2500, nlong=30),
}
ZERO, NEG = -1048576, -1048577
CHUNK = 65533


def enabled():
    """The part needs its fix commits (docs/X18_transform.md) in the tree under test: it is switched on by the marker
    file checks/x18_transform.accepted (created when those commits are integrated) or by VERIF_X18=1, off by VERIF_X18=0."""
    env = os.environ.get("VERIF_X18")
    if env is not None:
        return env not in ("0", "")
    return os.path.exists(os.path.join(vlib.ROOT, "checks", "x18_transform.accepted"))


def build():
    return vlib.build_driver("polytransform", ["polytransform.cpp"], libs=("mptcore", "mptplot", "mpt++"), cxx=True)


def first_diff(exp, obs):
    for k, v in (exp or {}).items():
        if v == "any":
            continue
        if not isinstance(obs, dict) or k not in obs:
            return k + ":missing"
        if obs[k] != v:
            return k
    return None


def signature(beh, step, rec, why, fld=None):
    """x18:<action>:<kinds>:<differing observation>:<argument class> -- computed from the failing step."""
    a = step["a"]
    arg = beh[0].get("arg") or {}
    kinds = "/".join(arg.get("kind") or [])
    cls = []
    d1, d2 = arg.get("data") or [], arg.get("data2") or []
    if len(arg.get("kind") or []) == 2 and len(d1) != len(d2):
        cls.append("shorter2" if len(d2) < len(d1) else "longer2")
    if any(v <= ZERO for v in d1 + d2):
        cls.append("nonpos")
    if not arg.get("ranged"):
        cls.append("norange")
    ks = arg.get("kind") or []
    logs = [v for d, k in zip((d1, d2), ks) if k.startswith("log") for v in d if v > ZERO]
    if any(k.startswith("log") for k in ks) and (arg.get("lmin2", 0) % 2 or arg.get("lmax2", 0) % 2):
        cls.append("fraclimit")      # limit exponents that are not whole decades
    if any(v < 0 for v in logs):
        cls.append("negdecade")
    if "log2" in ks and any(v % 2 for v in logs):
        cls.append("between")        # values between the decades
    if max(len(d1), len(d2)) > 32:
        cls.append("long" if max(len(d1), len(d2)) > 4096 else "mid")
    if why in ("Crash", "Hang", "Garbled", "Missing"):
        what = why.lower()
    else:
        what = fld or first_diff(step.get("exp"), (rec or {}).get("obs") or {}) or "rejected"
    return "x18:%s:%s:%s:%s" % (a, kinds, what, "+".join(cls) or "plain")


def validate(ck, behs, recs, tag, what):
    """TLC decides whether the recorded runs are behaviours of the meaning."""
    events = vlib.merge_trace(behs, recs)
    if not events:
        return 0
    total = 0
    rounds = 0
    while events and rounds < 8:
        rounds += 1
        ok, matched, tres = vlib.validate_trace("Trace_PolyTransform", events, cfg="Trace_PolyTransform.cfg", tag=tag, xss="1g")
        ck.cov["transitions"] += tres.generated
        if not ok:   # once more before reporting
            ok2, matched2, _ = vlib.validate_trace("Trace_PolyTransform", events, cfg="Trace_PolyTransform.cfg", tag=tag, xss="1g")
            if ok2 or matched2 != matched:
                raise vlib.MachineryError("trace validation not reproducible (%s)" % tag)
        total += matched
        if ok:
            return total
        if matched >= len(events):
            raise vlib.MachineryError("trace shorter than matched prefix")
        ev = events[matched]
        b = ev["b"]
        beh = behs[b]
        step = beh[ev["i"]]
        rec = {"obs": ev.get("obs"), "dbg": ev.get("dbg")}
        why = ev["a"] if ev["a"] in ("Crash", "Hang", "Garbled", "Missing") else "rejected"
        fld = None
        if vlib.re.search(r'<<"BADPART", %d, \d+>>' % (matched + 1), tres.out):
            fld = "part-rejected"
        elif vlib.re.search(r'<<"BADDEV", %d, \d+>>' % (matched + 1), tres.out):
            fld = "device-rejected"
        sig = signature(beh, step, rec, why, fld)
        big = len(json.dumps(beh)) > 20000
        small = [dict(s, arg={k: (v if not isinstance(v, list) or len(v) < 200 else "(%d values)" % len(v)) for k, v in (s.get("arg") or {}).items()}) for s in beh]
        ck.violation(sig, {"part": "x18", "binding": what,
                           "rejected_event": {k: (v if len(json.dumps(v)) < 3000 else "(long)") for k, v in ev.items()},
                           "behaviour": small if big else beh, "step": ev["i"],
                           "behaviour_full": beh if len(json.dumps(beh)) < 3000000 else None})
        events = [e for e in events if e["b"] != b]
    return total


# --------------------------------------------------------------------------
# binding B inputs: call sequences only (positions; the driver turns a position of a log dimension into 10^e)
# --------------------------------------------------------------------------
def init_step(kinds, d1, d2, lo, hi, ranged=1, lmin2=None, lmax2=None):
    """lmin2 / 2, lmax2 / 2: limit exponents given to a log dimension (default: the whole decades lo, hi)"""
    half = 1 if "log2" in kinds else 2
    return {"a": "init", "arg": {"data": d1, "data2": d2, "lo": lo, "hi": hi, "ranged": ranged, "lim": 65535, "kind": kinds,
                                 "lmin2": half * lo if lmin2 is None else lmin2, "lmax2": half * hi if lmax2 is None else lmax2}}


BOUNDS = {"log": (-12, 22), "log2": (-24, 44)}     # positions that have a value in the driver's tables


def rand_dim(rng, kind, n, lo, hi):
    out = []
    log = kind in BOUNDS
    bot, top = BOUNDS.get(kind, (-2000, 2000))
    step = 2 if kind == "log2" else 1
    for _ in range(n):
        k = rng.random()
        if out and k < 0.15:
            v = out[-1]
        elif k < 0.30:
            v = rng.choice([lo, hi])
        elif k < 0.42:
            v = rng.choice([lo - 1, hi + 1, lo - 2, hi + 3, lo + 1, lo - step, hi + step])
        elif k < 0.80:
            v = rng.randrange(min(lo, hi), max(lo, hi) + 1)
        elif log and k < 0.88:
            v = rng.choice([ZERO, NEG])
        else:
            v = rng.randrange(bot, top + 1)
        if v > ZERO:
            v = max(bot, min(top, v))
        out.append(v)
    return out


def core_runs():
    """Fixed templates (every run): visible stretches around the 32-value blocks of apply_log ending in / starting with a
    point outside, for every kind; a part boundary at the end of a shorter second dimension."""
    behs = []

    def run(kinds, d1, d2, act, lo=1, hi=3):
        behs.append([init_step(kinds, d1, d2, lo, hi), {"a": act, "arg": {"x": 0}}])

    # limits of a log dimension given as negative, non-integral exponents (rounded outward to whole decades), values on
    # and between the decade boundaries around them
    for lmin2, lmax2 in ((-3, 1), (-3, 2), (-4, 1), (-5, -1), (-1, 3), (1, 5)):
        lo, hi = lmin2 // 2, -((-lmax2) // 2)
        seq = [lo - 1, lo, lo + 1, hi, hi + 1, lo, lo - 1, lo - 1, lo + 1, hi + 1, hi, ZERO, lo]
        for act in ("tpoly", "tapply"):
            behs.append([init_step(["log"], seq, [], lo, hi, 1, lmin2, lmax2), {"a": act, "arg": {"x": 0}}])
            behs.append([init_step(["lin-", "log"], [v if v > ZERO else lo for v in seq[:9]], seq[4:], lo, hi, 1, lmin2, lmax2), {"a": act, "arg": {"x": 0}}])
        # half decades: odd positions are values between the decades (3 * 10^e)
        lo2, hi2 = 2 * lo, 2 * hi
        seq2 = [lo2 - 2, lo2 - 1, lo2, lo2 + 1, lo2 + 2, hi2 - 1, hi2, hi2 + 1, hi2 + 2, lo2 + 1, lo2 - 1, lo2 + 1, hi2 - 1, hi2 + 1, lo2 + 2]
        for act in ("tpoly", "tapply"):
            behs.append([init_step(["log2"], seq2, [], lo2, hi2, 1, lmin2, lmax2), {"a": act, "arg": {"x": 0}}])
            behs.append([init_step(["log2", "log2"], seq2[3:], list(reversed(seq2)), lo2, hi2, 1, lmin2, lmax2), {"a": act, "arg": {"x": 0}}])

    for kind in ("lin+", "lin-", "log"):
        for n in (31, 32, 33, 34, 64, 65, 66, 97):
            for first, last in ((2, 4), (0, 4), (4, 0), (2, 0)):
                d = [2] * n
                d[0], d[-1] = first, last
                run([kind], d, [], "tpoly")
        for n in (33, 65):
            d = [2] * n
            d[-1] = 4
            run([kind, "log"], d, [2] * n, "tpoly")
            run(["log", kind], [2] * n, d, "tpoly")
    # single-sample excursions out of the range and back (a trimmed part directly followed by a cut part: usr > raw, the
    # parts' drawn points run ahead of the values consumed), at the start / in the middle / at the end / several in a row,
    # in one and in both dimensions, longer than the exhaustive bound: every point of every part is compared
    exc = ([2, 4, 2, 2, 4, 2, 0, 2], [4, 2, 4, 2, 0, 2, 2], [2, 2, 4, 2, 0, 2, 4, 2, 2], [2, 4, 2, 2, 2, 0, 2],
           [1, 4, 3, 0, 1, 4, 2], [0, 2, 4, 2, 4, 2, 0, 2, 2, 2])
    for p in exc:
        for kind in ("lin+", "lin-", "log"):
            run([kind], p, [], "tpoly")
        for k1, k2 in (("lin+", "lin-"), ("lin-", "log"), ("log", "lin+"), ("log", "log")):
            run([k1, k2], p, [2] * len(p), "tpoly")
            run([k1, k2], [2] * len(p), p, "tpoly")
            run([k1, k2], p, list(reversed(p)), "tpoly")
            run([k1, k2], p, p[1:] + [2], "tapply")
    for k1 in ("lin+", "log"):
        for k2 in ("lin-", "log"):
            for d1, d2 in (([2, 2, 4, 2, 2], [2, 2]), ([2, 2, 4, 2, 2, 2], [2, 2, 2]), ([0, 0, 0, 2, 2], [2, 2]),
                           ([2, 2], [2, 2, 4, 2, 2]), ([2, 4, 2, 2], [2]), ([2, 2, 2, 2, 0], [2, 2, 2])):
                run([k1, k2], d1, d2, "tpoly")
                run([k1, k2], d1, d2, "tapply")
    return behs


def gen_random(ck, n):
    rng = ck.rng
    behs = core_runs()
    for _ in range(n):
        nd = rng.choice([1, 1, 2])
        kinds = [rng.choice(["lin+", "lin-", "log", "log"]) for _ in range(nd)]
        if rng.random() < 0.2:
            kinds = ["log2"] * nd          # half decades: every dimension logarithmic
        anylog = "log" in kinds
        lmin2 = lmax2 = None
        if kinds[0] == "log2":
            lo = 2 * rng.randrange(-10, 18)
            hi = min(44, lo + 2 * rng.choice([0, 1, 2, 3, 8]))
            lmin2, lmax2 = lo + rng.choice([0, 1]), hi - rng.choice([0, 1])     # rounded outward: lo, hi
        elif anylog:
            lo = rng.randrange(-10, 20)
            hi = min(22, lo + rng.choice([0, 1, 2, 3, 8]))
            lmin2, lmax2 = 2 * lo + rng.choice([0, 1]), 2 * hi - rng.choice([0, 1])
        else:
            lo = rng.randrange(-1500, 1500)
            hi = min(2000, lo + rng.choice([0, 1, 2, rng.randrange(1, 600)]))
        if rng.random() < 0.04 and lmin2 is None:
            lo, hi = hi, lo
        ln = rng.choice([1, 2, 3, 4, 5, 6, 8, 12, 20, 31, 32, 33, 34, 40, 63, 64, 65, 66, 97, 130])
        ranged = 0 if rng.random() < 0.06 else 1
        d1 = rand_dim(rng, kinds[0], ln, lo, hi)
        d2 = []
        if nd == 2:
            l2 = ln if rng.random() < 0.6 else max(1, ln + rng.choice([-40, -3, -2, -1, 1, 2, 5]))
            d2 = rand_dim(rng, kinds[1], l2, lo, hi)
        if not ranged:   # without a range every value is visible: only values that have a position
            d1 = [v if v > ZERO else lo for v in d1]
            d2 = [v if v > ZERO else lo for v in d2]
        if rng.random() < 0.35:
            # long visible stretches (the 32-value blocks of apply_log) ending in a point outside
            mid = (lo + hi) // 2
            d1 = [mid if rng.random() < 0.93 else v for v in d1]
            if d1 and rng.random() < 0.7:
                ends = [lo - 1, hi + 1] + ([ZERO] if kinds[0] in BOUNDS and ranged else [])
                if kinds[0] in BOUNDS:      # positions that have a value
                    b = BOUNDS[kinds[0]]
                    ends = [v for v in ends if v == ZERO or b[0] <= v <= b[1]] or [lo]
                d1[-1] = rng.choice(ends)
            d2 = [mid if rng.random() < 0.93 else v for v in d2]
        beh = [init_step(kinds, d1, d2, lo, hi, ranged, lmin2, lmax2),
               {"a": rng.choice(["tpoly", "tpoly", "tapply"]), "arg": {"x": 0}}]
        behs.append(beh)
    return behs


def gen_long(ck, n):
    """runs around the 65535 per-part limit and the 65533 chunk of array::set, by template"""
    rng = ck.rng
    behs = []
    lo, hi = 1, 3
    for k in range(n):
        nd = 1 if k % 3 else 2
        kinds = [rng.choice(["lin+", "lin-", "log"]) for _ in range(nd)]
        total = rng.choice([65532, 65533, 65534, 65535, 65536, 65537, 131066, 131071])
        tmpl = k % 5
        data = [2] * total
        if tmpl == 1:      # single points outside next to the limit
            for p in {rng.choice([65531, 65532, 65533, 65534, 65535, 65536]) for _ in range(2)}:
                if p < total:
                    data[p] = rng.choice([0, 4] + ([ZERO] if kinds[0] == "log" else []))
        elif tmpl == 2:    # long invisible run, then visible
            data = [rng.choice([0, 4])] * total
            for p in range(rng.choice([65533, 65534, 65535, 65536]), total):
                data[p] = 2
        elif tmpl == 3:    # outside first, inside run of limit length, outside
            data[0] = 0
            data[-1] = 4
        elif tmpl == 4:    # alternating around the limit
            for p in range(65528, min(total, 65542)):
                data[p] = [2, 4, 0, 3, 1][p % 5]
        d2 = []
        if nd == 2:
            l2 = total + rng.choice([0, 0, -1, 1, -3, -CHUNK, 5])
            d2 = [2] * max(1, l2)
            for p in {rng.choice([0, 1, 65531, 65532, 65533, 65534, 65535, len(d2) - 1]) for _ in range(3)}:
                if p < len(d2):
                    d2[p] = rng.choice([0, 4])
        beh = [init_step(kinds, data, d2, lo, hi),
               {"a": "tpoly" if k % 2 else "tapply", "arg": {"x": 0}}]
        behs.append(beh)
    return behs


def nontrivial(recs):
    for r in recs:
        for p in ((r.get("obs") or {}).get("parts") or []):
            if p[2] or p[3]:
                return True
    return False


def run_part(ck, tier):
    cfg = CFG[tier]
    exe = build()
    results = {}

    def job(key, module, c, **kw):
        results[key] = vlib.tlc(module, c, tag="%s-%s" % (module, c), xss="512m", **kw)

    ths = []
    for c, what in cfg["mc"]:
        ths.append(threading.Thread(target=job, args=(("mc", c), "MC_PolyTransform", c), kwargs=dict(workers=max(2, vlib.NCPU // 3))))
    for c in cfg["gen"]:
        ths.append(threading.Thread(target=job, args=(("gen", c), "Gen_PolyTransform", c), kwargs=dict(workers=2)))
    for t in ths:
        t.start()
    for t in ths:
        t.join()
    for key, r in results.items():      # TLC reports some evaluation errors with exit code 0
        if not r.violation and (vlib.re.search(r"^Error: ", r.out, vlib.re.M) or r.distinct == 0):
            raise vlib.MachineryError("TLC run %s failed:\n%s" % (key, "\n".join(l for l in r.out.splitlines() if not l.startswith('<<"BEHAV"'))[-3000:]))
    for c, what in cfg["mc"]:
        ck.add_tlc(results[("mc", c)], "x18 exhaustive %s (%s)" % (c, what))
    vlib.log("x18 TLC done: " + ", ".join("%s %.0fs" % (k[1], r.wall) for k, r in results.items()))

    # binding A
    nt = set()
    replayed = mism = accepted_div = 0
    samples = []
    for c in cfg["gen"]:
        gen = results[("gen", c)]
        if gen.error or gen.violation:
            raise vlib.MachineryError("behaviour export %s failed: %s %s" % (c, gen.error, gen.violation))
        behs = vlib.parse_behaviours(gen.out)
        recs, _ = vlib.run_driver(exe, vlib.to_script(behs), timeout=1200)
        mms = vlib.compare(behs, recs)
        replayed += len(behs)
        mism += len(mms)
        by = vlib.group_records(recs)
        for b, beh in enumerate(behs):
            if nontrivial(by.get(b, [])):
                nt.add(json.dumps([(s["a"], s.get("arg")) for s in beh], sort_keys=True))
        if behs:
            samples.append(vlib.sample_repr(behs[(2 * len(behs)) // 3]))
        if mms:
            # the code differs from the design: the meaning decides (one representative per signature)
            reps = {}
            for mm in mms:
                reps.setdefault(signature(behs[mm["b"]], mm["step"], mm["rec"], mm["why"]), mm)
            sel = sorted({mm["b"] for mm in reps.values()})[:16]
            sub = [behs[b] for b in sel]
            subrecs = [dict(r, b=j) for j, b in enumerate(sel) for r in by.get(b, [])]
            before = len(ck.violations) + len(ck.known_hit)
            validate(ck, sub, subrecs, "Trace_PolyTransform-A-%s" % c, "A(replay)")
            if len(ck.violations) + len(ck.known_hit) == before:
                accepted_div += len(mms)
    vlib.log("x18 replayed %d behaviours, %d differ from the design" % (replayed, mism))

    # binding B
    hist = gen_random(ck, cfg["nrand"])
    longs = gen_long(ck, cfg["nlong"])
    recs_h, _ = vlib.run_driver(exe, vlib.to_script(hist), timeout=1200)
    recs_l, _ = vlib.run_driver(exe, vlib.to_script(longs), timeout=1200)
    if any(r.get("a") == "init" and (r.get("obs") or {}).get("x") for r in recs_h + recs_l):
        raise vlib.MachineryError("x18: a generated position has no value in the driver's tables")
    nev = validate(ck, hist, recs_h, "Trace_PolyTransform-B", "B(trace)")
    nev += validate(ck, longs, recs_l, "Trace_PolyTransform-L", "B(long)")
    byh = vlib.group_records(recs_h)
    for b, beh in enumerate(hist):
        if nontrivial(byh.get(b, [])):
            nt.add(json.dumps([(s["a"], s.get("arg")) for s in beh], sort_keys=True))
    byl = vlib.group_records(recs_l)
    nlong_nt = sum(1 for b in range(len(longs)) if nontrivial(byl.get(b, [])))
    vlib.log("x18 validated %d + %d recorded runs" % (len(hist), len(longs)))

    ck.cov["evaluations"] += replayed + len(hist) + len(longs)
    ck.cov["traces_validated_against_impl"] += len(hist) + len(longs)
    ck.cov["distinct_nontrivial"] += len(nt) + nlong_nt
    ck.cov["samples"] = (ck.cov.get("samples") or []) + samples[:1]
    ck.cov["rule"] = (ck.cov.get("rule") or "") + (
        " X18: every transition of PolyTransform (positions over 5 symbols plus the two non-positive values under log, "
        "transform kinds per dimension, one/two dimensions, unequal lengths) replayed into transform3/linepart::array/polyline "
        "and compared with the design's parts and device points; seeded and templated longer runs validated by TLC; "
        "non-trivial = a cut or trim code was produced.")
    ck.notes["x18_replayed_behaviours"] = replayed
    ck.notes["x18_replay_differs_from_design"] = mism
    ck.notes["x18_replay_differences_accepted_by_meaning"] = accepted_div
    ck.notes["x18_traces_validated"] = len(hist) + len(longs)
    ck.notes["x18_trace_events_matched"] = nev
    ck.notes["x18_long_runs"] = len(longs)
    ck.assumptions.append("X18: drv/polytransform.cpp projects without judgement (position -> value 10^e by table for a log dimension, "
                          "transform parameters from the kind, struct fields and point coordinates copied); log positions are exact "
                          "powers of ten, the position of a line end at a non-positive value under log is not judged")


def replay(det, path):
    beh = det.get("behaviour_full") or det.get("behaviour")
    if not beh or isinstance((beh[0].get("arg") or {}).get("data"), str):
        print(json.dumps(det, indent=1)[:4000])
        return 2
    exe = build()
    a0 = beh[0].setdefault("arg", {})
    half = 1 if "log2" in (a0.get("kind") or []) else 2
    a0.setdefault("lmin2", half * a0.get("lo", 0))
    a0.setdefault("lmax2", half * a0.get("hi", 0))
    recs, _ = vlib.run_driver(exe, vlib.to_script([beh]))
    ck = vlib.Check("C18", "replay")
    ck.findings = []
    validate(ck, [beh], recs, "Trace_PolyTransform-replay", det.get("binding", "replay"))
    for sig, p in ck.violations:
        print("VIOLATION property=C18 replay=%s  (%s)" % (path, sig))
    return 1 if ck.violations else 0
