"""C13 -- ring-buffer queue is a faithful byte deque (spec/Queue.tla)."""
import json
import vlib

PID = "C13"
MANIFEST = dict(
        spec="Queue.tla (+MC_Queue, Gen_Queue, Trace_Queue)",
        text="TLC checks exhaustively (capacity<=4 quick / <=5 thorough, every start offset and fill, every call with every "
             "length) that the ring design (store/max/off/len) implements a plain byte deque and that refusals change nothing; "
             "every transition of the model's control skeleton is then replayed into the real struct queue (result class, returned "
             "bytes and full logical content compared after each call), and seeded histories recorded from the real code at "
             "capacities 7..300 are validated by TLC against the same specification.",
        note="Trusted: TLC, drv/queue.c (projection only), bounded model; memory safety of the calls is observed by guard bytes "
             "and ASan on each executed call, not proved.",
        technique="TLA+ spec + TLC exhaustive check; TLC-generated behaviours replayed into the C code; TLC trace validation of recorded runs",
        design="5/C13")
CFG = {
    "quick":    dict(mc="MC_Queue.cfg",   gen="Gen_Queue.cfg",   nhist=60,  steps=120),
    "thorough": dict(mc="MC_Queue_t.cfg", gen="Gen_Queue_t.cfg", nhist=400, steps=400),
}


def match(exp, obs, step, rec, prev):
    """Verdict projection: byte list after the call, answer class, returned bytes."""
    wrapped = bool(prev and prev.get("dbg") and prev["dbg"]["off"] + prev["dbg"]["len"] > prev["dbg"]["max"])
    a, arg = step["a"], step.get("arg") or {}
    if wrapped and ((a in ("qpop", "qshift") and arg.get("buf") == 0 and obs.get("ret") == "refused")
                    or (a == "find" and obs.get("ret") == "unsupported")):
        # Refusal the statement permits on a wrapped queue (no caller buffer / element across the border).  Whether the
        # real queue is wrapped depends on its storage offsets, which the byte-list meaning does not fix: the content
        # must be what it was before the call; the model may have answered the call, so the comparison ends here.
        before = (prev.get("obs") or {}).get("content")
        if obs.get("content") != before:
            return "content: refused call changed the content from %s to %s" % (before, obs.get("content"))
        return vlib.STOP
    if obs.get("content") != exp.get("content"):
        return "content: expected %s, observed %s" % (exp.get("content"), obs.get("content"))
    if exp["ret"] == "any":
        return None
    if obs.get("ret") != exp["ret"]:
        return "ret: expected %s, observed %s" % (exp["ret"], obs.get("ret"))
    if obs.get("out") != exp.get("out"):
        return "out: expected %s, observed %s" % (exp.get("out"), obs.get("out"))
    if rec.get("dbg", {}).get("guards") == 0:
        return "guard bytes around the storage were overwritten"
    return None


def signature(mm):
    """Specific signature of a failing case: action + discriminating condition."""
    st = mm["step"]
    a, arg = st["a"], st.get("arg") or {}
    if mm["why"] in ("Crash", "Hang"):
        n = arg.get("n", len(arg.get("data", []) or []))
        return "%s:%s:%s" % (a, mm["why"].lower(), "n=0" if n == 0 else "n>0")
    return "%s:%s" % (a, mm["why"].split(":")[0])


def gen_histories(ck, n, steps):
    """Seeded histories at production-like capacities (7..300)."""
    rng = ck.rng
    behs = []
    for _ in range(n):
        cap = rng.choice([7, 8, 9, 15, 16, 17, 31, 32, 33, 63, 64, 65, 100, 128, 255, 256, 300])
        off = rng.randrange(cap)
        beh = [{"a": "init", "arg": {"max": cap, "off": off}}]
        est = 0
        ctr = 0
        for _ in range(steps):
            free = max(cap - est, 0)
            op = rng.choice(["qpush", "qpush", "qunshift", "qunshift", "qpop", "qshift", "qshift", "crop", "set",
                             "get", "align", "string", "find", "prepare", "resize"])
            def fresh(k):
                nonlocal ctr
                d = [((ctr + i) % 250) + 1 for i in range(k)]
                ctr += k
                return d
            if op in ("qpush", "qunshift"):
                k = rng.choice([0, 1, 2, 3, rng.randrange(cap + 2), max(free - 1, 0), free, free + 1])
                beh.append({"a": op, "arg": {"data": fresh(k)}})
                if k <= free:
                    est += k
            elif op in ("qpop", "qshift"):
                k = rng.choice([0, 1, 2, rng.randrange(est + 2), est, est + 1])
                beh.append({"a": op, "arg": {"n": k, "buf": rng.choice([0, 1, 1, 1])}})
                if k <= est:
                    est -= k
            elif op == "crop":
                pos = rng.randrange(est + 2)
                k = rng.choice([0, 1, rng.randrange(est + 2), max(est - pos, 0)])
                beh.append({"a": op, "arg": {"pos": pos, "n": k}})
                if pos + k <= est:
                    est -= k
            elif op == "set":
                pos = rng.randrange(est + 2)
                k = rng.choice([0, 1, rng.randrange(est + 2), max(est - pos, 0)])
                z = rng.choice([0, 0, 1])
                beh.append({"a": op, "arg": {"pos": pos, "data": [0] * k if z else fresh(k), "zero": z}})
            elif op == "get":
                pos = rng.randrange(est + 2)
                k = rng.choice([0, 1, rng.randrange(est + 2), max(est - pos, 0)])
                beh.append({"a": op, "arg": {"pos": pos, "n": k}})
                if rng.random() < 0.25:
                    # positions just below SIZE_MAX: pos + n wraps around to a small number
                    k = rng.choice([1, 2, 8, max(est, 1)])
                    far = rng.choice([1, 2, k, max(k - 1, 1), k + 1])
                    beh.append({"a": rng.choice(["get", "get", "set", "crop"]), "arg": {"pos": far, "n": k, "far": 1}})
                    if beh[-1]["a"] == "set":
                        beh[-1]["arg"] = {"pos": far, "data": fresh(k), "zero": 0, "far": 1}
            elif op == "align":
                beh.append({"a": op, "arg": {"pos": rng.choice([0, 1, rng.randrange(cap + 2), cap - 1, cap])}})
            elif op == "string":
                beh.append({"a": op, "arg": {"x": 0}})
            elif op == "find":
                beh.append({"a": op, "arg": {"esz": rng.choice([1, 1, 2, 3, 4]), "b": rng.randrange(1, 252)}})
            elif op == "prepare":
                if rng.random() < 0.3:
                    k = rng.choice([0, 1, free, free + 1, free + 9])
                    beh.append({"a": op, "arg": {"n": k}})
                    if k > free:
                        cap = est + k   # at least; real capacity is logged
            elif op == "resize":
                if rng.random() < 0.2:
                    k = rng.choice([cap, cap + 1, cap + 8, max(cap - 1, 1), max(est, 1), max(est - 1, 1), max(est // 2, 1)])
                    beh.append({"a": op, "arg": {"n": k}})
                    if k < est:
                        est = k
                    cap = k
        behs.append(beh)
    # mpt_memrev across its 1024-byte chunking
    beh = [{"a": "init", "arg": {"max": 8, "off": 0}}]
    for ln in (0, 1, 2, 7, 1023, 1024, 1025, 2047, 2048, 2049, 3100, 5000):
        for pre in sorted(set([0, 1, ln // 2, 1023, 1024, 1025, max(ln - 1025, 0), max(ln - 1, 0), ln, ln + 1])):
            if pre <= ln + 1:
                beh.append({"a": "memrev", "arg": {"data": [(i * 7 + ln) % 251 + 1 for i in range(ln)], "pre": pre}})
    behs.append(beh)
    return behs


def nontrivial(beh, recs):
    """changed the byte list at least once AND met a wrapped real queue."""
    changed = wrapped = False
    last = None
    for r in recs:
        d = r.get("dbg") or {}
        if d and d.get("off", 0) + d.get("len", 0) > d.get("max", 0) and d.get("len", 0) > 0:
            wrapped = True
        c = (r.get("obs") or {}).get("content")
        if last is not None and c is not None and c != last:
            changed = True
        if c is not None:
            last = c
    return changed and wrapped


def io_match(exp, obs, step, rec, prev):
    if obs.get("content") != exp.get("content"):
        return "content: expected %s, observed %s" % (exp.get("content"), obs.get("content"))
    if exp["ret"] == "any":
        return None
    if obs.get("ret") != exp["ret"]:
        return "ret: expected %s, observed %s" % (exp["ret"], obs.get("ret"))
    if obs.get("out") != exp.get("out"):
        return "out: expected %s, observed %s" % (exp.get("out"), obs.get("out"))
    return None


def io_histories(ck, n, steps):
    rng = ck.rng
    behs = []
    for _ in range(n):
        beh = [{"a": "init", "arg": {"cap": rng.choice([0, 1, 5, 8, 64, 100])}}]
        est = 0
        ctr = 0
        for _ in range(steps):
            def fresh(k):
                nonlocal ctr
                d = [((ctr + i) % 250) + 1 for i in range(k)]
                ctr += k
                return d
            op = rng.choice(["push", "unshift", "unshift", "pop", "shift", "write", "read", "peek"])
            if op == "push":
                k = rng.choice([0, 1, 2, 3, 7, 8, 9, rng.randrange(70)])
                beh.append({"a": op, "arg": {"data": fresh(k)}}); est += k
            elif op == "unshift":
                k = rng.choice([0, 1, 2, 3, 7, 8, 9, rng.randrange(70)])
                z = rng.choice([0, 0, 1])
                beh.append({"a": op, "arg": {"data": [0] * k if z else fresh(k), "zero": z}}); est += k
            elif op in ("pop", "shift"):
                k = rng.choice([0, 1, 2, rng.randrange(est + 2), est, est + 1])
                beh.append({"a": op, "arg": {"n": k, "buf": rng.choice([0, 1, 1])}})
                if k <= est:
                    est -= k
            elif op == "write":
                cnt, part = rng.choice([0, 1, 2, 3, 5]), rng.choice([0, 1, 2, 3, 8])
                beh.append({"a": op, "arg": {"count": cnt, "part": part, "data": fresh(cnt * part)}}); est += cnt * part
            elif op == "read":
                cnt, part = rng.choice([0, 1, 2, 3, 5]), rng.choice([1, 2, 3, 8])
                beh.append({"a": op, "arg": {"count": cnt, "part": part}}); est -= min(cnt, est // part) * part
            else:
                beh.append({"a": op, "arg": {"n": rng.choice([0, 1, 2, rng.randrange(est + 2), est, est + 1])}})
        behs.append(beh)
    return behs


def run_io(ck, tier, nt):
    """C++ wrapper io::queue (spec/IoQueue.tla): same three steps."""
    exe = vlib.build_driver("ioqueue", ["ioqueue.cpp"], libs=("mptcore", "mptio", "mptplot", "mpt++"), cxx=True)
    res = vlib.tlc("MC_IoQueue", "MC_IoQueue.cfg" if tier == "quick" else "MC_IoQueue_t.cfg")
    ck.add_tlc(res, "exhaustive MC_IoQueue")
    gen = vlib.tlc("Gen_IoQueue", "Gen_IoQueue.cfg", workers=4)
    if gen.error or gen.violation:
        raise vlib.MachineryError("IoQueue behaviour export failed: %s %s" % (gen.error, gen.violation))
    behs = vlib.parse_behaviours(gen.out)
    recs, _ = vlib.run_driver(exe, vlib.to_script(behs))
    for mm in vlib.compare(behs, recs, io_match):
        ck.violation("io:" + signature(mm), {"binding": "A(replay) io::queue", "io": True, "behaviour": behs[mm["b"]], "step": mm["i"],
                                             "why": mm["why"], "record": mm["rec"]})
    ck.cov["evaluations"] += len(behs)
    ck.notes["io_replayed_behaviours"] = len(behs)
    hist = io_histories(ck, 30 if tier == "quick" else 200, 100 if tier == "quick" else 300)
    recs2, _ = vlib.run_driver(exe, vlib.to_script(hist))
    events = vlib.merge_trace(hist, recs2)
    ok, matched, tres = vlib.validate_trace("Trace_IoQueue", events, tag="Trace_IoQueue")
    ck.cov["transitions"] += tres.generated
    if not ok:
        ok2, matched2, _ = vlib.validate_trace("Trace_IoQueue", events, tag="Trace_IoQueue")
        if not ok2 and matched2 == matched:
            ev = events[matched] if matched < len(events) else None
            ck.violation("io:trace:" + (signature({"step": ev, "why": ev["a"] if ev["a"] in ("Crash", "Hang") else "rejected"}) if ev else "short"),
                         {"binding": "B(trace validation) io::queue", "io": True, "matched_prefix": matched, "rejected_event": ev,
                          "previous_event": events[matched - 1] if matched else None,
                          "behaviour": hist[ev["b"]][: ev["i"] + 1] if ev else None})
    by = vlib.group_records(recs2)
    for b, beh in enumerate(hist):
        if nontrivial(beh, by.get(b, [])):
            nt.add("io" + json.dumps([(s["a"], s.get("arg")) for s in beh], sort_keys=True))
    ck.cov["evaluations"] += len(hist)
    ck.notes["io_trace_events"] = len(events)
    ck.notes["io_trace_events_matched"] = matched
    return len(hist) if ok else 0


def run(tier):
    cfg = CFG[tier]
    ck = vlib.Check(PID, tier)
    exe = vlib.build_driver("queue", ["queue.c"])

    # 1. the design (Tier 2) implements the byte deque (Tier 1) for all histories in the bound
    res = vlib.tlc("MC_Queue", cfg["mc"], coverage=(tier == "thorough"))
    ck.add_tlc(res, "exhaustive " + cfg["mc"])

    # 2. binding A: every transition of the control skeleton replayed into the real code
    gen = vlib.tlc("Gen_Queue", cfg["gen"], workers=1)   # one worker: the exported paths are reproducible
    if gen.error or gen.violation:
        raise vlib.MachineryError("behaviour export failed: %s %s" % (gen.error, gen.violation))
    behs = vlib.parse_behaviours(gen.out)
    recs, _ = vlib.run_driver(exe, vlib.to_script(behaviours=behs))
    mms = vlib.compare(behs, recs, match)
    for mm in mms:
        ck.violation(signature(mm), {"binding": "A(replay)", "behaviour": behs[mm["b"]], "step": mm["i"],
                                     "why": mm["why"], "record": mm["rec"]})
    by = vlib.group_records(recs)
    nt = set()
    for b, beh in enumerate(behs):
        if nontrivial(beh, by.get(b, [])):
            nt.add(json.dumps([(s["a"], s.get("arg")) for s in beh], sort_keys=True))
    ck.cov["evaluations"] += len(behs)
    ck.notes["replayed_behaviours"] = len(behs)
    ck.notes["replay_mismatches"] = len(mms)

    # 3. binding B: recorded executions at production-like capacities validated by TLC
    hist = gen_histories(ck, cfg["nhist"], cfg["steps"])
    recs2, _ = vlib.run_driver(exe, vlib.to_script(hist))
    events = vlib.merge_trace(hist, recs2)
    ok, matched, tres = vlib.validate_trace("Trace_Queue", events, tag="Trace_Queue")
    ck.cov["transitions"] += tres.generated
    if not ok:
        ok2, matched2, _ = vlib.validate_trace("Trace_Queue", events, tag="Trace_Queue")
        if not ok2 and matched2 == matched:
            ev = events[matched] if matched < len(events) else None
            beh = hist[ev["b"]] if ev else None
            sig = "trace:" + (signature({"step": ev, "why": ev["a"] if ev["a"] in ("Crash", "Hang") else "rejected"}) if ev else "short")
            ck.violation(sig, {"binding": "B(trace validation)", "matched_prefix": matched, "rejected_event": ev,
                               "previous_event": events[matched - 1] if matched else None,
                               "behaviour": beh})
    by2 = vlib.group_records(recs2)
    for b, beh in enumerate(hist):
        if nontrivial(beh, by2.get(b, [])):
            nt.add(json.dumps([(s["a"], s.get("arg")) for s in beh], sort_keys=True))
    ck.cov["traces_validated_against_impl"] = (len(hist) if ok else 0) + run_io(ck, tier, nt)
    ck.cov["evaluations"] += len(hist)
    ck.notes["trace_events"] = len(events)
    ck.notes["trace_events_matched"] = matched
    ck.cov["distinct_nontrivial"] = len(nt)
    ck.cov["exhaustive"] = True
    ck.cov["rule"] = ("A: one behaviour per transition of the TLC state graph of Queue under the view (max,off,len) "
                      "[all capacities<=MaxCap, all offsets, all fills, every call with every length 0..MaxLen], replayed into "
                      "the real struct queue; B: seeded call histories at capacities 7..300 recorded from the real code and "
                      "validated by TLC against Queue.  Non-trivial = the byte list changed at least once and the real queue "
                      "was wrapped (off+len>max) at some step; distinct by call sequence.")
    ck.cov["samples"] = [vlib.sample_repr(b) for b in (behs[len(behs) // 2: len(behs) // 2 + 2] + [hist[0][:8]])]
    ck.assumptions = ["TLC/SANY and the CommunityModules Json/IOUtils are correct",
                      "drv/queue.c projects the state without judgement (copies bytes, maps return codes to ok/refused)",
                      "no-access-outside-storage is observed (guard bytes, ASan) on every executed call, not proved",
                      "the exhaustive model is bounded (see MC cfg); beyond it coverage is by the seeded histories"]
    return ck.finish()


def replay(path):
    d = json.load(open(path))
    det = d["detail"]
    beh = det.get("behaviour")
    if not beh:
        print(json.dumps(det, indent=1)[:4000])
        return 2
    io = bool(det.get("io"))
    if io:
        exe = vlib.build_driver("ioqueue", ["ioqueue.cpp"], libs=("mptcore", "mptio", "mptplot", "mpt++"), cxx=True)
    else:
        exe = vlib.build_driver("queue", ["queue.c"])
    recs, err = vlib.run_driver(exe, vlib.to_script([beh]))
    if all("exp" in s for s in beh):
        mms = vlib.compare([beh], recs, io_match if io else match)
        for mm in mms:
            print("VIOLATION property=%s replay=%s  (%s: %s)" % (PID, path, signature(mm), mm["why"]))
        return 1 if mms else 0
    events = vlib.merge_trace([beh], recs)
    ok, matched, _ = vlib.validate_trace("Trace_IoQueue" if io else "Trace_Queue", events, tag="Trace_Queue_replay")
    if not ok:
        print("VIOLATION property=%s replay=%s  (trace rejected at event %d: %s)" % (PID, path, matched, json.dumps(events[matched])[:400] if matched < len(events) else "-"))
    return 0 if ok else 1
