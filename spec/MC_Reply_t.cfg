SPECIFICATION Spec
CONSTANTS Widths = {1, 5} MaxH = 3 MaxOwn = 2 CtrMax = 4
  LimbDom = {0, 1, 127, 128, 255, 256, 32767, 32768, 65535} IdWidths = {0, 1, 2, 3, 4, 5, 6, 7, 8, 9}
  StreamWidths = {1, 8}
  MsgDom <- CMsgDom TextDom <- CTextDom
CONSTRAINT Bound
VIEW View
INVARIANTS TypeOK Refines
PROPERTIES SendsRight Final Accepted RefusedAfter RejectKeeps DefaultOnRelease ArmFrame IdTiers StreamOnce
CHECK_DEADLOCK FALSE
