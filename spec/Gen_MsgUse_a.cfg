SPECIFICATION GenSpec
CONSTANTS
  Alphabet = {0, 32, 34, 97}
  MaxLen = 2
  MaxFrag = 3
  MaxDst = 2
  MaxDstFrag = 2
  MaxQ = 0
  Ops = {}
  EmptyBases = {"slice"}
  ForeignBytes = {0}
  ArrKinds = {"roomy"}
  MaxFail = 0
  Heads <- HeadsA
  UOps = {"iter", "evcmd", "clientcmd", "cxxdispatch", "hash", "emit"}
VIEW UView
CHECK_DEADLOCK FALSE
ACTION_CONSTRAINT EmitCase
