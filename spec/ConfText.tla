------------------------------ MODULE ConfText ------------------------------
(***************************************************************************)
(* Configuration text of mptcore/parse (property C09).                     *)
(*                                                                         *)
(* Tier 1 (meaning): a forest of nodes [n, v, c] -- named sections with    *)
(* children, name=value options -- kept as a stack of open frames.         *)
(* The language is specified generatively: every action appends one item   *)
(* (option / section start / section end) rendered in the active style     *)
(* with one decoration choice for every insignificant position, so the     *)
(* text reachable with tree t is exactly the set of renderings of t.       *)
(* obs carries a complete document (open sections closed) and the forest   *)
(* it denotes; the real parser must answer with exactly that forest.       *)
(*                                                                         *)
(* Tier 2 (design): the parser_format record computed from the format      *)
(* string as mpt_parse_format does, the name flags as mpt_parse_accept     *)
(* and mpt_parse_ncheck do, and the character scanner of mpt_parse_data    *)
(* (DataScan) with the path buffer / valid length / keep-post flag.        *)
(*                                                                         *)
(* Byte strings are sequences of runs <<byte, count>> (maximal runs), so   *)
(* values of 65536 bytes cost nothing.                                     *)
(***************************************************************************)
EXTENDS Naturals, Sequences, FiniteSets, TLC

CONSTANTS Configs,     \* set of [fmt |-> byte tuple | Null, acc |-> byte tuple | Null]
          OptNames,    \* set of byte strings (runs) offered as option names
          SecNames,    \* set of byte strings (runs) offered as section names
          Values,      \* set of byte strings (runs) offered as values
          Decos,       \* decoration profiles [g, g2, b1, b2, b3, term]: one choice per insignificant position
                       \*   g/g2 gaps between items, b1..b3 blanks inside an item,
                       \*   term = how a value ends when there is no option end character
          MaxNodes, MaxDepth

VARIABLES cfg,    \* chosen configuration
          text,   \* document so far (runs)
          stack,  \* open frames [n |-> name, k |-> finished children]; stack[1] = root
          nn,     \* nodes so far
          obs
vars == <<cfg, text, stack, nn, obs>>

---------------------------------------------------------------------------
(* byte strings as runs *)
Cat(s, t) ==
  IF s = <<>> THEN t ELSE IF t = <<>> THEN s
  ELSE IF s[Len(s)][1] = t[1][1]
       THEN SubSeq(s, 1, Len(s) - 1) \o << <<t[1][1], s[Len(s)][2] + t[1][2]>> >> \o SubSeq(t, 2, Len(t))
       ELSE s \o t
RECURSIVE B(_)
B(s) == IF s = <<>> THEN <<>> ELSE Cat(<< <<s[1], 1>> >>, B(SubSeq(s, 2, Len(s))))   \* byte tuple -> runs
C1(b) == IF b = 0 THEN <<>> ELSE << <<b, 1>> >>
RECURSIVE CatAll(_)
CatAll(ss) == IF ss = <<>> THEN <<>> ELSE Cat(ss[1], CatAll(SubSeq(ss, 2, Len(ss))))
RECURSIVE RLen(_)
RLen(r) == IF r = <<>> THEN 0 ELSE r[1][2] + RLen(SubSeq(r, 2, Len(r)))
BytesOf(r) == {r[i][1] : i \in DOMAIN r}
FirstB(r) == r[1][1]
LastB(r)  == r[Len(r)][1]

IsSp(b) == b \in {9, 10, 11, 12, 13, 32}
Null == <<0>>                     \* stands for a NULL string argument
NoSp(b) == IF IsSp(b) THEN 0 ELSE b

---------------------------------------------------------------------------
(* mpt_parse_format: format string -> parser_format record *)
RECURSIVE TakeWord(_, _, _)
TakeWord(s, i, max) ==      \* bytes from position i up to a space, at most max
  IF i > Len(s) \/ IsSp(s[i]) \/ max = 0 THEN <<>> ELSE <<s[i]>> \o TakeWord(s, i + 1, max - 1)
RECURSIVE SkipSp(_, _)
SkipSp(s, i) == IF i <= Len(s) /\ IsSp(s[i]) THEN SkipSp(s, i + 1) ELSE i
SetOf(w) == {w[i] : i \in DOMAIN w}

FormatOf(s) ==
  LET def == [ss |-> 123, se |-> 125, os |-> 0, as |-> 61, oe |-> 0,
              esc |-> {34, 39}, com |-> {35}, style |-> 42] IN
  IF s = Null THEN def
  ELSE LET n == Len(s)
           f1 == [def EXCEPT !.ss = IF n >= 1 THEN NoSp(s[1]) ELSE 123,
                             !.style = IF n >= 2 THEN s[2] ELSE 42]
           f3 == IF n >= 3 THEN [f1 EXCEPT !.se = NoSp(s[3])] ELSE f1
           f4 == IF n >= 4 THEN [f3 EXCEPT !.os = NoSp(s[4])] ELSE f3
           f5 == IF n >= 5 THEN [f4 EXCEPT !.as = NoSp(s[5])] ELSE f4
           f6 == IF n >= 6 THEN [f5 EXCEPT !.oe = NoSp(s[6])] ELSE f5
           cw == TakeWord(s, 7, 4)
           ep == SkipSp(s, 7 + Len(cw))
           ew == TakeWord(s, ep, 3)
           f7 == IF n >= 7 THEN [f6 EXCEPT !.com = SetOf(cw)] ELSE f6
       IN  IF n >= 7 /\ ep <= n THEN [f7 EXCEPT !.esc = SetOf(ew)] ELSE f7

StyleOf(FF) == CASE FF.style = 42 -> "pre" [] FF.style = 120 -> "enc" [] FF.style = 32 -> "sep"
                 [] FF.style = 95 -> "opt" [] OTHER -> "none"

(* mpt_parse_accept: flag letters; upper case = sections, lower case = options *)
AllFlags == {"f", "c", "s", "w", "e", "b"}
FlagOf(b) == LET l == IF b \in 65..90 THEN b + 32 ELSE b IN
  CASE l = 102 -> {"f"} [] l = 99 -> {"c"} [] l = 110 -> {"f", "c"} [] l = 115 -> {"s"}
    [] l = 119 -> {"w"} [] l = 101 -> {"e"} [] l = 98 -> {"b"} [] OTHER -> {}
AcceptOf(a) ==
  IF a = Null THEN [sect |-> AllFlags, opt |-> AllFlags]
  ELSE IF a = <<>> THEN [sect |-> {"c"}, opt |-> {"c"}]
  ELSE [sect |-> UNION {FlagOf(a[i]) : i \in {j \in DOMAIN a : a[j] \in 65..90}},
        opt  |-> UNION {FlagOf(a[i]) : i \in {j \in DOMAIN a : a[j] \notin 65..90}}]

(* mpt_parse_ncheck: is the name permitted by the flag set *)
ByteNeeds(b) ==
  IF IsSp(b) THEN "w"
  ELSE IF b < 32 \/ b > 126 THEN "b"
  ELSE IF b \in 65..90 \/ b \in 97..122 THEN "none"
  ELSE "s"
NameOK(name, fl) ==
  IF name = <<>> THEN "e" \in fl
  ELSE \A i \in DOMAIN name :
         LET b == name[i][1] cnt == name[i][2] IN
         IF b \in 48..57
         THEN (i = 1 => "f" \in fl) /\ ((i > 1 \/ cnt > 1) => "c" \in fl)
         ELSE ByteNeeds(b) \in fl \cup {"none"}

---------------------------------------------------------------------------
(* lexical side conditions of the generator: what can be written at all *)
Delims(FF) == ({FF.ss, FF.se, FF.os, FF.as, FF.oe} \cup FF.com \cup {10}) \ {0}

NameLex(FF, name) ==           \* a name as written in front of '=' or '{' or inside [ ]
  IF name = <<>> THEN TRUE
  ELSE /\ BytesOf(name) \cap Delims(FF) = {}
       /\ ~IsSp(FirstB(name)) /\ ~IsSp(LastB(name))
EncNameLex(FF, name) ==        \* enclosed style: the name ends at the first space
  /\ name # <<>> /\ BytesOf(name) \cap Delims(FF) = {}
  /\ \A b \in BytesOf(name) : ~IsSp(b)

UnquotedOK(FF, v) ==
  IF v = <<>> THEN TRUE
  ELSE /\ ~IsSp(FirstB(v)) /\ ~IsSp(LastB(v))
       /\ BytesOf(v) \cap (({10, FF.oe} \ {0}) \cup FF.esc) = {}
       /\ FF.oe = 0 => /\ FirstB(v) \notin FF.com
                       /\ \A i \in 1..(Len(v) - 1) : ~(IsSp(v[i][1]) /\ v[i + 1][1] \in FF.com)
QuotedOK(FF, v, q) == q \in FF.esc /\ (IF v = <<>> THEN TRUE ELSE LastB(v) # 92)

RECURSIVE Pairs(_, _)
Pairs(q, n) == IF n = 0 THEN <<>> ELSE << <<92, 1>>, <<q, 1>> >> \o Pairs(q, n - 1)
RECURSIVE Escaped(_, _)
Escaped(v, q) ==               \* a backslash in front of every quote character
  IF v = <<>> THEN <<>>
  ELSE Cat(IF v[1][1] = q THEN Pairs(q, v[1][2]) ELSE <<v[1]>>, Escaped(SubSeq(v, 2, Len(v)), q))
ValText(v, q) == IF q = 0 THEN v ELSE CatAll(<<C1(q), Escaped(v, q), C1(q)>>)
ValOK(FF, v, q) == IF q = 0 THEN UnquotedOK(FF, v) ELSE QuotedOK(FF, v, q)

(* decorations *)
ComBody(FF) == B(SelectSeq(<<32, 99, FF.ss, FF.as, 34, FF.oe, FF.se, 39, 32>>, LAMBDA b : b # 0))
ComChars(FF) == {c \in FF.com : c # 0}
ComLine(FF, c) == CatAll(<<C1(c), ComBody(FF), C1(10)>>)
GapOK(FF, g) == g \in {"com", "spcom"} => ComChars(FF) # {}
GapText(FF, g) ==
  CASE g = "none"  -> <<>>
    [] g = "sp"    -> B(<<32>>)
    [] g = "tab"   -> B(<<9>>)
    [] g = "nl"    -> B(<<10>>)
    [] g = "blank" -> B(<<32, 10, 9, 10>>)
    [] g = "crlf"  -> B(<<13, 10>>)
    [] g = "com"   -> ComLine(FF, CHOOSE c \in ComChars(FF) : \A d \in ComChars(FF) : c <= d)
    [] g = "spcom" -> Cat(B(<<10, 32, 9>>), ComLine(FF, CHOOSE c \in ComChars(FF) : \A d \in ComChars(FF) : c >= d))
(* "com" = a comment glued to the token (no blank) where the grammar lets a comment start there  *)
(* (behind an enclosed-style section name); nothing at the other blank positions               *)
BlankText(b) ==
  CASE b = "none" -> <<>> [] b = "sp" -> B(<<32>>) [] b = "tab" -> B(<<9>>)
    [] b = "sp2" -> B(<<32, 32>>) [] b = "mix" -> B(<<32, 9>>) [] b = "com" -> <<>>

---------------------------------------------------------------------------
(* the forest; k = "s" section / "o" option is not visible in the node tree (an empty     *)
(* section and an option without value are the same node) but decides the handler events *)
Node(k, n, v, c) == [k |-> k, n |-> n, v |-> v, c |-> c]
RECURSIVE Fold(_)
Fold(st) ==
  IF Len(st) = 1 THEN st[1].k
  ELSE LET m == Len(st) IN
       Fold(Append(SubSeq(st, 1, m - 2), [st[m - 1] EXCEPT !.k = Append(@, Node("s", st[m].n, <<>>, st[m].k))]))
Depth(st) == Len(st) - 1
Push(st, name) == Append(st, [n |-> name, k |-> <<>>])
Pop(st) == LET m == Len(st) IN
  Append(SubSeq(st, 1, m - 2), [st[m - 1] EXCEPT !.k = Append(@, Node("s", st[m].n, <<>>, st[m].k))])
AddLeaf(st, name, v) == [st EXCEPT ![Len(st)].k = Append(@, Node("o", name, v, <<>>))]

RECURSIVE Proj(_)
Proj(nodes) == [i \in DOMAIN nodes |-> [n |-> nodes[i].n, v |-> nodes[i].v, c |-> Proj(nodes[i].c)]]   \* what a node tree shows

(* the events a path handler of mpt_parse_config sees for a complete document: section    *)
(* start / option / section end with the element path; in the flat styles a section is    *)
(* ended by the next header only                                                          *)
RECURSIVE EvSeq(_, _, _, _)
EvSeq(nodes, path, i, flat) ==
  IF i > Len(nodes) THEN <<>>
  ELSE LET x == nodes[i]
           p == Append(path, x.n)
       IN (IF x.k = "o"
           THEN << [e |-> "opt", p |-> p, v |-> x.v] >>
           ELSE << [e |-> "sect", p |-> p, v |-> <<>>] >> \o EvSeq(x.c, p, 1, flat)
                \o (IF flat /\ i = Len(nodes) THEN <<>> ELSE << [e |-> "end", p |-> p, v |-> <<>>] >>))
          \o EvSeq(nodes, path, i + 1, flat)

F == cfg.F
A == cfg.A
Style == StyleOf(F)
Nesting == Style = "pre" \/ (Style = "enc" /\ F.ss # F.se)   \* sections are closed by F.se
Flat    == Style = "sep" \/ (Style = "enc" /\ F.ss = F.se)   \* next header closes the section

RECURSIVE Rep(_, _)
Rep(r, n) == IF n = 0 THEN <<>> ELSE Cat(r, Rep(r, n - 1))
Closers(st) == IF Nesting THEN Rep(C1(F.se), Depth(st)) ELSE <<>>

Case(txt, st) ==
  obs' = [a |-> "parse",
          arg |-> [fmt |-> B(cfg.fmt), acc |-> B(cfg.acc), text |-> txt],
          exp |-> [ret |-> "ok", tree |-> Proj(Fold(st)), links |-> 0, ev |-> EvSeq(Fold(st), <<>>, 1, Flat)]]

---------------------------------------------------------------------------
(* actions *)

(* name [blank] = [blank] value [blank] end *)
AddOption(name, v, q, g, b1, b2, b3, term) ==
  /\ Style # "none" /\ nn < MaxNodes
  /\ name # <<>> /\ NameOK(name, A.opt) /\ NameLex(F, name)
  /\ ValOK(F, v, q) /\ GapOK(F, g)
  /\ F.as = 0 => /\ Style \in {"sep", "enc", "opt"}                 \* blank as assign character: name BLANK value
                 /\ \A b \in BytesOf(name) : ~IsSp(b)             \* (the name ends at the first blank)
  /\ LET blanks == Cat(BlankText(b1), BlankText(b2))
         assign == IF F.as # 0 THEN CatAll(<<BlankText(b1), C1(F.as), BlankText(b2)>>)
                   ELSE IF blanks = <<>> THEN B(<<32>>) ELSE blanks
         body == CatAll(<<GapText(F, g), name, assign, ValText(v, q), BlankText(b3)>>)
         ending == IF F.oe # 0 THEN C1(F.oe)
                   ELSE IF term = "com" THEN ComLine(F, CHOOSE c \in ComChars(F) : TRUE)
                   ELSE C1(10)
         st2 == AddLeaf(stack, name, v)
     IN /\ F.oe # 0 => term = "end"
        /\ F.oe = 0 => term \in {"nl", "com", "eof"}
        /\ term = "com" => ComChars(F) # {} /\ BlankText(b3) # <<>>
        /\ term = "eof" => Closers(stack) = <<>>
        /\ text' = CatAll(<<text, body, ending>>)
        /\ stack' = st2 /\ nn' = nn + 1
        /\ Case(IF term = "eof" THEN Cat(text, body) ELSE Cat(text', Closers(st2)), st2)
  /\ UNCHANGED cfg

(* prefix style:     name [gap] {                                          *)
(* separated style:  [ [blank] name [blank] ]   (closes the open section)  *)
(* enclosed style:   { [gap] name space         (same start/end: closes)   *)
OpenSection(name, g, b1, b2, g2) ==
  /\ nn < MaxNodes /\ NameOK(name, A.sect) /\ GapOK(F, g) /\ GapOK(F, g2)
  /\ F.ss # 0
  /\ \/ /\ Style = "pre" /\ Depth(stack) < MaxDepth /\ NameLex(F, name) /\ F.se # 0
        /\ g2 \in {"none", "nl", "blank", "spcom"}        \* after a newline anything invisible may follow
        /\ name = <<>> => (b1 = "none" /\ g2 = "none")
        /\ LET st2 == Push(stack, name) IN
           /\ text' = CatAll(<<text, GapText(F, g), name, BlankText(b1), GapText(F, g2), C1(F.ss)>>)
           /\ stack' = st2 /\ Case(Cat(text', Closers(st2)), st2)
     \/ /\ Style = "sep" /\ F.ss # F.se /\ F.se # 0 /\ NameLex(F, name) /\ g2 = "none"
        /\ LET st1 == IF Depth(stack) = 1 THEN Pop(stack) ELSE stack
               st2 == Push(st1, name) IN
           /\ text' = CatAll(<<text, GapText(F, g), C1(F.ss), BlankText(b1), name, BlankText(b2), C1(F.se)>>)
           /\ stack' = st2 /\ Case(text', st2)
     \/ /\ Style = "enc" /\ EncNameLex(F, name) /\ b1 = "none"
        /\ Depth(stack) < (IF F.ss = F.se THEN 2 ELSE MaxDepth + 1)
        /\ LET st1 == IF F.ss = F.se /\ Depth(stack) = 1 THEN Pop(stack) ELSE stack
               st2 == Push(st1, name)
               post == IF b2 = "none" THEN C1(10)
                       ELSE IF b2 = "com" THEN ComLine(F, CHOOSE c \in ComChars(F) : \A d \in ComChars(F) : c <= d)
                       ELSE BlankText(b2) IN
           /\ Depth(st1) < MaxDepth
           /\ b2 = "com" => ComChars(F) # {}
           /\ text' = CatAll(<<text, GapText(F, g), C1(F.ss), GapText(F, g2), name, post>>)
           /\ stack' = st2 /\ Case(Cat(text', Closers(st2)), st2)
  /\ nn' = nn + 1
  /\ UNCHANGED cfg

CloseSection(g) ==
  /\ Nesting /\ Depth(stack) > 0 /\ GapOK(F, g)
  /\ text' = CatAll(<<text, GapText(F, g), C1(F.se)>>)
  /\ stack' = Pop(stack)
  /\ Case(Cat(text', Closers(stack')), stack')
  /\ UNCHANGED <<cfg, nn>>

(* trailing decoration only: the document denotes the same forest *)
Trailer(g, g2) ==
  /\ Style # "none" /\ GapOK(F, g) /\ GapOK(F, g2)
  /\ Case(CatAll(<<text, GapText(F, g), Closers(stack), GapText(F, g2)>>), stack)
  /\ UNCHANGED <<cfg, text, stack, nn>>

(* an unmatched section end: in the prefix style the end character at an item position is the  *)
(* section end token; behind a balanced document it closes nothing, so the text denotes no      *)
(* forest and the parse has to fail (target as it was).  At the start (empty document), behind  *)
(* a balanced prefix, and followed by further items.                                           *)
StrayEnd(g, withtail) ==
  /\ Style = "pre" /\ F.se # 0 /\ F.as # 0 /\ GapOK(F, g)
  /\ LET tail == IF withtail
                 THEN CatAll(<<C1(10), B(<<97>>), C1(F.as), B(<<120>>), IF F.oe # 0 THEN C1(F.oe) ELSE C1(10)>>)
                 ELSE <<>>
         doc == CatAll(<<text, Closers(stack), GapText(F, g), C1(F.se), tail>>)
     IN obs' = [a |-> "parse", arg |-> [fmt |-> B(cfg.fmt), acc |-> B(cfg.acc), text |-> doc],
                exp |-> [ret |-> "error", tree |-> <<>>, links |-> 0, ev |-> <<>>]]
  /\ UNCHANGED <<cfg, text, stack, nn>>

Quotes == {0} \cup F.esc
Init ==
  /\ \E c \in Configs : cfg = [fmt |-> c.fmt, acc |-> c.acc, F |-> FormatOf(c.fmt), A |-> AcceptOf(c.acc)]
  /\ text = <<>> /\ stack = << [n |-> <<>>, k |-> <<>>] >> /\ nn = 0
  /\ obs = [a |-> "none", arg |-> [x |-> 0], exp |-> [ret |-> "ok", tree |-> <<>>, links |-> 0, ev |-> <<>>]]

ItemNext ==          \* the actions that extend the document
  \/ \E name \in OptNames, v \in Values, q \in Quotes, d \in Decos :
        AddOption(name, v, q, d.g, d.b1, d.b2, d.b3, IF F.oe # 0 THEN "end" ELSE d.term)
  \/ \E name \in SecNames, d \in Decos : OpenSection(name, d.g, d.b1, d.b2, d.g2)
  \/ \E d \in Decos : CloseSection(d.g)
ObsNext ==           \* further cases about the same document (state unchanged)
  \/ \E d \in Decos : Trailer(d.g, d.g2)
  \/ \E d \in Decos, w \in BOOLEAN : StrayEnd(d.g, w)
Next == ItemNext \/ ObsNext

Spec == Init /\ [][Next]_vars
ItemSpec == Init /\ [][ItemNext]_vars     \* same reachable states (exhaustive runs)

---------------------------------------------------------------------------
(* Tier 2: the character scanner of mpt_parse_data over the path buffer.   *)
(* buf = bytes after the path, valid = parser_context.valid, keep =        *)
(* MPT_PATHFLAG(KeepPost); input = plain byte tuple starting after the     *)
(* assign character.  Result: the value the option event carries and how   *)
(* many bytes were consumed.                                               *)
AddCh(buf, keep, ch) == IF buf # <<>> /\ ~keep THEN [buf EXCEPT ![Len(buf)] = ch] ELSE Append(buf, ch)
DelCh(buf) == IF buf = <<>> THEN buf ELSE SubSeq(buf, 1, Len(buf) - 1)

RECURSIVE Scan(_, _, _, _, _, _, _, _)
Scan(FF, s, i, buf, valid, keep, match, last) ==
  IF i > Len(s) THEN [value |-> SubSeq(buf, 1, valid), used |-> i - 1, end |-> "eof", open |-> match # 0, err |-> FF.oe # 0]
  ELSE
  LET ch == s[i]
      b1 == AddCh(buf, keep, ch)                    \* mpt_parse_getchar stores the byte
  IN
  IF match # 0 THEN
       IF ch = match THEN
            LET b2 == DelCh(b1) IN
            IF last # 92
            THEN Scan(FF, s, i + 1, b2, Len(b2), keep \/ Len(b2) > 0, 0, ch)
            ELSE LET b3 == DelCh(b2)
                     b4 == AddCh(b3, keep, ch) IN
                 Scan(FF, s, i + 1, b4, Len(b4), keep \/ Len(b4) > 0, match, ch)
       ELSE Scan(FF, s, i + 1, b1, Len(b1), TRUE, match, ch)
  ELSE IF ch \in FF.esc THEN Scan(FF, s, i + 1, b1, valid, keep, ch, ch)
  ELSE IF FF.oe # 0 /\ ch = FF.oe THEN [value |-> SubSeq(b1, 1, valid), used |-> i, end |-> "oend", open |-> FALSE, err |-> FALSE]
  ELSE IF ch = 10 THEN [value |-> SubSeq(b1, 1, valid), used |-> i, end |-> "nl", open |-> FALSE, err |-> FF.oe # 0]
  ELSE IF FF.oe = 0 /\ ch \in FF.com /\ last # 0 /\ IsSp(last)
       THEN [value |-> SubSeq(b1, 1, valid), used |-> i, end |-> "com", open |-> FALSE, err |-> FALSE]
  ELSE IF ~IsSp(ch) THEN Scan(FF, s, i + 1, b1, Len(b1), TRUE, 0, ch)
  ELSE Scan(FF, s, i + 1, b1, valid, keep, 0, ch)

DataScan(FF, s) == Scan(FF, s, 1, <<>>, 0, FALSE, 0, 0)

RECURSIVE Flat1(_)
Flat1(r) == IF r = <<>> THEN <<>> ELSE [i \in 1..r[1][2] |-> r[1][1]] \o Flat1(SubSeq(r, 2, Len(r)))  \* runs -> bytes

(* Tier 2 implements Tier 1 on everything the renderer writes after '=' *)
ScanAgrees(FF, v, q, b2, b3, ending) ==
  ValOK(FF, v, q) =>
    LET s == Flat1(CatAll(<<BlankText(b2), ValText(v, q), BlankText(b3), ending>>))
        r == DataScan(FF, s)
    IN r.value = Flat1(v) /\ ~r.open /\ ~r.err
       /\ (ending # <<>> => r.used = Len(s) - RLen(ending) + 1)

---------------------------------------------------------------------------
TypeOK ==
  /\ [fmt |-> cfg.fmt, acc |-> cfg.acc] \in Configs /\ nn \in 0..MaxNodes /\ Len(stack) >= 1
  /\ obs.exp.ret \in {"ok", "error"}
=============================================================================
