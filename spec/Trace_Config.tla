---------------------------- MODULE Trace_Config ----------------------------
(* Trace validation: a recorded execution of the real configuration code   *)
(* (one event per call: arguments + observation) must be a behaviour of    *)
(* Config.  Executions are concatenated; each starts with "init", which     *)
(* names the paths the driver queries after every call (from the root, and  *)
(* -- with a view -- relative to the base).  Path strings carry their own   *)
(* separator; Split gives the path they mean.                              *)
EXTENDS Config, Json, IOUtils
VARIABLES l, tu, tr, tsep
TraceLog == ndJsonDeserialize(IOEnv.TRACE)
None == {}
NoNames == <<>>
NoBase == <<>>
BaseVW == << <<118>>, <<119, 119>> >>       \* "v.ww"
tvars == <<vars, l, tu, tr, tsep>>

Self == <<0>>                               \* "no path": the base element of the view
PathOf(s, sep) == Split(s, sep)

Reset(ev) ==
  /\ tree' = << >> /\ st' = <<>>
  /\ pel' = <<>> /\ po' = [buf |-> <<>>, off |-> 0, len |-> 0, first |-> 0, sep |-> ev.arg.sep, asg |-> 0]
  /\ tsep' = ev.arg.sep
  /\ tu' = [i \in 1..Len(ev.arg.uni) |-> PathOf(ev.arg.uni[i], ev.arg.sep)]
  /\ tr' = [i \in 1..Len(ev.arg.rel) |->
              IF ev.arg.rel[i] = Self THEN Base ELSE Base \o PathOf(ev.arg.rel[i], ev.arg.sep)]
  /\ (Base = <<>> => ev.arg.base = <<0>>)
  /\ (Base # <<>> => ev.arg.base = Join(Base, ev.arg.sep))
  /\ AnsC("init", [x |-> 0], "ok")

Keep == UNCHANGED <<tu, tr, tsep>>
StoreActs == {"init", "assign", "remove", "query", "assignself", "clearbelow", "clearall"}

Step(ev) ==
  LET a == ev.a g == ev.arg IN
  CASE a = "init"       -> Reset(ev)
    [] a = "assign"     -> Keep /\ Assign(g.via, PathOf(UpTo(g.path, g.end), g.sep), g.val, g.sep, g.end)
    [] a = "remove"     -> Keep /\ Remove(g.via, PathOf(g.path, g.sep), g.sep)
    [] a = "query"      -> Keep /\ Query(g.via, PathOf(g.path, g.sep), g.sep)
    [] a = "assignself" -> Keep /\ AssignSelf(g.val)
    [] a = "clearbelow" -> Keep /\ ClearBelow
    [] a = "clearall"   -> Keep /\ ClearAll
    [] a = "pset"       -> Keep /\ PSet(g.str, g.sep, g.asg)
    [] a = "pnext"      -> Keep /\ PNext
    [] a = "plast"      -> Keep /\ PLast
    [] a = "pdel"       -> Keep /\ PDel
    [] a = "paddelem"   -> Keep /\ PAddElem(g.elem)
    [] OTHER            -> FALSE

Matches(ev) ==
  /\ "obs" \in DOMAIN ev
  /\ IF ev.a \in StoreActs
     THEN /\ Len(ev.obs.all) = Len(tu')
          /\ \A i \in 1..Len(tu') : ev.obs.all[i] = TGet(tree', tu'[i])
          /\ Len(ev.obs.rel) = Len(tr')
          /\ \A i \in 1..Len(tr') : ev.obs.rel[i] = TGet(tree', tr'[i])
          \* every typed entry point (mpt_config_getp, mpt_config_get, config::get with target type
          \* and destination) answers each path like the plain query: the value or <<-1>> (absent);
          \* <<-2>> = success answered without writing the destination is never an answer of the map
          /\ "typed" \in DOMAIN ev.obs => \A i \in 1..Len(tu') : ev.obs.typed[i] = TGet(tree', tu'[i])
          /\ "tget" \in DOMAIN ev.obs => \A i \in 1..Len(tu') : ev.obs.tget[i] = TGet(tree', tu'[i])
          /\ "relt" \in DOMAIN ev.obs => \A i \in 1..Len(tr') : ev.obs.relt[i] = TGet(tree', tr'[i])
          /\ "reltget" \in DOMAIN ev.obs => \A i \in 1..Len(tr') : ev.obs.reltget[i] = TGet(tree', tr'[i])
          /\ obs'.exp.anyret \/ obs'.exp.ret = ev.obs.ret
          \* node-list store: a removed element is released, nothing else is (number of allocated node blocks)
          /\ "nodes" \in DOMAIN ev.obs => ev.obs.nodes = Count(st')
     ELSE /\ ev.obs.els = pel'
          /\ obs'.exp.anyret \/ obs'.exp.ret = ev.obs.ret

TraceInit ==
  /\ l = 1 /\ Init /\ tu = <<>> /\ tr = <<>> /\ tsep = 46

TraceNext ==
  /\ l <= Len(TraceLog)
  /\ l' = l + 1
  /\ LET ev == TraceLog[l] IN
       "obs" \in DOMAIN ev /\ Step(ev) /\ Matches(ev)

TraceSpec == TraceInit /\ [][TraceNext]_tvars

TraceAccepted ==
  LET n == TLCGet("stats").diameter - 1 IN
  /\ PrintT(<<"MATCHED", n>>)
  /\ n = Len(TraceLog)
=============================================================================
