SPECIFICATION GenSpec
CONSTANTS MaxOps = 5 RawOps = 6 TouchMem = 1
  Shapes <- ShapesT
  Datas <- DatasFileT
  RawDatas <- DatasRawT
  Ks <- KsQ
  OpenArgs <- OpenT
  SeekArgs <- SeekT
  Parts = {1, 2}
  Early = {0}
  Ahead = {0}
VIEW Skel
ACTION_CONSTRAINT Emit
CHECK_DEADLOCK FALSE
