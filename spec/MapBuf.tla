------------------------------- MODULE MapBuf -------------------------------
(***************************************************************************)
(* X23: the page-mapped buffer implementation (mptcore/array/buffer_map.c) *)
(* under the copy-on-write arrays of CowArray (property C04), and the      *)
(* array holders that C04's base check does not drive (buffer metatype,    *)
(* encode array release).                                                  *)
(*                                                                         *)
(* The meaning tier is CowArray's, unchanged: val[h], vtyp[h] -- every     *)
(* handle an independent vector.  The design tier gets one more field per  *)
(* buffer record: kind \in {"heap", "map"}.                                *)
(*   heap  _mpt_buffer_alloc: capacity AllocSize (granularity Gran),       *)
(*         detach = CowArray's Det (typed content copied, NoCopy refused)  *)
(*   map   _mpt_buffer_map: capacity a multiple of the page size less the  *)
(*         header; detach keeps a private mutable buffer that is large     *)
(*         enough, otherwise makes a NEW MAPPING and copies -- raw content *)
(*         only (typed content: refused), NoCopy is not consulted.         *)
(* Buffers made by the array calls themselves (first use of an empty       *)
(* handle, mpt_array_reserve on shared/immutable storage, the reallocating *)
(* path of mpt_slice_write) are heap buffers whatever the handle held.     *)
(*                                                                         *)
(* The configurations replace three definitions of CowArray                *)
(*      Null <- MNull   NewRec <- MNewRec   Det <- MDet                    *)
(* so that every action of CowArray is used as it stands; Base!Det is the  *)
(* untouched heap detach.  New, Reserve and Printf get variants here       *)
(* because they name the allocator.                                        *)
(***************************************************************************)
EXTENDS CowArray

CONSTANTS Page,     \* page size of the mapped buffers (4096; scaled 2..)
          MTypes,   \* content types offered ({"raw","c","n"})
          Meta      \* handles that stand for a buffer metatype (hold an array, never written)

Base == INSTANCE CowArray

MAllocSize(n)   == ((n + Hdr - 1) \div Page + 1) * Page - Hdr
MNull           == [data |-> <<>>, size |-> 0, imm |-> FALSE, nc |-> FALSE, typ |-> "none", kind |-> "heap"]
MNewRec(d, sz, t) == [data |-> d, size |-> sz, imm |-> FALSE, nc |-> FALSE, typ |-> t, kind |-> "heap"]
Mapped(h)       == rec[h].kind = "map"

(* _mpt_buffer_map_detach(buf, len) / _mpt_buffer_alloc_detach(buf, len) *)
MDet(h, len) ==
  LET r == rec[h] IN
  IF r.kind = "heap" THEN Base!Det(h, len)
  ELSE IF ~Shared(h) /\ ~r.imm /\ len <= r.size
  THEN [ok |-> TRUE, same |-> TRUE, rec |-> r]
  ELSE IF r.typ # "raw"
  THEN [ok |-> FALSE, same |-> TRUE, rec |-> r]
  ELSE [ok |-> TRUE, same |-> FALSE,
        rec |-> [r EXCEPT !.size = MAllocSize(len), !.imm = FALSE, !.data = FirstN(r.data, len)]]

---------------------------------------------------------------------------
(* driver-made buffers: _mpt_buffer_map(len, flags) resp. _mpt_buffer_alloc *)
MakeBuf(a, kind, h, d, imm, nc, t) ==
  LET arg == [h |-> h, data |-> d, imm |-> IF imm THEN 1 ELSE 0, nc |-> IF nc THEN 1 ELSE 0, typ |-> t] IN
  /\ IsNull(h) /\ h \notin Meta
  /\ Len(d) % ESize(t) = 0
  /\ Private(h, [data |-> d, size |-> IF kind = "map" THEN MAllocSize(Len(d)) ELSE AllocSize(Len(d)),
                 imm |-> imm, nc |-> nc, typ |-> t, kind |-> kind])
  /\ V(h, d, t)
  /\ ctr' = ctr + Len(d)
  /\ Answer(a, arg, "ok", <<>>, FALSE)
MNew(h, d, imm, nc, t) == MakeBuf("mnew", "map", h, d, imm, nc, t)
HNew(h, d, imm, nc, t) == MakeBuf("new", "heap", h, d, imm, nc, t)

(* mpt_array_reserve on a private mutable mapped buffer: detach(len) first *)
(* (a failure touches nothing), then the content type is set; everything   *)
(* else is CowArray's Reserve (distinct heap instance for shared/immutable) *)
MReserve(h, len0, t, v) ==
  LET r == rec[h] IN
  IF IsNull(h) \/ r.kind = "heap" \/ Shared(h) \/ r.imm THEN Reserve(h, len0, t, v)
  ELSE LET used  == Len(r.data)
           len   == AlignUp(len0, ESize(t))
           arg   == [h |-> h, len |-> len0, typ |-> t]
           sameT == r.typ = t
           short == sameT /\ len < used
           dr    == MDet(h, len)
       IN
       IF ~dr.ok THEN v = 0 /\ Refuse("reserve", arg, FALSE)
       ELSE LET trunc == (v = 1)
                keep  == IF ~sameT THEN <<>> ELSE IF short /\ trunc THEN FirstN(r.data, len) ELSE r.data
                keep1 == IF ~sameT THEN <<>> ELSE IF short /\ trunc THEN FirstN(val[h], len) ELSE val[h]
            IN
            /\ v = 0 \/ short
            /\ InPlace(h, [dr.rec EXCEPT !.data = keep, !.typ = t])
            /\ V(h, keep1, t)
            /\ UNCHANGED ctr
            /\ Answer("reserve", arg, "ok", <<>>, short)

(* mpt_printf on a mapped character buffer: the text goes into the free    *)
(* space when that is a whole number of work chunks and the text with its  *)
(* terminator fits; every other case needs a copy of typed content, which  *)
(* a mapped buffer refuses -- and a refused call changes nothing.          *)
MPrintf(h, d) ==
  LET r == rec[h] n == Len(d) used == Len(r.data) arg == [h |-> h, data |-> d] IN
  IF r.kind = "heap" \/ r.typ # "c" THEN Printf(h, d)
  ELSE LET room == r.size - used IN
       IF ~Shared(h) /\ ~r.imm /\ room % PChunk = 0 /\ n < room
       THEN /\ InPlace(h, [r EXCEPT !.data = r.data \o d])
            /\ V(h, val[h] \o d, "c")
            /\ ctr' = ctr + n
            /\ Answer("printf", arg, "ok", <<>>, FALSE)
       ELSE Refuse("printf", arg, FALSE)

---------------------------------------------------------------------------
(* Holders of an array that C04's base check does not drive.  A buffer     *)
(* metatype (mpt_meta_buffer(arr), its clone()) keeps its own handle on    *)
(* the array it was made from: in the model it IS one more handle, made by *)
(* assignment, read like every other handle and never written.  The words  *)
(* of C04 then apply as they stand: nothing done through another handle    *)
(* changes what the metatype reads, and releasing it changes nobody else.  *)
HoldCopy(a, h, g) ==
  LET arg == [h |-> h, from |-> g] IN
  IF g = 0 \/ IsNull(g)
  THEN /\ Private(h, MNull) /\ V(h, <<>>, "none") /\ UNCHANGED ctr
       /\ Answer(a, arg, "ok", <<>>, FALSE)
  ELSE IF g \in share[h] THEN NoChange(a, arg, "ok", <<>>)
  ELSE /\ rec' = [rec EXCEPT ![h] = rec[g]]
       /\ share' = [x \in H |-> IF x \in share[g] \/ x = h THEN share[g] \cup {h} ELSE share[x] \ {h}]
       /\ touch' = {}
       /\ V(h, val[g], vtyp[g])
       /\ UNCHANGED ctr
       /\ Answer(a, arg, "ok", <<>>, FALSE)
MetaNew(h, g)   == h \in Meta /\ g \notin Meta /\ HoldCopy("meta", h, g)          \* mpt_meta_buffer(&arr[g]); g = 0: unref
MetaClone(h, g) == h \in Meta /\ g \in Meta /\ g # h /\ ~IsNull(g) /\ HoldCopy("metaclone", h, g)
(* mpt_encode_array_fini: the reference the encode array held is given up *)
EncFini(h) == h \notin Meta /\ HoldCopy("encfini", h, 0)

---------------------------------------------------------------------------
(* Calls with a huge offset/length that reach the allocator or a detach    *)
(* (the buffer level ones do not depend on the kind of buffer).            *)
MHOffs == {Huge - 1, SHuge}          \* SIZE_MAX, LONG_MAX + 1
MNextHuge ==
  \E h \in H \ Meta : (Prune => h = 1) /\
     \/ \E x \in MHOffs : HugeCall("append", [h |-> h, data |-> <<>>, zero |-> 1, hl |-> x])
     \/ \E x \in MHOffs : HugeCall("insert", [h |-> h, pos |-> x, data |-> Fresh(1), hl |-> 0])
     \/ \E x \in MHOffs : HugeCall("insert", [h |-> h, pos |-> MaxArg, data |-> <<>>, hl |-> x])
     \/ \E x \in MHOffs :
           HugeCall("settyped", [h |-> h, typ |-> IF TypOf(h) = "raw" THEN "c" ELSE TypOf(h),
                                 data |-> <<>>, off |-> MaxArg, zero |-> 1, hl |-> x])
     \/ \E x \in MHOffs : HugeCall("slice", [h |-> h, off |-> x, data |-> Zeros(1), fill |-> 0, hl |-> 0])
     \/ \E x \in MHOffs : HugeCall("slice", [h |-> h, off |-> MaxArg, data |-> <<>>, fill |-> 0, hl |-> x])
     \/ \E x \in MHOffs : HugeCall("reserve", [h |-> h, len |-> x, typ |-> TypOf(h)])

(* CowArray's NextC with the three variants; Prune as there (handle 1 acts, *)
(* the others are partners: heap buffers enter through them).               *)
MNextC ==
  \E h \in H \ Meta : LET A == (Prune => h = 1) IN
     \/ \E n \in 0..MaxArg, imm \in BOOLEAN, nc \in BOOLEAN, t \in MTypes :
           /\ Prune => ((imm \/ nc) => h = 1)
           /\ (Prune /\ h # 1) => n = 1
           /\ MNew(h, Fresh(n), imm, nc, t)
     \/ \E n \in 0..MaxArg, imm \in BOOLEAN, nc \in BOOLEAN, t \in MTypes :
           /\ Prune => (h # 1 /\ n = 1 /\ ~nc)
           /\ HNew(h, Fresh(n), imm, nc, t)
     \/ \E n \in 0..MaxArg, z \in {0, 1} :
           /\ A /\ (z = 1 => n > 0)
           /\ (Prune /\ rec[h].typ \notin {"none", "raw"}) => (n = 1 /\ z = 0)
           /\ ArrAppend(h, Data(n, z), z)
     \/ \E pos \in 0..MaxArg, n \in 0..MaxArg, v \in {0, 1} : A /\ Insert(h, pos, Fresh(n), v)
     \/ \E t \in TTypes \cap MTypes, n \in 0..MaxArg, off \in (-2)..MaxArg, z \in {0, 1} :
           /\ A /\ (z = 1 => n > 0)
           /\ (Prune /\ ~TypeOk1(h, t)) => (n = ESize(t) /\ off = 0 /\ z = 0)
           /\ SetTyped(h, t, Data(n, z), off, z)
     \/ \E off \in 0..MaxArg, n \in 0..MaxArg, f \in {0, 1} :
           /\ A /\ (f = 0 => n > 0)
           /\ Slice(h, off, IF f = 1 THEN Fresh(n) ELSE Zeros(n), f)
     \/ \E n \in 0..MaxArg, t \in MTypes, v \in {0, 1} :
           /\ A /\ ((Prune /\ rec[h].typ # t) => n \in {0, MaxArg})
           /\ MReserve(h, n, t, v)
     \/ \E g \in 0..NH : g # h /\ Clone(h, g)
     \/ A /\ Reduce(h)
     \/ \E n \in 0..MaxArg :
           /\ A /\ ((Prune /\ ~TypeOk1(h, "c")) => n = 1)
           /\ MPrintf(h, Fresh(n))
     \/ A /\ String(h)
     \/ \E off \in 0..Used(h), len \in 0..Used(h), nblk \in 0..MaxArg, esz \in 1..2, z \in {0, 1} :
           /\ A /\ nblk * esz <= MaxArg /\ off + len <= Used(h) /\ (z = 1 => nblk > 0)
           /\ (Prune /\ rec[h].typ \notin {"none", "raw"}) => (off = 0 /\ len = 0 /\ nblk = 1 /\ esz = 1 /\ z = 0)
           /\ LET c == SWKeep(h, off, len, esz, nblk) IN
              SliceWrite(h, off, len, nblk, esz, Data(nblk * esz, z), z, c.k, c.compact, c.realloc)
     \/ \E pos \in 0..MaxArg, n \in 0..MaxArg : A /\ BufInsert(h, pos, Fresh(n))
     \/ \E off \in 0..MaxArg, n \in 0..MaxArg : A /\ BufCut(h, off, n)
     \/ \E t \in MTypes, pos \in 0..MaxArg, n \in 0..MaxArg, z \in {0, 1} :
           /\ A /\ (z = 1 => n > 0)
           /\ (Prune /\ rec[h].typ # t) => (pos = 0 /\ n = ESize(t) /\ z = 0)
           /\ BufSet(h, t, pos, Data(n, z), z)
     \/ A /\ EncFini(h)

MNextMeta ==
  \E h \in Meta :
     \/ \E g \in (0..NH) \ Meta : MetaNew(h, g)
     \/ \E g \in Meta : MetaClone(h, g)

MNext == MNextC \/ MNextHuge \/ MNextMeta
MSpec == Init /\ [][MNext]_vars

---------------------------------------------------------------------------
MTypeOK ==
  \A h \in H : /\ rec[h].kind \in {"heap", "map"}
               /\ IsNull(h) => rec[h].kind = "heap"
               /\ Mapped(h) => (rec[h].size + Hdr) % Page = 0
=============================================================================
