---------------------------- MODULE Gen_CobsEnc ----------------------------
(* Behaviour export for CobsEnc: one JSON line per generated transition    *)
(* under a view that keeps what decides the encoder's future (framing,     *)
(* bytes still to push, open block, free room) and drops the bytes already *)
(* finished.  Each line also carries the frame the design reaches when the *)
(* driver completes the message from there ("fin").                        *)
EXTENDS CobsEnc, Json
CONSTANT CapMax
VARIABLE hist
K3 == {SCobs(3), SCobsR(3), SZpe(3, 3), SZpeR(3, 3)}
K5 == {SCobs(5), SCobsR(5), SZpe(5, 4), SZpeR(5, 4)}
KindsQ == K3 \cup {KCmd}
KindsT == K3 \cup K5 \cup {KCmd}
AlphaQ == {0, 1, 6}
AlphaT == {0, 1, 3, 6}
CapsQ  == {0, 2}
CapsT  == 0..2
CapsZ  == {0}
GrowsQ == {1, 2}
PresQ  == {0, 2}
PresG  == {2}
GenInit == Init /\ hist = <<obs>>
GenNext == Next /\ hist' = Append(hist, obs')
GenSpec == GenInit /\ [][GenNext]_<<vars, hist>>
Bound == cap <= pre + CapMax
Skel  == <<K, pre, Rest, run, code, cap - Len(out) - code, st>>
FinExp ==
  IF st' = "dead" \/ ~Admits(K', msg') THEN [ret |-> "err"]
  ELSE LET f == IF st' = "done" THEN DropN(out', pre')
                ELSE DropN(FinOut(K', out', run', code', DropN(msg', acc')), pre')
       IN [ret |-> "ok", frame |-> f, decs |-> <<RefDec(K', f).msg>>]
Emit  == PrintT(<<"BEHAV", ToJson([h |-> hist', fin |-> FinExp])>>)
=============================================================================
