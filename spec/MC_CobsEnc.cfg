SPECIFICATION Spec
CONSTANTS
  Kinds <- KindsQ
  Alpha <- AlphaS
  MaxMsg = 4
  Caps <- CapsZ
  Grows <- GrowsQ
  Pres <- PresQ
  CapMax = 10
CONSTRAINT Bound
VIEW View
INVARIANTS TypeOK AnswerAllowed PartialDenotes PartialText Final Refused FinDenotes RefRoundTrip
CHECK_DEADLOCK FALSE
