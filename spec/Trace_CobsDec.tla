--------------------------- MODULE Trace_CobsDec ---------------------------
(* Trace validation for C03: recorded executions of the real decoders must *)
(* be behaviours of the Tier-1 part of CobsDec (CallOK, WriteOK, Verdict). *)
(* Two kinds of events:                                                    *)
(*  - step-wise: dinit / feed / call / peek / grant, one event per call    *)
(*    (used for replayed behaviours the design disagrees with, scaled      *)
(*    limits, and for seeded schedules at production size);                *)
(*  - "run": one protocol-following decode of a whole byte stream (feed in *)
(*    chunks, call until "more", grant on "nobuf", stop at the first       *)
(*    error): the list of answers is judged frame by frame by the same     *)
(*    Verdict operator (production block sizes 255/223).                   *)
EXTENDS CobsDec, Json, IOUtils
VARIABLE l
TraceLog == ndJsonDeserialize(IOEnv.TRACE)

KOf(arg) == KindOf(arg.kind, arg.m, IF arg.m = 3 THEN 3 ELSE 4)
Tier2Idle == /\ reg' = <<>> /\ curr' = 0 /\ pos' = 0 /\ dlen' = 0 /\ dmsg' = -1 /\ code' = 0 /\ cpos' = 0
Keep(a) == obs' = [a |-> a, arg |-> [x |-> 0], exp |-> [ret |-> "any"]]

\* answers of a whole run, frame by frame from stream offset f
RECURSIVE RunOK(_, _, _, _, _, _)
RunOK(KK, data, res, i, f, fin) ==
  LET v == Verdict(KK, data, f, Len(data)) IN
  IF i > Len(res)
  THEN \* no further answer: the decoder asked for more input (or the result budget was used up)
       fin = "msg" \/ (fin = "more" /\ v.st = "open")
  ELSE LET r == res[i] IN
       IF r.r = "msg"
       THEN /\ v.st \in {"ok", "amb"} /\ r.m = v.msg
            /\ RunOK(KK, data, res, i + 1, f + v.len, fin)
       ELSE /\ r.r = "err" /\ v.st \in {"bad", "amb"}
            /\ i = Len(res) /\ fin = "err"

Step(ev) ==
  CASE ev.a = "dinit" ->
         /\ K' = KOf(ev.arg) /\ stream' = <<>> /\ fedn' = 0 /\ fs' = 0 /\ lost' = FALSE
         /\ ev.obs.ret = "ok" /\ last' = "none" /\ Tier2Idle /\ Keep("dinit")
    [] ev.a = "feed" ->
         /\ stream' = stream \o ev.arg.data /\ fedn' = fedn + Len(ev.arg.data)
         /\ last' = "feed" /\ Tier2Idle /\ Keep("feed") /\ UNCHANGED <<K, fs, lost>>
    [] ev.a = "grant" ->
         /\ last' = "grant" /\ Tier2Idle /\ Keep("grant") /\ UNCHANGED <<K, stream, fedn, fs, lost>>
    [] ev.a = "call" ->
         /\ ev.obs.guards = 1
         /\ WriteOK(ev.obs.chg_hi, ev.obs.curr)
         /\ CallOK(K, stream, fs, fedn, lost, ev.obs.ret, ev.obs.msg)
         /\ fs' = NextFs(K, stream, fs, fedn, ev.obs.ret)
         /\ lost' = NextLost(lost, ev.obs.ret)
         /\ last' = ev.obs.ret /\ Tier2Idle /\ Keep("call") /\ UNCHANGED <<K, stream, fedn>>
    [] ev.a = "peek" ->
         /\ ev.obs.guards = 1
         /\ WriteOK(ev.obs.chg_hi, ev.obs.curr)
         /\ ev.obs.ret \in {"more", "nobuf", "err"}
         /\ last' = "peek" /\ Tier2Idle /\ Keep("peek") /\ UNCHANGED <<K, stream, fedn, fs, lost>>
    [] ev.a = "run" ->
         /\ K' = KOf(ev.arg) /\ stream' = ev.arg.data /\ fedn' = Len(ev.arg.data) /\ fs' = 0 /\ lost' = FALSE
         /\ ev.obs.guards = 1 /\ ev.obs.wr_outside = 0
         /\ ev.obs.fed = Len(ev.arg.data)
         /\ RunOK(K', ev.arg.data, ev.obs.res, 1, 0, ev.obs.last)
         /\ last' = "run" /\ Tier2Idle /\ Keep("run")
    [] OTHER -> FALSE

TraceInit ==
  /\ l = 1 /\ K = KCobs /\ stream = <<>> /\ fedn = 0 /\ fs = 0 /\ lost = FALSE
  /\ reg = <<>> /\ curr = 0 /\ pos = 0 /\ dlen = 0 /\ dmsg = -1 /\ code = 0 /\ cpos = 0 /\ last = "none"
  /\ obs = [a |-> "none", arg |-> [x |-> 0], exp |-> [ret |-> "any"]]

TraceNext ==
  /\ l <= Len(TraceLog)
  /\ l' = l + 1
  /\ Step(TraceLog[l])

TraceSpec == TraceInit /\ [][TraceNext]_<<vars, l>>

TraceAccepted ==
  LET n == TLCGet("stats").diameter - 1 IN
  /\ PrintT(<<"MATCHED", n>>)
  /\ n = Len(TraceLog)
=============================================================================
