--------------------------- MODULE Trace_CobsDec ---------------------------
(* Trace validation for C03: recorded executions of the real decoders must *)
(* be behaviours of the Tier-1 part of CobsDec (CallOK, WriteOK, Verdict). *)
(* Two kinds of events:                                                    *)
(*  - step-wise: dinit / feed / call / peek / grant, one event per call    *)
(*    (used for replayed behaviours the design disagrees with, scaled      *)
(*    limits, and for seeded schedules at production size);                *)
(*  - "run": one protocol-following decode of a whole byte stream (feed in *)
(*    chunks, call until "more", grant on "nobuf", stop at the first       *)
(*    error): the list of answers is judged frame by frame by the same     *)
(*    Verdict operator (production block sizes 255/223).                   *)
(* An event the specification cannot take is recorded in `bad` and the     *)
(* rest of that execution (same "b") is skipped, so one TLC run judges all *)
(* executions; the trace is accepted iff `bad` stays empty.                *)
EXTENDS CobsDec, Json, IOUtils
VARIABLES l, bad, skipb
TraceLog == ndJsonDeserialize(IOEnv.TRACE)

KOf(arg) == KindOf(arg.kind, arg.m, IF arg.m = 3 THEN 3 ELSE 4)

\* answers of a whole run, frame by frame from stream offset f
RECURSIVE RunOK(_, _, _, _, _, _)
RunOK(KK, data, res, i, f, fin) ==
  LET v == Verdict(KK, data, f, Len(data)) IN
  IF i > Len(res)
  THEN \* no further answer: the decoder asked for more input (or the answer budget was used up)
       fin = "msg" \/ (fin = "more" /\ v.st = "open")
  ELSE LET r == res[i] IN
       IF r.r = "msg"
       THEN /\ v.st \in {"ok", "amb"} /\ r.m = v.msg
            /\ RunOK(KK, data, res, i + 1, f + v.len, fin)
       ELSE /\ r.r = "err" /\ v.st \in {"bad", "amb"}
            /\ i = Len(res) /\ fin = "err"

Judge(ev) ==
  CASE ev.a = "dinit" -> ev.obs.ret = "ok"
    [] ev.a = "feed"  -> TRUE
    [] ev.a = "grant" -> TRUE
    [] ev.a = "call"  -> /\ ev.obs.guards = 1
                         /\ WriteOK(ev.obs.chg_hi, ev.obs.curr)
                         /\ CallOK(K, stream, fs, fedn, lost, ev.obs.ret, ev.obs.msg)
                         /\ (ev.obs.ret = "nobuf" /\ ~lost) => NobufOK(K, ev.obs.slack)
    [] ev.a = "peek"  -> /\ ev.obs.guards = 1
                         /\ WriteOK(ev.obs.chg_hi, ev.obs.curr)
                         /\ ev.obs.ret \in {"more", "nobuf", "err"}
    [] ev.a = "run"   -> /\ ev.obs.guards = 1 /\ ev.obs.wr_margin < 0      \* every call changed bytes below its final curr only
                         \* everything is fed unless an error or the answer budget ended the run
                         /\ (ev.obs.nobuf_slack >= 0 => NobufOK(KOf(ev.arg), ev.obs.nobuf_slack))
                         /\ ev.obs.fed <= Len(ev.arg.data)
                         /\ (ev.obs.last = "more" => ev.obs.fed = Len(ev.arg.data))
                         /\ RunOK(KOf(ev.arg), SubSeq(ev.arg.data, 1, ev.obs.fed), ev.obs.res, 1, 0, ev.obs.last)
    [] OTHER -> FALSE

Tier2Idle == UNCHANGED <<reg, curr, pos, dlen, dmsg, code, cpos, obs>>
Update(ev) ==
  CASE ev.a = "dinit" -> /\ K' = KOf(ev.arg) /\ stream' = <<>> /\ fedn' = 0 /\ fs' = 0 /\ lost' = FALSE
                         /\ last' = "none" /\ Tier2Idle
    [] ev.a = "feed"  -> /\ stream' = stream \o ev.arg.data /\ fedn' = fedn + Len(ev.arg.data)
                         /\ last' = "feed" /\ Tier2Idle /\ UNCHANGED <<K, fs, lost>>
    [] ev.a = "call"  -> /\ fs' = NextFs(K, stream, fs, fedn, ev.obs.ret)
                         /\ lost' = NextLost(lost, ev.obs.ret)
                         /\ last' = ev.obs.ret /\ Tier2Idle /\ UNCHANGED <<K, stream, fedn>>
    [] OTHER -> UNCHANGED vars

TraceInit ==
  /\ l = 1 /\ bad = <<>> /\ skipb = -1
  /\ K = KCobs /\ stream = <<>> /\ fedn = 0 /\ fs = 0 /\ lost = FALSE
  /\ reg = <<>> /\ curr = 0 /\ pos = 0 /\ dlen = 0 /\ dmsg = -1 /\ code = 0 /\ cpos = 0 /\ last = "none"
  /\ obs = [a |-> "none", arg |-> [x |-> 0], exp |-> [ret |-> "any"]]

TraceNext ==
  /\ l <= Len(TraceLog)
  /\ l' = l + 1
  /\ LET ev == TraceLog[l] IN
     IF ev.b = skipb THEN UNCHANGED <<vars, bad, skipb>>
     ELSE IF Judge(ev) THEN Update(ev) /\ UNCHANGED <<bad, skipb>>
     ELSE PrintT(<<"REJECT", l>>) /\ bad' = Append(bad, l) /\ skipb' = ev.b /\ UNCHANGED vars

TraceSpec == TraceInit /\ [][TraceNext]_<<vars, l, bad, skipb>>

AtEnd == l > Len(TraceLog) => PrintT(<<"MATCHED", l - 1, "REJECTED", Len(bad)>>)
TraceAccepted == TLCGet("stats").diameter - 1 = Len(TraceLog)
=============================================================================
