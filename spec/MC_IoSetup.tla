---------------------------- MODULE MC_IoSetup ----------------------------
(* Exhaustive configuration of IoSetup: full state, small constants.      *)
EXTENDS IoSetup
View == state
OpsQ == {"refuse", "accept", "release"}
OpsT == {"refuse", "accept", "config", "create", "release"}
=============================================================================
