SPECIFICATION Spec
CONSTANTS MaxOps = 5 RawOps = 7
  Shapes <- ShapesT
  Datas <- DatasT
  RawDatas <- RawDatasQ
  Ks <- KsQ
  OpenArgs <- OpenT
  SeekArgs <- SeekQ
  Parts <- PartsQ
  Early <- EarlyQ
  Ahead <- AheadQ
VIEW View
INVARIANTS TypeOK RawConservation RawRefines FileRefines ReadRefines FlushComplete
PROPERTIES RawTiling RawPeek RawDiscard ReadIsFile EndlExact
CHECK_DEADLOCK FALSE
