SPECIFICATION Spec
CONSTANTS NtMax = 4 Firsts <- McFirstsT Deltas <- McDeltasT RVals <- McRVals IVals <- McIVals RLenMax = 3 LogDen = 128
INVARIANTS TypeOK PtrOK Completes Refines
ACTION_CONSTRAINT Emit
CHECK_DEADLOCK FALSE
