------------------------------ MODULE CfgInit ------------------------------
(***************************************************************************)
(* Extension X27 of C10: the process START-UP door of the process-wide     *)
(* configuration: mpt_init(argc, argv) (mptcore/misc/init.c) and what      *)
(* reads its result, mpt_client_config (mptcore/client/client_config.c).   *)
(*                                                                         *)
(* Built on ConfigLoad (X10): the store (Config: tree / st), the document  *)
(* generator (ConfText instance CT: doc = the text of a configuration file *)
(* with the option events it denotes), the environment import              *)
(* (EnvAssigns), the "path=value" strings (ArgAssigns), LastWins.          *)
(*                                                                         *)
(* A start-up IS the sequence of single assignments it makes, in the order *)
(* init.c documents (InitAssigns):                                         *)
(*   1. the files of the directory $MPT_PREFIX_ETC into the sub-tree "mpt" *)
(*      (mpt_config_load, covered by X10; here: mpt.conf present or not);  *)
(*   2. $MPT_FLAGS letter by letter: E = import the environment with the   *)
(*      library's default pattern and mask every later import of this      *)
(*      process; e = import with "mpt_*", first occurrence only; others    *)
(*      (v ...) do not touch the store;                                    *)
(*   3. "mpt" := argv[0];                                                  *)
(*   4. the options as getopt("+f:c:l:Ee:v") reads them (Scan), in order:  *)
(*      -f FILE  every option of FILE is one assignment FROM THE ROOT;     *)
(*               a file that does not exist or does not parse refuses;     *)
(*      -c V     mpt.connect := V, a second -c refuses;                    *)
(*      -l V     mpt.listen := V, a second -l refuses;                     *)
(*      -E       as the flag letter;  -e PAT  import matching PAT (every   *)
(*               occurrence, unless masked);  -v  nothing;                 *)
(*      unknown letter / missing option value: refuses;                    *)
(*      first non-option or "--": the remaining arguments are stored as    *)
(*      the value of mpt.args (saveArgs) -- only when getopt met the end   *)
(*      itself: options that use up the whole vector store nothing.        *)
(* Afterwards every query answers by the base property: the value most     *)
(* recently assigned to exactly that path by this history (a later option  *)
(* overrides an earlier one, an import after -c overrides it, -c after the *)
(* import overrides the variable), absence otherwise; InitProp restates    *)
(* LastWins for the whole start-up.  A refused start-up answers an error;  *)
(* the statement is silent about the store it leaves (the code keeps what  *)
(* was assigned before the refusal): nothing is compared, the behaviour    *)
(* ends.  A second start-up in the same process continues the history      *)
(* (the code clears the store at exit only); the -E mask is process-wide.  *)
(*                                                                         *)
(* mpt_client_config(cfg): the stored remaining arguments: the first is    *)
(* the value of the client's own element, the others are "path=value"      *)
(* assignments below it (mpt_config_args).                                 *)
(***************************************************************************)
EXTENDS ConfigLoad

CONSTANTS ArgVecs,    \* argument vectors: sequences of strings, [1] = program name
          EnvSets,    \* environments: sequences of "NAME=value"
          FlagStrs,   \* values of MPT_FLAGS (Null0 = not set)
          EtcKinds,   \* subset of {"none", "doc"}: $MPT_PREFIX_ETC/mpt.conf absent / the document
          BadText,    \* a text the configuration format refuses
          MaxInits    \* start-ups per behaviour

VARIABLES gl,         \* the environment mask of setEnviron (static, process-wide)
          saved,      \* remaining arguments stored by the last start-up, NoRest = none
          ninit, dead
ivars == <<xvars, gl, saved, ninit, dead>>

NoRest == << <<-9>> >>                              \* (a list of strings like the stored arguments)
ArgsN    == <<97, 114, 103, 115>>                   \* "args"
ConnectN == <<99, 111, 110, 110, 101, 99, 116>>     \* "connect"
ListenN  == <<108, 105, 115, 116, 101, 110>>        \* "listen"
FileDoc  == <<70>>                                  \* "F": the document;  "B": BadText;  anything else: no such file
FileBad  == <<66>>
TV(v) == IF v = <<>> THEN Vague ELSE v

(* getopt("+f:c:l:Ee:v") over av[2..]: option events, then how it ends *)
OptName(c) == CASE c = 69 -> "E" [] c = 118 -> "v" [] c = 102 -> "f" [] c = 99 -> "c" [] c = 108 -> "l" [] c = 101 -> "e"
                [] OTHER -> "bad"
Ev(o, v, r) == [o |-> o, v |-> v, r |-> r]
RECURSIVE Scan(_, _, _)
Scan(av, i, k) ==
  IF i > Len(av) THEN <<>>                                         \* the options used up the vector
  ELSE LET s == av[i] IN
    IF k = 0 THEN
      IF Len(s) < 2 \/ s[1] # 45 THEN << Ev("rest", <<>>, SubSeq(av, i, Len(av))) >>
      ELSE IF s = <<45, 45>> THEN << Ev("rest", <<>>, SubSeq(av, i + 1, Len(av))) >>
      ELSE Scan(av, i, 2)
    ELSE LET o == OptName(s[k]) IN
      IF o \in {"E", "v"} THEN << Ev(o, <<>>, <<>>) >> \o (IF k = Len(s) THEN Scan(av, i + 1, 0) ELSE Scan(av, i, k + 1))
      ELSE IF o = "bad" THEN << Ev("bad", <<>>, <<>>) >>
      ELSE IF k < Len(s) THEN << Ev(o, SubSeq(s, k + 1, Len(s)), <<>>) >> \o Scan(av, i + 1, 0)
      ELSE IF i + 1 <= Len(av) THEN << Ev(o, av[i + 1], <<>>) >> \o Scan(av, i + 2, 0)
      ELSE << Ev("bad", <<>>, <<>>) >>

FlagEvents(fl) ==
  IF fl = Null0 THEN <<>>
  ELSE LET idx == SelectSeq([i \in DOMAIN fl |-> i],
                            LAMBDA i : fl[i] = 69 \/ (fl[i] = 101 /\ \A j \in 1..(i - 1) : fl[j] # 101))
       IN [n \in DOMAIN idx |-> IF fl[idx[n]] = 69 THEN Ev("E", <<>>, <<>>) ELSE Ev("e", DefPattern, <<>>)]

\* the value of mpt.args read as text: the first remaining argument
ArgsText(r) == IF r = <<>> THEN Vague ELSE TV(r[1])

S0(g, as) == [as |-> as, g |-> g, ctl |-> FALSE, src |-> FALSE, end |-> "run", rest |-> NoRest]
Apply(s, e, envs, fopts) ==
  IF s.end # "run" THEN s
  ELSE CASE e.o = "v" -> s
         [] e.o = "E" -> IF s.g THEN s ELSE [s EXCEPT !.as = @ \o EnvAssigns(envs, Null0, 95), !.g = TRUE]
         [] e.o = "e" -> IF s.g THEN s ELSE [s EXCEPT !.as = @ \o EnvAssigns(envs, e.v, 95)]
         [] e.o = "c" -> IF s.ctl THEN [s EXCEPT !.end = "refused"]
                         ELSE [s EXCEPT !.as = Append(@, [p |-> <<Mpt, ConnectN>>, v |-> TV(e.v)]), !.ctl = TRUE]
         [] e.o = "l" -> IF s.src THEN [s EXCEPT !.end = "refused"]
                         ELSE [s EXCEPT !.as = Append(@, [p |-> <<Mpt, ListenN>>, v |-> TV(e.v)]), !.src = TRUE]
         [] e.o = "f" -> IF e.v = FileDoc THEN [s EXCEPT !.as = @ \o fopts] ELSE [s EXCEPT !.end = "refused"]
         [] e.o = "rest" -> [s EXCEPT !.as = Append(@, [p |-> <<Mpt, ArgsN>>, v |-> ArgsText(e.r)]), !.end = "done", !.rest = e.r]
         [] OTHER -> [s EXCEPT !.end = "refused"]
RECURSIVE Fold(_, _, _, _)
Fold(s, evs, envs, fopts) == IF evs = <<>> THEN s ELSE Fold(Apply(s, evs[1], envs, fopts), Rest(evs), envs, fopts)

\* the whole start-up as assignments in order, how it ends, the mask and the stored arguments afterwards
InitRun(g, av, envs, fl, etc, d) ==
  LET fopts == OptsOf(d)
      s1 == Fold(S0(g, IF etc = "doc" THEN Under(<<Mpt>>, fopts) ELSE <<>>), FlagEvents(fl), envs, fopts)
      s2 == [s1 EXCEPT !.as = Append(@, [p |-> <<Mpt>>, v |-> TV(av[1])])]
  IN Fold(s2, Scan(av, 2, 0), envs, fopts)

EnvOK(envs) == /\ \A i \in DOMAIN envs : HasCh(envs[i], 61) /\ UpTo(envs[i], 61) # <<>>
               /\ \A i, j \in DOMAIN envs : EnvNames(envs)[i] = EnvNames(envs)[j] => i = j

Startup(av, envs, fl, etc) ==
  /\ ~dead /\ ninit < MaxInits /\ nops < MaxOps /\ DefaultFormat /\ EnvOK(envs)
  /\ LET r == InitRun(gl, av, envs, fl, etc, doc)
         ok == r.end # "refused"
         t2 == TAssignAll(tree, r.as)
     IN /\ tree' = t2 /\ st' = SAssignAll(st, r.as)
        /\ gl' = r.g /\ ninit' = ninit + 1 /\ dead' = ~ok
        /\ saved' = IF r.end = "done" THEN r.rest ELSE saved
        /\ KeepDraft /\ KeepPathX /\ nops' = nops + 1 /\ narr' = narr + 1
        /\ obs' = [a |-> "startup", eff |-> [k |-> IF ok THEN "set" ELSE "none", as |-> r.as],
                   arg |-> [argv |-> av, env |-> envs, flags |-> fl, etc |-> etc, ftext |-> DocText(doc), btext |-> BadText],
                   exp |-> [ret |-> IF ok THEN "ok" ELSE "refused", anyret |-> FALSE, allany |-> ~ok,
                            nodes |-> Count(st'),
                            args |-> IF r.end = "done" THEN r.rest ELSE saved,
                            all |-> IF ok THEN AllOf(t2) ELSE <<>>, rel |-> IF ok THEN RelOf(t2) ELSE <<>>]]

\* mpt_client_config through the view: own element := first stored argument, the others "path=value" below it
ClientConfig ==
  /\ ~dead /\ Base # <<>> /\ nops < MaxOps
  /\ saved # NoRest => TGet(tree, <<Mpt, ArgsN>>) = ArgsText(saved)
  /\ saved = NoRest => <<Mpt, ArgsN>> \notin DOMAIN tree
  /\ LET as == IF saved \in {NoRest, <<>>} THEN <<>>
               ELSE << [p |-> Base, v |-> TV(saved[1])] >> \o Under(Base, ArgAssigns(Rest(saved)))
         t2 == TAssignAll(tree, as)
     IN /\ tree' = t2 /\ st' = SAssignAll(st, as)
        /\ UNCHANGED <<gl, saved, ninit, dead>>
        /\ KeepDraft /\ KeepPathX /\ nops' = nops + 1 /\ narr' = narr + 1
        /\ obs' = [a |-> "client", eff |-> [k |-> "set", as |-> as], arg |-> [x |-> 0],
                   exp |-> [ret |-> "any", anyret |-> TRUE, allany |-> FALSE, nodes |-> Count(st'),
                            args |-> saved, all |-> AllOf(t2), rel |-> RelOf(t2)]]

InitI == InitX /\ gl = FALSE /\ saved = NoRest /\ ninit = 0 /\ dead = FALSE

NextI ==
  \/ (DraftItem /\ UNCHANGED <<gl, saved, ninit, dead>>)
  \/ (~dead /\ Single /\ UNCHANGED <<gl, saved, ninit, dead>>)
  \/ \E av \in ArgVecs, envs \in EnvSets, fl \in FlagStrs, etc \in EtcKinds : Startup(av, envs, fl, etc)
  \/ ClientConfig

SpecI == InitI /\ [][NextI]_ivars

\* the base property for the whole call (ArrivalStep of X10 reads obs'.eff)
InitProp == [][ArrivalStep]_ivars
\* a refused start-up ends the behaviour; an accepted one that met the end of the options stored the rest
DeadEnds == dead => obs.a = "startup" /\ obs.exp.ret = "refused"
=============================================================================
