SPECIFICATION SpecM
CONSTANTS MaxNodes = 4 Kinds <- KindsQ Pos <- PosQ3 Keys <- KeysQ
VIEW View
INVARIANTS TypeOK WellFormed OnceInForest Refines QueryInv
PROPERTIES QueryAgree CloneIso ReleaseOnce
CHECK_DEADLOCK FALSE
