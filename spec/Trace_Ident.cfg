SPECIFICATION TraceSpec
CONSTANTS NId = 4 Maxes = {12} Lens = {0} TraitsMax = 12 ValSz = 4 PtrSz = 8 Limit = 65535 CodeOrder = FALSE
INVARIANTS TypeOK NoBadFree NoLeak Refines CmpAgrees
POSTCONDITION TraceAccepted
CHECK_DEADLOCK FALSE
