----------------------------- MODULE MC_NumText -----------------------------
(***************************************************************************)
(* Exhaustive model-level check of NumText on scaled types: every value of *)
(* every scaled type x every format of a format set x buffer sizes; every  *)
(* string over small alphabets for the format / destination / range        *)
(* parsers; short vectors.  TLC decides Tier 2 => Tier 1 (XDesignSound),   *)
(* that the design is not vacuous (XDesignUseful) and the digit operators  *)
(* (XDigitsSound, XPrintedSound).  The state graph is a fan.               *)
(***************************************************************************)
EXTENDS NumText

CONSTANTS PrintTypes,            \* source types printed
          IntFormats, FltFormats, \* sets of [flags, width, dec]
          Lefts, FltLefts,       \* buffer sizes (integer / floating prints)
          FmtAlphabet, FmtLen,   \* format descriptions
          DestAlphabet, DestLen, DestSeps, DestMax,
          RDsts, RBases, RAlphabet, RLen,   \* numerals read with a range
          VecTypes, VecLen,      \* element types / lengths of vectors
          SinkTypes, SinkCaps, SinkLefts   \* prints through a sink: types, bytes taken per call, total capacities

S(b) == [kind |-> "int", sg |-> 1, bits |-> b]
U(b) == [kind |-> "int", sg |-> 0, bits |-> b]
FT(p, emax) == [kind |-> "flt", p |-> p, emax |-> emax]

(* as in MC_Convert: 8/16/32/64 bit -> 3/4/5/6 bit *)
ScaledTypes == [c |-> S(3), b |-> S(3), y |-> U(3), n |-> S(4), q |-> U(4), i |-> S(5), u |-> U(5),
                x |-> S(6), t |-> U(6), l |-> S(6), f |-> FT(4, 6), d |-> FT(5, 9), e |-> FT(6, 12)]
RealTypes   == [c |-> S(8), b |-> S(8), y |-> U(8), n |-> S(16), q |-> U(16), i |-> S(32), u |-> U(32),
                x |-> S(64), t |-> U(64), l |-> S(64), f |-> FT(24, 127), d |-> FT(53, 1023), e |-> FT(64, 16383)]

IntVals(T) == {IntNum(0, FromInt(k)) : k \in 0..(2^(T.bits - T.sg) - 1)}
              \cup (IF T.sg = 1 THEN {IntNum(1, FromInt(k)) : k \in 1..(2^(T.bits - 1))} ELSE {})
FinVals(T) == {Fin(s, FromInt(m), q) : s \in {0, 1}, m \in (2^(T.p - 1))..(2^T.p - 1), q \in QMin(T)..(T.emax - T.p + 1)}
              \cup {Fin(s, FromInt(m), QMin(T)) : s \in {0, 1}, m \in 0..(2^(T.p - 1) - 1)}
FltVals(T) == FinVals(T) \cup {Inf(0), Inf(1), NaN}
Vals(t)    == IF TypeTab[t].kind = "int" THEN IntVals(TypeTab[t]) ELSE FltVals(TypeTab[t])

StringsOver(A, first, n) == IF first = 0 THEN {<< >>}
                            ELSE UNION {{<<first>> \o s : s \in [1..k -> A]} : k \in 0..(n - 1)}

VF(fl, w, d) == [flags |-> fl, width |-> w, dec |-> d]

IntFormatsQ == {VF(fl, w, 0) : fl \in {0, 1, 2, 256, 257, 512, 4}, w \in {0, 3}} \cup {VF(768, 5, 0)}
FltFormatsQ == {VF(fl, 0, d) : fl \in {0, 32}, d \in {0, 2, 3}} \cup {VF(288, 7, 2), VF(16, 0, 2), VF(64, 0, 1), VF(512, 9, 1)}
IntFormatsT == {VF(fl, w, 0) : fl \in {0, 1, 2, 3, 256, 257, 258, 512, 513, 4, 8}, w \in {0, 2, 3, 5}}
FltFormatsT == {VF(fl, w, d) : fl \in {0, 32, 288}, w \in {0, 9}, d \in {0, 1, 2, 3, 4}} \cup {VF(16, 0, 2), VF(64, 0, 1), VF(512, 5, 2)}
IntFormatsG == {VF(fl, 0, 0) : fl \in {0, 1, 2, 256}} \cup {VF(1, 7, 0), VF(513, 30, 0), VF(4, 0, 0)}
FltFormatsG == {VF(0, 0, 0), VF(0, 0, 3), VF(32, 30, 16), VF(16, 0, 13)}
IntFormatsGT == {VF(fl, w, 0) : fl \in {0, 1, 2, 256, 257}, w \in {0, 7}} \cup {VF(513, 30, 0), VF(4, 0, 0)}
FltFormatsGT == {VF(0, 0, 0), VF(256, 12, 0), VF(0, 0, 3), VF(32, 0, 8), VF(32, 30, 16), VF(32, 0, 20), VF(0, 0, 40), VF(16, 0, 13), VF(288, 0, 17),
                 VF(512, 9, 2), VF(64, 0, 2), VF(1, 0, 5)}

(* a few type values used as range limits and vector elements *)
RPicks(t) == LET T == TypeTab[t] IN
             IF T.kind = "int" THEN {IntLo(T), IntHi(T), NatNum(0), NatNum(1)}
             ELSE {Fin(0, Zero, 0), Fin(0, One, 0), Inf(0), NaN}
Picks(t) == LET T == TypeTab[t] IN
            IF T.kind = "int" THEN {IntLo(T), IntHi(T), NatNum(0), NatNum(1), NatNum(2)} \cup (IF T.sg = 1 THEN {IntNum(1, One)} ELSE {})
            ELSE {Fin(0, Zero, 0), Fin(0, One, 0), Fin(1, FromInt(3), -1), MaxFin(T), Inf(0), NaN}

MCInit ==
  \/ \E t \in PrintTypes, left \in Lefts \cup FltLefts :
       \E f \in (IF TypeTab[t].kind = "int" THEN IntFormats ELSE FltFormats) :
         /\ left \in (IF TypeTab[t].kind = "int" THEN Lefts ELSE FltLefts)
         /\ obs = [a |-> "init", arg |-> [kind |-> "print", src |-> t, f |-> f, left |-> left], exp |-> [x |-> 0]]
  \/ \E first \in FmtAlphabet \cup {0} :
       obs = [a |-> "init", arg |-> [kind |-> "fmt", first |-> first], exp |-> [x |-> 0]]
  \/ \E first \in DestAlphabet \cup {0}, sep \in DestSeps, max \in DestMax :
       obs = [a |-> "init", arg |-> [kind |-> "dest", first |-> first, sep |-> sep, max |-> max], exp |-> [x |-> 0]]
  \/ \E dst \in RDsts, base \in RBases, first \in RAlphabet :
       obs = [a |-> "init", arg |-> [kind |-> "rtext", dst |-> dst, base |-> base, first |-> first], exp |-> [x |-> 0]]
  \/ \E api \in {"value", "data", "array"}, sk \in {"scalar", "vec", "array"}, src \in VecTypes, dk \in {"vec", "gen", "scalar"}, dst \in VecTypes :
       /\ (api = "array") => (sk = "array")
       /\ (api = "data") => (sk = "scalar")
       /\ obs = [a |-> "init", arg |-> [kind |-> "vec", api |-> api, sk |-> sk, src |-> src, dk |-> dk, dst |-> dst], exp |-> [x |-> 0]]
  \/ \E t \in SinkTypes, pol \in {"all", "part", "cap"}, cap \in SinkCaps, left \in SinkLefts :
       /\ (pol # "cap") => (cap = CHOOSE c \in SinkCaps : TRUE)
       /\ obs = [a |-> "init", arg |-> [kind |-> "sink", src |-> t, pol |-> pol, cap |-> cap, left |-> left], exp |-> [x |-> 0]]

MCNext ==
  /\ obs.a = "init"
  /\ CASE obs.arg.kind = "print" ->
            \E v \in Vals(obs.arg.src) : PrintNum("num", obs.arg.src, v, obs.arg.f, obs.arg.left)
       [] obs.arg.kind = "fmt" ->
            \E s \in StringsOver(FmtAlphabet, obs.arg.first, FmtLen) : FmtGet("get", s) \/ FmtList(s)
       [] obs.arg.kind = "dest" ->
            \E s \in StringsOver(DestAlphabet, obs.arg.first, DestLen) : Dest(s, obs.arg.sep, obs.arg.max)
       [] obs.arg.kind = "rtext" ->
            \E s \in StringsOver(RAlphabet, obs.arg.first, RLen), lo \in RPicks(obs.arg.dst), hi \in RPicks(obs.arg.dst) :
               RText(obs.arg.dst, obs.arg.base, s, lo, hi)
       [] obs.arg.kind = "sink" ->
            \/ \E v \in Picks(obs.arg.src), api \in {"value", "conv"} :
                  PrintSink(api, obs.arg.src, v, obs.arg.pol, obs.arg.cap, obs.arg.left)
            \/ \E n \in 0..2 : \E vs \in [1..n -> Picks(obs.arg.src)] :
                  PrintVec(obs.arg.src, vs, obs.arg.pol, obs.arg.cap, obs.arg.left)
       [] obs.arg.kind = "vec" ->
            \E n \in 0..VecLen : \E vs \in [1..n -> Picks(obs.arg.src)] :
               /\ (obs.arg.sk = "scalar" => n = 1)
               /\ Vec(obs.arg.api, obs.arg.sk, obs.arg.src, obs.arg.dk, obs.arg.dst, vs)
MCSpec == MCInit /\ [][MCNext]_vars

XTypeOK == obs.a \in {"init", "print", "printvec", "fmt", "fmtlist", "dest", "rtext", "vec"}

(* hand cases (independent of the type table) *)
ASSUME
  /\ Numeral(FromInt(255), 16) = <<102, 102>>                         \* "ff"
  /\ Numeral(FromInt(8), 8) = <<49, 48>>                              \* "10"
  /\ Numeral(Zero, 10) = <<48>>
  /\ Numeral(Pow2(64), 10) = <<49, 56, 52, 52, 54, 55, 52, 52, 48, 55, 51, 55, 48, 57, 53, 53, 49, 54, 49, 54>>
  /\ TrimR(<<32, 49, 32, 32>>) = <<32, 49>>
  /\ TokensOn(<<91, 32, 49, 32, 45, 50, 32, 93>>, Blanks) = <<(<<91>>), <<49>>, <<45, 50>>, (<<93>>)>>
  /\ Fields(<<49, 58, 58, 51>>, 58) = <<(<<49>>), << >>, (<<51>>)>>
  /\ PrintedNum(<<48, 46, 48, 49, 53, 48>>).nd = 3 /\ PrintedNum(<<48, 46, 48, 49, 53, 48>>).d = -4   \* "0.0150"
  /\ PrintedNum(<<48, 46, 48, 48>>).k = "fin" /\ PrintedNum(<<48, 46, 48, 48>>).d = -2               \* "0.00"
  /\ PrintedNum(<<49, 101, 43, 48, 54>>).d = 6                                                    \* "1e+06"
  /\ PrintedNum(<<45, 105, 110, 102>>).k = "inf" /\ PrintedNum(<<45, 105, 110, 102>>).neg = 1     \* "-inf"
  /\ PrintedNum(<<45, 110, 97, 110>>).k = "nan"                                                    \* "-nan"
  /\ TextG(Fin(0, FromInt(100000), 0), 6) = <<49, 48, 48, 48, 48, 48>>                             \* 100000
  /\ TextG(Fin(0, FromInt(15625), 6), 6) = <<49, 101, 43, 48, 54>>                                 \* 1e+06
  /\ TextG(Fin(0, One, -1), 6) = <<48, 46, 53>>                                                    \* 0.5
  /\ TextG(Fin(0, FromInt(3), -15), 6) = <<57, 46, 49, 53, 53, 50, 55, 101, 45, 48, 53>>           \* 3*2^-15 = 9.15527e-05
  /\ TextF(Fin(0, One, -1), 0 + 1) = <<48, 46, 53>>
  /\ TextF(Fin(0, FromInt(5), -1), 0) = <<50>>                                                     \* 2.5 -> "2" (half to even)
  /\ TextF(Fin(0, FromInt(7), -1), 0) = <<52>>                                                     \* 3.5 -> "4"
  /\ TextE(Fin(0, FromInt(999), 0), 1) = <<49, 46, 48, 101, 43, 48, 51>>                           \* 999 -> "1.0e+03"
  /\ TextE(Fin(0, One, -10), 3) = <<57, 46, 55, 54, 54, 101, 45, 48, 52>>                          \* 2^-10 = 9.766e-04
  /\ FmtParts(<<32, 43, 102, 49, 48, 46, 51>>).w = NatNum(10) /\ FmtParts(<<32, 43, 102, 49, 48, 46, 51>>).d = NatNum(3)   \* " +f10.3"
  /\ FmtParts(<<120, 48, 120, 49, 48>>).w = NatNum(16) /\ ~FmtParts(<<120, 48, 120, 49, 48>>).hasdec                      \* "x0x10"
  /\ FmtParts(<<102>>).w = None                                                                                          \* "f"
  /\ KeyOf(<<32, 97, 98, 58>>, {58}) = <<97, 98>> /\ KeyOf(<<97, 32, 98>>, {58}) = <<97, 32, 98>>

V01 == Fin(0, FromDigits(<<1, 3, 4, 2, 1, 7, 7, 3>>, 10), -27)
HW(v, txt) == LET P == PrintedNum(txt) IN WithinPrinted(v, P, Pow5Of(P))
HR(T, v, txt) == LET P == PrintedNum(txt) IN RoundsTo(T, v, P, Pow5Of(P))
(* hand cases at the real formats *)
ASSUME
  /\ RTDigits(RealTypes["f"]) = 9 /\ RTDigits(RealTypes["d"]) = 17 /\ RTDigits(RealTypes["e"]) = 21
  \* 0.1f = 13421773 * 2^-27 printed "0.1" (within), "0.100000001" (9 digits: round trip), not "0.10000001"
  /\ HW(V01, <<48, 46, 49>>)
  /\ HR(RealTypes["f"], V01, <<48, 46, 49, 48, 48, 48, 48, 48, 48, 48, 49>>)
  /\ ~HR(RealTypes["f"], V01, <<48, 46, 49, 48, 48, 48, 48, 48, 48, 49>>)
  /\ ~HW(V01, <<48, 46, 51>>)                                              \* "0.3"
  /\ ~HW(Fin(0, FromInt(12345), 0), <<49, 50, 51>>)                         \* 12345 as "123"
  /\ HW(Fin(0, FromInt(12345), 0), <<49, 46, 50, 51, 101, 43, 48, 52>>)     \* "1.23e+04"
  /\ HW(Fin(0, FromInt(12345), 0), <<49, 50, 51, 52, 53, 46, 48>>)          \* "12345.0"
  /\ ~HW(Fin(0, FromInt(12345), 0), <<49, 50, 51, 52, 54, 46, 48>>)         \* "12346.0"
=============================================================================
