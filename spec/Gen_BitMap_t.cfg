SPECIFICATION GenSpec
CONSTANTS MaxBytes = 3 InitBytes = {0, 255, 165} Far = 17 MaxDepth = 5
CONSTRAINT Bound
VIEW Skel
INVARIANTS TypeOK Refines
ACTION_CONSTRAINT Emit
CHECK_DEADLOCK FALSE
