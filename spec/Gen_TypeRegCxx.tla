--------------------------- MODULE Gen_TypeRegCxx ---------------------------
(* Behaviour export of TypeRegCxx at the production constants (ranges and   *)
(* built-in sizes: TypeRegSizes; the C++ type table: TypeRegCxxTab, both     *)
(* written from the drivers' records): one history per transition of the    *)
(* state graph under View, with the answer the specification expects.        *)
EXTENDS TypeRegCxx, TypeRegSizes, TypeRegCxxTab, Json, IOUtils
CONSTANTS MaxAdds, MaxRefs, RawSizes, RawNames
VARIABLE hist
FBuiltinIf == <<"convertable", "logger", "reply", "output", "object", "config", "iterator", "collection", "solver">>
\* built-in, first ids of the registrable ranges and the ids around every range end
GProbe == IF CxxTypes = {} THEN {257, 2304}
          ELSE {105, 191, 192, 255, 256, 257, 258, 2047, 2303, 2304, 2305, 2306, 4095, 4096}
GenInit == CInit /\ hist = <<obs>>
GenNext == /\ CxxNext \/ (RawNext(RawSizes, RawNames, GProbe, 2300, 2310) /\ CKeep)
           /\ hist' = Append(hist, obs')
GenSpec == GenInit /\ [][GenNext]_<<cvars, hist>>
Bound == /\ Cardinality(DOMAIN reg) - Cardinality(DOMAIN BuiltinReg) <= MaxAdds
         /\ \A h \in Slots : mt[h].refs <= MaxRefs
\* identifiers are a function of the order of registration: the view keeps the order
View  == <<reg, cxx, mt, wrap>>
\* value store: which types have an identifier matters, not which one
ViewS == <<DOMAIN cxx, Cardinality(DOMAIN reg), mt, wrap>>
Emit  == PrintT(<<"BEHAV", ToJson(hist')>>)
=============================================================================
