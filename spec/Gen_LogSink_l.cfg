SPECIFICATION GenSpec
CONSTANTS
  Configs <- CfgsOpsQ
  Heads <- HeadsFew
  Levels <- LevelsB
  Calls <- CallsB
  TextBytes = {97}
  MaxText = 1
  Ops = {"set", "log"}
  LogMax = 256
  AsFound = {}
  Chain = FALSE
  GenMax = 9
VIEW GenView
CONSTRAINT GenBound
CHECK_DEADLOCK FALSE
ACTION_CONSTRAINT Emit
