---------------------------- MODULE MC_TreeUse ----------------------------
(* Exhaustive configurations of TreeUse (X14): the modifying calls of       *)
(* NodeTree and of TreeUse are the transitions; all queries are checked in  *)
(* every reached state (QueryInv, QueryInv2).  States that differ by a      *)
(* renaming of the handles are identified (ShapeView of MC_NodeTree).       *)
(*   MC_TreeUse.cfg     3 handles, names a / b(value), all calls            *)
(*   MC_TreeUse_c.cfg   3 handles, names a / b(value) / c, more paths       *)
(*   MC_TreeUse_s.cfg   4 handles, one name: every forest of <= 4 nodes     *)
(*   MC_TreeUse_t.cfg   4 handles, names a / b(value)                       *)
(*   MC_TreeUse_st.cfg  5 handles, one name: every forest of <= 5 nodes     *)
(*   MC_TreeUse_s6.cfg  6 handles, one name, calls of NodeTree only (SpecM): *)
(*                      the queries of TreeUse on every forest of <= 6 nodes *)
EXTENDS TreeUse, MC_NodeTree
PosU   == {0, 1, -1}
Kinds1 == {<<"a", 0>>}
A0     == <<"a", 0, <<>>>>
B7     == <<"b", 7, <<>>>>
AA(k)  == <<"a", 0, k>>
PathsQ == {<<"a">>, <<"b">>, <<"c">>, <<"a", "a">>, <<"a", "b">>, <<"b", "a">>, <<"a", "c">>, <<"a", "b", "a">>}
APathsQ == {<<"a">>, <<"b">>, <<"c">>, <<"a", "a">>, <<"a", "b">>, <<"b", "a">>, <<"a", "b", "a">>}
APathsT == {<<"a">>, <<"b">>, <<"a", "a">>, <<"a", "b">>, <<"b", "a">>, <<"a", "b", "a">>}
APathsG == {<<"a">>, <<"b">>, <<"a", "b">>, <<"a", "b", "a">>}
ForestsG == {<<B7>>, <<A0, B7>>, <<AA(<<B7>>)>>, <<B7, AA(<<B7>>)>>, <<AA(<<AA(<<B7>>)>>)>>, <<AA(<<B7>>), A0>>}
Paths1 == {<<"a">>, <<"a", "a">>, <<"a", "a", "a">>, <<"b">>, <<"a", "b">>}
APaths1 == {<<"a">>, <<"a", "a">>, <<"a", "a", "a">>}
ForestsQ == {<<>>, <<A0>>, <<B7>>, <<A0, B7>>, <<AA(<<B7>>)>>, <<AA(<<A0, B7>>)>>,
             <<B7, AA(<<B7>>)>>, <<AA(<<AA(<<B7>>)>>)>>, <<AA(<<B7>>), A0>>}
Forests1 == {<<>>, <<A0>>, <<A0, A0>>, <<AA(<<A0>>)>>, <<AA(<<A0, A0>>)>>, <<A0, AA(<<A0>>)>>,
             <<AA(<<AA(<<A0>>)>>)>>, <<AA(<<A0>>), A0>>, <<A0, A0, A0>>}
UpsQ   == 0..3
StopsQ == 0..3
StopsT == 0..5
Stops0 == {0, 2}
NextM  == Modify \/ Modify2 \/ AFails
SpecMU == Init /\ [][NextM]_vars
=============================================================================
