SPECIFICATION Spec
CONSTANTS Mts = {1} UserIds = {} MaxTok = 4
CONSTANTS Paths <- Paths2 Vals <- Vals1
CONSTRAINT Bound
VIEW View
INVARIANTS TypeOK RefsMatch OnceOnly GoneNotified StockPlaces
PROPERTIES DeliveredRight OnePath OneReply FiniAll
CHECK_DEADLOCK FALSE
