------------------------------- MODULE Notify -------------------------------
(***************************************************************************)
(* The input loop that feeds a dispatcher (extension of property C11):     *)
(* mptio/notify/*.c, mptio/stream/stream_input.c, mpt++/notify.cpp.        *)
(*                                                                         *)
(* A notifier owns a set of input objects.  Each input has a descriptor,   *)
(* next(what) (answers keep-and-list > 0, keep = 0, remove < 0) and        *)
(* dispatch(handler): hand ONE buffered message to the notifier's handler. *)
(* The handler attached by mpt_notify_dispatch is a dispatcher of          *)
(* Dispatch.tla: the message's first byte is the id, delivery and the      *)
(* default bookkeeping are EXACTLY Dispatch!EmitMsg / Dispatch!EmitNone    *)
(* (this module EXTENDS Dispatch and calls its actions).                   *)
(*                                                                         *)
(* Tier 1 (meaning):  reg  -- inputs registered now (tokens),              *)
(*                    rel  -- releases (end of life) seen per input,       *)
(*                    was  -- inputs that were ever registered,            *)
(*                    wire/buf -- per input: messages the peer wrote and   *)
(*                            the input has not read / has read but not    *)
(*                            handed on (a message is <<id, ...>>),        *)
(*                    last -- sequence number of the last message taken.   *)
(* Tier 2 (design):   wait -- inputs listed by the last mpt_notify_wait    *)
(*                            (notify._wait), cur -- what mpt_notify_next  *)
(*                            returned last, conn -- pending connections   *)
(*                            of a listening input (mpt_notify_bind).      *)
(* Input kinds: "h" harness input (the driver's own: next() answers what   *)
(* the step scripted), "s" mpt_stream_input over a socket pair (COBS), "c" *)
(* mpt_notify_connect / accepted connection (COBS + 2 byte id), "f"        *)
(* mpt_notify_connect to a FIFO, "p" mpt_stream_input with a 2 byte id on  *)
(* the read end of a pipe (no reply possible), "l"/"o" mpt_notify_bind     *)
(* listener (keeps listening / single connection).                         *)
(* Where the statement of C11 is silent (order in which ready inputs are   *)
(* served, which listed input mpt_notify_next returns, return values of    *)
(* wait/next, retry flag) the model is nondeterministic or answers "any".  *)
(***************************************************************************)
EXTENDS Dispatch

CONSTANTS MaxIn,      \* input tokens 1..MaxIn; every add attempt / accepted connection draws a fresh one
          Kinds,      \* kinds offered to add
          MsgIds,     \* first bytes of the messages peers send
          NextRVs,    \* answers a harness input's next() may give: subset of {1, 0, -1}
          Whats,      \* event masks offered to mpt_notify_wait (1 = POLLIN, 4 = POLLOUT, -1 = all)
          MaxQ,       \* messages in flight + buffered per input
          Hows,       \* how a peer ends: "shut" (shutdown of the sending side) / "close"
          Ops         \* optional groups of calls a configuration offers

VARIABLES att,        \* a dispatcher is attached (mpt_notify_dispatch)
          dir,        \* a handler is installed directly on the notifier (notify._disp = handler, token err): no
                      \* dispatcher, no table; every message of every input goes to it as it is
          nin, ik,    \* input tokens drawn, kind per token
          reg, was, rel,
          wire, eof, buf, sent, last,
          peek,       \* design: the input has decoded its next message already (the look-ahead after a dispatch)
          wait, cur, conn,
          nobs
nstate == <<att, dir, nin, ik, reg, was, rel, wire, eof, buf, sent, last, peek, wait, cur, conn>>
nvars  == <<state, nstate, obs, nobs>>
full   == <<state, nstate>>

---------------------------------------------------------------------------
Ext(f, t, v) == [x \in DOMAIN f \cup {t} |-> IF x = t THEN v ELSE f[x]]
Upd(f, t, v) == [f EXCEPT ![t] = v]
RECURSIVE SetSeq(_)
SetSeq(S) == IF S = {} THEN <<>> ELSE LET m == MinOf(S) IN <<m>> \o SetSeq(S \ {m})
HasIn(what) == (what % 2) = 1                  \* POLLIN bit (holds for -1 too)
Data(k)  == k \in {"h", "s", "c", "f", "p"}    \* inputs that carry messages
Lib(k)   == k \in {"s", "c", "f", "p"}         \* ... of the library (stream inputs)
Fifo(k)  == k \in {"f", "p"}                   \* read-only descriptors: FIFO, pipe
HasId(k) == k \in {"c", "p"}                   \* every message starts with a 2 byte message id
\* what the handler is to see of message e of input i, and the reply id the message announces (0: none)
Pay(i, e) == IF HasId(ik[i]) THEN SubSeq(e, 3, Len(e)) ELSE e
Rid(i, e) == IF HasId(ik[i]) /\ e[1] >= 128 THEN (e[1] - 128) * 256 + e[2] ELSE 0
RC(r)     == IF r < 0 THEN -1 ELSE r
Lsn(k)   == k \in {"l", "o"}                   \* listening inputs

\* the dispatcher did nothing in this step
DQuietR(r) == /\ UNCHANGED state
              /\ obs' = [a |-> "none", arg |-> [x |-> 0],
                         exp |-> [ret |-> r, calls |-> <<>>, def |-> def, table |-> TableFrom(1, ntok)]]
DQuiet == DQuietR("ok")

\* observation of a step: what the real notifier must show afterwards
\* (dany = 1: the dispatcher-level return value d.ret is not demanded)
NAnswerD(a, arg, ret, nx, rl, data, dany) ==
  nobs' = [a |-> a, arg |-> arg,
           exp |-> [ret |-> ret, cur |-> cur', nexts |-> SetSeq(nx), rel |-> SetSeq(rl),
                    reg |-> SetSeq(reg'), waiting |-> SetSeq(wait'), data |-> data, d |-> obs'.exp, dany |-> dany]]
NAnswer(a, arg, ret, nx, rl, data) == NAnswerD(a, arg, ret, nx, rl, data, 0)

NewIn == nin + 1
Fresh(t, k) ==
  /\ nin' = t /\ ik' = Ext(ik, t, k) /\ rel' = Ext(rel, t, 0)
  /\ wire' = Ext(wire, t, <<>>) /\ eof' = Ext(eof, t, FALSE) /\ buf' = Ext(buf, t, <<>>)
  /\ sent' = Ext(sent, t, 0) /\ last' = Ext(last, t, 0) /\ conn' = Ext(conn, t, 0) /\ peek' = Ext(peek, t, FALSE)

---------------------------------------------------------------------------
(* mpt_notify_add / mpt_notify_connect / mpt_notify_bind: a new input of kind k is registered *)
NAdd(k) ==
  /\ nin < MaxIn
  /\ Lsn(k) => ~\E j \in reg : Lsn(ik[j])          \* one listener at a time (who accepted is then known)
  /\ Fresh(NewIn, k)
  /\ reg' = reg \cup {NewIn} /\ was' = was \cup {NewIn}
  /\ UNCHANGED <<att, dir, wait, cur>>
  /\ DQuiet
  /\ NAnswer("add", [k |-> k, tok |-> NewIn], "ok", {}, {}, <<>>)

(* mpt_notify_add of an input whose descriptor is taken (that of input j) or invalid: refused, *)
(* the notifier does not own it: never called, never released                                   *)
AddRefused(a, arg) ==
  /\ UNCHANGED nstate
  /\ DQuiet
  /\ NAnswer(a, arg, "refused", {}, {}, <<>>)
NAddSame(j) == j \in reg /\ AddRefused("addsame", [of |-> j])
NAddBad     == AddRefused("addbad", [x |-> 0])
\* ... or is one the kernel refuses to watch (a regular file: epoll_ctl answers EPERM)
NAddFile    == AddRefused("addfile", [x |-> 0])

(* environment: the peer of input i writes one message / ends / connects to a listener *)
NSend(i, m) ==
  /\ i \in reg /\ Data(ik[i]) /\ ~eof[i]
  /\ Len(wire[i]) + Len(buf[i]) < MaxQ
  /\ wire' = Upd(wire, i, Append(wire[i], m)) /\ sent' = Upd(sent, i, sent[i] + 1)
  /\ UNCHANGED <<att, dir, nin, ik, reg, was, rel, eof, buf, last, peek, wait, cur, conn>>
  /\ DQuiet
  /\ NAnswer("send", [i |-> i, data |-> m], "ok", {}, {}, <<>>)
NShut(i, how) ==
  /\ i \in reg /\ Data(ik[i]) /\ ~eof[i]
  /\ eof' = Upd(eof, i, TRUE)
  /\ UNCHANGED <<att, dir, nin, ik, reg, was, rel, wire, buf, sent, last, peek, wait, cur, conn>>
  /\ DQuiet
  /\ NAnswer("shut", [i |-> i, how |-> how], "ok", {}, {}, <<>>)
NConn(i) ==
  /\ i \in reg /\ Lsn(ik[i]) /\ nin + conn[i] < MaxIn
  /\ conn' = Upd(conn, i, conn[i] + 1)
  /\ UNCHANGED <<att, dir, nin, ik, reg, was, rel, wire, eof, buf, sent, last, peek, wait, cur>>
  /\ DQuiet
  /\ NAnswer("conn", [i |-> i], "ok", {}, {}, <<>>)

(* mpt_notify_wait(no, what, 0): next(what) is called on exactly the ready registered inputs.   *)
(* A data input reads what is on the wire; a stream input asks for removal at end of data, a     *)
(* harness input answers rvs[i]; a listener accepts one connection (new input registered) and    *)
(* keeps listening ("l") or asks for removal ("o").  Inputs answering > 0 are listed, < 0 are    *)
(* removed and released.  Nothing ready: the previous list stays.                                *)
Ready(i) == IF Lsn(ik[i]) THEN conn[i] > 0 ELSE wire[i] # <<>> \/ eof[i]
ReadySet == {i \in reg : Ready(i)}
\* a FIFO whose writer is gone and that holds no data reports hang-up only: served by a wait for all events
InReady(i)   == ~(Fifo(ik[i]) /\ wire[i] = <<>>)
Served(what) == {i \in ReadySet : what = -1 \/ (HasIn(what) /\ InReady(i))}
RV(rvs, i) == IF i \in DOMAIN rvs THEN rvs[i] ELSE 1
\* how many of the messages on the wire a library input gets hold of in one go is its own business (it reads into
\* the free part of its buffer): take[i] of them, all when take says nothing
TK(take, i) == IF i \in DOMAIN take THEN take[i] ELSE Len(wire[i])
\* A harness input's next() may remove ANOTHER registered input (mpt_notify_clear from inside the wait, what a
\* control connection does): kill = <<i, v>>, <<0, 0>> = nobody.  Whether v was served before i in this cycle is
\* the kernel's order: early.
KillOn(what, kill) == /\ kill[1] # 0 /\ kill[1] \in Served(what) /\ ik[kill[1]] = "h"
                      /\ kill[2] \in reg /\ kill[2] # kill[1]
NWait(what, rvs, take, kill, early) ==
  LET kon  == KillOn(what, kill)
      v    == IF kon THEN kill[2] ELSE 0
      R    == IF kon /\ ~early THEN Served(what) \ {v} ELSE Served(what)       \* whose next() runs
      gone == {i \in R : \/ ik[i] = "h" /\ RV(rvs, i) < 0
                         \/ ik[i] \in {"s", "c"} /\ wire[i] = <<>>
                         \/ Fifo(ik[i]) /\ wire[i] = <<>> /\ ~peek[i]    \* hang-up only: stays while a decoded message waits
                         \/ ik[i] = "o"} \cup (IF kon THEN {v} ELSE {})
      list == {i \in R \ gone : \/ ik[i] = "h" /\ RV(rvs, i) > 0
                               \/ (Lib(ik[i]) /\ wire[i] # <<>>)}
      acc  == {i \in R : Lsn(ik[i])}
      t    == NewIn
      E(f, v0) == IF acc = {} THEN f ELSE Ext(f, t, v0)
  IN
  /\ \A i \in DOMAIN take : take[i] \in 0..Len(wire[i])
  /\ early => (kon /\ v \in Served(what))
  /\ nin' = IF acc = {} THEN nin ELSE t
  /\ ik' = E(ik, "c")
  /\ reg' = (reg \ gone) \cup (IF acc = {} THEN {} ELSE {t})
  /\ was' = was \cup (IF acc = {} THEN {} ELSE {t})
  /\ rel' = [x \in DOMAIN E(rel, 0) |-> IF x \in gone THEN rel[x] + 1 ELSE E(rel, 0)[x]]
  /\ buf' = [x \in DOMAIN E(buf, <<>>) |->
               IF x \in R /\ Data(ik[x]) THEN buf[x] \o SubSeq(wire[x], 1, TK(take, x)) ELSE E(buf, <<>>)[x]]
  /\ wire' = [x \in DOMAIN E(wire, <<>>) |->
               IF x \in R /\ Data(ik[x]) THEN SubSeq(wire[x], TK(take, x) + 1, Len(wire[x])) ELSE E(wire, <<>>)[x]]
  /\ conn' = [x \in DOMAIN E(conn, 0) |-> IF x \in acc THEN conn[x] - 1 ELSE E(conn, 0)[x]]
  /\ eof' = E(eof, FALSE) /\ sent' = E(sent, 0) /\ last' = E(last, 0) /\ peek' = E(peek, FALSE)
  /\ wait' = IF ReadySet = {} THEN wait ELSE list
  /\ cur' = IF cur \in gone THEN 0 ELSE cur
  /\ UNCHANGED <<att, dir>>
  /\ DQuiet
  /\ NAnswer("wait", [what |-> what, rvs |-> rvs, kill |-> kill, early |-> IF early THEN 1 ELSE 0], "any",
             {i \in R : ik[i] = "h"}, gone, <<>>)

(* mpt_notify_next: one of the listed inputs (which one is the implementation's choice), none when the list is empty *)
NPop(i) ==
  /\ IF wait = {} THEN i = 0 ELSE i \in wait
  /\ cur' = i /\ wait' = wait \ {i}
  /\ UNCHANGED <<att, dir, nin, ik, reg, was, rel, wire, eof, buf, sent, last, peek, conn>>
  /\ DQuiet
  /\ NAnswer("next", [x |-> 0], "any", {}, {}, <<>>)

(* cur->dispatch(handler): the oldest buffered message of the input is handed to the notifier's handler.  Through a  *)
(* dispatcher this is Dispatch!EmitMsg on what follows the message id -- unless the id announces a reply (nobody waits *)
(* for one here: not delivered, the answer says whether a default event is set).  A handler installed directly gets    *)
(* the message and the reply id as they are and its answer goes back.  Without handler the message is consumed;        *)
(* nothing buffered: nothing happens.                                                                                  *)
DirectCall(a, arg, id, msg, hr) ==
  /\ UNCHANGED state
  /\ obs' = [a |-> a, arg |-> arg,
             exp |-> [ret |-> RC(hr[1]), calls |-> <<Call(err, id, msg)>>, def |-> def, table |-> TableFrom(1, ntok)]]
NHand(hr) ==
  LET arg == [r |-> hr[1], clear |-> hr[2]]
      q   == buf[cur]
      e   == Head(q)
      m   == Pay(cur, e)
      rid == Rid(cur, e)
  IN
  /\ cur # 0 /\ Data(ik[cur])
  /\ IF q = <<>>
     THEN /\ UNCHANGED <<buf, last, peek>> /\ DQuietR(0)
     ELSE /\ buf' = Upd(buf, cur, Tail(q)) /\ last' = Upd(last, cur, last[cur] + 1)
          /\ peek' = Upd(peek, cur, Tail(q) # <<>>)
          /\ IF att THEN (IF rid # 0 THEN DQuietR(IF def # Zero THEN 1 ELSE 0) ELSE EmitMsg(m, hr))
             ELSE IF dir THEN DirectCall("direct", arg, L(rid), 1, hr)
             ELSE DQuietR(0)
  /\ UNCHANGED <<att, dir, nin, ik, reg, was, rel, wire, eof, sent, wait, cur, conn>>
  /\ NAnswerD("dispatch", arg, "any", {}, {}, IF q # <<>> /\ obs'.exp.calls # <<>> THEN <<m>> ELSE <<>>,
              IF q = <<>> \/ (~att /\ ~dir) THEN 1 ELSE 0)
(* what mpt_loop does on the retry flag: the input in hand is listed again *)
NRelist ==
  /\ cur # 0
  /\ wait' = wait \cup {cur}
  /\ UNCHANGED <<att, dir, nin, ik, reg, was, rel, wire, eof, buf, sent, last, peek, cur, conn>>
  /\ DQuiet
  /\ NAnswer("relist", [x |-> 0], "any", {}, {}, <<>>)
(* a call that finds nothing to do (its target is gone) *)
NQuiet(a, arg) ==
  /\ UNCHANGED nstate
  /\ DQuietR(IF a = "dispatch" THEN 0 ELSE "ok")
  /\ NAnswerD(a, arg, "any", {}, {}, <<>>, 1)

(* the loop's default event: the handler is called without message (Dispatch!EmitNone) *)
NIdle(hr) ==
  /\ att \/ dir
  /\ IF att THEN EmitNone(hr) ELSE DirectCall("direct", [x |-> 0], Zero, 0, hr)
  /\ UNCHANGED nstate
  /\ NAnswer("default", [r |-> hr[1], clear |-> hr[2]], "any", {}, {}, <<>>)

(* mpt_notify_clear(no, descriptor of i): removed, released, not listed any more *)
NClear(i) ==
  /\ i \in reg
  /\ reg' = reg \ {i} /\ rel' = Upd(rel, i, rel[i] + 1)
  /\ wait' = wait \ {i} /\ cur' = IF cur = i THEN 0 ELSE cur
  /\ UNCHANGED <<att, dir, nin, ik, was, wire, eof, buf, sent, last, peek, conn>>
  /\ DQuiet
  /\ NAnswer("unreg", [i |-> i], "any", {}, {i}, <<>>)

(* mpt_notify_dispatch: a fresh dispatcher; the one in place is finalised (every registered     *)
(* handler and the fallback get their end-of-life call, as Dispatch!Fini)                         *)
OldFinCalls == IF att \/ dir THEN FinCalls(slots) \o (IF err > 0 THEN <<FinCall(err)>> ELSE <<>>) ELSE <<>>
OldFinSet   == IF att \/ dir THEN {slots[i].tok : i \in Live} \cup (IF err > 0 THEN {err} ELSE {}) ELSE {}
FreshDisp(a) ==
  /\ kind' = "none" /\ slots' = <<>> /\ def' = Zero /\ err' = -1 /\ tab' = << >> /\ snap' = NoSnap
  /\ fin' = FinUp(OldFinSet) /\ UNCHANGED <<ntok, ever>>
  /\ obs' = [a |-> a, arg |-> [x |-> 0],
             exp |-> [ret |-> "ok", calls |-> OldFinCalls, def |-> Zero, table |-> <<>>]]
NAttach ==
  /\ att' = TRUE /\ dir' = FALSE /\ FreshDisp("attach")
  /\ UNCHANGED <<nin, ik, reg, was, rel, wire, eof, buf, sent, last, peek, wait, cur, conn>>
  /\ NAnswer("attach", [x |-> 0], "ok", {}, {}, <<>>)

(* mpt_notify_fini: the handler gets its end-of-life call (the dispatcher is finalised), every   *)
(* registered input is released once, nothing stays listed                                        *)
(* a handler installed directly on the notifier (what examples/io/dispatch.c does with notify._disp); whatever *)
(* was in place is finalised first, as mpt_notify_dispatch and mpt++ set_handler do                            *)
NDirect ==
  /\ att' = FALSE /\ dir' = TRUE
  /\ kind' = "none" /\ slots' = <<>> /\ def' = Zero /\ err' = NewTok /\ tab' = << >> /\ snap' = NoSnap
  /\ ntok' = NewTok /\ ever' = ever \cup {NewTok}
  /\ fin' = FinUp(OldFinSet) @@ (NewTok :> 0)
  /\ obs' = [a |-> "direct", arg |-> [x |-> 0],
             exp |-> [ret |-> "ok", calls |-> OldFinCalls, def |-> Zero, table |-> <<>>]]
  /\ UNCHANGED <<nin, ik, reg, was, rel, wire, eof, buf, sent, last, peek, wait, cur, conn>>
  /\ NAnswer("direct", [tok |-> NewTok], "ok", {}, {}, <<>>)

NFini ==
  /\ att' = FALSE /\ dir' = FALSE /\ FreshDisp("fini")
  /\ reg' = {} /\ wait' = {} /\ cur' = 0
  /\ rel' = [x \in DOMAIN rel |-> IF x \in reg THEN rel[x] + 1 ELSE rel[x]]
  /\ UNCHANGED <<nin, ik, was, wire, eof, buf, sent, last, peek, conn>>
  /\ NAnswer("fini", [x |-> 0], "ok", {}, reg, <<>>)

(* the attached dispatcher's table is changed between events (Dispatch actions, unchanged) *)
NTable(A, a, arg) ==
  /\ att /\ A
  /\ UNCHANGED nstate
  /\ NAnswer(a, arg, "ok", {}, {}, <<>>)
NSet(id)   == NTable(Set(id), "set", [id |-> id, tok |-> NewTok])
NUnset(id) == NTable(Clear(id), "clear", [id |-> id])
NSetErr    == NTable(SetError, "seterror", [tok |-> NewTok])

---------------------------------------------------------------------------
NInit ==
  /\ Init
  /\ att = FALSE /\ dir = FALSE /\ nin = 0 /\ ik = << >> /\ reg = {} /\ was = {} /\ rel = << >>
  /\ wire = << >> /\ eof = << >> /\ buf = << >> /\ sent = << >> /\ last = << >> /\ peek = << >>
  /\ wait = {} /\ cur = 0 /\ conn = << >>
  /\ nobs = [a |-> "init", arg |-> [x |-> 0],
             exp |-> [ret |-> "ok", cur |-> 0, nexts |-> <<>>, rel |-> <<>>, reg |-> <<>>, waiting |-> <<>>,
                      data |-> <<>>, d |-> [ret |-> "ok", calls |-> <<>>, def |-> Zero, table |-> <<>>], dany |-> 0]]

RvChoices(what) ==
  {f \in [1..nin -> NextRVs \cup {1}] :
      \A i \in 1..nin : (i \notin Served(what) \/ ik[i] # "h") => f[i] = 1}

\* message ids offered in front of the messages of id-carrying inputs: none; on a read-only input also a request id
\* (no reply can be sent there); an id announcing a reply
MidsOf(k) == IF k = "p" THEN {<<0, 0>>, <<1, 5>>, <<128, 5>>} ELSE IF k = "c" THEN {<<0, 0>>, <<128, 5>>} ELSE {<<>>}
KillChoices(what) ==
  IF "kill" \in Ops
  THEN {<<0, 0>>} \cup {kv \in {<<i, v>> : i \in {j \in Served(what) : ik[j] = "h"}, v \in reg} : kv[1] # kv[2]}
  ELSE {<<0, 0>>}
NNext ==
  \/ \E k \in Kinds : NAdd(k)
  \/ "refuse" \in Ops /\ ((\E j \in reg : NAddSame(j)) \/ NAddBad \/ NAddFile)
  \/ \E i \in reg, id \in MsgIds : \E mid \in MidsOf(ik[i]) : NSend(i, mid \o <<id, i, sent[i] + 1>>)
  \/ \E i \in reg, how \in Hows : NShut(i, how)
  \/ \E i \in reg : (ik[i] = "o" => conn[i] = 0) /\ NConn(i)    \* a single-connection listener has no backlog
  \/ \E what \in Whats : \E rvs \in RvChoices(what) : \E kill \in KillChoices(what), early \in BOOLEAN :
        NWait(what, rvs, << >>, kill, early)
  \/ \E i \in wait \cup {0} : NPop(i)
  \/ \E hr \in HRs : NHand(hr)
  \/ "relist" \in Ops /\ NRelist
  \/ "idle" \in Ops /\ \E hr \in HRs : NIdle(hr)
  \/ "unreg" \in Ops /\ \E i \in reg : NClear(i)
  \/ NAttach \/ NFini
  \/ "direct" \in Ops /\ NDirect
  \/ \E n \in SmallIds : NSet(L(n))
  \/ "table" \in Ops /\ ((\E n \in SmallIds : NUnset(L(n))) \/ NSetErr)

NSpec == NInit /\ [][NNext]_nvars

---------------------------------------------------------------------------
(* invariants *)
NTypeOK ==
  /\ att \in BOOLEAN /\ reg \subseteq 1..nin /\ was \subseteq 1..nin /\ reg \subseteq was
  /\ DOMAIN rel = 1..nin /\ DOMAIN ik = 1..nin /\ DOMAIN buf = 1..nin /\ DOMAIN wire = 1..nin
  /\ cur \in 0..nin
  /\ ~att => (tab = << >> /\ slots = <<>>)
  /\ ~(att /\ dir) /\ (dir => err > 0)

\* every input ever registered that is not registered any more was released exactly once;
\* a registered one not at all; one the notifier refused never
ReleasedOnce ==
  \A t \in 1..nin : /\ rel[t] <= 1
                    /\ t \in reg => rel[t] = 0
                    /\ t \in was \ reg => rel[t] = 1
                    /\ t \notin was => rel[t] = 0
\* only registered inputs are listed / in the caller's hand
ListedLive == wait \subseteq reg /\ (cur # 0 => cur \in reg)
\* the messages of an input stay in order, none is taken twice
InOrderInv ==
  \A i \in reg : LET q == buf[i] \o wire[i] IN
     /\ last[i] = sent[i] - Len(q)
     /\ \A k \in 1..Len(q) : q[k][Len(q[k])] = last[i] + k

(* action properties *)
\* next() is called only on inputs that are registered (never after release) and ready
CalledWhileReady ==
  [][\A k \in DOMAIN nobs'.exp.nexts :
        LET i == nobs'.exp.nexts[k] IN i \in reg /\ rel[i] = 0 /\ Ready(i)]_nvars
\* a message handed to the dispatcher comes from a registered input, is its oldest one, and reaches
\* the handler registered for its first byte at that moment, else the fallback; never a finalised one
HandedRight ==
  [][(nobs'.a = "dispatch" /\ cur # 0) =>
       /\ cur \in reg /\ rel[cur] = 0
       /\ \A k \in DOMAIN nobs'.exp.d.calls :
            LET c == nobs'.exp.d.calls[k]  e == Head(buf[cur])  m == Pay(cur, e) IN
            c.fin = 0 => /\ c.msg = 1 /\ nobs'.exp.data = <<m>>
                         /\ fin[c.tok] = 0
                         /\ IF dir THEN c.tok = err /\ c.id = L(Rid(cur, e))
                            ELSE /\ c.id = L(m[1]) /\ Rid(cur, e) = 0
                                 /\ IF Registered(c.id) THEN c.tok = tab[c.id] ELSE c.tok = err]_nvars
\* releases happen only on removal by answer, by clear, or at teardown; after teardown everybody is notified
ReleaseCause ==
  [][nobs'.a = "init" \/
     /\ \A t \in 1..nin : rel'[t] # rel[t] => nobs'.a \in {"wait", "unreg", "fini"} /\ t \in reg /\ t \notin reg'
     /\ nobs'.a = "fini" => (reg' = {} /\ \A t \in was : rel'[t] = 1) /\ (\A t \in ever : fin'[t] = 1)]_nvars
=============================================================================
