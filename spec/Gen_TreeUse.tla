---------------------------- MODULE Gen_TreeUse ----------------------------
(* Behaviour export of TreeUse (X14): the state graph is spanned by the     *)
(* modifying calls of NodeTree and TreeUse (view: shapes up to renaming of   *)
(* handles); one JSON line is printed per generated transition whose call    *)
(* belongs to TreeUse (the calls of NodeTree are replayed by the base check).*)
EXTENDS TreeUse, Gen_NodeTree
PosU   == {0, 1, -1}
Kinds1 == {<<"a", 0>>}
A0     == <<"a", 0, <<>>>>
B7     == <<"b", 7, <<>>>>
AA(k)  == <<"a", 0, k>>
PathsQ == {<<"a">>, <<"b">>, <<"c">>, <<"a", "a">>, <<"a", "b">>, <<"b", "a">>, <<"a", "c">>, <<"a", "b", "a">>}
APathsQ == {<<"a">>, <<"b">>, <<"c">>, <<"a", "a">>, <<"a", "b">>, <<"b", "a">>, <<"a", "b", "a">>}
APathsT == {<<"a">>, <<"b">>, <<"a", "a">>, <<"a", "b">>, <<"b", "a">>, <<"a", "b", "a">>}
Paths1 == {<<"a">>, <<"a", "a">>, <<"a", "a", "a">>, <<"b">>, <<"a", "b">>}
APaths1 == {<<"a">>, <<"a", "a">>, <<"a", "a", "a">>}
ForestsQ == {<<>>, <<A0>>, <<B7>>, <<A0, B7>>, <<AA(<<B7>>)>>, <<AA(<<A0, B7>>)>>,
             <<B7, AA(<<B7>>)>>, <<AA(<<AA(<<B7>>)>>)>>, <<AA(<<B7>>), A0>>}
Forests1 == {<<>>, <<A0>>, <<A0, A0>>, <<AA(<<A0>>)>>, <<AA(<<A0, A0>>)>>, <<A0, AA(<<A0>>)>>,
             <<AA(<<AA(<<A0>>)>>)>>, <<AA(<<A0>>), A0>>, <<A0, A0, A0>>}
UpsQ   == 0..3
StopsQ == 0..3
StopsT == 0..5
APathsG == {<<"a">>, <<"b">>, <<"a", "b">>, <<"a", "b", "a">>}
PathsG == {<<"a">>, <<"c">>, <<"a", "b">>, <<"b", "a">>, <<"a", "b", "a">>}
ForestsG == {<<B7>>, <<A0, B7>>, <<AA(<<B7>>)>>, <<B7, AA(<<B7>>)>>, <<AA(<<AA(<<B7>>)>>)>>, <<AA(<<B7>>), A0>>}
\* calls whose outcome depends on the names, from every state
NamedCalls ==
  \/ \E hd \in Ids \cup {0}, p \in APaths, k \in Kinds : Assign(hd, p, k[2])
  \/ \E hd \in Ids \cup {0}, p \in APaths, k \in Kinds : CfgSet(hd, <<>>, p, k[2])
  \/ \E hd \in Ids \cup {0}, p \in APaths, k \in Kinds : \E i \in 1..(Len(p) - 1) :
        CfgSet(hd, SubSeq(p, 1, i), SubSeq(p, i + 1, Len(p)), k[2])
  \/ \E hd \in Ids, p \in APaths : CfgDel(hd, p)
  \/ \E n \in Ids, t \in Forests, mode \in {"merge", "replace"} : Parse(n, t, mode)
  \/ \E n \in Ids, k \in Kinds : k[2] # 0 /\ SetVal(n, k[2])
  \/ \E n \in Ids, p \in Paths : PathQ(n, p)
  \/ ItemCalls
  \/ \E hd \in Ids \cup {0}, p \in APaths, k \in Kinds : \E m \in 0..Len(p) : AssignFail(hd, p, k[2], m)
GenNextU == (Modify \/ NamedCalls) /\ hist' = Append(hist, Call(obs'))
GenSpecU == GenInit /\ [][GenNextU]_<<vars, hist>>
\* every call with one name only (structure): switch, traversals, levels, drop, producing calls and their failures
GenNextS == (Modify \/ Modify2 \/ Fails2 \/ Query2A \/ ItemCalls) /\ hist' = Append(hist, Call(obs'))
GenSpecS == GenInit /\ [][GenNextS]_<<vars, hist>>
\* the level walks (they climb: the smallest forest on which a walk could leave its scope has 6 nodes)
LevelCalls ==
  \/ \E n \in Ids, up \in Ups : SameQ(n, up) \/ SubQ(n, up)
  \/ \E n \in Ids, sel \in Sels, stop \in Stops : TravX(n, "level", sel, stop)
GenNextL == (Modify \/ LevelCalls) /\ hist' = Append(hist, Call(obs'))
GenSpecL == GenInit /\ [][GenNextL]_<<vars, hist>>
Stops0 == {0, 2}
\* deep uneven forests: below one root two subtrees <<a[t1, t2], a[t3]>>, every ti a tree of <= 3 nodes (the
\* forest is made by one producing call); every traversal order and the level walks are then started at EVERY
\* node -- nested ones, last ones of their list, with and without children
Shapes3 == {A0, AA(<<A0>>), AA(<<A0, A0>>), AA(<<AA(<<A0>>)>>)}
DeepForests == {<<AA(<<t[1], t[2]>>), AA(<<t[3]>>)>> : t \in [1..3 -> Shapes3]}
DeepCalls ==
  \/ live = {} /\ New(<<"a", 0>>)
  \/ live = {1} /\ \E t \in DeepForests : Parse(1, t, "replace")
  \/ /\ Cardinality(live) > 1
     /\ \/ \E n \in live, ord \in Orders4, sel \in {"all", "leaf"} : TravX(n, ord, sel, 0)
        \/ \E n \in live : TravX(n, "level", "all", 2)
        \/ \E n \in live, up \in 1..3 : SameQ(n, up) \/ SubQ(n, up)
GenNextD == DeepCalls /\ hist' = Append(hist, Call(obs'))
GenSpecD == GenInit /\ [][GenNextD]_<<vars, hist>>
\* only the states of the base graph are expanded (the calls of TreeUse are generated from each of them)
BaseLabels == \A n \in live : <<name[n], val[n]>> \in Kinds
EmitU == (obs'.a \in NewActs) => PrintT(<<"BEHAV", ToJson(Append(hist, obs'))>>)
=============================================================================
