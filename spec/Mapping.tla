------------------------------ MODULE Mapping ------------------------------
(***************************************************************************)
(* X22 (extension of C10): the second keyed store of the library, the      *)
(* table that binds data sources to plot destinations                      *)
(* (mptplot/mapping.c, mpt++/mapping.cpp) and its text front ends          *)
(* (mptplot/output/output_bind_string.c, output_bind_list.c,               *)
(* valsrc_state.c).                                                        *)
(*                                                                         *)
(* C10's words applied to this store.  A key is a binding                  *)
(*    (client, destination, source dimension, source state bit).           *)
(* Tier 1 (meaning):  bound -- the set of keys currently bound;            *)
(*                    cycm  -- (mpt++) registered destination path -> cycle*)
(* Tier 2 (design):   tab   -- the array of struct mapping {src{dim,state},*)
(*                             client, dest} in the order the code keeps it*)
(*                    cyc   -- the entry array of map<laydest, reference>  *)
(* obs = what the last call was given (arg), what it must answer and leave *)
(* behind (exp: the answer class and the answers of EVERY lookup of the    *)
(* universe, asked after the call), and what the design answers (dsg).     *)
(* Conformance verdicts look at obs.exp only.                              *)
(***************************************************************************)
EXTENDS Integers, Sequences, FiniteSets, TLC, SequencesExt

CONSTANTS DimSeq,    \* source dimensions asked for (sequence: order of the lookups)
          MaskSeq,   \* source state masks offered / asked for
          CliSeq,    \* clients
          DestSeq,   \* destinations <<lay, grf, wld, dim>> offered
          PathSeq,   \* (mpt++) destination paths <<lay, grf, wld>> that can be registered
          Toks,      \* (mpt++) cycle tokens (0 = registered without a cycle)
          Impl,      \* "c" (mpt_mapping_* on a plain array) or "cxx" (graphic::mapping)
          WithAll,   \* FALSE: exp.all is left empty (exhaustive runs: the lookups are judged by LookupRefines)
          Acts       \* action groups enabled in Next: "table", "reg", "text", "srctext", "list", "plot"

CONSTANTS ItemSet,     \* items offered to BindText
          MaxItems,    \* items per text
          GapSet,      \* gap codes between items
          EdgeGaps,    \* gap codes before the first and after the last item
          Letters, MaxLetters, LetterGaps,
          NodeSet, MaxNodes

VARIABLES bound, cycm,      \* Tier 1
          tab, cyc,         \* Tier 2
          obs
vars == <<bound, cycm, tab, cyc, obs>>

---------------------------------------------------------------------------
(* helpers *)
AllBits   == {1, 2, 4, 8, 16, 32, 64, 128}
BitsOf    == [n \in 0..255 |-> {b \in AllBits : (n \div b) % 2 = 1}]
MaskOr(a, b)     == SumSet(BitsOf[a] \cup BitsOf[b])
MaskAndNot(a, b) == SumSet(BitsOf[a] \ BitsOf[b])
Rep(x, n) == [i \in 1..n |-> x]
PathOf(d) == <<d[1], d[2], d[3]>>
NoSrc == <<>>
NoDst == <<>>

LexLess(a, b) ==     \* tuples of equal length
  \E i \in 1..Len(a) : a[i] < b[i] /\ \A j \in 1..(i - 1) : a[j] = b[j]

Dims    == Range(DimSeq)
Masks   == Range(MaskSeq)
Clients == Range(CliSeq)
Dests   == Range(DestSeq)
Paths   == Range(PathSeq)
CliW    == <<-1>> \o CliSeq          \* a negative client asks for every client (mpt_mapping_cmp)

\* keys of one binding call
Atoms(cli, dst, dim, m) == {<<cli, dst, dim, b>> : b \in BitsOf[m]}

---------------------------------------------------------------------------
(* Tier 1: the answers of the store *)
\* destinations bound for (dim, any state of m) and the client (every client when negative), in the
\* order of the destinations, one occurrence per client that is bound
LookupBagOf(b, ds, cs, dim, m, cli) ==    \* ds: the bound destinations in order, cs: the bound clients
  LET cnt(d) == Cardinality({c \in cs : /\ (cli < 0 \/ c = cli)
                                        /\ \E s \in BitsOf[m] : <<c, d, dim, s>> \in b})
  IN FlattenSeq([k \in 1..Len(ds) |-> Rep(ds[k], cnt(ds[k]))])
LookupBag(b, dim, m, cli) ==
  LookupBagOf(b, SetToSortSeq({a[2] : a \in b}, LexLess), {a[1] : a \in b}, dim, m, cli)

NLook == Len(DimSeq) * Len(MaskSeq) * Len(CliW)
LookKey(i) ==
  LET n == i - 1
      ci == n % Len(CliW)
      mi == (n \div Len(CliW)) % Len(MaskSeq)
      di == n \div (Len(CliW) * Len(MaskSeq))
  IN <<DimSeq[di + 1], MaskSeq[mi + 1], CliW[ci + 1]>>
AllLookups(b) ==
  IF ~WithAll THEN <<>>
  ELSE LET ds == SetToSortSeq({a[2] : a \in b}, LexLess)
           cs == {a[1] : a \in b}
       IN [i \in 1..NLook |-> LET k == LookKey(i) IN LookupBagOf(b, ds, cs, k[1], k[2], k[3])]

\* (mpt++) the cycle registered for each path of the universe: -1 = not registered
CycAnswers(cm) == [i \in 1..Len(PathSeq) |-> IF PathSeq[i] \in DOMAIN cm THEN cm[PathSeq[i]] ELSE -1]

(* Tier 2: what the design answers *)
TabLookup(t, dim, m, cli) ==
  LET hit(e) == (cli < 0 \/ e.cli = cli) /\ e.dim = dim /\ BitsOf[e.st] \cap BitsOf[m] # {}
      sel == SelectSeq(t, hit)
  IN [i \in 1..Len(sel) |-> sel[i].dst]
TabAtoms(t) == UNION {Atoms(t[i].cli, t[i].dst, t[i].dim, t[i].st) : i \in 1..Len(t)}
CycMap(c) == [p \in {c[i].key : i \in 1..Len(c)} |->
                c[CHOOSE i \in 1..Len(c) : c[i].key = p /\ \A j \in 1..(i - 1) : c[j].key # p].tok]

---------------------------------------------------------------------------
Answer(a, arg, ret, dret) ==
  obs' = [a |-> a, arg |-> arg,
          exp |-> [ret |-> ret, all |-> AllLookups(bound'), cyc |-> CycAnswers(cycm')],
          dsg |-> [ret |-> dret]]
Same(a, arg, ret) ==
  /\ UNCHANGED <<bound, cycm, tab, cyc>>
  /\ Answer(a, arg, ret, ret)

(* mpt_mapping_add / graphic::mapping::add.  Documented answers: binding appended, element reused (the    *)
(* states of a binding to the same destination for the same client and source dimension are merged),     *)
(* conflicting binding (the destination is bound to another source dimension for this client).           *)
(* graphic::mapping::add refuses a destination whose path has no registered cycle.                        *)
AddRet1(b, dim, dst, cli) ==
  IF \E a \in b : a[1] = cli /\ a[2] = dst /\ a[3] # dim THEN "conflict"
  ELSE IF \E a \in b : a[1] = cli /\ a[2] = dst THEN "reused"
  ELSE "added"
AddHit(t, dst, cli) == {i \in 1..Len(t) : t[i].cli = cli /\ t[i].dst = dst}
AddRet2(t, dim, dst, cli) ==
  LET hit == AddHit(t, dst, cli) IN
  IF hit = {} THEN "added"
  ELSE IF t[Min(hit)].dim # dim THEN "conflict" ELSE "reused"
AddTab(t, dim, m, dst, cli) ==
  LET hit == AddHit(t, dst, cli) IN
  IF hit = {} THEN Append(t, [dim |-> dim, st |-> m, cli |-> cli, dst |-> dst])
  ELSE IF t[Min(hit)].dim # dim THEN t
  ELSE [t EXCEPT ![Min(hit)].st = MaskOr(@, m)]
AddBound(b, dim, m, dst, cli) ==
  IF AddRet1(b, dim, dst, cli) = "conflict" THEN b ELSE b \cup Atoms(cli, dst, dim, m)

Add(src, dst, cli) ==
  LET arg == [src |-> src, dst |-> dst, cli |-> cli] IN
  IF Impl = "cxx" /\ PathOf(dst) \notin DOMAIN cycm THEN Same("add", arg, "missing")
  ELSE /\ bound' = AddBound(bound, src[1], src[2], dst, cli)
       /\ tab' = AddTab(tab, src[1], src[2], dst, cli)
       /\ UNCHANGED <<cycm, cyc>>
       /\ Answer("add", arg, AddRet1(bound, src[1], dst, cli), AddRet2(tab, src[1], dst, cli))

(* mpt_mapping_del / graphic::mapping::del: the bindings of the client, restricted to the destination    *)
(* and / or the source (dimension and states) when given, are removed.  The returned number is not       *)
(* documented: "any".                                                                                    *)
DelMatch1(a, src, dst, cli) ==
  /\ a[1] = cli
  /\ (dst = NoDst \/ a[2] = dst)
  /\ (src = NoSrc \/ (a[3] = src[1] /\ a[4] \in BitsOf[src[2]]))
DelMatch2(e, src, dst, cli) ==
  /\ e.cli = cli
  /\ (dst = NoDst \/ e.dst = dst)
  /\ (src = NoSrc \/ e.dim = src[1])
DelTab(t, src, dst, cli) ==
  LET t1 == [i \in 1..Len(t) |->
               IF DelMatch2(t[i], src, dst, cli)
               THEN [t[i] EXCEPT !.st = IF src = NoSrc THEN 0 ELSE MaskAndNot(@, src[2])]
               ELSE t[i]]
      live(e) == e.st # 0
  IN IF \E i \in 1..Len(t) : DelMatch2(t[i], src, dst, cli) THEN SelectSeq(t1, live) ELSE t
Del(src, dst, cli) ==
  LET arg == [src |-> src, dst |-> dst, cli |-> cli] IN
  /\ bound' = {a \in bound : ~DelMatch1(a, src, dst, cli)}
  /\ tab' = DelTab(tab, src, dst, cli)
  /\ UNCHANGED <<cycm, cyc>>
  /\ Answer("del", arg, "any", Cardinality({i \in 1..Len(tab) : DelMatch2(tab[i], src, dst, cli)}))

(* graphic::mapping::clear: no binding and no registered destination remains *)
Clear ==
  /\ bound' = {} /\ tab' = <<>>
  /\ cycm' = <<>> /\ cyc' = <<>>
  /\ Answer("clear", [x |-> 0], "ok", "ok")

(* graphic::mapping::set_cycle: register the destination path (with or without a cycle) *)
SetCycle(p, tok) ==
  LET hit == {i \in 1..Len(cyc) : cyc[i].key = p} IN
  /\ cycm' = [q \in DOMAIN cycm \cup {p} |-> IF q = p THEN tok ELSE cycm[q]]
  /\ cyc' = IF hit = {} THEN Append(cyc, [key |-> p, tok |-> tok])
            ELSE [cyc EXCEPT ![Min(hit)].tok = tok]
  /\ UNCHANGED <<bound, tab>>
  /\ Answer("setcycle", [path |-> p, tok |-> tok], "ok", "ok")

(* graphic::mapping::clear_cycles(hint): the cycles of the registered paths the hint selects are dropped  *)
(* (the paths stay registered); a hint field of -1 selects every value.  Returned number: "any".          *)
HintMatch(h, p) == \A k \in 1..3 : h[k] < 0 \/ h[k] = p[k]
ClearCycles(h) ==
  /\ cycm' = [q \in DOMAIN cycm |-> IF HintMatch(h, q) THEN 0 ELSE cycm[q]]
  /\ cyc' = [i \in 1..Len(cyc) |-> IF HintMatch(h, cyc[i].key) THEN [cyc[i] EXCEPT !.tok = 0] ELSE cyc[i]]
  /\ UNCHANGED <<bound, tab>>
  /\ Answer("clearcycles", [hint |-> h], "any",
            Cardinality({i \in 1..Len(cyc) : HintMatch(h, cyc[i].key) /\ cyc[i].tok # 0}))

---------------------------------------------------------------------------
(* Text front ends.                                                        *)
(*                                                                         *)
(* mpt_output_bind_string(out, text): the text is a blank separated list   *)
(* of destinations  [lay][:[grf][:[wld]]]  (numbers 0..255; a field left   *)
(* out keeps the value of the destination before; the first destination    *)
(* starts from 1:1:1).  The k-th destination denotes the two bindings      *)
(*    (dimension 0, all states) -> (lay, grf, wld, 0)                      *)
(*    (dimension k, all states) -> (lay, grf, wld, 1)                      *)
(* sent as ONE kind of message (Graphic, BindingAdd) holding the records   *)
(* {src.dim, src.state, lay, grf, wld, dim}.  The driver (in the place of  *)
(* the receiving application) adds the records of every completed binding  *)
(* message to the table for the given client.                              *)
(*                                                                         *)
(* An item is a sequence of 1..3 fields, -1 = left out.  Items the code    *)
(* reports as errors: no field given ("identical"), a zero field           *)
(* ("illegal"), a field > 255 or not a number ("bad", ends the parse).     *)
(* For a text with such an item the statement leaves open whether the text *)
(* is refused, the destinations before it are bound, or it is skipped      *)
(* (identical / illegal; a bad item ends the text in every case):          *)
(* exp.outcomes lists the permitted results.                               *)
(***************************************************************************)
Digits == <<"0", "1", "2", "3", "4", "5", "6", "7", "8", "9">>
RECURSIVE NumStr(_)
NumStr(n) == IF n < 10 THEN Digits[n + 1] ELSE NumStr(n \div 10) \o Digits[(n % 10) + 1]
BadField == 1000          \* rendered as a word
FieldStr(f) == IF f < 0 THEN "" ELSE IF f = BadField THEN "x" ELSE NumStr(f)
RECURSIVE JoinStr(_, _)
JoinStr(ss, sep) == IF Len(ss) = 0 THEN "" ELSE IF Len(ss) = 1 THEN ss[1]
                    ELSE ss[1] \o sep \o JoinStr(SubSeq(ss, 2, Len(ss)), sep)
ItemStr(it) == JoinStr([k \in 1..Len(it) |-> FieldStr(it[k])], ":")
GapStr(g) == CASE g = 0 -> "" [] g = 1 -> " " [] g = 2 -> "  " [] g = 3 -> "\t" [] OTHER -> " \t "
\* text = lead gap, items separated by gaps, trailing gap
RECURSIVE TextOf(_, _)
TextOf(items, gaps) ==      \* Len(gaps) = Len(items) + 1
  IF Len(items) = 0 THEN GapStr(gaps[1])
  ELSE GapStr(gaps[1]) \o ItemStr(items[1]) \o TextOf(SubSeq(items, 2, Len(items)), SubSeq(gaps, 2, Len(gaps)))

ItemKind(it, cur) ==      \* cur: destination path before the item
  LET nxt == [k \in 1..3 |-> IF k <= Len(it) /\ it[k] >= 0 THEN it[k] ELSE cur[k]] IN
  IF \E k \in 1..Len(it) : it[k] > 255 THEN "bad"
  ELSE IF \A k \in 1..Len(it) : it[k] < 0 THEN "identical"
  ELSE IF \E k \in 1..3 : nxt[k] = 0 THEN "illegal"
  ELSE "good"
ItemNext(it, cur) == [k \in 1..3 |-> IF k <= Len(it) /\ it[k] >= 0 /\ it[k] <= 255 THEN it[k] ELSE cur[k]]

\* records of the destinations: mode "skip" passes over identical / illegal items, "prefix" stops at the first
\* item that is not good; "bad" items always stop
RECURSIVE Denote(_, _, _, _)
Denote(items, cur, n, mode) ==
  IF Len(items) = 0 THEN <<>>
  ELSE LET it == items[1]
           kind == ItemKind(it, cur)
           nxt == ItemNext(it, cur)
           rest == SubSeq(items, 2, Len(items))
       IN IF kind = "good"
          THEN <<<<0, 7, nxt[1], nxt[2], nxt[3], 0>>, <<n + 1, 7, nxt[1], nxt[2], nxt[3], 1>>>>
               \o Denote(rest, nxt, n + 1, mode)
          ELSE IF kind = "bad" \/ mode = "prefix" THEN <<>>
          ELSE Denote(rest, nxt, n, mode)
RECURSIVE AllGood(_, _)
AllGood(items, cur) ==
  Len(items) = 0 \/ (ItemKind(items[1], cur) = "good" /\ AllGood(SubSeq(items, 2, Len(items)), ItemNext(items[1], cur)))
Start == <<1, 1, 1>>
\* the permitted results (sequences of records)
Outcomes(items) ==
  IF AllGood(items, Start) THEN {Denote(items, Start, 0, "skip")}
  ELSE {<<>>, Denote(items, Start, 0, "prefix"), Denote(items, Start, 0, "skip")}

\* the table after the records were added for the client, in order
RECURSIVE FoldAdd1(_, _, _)
FoldAdd1(b, recs, cli) ==
  IF Len(recs) = 0 THEN b
  ELSE LET r == recs[1] IN
       FoldAdd1(AddBound(b, r[1], r[2], <<r[3], r[4], r[5], r[6]>>, cli), SubSeq(recs, 2, Len(recs)), cli)
RECURSIVE FoldAdd2(_, _, _)
FoldAdd2(t, recs, cli) ==
  IF Len(recs) = 0 THEN t
  ELSE LET r == recs[1] IN
       FoldAdd2(AddTab(t, r[1], r[2], <<r[3], r[4], r[5], r[6]>>, cli), SubSeq(recs, 2, Len(recs)), cli)

(* Tier 2 of the text front end: the character level algorithm of mpt_string_dest (blanks before the        *)
(* destination are passed over; a field is a number of 0..255 or empty; ':' separates; a blank ends the      *)
(* destination, also directly behind a separator) and the loop of mpt_output_bind_string around it.  TLC checks that for every text the        *)
(* generator writes the algorithm sends a permitted result (DesignAnswers).                                   *)
Ch(s, i) == IF i >= 1 /\ i <= Len(s) THEN SubSeq(s, i, i) ELSE ""
IsBlank(c) == c = " " \/ c = "\t"
IsDigit(c) == \E k \in 1..10 : Digits[k] = c
DigitVal(c) == (CHOOSE k \in 1..10 : Digits[k] = c) - 1
RECURSIVE SkipBlanks(_, _)
SkipBlanks(s, i) == IF IsBlank(Ch(s, i)) THEN SkipBlanks(s, i + 1) ELSE i
RECURSIVE ReadNum(_, _, _)
ReadNum(s, i, acc) == IF IsDigit(Ch(s, i)) THEN ReadNum(s, i + 1, IF acc > 100000 THEN acc ELSE acc * 10 + DigitVal(Ch(s, i)))
                      ELSE <<acc, i>>
RECURSIVE SDLoop(_, _, _, _, _, _, _)
SDLoop(s, p, start, i, max, ch, val) ==
  LET res(len) == [len |-> len, ch |-> ch, val |-> val] IN
  IF i >= max THEN res(p - start)
  ELSE IF IsDigit(Ch(s, p))
       THEN LET r == ReadNum(s, p, 0)  v == r[1]  e == r[2]  n == Ch(s, e) IN
            IF v > 255 THEN res(-(e - start))
            ELSE IF n # ":" THEN [len |-> e - start, ch |-> ch \cup {i}, val |-> [val EXCEPT ![i + 1] = v]]
            \* a blank behind the separator ends the destination, as in the branch of a field left out
            ELSE IF IsBlank(Ch(s, e + 1)) THEN [len |-> e + 1 - start, ch |-> ch \cup {i}, val |-> [val EXCEPT ![i + 1] = v]]
            ELSE SDLoop(s, e + 1, start, i + 1, max, ch \cup {i}, [val EXCEPT ![i + 1] = v])
       ELSE LET c0 == Ch(s, p) IN
            IF c0 = "" THEN res(p - start)
            ELSE IF c0 = ":" THEN IF IsBlank(Ch(s, p + 1)) THEN res(p + 1 - start)
                                  ELSE SDLoop(s, p + 1, start, i + 1, max, ch, val)
            ELSE res(-(p - start))
StringDest(s, start, max) == SDLoop(s, SkipBlanks(s, start), start, 0, max, {}, [k \in 1..7 |-> 0])
RECURSIVE BindLoop(_, _, _, _, _)
BindLoop(s, p, cur, n, recs) ==
  LET r == StringDest(s, p, 3) IN
  IF r.len <= 0 THEN [ret |-> n, recs |-> recs]
  ELSE LET nxt == [k \in 1..3 |-> IF (k - 1) \in r.ch THEN r.val[k] ELSE cur[k]] IN
       IF r.ch = {} THEN BindLoop(s, p + r.len, cur, n, recs)
       ELSE IF \E k \in 1..3 : nxt[k] = 0 THEN BindLoop(s, p + r.len, nxt, n, recs)
       ELSE BindLoop(s, p + r.len, nxt, n + 1,
                     recs \o <<<<0, 7, nxt[1], nxt[2], nxt[3], 0>>, <<n + 1, 7, nxt[1], nxt[2], nxt[3], 1>>>>)
BindDesign(text) == BindLoop(text, 1, Start, 0, <<>>)

(* BindText(items, gaps, cli, pick): pick selects which permitted result the model follows (trace     *)
(* validation: the recorded one); exp.outcomes = every permitted record list with the number of        *)
(* destinations it reports and the lookups that follow from it.                                        *)
BindText(items, gaps, cli, recs) ==
  LET arg == [text |-> TextOf(items, gaps), cli |-> cli, items |-> items, gaps |-> gaps]
      outs == Outcomes(items)
      os == SetToSeq(outs)
  IN
  /\ recs \in outs
  /\ bound' = FoldAdd1(bound, recs, cli)
  /\ tab' = FoldAdd2(tab, recs, cli)
  /\ UNCHANGED <<cycm, cyc>>
  /\ obs' = [a |-> "bindtext", arg |-> arg,
             exp |-> [outcomes |-> [i \in 1..Len(os) |->
                                      [recs |-> os[i], ret |-> Len(os[i]) \div 2,
                                       all |-> AllLookups(FoldAdd1(bound, os[i], cli))]],
                      anyret |-> IF AllGood(items, Start) THEN 0 ELSE 1,
                      recs |-> recs, all |-> AllLookups(bound'),
                      open |-> 0, junk |-> 0, cyc |-> CycAnswers(cycm')],
             dsg |-> BindDesign(TextOf(items, gaps))]

(* mpt_output_bind_string(out, 0): one (Graphic, BindingClear) message without records *)
BindClearMsg ==
  /\ UNCHANGED <<bound, cycm, tab, cyc>>
  /\ obs' = [a |-> "bindclear", arg |-> [x |-> 0],
             exp |-> [ret |-> 0, msgs |-> <<"clear">>, open |-> 0, junk |-> 0,
                      all |-> AllLookups(bound), cyc |-> CycAnswers(cycm)],
             dsg |-> [ret |-> 0]]

(* mpt_valsrc_state(src, text), called in a loop as documented ("call in loop to get all sources for   *)
(* description", answer = length of consumed text): a text of state letters, each followed by blanks,   *)
(* denotes the states of its letters in order; the loop ends with a call that consumes nothing.         *)
LetterState(l) ==
  CASE l = "i" -> 1 [] l = "I" -> 6 [] l = "s" -> 2 [] l = "S" -> 5
    [] l = "f" -> 4 [] l = "F" -> 3 [] l = "a" -> 7 [] l = "A" -> 0
RECURSIVE LettersText(_, _)
LettersText(ls, gaps) ==     \* Len(gaps) = Len(ls): blanks after each letter
  IF Len(ls) = 0 THEN "" ELSE ls[1] \o GapStr(gaps[1]) \o LettersText(SubSeq(ls, 2, Len(ls)), SubSeq(gaps, 2, Len(gaps)))
SrcText(ls, gaps) ==
  /\ UNCHANGED <<bound, cycm, tab, cyc>>
  /\ obs' = [a |-> "srctext", arg |-> [text |-> LettersText(ls, gaps)],
             exp |-> [states |-> [i \in 1..Len(ls) |-> LetterState(ls[i])],
                      used |-> Len(LettersText(ls, gaps))],
             dsg |-> [ret |-> 0]]

(* mpt_output_bind_list(out, nodes): every node with a name and a text value denotes one message        *)
(* (Graphic, BindingAdd|BindingParse) = value text, NUL, name; the documented answer is their number.    *)
\* node = <<name, value>>, "" = none
ListMsgs(nodes) ==
  LET ok(n) == n[1] # "" /\ n[2] # ""
      sel == SelectSeq(nodes, ok)
  IN [i \in 1..Len(sel) |-> <<sel[i][2], sel[i][1]>>]
BindList(nodes) ==
  /\ UNCHANGED <<bound, cycm, tab, cyc>>
  /\ obs' = [a |-> "bindlist", arg |-> [names |-> [i \in 1..Len(nodes) |-> nodes[i][1]],
                                        vals |-> [i \in 1..Len(nodes) |-> nodes[i][2]]],
             exp |-> [ret |-> Len(ListMsgs(nodes)), parse |-> ListMsgs(nodes), open |-> 0, junk |-> 0],
             dsg |-> [ret |-> 0]]

(* mpt_output_init_plot(out, dest, fmt, pos): one (Destination, fmt) header carrying exactly the         *)
(* destination and the cycle / offset pair                                                               *)
InitPlot(dst, fmt, cycle, off) ==
  /\ UNCHANGED <<bound, cycm, tab, cyc>>
  /\ obs' = [a |-> "initplot", arg |-> [dst |-> dst, fmt |-> fmt, cycle |-> cycle, off |-> off],
             exp |-> [ret |-> 0, dst |-> dst, fmt |-> fmt, cycle |-> cycle, off |-> off, open |-> 1],
             dsg |-> [ret |-> 0]]

---------------------------------------------------------------------------

ItemSeqs == UNION {[1..n -> ItemSet] : n \in 0..MaxItems}
GapsFor(n) == {g \in [1..(n + 1) -> GapSet \cup EdgeGaps] :
                 /\ g[1] \in EdgeGaps /\ g[n + 1] \in EdgeGaps
                 /\ \A k \in 2..n : g[k] \in GapSet}

Init ==
  /\ bound = {} /\ cycm = <<>> /\ tab = <<>> /\ cyc = <<>>
  /\ obs = [a |-> "init",
            arg |-> [dims |-> DimSeq, masks |-> MaskSeq, clis |-> CliSeq, paths |-> FlattenSeq(PathSeq)],
            exp |-> [ret |-> "ok", all |-> AllLookups({}), cyc |-> CycAnswers(<<>>)],
            dsg |-> [ret |-> "ok"]]

Srcs == {<<d, m>> : d \in Dims, m \in Masks}
Hints == {<<-1, -1, -1>>} \cup {<<p[1], -1, -1>> : p \in Paths} \cup {<<p[1], p[2], -1>> : p \in Paths}
         \cup {<<-1, -1, p[3]>> : p \in Paths} \cup Paths

Next ==
  \/ /\ "table" \in Acts
     /\ \/ \E s \in Srcs, d \in Dests, c \in Clients : Add(s, d, c)
        \/ \E s \in Srcs \cup {NoSrc}, d \in Dests \cup {NoDst}, c \in Clients : Del(s, d, c)
  \/ /\ "reg" \in Acts
     /\ \/ Clear
        \/ \E p \in Paths, t \in Toks : SetCycle(p, t)
        \/ \E h \in Hints : ClearCycles(h)
  \/ /\ "text" \in Acts
     /\ \/ \E its \in ItemSeqs, c \in Clients : \E g \in GapsFor(Len(its)) : \E r \in Outcomes(its) : BindText(its, g, c, r)
        \/ BindClearMsg
  \/ /\ "srctext" \in Acts
     /\ \E n \in 0..MaxLetters : \E ls \in [1..n -> Letters], g \in [1..n -> LetterGaps] :
          /\ \A k \in 1..(n - 1) : g[k] # 0       \* two letters in a row are refused by the code (documented: BadValue)
          /\ SrcText(ls, g)
  \/ /\ "list" \in Acts
     /\ \E n \in 1..MaxNodes : \E ns \in [1..n -> NodeSet] : BindList(ns)
  \/ /\ "plot" \in Acts
     /\ \E d \in Dests, f \in {0, 100}, cy \in {0, 3}, o \in {0, 70000} : InitPlot(d, f, cy, o)

Spec == Init /\ [][Next]_vars

---------------------------------------------------------------------------
(* what TLC decides *)
TypeOK ==
  /\ \A a \in bound : a[4] \in AllBits
  /\ \A i \in 1..Len(tab) : tab[i].st \in 0..255

\* the design holds exactly the bound keys, one entry per (client, destination), none without a state
Refines == TabAtoms(tab) = bound
OneEntryPerKey ==
  /\ \A i, j \in 1..Len(tab) : i # j => ~(tab[i].cli = tab[j].cli /\ tab[i].dst = tab[j].dst)
  /\ \A i \in 1..Len(tab) : tab[i].st # 0
\* a destination of a client is fed by one source dimension
OneDimPerDest == Cardinality({<<a[1], a[2], a[3]>> : a \in bound}) = Cardinality({<<a[1], a[2]>> : a \in bound})
\* every lookup of the universe answered from the array is the lookup of the map
LookupRefines ==
  \A i \in 1..NLook :
    LET k == LookKey(i)
        t2 == TabLookup(tab, k[1], k[2], k[3])
        t1 == LookupBag(bound, k[1], k[2], k[3])
    IN /\ Len(t1) = Len(t2)
       /\ \A d \in Range(t1) \cup Range(t2) :
            Cardinality({j \in 1..Len(t1) : t1[j] = d}) = Cardinality({j \in 1..Len(t2) : t2[j] = d})
RegRefines == CycMap(cyc) = cycm /\ \A i, j \in 1..Len(cyc) : i # j => cyc[i].key # cyc[j].key
\* (mpt++) a bound destination has a registered path
BoundRegistered == Impl = "cxx" => \A a \in bound : PathOf(a[2]) \in DOMAIN cycm

\* the design gives the documented answer
DesignAnswers ==
  /\ obs'.a \in {"add", "clear", "setcycle"} => obs'.dsg.ret = obs'.exp.ret
  /\ obs'.a = "bindtext" =>
       /\ obs'.dsg.recs \in Outcomes(obs'.arg.items)
       /\ obs'.dsg.ret = Len(obs'.dsg.recs) \div 2
       /\ AllGood(obs'.arg.items, Start) => obs'.dsg.recs = obs'.exp.recs
\* no interference: a call leaves every key it does not name as it was; what it names ends as stated
NoInterference ==
  LET a == obs'.a  arg == obs'.arg IN
  /\ a = "add" =>
       /\ \A k \in bound \cup bound' : (k[1] # arg.cli \/ k[2] # arg.dst) => (k \in bound <=> k \in bound')
       /\ bound \subseteq bound'
       /\ obs'.exp.ret \in {"added", "reused"} => Atoms(arg.cli, arg.dst, arg.src[1], arg.src[2]) \subseteq bound'
       /\ obs'.exp.ret \in {"conflict", "missing"} => bound' = bound
  /\ a = "del" =>
       /\ bound' \subseteq bound
       /\ \A k \in bound : (k \in bound') <=> ~DelMatch1(k, arg.src, arg.dst, arg.cli)
  /\ a = "bindtext" => \A k \in bound \cup bound' : k[1] # arg.cli => (k \in bound <=> k \in bound')
  /\ a \in {"setcycle", "clearcycles"} => bound' = bound
  /\ a = "setcycle" => \A p \in DOMAIN cycm : p # arg.path => cycm'[p] = cycm[p]
  /\ a = "clearcycles" => /\ DOMAIN cycm' = DOMAIN cycm
                          /\ \A p \in DOMAIN cycm : cycm'[p] = IF HintMatch(arg.hint, p) THEN 0 ELSE cycm[p]
FrameProp == [][DesignAnswers /\ NoInterference]_vars
=============================================================================
