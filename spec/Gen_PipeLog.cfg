SPECIFICATION GenSpec
CONSTANTS NMsg = 3 LogMax = 256 MsgSet <- Msgs LogArgs <- LogsNone Quotas <- QuotasQ Ks <- KsQ Ops <- OpsQ
VIEW Skel
ACTION_CONSTRAINT Emit
CHECK_DEADLOCK FALSE
