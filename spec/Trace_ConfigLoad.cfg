SPECIFICATION TraceSpec
CONSTANTS Names <- NoNames Depth = 0 Vals <- None Sep = 46 Design = "list" Base <- BaseVW MaxSlots = 0
  Ends <- None Strs <- None Seps <- None Asgs <- None Elems <- None
  Configs <- TConfigs OptNames <- None SecNames <- None Values <- None Decos <- None MaxNodes = 100000 MaxDepth = 8
  Routes <- RouteNames Cfgs <- AllCfgs SingleKinds <- None PrePaths <- None
  LoadKinds <- None TwoFiles = FALSE EnvCalls <- None ArgCalls <- None ClearLists <- None
  MsgSets <- None MsgGets <- None NodeBases <- None FputSeps <- None
  MaxOps = 1000000 MaxArr = 1000000 SingleWhen = "any" QuoteSet <- AllQuotes Observe = FALSE
INVARIANTS Refines PrefixClosed PathRefines
PROPERTIES ArrivalProp SingleProp PathProp PrintProp
POSTCONDITION TraceAccepted
CHECK_DEADLOCK FALSE
