SPECIFICATION Spec
CONSTANTS
  Configs <- CfgsRich
  Heads <- HeadsRich
  Levels = {}
  Calls = {}
  TextBytes = {0, 1, 2, 3, 97}
  MaxText = 4
  Ops = {}
  LogMax = 256
  AsFound = {}
VIEW MCView
CHECK_DEADLOCK FALSE
INVARIANTS TypeOK IdleClean Engaged
PROPERTIES DesignAgrees
