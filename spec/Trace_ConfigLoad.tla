-------------------------- MODULE Trace_ConfigLoad --------------------------
(* Trace validation for ConfigLoad: recorded executions of the real code    *)
(* (one event per call: arguments + observation) must be behaviours of the  *)
(* specification.  Histories mix all arrival routes.  Events that carry a    *)
(* document give its ITEM PARAMETERS (arg.docs: one or two item lists, as    *)
(* Trace_ConfText); the items are fed through the actions of ConfText, which *)
(* renders the text and computes the forest.                                 *)
(*   pass 1 (events without obs): the rendered texts are printed             *)
(*           (<<"TEXT", event, json>>) for the driver script;                *)
(*   pass 2 (events with obs): the text the driver was given must be the     *)
(*           rendering, and the recorded answers of all universe queries     *)
(*           must be those of the specification's state.                     *)
EXTENDS ConfigLoad, Json, IOUtils
VARIABLES l, k, j, tu, tr
tvars == <<xvars, l, k, j, tu, tr>>
TraceLog == ndJsonDeserialize(IOEnv.TRACE)
None == {}
NoNames == <<>>
BaseVW == << <<118>>, <<119, 119>> >>       \* "v.ww"
AllCfgs == {"top", "null", "view"}
Big == 1000000
AllQuotes == 0..255
TConfigs == {[fmt |-> CT!Null, acc |-> CT!Null]}

Ev == TraceLog[l]
Pass2(ev) == "obs" \in DOMAIN ev
HasDocs(ev) == "docs" \in DOMAIN ev.arg
Self == <<0>>
PathOf(s, sep) == Split(s, sep)
Sim(e, o) == e = o \/ (e = Vague /\ o \in {NoVal, <<>>}) \/ e = Unknown

FreshDraft(fmt, acc) ==
  /\ dcfg' = [fmt |-> fmt, acc |-> acc, F |-> CT!FormatOf(fmt), A |-> CT!AcceptOf(acc)]
  /\ dtext' = <<>> /\ dstack' = << [n |-> <<>>, k |-> <<>>] >> /\ dnn' = 0 /\ doc' = EmptyDoc

Reset(ev) ==
  /\ tree' = << >> /\ st' = <<>>
  /\ pel' = <<>> /\ po' = [buf |-> <<>>, off |-> 0, len |-> 0, first |-> 0, sep |-> ev.arg.sep, asg |-> 0]
  /\ tu' = [i \in 1..Len(ev.arg.uni) |-> PathOf(ev.arg.uni[i], ev.arg.sep)]
  /\ tr' = [i \in 1..Len(ev.arg.rel) |->
              IF ev.arg.rel[i] = Self THEN Base ELSE Base \o PathOf(ev.arg.rel[i], ev.arg.sep)]
  /\ (Base = <<>> => ev.arg.base = <<0>>)
  /\ (Base # <<>> => ev.arg.base = Join(Base, ev.arg.sep))
  /\ FreshDraft(CT!Null, CT!Null) /\ doc2' = EmptyDoc
  /\ nops' = 0 /\ narr' = 0 /\ pst' = NoPst
  /\ obs' = [a |-> "init", arg |-> [x |-> 0], exp |-> [ret |-> "ok", anyret |-> FALSE]]

KeepUni == UNCHANGED <<tu, tr>>
SingleFrame == KeepDraft /\ pst' = pst /\ nops' = nops + 1 /\ narr' = narr

(* a query message: judged where the statement speaks (see ConfigLoad!MsgGet) *)
TMsgGet(ev) ==
  LET g    == ev.arg
      b    == BaseOf(g.cfg, "msgget")
      vals == [i \in DOMAIN g.paths |-> TGet(tree, b \o PathOf(g.paths[i], 46))]
      strict == \A i \in DOMAIN vals : vals[i] \notin {Vague, Unknown}
      allp == \A i \in DOMAIN vals : vals[i] # NoVal
  IN /\ UNCHANGED <<tree, st>> /\ KeepDraft /\ KeepPathX /\ nops' = nops + 1 /\ narr' = narr + 1
     /\ obs' = [a |-> "msgget", arg |-> [x |-> 0], exp |-> [ret |-> "any", anyret |-> TRUE]]
     /\ Pass2(ev) /\ strict /\ allp => ev.obs.ret = "values" /\ ev.obs.vals = vals
     /\ Pass2(ev) /\ strict /\ vals # <<>> /\ vals[1] = NoVal => ev.obs.ret = "absent"

TextIs(ev, key, txt) == Pass2(ev) => ev.arg[key] = txt

Step(ev) ==
  LET a == ev.a g == ev.arg IN
  CASE a = "init"       -> Reset(ev)
    [] a = "assign"     -> KeepUni /\ SingleFrame /\ Assign(g.via, PathOf(UpTo(g.path, g.end), g.sep), g.val, g.sep, g.end)
    [] a = "remove"     -> KeepUni /\ SingleFrame /\ Remove(g.via, PathOf(g.path, g.sep), g.sep)
    [] a = "load"       -> /\ KeepUni /\ Load(g.cfg, g.how, g.where)
                           /\ TextIs(ev, "file", IF g.where = "dir" THEN NoneTxt ELSE DocText(doc))
                           /\ TextIs(ev, "dir", IF g.where = "file" THEN NoneTxt
                                                ELSE IF g.where = "dir" THEN DocText(doc) ELSE DocText(doc2))
    [] a = "environ"    -> KeepUni /\ Environ(g.cfg, g.how, g.pat, g.sep, g.vars)
    [] a = "args"       -> KeepUni /\ Args(g.cfg, g.log, g.items)
    [] a = "clear"      -> KeepUni /\ Clear(g.cfg, g.items)
    [] a = "msgset"     -> KeepUni /\ MsgSet(g.cfg, g.hdr, g.split, g.els, g.val)
    [] a = "msgget"     -> KeepUni /\ TMsgGet(ev)
    [] a \in {"nodeparse", "parsenode"}
                        -> KeepUni /\ NodeCall(a, PathOf(g.base, g.bsep)) /\ TextIs(ev, "text", DocText(doc))
    [] a = "pset"       -> KeepUni /\ XPSet(g.str, g.sep, g.asg)
    [] a = "pnext"      -> KeepUni /\ PNext /\ PathFrame /\ pst' = NoPst
    [] a = "plast"      -> KeepUni /\ PLast /\ PathFrame /\ pst' = NoPst
    [] a = "pdel"       -> KeepUni /\ PDel /\ PathFrame /\ pst' = NoPst
    [] a = "paddelem"   -> KeepUni /\ PAddElem(g.elem) /\ PathFrame /\ pst' = NoPst
    [] a = "pfputs"     -> KeepUni /\ PFputs(g.seps)
    [] a = "pdata"      -> KeepUni /\ PData
    [] OTHER            -> FALSE

StoreActs == {"init", "assign", "remove", "load", "environ", "args", "clear", "msgset", "msgget", "nodeparse", "parsenode"}
Matches(ev) ==
  IF ev.a \in StoreActs
  THEN /\ Len(ev.obs.all) = Len(tu')
       /\ \A i \in 1..Len(tu') : Sim(TGet(tree', tu'[i]), ev.obs.all[i])
       /\ Len(ev.obs.rel) = Len(tr')
       /\ \A i \in 1..Len(tr') : Sim(TGet(tree', tr'[i]), ev.obs.rel[i])
       /\ obs'.exp.anyret \/ obs'.exp.ret = ev.obs.ret
  ELSE IF ev.a = "pfputs" THEN ev.obs.text = obs'.exp.text
  ELSE IF ev.a = "pdata" THEN ev.obs.post = obs'.exp.post
  ELSE /\ ev.obs.els = pel'
       /\ obs'.exp.anyret \/ obs'.exp.ret = ev.obs.ret

(* documents of an event: items through the actions of ConfText *)
CanQuote(v) == {q \in CT!F.esc : CT!QuotedOK(CT!F, v, q)}
Quote(it) ==
  IF it.q \notin {1, 2} THEN it.q
  ELSE IF it.q = 1 /\ CT!UnquotedOK(CT!F, it.v) THEN 0
  ELSE IF CanQuote(it.v) # {} THEN CHOOSE q \in CanQuote(it.v) : \A r \in CanQuote(it.v) : q <= r
  ELSE 0
ItemAct(it) ==
  CASE it.k = "opt"   -> CT!AddOption(it.n, it.v, Quote(it), it.d.g, it.d.b1, it.d.b2, it.d.b3,
                                      IF CT!F.oe # 0 THEN "end" ELSE it.d.term)
    [] it.k = "open"  -> CT!OpenSection(it.n, it.d.g, it.d.b1, it.d.b2, it.d.g2)
    [] it.k = "close" -> CT!CloseSection(it.d.g)
    [] OTHER -> FALSE
NoStore == UNCHANGED <<vars, nops, narr, pst, tu, tr>>
DocFmt(ev) == IF "fmt" \in DOMAIN ev.arg THEN ev.arg.fmt ELSE CT!Null
DocAcc(ev) == IF "acc" \in DOMAIN ev.arg THEN ev.arg.acc ELSE CT!Null

BeginDocs ==
  /\ HasDocs(Ev) /\ k = 0
  /\ FreshDraft(DocFmt(Ev), DocAcc(Ev)) /\ doc2' = EmptyDoc
  /\ NoStore /\ k' = 1 /\ j' = 1 /\ l' = l
Item ==
  /\ HasDocs(Ev) /\ k >= 1 /\ j <= Len(Ev.arg.docs[k])
  /\ LET it == Ev.arg.docs[k][j] IN
       \/ ItemAct(it) /\ doc2' = doc2
       \/ ~ENABLED ItemAct(it) /\ UNCHANGED <<draft, doc2>>
  /\ NoStore /\ k' = k /\ j' = j + 1 /\ l' = l
NextDoc ==                                     \* the first of two documents is put aside
  /\ HasDocs(Ev) /\ k >= 1 /\ k < Len(Ev.arg.docs) /\ j > Len(Ev.arg.docs[k])
  /\ doc2' = doc /\ FreshDraft(DocFmt(Ev), DocAcc(Ev))
  /\ NoStore /\ k' = k + 1 /\ j' = 1 /\ l' = l
Apply ==
  /\ IF HasDocs(Ev) THEN k = Len(Ev.arg.docs) /\ j > Len(Ev.arg.docs[k]) ELSE k = 0
  /\ Step(Ev)
  /\ IF Pass2(Ev) THEN Matches(Ev)
     ELSE HasDocs(Ev) => PrintT(<<"TEXT", l, ToJson([doc |-> DocText(doc), doc2 |-> DocText(doc2)])>>)
  /\ TLCSet(1, l)
  /\ k' = 0 /\ j' = 0 /\ l' = l + 1

TraceInit ==
  /\ l = 1 /\ k = 0 /\ j = 0 /\ TLCSet(1, 0)
  /\ InitX /\ tu = <<>> /\ tr = <<>>
TraceNext == l <= Len(TraceLog) /\ (BeginDocs \/ Item \/ NextDoc \/ Apply)
TraceSpec == TraceInit /\ [][TraceNext]_tvars

TraceAccepted ==
  LET n == TLCGet(1) IN
  /\ PrintT(<<"MATCHED", n>>)
  /\ n = Len(TraceLog)
=============================================================================
