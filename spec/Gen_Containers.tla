--------------------------- MODULE Gen_Containers ---------------------------
(* Behaviour export: one JSON line per generated transition of the control *)
(* skeleton.  Skeleton of handle 1: per element whether it is named, holds *)
(* an object (shareable or not), which earlier element holds the same      *)
(* object / name, number                                                   *)
(* and fill of nested elements; buffer present, no-copy; of the other      *)
(* handles: buffer present, shares with handle 1, element count.  Which    *)
(* object / name sits where is symmetric and hidden.                       *)
EXTENDS Containers, Json
CONSTANTS MaxDepth, MaxLen2
VARIABLE hist
GenInit == Init /\ hist = <<obs>>
GenNext == Next /\ hist' = Append(hist, obs')
GenSpec == GenInit /\ [][GenNext]_<<vars, hist>>
RECURSIVE Total(_)
Total(s) == IF s = <<>> THEN 0 ELSE 1 + Len(s[1].sub) + Total(SubSeq(s, 2, Len(s)))
Bound == /\ Len(hist) <= MaxDepth
         /\ \A h \in H : /\ Total(val[h]) <= (IF h = 1 THEN MaxLen ELSE MaxLen2)
                         /\ \A i \in 1..Len(val[h]) : Len(val[h][i].sub) <= MaxSub
\* position of the first element with the same object / name (0: none held)
FirstO(s, i) == IF s[i].o = 0 THEN 0 ELSE CHOOSE j \in 1..i : s[j].o = s[i].o /\ \A k \in 1..(j - 1) : s[k].o # s[i].o
FirstN_(s, i) == IF s[i].n = 0 THEN 0 ELSE CHOOSE j \in 1..i : s[j].n = s[i].n /\ \A k \in 1..(j - 1) : s[k].n # s[i].n
Shape(s) == [i \in 1..Len(s) |-> <<FirstO(s, i), FirstN_(s, i), s[i].o # 0 /\ IsSolo(s[i].o),
                                   [j \in 1..Len(s[i].sub) |-> <<s[i].sub[j].n # 0, s[i].sub[j].o # 0>>]>>]
Skel == <<kind, Shape(rec[1].data), IsNull(1), rec[1].nc,
          [h \in H \ {1} |-> <<IsNull(h), h \in share[1], Len(rec[h].data),
                                 \E i \in 1..Len(rec[h].data) : rec[h].data[i].o # 0 /\ IsSolo(rec[h].data[i].o)>>]>>
Emit == PrintT(<<"BEHAV", ToJson(hist')>>)
=============================================================================
