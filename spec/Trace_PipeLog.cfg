SPECIFICATION TraceSpec
CONSTANTS NMsg = 1000000 LogMax = 256 MsgSet <- CEmpty LogArgs <- CEmpty Quotas <- CEmpty Ks <- CEmpty Ops <- CEmpty
INVARIANTS Integrity OnlyFinished NoForgery Availability
POSTCONDITION TraceAccepted
CHECK_DEADLOCK FALSE
