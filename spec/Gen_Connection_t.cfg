SPECIFICATION GenSpec
CONSTANTS Widths = {} MaxH = 1 MaxOwn = 1 LimbDom = {0} IdWidths = {} StreamWidths = {}
  MsgDom <- CMsgDom TextDom <- CTextDom
  Transports = {"stream", "dgram"} ConnWidths = {1, 2} IdCand = {} IdLimit = 0
  MaxReq = 2 MaxPlain = 1 MaxStray = 1
  BActs = {"none", "reply", "reply2"} BHrets <- CHretsBoth SyncMax = 0
  MaxBReq = 0 MaxBPlain = 0 CRets <- CRetsZero MaxChain = 0
VIEW Skel
ACTION_CONSTRAINT Emit
CHECK_DEADLOCK FALSE
