---------------------------- MODULE Trace_NumText ----------------------------
(***************************************************************************)
(* Trace validation at the real widths: every recorded event of            *)
(* drv/numtext.c (source value as limbs, printed characters, re-parsed     *)
(* value, stored format fields / bytes / vector elements) must be accepted *)
(* by the Tier 1 judgement of NumText.  Events are independent; a rejected *)
(* event is printed (<<"REJECT", index>>) and the validation goes on.      *)
(***************************************************************************)
EXTENDS MC_NumText, Json, IOUtils
VARIABLE l
TraceLog == TLCGet(7)

Step(ev) == obs' = [a |-> ev.a, arg |-> [b |-> ev.b], exp |-> [x |-> 0]]

LiftSeq(s) == [i \in 1..Len(s) |-> Lift(s[i])]
Chars(s)   == [i \in 1..Len(s) |-> s[i]]
OkR(o)     == o.r \in {"ok", "refused"}

Matches(ev) ==
  CASE ev.a = "print"    -> /\ OkR(ev.obs)
                            /\ PrintOK(ev.arg.src, Lift(ev.obs.v), FmtRadix(ev.arg.flags), [ev.obs EXCEPT !.pw = Lift(@)])
                            /\ (ev.arg.api # "num" => SinkOK(ev.obs))
    [] ev.a = "printvec" -> OkR(ev.obs) /\ PrintVecOK(ev.arg.src, LiftSeq(ev.obs.vs), ev.obs)
                                        /\ (ev.arg.src # "c" => SinkOK(ev.obs))
    [] ev.a = "printobj" -> OkR(ev.obs) /\ PrintObjOK(ev.arg.types, LiftSeq(ev.obs.vs), ev.obs)
                                        /\ SinkObjOK(Len(ev.obs.vs), ev.obs)
    [] ev.a = "fmt"      -> OkR(ev.obs) /\ FmtOK(ev.arg.chars, ev.obs)
    [] ev.a = "fmtlist"  -> OkR(ev.obs) /\ FmtListOK(ev.arg.chars, ev.obs)
    [] ev.a = "dest"     -> OkR(ev.obs) /\ DestOK(ev.arg.chars, ev.arg.sep, ev.arg.max, ev.obs)
    [] ev.a = "rtext"    -> OkR(ev.obs) /\ RTextOK(ev.arg.dst, ev.arg.chars, ev.arg.base, Lift(ev.arg.lo), Lift(ev.arg.hi),
                                                   [ev.obs EXCEPT !.w = Lift(@)])
    [] ev.a = "vec"      -> OkR(ev.obs) /\ VecOK(ev.arg.src, ev.arg.dk, ev.arg.dst, LiftSeq(ev.obs.vs),
                                                 [ev.obs EXCEPT !.ws = LiftSeq(@)])
    [] ev.a = "key"      -> OkR(ev.obs) /\ KeyOK(ev.arg.chars, {ev.arg.sep[i] : i \in 1..Len(ev.arg.sep)}, ev.obs)
    [] OTHER             -> FALSE          \* Crash / Hang / Missing: "never faults"

TraceInit == TLCSet(7, ndJsonDeserialize(IOEnv.TRACE)) /\ l = 1 /\ Init
TraceNext ==
  /\ l <= Len(TraceLog)
  /\ l' = l + 1
  /\ LET ev == TraceLog[l] IN
       /\ Step(ev)
       /\ IF Matches(ev) THEN TRUE ELSE PrintT(<<"REJECT", l>>)
TraceSpec == TraceInit /\ [][TraceNext]_<<vars, l>>

TraceAccepted ==
  LET n == TLCGet("stats").diameter - 1 IN
  /\ PrintT(<<"MATCHED", n>>)
  /\ n = Len(TraceLog)
=============================================================================
