SPECIFICATION GenSpec
CONSTANTS SmallIds = {1} Widths = {} MaxTok = 1
  Texts <- CTexts HRs <- CHRs
  MaxIn = 2 Kinds = {"h", "s", "c", "f", "p", "l", "o"} MsgIds = {1} NextRVs <- CRVs Whats <- CWhats
  MaxQ = 2 Hows = {"shut"} MaxSent = 2 Ops <- OpsQ
CONSTRAINT BoundT
VIEW SkelQ
ACTION_CONSTRAINT Emit
CHECK_DEADLOCK FALSE
