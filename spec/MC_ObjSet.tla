----------------------------- MODULE MC_ObjSet -----------------------------
(* Exhaustive configuration of ObjSet: every door operation of the entry   *)
(* alphabet after every preparation of the two objects; obs is an          *)
(* observation, not state.                                                  *)
EXTENDS ObjSet
View21 == <<kind, t2, t1, nid, ops>>
=============================================================================
