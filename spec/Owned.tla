-------------------------------- MODULE Owned --------------------------------
(***************************************************************************)
(* X15 (extension of C15): reference-counted objects that OWN other counted *)
(* objects -- the kinds the base check does not drive.                      *)
(*                                                                         *)
(* Same vocabulary as RefCount (EXTENDS): handles holds[h], plain-pointer   *)
(* references extra[o], counters cnt[o], alive[o]; kind = the scenario of   *)
(* the behaviour.  New: every object has a class cls[o] and up to two       *)
(* references of its own, mem[o][s] (Tier 1: who refers to what).           *)
(*                                                                         *)
(*   loader    lib     libhandle of mpt_library_open (attach/detach/bind)   *)
(*             proxy   mpt_library_meta: holds the library (slot 1) and the *)
(*                     instance a symbol of the library created (slot 2);   *)
(*                     clone() shares the library, makes a new instance     *)
(*             inst    the instance (counted metatype made inside the .so)  *)
(*   outchain  outlocal  mpt_output_local: property "" (slot 1) is a        *)
(*                       counted output metatype, replaced through          *)
(*                       set_property / mpt_object_set_value                *)
(*             outremote mpt_output_remote                                  *)
(*   cxxmeta   generic  mpt++ metatype::generic (malloc + placement new,    *)
(*                      delete this) whose value is a reference<metatype>   *)
(*                      (slot 1)                                            *)
(*             valmeta  metatype::value<reference<metatype> > (new/delete,  *)
(*                      addref answers 0)                                   *)
(*             bufmeta  io::buffer::metatype::create (new/delete)           *)
(*             basic    metatype::basic::create (malloc/free, not shared)   *)
(*             sinput   io::stream::input::create (new/delete, no clone)    *)
(*                                                                         *)
(* Demanded (C15's statement on the wider structure): an object lives iff   *)
(* it is reachable from a holder (handle, plain pointer, member of a live   *)
(* object); cnt = number of holders; destroyed exactly at 0, members        *)
(* released with their owner in any order; a refused raise changes nothing; *)
(* replacing a member / a handle retains the new referent once and releases *)
(* the old one once.                                                        *)
(***************************************************************************)
EXTENDS RefCount

VARIABLES cls,    \* class of object o ("none" before it is made)
          mem     \* Tier 1: mem[o][s] = what object o refers to through its slot s (0 = nothing)
ovars == <<vars, cls, mem>>

NSlot == 2
Slots == 1..NSlot
NoMem == [s \in Slots |-> 0]

---------------------------------------------------------------------------
(* what each scenario / class offers *)
TopClasses(k) == CASE k = "loader"   -> {"lib", "proxy"}
                   [] k = "outchain" -> {"outlocal", "outremote"}
                   [] k = "cxxmeta"  -> {"generic", "bufmeta", "basic", "sinput"}
                   [] OTHER          -> {}
WrapClasses(k) == IF k = "cxxmeta" THEN {"generic", "valmeta"} ELSE {}     \* created around an existing referent
PartsOf(c)  == IF c = "proxy" THEN <<"lib", "inst">> ELSE <<>>             \* made together with the object, owned by it
OShare(c)   == c \notin {"valmeta", "basic"}                               \* addref works
OClonable(c) == c \in {"proxy", "generic", "valmeta", "bufmeta", "basic"}
GetSlots(c) == CASE c = "proxy" -> {2} [] c \in {"outlocal", "generic", "valmeta"} -> {1} [] OTHER -> {}
SetSlots(c) == IF c \in {"outlocal", "generic"} THEN {1} ELSE {}
CanHold(c, tc) == IF c = "outlocal" THEN tc \in {"outlocal", "outremote"} ELSE TRUE
ClearOK(c)  == c # "outlocal"                                              \* the member can be set to nothing
CntSeenC(c) == c \in {"lib", "proxy", "inst", "outlocal", "outremote"}     \* the driver can read / write the counter
IsMeta(c)   == c # "lib"
MetaOrNone(x) == IF x = 0 THEN TRUE ELSE cls[x] # "lib"
CreateVias(c) == IF c = "lib" THEN {"open", "bind"} ELSE {"new"}
OCopyVias   == {"attach", "raw", "cxx", "conv"}
ODropVias   == {"detach", "raw", "cxx", "conv"}
SetVias(c)  == IF c = "outlocal" THEN {"prop", "value"} ELSE {"ref"}

---------------------------------------------------------------------------
(* Tier 1: reachability through handles, plain pointers and members *)
RECURSIVE OGrow(_, _, _)
OGrow(S, mm, k) == IF k = 0 THEN S ELSE OGrow(S \cup ({mm[p][s] : p \in S, s \in Slots} \ {0}), mm, k - 1)
ORoots(hl, ex)  == {o \in Objs : (\E h \in Handles : hl[h] = o) \/ ex[o] > 0}
OLiveOf(mm, hl, ex) == OGrow(ORoots(hl, ex), mm, NObj)
ORefsOf(mm, hl, ex, L, o) == Count({h \in Handles : hl[h] = o}) + ex[o] + Count({ps \in L \X Slots : mm[ps[1]][ps[2]] = o})
NormMem(mm, hl, ex) == LET L == OLiveOf(mm, hl, ex) IN [p \in Objs |-> IF p \in L THEN mm[p] ELSE NoMem]
OLive    == OLiveOf(mem, holds, extra)
ORefs(o) == ORefsOf(mem, holds, extra, OLive, o)
OBase(o) == ORefs(o) - extra[o]                    \* references that are not plain pointers of the environment
OReaches(a, b) == a # 0 /\ b \in OGrow({a}, mem, NObj)

(* Tier 2: the counter machine; destroying an object releases every member it holds (order free) *)
OM0 == [cnt |-> cnt, alive |-> alive, mem |-> mem, gone |-> <<>>]
OCanRaise(m, o) == OShare(cls[o]) /\ m.alive[o] /\ m.cnt[o] # 0 /\ m.cnt[o] # Max
ORaise(m, o)    == [m EXCEPT !.cnt[o] = @ + 1]
RECURSIVE OLower(_, _)
OLower(m, o) ==
  IF o = 0 THEN m
  ELSE IF m.cnt[o] <= 1 \/ ~OShare(cls[o])
  THEN LET m1 == [m EXCEPT !.cnt[o] = 0, !.alive[o] = FALSE, !.gone = Append(@, o), !.mem[o] = NoMem]
       IN OLower(OLower(m1, m.mem[o][1]), m.mem[o][2])
  ELSE [m EXCEPT !.cnt[o] = @ - 1]
OSetM(m)      == cnt' = m.cnt /\ alive' = m.alive
OSetMem(cand) == mem' = NormMem(cand, holds', extra')

OAnswer(a, arg, ret, gone) ==
  LET L  == OLiveOf(mem', holds', extra')
      lv == [o \in Objs |-> o <= made' /\ o \in L]
      rf == [o \in Objs |-> ORefsOf(mem', holds', extra', L, o)]
  IN
  obs' = [a |-> a, arg |-> arg,
          exp |-> [ret   |-> ret,
                   href  |-> holds',
                   mem   |-> [o \in Objs |-> IF lv[o] THEN mem'[o] ELSE NoMem],
                   cls   |-> cls',
                   alive |-> [o \in Objs |-> Bit(lv[o])],
                   gone  |-> gone,
                   cnt   |-> [o \in Objs |-> IF lv[o] /\ CntSeenC(cls'[o]) THEN rf[o] ELSE -1],
                   badfree |-> 0,
                   \* a refused call leaves nothing behind: what it allocated on the way (a library opened for the
                   \* attempt, a half-made proxy) has no holder and must be gone again
                   dblk  |-> IF ret = "refused" THEN 0 ELSE -1,
                   quiet |-> IF \A o \in Objs : ~lv[o] THEN 0 ELSE -1]]

BaseIdle == UNCHANGED <<kind, copyh, hascopy, defer, inner, origin, tlen, snd, tries>>
OSame    == UNCHANGED <<holds, extra, made, cnt, alive, cls, mem>>

---------------------------------------------------------------------------
(* a new object of class c (with the parts it owns) for handle h.  via "bind" (mpt_library_bind) replaces *)
(* the library a symbol handle holds: the new one is opened, then the old one released once.              *)
(* how = what the environment offers: "ok", or a description / library / factory that cannot be used --   *)
(* "nolib" (library does not open), "nosym" (symbol not in the library), "emptysym" ("@lib"), "longsym"   *)
(* (symbol name of 128+ characters), "nofactory" (the constructor in the library answers nothing).  Every *)
(* one of them is a refusal: the handle keeps what it held and nothing opened for the attempt stays       *)
CreateHows(c, via) == CASE c = "lib" /\ via = "open" -> {"ok", "nolib"}
                        [] c = "lib" /\ via = "bind" -> {"ok", "nolib", "nosym", "emptysym", "longsym"}
                        [] c = "proxy"               -> {"ok", "nolib", "nosym", "emptysym", "longsym", "nofactory"}
                        [] OTHER                     -> {"ok"}
AllHows == {"ok", "nolib", "nosym", "emptysym", "longsym", "nofactory"}
OCreate(h, c, via, how) ==
  LET o   == made + 1
      np  == Len(PartsOf(c))
      old == holds[h]
      ids == [i \in 1..np |-> o + i]
      m   == OLower(OM0, old)
      arg == [h |-> h, c |-> c, via |-> via, how |-> how] IN
  /\ c \in TopClasses(kind) /\ via \in CreateVias(c) /\ how \in CreateHows(c, via) /\ BaseIdle
  /\ IF old = 0 THEN TRUE ELSE via = "bind" /\ cls[old] = "lib"
  /\ IF how # "ok"
     THEN OSame /\ OAnswer("create", arg, "refused", <<>>)
     ELSE /\ o + np <= NObj
          /\ made' = o + np
          /\ holds' = [holds EXCEPT ![h] = o]
          /\ cls' = [x \in Objs |-> IF x = o THEN c ELSE IF x > o /\ x <= o + np THEN PartsOf(c)[x - o] ELSE cls[x]]
          /\ cnt' = [x \in Objs |-> IF x >= o /\ x <= o + np THEN 1 ELSE m.cnt[x]]
          /\ alive' = [x \in Objs |-> IF x >= o /\ x <= o + np THEN TRUE ELSE m.alive[x]]
          /\ UNCHANGED extra
          /\ OSetMem([mem EXCEPT ![o] = [s \in Slots |-> IF s <= np THEN ids[s] ELSE 0]])
          /\ OAnswer("create", arg, "ok", m.gone)

(* a new holder object of class c around what handle g refers to *)
Wrap(h, c, g) ==
  LET o == made + 1  t == holds[g]  arg == [h |-> h, c |-> c, g |-> g] IN
  /\ c \in WrapClasses(kind) /\ holds[h] = 0 /\ t # 0 /\ o <= NObj /\ BaseIdle
  /\ IF (IF c = "valmeta" THEN TRUE ELSE OCanRaise(OM0, t))
     THEN LET ok == OCanRaise(OM0, t)            \* reference<T> copy of an unshareable referent ends up empty
              m  == IF ok THEN ORaise(OM0, t) ELSE OM0 IN
          /\ made' = o /\ holds' = [holds EXCEPT ![h] = o] /\ cls' = [cls EXCEPT ![o] = c]
          /\ cnt' = [m.cnt EXCEPT ![o] = 1] /\ alive' = [m.alive EXCEPT ![o] = TRUE] /\ UNCHANGED extra
          /\ OSetMem([mem EXCEPT ![o] = [s \in Slots |-> IF s = 1 /\ ok THEN t ELSE 0]])
          /\ OAnswer("wrap", arg, "ok", <<>>)
     ELSE OSame /\ OAnswer("wrap", arg, "refused", <<>>)

(* handle h := what handle g refers to *)
OCopy(h, g, via) ==
  LET t == holds[g]  o == holds[h]  arg == [h |-> h, g |-> g, via |-> via] IN
  /\ via \in OCopyVias /\ BaseIdle
  /\ (via = "attach" => t # 0 /\ cls[t] = "lib")
  /\ (via \in {"attach", "raw"} => o = 0 /\ t # 0)
  /\ (via # "attach" => MetaOrNone(t) /\ MetaOrNone(o))
  /\ IF t = o
     THEN OSame /\ OAnswer("copy", arg, "any", <<>>)
     ELSE IF t # 0 /\ ~OCanRaise(OM0, t)
     THEN IF via = "cxx"
          THEN LET m == OLower(OM0, o) IN
               /\ holds' = [holds EXCEPT ![h] = 0] /\ OSetM(m) /\ UNCHANGED <<extra, made, cls>> /\ OSetMem(mem)
               /\ OAnswer("copy", arg, "any", m.gone)
          ELSE OSame /\ OAnswer("copy", arg, "refused", <<>>)
     ELSE LET m1 == IF t = 0 THEN OM0 ELSE ORaise(OM0, t)
              m2 == OLower(m1, o) IN
          /\ holds' = [holds EXCEPT ![h] = t] /\ OSetM(m2) /\ UNCHANGED <<extra, made, cls>> /\ OSetMem(mem)
          /\ OAnswer("copy", arg, "ok", m2.gone)

(* the empty handle h takes a reference to what the object of handle g holds in slot s *)
Take(h, g, s) ==
  LET a == holds[g]  t == mem[a][s]  arg == [h |-> h, g |-> g, s |-> s] IN
  /\ holds[h] = 0 /\ a # 0 /\ s \in GetSlots(cls[a]) /\ BaseIdle
  /\ IF t = 0 THEN OSame /\ OAnswer("take", arg, "any", <<>>)
     ELSE IF OCanRaise(OM0, t)
     THEN /\ holds' = [holds EXCEPT ![h] = t] /\ OSetM(ORaise(OM0, t)) /\ UNCHANGED <<extra, made, cls>> /\ OSetMem(mem)
          /\ OAnswer("take", arg, "ok", <<>>)
     ELSE OSame /\ OAnswer("take", arg, "refused", <<>>)

(* the object of handle h replaces what it holds in slot s by what handle g refers to *)
SetMember(h, g, s, via) ==
  LET a   == holds[h]
      t0  == holds[g]
      \* a local output handed another local output takes what that one passes to (conversion to a metatype
      \* pointer yields the pass target), so two local outputs end up sharing one remote
      t   == IF t0 = 0 THEN 0 ELSE IF cls[a] = "outlocal" /\ cls[t0] = "outlocal" THEN mem[t0][1] ELSE t0
      old == mem[a][s]  arg == [h |-> h, g |-> g, s |-> s, via |-> via] IN
  /\ a # 0 /\ s \in SetSlots(cls[a]) /\ via \in SetVias(cls[a]) /\ BaseIdle
  /\ (t0 # 0 => CanHold(cls[a], cls[t0]))
  /\ (t # 0 => ~OReaches(t, a))                                         \* no cycles (never released)
  /\ IF t = 0 /\ ~ClearOK(cls[a]) THEN OSame /\ OAnswer("setmember", arg, "refused", <<>>)
     ELSE IF t = old THEN OSame /\ OAnswer("setmember", arg, "any", <<>>)
     ELSE IF t # 0 /\ ~OCanRaise(OM0, t)
     THEN IF via = "ref"                                               \* reference<T>::operator=: slot ends up empty
          THEN LET m == OLower(OM0, old) IN
               /\ OSetM(m) /\ UNCHANGED <<holds, extra, made, cls>> /\ OSetMem([mem EXCEPT ![a][s] = 0])
               /\ OAnswer("setmember", arg, "any", m.gone)
          ELSE OSame /\ OAnswer("setmember", arg, "refused", <<>>)
     ELSE LET m1 == IF t = 0 THEN OM0 ELSE ORaise(OM0, t)               \* retain the new one ...
              m2 == OLower(m1, old) IN                                  \* ... release the old one once
          /\ OSetM(m2) /\ UNCHANGED <<holds, extra, made, cls>> /\ OSetMem([mem EXCEPT ![a][s] = t])
          /\ OAnswer("setmember", arg, "ok", m2.gone)

(* handle h gives up its reference *)
ODrop(h, via) ==
  LET o == holds[h]  m == OLower(OM0, o) IN
  /\ via \in ODropVias /\ BaseIdle
  /\ (o # 0 => (via = "detach") = (cls[o] = "lib"))
  /\ holds' = [holds EXCEPT ![h] = 0] /\ OSetM(m) /\ UNCHANGED <<extra, made, cls>> /\ OSetMem(mem)
  /\ OAnswer("drop", [h |-> h, via |-> via], IF o = 0 THEN "any" ELSE "ok", m.gone)

(* metatype clone() of what h refers to into the empty handle g.  A proxy shares its library and has the   *)
(* symbol make a new instance; a generic / value metatype copies the reference it holds                    *)
(* fail = 1: the constructor in the library answers nothing (instance limit ...): refused, and like every     *)
(* refusal it changes nothing -- the source keeps its instance, the library its count                      *)
OClone(h, g, fail) ==
  LET a == holds[h]  arg == [h |-> h, g |-> g, fail |-> fail]  n == made + 1 IN
  /\ a # 0 /\ IsMeta(cls[a]) /\ holds[g] = 0 /\ BaseIdle
  /\ (fail = 1 => cls[a] = "proxy")
  /\ LET c    == cls[a]
         t    == mem[a][1]
         need == IF c = "proxy" THEN 2 ELSE 1
         can  == t = 0 \/ OCanRaise(OM0, t)
         m    == IF t # 0 /\ can THEN ORaise(OM0, t) ELSE OM0 IN
     /\ (fail = 0 => made + need <= NObj)
     /\ IF (IF fail = 1 THEN TRUE ELSE IF OClonable(c) THEN ~can /\ c # "valmeta" ELSE TRUE)
        THEN OSame /\ OAnswer("clone", arg, "refused", <<>>)
        ELSE /\ made' = made + need
             /\ holds' = [holds EXCEPT ![g] = n]
             /\ cls' = [x \in Objs |-> IF x = n THEN c ELSE IF c = "proxy" /\ x = n + 1 THEN "inst" ELSE cls[x]]
             /\ cnt' = [x \in Objs |-> IF x = n \/ (c = "proxy" /\ x = n + 1) THEN 1 ELSE m.cnt[x]]
             /\ alive' = [x \in Objs |-> IF x = n \/ (c = "proxy" /\ x = n + 1) THEN TRUE ELSE m.alive[x]]
             /\ UNCHANGED extra
             /\ OSetMem([mem EXCEPT ![n] = [s \in Slots |-> IF s = 1 /\ can THEN t
                                                        ELSE IF s = 2 /\ c = "proxy" THEN n + 1 ELSE 0]])
             /\ OAnswer("clone", arg, "ok", <<>>)

(* addref / unref through the object's own interface (library: attach / detach on a plain pointer) *)
ORawRef(o) ==
  /\ o <= made /\ alive[o] /\ extra[o] < MaxExtra /\ BaseIdle
  /\ IF OCanRaise(OM0, o)
     THEN /\ extra' = [extra EXCEPT ![o] = @ + 1] /\ OSetM(ORaise(OM0, o)) /\ UNCHANGED <<holds, made, cls>> /\ OSetMem(mem)
          /\ OAnswer("rawref", [o |-> o], "ok", <<>>)
     ELSE OSame /\ OAnswer("rawref", [o |-> o], "refused", <<>>)
ORawUnref(o) ==
  LET m == OLower(OM0, o) IN
  /\ o <= made /\ extra[o] > 0 /\ BaseIdle
  /\ extra' = [extra EXCEPT ![o] = @ - 1] /\ OSetM(m) /\ UNCHANGED <<holds, made, cls>> /\ OSetMem(mem)
  /\ OAnswer("rawunref", [o |-> o], "ok", m.gone)

(* write the counter: everything above the share of handles and members is held by the environment *)
OPoke(o, v) ==
  /\ o <= made /\ alive[o] /\ CntSeenC(cls[o]) /\ BaseIdle
  /\ v >= OBase(o) /\ v >= 1 /\ v <= Max
  /\ extra' = [extra EXCEPT ![o] = v - OBase(o)]
  /\ cnt' = [cnt EXCEPT ![o] = v]
  /\ UNCHANGED <<holds, made, alive, cls>> /\ OSetMem(mem)
  /\ OAnswer("poke", [o |-> o, v |-> v], "ok", <<>>)
OPokeVals(o) == {Max - 1, Max} \cup (IF OBase(o) >= 1 THEN {OBase(o)} ELSE {})

(* everything is released: all handles and plain pointers; whatever the history was, every object goes *)
OCanTeardown(c) == \A o \in Objs : c[o] <= Max \div 2
OTeardownExp(a, cl) ==
  [ret |-> "ok", href |-> [h \in Handles |-> 0], mem |-> [o \in Objs |-> NoMem], cls |-> cl,
   alive |-> [o \in Objs |-> 0], gone |-> AliveSeq(a, 1), cnt |-> [o \in Objs |-> -1], badfree |-> 0, dblk |-> -1, quiet |-> 0]
OTeardown ==
  /\ OCanTeardown(cnt) /\ BaseIdle
  /\ holds' = [h \in Handles |-> 0] /\ extra' = [o \in Objs |-> 0] /\ mem' = [o \in Objs |-> NoMem]
  /\ cnt' = [o \in Objs |-> 0] /\ alive' = [o \in Objs |-> FALSE] /\ UNCHANGED <<made, cls>>
  /\ obs' = [a |-> "teardown", arg |-> [x |-> 0], exp |-> OTeardownExp(alive, cls)]

---------------------------------------------------------------------------
OInitKind(k) ==
  /\ kind = k /\ tlen = 0
  /\ holds = [h \in Handles |-> 0] /\ copyh = [h \in Handles |-> 0] /\ hascopy = FALSE
  /\ extra = [o \in Objs |-> 0] /\ defer = [o \in Objs |-> 0] /\ made = 0
  /\ inner = [o \in Objs |-> 0] /\ origin = [o \in Objs |-> 0]
  /\ cnt = [o \in Objs |-> 0] /\ alive = [o \in Objs |-> FALSE]
  /\ snd = [o \in Objs |-> TRUE] /\ tries = [o \in Objs |-> 0]
  /\ cls = [o \in Objs |-> "none"] /\ mem = [o \in Objs |-> NoMem]
  /\ obs = [a |-> "init", arg |-> [kind |-> k, nh |-> NH, nobj |-> NObj, max |-> Max],
            exp |-> OTeardownExp([o \in Objs |-> FALSE], [o \in Objs |-> "none"])]
OInit == \E k \in Kinds : OInitKind(k)

AllClasses == {"lib", "proxy", "inst", "outlocal", "outremote", "generic", "valmeta", "bufmeta", "basic", "sinput"}

ONext ==
  \/ \E h \in Handles, c \in TopClasses(kind), via \in {"open", "bind", "new"}, how \in AllHows : OCreate(h, c, via, how)
  \/ \E h \in Handles, g \in Handles, c \in WrapClasses(kind) : Wrap(h, c, g)
  \/ \E h \in Handles, g \in Handles, via \in OCopyVias : OCopy(h, g, via)
  \/ \E h \in Handles, g \in Handles, s \in Slots : Take(h, g, s)
  \/ \E h \in Handles, g \in Handles, s \in Slots, via \in {"prop", "value", "ref"} : SetMember(h, g, s, via)
  \/ \E h \in Handles, via \in ODropVias : ODrop(h, via)
  \/ \E h \in Handles, g \in Handles, fail \in {0, 1} : OClone(h, g, fail)
  \/ \E o \in Objs : ORawRef(o) \/ ORawUnref(o)
  \/ \E o \in Objs : \E v \in OPokeVals(o) : OPoke(o, v)
  \/ OTeardown

OSpec == OInit /\ [][ONext]_ovars

---------------------------------------------------------------------------
(* invariants *)
OTypeOK ==
  /\ kind \in Kinds /\ made \in 0..NObj
  /\ \A h \in Handles : holds[h] \in 0..made
  /\ \A o \in Objs : cls[o] \in AllClasses \cup {"none"} /\ (cls[o] = "none") = (o > made)
  /\ \A o \in Objs, s \in Slots : mem[o][s] \in 0..made
  /\ \A o \in Objs : cnt[o] \in 0..Max /\ extra[o] \in 0..Max
(* the object lives exactly as long as it is reachable from a holder *)
AliveIffReachable == \A o \in Objs : alive[o] <=> (o <= made /\ o \in OLive)
(* the counter equals the number of holders (handles, plain pointers, members of live objects); never beyond Max *)
OCountExact == \A o \in Objs : alive[o] => (IF OShare(cls[o]) THEN cnt[o] = ORefs(o) ELSE ORefs(o) = 1 /\ cnt[o] = 1)
(* nobody refers to an object that has been destroyed; a destroyed object holds nothing *)
ONoDangling == /\ \A h \in Handles : holds[h] # 0 => alive[holds[h]]
               /\ \A o \in Objs, s \in Slots : mem[o][s] # 0 => (alive[o] /\ alive[mem[o][s]])
               /\ \A o \in Objs : extra[o] > 0 => alive[o]
(* what the check compares (computed from Tier 1) agrees with Tier 2 *)
OObsAgrees == /\ \A o \in Objs : obs.exp.alive[o] = Bit(alive[o])
              /\ \A o \in Objs : obs.exp.cnt[o] = (IF alive[o] /\ CntSeenC(cls[o]) THEN cnt[o] ELSE -1)
(* a proxy always owns a library and an instance of its own *)
ProxyComplete == \A o \in Objs : (alive[o] /\ cls[o] = "proxy") =>
                    /\ mem[o][1] # 0 /\ cls[mem[o][1]] = "lib" /\ mem[o][2] # 0 /\ cls[mem[o][2]] = "inst"
                    /\ \A p \in Objs : (p # o /\ alive[p]) => mem[p][2] # mem[o][2]

(* action properties *)
ORefusedUnchanged == [][obs'.exp.ret = "refused" => UNCHANGED <<holds, extra, made, cnt, alive, cls, mem>>]_ovars
ODestroyedOnce    == [][\A o \in Objs : (alive[o] /\ ~alive'[o]) <=> (\E i \in 1..Len(obs'.exp.gone) : obs'.exp.gone[i] = o)]_ovars
ONoResurrection   == [][\A o \in Objs : (o <= made /\ ~alive[o]) => ~alive'[o]]_ovars
(* replacing a member: the old referent is released once, the new one retained once *)
MemberReplacedOnce == [][(obs'.a = "setmember" /\ obs'.exp.ret = "ok") =>
                           LET a == holds[obs'.arg.h]  t == mem'[a][obs'.arg.s]  old == mem[a][obs'.arg.s] IN
                           /\ (t # 0 /\ ~OReaches(old, t) => cnt'[t] = cnt[t] + 1)
                           /\ (old # 0 /\ ~OReaches(t, old) => cnt'[old] = cnt[old] - 1)
                           /\ alive'[a] /\ (t # 0 => alive'[t])]_ovars
HandleReplacedOnce == [][(obs'.a = "copy" /\ obs'.exp.ret = "ok" /\ holds[obs'.arg.h] # holds[obs'.arg.g]) =>
                           LET t == holds[obs'.arg.g]  o == holds[obs'.arg.h] IN
                           /\ (t # 0 /\ ~OReaches(o, t) => cnt'[t] = cnt[t] + 1)
                           /\ (o # 0 /\ ~OReaches(t, o) => cnt'[o] = cnt[o] - 1 \/ (~OShare(cls[o]) /\ cnt'[o] = 0))
                           /\ (t # 0 => alive'[t])]_ovars
(* bind: the library the symbol handle held before is released exactly once *)
BindReleasesOld == [][(obs'.a = "create" /\ obs'.arg.via = "bind" /\ obs'.exp.ret = "ok" /\ holds[obs'.arg.h] # 0) =>
                        cnt'[holds[obs'.arg.h]] = cnt[holds[obs'.arg.h]] - 1]_ovars
OTeardownClears == [][obs'.a = "teardown" => \A o \in Objs : ~alive'[o]]_ovars
=============================================================================
