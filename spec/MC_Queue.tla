------------------------------ MODULE MC_Queue ------------------------------
(* Exhaustive configuration of Queue: full state, small constants.        *)
EXTENDS Queue
CONSTANT CtrMax
Bound == ctr <= CtrMax /\ max <= MaxCap
View  == <<store, max, off, len, deq, ctr>>     \* obs is an observation, not state
=============================================================================
