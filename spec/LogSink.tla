------------------------------ MODULE LogSink ------------------------------
(* X25 (extension of C17): the sinks that receive a message in pieces      *)
(* through repeated push(len, data) calls.                                  *)
(*                                                                          *)
(* C17: "every operation on a message given as a list of fragments gives    *)
(* the same result as the same operation on the single contiguous byte      *)
(* string, for every way of cutting that string".  Here the operation is    *)
(* "hand the message to a sink" (mpt_logfile_push, mpt_history_push, the    *)
(* output of mpt_output_local; producer mpt_output_vlog) and the fragments  *)
(* are the pieces of the push calls.                                        *)
(*                                                                          *)
(* Tier 1 (meaning): the bytes the sink has taken of the message in         *)
(*   progress (cur) and, as a function of the finished message ALONE,       *)
(*   what the sink writes to its streams (Render) / what it refuses         *)
(*   (Verdict).  Finished messages leave the sink idle, so the content of   *)
(*   the files is the concatenation of Render over the list of finished     *)
(*   messages (IdleClean + the delta observation at every end).             *)
(* Tier 2 (design): the push state machine of logfile_push.c /              *)
(*   history_push.c / output_local.c: flags Active, target, Restore,        *)
(*   Remote, the mode byte (rich text / previous segment / function / part  *)
(*   of the element), the header bytes assembled from the first pieces.     *)
(*                                                                          *)
(* The pusher (environment) follows the convention of the library's own     *)
(* producers (mpt_output_values, output_bind_*.c): push answers how much    *)
(* it took, the rest is offered again at once; "missing data" = nothing     *)
(* taken, offered again in front of the next piece; push(0,0) ends the      *)
(* message, push(1,0) abandons it; an empty piece is no call (a call with   *)
(* length 0 IS the end).                                                    *)
EXTENDS Naturals, Integers, Sequences, FiniteSets, TLC

CONSTANTS
  Configs,     \* sink configurations [kind, file, ignore, color, pass, tty]
  Heads,       \* message heads (byte sequences, normally <<cmd, arg>>)
  TextBytes,   \* alphabet of the bytes behind the head
  MaxText,     \* bound of their number
  Levels,      \* property assignments [name, usenum, num, val]
  Calls,       \* logger / vlog calls [from, hasfrom, type, text, hastext]
  Ops,         \* subset of {"abort", "set", "log", "vlog"}
  LogMax,      \* MPT_OUTPUT_LOGMSG_MAX of mpt_output_vlog
  AsFound      \* defects of the code as found that the design shall show

VARIABLES cfg, snk, wr, todo, held, cur, lvl0, obs, des

vars == <<cfg, snk, wr, todo, held, cur, lvl0, obs, des>>

\* ---------------------------------------------------------------- bytes
Bit(x, b) == (x \div b) % 2 = 1
RECURSIVE DecP(_)
DecP(n) == IF n < 10 THEN <<48 + n>> ELSE DecP(n \div 10) \o <<48 + (n % 10)>>
Dec(n) == IF n < 0 THEN <<45>> \o DecP(0 - n) ELSE DecP(n)
Signed(b) == IF b >= 128 THEN b - 256 ELSE b
Upper(s) == [i \in DOMAIN s |-> s[i] - 32]
Drop2(s) == SubSeq(s, 3, Len(s))
First(s, n) == SubSeq(s, 1, n)
After(s, n) == SubSeq(s, n + 1, Len(s))

NL    == <<10>>
ELL   == <<226, 128, 166>>           \* "..." (U+2026) for a message that ends inside an element
RESET == <<27, 91, 48, 109>>
Sgr(a, b) == <<27, 91, a, b, 109>>
BOLD  == <<27, 91, 49, 109>>
CS    == <<58, 32>>                  \* ": "
PAR   == <<40, 41>>                  \* "()"
HASH  == <<35, 32>>                  \* "# "

S_debug    == <<100, 101, 98, 117, 103>>
S_info     == <<105, 110, 102, 111>>
S_warning  == <<119, 97, 114, 110, 105, 110, 103>>
S_error    == <<101, 114, 114, 111, 114>>
S_critical == <<99, 114, 105, 116, 105, 99, 97, 108>>
S_fatal    == <<102, 97, 116, 97, 108>>

\* mpt_log_identifier
Ident(t) ==
  LET l == t % 32
      n == IF l >= 16 THEN S_debug ELSE IF l >= 8 THEN S_info ELSE IF l >= 4 THEN S_warning
           ELSE IF l = 3 THEN S_error ELSE IF l = 2 THEN S_critical ELSE IF l = 1 THEN S_fatal ELSE <<>>
  IN IF Bit(t, 32) THEN Upper(n) ELSE n
\* mpt_ansi_code (argument without the File bit)
AnsiCode(t) ==
  IF t = 0 THEN BOLD ELSE IF t >= 16 THEN Sgr(51, 50) ELSE IF t >= 8 THEN Sgr(51, 52)
  ELSE IF t >= 4 THEN Sgr(51, 51) ELSE IF t >= 3 THEN Sgr(51, 53) ELSE Sgr(51, 49)
\* mpt_output_flags: 1 = stdout, 2 = stderr, 3 = log file, 0 = not printed
OutFlags(t, ign) ==
  IF t = 0 THEN 1 ELSE IF Bit(t, 32) THEN 3 ELSE IF ign # 0 /\ t >= ign THEN 0 ELSE 2

\* ---------------------------------------------------------------- streams
EmptyW == [out |-> <<>>, err |-> <<>>, file |-> <<>>, pass |-> <<>>, passend |-> 0]
FileStream(c) == IF c.file = "stdout" THEN "out" ELSE "file"
StreamOf(c, tgt) ==
  IF tgt = 1 THEN "out" ELSE IF tgt = 2 THEN "err"
  ELSE IF tgt = 3 THEN (IF c.file = "none" THEN "err" ELSE FileStream(c)) ELSE "none"
StreamTty(c, st) == c.tty = 1 /\ (st \in {"out", "err"} \/ (st = "file" /\ c.file = "mem"))
Deco(c, tgt) == c.color = 1 /\ StreamTty(c, StreamOf(c, tgt))
Put(c, w, tgt, bytes) ==
  LET st == StreamOf(c, tgt) IN IF st = "none" THEN w ELSE [w EXCEPT ![st] = @ \o bytes]

\* ---------------------------------------------------------------- the message
LogCmds == {0, 1}                      \* MPT_MESGTYPE(Output), MPT_MESGTYPE(Answer)
ValCmd  == 9                           \* MPT_MESGTYPE(ValueFmt): values for the data file of a history
RawCmd  == 8                           \* MPT_MESGTYPE(ValueRaw): values behind a value source head (dimension, format)
I8      == 224                         \* format of a signed byte (the only element format modelled here; x17 has the others)
MType(m) == IF m[1] = 0 THEN m[2] % 128
            ELSE IF m[2] >= 128 THEN 3 ELSE IF m[2] # 0 THEN 8 ELSE 16
IsRich(m) == m[1] = 0 /\ m[2] >= 128
\* target of a log message: flags with the fallback of a missing file
Tgt(c, ign, m) ==
  LET f == OutFlags(MType(m), ign) IN IF f = 3 /\ c.file = "none" THEN 2 ELSE f
Marker(c, ign, m) ==
  LET f == OutFlags(MType(m), ign) IN
  IF c.file = "none" \/ f = 3 \/ (c.file = "stdout" /\ f = 1) THEN HASH ELSE <<>>
Intro(m, deco) ==
  LET t   == MType(m)
      pre == IF deco THEN AnsiCode(IF Bit(t, 32) THEN t - 32 ELSE t) ELSE <<>>
      rst == IF deco THEN RESET ELSE <<>>
  IN IF m[1] = 1
     THEN pre \o <<64>> \o (IF m[2] # 0 THEN <<91>> \o Dec(Signed(m[2])) \o <<93>> \o CS ELSE CS) \o rst
     ELSE IF Ident(t) # <<>> THEN pre \o <<91>> \o Ident(t) \o <<93, 32>> \o rst
     ELSE <<>>

\* rich text: one byte of the element state machine.
\* st = [o, seg, fn, low, rst]: output, previous segment / function name / part of the element, restore pending
RichPost(st, vseg, vfn, prefix) ==
  LET o1 == st.o \o (IF vfn THEN PAR ELSE <<>>)
      o2 == o1 \o (IF st.rst THEN RESET ELSE <<>>)
      o3 == o2 \o (IF vseg THEN CS ELSE <<>>)
  IN [st EXCEPT !.o = o3 \o prefix, !.rst = prefix # <<>>]
RichStep(st, b, deco) ==
  CASE b = 0 -> [st EXCEPT !.o = @ \o CS]
    [] b = 1 -> RichPost([st EXCEPT !.seg = TRUE, !.fn = TRUE, !.low = 1], st.seg, st.fn, IF deco THEN BOLD ELSE <<>>)
    [] b = 2 -> RichPost([st EXCEPT !.seg = TRUE, !.fn = FALSE, !.low = 2], st.seg, st.fn, <<>>)
    [] b \in {3, 4} -> RichPost([st EXCEPT !.seg = TRUE, !.fn = FALSE, !.low = 0], FALSE, FALSE, <<>>)
    [] OTHER -> [st EXCEPT !.o = @ \o <<b>>, !.seg = TRUE]
RECURSIVE RichFold(_, _, _, _)
RichFold(st, txt, i, deco) ==
  IF i > Len(txt) THEN st ELSE RichFold(RichStep(st, txt[i], deco), txt, i + 1, deco)
LineEnd(rich, low, rst) ==
  (IF rich /\ low # 0 THEN ELL ELSE <<>>) \o (IF rst THEN RESET ELSE <<>>) \o NL

\* ---------------------------------------------------------------- Tier 1
\* the line of a log message, from the message alone
Line(c, ign, m) ==
  LET tgt  == Tgt(c, ign, m)
      deco == Deco(c, tgt)
      txt  == Drop2(m)
      st0  == [o |-> <<>>, seg |-> FALSE, fn |-> FALSE, low |-> m[2] % 16, rst |-> FALSE]
      st   == RichFold(st0, txt, 1, deco)
  IN IF IsRich(m) THEN Marker(c, ign, m) \o Intro(m, deco) \o st.o \o LineEnd(TRUE, st.low, st.rst)
     ELSE Marker(c, ign, m) \o Intro(m, deco) \o txt \o NL
\* the rows of a value message in the data file, from the message alone (elements: signed bytes).
\*  format list (9, k > 0, k formats, values): rows of k values; no value (list complete or not): an empty row
\*  inline      (9, 0, (format, value)*):      one row
\*  raw         (8, arg, dimension, format, values): one row
Num(b) == Dec(Signed(b))
RECURSIVE RowText(_, _)                  \* values of one row, separated by a space
RowText(v, i) == IF i > Len(v) THEN <<>> ELSE (IF i > 1 THEN <<32>> ELSE <<>>) \o Num(v[i]) \o RowText(v, i + 1)
RECURSIVE RowsOf(_, _)                   \* rows of k values, the last may be shorter
RowsOf(v, k) == IF v = <<>> THEN <<>>
                ELSE IF Len(v) <= k THEN RowText(v, 1) \o NL
                ELSE RowText(First(v, k), 1) \o NL \o RowsOf(After(v, k), k)
EvenOf(v) == [i \in 1..(Len(v) \div 2) |-> v[2 * i]]
ValueRows(m) ==
  IF m[1] = RawCmd THEN (IF Len(m) > 4 THEN RowText(After(m, 4), 1) \o NL ELSE <<>>)
  ELSE IF Len(m) < 2 THEN <<>>
  ELSE IF m[2] = 0 THEN (IF Len(m) >= 4 THEN RowText(EvenOf(After(m, 2)), 1) \o NL ELSE <<>>)
  ELSE IF Len(m) <= 2 + m[2] THEN NL          \* the list counts as a begun row until a value arrives
  ELSE RowsOf(After(m, 2 + m[2]), m[2])
\* where a message goes: decided by its head
Route(c, m) ==
  IF m[1] \in LogCmds THEN "log"
  ELSE IF m[1] = ValCmd /\ c.kind # "logfile" THEN "values"
  ELSE IF m[1] = RawCmd /\ c.kind # "logfile" /\ Len(m) >= 4 /\ m[4] # 0 THEN "values"
  ELSE IF c.kind = "local" /\ c.pass = 1 THEN "remote" ELSE "refused"
\* what a finished (or abandoned) message leaves behind
Render(c, ign, m, ended) ==
  CASE Route(c, m) = "log" ->
         [Put(c, EmptyW, Tgt(c, ign, m), Line(c, ign, m)) EXCEPT !.pass = <<>>]
    [] Route(c, m) = "values" -> Put(c, EmptyW, 3, ValueRows(m))
    [] Route(c, m) = "remote" -> [EmptyW EXCEPT !.pass = m, !.passend = IF ended THEN 1 ELSE 0]
    [] OTHER -> EmptyW
\* what a push of the bytes o answers when c0 has been taken before
Verdict(c, c0, o) ==
  LET f == c0 \o o IN
  IF c0 # <<>> THEN [ret |-> "ok", taken |-> Len(o)]
  ELSE IF f[1] = ValCmd /\ c.kind # "logfile" THEN [ret |-> "ok", taken |-> Len(o)]
  ELSE IF f[1] = RawCmd /\ c.kind # "logfile" /\ Len(f) < 4 THEN [ret |-> "missing", taken |-> 0]
  ELSE IF Len(f) < 2 THEN [ret |-> "missing", taken |-> 0]
  ELSE IF Route(c, f) = "refused" THEN [ret |-> "refused", taken |-> 0]
  ELSE [ret |-> "ok", taken |-> Len(o)]

\* mpt_output_vlog: the message a log call stands for
VHead(cl) ==
  <<0, (cl.type % 128) + (IF cl.hasfrom = 1 THEN 128 ELSE 0)>>
  \o (IF cl.hasfrom = 1 /\ Bit(cl.type, 2048) THEN <<1>> ELSE <<>>)
VRoom(cl) == LogMax - (Len(VHead(cl)) + (IF cl.hasfrom = 1 THEN Len(cl.from) + 1 ELSE 0))
VFits(cl) == cl.hasfrom = 0 \/ Len(cl.from) < (LogMax - 2) - Len(VHead(cl))
VText(cl) == IF Len(cl.text) >= VRoom(cl) THEN First(cl.text, VRoom(cl) - 1)
             ELSE cl.text \o (IF cl.hasfrom = 1 THEN <<3>> ELSE <<>>)
VPieces(cl) ==
  <<VHead(cl)>> \o (IF cl.hasfrom = 1 /\ cl.from # <<>> THEN <<cl.from>> ELSE <<>>)
  \o (IF cl.hastext = 0 THEN (IF cl.hasfrom = 1 THEN << <<4>> >> ELSE <<>>)
      ELSE (IF cl.hasfrom = 1 THEN << <<2>> >> ELSE <<>>)
           \o (LET t == VText(cl) \o (IF "vlognul" \in AsFound /\ Len(cl.text) >= VRoom(cl) THEN <<0>> ELSE <<>>)
               IN IF t = <<>> /\ "vlogempty" \notin AsFound THEN <<>> ELSE <<t>>))
RECURSIVE Flat(_)
Flat(ps) == IF ps = <<>> THEN <<>> ELSE ps[1] \o Flat(SubSeq(ps, 2, Len(ps)))
VMsg(cl) ==
  VHead(cl) \o (IF cl.hasfrom = 1 THEN cl.from ELSE <<>>)
  \o (IF cl.hastext = 0 THEN (IF cl.hasfrom = 1 THEN <<4>> ELSE <<>>)
      ELSE (IF cl.hasfrom = 1 THEN <<2>> ELSE <<>>) \o VText(cl))

\* a logger call (mpt_logfile_log / default logger), calibrated; tty decoration not modelled
LogText(cl, prefixed, ident) ==
  (IF prefixed THEN (IF ident # <<>> THEN <<91>> \o ident \o <<93, 32>> ELSE HASH) ELSE <<>>)
  \o (IF cl.hasfrom = 1 THEN cl.from \o (IF Bit(cl.type, 2048) THEN PAR ELSE <<>>) \o CS ELSE <<>>)
  \o (IF cl.hastext = 1 THEN cl.text ELSE <<>>) \o NL
LogRender(c, ign, cl, busy) ==
  LET lv == cl.type % 32 IN
  IF busy /\ c.kind = "local"
  THEN \* default logger: skips from "info", always prefixed
       IF cl.type % 64 >= 8 THEN [ret |-> "ok", w |-> EmptyW]
       ELSE [ret |-> "ok", w |-> [EmptyW EXCEPT ![IF cl.type % 256 # 0 THEN "err" ELSE "out"] =
                                   LogText(cl, TRUE, Ident(cl.type % 64))]]
  ELSE IF ign # 0 /\ lv >= ign THEN [ret |-> "ok", w |-> EmptyW]
  ELSE IF busy THEN [ret |-> "refused", w |-> EmptyW]
  ELSE IF Bit(cl.type, 32) /\ c.file # "none"
       THEN [ret |-> "ok", w |-> [EmptyW EXCEPT ![FileStream(c)] = LogText(cl, Bit(cl.type, 256), Ident(cl.type % 64))]]
  ELSE LET noFile == IF Bit(cl.type, 32) THEN cl.type - 32 ELSE cl.type
           pre    == Bit(cl.type, 256) \/ c.color = 1
       IN [ret |-> "ok", w |-> [EmptyW EXCEPT ![IF noFile # 0 THEN "err" ELSE "out"] =
                                  LogText(cl, pre, Ident(cl.type % 64))]]

\* ---------------------------------------------------------------- Tier 2
\* snk = [active, tgt, rst, remote, vals, rich, seg, fn, low, ignore] + the value decoder of a history:
\*   vneed (-1: count byte expected, n > 0: formats to collect, 0: data), vk (columns of the format list),
\*   vpos (histfmt.pos), vinl (inline formats: mode & 0x80), vfmt (histfmt.fmt: inline format byte seen / list closed)
Snk0(ign) == [active |-> FALSE, tgt |-> 0, rst |-> FALSE, remote |-> FALSE, vals |-> FALSE,
              rich |-> FALSE, seg |-> FALSE, fn |-> FALSE, low |-> 0, ignore |-> ign,
              vneed |-> 0, vk |-> 0, vpos |-> 0, vinl |-> FALSE, vfmt |-> FALSE]
Idle(s) == [s EXCEPT !.active = FALSE, !.tgt = 0, !.rst = FALSE, !.vals = FALSE,
                     !.rich = FALSE, !.seg = FALSE, !.fn = FALSE, !.low = 0,
                     !.vneed = 0, !.vk = 0, !.vpos = 0, !.vinl = FALSE, !.vfmt = FALSE]
Res(s, w, r) == [s |-> s, w |-> w, r |-> r]

\* mpt_logfile_push, message active, data
LfText(c, s, w, o) ==
  IF s.tgt = 0 THEN Res(s, w, Len(o))
  ELSE IF ~s.rich THEN Res(s, Put(c, w, s.tgt, o), IF "fwrite" \in AsFound THEN 1 ELSE Len(o))
  ELSE LET st == RichFold([o |-> <<>>, seg |-> s.seg, fn |-> s.fn, low |-> s.low, rst |-> s.rst], o, 1, Deco(c, s.tgt))
       IN Res([s EXCEPT !.seg = st.seg, !.fn = st.fn, !.low = st.low, !.rst = st.rst], Put(c, w, s.tgt, st.o), Len(o))
LfEnd(c, s, w) ==
  Res(IF "endrst" \in AsFound /\ s.tgt = 0 /\ s.rst THEN [Idle(s) EXCEPT !.rst = TRUE] ELSE Idle(s),
      IF s.tgt = 0 THEN w ELSE Put(c, w, s.tgt, LineEnd(s.rich, s.low, s.rst)), 0)
\* first data of a message: the head
LfHead(c, s, w, o) ==
  IF Len(o) < 2 THEN Res(s, w, -16)
  ELSE IF o[1] \notin LogCmds THEN Res(s, w, -3)
  ELSE LET f == OutFlags(MType(o), s.ignore) IN
       IF f = 0 THEN Res([Idle(s) EXCEPT !.active = TRUE, !.rst = TRUE], w, Len(o))
       ELSE LET tgt == Tgt(c, s.ignore, o)
                s1  == [Idle(s) EXCEPT !.active = TRUE, !.tgt = tgt, !.rich = IsRich(o),
                                       !.low = IF o[1] = 0 THEN o[2] % 16 ELSE 0]
                w1  == Put(c, w, tgt, Marker(c, s.ignore, o) \o Intro(o, Deco(c, tgt)))
            IN IF Len(o) > 2 THEN LET d == LfText(c, s1, w1, Drop2(o)) IN Res(d.s, d.w, Len(o))
               ELSE Res(s1, w1, Len(o))
\* call \in {"data", "end", "abort"}
LfPush(c, s, w, o, call) ==
  IF s.active
  THEN IF s.tgt = 0 /\ ~s.rst THEN Res(s, w, -1)
       ELSE IF call = "end" THEN LfEnd(c, s, w)
       ELSE IF call = "abort" THEN (IF "abort" \in AsFound THEN Res(s, w, -16) ELSE LfEnd(c, s, w))
       ELSE LfText(c, s, w, o)
  ELSE IF call # "data" THEN Res(s, w, -1)
       ELSE LfHead(c, s, w, o)

\* mpt_history_values: one byte of a value message (elements are signed bytes: every byte completes something).
\* st = [s, o]: sink state and the text for the data file
ValStep(st, b) ==
  LET s == st.s IN
  IF s.vneed = -1
  THEN IF b = 0 THEN [st EXCEPT !.s = [s EXCEPT !.vneed = 0, !.vinl = TRUE]]
       ELSE [st EXCEPT !.s = [s EXCEPT !.vneed = b, !.vk = b, !.vpos = b]]
  ELSE IF s.vneed > 0
  THEN [st EXCEPT !.s = [s EXCEPT !.vneed = @ - 1]]
  ELSE IF s.vinl /\ ~s.vfmt THEN [st EXCEPT !.s = [s EXCEPT !.vfmt = TRUE]]
  ELSE LET first == s.vk > 0 /\ ~s.vfmt        \* the list is closed (position back to 0) when the first value is there
           brk   == s.vk > 0 /\ s.vfmt /\ s.vpos >= s.vk
           pos   == IF first \/ brk THEN 0 ELSE s.vpos
       IN [s |-> [s EXCEPT !.vpos = pos + 1, !.vfmt = (s.vk > 0)],
           o |-> st.o \o (IF brk THEN NL ELSE <<>>) \o (IF pos # 0 THEN <<32>> ELSE <<>>) \o Num(b)]
RECURSIVE ValFold(_, _, _)
ValFold(st, v, i) == IF i > Len(v) THEN st ELSE ValFold(ValStep(st, v[i]), v, i + 1)
HsValues(c, s, w, v, r) ==
  LET st == ValFold([s |-> s, o |-> <<>>], v, 1) IN Res(st.s, Put(c, w, 3, st.o), r)
HsValEnd(c, s, w) == Res(Idle(s), IF s.vpos # 0 THEN Put(c, w, 3, NL) ELSE w, 0)
\* mpt_history_push: log messages to the log file, value messages to the rows of the data file
HsPush(c, s, w, o, call) ==
  IF s.active
  THEN IF s.tgt # 0 \/ s.rst THEN LfPush(c, s, w, o, call)
       ELSE IF call = "data" THEN HsValues(c, s, w, o, Len(o))
       ELSE IF call = "end" THEN HsValEnd(c, s, w)
       ELSE IF "habort" \in AsFound THEN Res(s, w, -4) ELSE HsValEnd(c, s, w)
  ELSE IF call = "end" THEN Res(s, Put(c, w, IF c.file = "none" THEN 0 ELSE 3, NL), 0)
       ELSE IF call = "data" /\ o[1] = ValCmd
       THEN HsValues(c, [s EXCEPT !.active = TRUE, !.vals = TRUE, !.vneed = -1], w, After(o, 1), Len(o))
       ELSE IF call = "data" /\ o[1] = RawCmd
       THEN IF Len(o) < 4 THEN Res(s, w, -16)
            ELSE IF o[4] = 0 THEN Res(s, w, -2)
            ELSE HsValues(c, [s EXCEPT !.active = TRUE, !.vals = TRUE], w,
                          IF "rawhead" \in AsFound THEN SubSeq(o, 3, Len(o) - 2) ELSE After(o, 4), Len(o))
       ELSE LfPush(c, s, w, o, call)

\* output of mpt_output_local: what the history refuses goes to the next output
PassPush(s, w, o, call) ==
  IF call = "data" THEN Res(s, [w EXCEPT !.pass = @ \o o], Len(o))
  ELSE IF call = "end" THEN Res(s, [w EXCEPT !.passend = @ + 1], 0)
  ELSE Res(s, w, 0)
LoPush(c, s, w, o, call) ==
  IF s.remote
  THEN LET p == PassPush(s, w, o, call) IN
       Res([p.s EXCEPT !.remote = IF call = "end" \/ (call = "abort" /\ "rabort" \notin AsFound) THEN FALSE ELSE TRUE], p.w, p.r)
  ELSE LET h == HsPush(c, s, w, o, call) IN
       IF h.r < 0 /\ ~h.s.active /\ (h.r # -16 \/ "lmissing" \in AsFound)
       THEN IF c.pass = 1
            THEN LET p == PassPush(h.s, h.w, o, call) IN Res([p.s EXCEPT !.remote = (call = "data")], p.w, p.r)
            ELSE Res(h.s, h.w, -3)
       ELSE h

SinkPush(c, s, w, o, call) ==
  IF c.kind = "logfile" THEN LfPush(c, s, w, o, call)
  ELSE IF c.kind = "history" THEN HsPush(c, s, w, o, call)
  ELSE LoPush(c, s, w, o, call)

\* the pusher: offers, offers the rest again while the sink takes a part
RECURSIVE Offer(_, _, _, _, _)
Offer(c, s, w, o, taken) ==
  LET d == SinkPush(c, s, w, After(o, taken), "data") IN
  IF d.r < 0 THEN [s |-> d.s, w |-> d.w, taken |-> taken, ret |-> IF d.r = -16 THEN "missing" ELSE "refused"]
  ELSE IF d.r = 0 THEN [s |-> d.s, w |-> d.w, taken |-> taken, ret |-> "stalled"]
  ELSE IF d.r > Len(o) - taken THEN [s |-> d.s, w |-> d.w, taken |-> taken, ret |-> "overrun"]
  ELSE IF taken + d.r = Len(o) THEN [s |-> d.s, w |-> d.w, taken |-> Len(o), ret |-> "ok"]
  ELSE Offer(c, d.s, d.w, o, taken + d.r)

\* mpt_output_vlog: pieces pushed without looking at the answers (but the first)
RECURSIVE VPush(_, _, _, _, _)
VPush(c, s, w, ps, i) ==
  IF i > Len(ps) THEN SinkPush(c, s, w, <<>>, "end")
  ELSE LET d == SinkPush(c, s, w, ps[i], IF ps[i] = <<>> THEN "end" ELSE "data") IN
       IF i = 1 /\ d.r < 0 THEN Res(d.s, d.w, d.r) ELSE VPush(c, d.s, d.w, ps, i + 1)

\* ---------------------------------------------------------------- behaviour
Texts == UNION {[1..n -> TextBytes] : n \in 0..MaxText}
NoArg == [x |-> 0]
WObs(w) == [out |-> w.out, err |-> w.err, file |-> w.file, pass |-> w.pass, passend |-> w.passend]
Busy == cur # <<>> /\ Route(cfg, cur) \in {"log", "values"}

Init ==
  /\ cfg \in Configs
  /\ snk = Snk0(cfg.ignore)
  /\ wr = EmptyW
  /\ todo = <<>> /\ held = <<>> /\ cur = <<>>
  /\ lvl0 = cfg.ignore
  /\ obs = [a |-> "open", arg |-> cfg, exp |-> [ret |-> "ok"]]
  /\ des = [ret |-> "ok"]

\* a fresh sink (trace validation: executions are concatenated)
Open(c) ==
  /\ cfg' = c
  /\ snk' = Snk0(c.ignore)
  /\ wr' = EmptyW
  /\ todo' = <<>> /\ held' = <<>> /\ cur' = <<>>
  /\ lvl0' = c.ignore
  /\ obs' = [a |-> "open", arg |-> c, exp |-> [ret |-> "ok"]]
  /\ des' = [ret |-> "ok"]

\* the pusher takes up a message (no library call)
Start(m) ==
  /\ todo = <<>> /\ held = <<>> /\ cur = <<>>
  /\ m # <<>>
  \* a history without a file discards value messages; what its pushes answer then is not modelled
  /\ ~(m[1] \in {ValCmd, RawCmd} /\ cfg.kind # "logfile" /\ cfg.file = "none")
  /\ todo' = m
  /\ obs' = [a |-> "msg", arg |-> [data |-> m], exp |-> [ret |-> "ok"]]
  /\ des' = [ret |-> "ok"]
  /\ UNCHANGED <<cfg, snk, wr, held, cur, lvl0>>

\* one piece: the next k bytes
Push(k) ==
  /\ todo # <<>> /\ k \in 1..Len(todo)
  /\ LET p == First(todo, k)
         o == held \o p
         v == Verdict(cfg, cur, o)
         d == Offer(cfg, snk, wr, o, 0)
     IN /\ obs' = [a |-> "push", arg |-> [data |-> p], exp |-> v]
        /\ des' = [ret |-> d.ret, taken |-> d.taken]
        /\ snk' = d.s /\ wr' = d.w
        /\ IF v.ret = "ok"
           THEN /\ cur' = cur \o o /\ held' = <<>> /\ todo' = After(todo, k)
                /\ lvl0' = IF cur = <<>> THEN snk.ignore ELSE lvl0
           ELSE IF v.ret = "missing"
           THEN /\ cur' = cur /\ held' = o /\ todo' = After(todo, k) /\ lvl0' = lvl0
           ELSE /\ cur' = <<>> /\ held' = <<>> /\ todo' = <<>> /\ lvl0' = lvl0
  /\ UNCHANGED cfg

Finish(call) ==
  /\ cur # <<>>
  /\ call = "end" => todo = <<>>
  /\ LET d == SinkPush(cfg, snk, wr, <<>>, call)
         e == Render(cfg, lvl0, cur, call = "end")
     IN /\ obs' = [a |-> call, arg |-> NoArg, exp |-> [ret |-> "ok"] @@ WObs(e)]
        /\ des' = [ret |-> IF d.r >= 0 THEN "ok" ELSE IF d.r = -16 THEN "missing" ELSE "refused"] @@ WObs(d.w)
        /\ snk' = d.s
  /\ wr' = EmptyW /\ cur' = <<>> /\ todo' = <<>>
  /\ UNCHANGED <<cfg, held, lvl0>>

\* the message ends before the sink took anything of it (a single byte)
Drop ==
  /\ cur = <<>> /\ held # <<>>
  /\ held' = <<>> /\ todo' = <<>>
  /\ obs' = [a |-> "drop", arg |-> NoArg, exp |-> [ret |-> "ok"] @@ WObs(EmptyW)]
  /\ des' = [ret |-> "ok"] @@ WObs(wr)
  /\ wr' = EmptyW
  /\ UNCHANGED <<cfg, snk, cur, lvl0>>

\* the sink refused the message: the pusher has given it up, further pieces / the end are not delivered
Skip ==
  /\ cur = <<>> /\ held = <<>> /\ todo = <<>>
  /\ obs' = [a |-> "skip", arg |-> NoArg, exp |-> [ret |-> "skipped"]]
  /\ des' = [ret |-> "skipped"]
  /\ UNCHANGED <<cfg, snk, wr, todo, held, cur, lvl0>>

\* properties of the log file object: "ignore" (number) and "level" (name, mpt_log_level + 1); names the
\* table does not know leave the level alone.  Only the level in force afterwards is observed.
LevelName(v) ==
  CASE v = "s:none" -> 1 [] v = "s:fatal" -> 2 [] v = "s:critical" -> 3 [] v \in {"s:error", "s:ERROR"} -> 4
    [] v \in {"s:warning", "s:default"} -> 8 [] v \in {"s:info", "s:INFO"} -> 16
    [] v \in {"s:debug", "s:debug1"} -> 20 [] v = "s:debug2" -> 24 [] v = "s:debug3" -> 32
    [] OTHER -> -1
LevelRes(l, old) ==
  IF l.name \in {"s:ignore", "s:Ignore"} THEN (IF l.usenum = 1 THEN l.num ELSE old)
  ELSE IF l.name \in {"s:level", "s:Level"} THEN (IF l.usenum = 0 /\ LevelName(l.val) >= 0 THEN LevelName(l.val) ELSE old)
  ELSE old
SetLevel(l) ==
  /\ snk' = [snk EXCEPT !.ignore = LevelRes(l, snk.ignore)]
  /\ obs' = [a |-> "set", arg |-> l, exp |-> [ignore |-> LevelRes(l, snk.ignore)]]
  /\ des' = [ignore |-> LevelRes(l, snk.ignore)]
  /\ UNCHANGED <<cfg, wr, todo, held, cur, lvl0>>

\* a logger call beside the pushes: never part of the message in progress
Log(cl) ==
  /\ cfg.tty = 0
  /\ LET e == LogRender(cfg, snk.ignore, cl, Busy)
         d == LogRender(cfg, snk.ignore, cl, snk.active)
     IN /\ obs' = [a |-> "log", arg |-> cl, exp |-> [ret |-> e.ret, out |-> e.w.out, err |-> e.w.err, file |-> e.w.file]]
        /\ des' = [ret |-> d.ret, out |-> d.w.out, err |-> d.w.err, file |-> d.w.file]
  /\ UNCHANGED <<cfg, snk, wr, todo, held, cur, lvl0>>

\* the producer: a log call turned into pushes; the sink has to see the contiguous message
VLog(cl) ==
  /\ todo = <<>> /\ held = <<>> /\ cur = <<>>
  /\ IF VFits(cl)
     THEN LET d == VPush(cfg, snk, wr, VPieces(cl), 1)
              e == Render(cfg, snk.ignore, VMsg(cl), TRUE)
          IN /\ obs' = [a |-> "vlog", arg |-> cl, exp |-> [ret |-> "ok"] @@ WObs(e)]
             /\ des' = [ret |-> IF d.r >= 0 THEN "ok" ELSE "refused"] @@ WObs(d.w)
             /\ snk' = d.s
     ELSE /\ obs' = [a |-> "vlog", arg |-> cl, exp |-> [ret |-> "refused"] @@ WObs(EmptyW)]
          /\ des' = [ret |-> "refused"] @@ WObs(EmptyW)
          /\ snk' = snk
  /\ UNCHANGED <<cfg, wr, todo, held, cur, lvl0>>

Next ==
  \/ \E h \in Heads, t \in Texts : Start(h \o t)
  \/ \E k \in 1..(MaxText + 3) : Push(k)
  \/ Finish("end")
  \/ Drop
  \/ ("abort" \in Ops /\ Finish("abort"))
  \/ ("set" \in Ops /\ \E l \in Levels : SetLevel(l))
  \/ ("log" \in Ops /\ \E cl \in Calls : Log(cl))
  \/ ("vlog" \in Ops /\ \E cl \in Calls : VLog(cl))

Spec == Init /\ [][Next]_vars

\* ---------------------------------------------------------------- what TLC checks
TypeOK ==
  /\ cfg \in Configs
  /\ snk.tgt \in 0..3 /\ snk.low \in 0..15 /\ snk.vneed \in -1..127 /\ snk.vpos >= 0
  /\ \A k \in {"vinl", "vfmt"} : snk[k] \in BOOLEAN
  /\ \A k \in {"active", "rst", "remote", "vals", "rich", "seg", "fn"} : snk[k] \in BOOLEAN
  /\ held # <<>> => cur = <<>>
\* between messages the sink is idle and has written nothing that is not accounted for:
\* what a message leaves behind is a function of that message alone (no bleeding)
IdleClean ==
  cur = <<>> => /\ ~snk.active /\ ~snk.remote /\ snk.tgt = 0 /\ ~snk.rst
                /\ wr = EmptyW
\* a message in progress: the sink is engaged
Engaged == cur # <<>> => (snk.active \/ snk.remote)
\* every answer of the push design is the answer the meaning gives (for every cut: the cut is the path)
DesignAgrees == [][des' = obs'.exp]_vars
=============================================================================
