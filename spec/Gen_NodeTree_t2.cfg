SPECIFICATION GenSpecM
CONSTANTS MaxNodes = 4 Kinds <- KindsT Pos <- PosT Keys <- KeysT
VIEW ShapeView
ACTION_CONSTRAINT Emit
CHECK_DEADLOCK FALSE
