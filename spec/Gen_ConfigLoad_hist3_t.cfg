SPECIFICATION GenSpecX
CONSTANTS Names <- NamesMB Depth = 3 Vals <- ValsX Sep = 46 Design = "list" Base <- BaseA MaxSlots = 6
  Ends <- Ends0 Strs <- None Seps <- None Asgs <- None Elems <- None
  Configs <- DefaultOnly OptNames <- OptA SecNames <- None Values <- ValsDocX Decos <- Decos1 MaxNodes = 1 MaxDepth = 1
  Routes <- RAll Cfgs <- CfgT SingleKinds <- SKBoth PrePaths <- PreC
  LoadKinds <- LoadQ TwoFiles = FALSE EnvCalls <- EnvQ ArgCalls <- ArgsQ ClearLists <- ClearQ
  MsgSets <- MSetQ MsgGets <- MGetQ NodeBases <- BasesQ FputSeps <- None
  MaxOps = 3 MaxArr = 3 SingleWhen = "any" QuoteSet <- AllQuotes Observe = TRUE
CONSTRAINT Bound
VIEW ViewG
ACTION_CONSTRAINT EmitX
INVARIANTS Refines PrefixClosed
PROPERTIES ArrivalProp SingleProp
CHECK_DEADLOCK FALSE
