------------------------------ MODULE CowArray ------------------------------
(***************************************************************************)
(* Copy-on-write arrays of mptcore/array (property C04).                   *)
(*                                                                         *)
(* Tier 1 (meaning):  val[h], vtyp[h] -- every handle is an independent    *)
(*                    byte vector with a content type; an operation on h   *)
(*                    changes val[h] only, by plain vector semantics.      *)
(* Tier 2 (design):   rec[h] = the buffer h points at {data(=used bytes),  *)
(*                    size, imm, nc, typ}; share[h] = handles pointing at  *)
(*                    the same buffer (reference count = Cardinality).     *)
(*                    An in-place write is seen by all of share[h]; a      *)
(*                    detach gives h a private record.  The decisions      *)
(*                    (in place / reallocate / refuse, capacities) mirror  *)
(*                    buffer_alloc.c and the array_*.c callers.            *)
(* Refines: rec[h].data = val[h] for every handle, after every call.       *)
(*                                                                         *)
(* obs.exp is the verdict projection: result class, what every handle      *)
(* reads (vals, typs), what the call handed out (out), and that no         *)
(* immutable/shared storage was written in place (frozen).                 *)
(* Some calls may legitimately answer in one of two ways (variant v);      *)
(* obs.exp.either marks them.                                              *)
(***************************************************************************)
EXTENDS Naturals, Integers, Sequences, FiniteSets, TLC

CONSTANTS NH,      \* number of handles
          Gran,    \* allocation granularity of _mpt_buffer_alloc (128; scaled 4)
          Hdr,     \* header size inside an allocation (64)
          PChunk,  \* printf work chunk (64)
          MaxLen,  \* largest content length explored
          MaxArg,  \* largest offset/length argument offered
          Prune,   \* TRUE: representative arguments only for type refusals (export)
          Api      \* "c": C calls; "xarr" array/slice, "xtyped" typed_array<uint8_t>, "xunique"
                   \* unique_array<uint8_t>, "xptr" pointer_array, "xmap" map<uint8_t,uint8_t> (C++)

VARIABLES val, vtyp,         \* Tier 1
          rec, share,        \* Tier 2
          touch,             \* flags of storage written in place by the last call
          ctr,               \* fresh-byte counter
          obs
vars == <<val, vtyp, rec, share, touch, ctr, obs>>

H == 1..NH

---------------------------------------------------------------------------
(* sequence helpers *)
Min(a, b) == IF a < b THEN a ELSE b
Max(a, b) == IF a > b THEN a ELSE b
Zeros(n)  == [i \in 1..n |-> 0]
Fresh(n)  == [i \in 1..n |-> ((ctr + i - 1) % 250) + 1]
FirstN(s, n) == SubSeq(s, 1, Min(n, Len(s)))
Drop(s, n)   == SubSeq(s, n + 1, Len(s))
Pad(s, n)    == IF Len(s) >= n THEN s ELSE s \o Zeros(n - Len(s))
\* overwrite at 0-based pos, extending (gap zero filled) when needed
Over(s, pos, d) ==
  LET p == Pad(s, pos) IN
  [i \in 1..Max(Len(p), pos + Len(d)) |->
     IF i > pos /\ i <= pos + Len(d) THEN d[i - pos] ELSE p[i]]
\* insert at 0-based pos (gap zero filled)
Ins(s, pos, d) == FirstN(Pad(s, pos), pos) \o d \o Drop(s, pos)
CutSeq(s, off, n) == FirstN(s, off) \o Drop(s, off + n)
HasZero(s) == \E i \in 1..Len(s) : s[i] = 0
UptoZero(s) ==
  IF HasZero(s)
  THEN FirstN(s, (CHOOSE i \in 1..Len(s) : s[i] = 0 /\ \A j \in 1..(i - 1) : s[j] # 0) - 1)
  ELSE s

ESize(t)      == IF t = "n" THEN 2 ELSE 1      \* C++ element types ("y", "p", "kv") count in elements
AlignUp(n, e) == ((n + e - 1) \div e) * e
AllocSize(n)  == ((n + Hdr - 1) \div Gran + 1) * Gran - Hdr
RoundChunk(n) == ((n + PChunk - 1) \div PChunk) * PChunk

Null == [data |-> <<>>, size |-> 0, imm |-> FALSE, nc |-> FALSE, typ |-> "none"]
NewRec(d, sz, t) == [data |-> d, size |-> sz, imm |-> FALSE, nc |-> FALSE, typ |-> t]

IsNull(h) == rec[h].typ = "none"
Used(h)   == Len(rec[h].data)
Size(h)   == rec[h].size
Shared(h) == Cardinality(share[h]) > 1

---------------------------------------------------------------------------
(* Tier 2 building blocks *)

\* _mpt_buffer_alloc_detach(buf, len): [ok, same, rec]
Det(h, len0) ==
  LET r    == rec[h]
      len  == AlignUp(len0, ESize(r.typ))
      used == Len(r.data)
  IN
  IF ~Shared(h)
  THEN IF len <= r.size /\ ~r.imm
       THEN [ok |-> TRUE, same |-> TRUE, rec |-> r]
       ELSE [ok |-> TRUE, same |-> FALSE,
             rec |-> [r EXCEPT !.size = AllocSize(len), !.imm = FALSE,
                               !.data = FirstN(r.data, len)]]
  ELSE IF r.nc /\ used > 0
       THEN [ok |-> FALSE, same |-> TRUE, rec |-> r]
       ELSE IF used > AllocSize(len)
       THEN [ok |-> FALSE, same |-> TRUE, rec |-> r]
       ELSE [ok |-> TRUE, same |-> FALSE,
             rec |-> [r EXCEPT !.size = AllocSize(len), !.imm = FALSE]]
Same(h) == [ok |-> TRUE, same |-> TRUE, rec |-> rec[h]]

\* h gets a private record r (leaves its group)
Private(h, r) ==
  /\ rec' = [rec EXCEPT ![h] = r]
  /\ share' = [g \in H |-> IF g = h THEN {h} ELSE share[g] \ {h}]
  /\ touch' = {}
\* the buffer h points at is changed in place: every alias sees it
InPlace(h, r) ==
  /\ rec' = [g \in H |-> IF g \in share[h] THEN r ELSE rec[g]]
  /\ UNCHANGED share
  /\ touch' = IF r.data = rec[h].data THEN {}
              ELSE (IF Shared(h) THEN {"shared"} ELSE {}) \cup (IF rec[h].imm THEN {"imm"} ELSE {})
\* result of a detach decision followed by storing new content
Store(h, dr, d) ==
  IF dr.same THEN InPlace(h, [dr.rec EXCEPT !.data = d])
  ELSE Private(h, [dr.rec EXCEPT !.data = d])

(* Tier 1 building block *)
V(h, d, t) == /\ val' = [val EXCEPT ![h] = d]
              /\ vtyp' = [vtyp EXCEPT ![h] = t]

---------------------------------------------------------------------------
Answer(a, arg, ret, out, either) ==
  obs' = [a |-> a, arg |-> arg,
          exp |-> [ret |-> ret, out |-> out, vals |-> val', lens |-> [g \in H |-> Len(val'[g])],
                   typs |-> vtyp', frozen |-> "ok", refok |-> "ok", either |-> either],
          \* model diagnostics (never part of a verdict): capacities, sharing
          mdl |-> [sizes |-> [g \in H |-> rec'[g].size],
                   refs |-> [g \in H |-> Cardinality(share'[g])],
                   imm |-> [g \in H |-> rec'[g].imm], nc |-> [g \in H |-> rec'[g].nc]]]

Refuse(a, arg, either) ==
  /\ UNCHANGED <<val, vtyp, rec, share, ctr>>
  /\ touch' = {}
  /\ Answer(a, arg, "refused", <<>>, either)

NoChange(a, arg, ret, out) ==
  /\ UNCHANGED <<val, vtyp, rec, share, ctr>>
  /\ touch' = {}
  /\ Answer(a, arg, ret, out, FALSE)

---------------------------------------------------------------------------
(* driver-made buffer: _mpt_buffer_alloc(len, flags), content and type set *)
New(h, d, imm, nc, t) ==
  LET arg == [h |-> h, data |-> d, imm |-> IF imm THEN 1 ELSE 0, nc |-> IF nc THEN 1 ELSE 0, typ |-> t] IN
  /\ IsNull(h)
  /\ Len(d) % ESize(t) = 0
  /\ Private(h, [data |-> d, size |-> AllocSize(Len(d)), imm |-> imm, nc |-> nc, typ |-> t])
  /\ V(h, d, t)
  /\ ctr' = ctr + Len(d)
  /\ Answer("new", arg, "ok", <<>>, FALSE)

(* mpt_array_append(arr, len, data | 0) *)
ArrAppend(h, d, zero) ==
  LET r == rec[h] n == Len(d) used == Len(r.data)
      arg == [h |-> h, data |-> d, zero |-> zero]
  IN
  IF r.typ = "none"
  THEN /\ Private(h, NewRec(d, AllocSize(n), "raw"))
       /\ V(h, d, "raw")
       /\ ctr' = ctr + n
       /\ Answer("append", arg, IF n = 0 THEN "any" ELSE "ok", <<>>, FALSE)
  ELSE IF r.typ # "raw" THEN Refuse("append", arg, FALSE)
  ELSE IF n = 0 THEN NoChange("append", arg, "any", <<>>)
  ELSE LET dr == IF n > r.size - used \/ Shared(h) \/ r.imm THEN Det(h, used + n) ELSE Same(h) IN
       IF ~dr.ok THEN Refuse("append", arg, FALSE)
       ELSE /\ Store(h, dr, r.data \o d)
            /\ V(h, val[h] \o d, "raw")
            /\ ctr' = ctr + n
            /\ Answer("append", arg, "ok", <<>>, FALSE)

(* mpt_buffer_insert(buf, pos, len) -- design part shared by callers *)
BInsOk(r, pos, n) ==
  LET used  == Len(r.data)
      total == IF pos < used THEN used + n ELSE pos + n
      e     == ESize(r.typ)
  IN total = 0 \/ (total <= r.size /\ ~r.imm /\ used % e = 0 /\ pos % e = 0 /\ n % e = 0)

(* mpt_array_insert(arr, pos, len): the caller writes d into the returned  *)
(* region.                                                                 *)
Insert(h, pos, d, v) ==
  LET r == rec[h] n == Len(d) used == Len(r.data)
      arg == [h |-> h, pos |-> pos, data |-> d]
      top == Max(used, pos)
  IN
  /\ v = 0
  /\ IF r.typ = "none"
     THEN /\ Private(h, NewRec(Ins(<<>>, pos, d), AllocSize(pos + n), "raw"))
          /\ V(h, Ins(<<>>, pos, d), "raw")
          /\ ctr' = ctr + n
          /\ Answer("insert", arg, IF pos + n = 0 THEN "any" ELSE "ok", <<>>, FALSE)
     ELSE IF top + n <= r.size /\ ~Shared(h) /\ ~r.imm
     THEN \* mpt_buffer_insert in place
          IF ~BInsOk(r, pos, n) THEN Refuse("insert", arg, FALSE)
          ELSE /\ InPlace(h, [r EXCEPT !.data = Ins(r.data, pos, d)])
               /\ V(h, Ins(val[h], pos, d), vtyp[h])
               /\ ctr' = ctr + n
               /\ Answer("insert", arg, IF top + n = 0 THEN "any" ELSE "ok", <<>>, FALSE)
     ELSE LET dr == Det(h, top + n) IN
          IF ~dr.ok THEN Refuse("insert", arg, FALSE)
          ELSE IF ~BInsOk(dr.rec, pos, n)
          THEN \* detached first, then refused by mpt_buffer_insert: a private copy, same content
               /\ IF dr.same THEN UNCHANGED <<rec, share>> /\ touch' = {} ELSE Private(h, dr.rec)
               /\ UNCHANGED <<val, vtyp, ctr>>
               /\ Answer("insert", arg, "refused", <<>>, FALSE)
          ELSE /\ Store(h, dr, Ins(r.data, pos, d))
               /\ V(h, Ins(val[h], pos, d), vtyp[h])
               /\ ctr' = ctr + n
               /\ Answer("insert", arg, IF top + n = 0 THEN "any" ELSE "ok", <<>>, FALSE)

(* mpt_array_set(arr, traits(t), len, data | 0, off): off in elements,     *)
(* negative = relative to the end                                          *)
SetTyped(h, t, d, off, zero) ==
  LET r == rec[h] n == Len(d) used == Len(r.data) e == ESize(t)
      arg == [h |-> h, typ |-> t, data |-> d, off |-> off, zero |-> zero]
      pos == IF off < 0 THEN used + off * e ELSE off * e
      total == pos + n
  IN
  IF n % e # 0 \/ (r.typ # "none" /\ r.typ # t) \/ pos < 0 THEN Refuse("settyped", arg, FALSE)
  ELSE IF r.typ = "none"
  THEN /\ Private(h, NewRec(Over(<<>>, pos, d), AllocSize(total), t))
       /\ V(h, Over(<<>>, pos, d), t)
       /\ ctr' = ctr + n
       /\ Answer("settyped", arg, "ok", <<>>, FALSE)
  ELSE LET dr == IF r.size < total \/ r.imm \/ Shared(h) THEN Det(h, Max(used, total)) ELSE Same(h) IN
       IF ~dr.ok THEN Refuse("settyped", arg, FALSE)
       ELSE /\ Store(h, dr, Over(r.data, pos, d))
            /\ V(h, Over(val[h], pos, d), t)
            /\ ctr' = ctr + n
            /\ Answer("settyped", arg, "ok", <<>>, FALSE)

(* mpt_array_slice(arr, off, len): the array holds at least off+len bytes  *)
(* afterwards (new ones zero), is private, and the caller may write the    *)
(* returned region (fill = 1: writes d).                                   *)
Slice(h, off, d, fill) ==
  LET r == rec[h] n == Len(d) used == Len(r.data) e == ESize(r.typ)
      arg == [h |-> h, off |-> off, data |-> d, fill |-> fill]
      total == off + n
      F(s) == IF fill = 1 THEN Over(Pad(s, total), off, d) ELSE Pad(s, total)
  IN
  IF r.typ = "none"
  THEN /\ Private(h, NewRec(F(<<>>), AllocSize(total), "raw"))
       /\ V(h, F(<<>>), "raw")
       /\ ctr' = ctr + n
       /\ Answer("slice", arg, "ok", <<>>, FALSE)
  ELSE IF off % e # 0 \/ n % e # 0 \/ used % e # 0 THEN Refuse("slice", arg, FALSE)
  ELSE LET dr == IF total > r.size \/ r.imm \/ Shared(h) THEN Det(h, Max(used, total)) ELSE Same(h) IN
       IF ~dr.ok THEN Refuse("slice", arg, FALSE)
       ELSE /\ Store(h, dr, F(r.data))
            /\ V(h, F(val[h]), vtyp[h])
            /\ ctr' = ctr + n
            /\ Answer("slice", arg, "ok", <<>>, FALSE)

(* mpt_array_reserve(arr, len, traits(t)): same type keeps the content,    *)
(* another type starts empty.  A request below the used size may keep or   *)
(* truncate (v = 1 is the other answer).                                   *)
Reserve(h, len0, t, v) ==
  LET r == rec[h] used == Len(r.data)
      len == AlignUp(len0, ESize(t))
      arg == [h |-> h, len |-> len0, typ |-> t]
      sameT == r.typ = t
      short == sameT /\ len < used
      either == short
  IN
  IF r.typ = "none" \/ Shared(h) \/ r.imm
  THEN \* distinct instance
       IF sameT /\ r.nc /\ used > 0
       THEN /\ v = 0 /\ Refuse("reserve", arg, FALSE)
       ELSE LET trunc == (v = 0)
                keep  == IF ~sameT THEN <<>> ELSE IF short /\ trunc THEN FirstN(r.data, len) ELSE r.data
                keep1 == IF ~sameT THEN <<>> ELSE IF short /\ trunc THEN FirstN(val[h], len) ELSE val[h]
            IN
            /\ v = 0 \/ short
            /\ Private(h, NewRec(keep, AllocSize(Max(len, Len(keep))), t))
            /\ V(h, keep1, t)
            /\ UNCHANGED ctr
            /\ Answer("reserve", arg, "ok", <<>>, either)
  ELSE LET r1 == IF sameT THEN r ELSE [r EXCEPT !.data = <<>>]
           trunc == (v = 1)
           keep  == IF short /\ trunc THEN FirstN(r1.data, len) ELSE r1.data
           keep1 == IF ~sameT THEN <<>> ELSE IF short /\ trunc THEN FirstN(val[h], len) ELSE val[h]
           \* detach(buf, len) on a private mutable buffer: same storage when it fits
           lenA  == AlignUp(len, ESize(r.typ))
           nsize == IF lenA <= r.size THEN r.size ELSE AllocSize(lenA)
       IN
       /\ v = 0 \/ short
       /\ InPlace(h, [r1 EXCEPT !.data = keep, !.size = nsize, !.typ = t])
       /\ V(h, keep1, t)
       /\ UNCHANGED ctr
       /\ Answer("reserve", arg, "ok", <<>>, either)

(* mpt_array_clone(arr, from | 0) *)
Clone(h, g) ==
  LET arg == [h |-> h, from |-> g] IN
  IF g = 0
  THEN /\ Private(h, Null) /\ V(h, <<>>, "none") /\ UNCHANGED ctr
       /\ Answer("clone", arg, "ok", <<>>, FALSE)
  ELSE IF g \in share[h] \/ (IsNull(h) /\ IsNull(g)) THEN NoChange("clone", arg, "ok", <<>>)
  ELSE IF Api = "c" /\ ~IsNull(h) /\ ~IsNull(g) /\ rec[h].typ # rec[g].typ THEN Refuse("clone", arg, FALSE)
  ELSE IF IsNull(g)
  THEN /\ Private(h, Null) /\ V(h, <<>>, "none") /\ UNCHANGED ctr
       /\ Answer("clone", arg, "ok", <<>>, FALSE)
  ELSE /\ rec' = [rec EXCEPT ![h] = rec[g]]
       /\ share' = [x \in H |-> IF x \in share[g] \/ x = h THEN share[g] \cup {h}
                                ELSE share[x] \ {h}]
       /\ touch' = {}
       /\ V(h, val[g], vtyp[g])
       /\ UNCHANGED ctr
       /\ Answer("clone", arg, "ok", <<>>, FALSE)

(* mpt_array_reduce(arr): capacity only *)
Reduce(h) ==
  LET arg == [h |-> h] r == rec[h] IN
  IF IsNull(h) THEN NoChange("reduce", arg, "any", <<>>)
  ELSE LET dr == Det(h, Len(r.data)) IN
       IF ~dr.ok \/ dr.same THEN NoChange("reduce", arg, "any", <<>>)
       ELSE /\ Private(h, dr.rec) /\ UNCHANGED <<val, vtyp, ctr>>
            /\ Answer("reduce", arg, "any", <<>>, FALSE)

(* mpt_printf(arr, "%s", text): text (no zero bytes) is appended to a      *)
(* character array; a raw array may be refused or accepted.                *)
Printf(h, d) ==
  LET r == rec[h] n == Len(d) used == Len(r.data)
      arg == [h |-> h, data |-> d]
  IN
  IF r.typ = "none"
  THEN /\ Private(h, NewRec(d, LET s0 == AllocSize(PChunk) IN
                               IF n < s0 THEN s0 ELSE AllocSize(s0 + RoundChunk(n + 1 - s0)), "c"))
       /\ V(h, d, "c")
       /\ ctr' = ctr + n
       /\ Answer("printf", arg, "ok", <<>>, FALSE)
  ELSE IF r.typ # "c" THEN Refuse("printf", arg, FALSE)
  ELSE LET len1 == RoundChunk(r.size - used)
           dr1  == IF used + len1 > r.size \/ r.imm \/ Shared(h) THEN Det(h, used + len1) ELSE Same(h)
       IN
       IF ~dr1.ok THEN Refuse("printf", arg, FALSE)
       ELSE LET len2 == IF n < len1 THEN len1 ELSE len1 + RoundChunk(n + 1 - len1)
                sz1  == dr1.rec.size
                dr   == IF used + len2 > sz1
                        THEN [dr1 EXCEPT !.same = FALSE, !.rec.size = AllocSize(used + len2)]
                        ELSE dr1
            IN
            /\ Store(h, dr, r.data \o d)
            /\ V(h, val[h] \o d, "c")
            /\ ctr' = ctr + n
            /\ Answer("printf", arg, "ok", <<>>, FALSE)

(* mpt_array_string(arr): zero-terminated view; a terminator is appended   *)
(* when the content has none                                               *)
String(h) ==
  LET r == rec[h] used == Len(r.data) arg == [h |-> h] IN
  IF r.typ # "c" THEN Refuse("string", arg, FALSE)
  ELSE IF HasZero(r.data) THEN NoChange("string", arg, "ok", UptoZero(val[h]))
  ELSE LET dr == IF used + 1 > r.size \/ r.imm \/ Shared(h) THEN Det(h, used + 1) ELSE Same(h) IN
       IF ~dr.ok THEN Refuse("string", arg, FALSE)
       ELSE /\ Store(h, dr, r.data \o <<0>>)
            /\ V(h, val[h] \o <<0>>, "c")
            /\ UNCHANGED ctr
            /\ Answer("string", arg, "ok", val[h], FALSE)

(* mpt_slice_write(slice{arr, off, len}, nblk, data | 0, esz): k blocks    *)
(* are appended to the window; the array afterwards is the old one with    *)
(* the bytes behind the window overwritten (in place) or the window alone  *)
(* (compact).  k and compact are the implementation's choice (capacity).   *)
SWKeep(h, off, len, esz, nblk) ==     \* design: [k, compact, realloc]
  LET r == rec[h] pos == off + len avail == r.size - pos IN
  IF ~IsNull(h) /\ ~Shared(h) /\ ~r.imm /\ nblk = 0
  THEN [k |-> 0, compact |-> FALSE, realloc |-> FALSE]
  ELSE IF ~Shared(h) /\ ~r.imm /\ nblk > 0 /\ avail >= esz
  THEN [k |-> Min(nblk, avail \div esz), compact |-> FALSE, realloc |-> FALSE]
  ELSE IF ~Shared(h) /\ ~r.imm /\ nblk > 0 /\ off > 0 /\ avail + off >= esz
  THEN [k |-> Min(nblk, (r.size - len) \div esz), compact |-> TRUE, realloc |-> FALSE]
  ELSE [k |-> nblk, compact |-> TRUE, realloc |-> TRUE]

SliceWrite(h, off, len, nblk, esz, d, zero, k, compact, realloc) ==
  LET r == rec[h] used == Len(r.data) pos == off + len
      arg == [h |-> h, off |-> off, len |-> len, nblk |-> nblk, esz |-> esz, data |-> d, zero |-> zero]
      take == FirstN(d, k * esz)
      W(s) == SubSeq(s, off + 1, off + len)
      R(s) == IF compact THEN W(s) \o take ELSE Over(s, pos, take)
  IN
  /\ pos <= used /\ esz > 0 /\ Len(d) = nblk * esz /\ k <= nblk
  /\ IF r.typ \notin {"none", "raw"} THEN Refuse("slicewrite", arg, FALSE)
     ELSE IF nblk = 0 /\ ~realloc THEN NoChange("slicewrite", arg, "ok", W(val[h]))
     ELSE /\ IF realloc THEN Private(h, NewRec(R(r.data), AllocSize(len + nblk * esz), "raw"))
             ELSE InPlace(h, [r EXCEPT !.data = R(r.data)])
          /\ V(h, R(val[h]), "raw")
          /\ ctr' = ctr + Len(d)
          /\ Answer("slicewrite", arg, "ok", W(val[h]) \o take, FALSE)

(* buffer level calls: the caller owns the buffer exclusively *)
BufInsert(h, pos, d) ==
  LET r == rec[h] n == Len(d) used == Len(r.data)
      arg == [h |-> h, pos |-> pos, data |-> d]
      total == IF pos < used THEN used + n ELSE pos + n
  IN
  /\ ~IsNull(h) /\ ~Shared(h)
  /\ IF total = 0 THEN NoChange("bufinsert", arg, "any", <<>>)
     ELSE IF ~BInsOk(r, pos, n) THEN Refuse("bufinsert", arg, FALSE)
     ELSE /\ InPlace(h, [r EXCEPT !.data = Ins(r.data, pos, d)])
          /\ V(h, Ins(val[h], pos, d), vtyp[h])
          /\ ctr' = ctr + n
          /\ Answer("bufinsert", arg, "ok", <<>>, FALSE)

BufCut(h, off, n) ==
  LET r == rec[h] used == Len(r.data) e == ESize(r.typ)
      arg == [h |-> h, off |-> off, n |-> n]
  IN
  /\ ~IsNull(h) /\ ~Shared(h) /\ ~r.imm
  /\ IF n > used \/ off > used \/ (n > 0 /\ used - n < off) \/ off % e # 0 \/ n % e # 0
     THEN Refuse("bufcut", arg, FALSE)
     ELSE LET C(s) == IF n = 0 THEN FirstN(s, off) ELSE CutSeq(s, off, n) IN
          /\ InPlace(h, [r EXCEPT !.data = C(r.data)])
          /\ V(h, C(val[h]), vtyp[h])
          /\ UNCHANGED ctr
          /\ Answer("bufcut", arg, "ok", <<>>, FALSE)

BufSet(h, t, pos, d, zero) ==
  LET r == rec[h] n == Len(d) used == Len(r.data) e == ESize(t)
      arg == [h |-> h, typ |-> t, pos |-> pos, data |-> d, zero |-> zero]
  IN
  /\ ~IsNull(h) /\ ~Shared(h) /\ ~r.imm
  /\ IF pos + n > r.size \/ t # r.typ \/ pos % e # 0 \/ n % e # 0
     THEN Refuse("bufset", arg, FALSE)
     ELSE /\ InPlace(h, [r EXCEPT !.data = Over(r.data, pos, d)])
          /\ V(h, Over(val[h], pos, d), vtyp[h])
          /\ ctr' = ctr + n
          /\ Answer("bufset", arg, "ok", <<>>, FALSE)

---------------------------------------------------------------------------
(* C++ wrappers (mptcore/array.h templates, mpt++/array.cpp).  They are    *)
(* specified by the same vector meaning; the design part says how they     *)
(* use detach/insert of the buffer underneath.                             *)

(* array::array(size_t cap) *)
XCtor(h, cap) ==
  LET arg == [h |-> h, cap |-> cap] IN
  /\ IsNull(h)
  /\ IF cap = 0 THEN NoChange("xctor", arg, "ok", <<>>)
     ELSE /\ Private(h, NewRec(<<>>, AllocSize(cap), "raw")) /\ V(h, <<>>, "raw") /\ UNCHANGED ctr
          /\ Answer("xctor", arg, "ok", <<>>, FALSE)

(* array::insert(off, len, data | 0): raw arrays only, region filled *)
XInsert(h, pos, d, zero) ==
  LET r == rec[h] n == Len(d) used == Len(r.data)
      arg == [h |-> h, pos |-> pos, data |-> d, zero |-> zero]
      top == Max(used, pos)
  IN
  IF r.typ \notin {"none", "raw"} THEN Refuse("xinsert", arg, FALSE)
  ELSE IF r.typ = "none"
  THEN /\ Private(h, NewRec(Ins(<<>>, pos, d), AllocSize(pos + n), "raw"))
       /\ V(h, Ins(<<>>, pos, d), "raw") /\ ctr' = ctr + n
       /\ Answer("xinsert", arg, IF pos + n = 0 THEN "any" ELSE "ok", <<>>, FALSE)
  ELSE LET dr == IF top + n <= r.size /\ ~Shared(h) /\ ~r.imm THEN Same(h) ELSE Det(h, top + n) IN
       IF ~dr.ok THEN Refuse("xinsert", arg, FALSE)
       ELSE /\ Store(h, dr, Ins(r.data, pos, d))
            /\ V(h, Ins(val[h], pos, d), "raw") /\ ctr' = ctr + n
            /\ Answer("xinsert", arg, IF top + n = 0 THEN "any" ELSE "ok", <<>>, FALSE)

(* array::set(len, data | 0): the array becomes exactly these bytes *)
XSet(h, d, zero) ==
  LET r == rec[h] n == Len(d) arg == [h |-> h, data |-> d, zero |-> zero] IN
  IF r.typ = "raw" /\ ~Shared(h) /\ ~r.imm /\ n <= r.size
  THEN /\ InPlace(h, [r EXCEPT !.data = d]) /\ V(h, d, "raw") /\ ctr' = ctr + n
       /\ Answer("xset", arg, "ok", <<>>, FALSE)
  ELSE /\ Private(h, NewRec(d, AllocSize(n), "raw")) /\ V(h, d, "raw") /\ ctr' = ctr + n
       /\ Answer("xset", arg, "ok", <<>>, FALSE)

(* array::content::set_length(len) on an exclusively owned raw buffer *)
XSetLength(h, len) ==
  LET r == rec[h] arg == [h |-> h, len |-> len]
      d == IF len <= Len(r.data) THEN FirstN(r.data, len) ELSE Pad(r.data, len)
      d1 == IF len <= Len(val[h]) THEN FirstN(val[h], len) ELSE Pad(val[h], len)
  IN
  /\ ~IsNull(h) /\ ~Shared(h) /\ ~r.imm
  /\ IF r.typ # "raw" \/ len > r.size THEN Refuse("xsetlength", arg, FALSE)
     ELSE /\ InPlace(h, [r EXCEPT !.data = d]) /\ V(h, d1, "raw") /\ UNCHANGED ctr
          /\ Answer("xsetlength", arg, "ok", <<>>, FALSE)

(* array::set(value("text")): character array holding the text and its terminator *)
XSetValue(h, d) ==
  LET arg == [h |-> h, data |-> d] nd == d \o <<0>> IN
  /\ Private(h, NewRec(nd, AllocSize(Len(nd)), "c")) /\ V(h, nd, "c") /\ ctr' = ctr + Len(d)
  /\ Answer("xsetvalue", arg, "ok", <<>>, FALSE)

(* slice(array) then shift(n) / trim(n) calls (ops = <<kind, n, kind, n, ...>>, kind 0 = shift, 1 = trim):      *)
(* the window [off, off+len) always stays inside the array's raw data; shift moves the start (negative:        *)
(* backwards, at most to 0), trim moves the end (negative: forwards, at most to the data end); a call that      *)
(* would leave the data is refused and changes nothing.  out = accepted?, off, len after every call.           *)
WinStep(w, L, k, n) ==        \* w = <<off, len>>
  IF k = 0
  THEN IF n >= 0 THEN (IF n <= w[2] THEN <<1, w[1] + n, w[2] - n>> ELSE <<0, w[1], w[2]>>)
       ELSE (IF -n <= w[1] THEN <<1, w[1] + n, w[2] - n>> ELSE <<0, w[1], w[2]>>)
  ELSE IF n >= 0 THEN (IF n <= w[2] THEN <<1, w[1], w[2] - n>> ELSE <<0, w[1], w[2]>>)
       ELSE (IF w[1] + w[2] - n <= L THEN <<1, w[1], w[2] - n>> ELSE <<0, w[1], w[2]>>)
RECURSIVE WinRun(_, _, _)
WinRun(w, L, ops) ==
  IF Len(ops) < 2 THEN <<>>
  ELSE LET r == WinStep(w, L, ops[1], ops[2]) IN r \o WinRun(<<r[2], r[3]>>, L, SubSeq(ops, 3, Len(ops)))
XWin(h, ops) ==
  LET L == IF vtyp[h] = "raw" THEN Len(val[h]) ELSE 0 IN      \* the slice class regards typed content as empty
  NoChange("xwin", [h |-> h, ops |-> ops], "ok", WinRun(<<0, L>>, L, ops))

(* typed_array<T> / unique_array<T> / pointer_array<T> / map: element units *)
ETyp == CASE Api = "xptr" -> "p" [] Api = "xmap" -> "kv" [] OTHER -> "y"
ENc  == Api = "xunique"
\* reserve(len): [ok, same, rec] -- the empty default instance creates, others detach
TRes(h, len) ==
  IF IsNull(h) THEN [ok |-> TRUE, same |-> FALSE, rec |-> [NewRec(<<>>, AllocSize(len), ETyp) EXCEPT !.nc = ENc]]
  ELSE Det(h, len)

TCtor(h, len) ==
  LET arg == [h |-> h, len |-> len] IN
  /\ IsNull(h)
  /\ IF len < 0 THEN NoChange("tctor", arg, "ok", <<>>)
     ELSE /\ Private(h, TRes(h, len).rec) /\ V(h, <<>>, ETyp) /\ UNCHANGED ctr
          /\ Answer("tctor", arg, "ok", <<>>, FALSE)

TInsert(h, pos0, v) ==
  LET r == rec[h] used == Len(r.data) arg == [h |-> h, pos |-> pos0, data |-> <<v>>]
      pos == IF pos0 < 0 THEN pos0 + used ELSE pos0
      top == Max(used, pos)
      dr == TRes(h, top + 1)
  IN
  IF pos < 0 \/ ~dr.ok \/ ~BInsOk(dr.rec, pos, 1) THEN Refuse("tinsert", arg, FALSE)
  ELSE /\ Store(h, dr, Ins(r.data, pos, <<v>>))
       /\ V(h, Ins(val[h], pos, <<v>>), ETyp) /\ ctr' = ctr + 1
       /\ Answer("tinsert", arg, "ok", <<>>, FALSE)

TSet(h, pos0, v) ==
  LET r == rec[h] used == Len(r.data) arg == [h |-> h, pos |-> pos0, data |-> <<v>>]
      pos == IF pos0 < 0 THEN pos0 + used ELSE pos0
  IN
  IF pos < 0 \/ pos >= used THEN Refuse("tset", arg, FALSE)
  ELSE LET dr == Det(h, used) IN
       IF ~dr.ok THEN Refuse("tset", arg, FALSE)
       ELSE /\ Store(h, dr, Over(r.data, pos, <<v>>))
            /\ V(h, Over(val[h], pos, <<v>>), ETyp) /\ ctr' = ctr + 1
            /\ Answer("tset", arg, "ok", <<>>, FALSE)

TGet(h, pos0) ==
  LET used == Len(val[h]) arg == [h |-> h, pos |-> pos0]
      pos == IF pos0 < 0 THEN pos0 + used ELSE pos0
  IN
  IF pos < 0 \/ pos >= used THEN Refuse("tget", arg, FALSE)
  ELSE NoChange("tget", arg, "ok", <<val[h][pos + 1]>>)

TReserve(h, len0) ==
  LET arg == [h |-> h, len |-> len0] len == IF len0 < 0 THEN len0 + Used(h) ELSE len0 IN
  IF len < 0 THEN Refuse("treserve", arg, FALSE)
  ELSE LET dr == TRes(h, len) IN
       IF ~dr.ok THEN Refuse("treserve", arg, FALSE)
       ELSE /\ IF dr.same THEN UNCHANGED <<rec, share>> /\ touch' = {} ELSE Private(h, dr.rec)
            /\ V(h, dr.rec.data, dr.rec.typ) /\ UNCHANGED ctr
            /\ Answer("treserve", arg, "ok", <<>>, Len(dr.rec.data) < Used(h))

TResize(h, len) ==
  LET arg == [h |-> h, len |-> len] dr == TRes(h, len)
      F(s) == IF len <= Len(s) THEN FirstN(s, len) ELSE Pad(s, len)
  IN
  IF ~dr.ok THEN Refuse("tresize", arg, FALSE)
  ELSE /\ Store(h, dr, F(dr.rec.data))
       /\ V(h, F(val[h]), ETyp) /\ UNCHANGED ctr
       /\ Answer("tresize", arg, "ok", <<>>, FALSE)

(* pointer_array<T>::compact(): null pointers removed, order kept *)
NonZero(s) == SelectSeq(s, LAMBDA x : x # 0)
PCompact(h) ==
  LET r == rec[h] arg == [h |-> h] IN
  IF IsNull(h) \/ r.imm THEN NoChange("pcompact", arg, "any", <<>>)
  ELSE IF ~Shared(h)
  THEN /\ InPlace(h, [r EXCEPT !.data = NonZero(r.data)])
       /\ V(h, NonZero(val[h]), ETyp) /\ UNCHANGED ctr
       /\ Answer("pcompact", arg, "any", <<>>, FALSE)
  ELSE /\ Private(h, NewRec(NonZero(r.data), AllocSize(Len(NonZero(r.data))), ETyp))
       /\ V(h, NonZero(val[h]), ETyp) /\ UNCHANGED ctr
       /\ Answer("pcompact", arg, "any", <<>>, FALSE)

(* map<K,V>: an element is the pair key*16+value; first match wins *)
KeyOf(e) == e \div 16
ValOf(e) == e % 16
HasKey(s, k) == \E i \in 1..Len(s) : KeyOf(s[i]) = k
FirstKey(s, k) == CHOOSE i \in 1..Len(s) : KeyOf(s[i]) = k /\ \A j \in 1..(i - 1) : KeyOf(s[j]) # k
MapSet(h, k, v, app) ==       \* app = 1: map::append (no lookup)
  LET r == rec[h] used == Len(r.data) e == k * 16 + v
      arg == [h |-> h, key |-> k, value |-> v, app |-> app]
  IN
  IF app = 0 /\ HasKey(r.data, k)
  THEN LET i == FirstKey(r.data, k) dr == Det(h, used) IN
       IF ~dr.ok THEN Refuse("mapset", arg, FALSE)
       ELSE /\ Store(h, dr, Over(r.data, i - 1, <<e>>))
            /\ V(h, Over(val[h], i - 1, <<e>>), ETyp) /\ ctr' = ctr + 1
            /\ Answer("mapset", arg, "ok", <<>>, FALSE)
  ELSE LET dr == TRes(h, used + 1) IN
       IF ~dr.ok \/ ~BInsOk(dr.rec, used, 1) THEN Refuse("mapset", arg, FALSE)
       ELSE /\ Store(h, dr, r.data \o <<e>>)
            /\ V(h, val[h] \o <<e>>, ETyp) /\ ctr' = ctr + 1
            /\ Answer("mapset", arg, "ok", <<>>, FALSE)
MapGet(h, k) ==
  LET arg == [h |-> h, key |-> k] IN
  IF HasKey(val[h], k) THEN NoChange("mapget", arg, "ok", <<ValOf(val[h][FirstKey(val[h], k)])>>)
  ELSE Refuse("mapget", arg, FALSE)
MapValues(h, k) ==            \* k = 0: all values
  LET arg == [h |-> h, key |-> k]
      sel == SelectSeq(val[h], LAMBDA e : k = 0 \/ KeyOf(e) = k)
  IN NoChange("mapvalues", arg, "ok", [i \in 1..Len(sel) |-> ValOf(sel[i])])

---------------------------------------------------------------------------
Init ==
  /\ val = [h \in H |-> <<>>] /\ vtyp = [h \in H |-> "none"]
  /\ rec = [h \in H |-> Null] /\ share = [h \in H |-> {h}]
  /\ touch = {} /\ ctr = 0
  /\ obs = [a |-> "init", arg |-> [n |-> NH, gran |-> Gran, api |-> Api],
            exp |-> [ret |-> "ok", out |-> <<>>, vals |-> [h \in H |-> <<>>], lens |-> [h \in H |-> 0],
                     typs |-> [h \in H |-> "none"], frozen |-> "ok", refok |-> "ok", either |-> FALSE],
            mdl |-> [sizes |-> [h \in H |-> 0], refs |-> [h \in H |-> 1],
                     imm |-> [h \in H |-> FALSE], nc |-> [h \in H |-> FALSE]]]

Types  == {"raw", "c", "n"}
XTypes == {"y", "p", "kv"}
TTypes == {"c", "n"}
---------------------------------------------------------------------------
(* Arguments at the limits of size_t / long.  Huge stands for 2^64, SHuge   *)
(* for 2^63 (TLC integers are 32 bit; the check writes such values as       *)
(* "max-k", "smax-k", "smax+k" for the drivers).  No buffer can hold such   *)
(* an offset or length, and sums that wrap around must not be taken for     *)
(* small ones: every call with such an argument is refused and changes      *)
(* nothing.                                                                 *)
Huge  == 1000000
SHuge == 500000
Big(x) == x >= SHuge - 1000
HOffs  == IF Prune THEN {Huge - 1, Huge - 2, Huge - 1 - MaxArg, SHuge} ELSE {Huge - 1}
HLongs == IF Prune THEN {SHuge - 1, SHuge - 2} ELSE {SHuge - 1}
HKeys  == {"pos", "off", "n", "len", "nblk", "esz", "hl", "cap"}
HasHuge(arg) == \E k \in (DOMAIN arg) \cap HKeys : Big(arg[k])
HugeCall(a, arg) == Refuse(a, arg, FALSE)
BufExcl(h, needmut) == ~IsNull(h) /\ ~Shared(h) /\ (needmut => ~rec[h].imm)
TypOf(h) == IF IsNull(h) THEN "raw" ELSE rec[h].typ

\* C calls with a huge offset or a huge length (hl: no data is handed over then).  A huge block
\* count of mpt_slice_write is not offered: the call writes as many blocks as memory allows.
PS == {0, MaxArg}
NS == {0, 1, MaxArg}
NextHugeC ==
  \E h \in H : (Prune => h = 1) /\
     \/ \E x \in HOffs, n \in NS : BufExcl(h, TRUE) /\ HugeCall("bufcut", [h |-> h, off |-> x, n |-> n])
     \/ \E x \in HOffs, p \in PS : BufExcl(h, TRUE) /\ HugeCall("bufcut", [h |-> h, off |-> p, n |-> x])
     \/ \E x \in HOffs, n \in NS : BufExcl(h, FALSE) /\ HugeCall("bufinsert", [h |-> h, pos |-> x, data |-> Fresh(n), hl |-> 0])
     \/ \E x \in HOffs, p \in PS : BufExcl(h, FALSE) /\ HugeCall("bufinsert", [h |-> h, pos |-> p, data |-> <<>>, hl |-> x])
     \/ \E x \in HOffs, n \in NS : BufExcl(h, TRUE) /\
           HugeCall("bufset", [h |-> h, typ |-> TypOf(h), pos |-> x, data |-> Fresh(n), zero |-> 0, hl |-> 0])
     \/ \E x \in HOffs, p \in PS : BufExcl(h, TRUE) /\
           HugeCall("bufset", [h |-> h, typ |-> TypOf(h), pos |-> p, data |-> <<>>, zero |-> 1, hl |-> x])
     \/ \E x \in HOffs : HugeCall("append", [h |-> h, data |-> <<>>, zero |-> 1, hl |-> x])
     \/ \E x \in HOffs, n \in NS : HugeCall("insert", [h |-> h, pos |-> x, data |-> Fresh(n), hl |-> 0])
     \/ \E x \in HOffs, p \in PS : HugeCall("insert", [h |-> h, pos |-> p, data |-> <<>>, hl |-> x])
     \/ \E y \in HLongs, n \in NS : TypOf(h) # "n" /\
           HugeCall("settyped", [h |-> h, typ |-> IF TypOf(h) = "raw" THEN "c" ELSE TypOf(h),
                                 data |-> Fresh(n), off |-> y, zero |-> 0, hl |-> 0])
     \/ \E x \in HOffs, p \in PS :
           HugeCall("settyped", [h |-> h, typ |-> IF TypOf(h) = "raw" THEN "c" ELSE TypOf(h),
                                 data |-> <<>>, off |-> p, zero |-> 1, hl |-> x])
     \/ \E x \in HOffs, n \in NS : HugeCall("slice", [h |-> h, off |-> x, data |-> Zeros(n), fill |-> 0, hl |-> 0])
     \/ \E x \in HOffs, p \in PS : HugeCall("slice", [h |-> h, off |-> p, data |-> <<>>, fill |-> 0, hl |-> x])
     \/ \E x \in HOffs, t \in Types : (Prune => t \in {TypOf(h), "raw"}) /\ HugeCall("reserve", [h |-> h, len |-> x, typ |-> t])
     \/ \E x \in HOffs, n \in 1..2 : TypOf(h) = "raw" /\
           HugeCall("slicewrite", [h |-> h, off |-> 0, len |-> 0, nblk |-> n, esz |-> x, data |-> <<>>, zero |-> 1])

\* C++ array class
NextHugeXArr ==
  \E h \in H : (Prune => h = 1) /\
     \/ \E x \in HOffs, n \in NS : HugeCall("xinsert", [h |-> h, pos |-> x, data |-> Fresh(n), zero |-> 0, hl |-> 0])
     \/ \E x \in HOffs, p \in PS : HugeCall("xinsert", [h |-> h, pos |-> p, data |-> <<>>, zero |-> 1, hl |-> x])
     \/ \E x \in HOffs : HugeCall("xset", [h |-> h, data |-> <<>>, zero |-> 1, hl |-> x])
     \/ \E x \in HOffs : HugeCall("append", [h |-> h, data |-> <<>>, zero |-> 1, hl |-> x])
     \/ \E x \in HOffs : BufExcl(h, TRUE) /\ HugeCall("xsetlength", [h |-> h, len |-> x])
     \/ \E x \in HOffs, n \in NS : BufExcl(h, FALSE) /\ HugeCall("bufinsert", [h |-> h, pos |-> x, data |-> Fresh(n), hl |-> 0])

\* C++ typed containers (long arguments)
NextHugeXTyped ==
  \E h \in H, y \in HLongs : (Prune => h = 1) /\
     \/ HugeCall("tinsert", [h |-> h, pos |-> y, data |-> <<Fresh(1)[1]>>])
     \/ HugeCall("tset", [h |-> h, pos |-> y, data |-> <<Fresh(1)[1]>>])
     \/ HugeCall("tget", [h |-> h, pos |-> y])
     \/ HugeCall("treserve", [h |-> h, len |-> y])
     \/ HugeCall("tresize", [h |-> h, len |-> y])

Data(n, z) == IF z = 1 THEN Zeros(n) ELSE Fresh(n)

\* Prune = TRUE (behaviour export): handle 1 is the actor of every call except
\* new/clone (handles are symmetric; the others observe and share); calls refused
\* for a content-type reason are offered with one representative argument set;
\* flagged buffers are made through handle 1 (others obtain them by cloning).
TypeOk1(h, t)  == rec[h].typ \in {"none", t}
NextC ==
  \E h \in H : LET A == (Prune => h = 1) IN
     \/ \E n \in 0..MaxArg, imm \in BOOLEAN, nc \in BOOLEAN, t \in Types :
           /\ Prune => ((imm \/ nc) => h = 1)
           /\ (Prune /\ h # 1) => n = 1
           /\ New(h, Fresh(n), imm, nc, t)
     \/ \E n \in 0..MaxArg, z \in {0, 1} :
           /\ A /\ (z = 1 => n > 0)
           /\ (Prune /\ rec[h].typ \notin {"none", "raw"}) => (n = 1 /\ z = 0)
           /\ ArrAppend(h, Data(n, z), z)
     \/ \E pos \in 0..MaxArg, n \in 0..MaxArg, v \in {0, 1} : A /\ Insert(h, pos, Fresh(n), v)
     \/ \E t \in TTypes, n \in 0..MaxArg, off \in (-2)..MaxArg, z \in {0, 1} :
           /\ A /\ (z = 1 => n > 0)
           /\ (Prune /\ ~TypeOk1(h, t)) => (n = ESize(t) /\ off = 0 /\ z = 0)
           /\ SetTyped(h, t, Data(n, z), off, z)
     \/ \E off \in 0..MaxArg, n \in 0..MaxArg, f \in {0, 1} :
           /\ A /\ (f = 0 => n > 0)
           /\ Slice(h, off, IF f = 1 THEN Fresh(n) ELSE Zeros(n), f)
     \/ \E n \in 0..MaxArg, t \in Types, v \in {0, 1} :
           /\ A /\ ((Prune /\ rec[h].typ # t) => n \in {0, MaxArg})
           /\ Reserve(h, n, t, v)
     \/ \E g \in 0..NH : g # h /\ Clone(h, g)
     \/ A /\ Reduce(h)
     \/ \E n \in 0..MaxArg :
           /\ A /\ ((Prune /\ ~TypeOk1(h, "c")) => n = 1)
           /\ Printf(h, Fresh(n))
     \/ A /\ String(h)
     \/ \E off \in 0..Used(h), len \in 0..Used(h), nblk \in 0..MaxArg, esz \in 1..2, z \in {0, 1} :
           /\ A /\ nblk * esz <= MaxArg /\ off + len <= Used(h) /\ (z = 1 => nblk > 0)
           /\ (Prune /\ rec[h].typ \notin {"none", "raw"}) => (off = 0 /\ len = 0 /\ nblk = 1 /\ esz = 1 /\ z = 0)
           /\ LET c == SWKeep(h, off, len, esz, nblk) IN
              SliceWrite(h, off, len, nblk, esz, Data(nblk * esz, z), z, c.k, c.compact, c.realloc)
     \/ \E pos \in 0..MaxArg, n \in 0..MaxArg : A /\ BufInsert(h, pos, Fresh(n))
     \/ \E off \in 0..MaxArg, n \in 0..MaxArg : A /\ BufCut(h, off, n)
     \/ \E t \in Types, pos \in 0..MaxArg, n \in 0..MaxArg, z \in {0, 1} :
           /\ A /\ (z = 1 => n > 0)
           /\ (Prune /\ rec[h].typ # t) => (pos = 0 /\ n = ESize(t) /\ z = 0)
           /\ BufSet(h, t, pos, Data(n, z), z)

\* C++ array/slice class
NextXArr ==
  \E h \in H : LET A == (Prune => h = 1) IN
     \/ \E cap \in 0..MaxArg : (Prune /\ h # 1 => cap = 1) /\ XCtor(h, cap)
     \/ \E n \in 0..MaxArg, imm \in BOOLEAN, nc \in BOOLEAN :
           /\ Prune => ((imm \/ nc) => h = 1)
           /\ (Prune /\ h # 1) => n = 1
           /\ New(h, Fresh(n), imm, nc, "raw")
     \/ \E n \in 0..MaxArg, z \in {0, 1} :
           /\ A /\ (z = 1 => n > 0)
           /\ (Prune /\ rec[h].typ \notin {"none", "raw"}) => (n = 1 /\ z = 0)
           /\ ArrAppend(h, Data(n, z), z)
     \/ \E pos \in 0..MaxArg, n \in 0..MaxArg, z \in {0, 1} :
           /\ A /\ (z = 1 => n > 0)
           /\ (Prune /\ rec[h].typ \notin {"none", "raw"}) => (pos = 0 /\ n = 1 /\ z = 0)
           /\ XInsert(h, pos, Data(n, z), z)
     \/ \E n \in 0..MaxArg, z \in {0, 1} : A /\ (z = 1 => n > 0) /\ XSet(h, Data(n, z), z)
     \/ \E n \in 0..MaxArg : A /\ XSetLength(h, n)
     \/ \E n \in 0..MaxArg : A /\ (Prune => n <= 1) /\ XSetValue(h, Fresh(n))
     \/ \E g \in 0..NH : g # h /\ Clone(h, g)
     \/ \E n \in 0..MaxArg :
           /\ A /\ ((Prune /\ ~TypeOk1(h, "c")) => n = 1)
           /\ Printf(h, Fresh(n))
     \/ A /\ String(h)
     \/ \E off \in 0..Used(h), len \in 0..Used(h), nblk \in 0..MaxArg, esz \in 1..2, z \in {0, 1} :
           /\ A /\ nblk * esz <= MaxArg /\ off + len <= Used(h) /\ (z = 1 => nblk > 0)
           /\ (Prune /\ rec[h].typ \notin {"none", "raw"}) => (off = 0 /\ len = 0 /\ nblk = 1 /\ esz = 1 /\ z = 0)
           /\ LET c == SWKeep(h, off, len, esz, nblk) IN
              SliceWrite(h, off, len, nblk, esz, Data(nblk * esz, z), z, c.k, c.compact, c.realloc)
     \/ \E pos \in 0..MaxArg, n \in 0..MaxArg : A /\ BufInsert(h, pos, Fresh(n))
     \/ \E k1 \in {0, 1}, n1 \in 0..MaxArg, k2 \in {0, 1}, n2 \in (-MaxArg)..MaxArg, k3 \in {0, 1}, n3 \in {-1} :
           /\ A /\ n2 # 0 /\ Used(h) > 0 /\ rec[h].typ = "raw"
           /\ Prune => (n1 <= Used(h) /\ k3 = 1 - k2)
           /\ XWin(h, <<k1, n1, k2, n2, k3, n3>>)

\* typed_array<uint8_t>, unique_array<uint8_t>, pointer_array<T>
NextXTyped ==
  \E h \in H : LET A == (Prune => h = 1) IN
     \/ \E len \in (-1)..MaxArg : (Prune /\ h # 1 => len = 1) /\ TCtor(h, len)
     \/ \E g \in 0..NH : g # h /\ Clone(h, g)
     \/ \E pos \in (-2)..MaxArg, z \in {0, 1} :
           /\ (Prune /\ h # 1) => (pos = 0 /\ z = 0)
           /\ z = 1 => Api = "xptr"
           /\ TInsert(h, pos, IF z = 1 THEN 0 ELSE Fresh(1)[1])
     \/ \E pos \in (-2)..MaxArg, z \in {0, 1} : A /\ (z = 1 => Api = "xptr") /\ TSet(h, pos, IF z = 1 THEN 0 ELSE Fresh(1)[1])
     \/ \E pos \in (-2)..MaxArg : A /\ TGet(h, pos)
     \/ \E len \in (-2)..MaxArg : A /\ TReserve(h, len)
     \/ \E len \in 0..MaxArg : A /\ TResize(h, len)
     \/ A /\ Api = "xptr" /\ PCompact(h)

\* map<uint8_t, uint8_t>
NextXMap ==
  \E h \in H : LET A == (Prune => h = 1) IN
     \/ \E g \in 0..NH : g # h /\ Clone(h, g)
     \/ \E k \in 1..3, app \in {0, 1} : (Prune /\ h # 1 => app = 1 /\ k = 1) /\ MapSet(h, k, (ctr % 15) + 1, app)
     \/ \E k \in 1..3 : A /\ MapGet(h, k)
     \/ \E k \in 0..3 : A /\ MapValues(h, k)

Next == CASE Api = "c" -> NextC \/ NextHugeC
          [] Api = "xarr" -> NextXArr \/ NextHugeXArr
          [] Api \in {"xtyped", "xunique", "xptr"} -> NextXTyped \/ NextHugeXTyped
          [] Api = "xmap" -> NextXMap

Spec == Init /\ [][Next]_vars

---------------------------------------------------------------------------
(* invariants *)
TypeOK ==
  /\ \A h \in H : /\ vtyp[h] \in Types \cup XTypes \cup {"none"}
                  /\ rec[h].typ \in Types \cup XTypes \cup {"none"}
                  /\ Len(rec[h].data) <= rec[h].size
                  /\ Len(rec[h].data) % ESize(rec[h].typ) = 0
                  /\ h \in share[h]

\* aliases see one buffer; sharing is an equivalence; null handles share nothing
AliasOK ==
  \A h \in H : /\ \A g \in share[h] : rec[g] = rec[h] /\ share[g] = share[h]
               /\ IsNull(h) => share[h] = {h}

\* Tier 2 implements Tier 1: every handle reads its own independent value
Refines == \A h \in H : rec[h].data = val[h] /\ rec[h].typ = vtyp[h]

\* storage that is shared or immutable is never written in place
NoTouch == touch = {}

\* action properties
Independent == [][\A h \in H : (h # obs'.arg.h) => (val'[h] = val[h] /\ vtyp'[h] = vtyp[h])]_vars
RefuseFrame == [][obs'.exp.ret = "refused" =>
                    (val' = val /\ vtyp' = vtyp /\ \A h \in H : rec'[h].data = rec[h].data)]_vars
=============================================================================
