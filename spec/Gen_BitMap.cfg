SPECIFICATION GenSpec
CONSTANTS MaxBytes = 2 InitBytes = {0, 255, 165} Far = 9 MaxDepth = 4
CONSTRAINT Bound
VIEW Skel
INVARIANTS TypeOK Refines
ACTION_CONSTRAINT Emit
CHECK_DEADLOCK FALSE
