---------------------------- MODULE Gen_RefCount ----------------------------
(* Behaviour export: one JSON line per generated transition.  The view is  *)
(* the whole reference structure (there is no payload).  Counter values    *)
(* above Max \div 2 stand for "UINTPTR_MAX - (Max - v)" in the driver; the  *)
(* constraint keeps a counter from walking from one range into the other.  *)
EXTENDS RefCount, Json
VARIABLE hist
GenInit == Init /\ hist = <<obs>>
GenNext == Next /\ hist' = Append(hist, obs')
GenSpec == GenInit /\ [][GenNext]_<<vars, hist>>
Skel == <<kind, holds, copyh, hascopy, extra, defer, made, cnt, alive, snd, tries, inner, origin, tlen>>
NoGapWalk == \A o \in Objs : cnt[o] <= Max \div 2 - 1 \/ cnt[o] >= Max - 1
(* narrower exploration for the quick tier: counter pokes, plain-pointer references and deferred *)
(* handles are not combined with an array copy, and only one object at a time is poked        *)
High(o) == cnt[o] >= Max - 1
Narrow == /\ hascopy => \A o \in Objs : extra[o] = 0 /\ defer[o] = 0 /\ ~High(o)
          /\ Cardinality({o \in Objs : High(o)}) <= 1
          /\ \A o \in Objs : High(o) => defer[o] = 0
          /\ \A o \in Objs : (tries[o] > 0 \/ ~snd[o]) => (~hascopy /\ extra[o] = 0)
          /\ (\E o \in Objs : inner[o] # 0) => (~hascopy /\ \A o \in Objs : extra[o] = 0 /\ ~High(o))
NarrowGap == NoGapWalk /\ Narrow
(* every exported behaviour ends with the release of everything (expectation computed here by TLC) *)
Emit == LET td == [a |-> "teardown", arg |-> [x |-> 0], exp |-> TeardownExp(kind', alive', cnt')] IN
        PrintT(<<"BEHAV", ToJson(IF CanTeardown(kind', cnt') /\ obs'.a # "teardown" THEN Append(hist', td) ELSE hist')>>)
=============================================================================
