SPECIFICATION GenSpec
CONSTANTS MaxOps = 4 RawOps = 4 TouchMem = 1
  Shapes <- FileShapesQ
  Datas <- DatasFileQ
  Ks <- KsQ
  OpenArgs <- OpenQ
  SeekArgs <- SeekQ
  Parts = {1, 2}
  Early = {0}
  Ahead = {0}
VIEW Skel
ACTION_CONSTRAINT Emit
CHECK_DEADLOCK FALSE
