---------------------------- MODULE MC_LogSink ----------------------------
(* Exhaustive configurations of LogSink: every message (head x text over   *)
(* the alphabet) x every cut into pieces (the cut is the path of Push(k)    *)
(* steps) x every sink configuration; optional abandon / level change /     *)
(* logger call / producer call at every point.                              *)
EXTENDS LogSink

Cf(k, f, i, c, p, t) == [kind |-> k, file |-> f, ignore |-> i, color |-> c, pass |-> p, tty |-> t]
\* plain log file and history, with and without a file, two levels
CfgsFile  == {Cf(k, f, i, 0, 0, 0) : k \in {"logfile", "history"}, f \in {"none", "mem"}, i \in {0, 8}}
CfgsLf    == {Cf("logfile", f, 8, 0, 0, 0) : f \in {"none", "mem"}}
\* the local output (default: file = stdout, colour flag, level info) with / without a next output
CfgsLocal == {Cf("local", f, 8, 1, p, 0) : f \in {"stdout", "mem"}, p \in {0, 1}}
CfgsAll   == CfgsFile \cup CfgsLocal
CfgsMix   == {Cf("logfile", "mem", 8, 0, 0, 0), Cf("history", "none", 0, 0, 0, 0), Cf("history", "mem", 8, 0, 0, 0),
              Cf("local", "stdout", 8, 1, 1, 0), Cf("local", "mem", 8, 1, 0, 0)}
CfgsRich  == {Cf("logfile", "mem", 0, 0, 0, 0), Cf("logfile", "none", 8, 0, 0, 0), Cf("history", "mem", 8, 0, 0, 0),
              Cf("local", "stdout", 8, 1, 1, 0)}
CfgsOpsQ  == {Cf("logfile", "mem", 8, 0, 0, 0), Cf("history", "mem", 8, 0, 0, 0), Cf("local", "stdout", 8, 1, 1, 0)}
CfgsV     == {Cf("logfile", "mem", 0, 0, 0, 0), Cf("history", "none", 8, 0, 0, 0), Cf("local", "stdout", 8, 1, 0, 0)}
\* terminals: decoration on
CfgsTty   == {Cf("logfile", "mem", 0, 1, 0, 1), Cf("logfile", "none", 8, 1, 0, 1), Cf("local", "stdout", 8, 1, 0, 1)}

\* heads: user message, error, info, file+error, unknown flag bit, answers (0, positive, negative), command, a single byte
HeadsPlain == {<<0, 0>>, <<0, 3>>, <<0, 8>>, <<0, 35>>, <<0, 32>>, <<0, 67>>, <<1, 0>>, <<1, 5>>, <<1, 255>>, <<4, 0>>, <<0>>, <<7>>}
HeadsPlainQ == {<<0, 0>>, <<0, 3>>, <<0, 8>>, <<0, 35>>, <<1, 5>>, <<1, 255>>, <<4, 0>>, <<0>>}
HeadsRich  == {<<0, 128>>, <<0, 131>>, <<0, 163>>, <<0, 136>>}
HeadsVal   == {<<9, 1, 224>>, <<0, 3>>, <<0, 131>>, <<4, 32>>}
HeadsFew   == {<<0, 3>>, <<0, 35>>, <<0, 131>>, <<0, 8>>, <<1, 5>>, <<4, 0>>}
HeadsOps   == {<<0, 3>>, <<0, 35>>, <<0, 131>>, <<0, 8>>, <<4, 0>>, <<9, 1, 224>>, <<8, 0, 0, 224>>, <<0>>}
HeadsChain == {<<0, 3>>, <<0, 131>>, <<4, 0>>, <<9, 1, 224>>, <<0, 8>>, <<8, 0, 0, 224>>}
HeadsVal2  == {<<9, 2, 224, 224>>, <<9, 1, 224>>, <<9, 0>>, <<8, 0, 0, 224>>, <<8, 7, 3, 224>>, <<0, 3>>, <<0, 8>>}
CfgsHistQ  == {Cf("history", "mem", 8, 0, 0, 0), Cf("local", "stdout", 8, 1, 1, 0)}
HeadsValG  == HeadsVal2 \ {<<9, 0>>}       \* replayed: inline formats need format bytes at every second place
CfgsHist   == {Cf("history", "mem", 8, 0, 0, 0), Cf("local", "stdout", 8, 1, 1, 0), Cf("local", "mem", 8, 1, 0, 0)}
HeadsOne   == {<<0, 3>>}
HeadsTty   == {<<0, 3>>, <<0, 35>>, <<0, 131>>, <<0, 163>>, <<0, 128>>, <<1, 5>>, <<1, 0>>, <<0, 0>>}

Lv(n, u, x, v) == [name |-> n, usenum |-> u, num |-> x, val |-> v]
LevelsA == {Lv("s:ignore", 1, 0, "-"), Lv("s:Ignore", 1, 4, "-"), Lv("s:level", 0, 0, "s:debug2"),
            Lv("s:level", 0, 0, "s:error"), Lv("s:Level", 0, 0, "s:INFO"), Lv("s:level", 0, 0, "s:loud")}

LevelsB == {Lv("s:Ignore", 1, 4, "-"), Lv("s:level", 0, 0, "s:debug2"), Lv("s:level", 0, 0, "s:loud")}
Cl(f, hf, ty, tx, ht) == [from |-> f, hasfrom |-> hf, type |-> ty, text |-> tx, hastext |-> ht]
\* type flags: 0x20 file, 0x100 prefix, 0x800 function
CallsA == {Cl(<<102>>, 1, 3, <<116, 120>>, 1), Cl(<<102>>, 1, 2051, <<116>>, 1), Cl(<<>>, 0, 3, <<116, 120>>, 1),
           Cl(<<102>>, 1, 35, <<>>, 0), Cl(<<>>, 0, 0, <<116>>, 1), Cl(<<>>, 1, 8, <<116>>, 1),
           Cl(<<102, 110>>, 1, 291, <<116, 10, 120>>, 1), Cl(<<>>, 0, 259, <<>>, 1)}
\* around the limit of the message buffer (LogMax = 12 in the small driver)
CallsV == {Cl(f, hf, ty, tx, 1) : f \in {<<>>, <<102>>, <<102, 110, 99>>}, hf \in {0, 1}, ty \in {3, 2051},
                                  tx \in {<<>>, <<116>>, [i \in 1..5 |-> 116], [i \in 1..6 |-> 116], [i \in 1..7 |-> 116],
                                          [i \in 1..8 |-> 116], [i \in 1..9 |-> 116], [i \in 1..10 |-> 116], [i \in 1..12 |-> 116]}}
         \cup {Cl([i \in 1..n |-> 102], 1, 3, <<116>>, 1) : n \in 6..9}

CallsB == {Cl(<<102>>, 1, 2051, <<116>>, 1), Cl(<<>>, 0, 35, <<116, 120>>, 1), Cl(<<102, 110>>, 1, 291, <<>>, 0)}
CallsAll == CallsA \cup CallsV
MCView == <<cfg, snk, wr, todo, held, cur, lvl0>>
=============================================================================
