------------------------------ MODULE Gen_IoBuf ------------------------------
(* Behaviour export: one JSON line per generated transition of the control *)
(* skeleton (buffer 1: consumed, readable, unfinished counts and where the *)
(* first zero byte sits; other buffers: present; array 1: length).         *)
EXTENDS IoBuf, Json
CONSTANT MaxDepth
VARIABLE hist
GenInit == Init /\ hist = <<obs>>
GenNext == Next /\ hist' = Append(hist, obs')
GenSpec == GenInit /\ [][GenNext]_<<vars, hist>>
Bound == /\ Len(hist) <= MaxDepth
         /\ \A k \in B : Len(rep[k].bytes) <= MaxLen
         /\ \A h \in A : Len(arr[h]) <= MaxLen
Skel == <<buf[1].on, Len(buf[1].pre), Len(buf[1].q), Len(buf[1].s), Nul(buf[1].q),
          [k \in B \ {1} |-> buf[k].on], Len(arr[1])>>
Emit == PrintT(<<"BEHAV", ToJson(hist')>>)
=============================================================================
