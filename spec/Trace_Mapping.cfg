SPECIFICATION TraceSpec
CONSTANTS DimSeq <- TDims MaskSeq <- TMasks CliSeq <- TClis DestSeq <- NoSeq PathSeq <- NoSeq Toks <- None
  Impl = "c" WithAll = TRUE Acts <- ActsNone
  ItemSet <- None MaxItems = 0 GapSet <- None EdgeGaps <- None Letters <- None MaxLetters = 0 LetterGaps <- None
  NodeSet <- None MaxNodes = 0
INVARIANTS TypeOK Refines OneEntryPerKey OneDimPerDest RegRefines BoundRegistered
POSTCONDITION TraceAccepted
CHECK_DEADLOCK FALSE
