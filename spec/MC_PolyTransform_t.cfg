SPECIFICATION SpecT
CONSTANTS
  Alphabet <- Alpha5
  Alphabet2 <- Alpha5
  Ranges <- Rng3
  MaxLen = 6
  Limit = 65535
  Chunked = FALSE
  NoRangeLen = 4
  CodeDen = {}
  Dims = 1
  Kinds <- KindsAll
  HalfLimits = FALSE
  Uneven = "same"
VIEW View
INVARIANTS TypeOKT PartsOKT PartitionT CompleteT DevOKT NoNonPosDrawn
CHECK_DEADLOCK FALSE
