---- MODULE MC_Stream_TTrace_1790463809 ----
EXTENDS Sequences, TLCExt, Toolbox, MC_Stream, Naturals, TLC

_expression ==
    LET MC_Stream_TEExpression == INSTANCE MC_Stream_TEExpression
    IN MC_Stream_TEExpression!expression
----

_trace ==
    LET MC_Stream_TETrace == INSTANCE MC_Stream_TETrace
    IN MC_Stream_TETrace!trace
----

_inv ==
    ~(
        TLCGet("level") = Len(_TETrace)
        /\
        cur = ([msg |-> <<>>, done |-> 0])
        /\
        obs = ([a |-> "start", arg |-> [data |-> <<>>], exp |-> [ret |-> "ok"]])
        /\
        wire = (<<>>)
        /\
        shape = ([wcap |-> 8, woff |-> 0, rcap |-> 8, roff |-> 0, grow |-> 8])
        /\
        wdone = (<<>>)
        /\
        rpend = (<<>>)
        /\
        rcvd = (<<>>)
        /\
        sent = (<<>>)
    )
----

_init ==
    /\ wire = _TETrace[1].wire
    /\ cur = _TETrace[1].cur
    /\ rpend = _TETrace[1].rpend
    /\ rcvd = _TETrace[1].rcvd
    /\ wdone = _TETrace[1].wdone
    /\ shape = _TETrace[1].shape
    /\ sent = _TETrace[1].sent
    /\ obs = _TETrace[1].obs
----

_next ==
    /\ \E i,j \in DOMAIN _TETrace:
        /\ \/ /\ j = i + 1
              /\ i = TLCGet("level")
        /\ wire  = _TETrace[i].wire
        /\ wire' = _TETrace[j].wire
        /\ cur  = _TETrace[i].cur
        /\ cur' = _TETrace[j].cur
        /\ rpend  = _TETrace[i].rpend
        /\ rpend' = _TETrace[j].rpend
        /\ rcvd  = _TETrace[i].rcvd
        /\ rcvd' = _TETrace[j].rcvd
        /\ wdone  = _TETrace[i].wdone
        /\ wdone' = _TETrace[j].wdone
        /\ shape  = _TETrace[i].shape
        /\ shape' = _TETrace[j].shape
        /\ sent  = _TETrace[i].sent
        /\ sent' = _TETrace[j].sent
        /\ obs  = _TETrace[i].obs
        /\ obs' = _TETrace[j].obs

\* Uncomment the ASSUME below to write the states of the error trace
\* to the given file in Json format. Note that you can pass any tuple
\* to `JsonSerialize`. For example, a sub-sequence of _TETrace.
    \* ASSUME
    \*     LET J == INSTANCE Json
    \*         IN J!JsonSerialize("MC_Stream_TTrace_1790463809.json", _TETrace)

=============================================================================

 Note that you can extract this module `MC_Stream_TEExpression`
  to a dedicated file to reuse `expression` (the module in the 
  dedicated `MC_Stream_TEExpression.tla` file takes precedence 
  over the module `MC_Stream_TEExpression` below).

---- MODULE MC_Stream_TEExpression ----
EXTENDS Sequences, TLCExt, Toolbox, MC_Stream, Naturals, TLC

expression == 
    [
        \* To hide variables of the `MC_Stream` spec from the error trace,
        \* remove the variables below.  The trace will be written in the order
        \* of the fields of this record.
        wire |-> wire
        ,cur |-> cur
        ,rpend |-> rpend
        ,rcvd |-> rcvd
        ,wdone |-> wdone
        ,shape |-> shape
        ,sent |-> sent
        ,obs |-> obs
        
        \* Put additional constant-, state-, and action-level expressions here:
        \* ,_stateNumber |-> _TEPosition
        \* ,_wireUnchanged |-> wire = wire'
        
        \* Format the `wire` variable as Json value.
        \* ,_wireJson |->
        \*     LET J == INSTANCE Json
        \*     IN J!ToJson(wire)
        
        \* Lastly, you may build expressions over arbitrary sets of states by
        \* leveraging the _TETrace operator.  For example, this is how to
        \* count the number of times a spec variable changed up to the current
        \* state in the trace.
        \* ,_wireModCount |->
        \*     LET F[s \in DOMAIN _TETrace] ==
        \*         IF s = 1 THEN 0
        \*         ELSE IF _TETrace[s].wire # _TETrace[s-1].wire
        \*             THEN 1 + F[s-1] ELSE F[s-1]
        \*     IN F[_TEPosition - 1]
    ]

=============================================================================



Parsing and semantic processing can take forever if the trace below is long.
 In this case, it is advised to uncomment the module below to deserialize the
 trace from a generated binary file.

\*
\*---- MODULE MC_Stream_TETrace ----
\*EXTENDS IOUtils, MC_Stream, TLC
\*
\*trace == IODeserialize("MC_Stream_TTrace_1790463809.bin", TRUE)
\*
\*=============================================================================
\*

---- MODULE MC_Stream_TETrace ----
EXTENDS MC_Stream, TLC

trace == 
    <<
    ([cur |-> "none",obs |-> [a |-> "init", arg |-> [wcap |-> 8, woff |-> 0, rcap |-> 8, roff |-> 0, grow |-> 8], exp |-> [ret |-> "ok"]],wire |-> <<>>,shape |-> [wcap |-> 8, woff |-> 0, rcap |-> 8, roff |-> 0, grow |-> 8],wdone |-> <<>>,rpend |-> <<>>,rcvd |-> <<>>,sent |-> <<>>]),
    ([cur |-> [msg |-> <<>>, done |-> 0],obs |-> [a |-> "start", arg |-> [data |-> <<>>], exp |-> [ret |-> "ok"]],wire |-> <<>>,shape |-> [wcap |-> 8, woff |-> 0, rcap |-> 8, roff |-> 0, grow |-> 8],wdone |-> <<>>,rpend |-> <<>>,rcvd |-> <<>>,sent |-> <<>>])
    >>
----


=============================================================================

---- CONFIG MC_Stream_TTrace_1790463809 ----
CONSTANTS
    MaxCode = 5
    NMsg = 2
    MsgSet <- MsgsQ
    Shapes <- OneShape
    Ks <- KsQ

INVARIANT
    _inv

CHECK_DEADLOCK
    \* CHECK_DEADLOCK off because of PROPERTY or INVARIANT above.
    FALSE

INIT
    _init

NEXT
    _next

CONSTANT
    _TETrace <- _trace

ALIAS
    _expression
=============================================================================
\* Generated on Sat Sep 26 23:03:30 UTC 2026