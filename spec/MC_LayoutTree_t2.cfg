SPECIFICATION SpecMC
CONSTANTS MaxSecs = 4 MaxOpts = 1 MaxMem = 1 MaxTop = 3 MaxDocs = 1 MaxSteps = 0 Mode = "mc"
VIEW View
INVARIANTS TypeOK Refines Contained BindsNamed CopiesEqual
PROPERTIES OptFrame Reported OpenFrame
CHECK_DEADLOCK FALSE
