------------------------------ MODULE Gen_Reply ------------------------------
(* Behaviour export: one JSON line per generated transition of the control *)
(* skeleton (who holds a request where, references, transport state, and   *)
(* whether the last call was a rejected send); id bytes are symmetric.     *)
EXTENDS Reply, Json
VARIABLE hist
GenInit == Init /\ hist = <<obs>>
GenNext == Next /\ hist' = Append(hist, obs')
GenSpec == GenInit /\ [][GenNext]_<<vars, hist>>
Rejected == obs.a \in {"reply", "replytext", "dreply", "release"} /\ obs.exp.ret = "refused"
Skel  == <<mode, max, target, own, attached, clen, [h \in 1..MaxH |-> handles[h] # <<>>], reqs # <<>>,
           Rejected, IF Rejected THEN obs.a ELSE "">>
Emit  == PrintT(<<"BEHAV", ToJson(hist')>>)
CMsgDom == {<<0, 2, 104, 105>>, <<>>, <<7>>}
CTextDom == {<<2, <<111, 107>>>>, <<255, <<>>>>}
=============================================================================
