SPECIFICATION TraceSpec
CONSTANTS MaxOps = 1000000 RawOps = 1000000
  Shapes = {}
  Datas = {}
  RawDatas = {}
  Ks = {}
  OpenArgs = {}
  SeekArgs = {}
  Parts = {}
  Early = {}
  Ahead = {}
INVARIANTS RawConservation RawRefines FileRefines ReadRefines FlushComplete
PROPERTIES RawTiling RawPeek RawDiscard ReadIsFile EndlExact
POSTCONDITION TraceAccepted
CHECK_DEADLOCK FALSE
