SPECIFICATION Spec
CONSTANTS
  Alphabet = {0, 32, 34, 97}
  MaxLen = 4
  MaxFrag = 3
  MaxDst = 3
  MaxDstFrag = 2
  MaxQ = 3
  Ops = {"read", "length", "argv", "arrmsg", "memchr", "memfcn", "memstr", "memtok", "memcpy", "append", "qget"}
  EmptyBases = {"slice"}
  ForeignBytes = {97}
  ArrKinds = {"exact", "shared", "roomy"}
  MaxFail = 4
VIEW View
INVARIANTS TypeOK Refines
PROPERTIES DesignAgrees Normalised OnceAgrees
CHECK_DEADLOCK FALSE
