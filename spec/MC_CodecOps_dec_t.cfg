SPECIFICATION XSpec
CONSTANTS
  Mode = "dec"
  Kinds <- KindsDT
  Alpha <- AlphaD
  MaxMsg = 0
  MaxMsgs = 0
  Caps <- None
  Grows <- None
  Pres <- None
  DelKs <- None
  NextSet <- None
  Shifts <- None
  DMaxLen = 3
  DSlacks <- Sl02
  DGrants <- Gr2
  DStreams <- Streams3
  DFeeds <- Fd123
  DQs <- Q123
  DOps <- OpsAll
  DMis <- Mis01
  CapMax = 0
CONSTRAINT BoundD
VIEW View
INVARIANTS DTypeOK
PROPERTIES DAnswerAllowed SizeSound ResetClears NoSourceKeeps SizeKeepsState ResetIdempotent DAnswerHonest DUnreadKept
CHECK_DEADLOCK FALSE
