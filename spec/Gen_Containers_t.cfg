SPECIFICATION GenSpec
CONSTANTS NH = 2 NO = 2 NN = 2 MaxLen = 3 MaxLen2 = 1 MaxSub = 2 MaxArg = 3 Kinds = {"ref", "item", "group", "cfg", "cmd", "stage"} Solo = {2} Fails = {0, 1, 2} FailOut = FALSE Prune = TRUE MaxDepth = 9
CONSTRAINT Bound
VIEW Skel
INVARIANTS TypeOK AliasOK Refines Balance AllGone OneSlot
ACTION_CONSTRAINT Emit
CHECK_DEADLOCK FALSE
