SPECIFICATION Spec
CONSTANTS
  Kinds <- KindsQ
  Alpha <- AlphaQ
  MaxLen = 4
  Slacks <- SlacksQ
  Grants <- GrantsQ
CONSTRAINT Bound
VIEW View
INVARIANTS TypeOK AnswerAllowed
PROPERTIES AnswerHonest UnreadKept PeekKeepsInput
CHECK_DEADLOCK FALSE
