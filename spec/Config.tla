------------------------------- MODULE Config -------------------------------
(***************************************************************************)
(* Configuration store of mptcore/config and mpt++/config.cpp (C10).       *)
(*                                                                         *)
(* Part 1 -- the store.                                                    *)
(*   Tier 1 (meaning): tree -- a finite map from paths (non-empty          *)
(*     sequences of element names) to a value or NoVal; its domain is      *)
(*     closed under prefixes (the inner elements made on the way exist     *)
(*     without value).                                                     *)
(*   Tier 2 (design):  st -- a forest of slots [u, n, v, k] (in use, name, *)
(*     value, children) searched front to back for the first slot of a     *)
(*     name: Design = "list" are the node lists of the process-wide        *)
(*     configuration (node_query.c / node_assign.c: longest existing       *)
(*     prefix, then the missing elements are appended; removal takes the   *)
(*     node out), Design = "items" the config_item arrays of               *)
(*     mpt++ config::root (removal marks a slot unused, creation takes the *)
(*     first unused slot).                                                 *)
(*   The same store is used directly ("top": paths from the root) and      *)
(*   through a sub-tree view with base path Base ("view": paths relative   *)
(*   to Base; the empty relative path is the base element itself).         *)
(* Part 2 -- the path object (struct path): pel is the list of elements    *)
(*   it stands for, po = [buf, off, len, first, sep, asg] mirrors the      *)
(*   struct; Split is the meaning of a path string.                        *)
(* Names, values and strings are sequences of character codes.             *)
(***************************************************************************)
EXTENDS Integers, Sequences, FiniteSets, TLC

CONSTANTS Names,   \* sequence of the element names of the universe
          Depth,   \* longest path of the universe
          Vals,    \* values offered (sequences of bytes)
          Sep,     \* separator of the path strings given to the store
          Design,  \* "list" | "items"
          Base,    \* base path of the sub-tree view (<<>>: no view)
          MaxSlots, \* bound on the elements in the store (exhaustive runs)
          Ends,    \* end characters offered to assignments (0 = none)
          Strs, Seps, Asgs, Elems   \* path object: strings, separators, end characters, elements to add

VARIABLES tree, st,      \* store: Tier 1, Tier 2
          pel, po,       \* path object: Tier 1, Tier 2
          obs
vars == <<tree, st, pel, po, obs>>

NoVal == <<-1>>
Front(s) == SubSeq(s, 1, Len(s) - 1)
Rest(s) == SubSeq(s, 2, Len(s))
RECURSIVE Flat(_)
Flat(ss) == IF ss = <<>> THEN <<>> ELSE ss[1] \o Flat(Rest(ss))
IsPrefix(p, q) == Len(p) <= Len(q) /\ SubSeq(q, 1, Len(p)) = p
MinOf(S) == CHOOSE x \in S : \A y \in S : x <= y

---------------------------------------------------------------------------
(* path strings *)
RECURSIVE Join(_, _)
Join(p, sep) == IF Len(p) = 1 THEN p[1] ELSE p[1] \o <<sep>> \o Join(Rest(p), sep)
RECURSIVE Split(_, _)
Split(s, sep) ==
  IF \E i \in 1..Len(s) : s[i] = sep
  THEN LET i == MinOf({j \in 1..Len(s) : s[j] = sep})
       IN <<SubSeq(s, 1, i - 1)>> \o Split(SubSeq(s, i + 1, Len(s)), sep)
  ELSE <<s>>
\* the part of a string before the end character (0: the whole string)
UpTo(s, asg) == IF asg # 0 /\ \E i \in 1..Len(s) : s[i] = asg
                THEN SubSeq(s, 1, MinOf({j \in 1..Len(s) : s[j] = asg}) - 1) ELSE s

\* the universe: all paths over Names of length 1..d, in a fixed order
RECURSIVE PathsOf(_)
PathsOf(d) == IF d = 0 THEN << <<>> >>
              ELSE Flat([i \in 1..Len(PathsOf(d - 1)) |->
                          [j \in 1..Len(Names) |-> Append(PathsOf(d - 1)[i], Names[j])]])
Universe(d) == Flat([k \in 1..d |-> PathsOf(k)])
Uni == Universe(Depth)                                  \* paths from the root
RelUni == IF Base = <<>> THEN <<>>                      \* paths below the view (first: the base itself)
          ELSE << <<>> >> \o Universe(Depth - Len(Base))

---------------------------------------------------------------------------
(* Tier 1: the map *)
Prefixes(p) == {SubSeq(p, 1, k) : k \in 1..Len(p)}
TGet(t, p) == IF p \in DOMAIN t THEN t[p] ELSE NoVal
TAssign(t, p, v) ==
  [q \in DOMAIN t \cup Prefixes(p) |-> IF q = p THEN v ELSE IF q \in DOMAIN t THEN t[q] ELSE NoVal]
TRemove(t, p) == [q \in {r \in DOMAIN t : ~IsPrefix(p, r)} |-> t[q]]
TClearBelow(t, p) == [q \in {r \in DOMAIN t : ~(IsPrefix(p, r) /\ r # p)} |-> t[q]]

(* Tier 2: slots *)
Find(f, nm) == IF \E i \in 1..Len(f) : f[i].u /\ f[i].n = nm
               THEN MinOf({i \in 1..Len(f) : f[i].u /\ f[i].n = nm}) ELSE 0
Unused(f) == IF \E i \in 1..Len(f) : ~f[i].u THEN MinOf({i \in 1..Len(f) : ~f[i].u}) ELSE 0
Blank == [u |-> FALSE, n |-> <<>>, v |-> NoVal, k |-> <<>>]
RECURSIVE SGet(_, _)
SGet(f, p) == LET i == Find(f, p[1]) IN
              IF i = 0 THEN NoVal ELSE IF Len(p) = 1 THEN f[i].v ELSE SGet(f[i].k, Rest(p))
RECURSIVE Chain(_, _)          \* new slots for the missing elements, value at the last
Chain(p, v) == [u |-> TRUE, n |-> p[1], v |-> IF Len(p) = 1 THEN v ELSE NoVal,
                k |-> IF Len(p) = 1 THEN <<>> ELSE <<Chain(Rest(p), v)>>]
RECURSIVE SAssign(_, _, _)
SAssign(f, p, v) ==
  LET i == Find(f, p[1]) IN
  IF i # 0 THEN IF Len(p) = 1 THEN [f EXCEPT ![i].v = v]
                ELSE [f EXCEPT ![i].k = SAssign(@, Rest(p), v)]
  ELSE IF Design = "items" /\ Unused(f) # 0 THEN [f EXCEPT ![Unused(f)] = Chain(p, v)]
  ELSE Append(f, Chain(p, v))
RECURSIVE SRemove(_, _)
SRemove(f, p) ==
  LET i == Find(f, p[1]) IN
  IF i = 0 THEN f
  ELSE IF Len(p) > 1 THEN [f EXCEPT ![i].k = SRemove(@, Rest(p))]
  ELSE IF Design = "items" THEN [f EXCEPT ![i] = Blank]
  ELSE SubSeq(f, 1, i - 1) \o SubSeq(f, i + 1, Len(f))
RECURSIVE SClearBelow(_, _)
SClearBelow(f, p) ==
  LET i == Find(f, p[1]) IN
  IF i = 0 THEN f
  ELSE IF Len(p) > 1 THEN [f EXCEPT ![i].k = SClearBelow(@, Rest(p))]
  ELSE [f EXCEPT ![i].k = <<>>]

\* refinement mapping
RECURSIVE SPaths(_)
SPaths(f) == UNION {{<<f[i].n>>} \cup {<<f[i].n>> \o q : q \in SPaths(f[i].k)} : i \in {j \in 1..Len(f) : f[j].u}}
AbsTree(f) == [p \in SPaths(f) |-> SGet(f, p)]
RECURSIVE NoDup(_)
NoDup(f) == /\ \A i, j \in 1..Len(f) : (f[i].u /\ f[j].u /\ f[i].n = f[j].n) => i = j
            /\ \A i \in 1..Len(f) : NoDup(f[i].k)
RECURSIVE Count(_)
Count(f) == IF f = <<>> THEN 0 ELSE (IF f[1].u THEN 1 ELSE 0) + Count(f[1].k) + Count(Rest(f))

Refines == AbsTree(st) = tree /\ NoDup(st)
PrefixClosed == \A p \in DOMAIN tree : Len(p) >= 1 /\ \A k \in 1..Len(p) : SubSeq(p, 1, k) \in DOMAIN tree

---------------------------------------------------------------------------
(* observation: after every call every path of the universe is queried,    *)
(* from the root and (with a view) relative to the base                    *)
AllOf(t) == [i \in 1..Len(Uni) |-> TGet(t, Uni[i])]
RelOf(t) == [i \in 1..Len(RelUni) |-> TGet(t, Base \o RelUni[i])]
\* anyret: the property is silent about the answer of this call
AnsCx(a, arg, ret, anyret) ==
  obs' = [a |-> a, arg |-> arg,
          exp |-> [ret |-> ret, anyret |-> anyret, nodes |-> Count(st'), all |-> AllOf(tree'), rel |-> RelOf(tree'),
                   all2 |-> [i \in 1..Len(Uni) |-> SGet(st', Uni[i])]]]
AnsC(a, arg, ret) == AnsCx(a, arg, ret, FALSE)
AnyC(a, arg) == AnsCx(a, arg, "any", TRUE)
\* how the driver addresses a path: the string, its separator
Str(p) == Join(p, Sep)

---------------------------------------------------------------------------
(* store actions; via = "top" (from the root) | "view" (relative to Base)  *)
Eff(via, p) == IF via = "view" THEN Base \o p ELSE p
Vias == IF Base = <<>> THEN {"top"} ELSE {"top", "view"}
KeepPath == UNCHANGED <<pel, po>>

\* mpt_config_set(cfg, path, value, sep, end) / config::set(path, value, sep);
\* with an end character the path string goes on after it ("a.b=junk"): the
\* part before it is the path
Assign(via, p, v, sep, end) ==
  /\ p # <<>>
  /\ end = 0 \/ (end # sep /\ \A i \in 1..Len(p) : \A j \in 1..Len(p[i]) : p[i][j] # end)
  /\ tree' = TAssign(tree, Eff(via, p), v)
  /\ st' = SAssign(st, Eff(via, p), v)
  /\ KeepPath
  /\ AnsC("assign", [via |-> via, path |-> IF end = 0 THEN Join(p, sep) ELSE Join(p, sep) \o <<end, 122>>,
                      sep |-> sep, end |-> end, val |-> v], "ok")

\* mpt_config_set(cfg, path, 0, sep, 0) / config::set(path, 0, sep): the element
\* and everything below it goes; nothing else
Remove(via, p, sep) ==
  /\ p # <<>>
  /\ tree' = TRemove(tree, Eff(via, p))
  /\ st' = SRemove(st, Eff(via, p))
  /\ KeepPath
  /\ AnyC("remove", [via |-> via, path |-> Join(p, sep), sep |-> sep])

\* query of a single path with its own separator string (mpt_config_getp)
Query(via, p, sep) ==
  /\ p # <<>> /\ UNCHANGED <<tree, st>> /\ KeepPath
  /\ AnsC("query", [via |-> via, path |-> Join(p, sep), sep |-> sep], TGet(tree, Eff(via, p)))

\* through the view: the base element's own value (empty relative path)
AssignSelf(v) ==
  /\ Base # <<>>
  /\ tree' = TAssign(tree, Base, v) /\ st' = SAssign(st, Base, v)
  /\ KeepPath
  /\ AnsC("assignself", [val |-> v], "ok")
\* through the view: everything below the base goes, the base stays
ClearBelow ==
  /\ Base # <<>>
  /\ tree' = TClearBelow(tree, Base) /\ st' = SClearBelow(st, Base)
  /\ KeepPath
  /\ AnyC("clearbelow", [x |-> 0])
\* from the root with an empty path: the whole configuration goes
ClearAll ==
  /\ tree' = << >> /\ st' = <<>>
  /\ KeepPath
  /\ AnyC("clearall", [x |-> 0])

---------------------------------------------------------------------------
(* path object *)
KeepStore == UNCHANGED <<tree, st>>
IndexOfFirst(s, c, from, to) ==      \* first index in from..to with s[i] = c, or 0
  IF \E i \in from..to : s[i] = c THEN MinOf({i \in from..to : s[i] = c}) ELSE 0

\* mpt_path_next on the struct: [elem length or -1, new struct]
NextH(p) ==
  IF p.len = 0 THEN [r |-> -1, p |-> p]
  ELSE LET j    == IndexOfFirst(p.buf, p.sep, p.off + 1, p.off + p.len - 1)
           skip == IF p.first # 0 THEN p.first + 1 ELSE IF j # 0 THEN j - p.off ELSE p.len
       IN [r |-> skip - 1,
           p |-> [p EXCEPT !.off = @ + skip, !.len = @ - skip, !.first = 0]]
\* the elements a struct stands for: repeated mpt_path_next on a copy
RECURSIVE Walk(_)
Walk(p) == IF p.len = 0 THEN <<>>
           ELSE LET n == NextH(p) IN <<SubSeq(p.buf, p.off + 1, p.off + n.r)>> \o Walk(n.p)

AnsPx(a, arg, ret, anyret) ==
  obs' = [a |-> a, arg |-> arg, exp |-> [ret |-> ret, anyret |-> anyret, els |-> pel', els2 |-> Walk(po')]]
AnsP(a, arg, ret) == AnsPx(a, arg, ret, FALSE)

\* mpt_path_set(path, str, -1) with separator sep and end character asg
PSet(s, sep, asg) ==
  LET body == UpTo(s, asg)
      fs   == IndexOfFirst(body, sep, 1, Len(body))
      fl   == IF fs = 0 \/ fs - 1 > 255 THEN 0 ELSE fs - 1
  IN
  /\ pel' = Split(body, sep)
  /\ po' = [buf |-> s \o <<0>>, off |-> 0, len |-> Len(body) + 1, first |-> fl, sep |-> sep, asg |-> asg]
  /\ KeepStore
  /\ AnsPx("pset", [str |-> s, sep |-> sep, asg |-> asg], "any", TRUE)

\* mpt_path_next: the first element is consumed, its length answered
PNext ==
  /\ pel' = IF pel = <<>> THEN pel ELSE Rest(pel)
  /\ po' = NextH(po).p
  /\ KeepStore
  /\ AnsP("pnext", [x |-> 0], IF pel = <<>> THEN -1 ELSE Len(pel[1]))

\* mpt_path_last: only the last element remains, its length answered
PLast ==
  /\ pel' = IF pel = <<>> THEN pel ELSE <<pel[Len(pel)]>>
  /\ po' = IF po.len = 0 THEN po
           ELSE LET e  == po.off + po.len - 1                 \* characters before the end character
                    js == {i \in (po.off + 1)..e : po.buf[i] = po.sep}
                    b  == IF js = {} THEN po.off ELSE CHOOSE i \in js : \A k \in js : k <= i
                IN [po EXCEPT !.off = b, !.len = e - b + 1, !.first = IF e - b > 255 THEN 0 ELSE e - b]
  /\ KeepStore
  /\ AnsP("plast", [x |-> 0], IF pel = <<>> THEN -1 ELSE Len(pel[Len(pel)]))

\* mpt_path_addchar + mpt_path_valid for every character of e, then
\* mpt_path_add(path, Len(e)): e becomes the last element
\* An empty element cannot be added to a path object that has no storage yet
\* (mpt_path_add answers MissingBuffer): refused, nothing changes.
PAddElem(e) ==
  IF e = <<>> /\ po.buf = <<>>
  THEN /\ UNCHANGED <<pel, po>> /\ KeepStore
       /\ AnsP("paddelem", [elem |-> e], "refused")
  ELSE
  /\ \A i \in 1..Len(e) : e[i] # po.sep /\ e[i] # 0
  /\ pel' = Append(pel, e)
  /\ LET ve   == po.off + po.len
         keep == IF ve = 0 THEN <<>> ELSE [i \in 1..ve |-> IF i = ve THEN po.sep ELSE po.buf[i]]
     IN po' = [po EXCEPT !.buf = keep \o e \o <<po.asg>>,
                         !.len = @ + Len(e) + 1,
                         !.first = IF ve = 0 /\ Len(e) <= 255 THEN Len(e) ELSE IF ve = 0 THEN 0 ELSE @]
  /\ KeepStore
  /\ AnsP("paddelem", [elem |-> e], "ok")

\* mpt_path_del: the last element goes, its length answered
PDel ==
  /\ pel' = IF pel = <<>> THEN pel ELSE Front(pel)
  /\ po' = IF po.len = 0 THEN po
           ELSE LET e  == po.off + po.len - 1
                    js == {i \in (po.off + 1)..e : po.buf[i] = po.sep}
                    b  == IF js = {} THEN po.off ELSE CHOOSE i \in js : \A k \in js : k <= i
                IN [po EXCEPT !.len = b - po.off, !.first = IF b = po.off THEN 0 ELSE @]
  /\ KeepStore
  /\ AnsP("pdel", [x |-> 0], IF pel = <<>> THEN -1 ELSE Len(pel[Len(pel)]))

PathRefines == Walk(po) = pel

---------------------------------------------------------------------------
Init ==
  /\ tree = << >> /\ st = <<>>
  /\ pel = <<>> /\ po = [buf |-> <<>>, off |-> 0, len |-> 0, first |-> 0, sep |-> Sep, asg |-> 0]
  /\ obs = [a |-> "init", arg |-> [base |-> IF Base = <<>> THEN <<0>> ELSE Str(Base), sep |-> Sep,     \* <<0>>: no view
                                    uni |-> [i \in 1..Len(Uni) |-> Str(Uni[i])],
                                    rel |-> [i \in 1..Len(RelUni) |-> IF RelUni[i] = <<>> THEN <<0>> ELSE Str(RelUni[i])]],
            exp |-> [ret |-> "ok", anyret |-> FALSE, nodes |-> 0, all |-> [i \in 1..Len(Uni) |-> NoVal],
                     rel |-> [i \in 1..Len(RelUni) |-> NoVal],
                     all2 |-> [i \in 1..Len(Uni) |-> NoVal]]]

UniSet == {Uni[i] : i \in 1..Len(Uni)}
RelSet == {RelUni[i] : i \in 1..Len(RelUni)} \ {<<>>}
PathsVia(via) == IF via = "view" THEN RelSet ELSE UniSet
NextC ==
  \/ \E via \in Vias : \E p \in PathsVia(via) : \E v \in Vals, e \in Ends : Assign(via, p, v, Sep, e)
  \/ \E via \in Vias : \E p \in PathsVia(via) : Remove(via, p, Sep) \/ Query(via, p, Sep)
  \/ \E v \in Vals : AssignSelf(v)
  \/ ClearBelow \/ ClearAll
\* (a set replaces the object whatever it was: all strings are offered to a
\* fresh object, only the shortest ones to a used one)
NextP ==
  \/ \E s \in Strs, sep \in Seps, asg \in Asgs : (po.buf = <<>> \/ Len(s) <= 1) /\ PSet(s, sep, asg)
  \/ PNext \/ PLast \/ PDel
  \/ \E e \in Elems : PAddElem(e)

SpecC == Init /\ [][NextC]_vars
SpecP == Init /\ [][NextP]_vars

---------------------------------------------------------------------------
(* action properties of the store (on every transition)                    *)
\* a query answers the value most recently assigned to exactly that path;
\* assignments never alter the value at a different path; removing a path
\* removes it and everything beneath it and nothing else
MapStep ==
  LET a == obs'.a g == obs'.arg IN
  /\ a = "assign" =>
       LET p == Eff(g.via, Split(UpTo(g.path, g.end), g.sep)) IN
       /\ TGet(tree', p) = g.val
       /\ \A q \in DOMAIN tree : q # p => TGet(tree', q) = tree[q]
       /\ \A q \in DOMAIN tree' : q \in DOMAIN tree \/ IsPrefix(q, p)
  /\ a = "remove" =>
       LET p == Eff(g.via, Split(g.path, g.sep)) IN
       /\ \A q \in DOMAIN tree : IF IsPrefix(p, q) THEN q \notin DOMAIN tree'
                                  ELSE q \in DOMAIN tree' /\ tree'[q] = tree[q]
       /\ DOMAIN tree' \subseteq DOMAIN tree
  /\ a = "query" => tree' = tree
  \* both tiers answer every query of the universe alike
  /\ obs'.a \notin {"pset", "pnext", "plast", "pdel", "paddelem"} => obs'.exp.all = obs'.exp.all2
MapProp == [][MapStep]_vars
PathStep == obs'.a \in {"pset", "pnext", "plast", "pdel", "paddelem"} => obs'.exp.els = obs'.exp.els2
PathProp == [][PathStep]_vars
=============================================================================
