---------------------------- MODULE Gen_IoSetup ----------------------------
(* Behaviour export: one JSON line per generated transition of the control *)
(* skeleton (kinds, registered inputs, pending connections, messages on    *)
(* the wire per input, peers gone, bound socket).                          *)
EXTENDS IoSetup, Json
VARIABLE hist
GenInit == Init /\ hist = <<obs>>
GenNext == Next /\ hist' = Append(hist, obs')
GenSpec == GenInit /\ [][GenNext]_<<vars, hist>>
Skel == <<ik, reg, pend, bnd, bp, [i \in 1..nin |-> Len(wire[i])], eof>>
Emit == PrintT(<<"BEHAV", ToJson(hist')>>)
OpsQ == {"refuse", "accept", "release"}
OpsC == {"config"}
OpsT == {"refuse", "accept", "config"}
=============================================================================
