SPECIFICATION GenSpec
CONSTANTS NA = 1 NB = 2 NV = 1 MaxLen = 3 MaxArg = 3 Prune = TRUE MaxDepth = 8
CONSTRAINT Bound
VIEW Skel
INVARIANTS TypeOK Refines
ACTION_CONSTRAINT Emit
CHECK_DEADLOCK FALSE
