SPECIFICATION MCSpec
CONSTANTS
  LBits = 4
  TypeTab <- ScaledTypes
  GraphLo = 1 GraphHi = 2 MaxBits = 6
  Apis = {"data", "value"}
  TextApis = {}
  TextDsts = {"b", "y", "n", "x", "t"}
  Bases = {0, 10, 16}
  Alphabet = {32, 45, 43, 48, 49, 55, 57, 120, 102, 122}
  TextLen = 3
  ConverseDsts = {}
INVARIANTS TypeOK DesignSound AllowedSound NeighbourExact DesignUseful
CHECK_DEADLOCK FALSE
