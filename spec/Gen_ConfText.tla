---------------------------- MODULE Gen_ConfText ----------------------------
(* Case export: one JSON line per generated transition of the skeleton     *)
(* (configuration, depth, node count).  Every transition carries a         *)
(* complete document (obs.arg.text) and the forest it denotes              *)
(* (obs.exp.tree); parses are independent, so a case is one step.          *)
EXTENDS MC_ConfText, Json
Skel == <<cfg.fmt, cfg.acc, Len(stack), nn, stack[Len(stack)].n = <<>> >>   \* the open section may be nameless
Emit == PrintT(<<"BEHAV", ToJson(<<obs'>>)>>)

\* names with the path separator '.': left out while the open finding C09 name_contains_path_sep
\* still reproduces (checks/c09.py probes it and sets $AVOID_DOT), so that the rest of the
\* space is not cut short; seeded documents keep exercising them
Dotted == IF "AVOID_DOT" \in DOMAIN IOEnv THEN {} ELSE {nAdB}
GenOptNames  == {nA, nA1, nAsB, nABsC, nAuB, n1} \cup Dotted
GenSecNames  == {nA, nE, nAsB, nAuB, nA1} \cup Dotted
GenValues    == {vE, vX, vXY, vSp, vQ, vBQ, vHash, vSemi, vNl, vLong(249), vLong(250), vLong(255)}
GenValuesT   == GenValues \cup {vLong(254), vLong(256), vLong(65535), vLong(65536), vLong(65537)}
GenOptNamesT == GenOptNames \cup Dotted \cup {<< <<97, 255>> >>, << <<97, 256>> >>}
GenSecNamesT == GenSecNames \cup Dotted \cup {<< <<97, 255>> >>, << <<97, 256>> >>}
\* names across the allocation steps of the path buffer (and the 8 bit length fields)
LongNames    == {<< <<97, n>> >> : n \in {31, 32, 33, 63, 64, 65, 66, 127, 128, 129, 191, 192, 193, 194, 255, 256, 257, 511, 512, 513}}
NameRunValues == {vX}
NameRunDecos  == {DTight}
GenDecos     == {DTight, DSpaced, DCom, DBlank, DCrlf, DGlue}
=============================================================================
