---------------------------- MODULE Gen_ConfText ----------------------------
(* Case export: one JSON line per generated transition of the skeleton     *)
(* (configuration, depth, node count).  Every transition carries a         *)
(* complete document (obs.arg.text) and the forest it denotes              *)
(* (obs.exp.tree); parses are independent, so a case is one step.          *)
EXTENDS MC_ConfText, Json
Skel == <<cfg.fmt, cfg.acc, Len(stack), nn>>
Emit == PrintT(<<"BEHAV", ToJson(<<obs'>>)>>)

GenOptNames  == {nA, nA1, nAsB, nABsC, nAuB, n1}
GenSecNames  == {nA, nE, nAsB, nAuB, nA1}
GenValues    == {vE, vX, vXY, vSp, vQ, vBQ, vHash, vSemi, vNl, vLong(249), vLong(250), vLong(255)}
GenValuesT   == GenValues \cup {vLong(254), vLong(256), vLong(65535), vLong(65536), vLong(65537)}
GenOptNamesT == GenOptNames \cup {nAdB, << <<97, 255>> >>, << <<97, 256>> >>}
GenSecNamesT == GenSecNames \cup {nAdB, << <<97, 255>> >>, << <<97, 256>> >>}
GenDecos     == {DTight, DSpaced, DCom, DBlank, DCrlf}
=============================================================================
