------------------------------ MODULE MC_Owned ------------------------------
(* Exhaustive configurations of Owned: full state, small constants.        *)
EXTENDS Owned
OView == <<kind, holds, extra, made, cnt, alive, cls, mem>>      \* obs is an observation, not state
(* counter pokes are not combined with plain-pointer references taken one by one on another object *)
High(o) == cnt[o] >= Max - 1
OneHigh == Cardinality({o \in Objs : High(o)}) <= 1
(* two proxies (five objects): written counters and plain pointers only while the first proxy is alone *)
LoaderCap == OneHigh /\ (made > 3 => \A o \in Objs : extra[o] = 0 /\ ~High(o))
(* quick tier: the mpt++ scenario (five classes) with two objects, the others with three *)
QuickCap == OneHigh /\ made <= (IF kind = "cxxmeta" THEN 2 ELSE 3)
=============================================================================
