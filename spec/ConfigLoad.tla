----------------------------- MODULE ConfigLoad -----------------------------
(***************************************************************************)
(* Extension X10 of C10: how values ARRIVE in and LEAVE the process-wide   *)
(* configuration other than by single mpt_config_set calls.                *)
(*                                                                         *)
(* Composition of two accepted specifications:                             *)
(*   Config   -- the store: Tier 1 `tree` (prefix-closed map path -> value *)
(*               or NoVal), Tier 2 `st` (node lists, first match);         *)
(*   ConfText -- configuration text: the generator whose actions write a   *)
(*               document item by item and keep the forest it denotes      *)
(*               (instance CT; its variables are the draft dcfg, dtext,    *)
(*               dstack, dnn and doc = the complete document so far with   *)
(*               its forest and its handler event sequence).               *)
(*                                                                         *)
(* Arrival routes (one action per public call):                            *)
(*   Load      mpt_config_load: files <root>/mpt.conf.d/* then             *)
(*             <root>/mpt.conf in the default format; every OPTION event   *)
(*             is one assignment (config_load.c:cfgSet), target = the      *)
(*             given configuration or the sub-tree "mpt";                  *)
(*   Environ   mpt_config_environ: NAME=value with lower(NAME) matching    *)
(*             the pattern is the assignment Split(lower(NAME), sep) :=    *)
(*             value, in the order of the environment;                     *)
(*   Args      mpt_config_args: "path=value" strings assign in order,      *)
(*             strings without '=' assign nothing;                         *)
(*   Clear     mpt_config_clear: every non-empty string removes that path; *)
(*   MsgSet    mpt_message_assign: n NUL terminated elements, then the     *)
(*             value;   MsgGet  mpt_config_reply: values of the paths;     *)
(*   NodeParse mpt_node_parse on the node of a base path: the children are *)
(*             REPLACED by the forest of the text;                         *)
(*   ParseNode mpt_parse_node on that node: the forest is MERGED by name   *)
(*             (parse_node.c / node_move.c: elements of the text supersede *)
(*             the old element of that name, old elements the text does    *)
(*             not name are moved over, level by level).                   *)
(* Meaning (Tier 1) of the assigning routes is the base property applied   *)
(* to a history: the call IS the sequence of its single assignments        *)
(* (TAssignAll = fold of Config!TAssign); the action property ArrivalProp  *)
(* restates it declaratively (last assignment to exactly that path wins,   *)
(* every other path keeps its value, only prefixes appear); Tier 2 runs    *)
(* the node-list algorithms (SAssignAll, SMove).  TLC checks all three     *)
(* against each other (Refines, ArrivalProp).                              *)
(*                                                                         *)
(* Vague = "an option written with an empty value": the text forest cannot *)
(* tell it from no value (C09), the statement does not either; a query may *)
(* answer the empty text or absence.                                       *)
(***************************************************************************)
EXTENDS Config

CONSTANTS Configs, OptNames, SecNames, Values, Decos, MaxNodes, MaxDepth,   \* document generator (ConfText)
          Routes,       \* arrival routes explored: subset of RouteNames
          Cfgs,         \* configuration arguments offered: "top" (process-wide, explicit), "null", "view"
          PrePaths,     \* paths offered to single assign / remove calls
          SingleKinds,  \* subset of {"assign", "remove"}
          LoadKinds,    \* [how |-> "root" | "prefix", where |-> "file" | "dir" | "both"]
          TwoFiles,     \* TRUE: a second document may be put aside (folder and file in one load)
          EnvCalls,     \* [how |-> "array" | "environ", pat |-> pattern (Null0 = library default "mpt_*"),
                        \*  sep |-> separator (0 = library default '_'), vs |-> sequence of "NAME=value" strings]
          ArgCalls,     \* [log |-> 0 | 1, items |-> sequence of strings]
          ClearLists,   \* removal lists: sequences of path strings
          MsgSets,      \* [hdr |-> 0 | 1, split |-> cut into base part and continuation, els |-> names, val |-> value]
          MsgGets,      \* [sep |-> argument separator 0 | 32, split |-> .., ps |-> sequence of paths]
          NodeBases,    \* base paths whose node is parsed into
          FputSeps,     \* separator strings of mpt_path_fputs (Null0 = default "/")
          MaxOps,       \* calls per behaviour (exhaustive runs)
          MaxArr,       \* calls per behaviour other than single assignments / removals
          SingleWhen,   \* "any" | "first": single calls only before the first other call | "around": single
                        \* assignments before it, single removals after it (exhaustive runs)
          QuoteSet,     \* quote characters the draft may use (0 = bare); the format's own are CT!Quotes
          Observe       \* TRUE: the expected answers of all universe queries are part of obs (export, traces)

VARIABLES dcfg, dtext, dstack, dnn, doc,   \* draft document (ConfText)
          doc2,                            \* a finished document put aside (second file)
          nops, narr,                      \* store calls so far; those other than single ones
          pst                              \* path object: the string it was set from while untouched since
draft == <<dcfg, dtext, dstack, dnn, doc>>
xvars == <<vars, draft, doc2, nops, narr, pst>>

CT == INSTANCE ConfText WITH cfg <- dcfg, text <- dtext, stack <- dstack, nn <- dnn, obs <- doc

RouteNames == {"single", "load", "environ", "args", "clear", "msgset", "msgget", "nodeparse", "parsenode"}
Null0 == <<0>>                       \* a NULL string argument
NoneTxt == <<-1>>                    \* no such file
Vague == <<-2>>                      \* the empty text or no value
Unknown == <<-3>>                    \* the statement does not say (see NodeCall)
Mpt == <<109, 112, 116>>             \* "mpt": target sub-tree of mpt_config_load without configuration
NoPst == [s |-> <<>>, asg |-> -1]

Bytes(r) == CT!Flat1(r)
PathOfRuns(p) == [i \in DOMAIN p |-> Bytes(p[i])]
TextVal(v) == IF v = <<>> THEN Vague ELSE Bytes(v)
DocText(d) == IF "text" \in DOMAIN d.arg THEN Bytes(d.arg.text) ELSE <<>>
DocEv(d) == d.exp.ev
DocTree(d) == d.exp.tree
HasCh(s, c) == \E i \in DOMAIN s : s[i] = c
After(s, c) == SubSeq(s, MinOf({j \in DOMAIN s : s[j] = c}) + 1, Len(s))
Lower(s) == [i \in DOMAIN s |-> IF s[i] \in 65..90 THEN s[i] + 32 ELSE s[i]]
\* a value is observed as text: what follows a NUL byte (a terminator sent along with the value) is not part of it
TextOf(v) == IF HasCh(v, 0) THEN SubSeq(v, 1, MinOf({j \in DOMAIN v : v[j] = 0}) - 1) ELSE v
Under(b, as) == [i \in DOMAIN as |-> [p |-> b \o as[i].p, v |-> as[i].v]]

---------------------------------------------------------------------------
(* Tier 1 *)
RECURSIVE TAssignAll(_, _)
TAssignAll(t, as) == IF as = <<>> THEN t ELSE TAssignAll(TAssign(t, as[1].p, as[1].v), Rest(as))
RECURSIVE TRemoveAll(_, _)
TRemoveAll(t, ps) == IF ps = <<>> THEN t ELSE TRemoveAll(TRemove(t, ps[1]), Rest(ps))

\* the option events of a document, in order: relative path and value text
OptsOf(d) ==
  LET os == SelectSeq(DocEv(d), LAMBDA e : e.e = "opt")
  IN [i \in DOMAIN os |-> [p |-> PathOfRuns(os[i].p), v |-> TextVal(os[i].v)]]

\* the elements of a forest, pre-order: relative path and value (sections have none)
RECURSIVE Entries(_, _)
Entries(nodes, pre) ==
  IF nodes = <<>> THEN <<>>
  ELSE LET x == nodes[1]
           p == Append(pre, Bytes(x.n))
       IN << [p |-> p, v |-> IF x.c # <<>> THEN NoVal ELSE TextVal(x.v)] >>
          \o Entries(x.c, p) \o Entries(Rest(nodes), pre)
Distinct(es) == \A i, j \in DOMAIN es : es[i].p = es[j].p => i = j
MapOf(es) == [q \in {es[i].p : i \in DOMAIN es} |-> es[CHOOSE i \in DOMAIN es : es[i].p = q].v]
Below(b, q) == IsPrefix(b, q) /\ q # b

\* children of `base` replaced by the forest / forest merged into them by name
TReplace(t, base, es) ==
  LET N == MapOf(Under(base, es))
      dom == {q \in DOMAIN t : ~Below(base, q)} \cup Prefixes(base) \cup DOMAIN N
  IN [q \in dom |-> IF q \in DOMAIN N THEN N[q] ELSE IF q \in DOMAIN t THEN t[q] ELSE NoVal]
TMerge(t, base, es) ==
  LET N == MapOf(Under(base, es))
      dom == DOMAIN t \cup Prefixes(base) \cup DOMAIN N
  IN [q \in dom |-> IF q \in DOMAIN N THEN N[q] ELSE IF q \in DOMAIN t THEN t[q] ELSE NoVal]

(* Tier 2 *)
RECURSIVE SAssignAll(_, _)
SAssignAll(f, as) == IF as = <<>> THEN f ELSE SAssignAll(SAssign(f, as[1].p, as[1].v), Rest(as))
RECURSIVE SRemoveAll(_, _)
SRemoveAll(f, ps) == IF ps = <<>> THEN f ELSE SRemoveAll(SRemove(f, ps[1]), Rest(ps))
\* the forest as node lists; the value of an element is looked up in the entry list es
ValAt(es, p) == es[CHOOSE i \in DOMAIN es : es[i].p = p].v
RECURSIVE ToSlotsAt(_, _, _)
ToSlotsAt(nodes, pre, es) ==
  [i \in DOMAIN nodes |-> [u |-> TRUE, n |-> Bytes(nodes[i].n),
                           v |-> ValAt(es, Append(pre, Bytes(nodes[i].n))),
                           k |-> ToSlotsAt(nodes[i].c, Append(pre, Bytes(nodes[i].n)), es)]]
\* make_global: the elements of the base path exist afterwards
SEnsure(f, b) == IF b \in SPaths(f) THEN f ELSE SAssign(f, b, NoVal)
RECURSIVE SKids(_, _)
SKids(f, p) == LET i == Find(f, p[1]) IN IF Len(p) = 1 THEN f[i].k ELSE SKids(f[i].k, Rest(p))
RECURSIVE SSetKids(_, _, _)
SSetKids(f, p, ks) ==
  LET i == Find(f, p[1]) IN
  IF Len(p) = 1 THEN [f EXCEPT ![i].k = ks] ELSE [f EXCEPT ![i].k = SSetKids(@, Rest(p), ks)]
\* mpt_node_move(&old, new): old elements the new list does not name are appended, the children of
\* the others are merged the same way (or handed over when the new element has none)
RECURSIVE SMove(_, _)
SMove(src, dst) ==
  IF src = <<>> THEN dst
  ELSE LET s == src[1]
           i == Find(dst, s.n)
       IN IF i = 0 THEN SMove(Rest(src), Append(dst, s))
          ELSE IF s.k = <<>> THEN SMove(Rest(src), dst)
          ELSE IF dst[i].k # <<>> THEN SMove(Rest(src), [dst EXCEPT ![i].k = SMove(s.k, @)])
          ELSE SMove(Rest(src), [dst EXCEPT ![i].k = s.k])

---------------------------------------------------------------------------
(* environment and argument strings *)
RECURSIVE Glob(_, _)                \* fnmatch with flags 0 for patterns of literals, '*' and '?'
Glob(pat, s) ==
  IF pat = <<>> THEN s = <<>>
  ELSE IF pat[1] = 42 THEN \E k \in 0..Len(s) : Glob(Rest(pat), SubSeq(s, k + 1, Len(s)))
  ELSE IF s = <<>> THEN FALSE
  ELSE (pat[1] = 63 \/ pat[1] = s[1]) /\ Glob(Rest(pat), Rest(s))
DefPattern == <<109, 112, 116, 95, 42>>       \* "mpt_*"
EnvAssigns(vs, pat, sep) ==
  LET P  == IF pat = Null0 THEN DefPattern ELSE pat
      S  == IF sep = 0 THEN 95 ELSE sep
      ok == SelectSeq(vs, LAMBDA s : HasCh(s, 61) /\ Glob(P, Lower(UpTo(s, 61))))
  IN [i \in DOMAIN ok |-> [p |-> Split(Lower(UpTo(ok[i], 61)), S), v |-> After(ok[i], 61)]]
ArgAssigns(items) ==
  LET ok == SelectSeq(items, LAMBDA s : HasCh(s, 61))
  IN [i \in DOMAIN ok |-> [p |-> Split(UpTo(ok[i], 61), 46), v |-> After(ok[i], 61)]]
ClearPaths(items) ==
  LET ok == SelectSeq(items, LAMBDA s : s # <<>>)
  IN [i \in DOMAIN ok |-> Split(ok[i], 46)]

---------------------------------------------------------------------------
(* frame *)
KeepDraft == UNCHANGED <<draft, doc2>>
KeepPathX == UNCHANGED <<pel, po, pst>>
BaseOf(cfg, route) == IF cfg = "view" THEN Base ELSE IF cfg = "null" /\ route = "load" THEN <<Mpt>> ELSE <<>>
CfgOK(cfg) == cfg \in Cfgs /\ (cfg = "view" => Base # <<>>)

Store(a, arg, t2, s2, eff) ==
  /\ tree' = t2 /\ st' = s2
  /\ nops < MaxOps /\ narr < MaxArr
  /\ KeepDraft /\ KeepPathX /\ nops' = nops + 1 /\ narr' = narr + 1
  /\ obs' = [a |-> a, arg |-> arg, eff |-> eff,
             exp |-> [ret |-> "any", anyret |-> TRUE, nodes |-> Count(s2),
                      all |-> IF Observe THEN AllOf(t2) ELSE <<>>, rel |-> IF Observe THEN RelOf(t2) ELSE <<>>]]

(* documents are written before the program runs *)
Drafting == nops = 0 /\ Routes \cap {"load", "nodeparse", "parsenode"} # {}
DraftItem ==
  /\ Drafting
  /\ \/ \E name \in OptNames, v \in Values, q \in CT!Quotes \cap QuoteSet, d \in Decos :
          CT!AddOption(name, v, q, d.g, d.b1, d.b2, d.b3, IF CT!F.oe # 0 THEN "end" ELSE d.term)
     \/ \E name \in SecNames, d \in Decos : CT!OpenSection(name, d.g, d.b1, d.b2, d.g2)
     \/ \E d \in Decos : CT!CloseSection(d.g)
  /\ UNCHANGED <<vars, doc2, nops, narr, pst>>
EmptyDoc == [a |-> "none", arg |-> [x |-> 0], exp |-> [ret |-> "ok", tree |-> <<>>, links |-> 0, ev |-> <<>>]]
SaveDoc ==
  /\ Drafting /\ doc2 = EmptyDoc /\ "load" \in Routes /\ TwoFiles
  \* (the second file is kept small: one option at the top level, written without decoration)
  /\ dnn = 1 /\ Len(dstack) = 1 /\ \A i \in DOMAIN DocText(doc) : DocText(doc)[i] \notin {9, 32, 35}
  /\ doc2' = doc
  /\ dtext' = <<>> /\ dstack' = << [n |-> <<>>, k |-> <<>>] >> /\ dnn' = 0 /\ doc' = EmptyDoc
  /\ UNCHANGED <<vars, dcfg, nops, narr, pst>>

---------------------------------------------------------------------------
(* single calls of the base specification, within the frame *)
Single ==
  /\ "single" \in Routes /\ nops < MaxOps /\ (SingleWhen = "first" => narr = 0)
  /\ \E via \in Vias : \E p \in PrePaths :
        /\ via = "view" => p \in RelSet
        /\ \/ "assign" \in SingleKinds /\ (SingleWhen = "around" => narr = 0) /\ \E v \in Vals : Assign(via, p, v, Sep, 0)
           \/ "remove" \in SingleKinds /\ (SingleWhen = "around" => narr > 0) /\ Remove(via, p, Sep)
  /\ KeepDraft /\ pst' = pst /\ nops' = nops + 1 /\ narr' = narr

(* mpt_config_load *)
DefaultFormat == dcfg.fmt = CT!Null /\ dcfg.acc = CT!Null
Compatible(a1, a2) == \A i \in DOMAIN a1, j \in DOMAIN a2 : a1[i].p = a2[j].p => a1[i].v = a2[j].v
Load(cfg, how, where) ==
  /\ "load" \in Routes /\ CfgOK(cfg) /\ DefaultFormat
  /\ LET ddoc == IF where = "dir" THEN doc ELSE doc2
         a1 == IF where \in {"dir", "both"} THEN OptsOf(ddoc) ELSE <<>>
         a2 == IF where \in {"file", "both"} THEN OptsOf(doc) ELSE <<>>
         as == Under(BaseOf(cfg, "load"), a1 \o a2)
     IN /\ where = "both" => Compatible(a1, a2)       \* (the order of the files is not part of the statement)
        /\ Store("load", [cfg |-> cfg, how |-> how,
                          file |-> IF where = "dir" THEN NoneTxt ELSE DocText(doc),
                          dir  |-> IF where = "file" THEN NoneTxt ELSE DocText(ddoc)],
                 TAssignAll(tree, as), SAssignAll(st, as), [k |-> "set", as |-> as])

(* mpt_config_environ; how = "environ": through the process environment (order unspecified) *)
EnvNames(vs) == [i \in DOMAIN vs |-> Lower(UpTo(vs[i], 61))]
Environ(cfg, how, pat, sep, vs) ==
  /\ "environ" \in Routes /\ CfgOK(cfg)
  /\ how = "environ" => /\ \A i \in DOMAIN vs : HasCh(vs[i], 61) /\ UpTo(vs[i], 61) # <<>>
                        /\ \A i, j \in DOMAIN vs : EnvNames(vs)[i] = EnvNames(vs)[j] => i = j
  /\ LET as == Under(BaseOf(cfg, "environ"), EnvAssigns(vs, pat, sep))
     IN Store("environ", [cfg |-> cfg, how |-> how, pat |-> pat, sep |-> sep, vars |-> vs],
              TAssignAll(tree, as), SAssignAll(st, as), [k |-> "set", as |-> as])

(* mpt_config_args / mpt_config_clear with an iterator over strings *)
Args(cfg, lg, items) ==
  /\ "args" \in Routes /\ CfgOK(cfg) /\ cfg # "null" /\ items # <<>>
  /\ LET as == Under(BaseOf(cfg, "args"), ArgAssigns(items))
     IN Store("args", [cfg |-> cfg, log |-> lg, items |-> items],
              TAssignAll(tree, as), SAssignAll(st, as), [k |-> "set", as |-> as])
Clear(cfg, items) ==
  /\ "clear" \in Routes /\ CfgOK(cfg) /\ cfg # "null" /\ items # <<>>
  /\ LET b  == BaseOf(cfg, "clear")
         ps == [i \in DOMAIN ClearPaths(items) |-> b \o ClearPaths(items)[i]]
     IN Store("clear", [cfg |-> cfg, items |-> items],
              TRemoveAll(tree, ps), SRemoveAll(st, ps), [k |-> "del", ps |-> ps])

(* mpt_message_assign: [header (command, number of elements)] element NUL ... value *)
MsgSet(cfg, hdr, split, els, val) ==
  /\ "msgset" \in Routes /\ CfgOK(cfg)
  /\ LET b  == BaseOf(cfg, "msgset")
         as == IF els # <<>> THEN << [p |-> b \o els, v |-> TextOf(val)] >>
               ELSE IF cfg = "view" THEN << [p |-> Base, v |-> TextOf(val)] >>      \* no element: the view's own element
               ELSE <<>>                                                      \* refused, nothing changes
     IN Store("msgset", [cfg |-> cfg, hdr |-> hdr, split |-> split, els |-> els, val |-> val],
              TAssignAll(tree, as), SAssignAll(st, as), [k |-> "set", as |-> as])

(* mpt_config_reply: the values of the paths named by the message, or a failure answer *)
MsgGet(cfg, sep, split, ps) ==
  /\ "msgget" \in Routes /\ CfgOK(cfg) /\ ps # <<>> /\ nops < MaxOps /\ narr < MaxArr
  /\ LET b    == BaseOf(cfg, "msgget")
         vals == [i \in DOMAIN ps |-> TGet(tree, b \o ps[i])]
         all  == \A i \in DOMAIN ps : vals[i] # NoVal
     IN /\ \A i \in DOMAIN ps : vals[i] \notin {Vague, Unknown} /\ Join(ps[i], 46) # <<>>
        /\ all \/ vals[1] = NoVal                  \* (an absent path behind present ones: statement silent)
        /\ UNCHANGED <<tree, st>> /\ KeepDraft /\ KeepPathX /\ nops' = nops + 1 /\ narr' = narr + 1
        /\ obs' = [a |-> "msgget", eff |-> [k |-> "get"],
                   arg |-> [cfg |-> cfg, sep |-> sep, split |-> split, paths |-> [i \in DOMAIN ps |-> Join(ps[i], 46)]],
                   exp |-> [ret |-> IF all THEN "values" ELSE "absent", anyret |-> FALSE,
                            vals |-> IF all THEN vals ELSE <<>>,
                            nodes |-> Count(st), all |-> IF Observe THEN AllOf(tree) ELSE <<>>,
                            rel |-> IF Observe THEN RelOf(tree) ELSE <<>>]]

(* mpt_node_parse (replace) / mpt_parse_node (merge) on the node of the base path *)
LastOf(p) == p[Len(p)]
NsAccept == CT!AcceptOf(<<110, 115>>)           \* mpt_node_parse without limits: "ns"
NamesAccepted(d, acc) ==
  \A i \in DOMAIN DocEv(d) :
     LET e == DocEv(d)[i] IN
     /\ e.e = "sect" => CT!NameOK(LastOf(e.p), acc.sect)
     /\ e.e = "opt"  => CT!NameOK(LastOf(e.p), acc.opt)
FmtArg(x) == IF x = CT!Null THEN Null0 ELSE x
NodeCall(kind, base) ==
  /\ kind \in Routes /\ base # <<>>
  /\ LET es0 == Entries(DocTree(doc), <<>>)
         s1 == SEnsure(st, base)
         \* a section of the text merged over an element that has a value: the documented rule
         \* (the element of the text supersedes) drops the value, "assignments to one path never
         \* alter another" would keep it -- the statement does not decide, the value is Unknown
         Sup(p) == kind = "parsenode" /\ TGet(tree, base \o p) # NoVal
         es == [i \in DOMAIN es0 |-> IF es0[i].v = NoVal /\ Sup(es0[i].p) THEN [es0[i] EXCEPT !.v = Unknown] ELSE es0[i]]
         ns == ToSlotsAt(DocTree(doc), <<>>, es)
     IN /\ Distinct(es)                                   \* (a name written twice: statement silent)
        /\ kind = "nodeparse" /\ dcfg.acc = CT!Null => NamesAccepted(doc, NsAccept)
        /\ Store(kind, [base |-> Join(base, Sep), bsep |-> Sep, fmt |-> FmtArg(dcfg.fmt), acc |-> FmtArg(dcfg.acc),
                        text |-> DocText(doc)],
                 IF kind = "nodeparse" THEN TReplace(tree, base, es) ELSE TMerge(tree, base, es),
                 IF kind = "nodeparse" THEN SSetKids(s1, base, ns)
                 ELSE SSetKids(s1, base, IF ns = <<>> THEN SKids(s1, base) ELSE SMove(SKids(s1, base), ns)),
                 [k |-> IF kind = "nodeparse" THEN "replace" ELSE "merge", base |-> base, es |-> Under(base, es)])

---------------------------------------------------------------------------
(* path object: the base actions within the frame, printing and the data behind the path *)
PathFrame == KeepDraft /\ UNCHANGED <<nops, narr>>
XPSet(s, sep, asg) == PSet(s, sep, asg) /\ PathFrame /\ pst' = [s |-> s, asg |-> asg]
XPOther == (PNext \/ PLast \/ PDel \/ \E e \in Elems : PAddElem(e)) /\ PathFrame /\ pst' = NoPst
\* mpt_path_fputs: every element preceded by the separator string
PFputs(seps) ==
  /\ UNCHANGED <<tree, st, pel, po, pst, nops, narr>> /\ KeepDraft
  /\ LET S == IF seps = Null0 THEN <<47>> ELSE seps IN
     obs' = [a |-> "pfputs", arg |-> [seps |-> seps],
             exp |-> [ret |-> Len(pel), anyret |-> TRUE, text |-> Flat([i \in DOMAIN pel |-> S \o pel[i]])]]
\* mpt_path_data right after mpt_path_set: what follows the end character
PData ==
  /\ pst # NoPst
  /\ UNCHANGED <<tree, st, pel, po, pst, nops, narr>> /\ KeepDraft
  /\ obs' = [a |-> "pdata", arg |-> [x |-> 0],
             exp |-> [ret |-> 0, anyret |-> TRUE,
                      post |-> IF pst.asg # 0 /\ HasCh(pst.s, pst.asg) THEN After(pst.s, pst.asg) ELSE <<>>]]

---------------------------------------------------------------------------
InitX ==
  /\ Init
  /\ CT!Init /\ doc2 = EmptyDoc
  /\ nops = 0 /\ narr = 0 /\ pst = NoPst

NextStore ==
  \/ DraftItem \/ SaveDoc
  \/ Single
  \/ \E cfg \in Cfgs, k \in LoadKinds : Load(cfg, k.how, k.where)
  \/ \E cfg \in Cfgs, c \in EnvCalls : Environ(cfg, c.how, c.pat, c.sep, c.vs)
  \/ \E cfg \in Cfgs, c \in ArgCalls : Args(cfg, c.log, c.items)
  \/ \E cfg \in Cfgs, items \in ClearLists : Clear(cfg, items)
  \/ \E cfg \in Cfgs, c \in MsgSets : MsgSet(cfg, c.hdr, c.split, c.els, c.val)
  \/ \E cfg \in Cfgs, c \in MsgGets : MsgGet(cfg, c.sep, c.split, c.ps)
  \/ \E kind \in {"nodeparse", "parsenode"}, base \in NodeBases : NodeCall(kind, base)
NextPathX ==
  \/ \E s \in Strs, sep \in Seps, asg \in Asgs : (po.buf = <<>> \/ Len(s) <= 1) /\ XPSet(s, sep, asg)
  \/ XPOther
  \/ \E seps \in FputSeps : PFputs(seps)
  \/ PData

SpecX  == InitX /\ [][NextStore]_xvars
SpecPX == InitX /\ [][NextPathX]_xvars

---------------------------------------------------------------------------
(* composed properties *)
\* a call that makes the assignments `as` in order: afterwards every path that was assigned holds
\* the value most recently assigned to exactly that path, every other path keeps its value, and
\* only prefixes of assigned paths appear
LastWins(t, as, t2) ==
  LET tg == {as[i].p : i \in DOMAIN as} IN
  /\ DOMAIN t2 = DOMAIN t \cup UNION {Prefixes(p) : p \in tg}
  /\ \A q \in DOMAIN t2 :
       t2[q] = IF q \in tg
               THEN as[CHOOSE i \in DOMAIN as : as[i].p = q /\ \A j \in DOMAIN as : as[j].p = q => j <= i].v
               ELSE IF q \in DOMAIN t THEN t[q] ELSE NoVal
\* removals: exactly the named paths and everything beneath them are gone, nothing else changes
RemovedOnly(t, ps, t2) ==
  /\ DOMAIN t2 = {q \in DOMAIN t : \A i \in DOMAIN ps : ~IsPrefix(ps[i], q)}
  /\ \A q \in DOMAIN t2 : t2[q] = t[q]
\* replace / merge below a base: every element of the text is there with its value; nothing outside
\* the base changes; below the base the old elements are gone (replace) / stay unless named (merge)
Parsed(t, kind, base, es, t2) ==
  LET named == {es[i].p : i \in DOMAIN es} IN
  /\ \A i \in DOMAIN es : es[i].p \in DOMAIN t2 /\ t2[es[i].p] = es[i].v
  /\ \A q \in DOMAIN t : (~Below(base, q) \/ kind = "merge") /\ q \notin named => q \in DOMAIN t2 /\ t2[q] = t[q]
  /\ \A q \in DOMAIN t2 : \/ q \in named \/ IsPrefix(q, base)
                          \/ q \in DOMAIN t /\ (kind = "merge" \/ ~Below(base, q))
ArrivalStep ==
  "eff" \in DOMAIN obs' =>
    LET e == obs'.eff IN
    /\ e.k = "set" => LastWins(tree, e.as, tree')
    /\ e.k = "del" => RemovedOnly(tree, e.ps, tree')
    /\ e.k \in {"replace", "merge"} => Parsed(tree, e.k, e.base, e.es, tree')
    /\ e.k = "get" => tree' = tree
    \* (that both tiers answer every query alike is the invariant Refines: AbsTree(st) = tree)
ArrivalProp == [][ArrivalStep]_xvars
\* single assignments / removals within the frame: the action property of the base specification
SingleProp == [][obs'.a \in {"assign", "remove"} => MapStep]_xvars
PrintStep == obs'.a = "pfputs" => obs'.exp.ret = Len(Walk(po))
PrintProp == [][PrintStep]_xvars
=============================================================================
