SPECIFICATION GenSpec
CONSTANTS NH = 3 Gran = 2 Hdr = 64 PChunk = 64 MaxLen = 3 MaxArg = 3 Prune = TRUE Api = "xmap" MaxDepth = 8
CONSTRAINT Bound
VIEW Skel
INVARIANTS TypeOK AliasOK Refines NoTouch
ACTION_CONSTRAINT Emit
CHECK_DEADLOCK FALSE
