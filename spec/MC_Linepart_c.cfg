SPECIFICATION Spec
CONSTANTS
  Alphabet <- Alpha5
  Ranges <- Rng1
  MaxLen = 5
  Limit = 3
  Chunked = TRUE
  NoRangeLen = 3
  CodeDen <- Den1
VIEW View
INVARIANTS TypeOK PartsOK Partition Complete EncodeOK
PROPERTIES JoinTotals Progress
CHECK_DEADLOCK FALSE
