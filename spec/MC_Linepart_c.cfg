SPECIFICATION Spec
CONSTANTS
  Alphabet <- Alpha5
  Ranges <- Rng1
  MaxLen = 4
  Limit = 3
  Chunked = TRUE
  NoRangeLen = 4
  CodeDen <- Den1
  Dims = 1
VIEW View
INVARIANTS TypeOK PartsOK Partition Complete EncodeOK PolyOK
PROPERTIES JoinTotals Progress
CHECK_DEADLOCK FALSE
