SPECIFICATION GenSpec
CONSTANTS Kinds = {"stream", "outlocal", "outremote", "iterfile"}
  NH = 2 NObj = 2 Max = 20 MaxExtra = 1 MaxTries = 1 AsFound = FALSE
CONSTRAINT NarrowGap
VIEW Skel
ACTION_CONSTRAINT Emit
CHECK_DEADLOCK FALSE
