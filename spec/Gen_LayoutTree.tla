---------------------------- MODULE Gen_LayoutTree ----------------------------
(* Case export: one JSON line per generated transition.  Every transition  *)
(* carries a complete document; a behaviour is "load" (the real layout     *)
(* reads the text), optionally followed by one probe of the loaded layout  *)
(* (copy of every item in one of the four modes / read again), or the C    *)
(* path "cload" on its own.  The view is the skeleton of the description:  *)
(* kinds and nesting of the sections, whether they name parents, how many  *)
(* options each holds -- names and values are symmetric.                   *)
EXTENDS LayoutTree, Json
Pub(o) == [a |-> o.a, arg |-> o.arg, exp |-> o.exp]
(* the whole history of the layout object up to and including this transition: earlier descriptions with their   *)
(* operations, the current description's load, the operations after it -- or the current load plus one probe     *)
Beh == IF obs'.a \in {"load", "reload", "gset", "gbind"} THEN sess'.done \o <<sess'.cur>> \o sess'.steps
       ELSE IF obs'.a = "cload" THEN <<Pub(obs')>>
       ELSE History \o <<Pub(obs')>>
Emit == obs'.a = "next" \/ PrintT(<<"BEHAV", ToJson(Beh)>>)

RECURSIVE Shape(_)
Shape(body) == [i \in 1..Len(body) |->
                  IF body[i].e = "opt" THEN <<"o">>
                  ELSE <<KindOf(body[i].h.kw), body[i].h.par # <<>>, Shape(body[i].body)>>]
Skel == <<[i \in 1..Len(stack) |-> <<KindOf(stack[i].h.kw), stack[i].h.par # <<>>, Shape(stack[i].body)>>], cnt.secs, cnt.opts>>
\* coarser: per section only the number of options and the kinds of its members
RECURSIVE Shape2(_)
Shape2(body) == <<Cardinality({i \in 1..Len(body) : body[i].e = "opt"}),
                  [i \in 1..Len(SelectSeq(body, LAMBDA en : en.e = "sec")) |->
                      LET s == SelectSeq(body, LAMBDA en : en.e = "sec")[i] IN <<KindOf(s.h.kw), s.h.par # <<>>, Shape2(s.body)>>]>>
Skel2 == <<[i \in 1..Len(stack) |-> <<KindOf(stack[i].h.kw), stack[i].h.par # <<>>, Shape2(stack[i].body)>>], cnt.secs, cnt.opts>>
\* thorough: frames (kind, parent named, options), counts, which sections (kind, level, parent named, options) are closed
RECURSIVE Closed(_, _)
Closed(body, lvl) == UNION {IF body[i].e = "opt" THEN {} ELSE {<<KindOf(body[i].h.kw), lvl, body[i].h.par # <<>>, Cardinality({j \in 1..Len(body[i].body) : body[i].body[j].e = "opt"})>>} \cup Closed(body[i].body, lvl + 1) : i \in 1..Len(body)}
SkelT == <<[i \in 1..Len(stack) |-> <<KindOf(stack[i].h.kw), stack[i].h.par # <<>>, Cardinality({j \in 1..Len(stack[i].body) : stack[i].body[j].e = "opt"})>>],
           cnt.secs, cnt.opts, UNION {Closed(stack[i].body, i) : i \in 1..Len(stack)},
           sess.docs, sess.sum, sess.rst,
           IF sess.on THEN <<Len(sess.steps), [i \in GraphIdx(sess.items) |->
                               <<sess.items[i].p.axes, sess.items[i].p.worlds,
                                 [j \in 1..Len(sess.items[i].axes) |-> sess.items[i].axes[j].name],
                                 [j \in 1..Len(sess.items[i].worlds) |-> sess.items[i].worlds[j].name]>>]>>
           ELSE <<>> >>
\* quick: open frames (kind, parent named), counts, and for every object built so far its kind, its level and
\* whether any of its properties differs from the default (an option that took effect / an inherited value)
IsTopId(i) == \E j \in 1..Len(heap[1].items) : heap[1].items[j].id = i
RECURSIVE Skipped(_)
Skipped(body) == \E i \in 1..Len(body) : body[i].e = "sec" /\ (KindOf(body[i].h.kw) = "" \/ Skipped(body[i].body))
SkelQ == <<[i \in 1..Len(stack) |-> <<KindOf(stack[i].h.kw), stack[i].h.par # <<>>>>],
           cnt.secs, cnt.opts, Skipped(Fold(stack)),
           {<<heap[i].kind, IsTopId(i), heap[i].r # Def2T[heap[i].kind]>> : i \in 2..Len(heap)},
           heap[1].r.alias # <<>> \/ heap[1].r.font # <<>>,
           sess.docs, sess.sum, sess.rst,
           IF sess.on THEN <<Len(sess.steps), [i \in GraphIdx(sess.items) |->
                               <<sess.items[i].p.axes, sess.items[i].p.worlds, sess.items[i].p.foreground,
                                 [j \in 1..Len(sess.items[i].axes) |-> sess.items[i].axes[j].name],
                                 [j \in 1..Len(sess.items[i].worlds) |-> sess.items[i].worlds[j].name]>>]>>
           ELSE <<>> >>
=============================================================================
