SPECIFICATION GenSpec
CONSTANTS
  Mode = "dec"
  Kinds <- KindsDQ
  Alpha <- AlphaG
  MaxMsg = 0
  MaxMsgs = 0
  Caps <- None
  Grows <- None
  Pres <- None
  DelKs <- None
  NextSet <- None
  Shifts <- None
  DMaxLen = 3
  DSlacks <- Sl2
  DGrants <- Gr2
  DStreams <- StreamsG
  DFeeds <- Fd13
  DQs <- Q13
  DOps <- OpsNoPeek
  DMis <- Mis0
  CapMax = 0
CONSTRAINT BoundGD
VIEW SkelD
ACTION_CONSTRAINT EmitD
CHECK_DEADLOCK FALSE
