SPECIFICATION FairSpec
CONSTANTS MaxCode = 5 NMsg = 2
  MsgSet <- MsgsQ
  Shapes <- OneShape
  Ks <- KsQ
PROPERTY AllReceived
CHECK_DEADLOCK FALSE
