SPECIFICATION Spec
CONSTANTS
  Alphabet = {32, 34, 39, 92}
  MaxLen = 4
  MaxFrag = 3
  MaxDst = 0
  MaxDstFrag = 1
  MaxQ = 0
  Ops = {"read", "argv", "arrmsg", "memtok"}
VIEW View
INVARIANTS TypeOK Refines
PROPERTIES DesignAgrees Normalised OnceAgrees
CHECK_DEADLOCK FALSE
