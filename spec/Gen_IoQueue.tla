----------------------------- MODULE Gen_IoQueue -----------------------------
EXTENDS IoQueue, Json
VARIABLE hist
GenInit == (\E c \in {0, 1, 5, 8} : InitCap(c)) /\ hist = <<obs>>
GenNext == Next /\ hist' = Append(hist, obs')
GenSpec == GenInit /\ [][GenNext]_<<vars, hist>>
GBound == Len(deq) <= 7
Skel == <<Len(deq), hist[1].arg.cap, obs.a>>
Emit == PrintT(<<"BEHAV", ToJson(hist')>>)
=============================================================================
