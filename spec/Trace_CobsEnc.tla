--------------------------- MODULE Trace_CobsEnc ---------------------------
(* Trace validation for C01: recorded executions of the real encoders (one *)
(* event per call) must be behaviours of the Tier-1 part of CobsEnc: what  *)
(* was accepted is a prefix of the message (PushOK), a finished frame is   *)
(* well formed, denotes the message under RefDec and is decoded to it by   *)
(* the library's own decoder (TermOK).  Used at production constants       *)
(* (m = 0: 255/223) and, for replayed behaviours on which the design and   *)
(* the code disagree, at the scaled limits.  Executions are concatenated;  *)
(* each starts with an "einit" event.  "pyenc" events carry frames made by *)
(* the Python client (mpt.py) and are judged by the same TermOK.           *)
EXTENDS CobsEnc, Json, IOUtils
VARIABLE l
TraceLog == ndJsonDeserialize(IOEnv.TRACE)

KOf(arg) == KindOf(arg.kind, arg.m, IF arg.m = 3 THEN 3 ELSE 4)
Tier2Idle == /\ out' = <<>> /\ run' = <<>> /\ code' = 0 /\ cap' = 0 /\ pre' = 0
Keep(a) == obs' = [a |-> a, arg |-> [x |-> 0], exp |-> [ret |-> "any"]]
GuardsOK(ev) == "guards" \in DOMAIN ev.obs => ev.obs.guards = 1

Finish(ev, must) ==
  LET r == ev.obs.ret IN
  /\ GuardsOK(ev)
  /\ Tier2Idle /\ Keep(ev.a) /\ UNCHANGED <<K, msg>>
  /\ \/ /\ st = "done" /\ r = "ok" /\ UNCHANGED <<acc, st>>          \* repeated report
        /\ TermOK(K, msg, "ok", ev.obs.frame, ev.obs.decs)
     \/ /\ st = "run" /\ r = "ok"
        /\ ev.obs.acc = Len(msg) /\ (must \/ acc = Len(msg))   \* fin offers what is left itself
        /\ TermOK(K, msg, "ok", ev.obs.frame, ev.obs.decs)
        /\ Admits(K, msg)
        /\ st' = "done" /\ acc' = Len(msg)
     \/ /\ st = "run" /\ r \in {"nobuf", "todo"} /\ ~must /\ UNCHANGED <<acc, st>>
     \/ /\ st = "run" /\ r \in {"err", "todo"} /\ ~Admits(K, msg) /\ UNCHANGED <<acc, st>>

Step(ev) ==
  CASE ev.a = "einit" ->
         /\ K' = KOf(ev.arg) /\ msg' = ev.arg.msg /\ acc' = 0 /\ st' = "run"
         /\ ev.obs.ret = "ok"
         /\ Tier2Idle /\ Keep("einit")
    [] ev.a = "push" ->
         /\ GuardsOK(ev) /\ Tier2Idle /\ Keep("push") /\ UNCHANGED <<K, msg>>
         /\ IF ev.obs.ret = "skip" THEN UNCHANGED <<acc, st>>
            ELSE /\ st = "run"        \* a refused offer ("err") leaves the encoder usable
                 /\ PushOK(K, SubSeq(msg, acc + 1, acc + ev.obs.k), ev.obs.ret, ev.obs.n)
                 /\ acc' = acc + ev.obs.n
                 /\ UNCHANGED st
    [] ev.a = "grow" -> Tier2Idle /\ Keep("grow") /\ UNCHANGED <<K, msg, acc, st>>
    [] ev.a = "term" -> Finish(ev, FALSE)
    [] ev.a = "fin"  -> Finish(ev, TRUE)
    [] ev.a = "pyenc" ->
         /\ K' = KOf(ev.arg) /\ msg' = ev.arg.msg /\ acc' = Len(ev.arg.msg)
         /\ Tier2Idle /\ Keep("pyenc")
         /\ IF Admits(K', ev.arg.msg)
            THEN ev.obs.ret = "ok" /\ TermOK(K', ev.arg.msg, "ok", ev.obs.frame, ev.obs.decs) /\ st' = "done"
            ELSE ev.obs.ret = "err" /\ st' = "dead"
    [] OTHER -> FALSE

TraceInit ==
  /\ l = 1 /\ K = KCobs /\ msg = <<>> /\ acc = 0 /\ st = "dead"
  /\ out = <<>> /\ run = <<>> /\ code = 0 /\ cap = 0 /\ pre = 0
  /\ obs = [a |-> "none", arg |-> [x |-> 0], exp |-> [ret |-> "any"]]

TraceNext ==
  /\ l <= Len(TraceLog)
  /\ l' = l + 1
  /\ Step(TraceLog[l])

TraceSpec == TraceInit /\ [][TraceNext]_<<vars, l>>

TraceAccepted ==
  LET n == TLCGet("stats").diameter - 1 IN
  /\ PrintT(<<"MATCHED", n>>)
  /\ n = Len(TraceLog)
=============================================================================
