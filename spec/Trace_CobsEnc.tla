--------------------------- MODULE Trace_CobsEnc ---------------------------
(* Trace validation for C01: recorded executions of the real encoders (one *)
(* event per call) must be behaviours of the Tier-1 part of CobsEnc: what  *)
(* was accepted is a prefix of the message (PushOK), a finished frame is   *)
(* well formed, denotes the message under RefDec and is decoded to it by   *)
(* the library's own decoder (TermOK).  Used at production constants       *)
(* (m = 0: 255/223) and, for replayed behaviours on which the design and   *)
(* the code disagree, at the scaled limits.  Executions are concatenated;  *)
(* each starts with an "einit" event and carries its number in "b".        *)
(* "pyenc" events carry frames made by the Python client (mpt.py) and are  *)
(* judged by the same TermOK.                                              *)
(* An event the specification cannot take is recorded in `bad` and the     *)
(* rest of that execution is skipped, so one TLC run judges all            *)
(* executions; the trace is accepted iff `bad` stays empty.                *)
EXTENDS CobsEnc, Integers, Json, IOUtils
VARIABLES l, bad, skipb,
          sent      \* ring sessions: messages finished so far (from the calls' arguments and answers)
TraceLog == ndJsonDeserialize(IOEnv.TRACE)

KOf(arg) == KindOf(arg.kind, arg.m, IF arg.m = 3 THEN 3 ELSE 4)
\* guard bytes around the output space intact; the library decoder run on the
\* finished frame kept its guards and changed bytes below its read position only
GuardsOK(ev) == /\ "guards" \in DOMAIN ev.obs => ev.obs.guards = 1
                /\ "dec_guards" \in DOMAIN ev.obs => (ev.obs.dec_guards = 1 /\ ev.obs.dec_margin < 0)

\* term (must = FALSE) / fin (must = TRUE: the driver offers what is left and grows on request)
FinishOK(ev, must) ==
  LET r == ev.obs.ret IN
  /\ GuardsOK(ev)
  /\ \/ /\ st = "done" /\ r = "ok"                                   \* repeated report
        /\ TermOK(K, msg, "ok", ev.obs.frame, ev.obs.decs)
     \/ /\ st = "run" /\ r = "ok"
        /\ ev.obs.acc = Len(msg) /\ (must \/ acc = Len(msg))
        /\ Admits(K, msg)
        /\ TermOK(K, msg, "ok", ev.obs.frame, ev.obs.decs)
     \/ /\ st = "run" /\ r \in {"nobuf", "todo"} /\ ~must
     \/ /\ st = "run" /\ r \in {"err", "todo"} /\ ~Admits(K, msg)

Judge(ev) ==
  CASE ev.a = "einit" -> ev.obs.ret = "ok"
    [] ev.a = "push"  -> /\ GuardsOK(ev)
                         /\ \/ ev.obs.ret = "skip"
                            \/ /\ st = "run"        \* a refused offer ("err") leaves the encoder usable
                               /\ PushOK(K, SubSeq(msg, acc + 1, acc + ev.obs.k), ev.obs.ret, ev.obs.n)
    [] ev.a = "grow"  -> TRUE
    [] ev.a = "term"  -> FinishOK(ev, FALSE)
    [] ev.a = "fin"   -> FinishOK(ev, TRUE)
    \* fixed-size ring: qinit / qsend (one whole message, reader drains when full) / qflush / qend
    [] ev.a = "qinit" -> ev.obs.ret = "ok"
    [] ev.a = "qsend" -> \/ ev.obs.ret = "ok" /\ Admits(K, ev.arg.msg) /\ ev.obs.n = Len(ev.arg.msg)
                         \/ ev.obs.ret = "err" /\ ~Admits(K, ev.arg.msg)
                         \/ ev.obs.ret \in {"stuck", "skip"}      \* ring too small for the message: refusal
    [] ev.a = "qflush" -> TRUE
    [] ev.a = "qend"  -> /\ ev.obs.dec_guards = 1 /\ ev.obs.dec_margin < 0
                         /\ StreamOK(K, sent, ev.obs.wire, ev.obs.decs)
    [] ev.a = "pyenc" -> LET KK == KOf(ev.arg) IN
                         IF Admits(KK, ev.arg.msg)
                         THEN ev.obs.ret = "ok" /\ TermOK(KK, ev.arg.msg, "ok", ev.obs.frame, ev.obs.decs)
                         ELSE ev.obs.ret = "err"
    [] OTHER -> FALSE

Tier2Idle == UNCHANGED <<out, run, code, cap, pre, obs>>
Update(ev) ==
  CASE ev.a = "einit" -> K' = KOf(ev.arg) /\ msg' = ev.arg.msg /\ acc' = 0 /\ st' = "run" /\ Tier2Idle /\ UNCHANGED sent
    [] ev.a = "push"  -> /\ acc' = IF ev.obs.ret = "skip" THEN acc ELSE acc + ev.obs.n
                         /\ UNCHANGED <<K, msg, st, sent>> /\ Tier2Idle
    [] ev.a \in {"term", "fin"} ->
                         /\ IF ev.obs.ret = "ok" THEN st' = "done" /\ acc' = Len(msg) ELSE UNCHANGED <<st, acc>>
                         /\ UNCHANGED <<K, msg, sent>> /\ Tier2Idle
    [] ev.a = "pyenc" -> K' = KOf(ev.arg) /\ msg' = ev.arg.msg /\ acc' = Len(ev.arg.msg) /\ st' = "done" /\ Tier2Idle /\ UNCHANGED sent
    [] ev.a = "qinit" -> K' = KOf(ev.arg) /\ msg' = <<>> /\ acc' = 0 /\ st' = "run" /\ Tier2Idle /\ sent' = <<>>
    [] ev.a = "qsend" -> /\ sent' = IF ev.obs.ret = "ok" THEN Append(sent, ev.arg.msg) ELSE sent
                         /\ UNCHANGED <<K, msg, acc, st>> /\ Tier2Idle
    [] OTHER -> UNCHANGED <<vars, sent>>

TraceInit ==
  /\ l = 1 /\ bad = <<>> /\ skipb = -1 /\ sent = <<>>
  /\ K = KCobs /\ msg = <<>> /\ acc = 0 /\ st = "dead"
  /\ out = <<>> /\ run = <<>> /\ code = 0 /\ cap = 0 /\ pre = 0
  /\ obs = [a |-> "none", arg |-> [x |-> 0], exp |-> [ret |-> "any"]]

TraceNext ==
  /\ l <= Len(TraceLog)
  /\ l' = l + 1
  /\ LET ev == TraceLog[l] IN
     IF ev.b = skipb THEN UNCHANGED <<vars, bad, skipb, sent>>
     ELSE IF Judge(ev) THEN Update(ev) /\ UNCHANGED <<bad, skipb>>
     ELSE PrintT(<<"REJECT", l>>) /\ bad' = Append(bad, l) /\ skipb' = ev.b /\ UNCHANGED <<vars, sent>>

TraceSpec == TraceInit /\ [][TraceNext]_<<vars, l, bad, skipb, sent>>

\* checked on the last state: print what was read and what was rejected
AtEnd == l > Len(TraceLog) => PrintT(<<"MATCHED", l - 1, "REJECTED", Len(bad)>>)
TraceAccepted == TLCGet("stats").diameter - 1 = Len(TraceLog)
=============================================================================
