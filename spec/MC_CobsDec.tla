---------------------------- MODULE MC_CobsDec ----------------------------
(* Exhaustive configuration of CobsDec: ALL byte strings up to MaxLen over *)
(* a boundary alphabet (delimiter, smallest codes, the block limit, pair   *)
(* codes, a byte above every code), every segmentation into feeds, calls   *)
(* and peeks at every point, resumption after every answer, every grant    *)
(* schedule, five framings at scaled block limits.                         *)
EXTENDS CobsDec
K3 == {SCobs(3), SCobsR(3), SZpe(3, 3), SZpeR(3, 3)}
K5 == {SCobs(5), SCobsR(5), SZpe(5, 4), SZpeR(5, 4)}
KindsQ == K3 \cup {KCmd}
KindsT == K3 \cup K5 \cup {KCmd}
AlphaQ == {0, 1, 2, 3, 5}
AlphaT == {0, 1, 2, 3, 4, 5, 6, 7}
SlacksQ == {0, 2}
GrantsQ == {1, 2}
Bound == Len(reg) <= MaxLen + 6
View  == <<K, stream, fedn, fs, lost, reg, curr, pos, dlen, dmsg, code, cpos, last>>
=============================================================================
