SPECIFICATION GenSpecM
CONSTANTS MaxNodes = 5 Kinds <- KindsQ Pos <- PosQ3 Keys <- KeysQ
VIEW ShapeView
ACTION_CONSTRAINT Emit
CHECK_DEADLOCK FALSE
