----------------------------- MODULE Trace_Reply -----------------------------
(* Trace validation: a recorded execution of the real id codec / reply     *)
(* context (one event per call: arguments, scripted transport verdict,     *)
(* observation) must be a behaviour of Reply.  Executions are concatenated;*)
(* each starts with an "init" event.                                       *)
EXTENDS Reply, Json, IOUtils
VARIABLE l
TraceLog == ndJsonDeserialize(IOEnv.TRACE)

ResetTo(arg) ==
  /\ mode' = arg.mode
  /\ max' = IF arg.mode \in {"ctx", "stream"} THEN arg.max ELSE 0
  /\ target' = ((arg.mode = "stream" /\ arg.via = "input") \/ (arg.mode = "ctx" /\ arg.target = 1))
  /\ attached' = (arg.mode = "stream" \/ (arg.mode = "ctx" /\ arg.attached = 1))
  /\ own' = IF arg.mode = "ctx" THEN 1 ELSE 0
  /\ clen' = 0 /\ cval' = <<>> /\ handles' = [h \in 1..MaxH |-> <<>>]
  /\ reqs' = <<>> /\ ctr' = 0
  /\ obs' = [a |-> "init", g |-> {}, arg |-> arg,
             exp |-> IF arg.mode = "ctx" THEN [ret |-> "ok", sends |-> <<>>, armed |-> 0] ELSE [ret |-> "ok"]]

Msg(arg) == [null |-> arg.null, data |-> arg.data]
Step(ev) ==
  CASE ev.a = "init"      -> ResetTo(ev.arg)
    [] ev.a = "id2buf"    -> Id2Buf(ev.arg.id, ev.arg.w)
    [] ev.a = "buf2id"    -> Buf2Id(ev.arg.buf)
    [] ev.a = "roundtrip" -> RoundTrip(ev.arg.id, ev.arg.w)
    [] ev.a = "arm"       -> Arm(ev.arg.id)
    [] ev.a = "reply"     -> Reply(Msg(ev.arg), ev.arg.tv)
    [] ev.a = "replytext" -> ReplyText(ev.arg.code, ev.arg.text, ev.arg.tv)
    [] ev.a = "defer"     -> Defer(ev.arg.h)
    [] ev.a = "dreply"    -> DeferredReply(ev.arg.h, Msg(ev.arg), ev.arg.tv)
    [] ev.a = "drelease"  -> ReleaseHandle(ev.arg.h, ev.arg.tv)
    [] ev.a = "release"   -> ReleaseCtx(ev.arg.tv, Len(ev.obs.sends) > 0)
    [] ev.a = "addref"    -> AddRef
    [] ev.a = "srequest"  -> IF ev.arg.act = "defer" THEN StreamDefer(ev.arg.id, ev.arg.payload, ev.arg.h)
                             ELSE StreamRequest(ev.arg.id, ev.arg.payload, ev.arg.act, ev.arg.data, ev.arg.hret)
    [] ev.a = "sdreply"   -> StreamDeferred(ev.arg.h, ev.arg.data)
    [] ev.a = "slate"     -> StreamLate(ev.arg.data)
    [] ev.a = "sanswer"   -> StreamAnswer(ev.arg.id, ev.arg.payload)
    [] OTHER              -> FALSE

Matches(ev) ==
  LET e == obs'.exp IN
  /\ "ret" \in DOMAIN e => (e.ret = "any" \/ e.ret = ev.obs.ret)
  /\ "sends" \in DOMAIN e => e.sends = ev.obs.sends
  /\ "armed" \in DOMAIN e => e.armed = ev.obs.armed
  /\ "intact" \in DOMAIN e => e.intact = ev.obs.intact
  /\ "buf" \in DOMAIN e => e.buf = ev.obs.buf
  /\ "id" \in DOMAIN e => e.id = ev.obs.id
  /\ "seen" \in DOMAIN e => e.seen = ev.obs.seen
  /\ "frames" \in DOMAIN e => e.frames = ev.obs.frames
  /\ "r2" \in DOMAIN e => e.r2 = ev.obs.r2

TraceInit ==
  /\ l = 1 /\ InitId

TraceNext ==
  /\ l <= Len(TraceLog)
  /\ l' = l + 1
  /\ LET ev == TraceLog[l] IN
       Step(ev) /\ Matches(ev)

TraceSpec == TraceInit /\ [][TraceNext]_<<vars, l>>

TraceAccepted ==
  LET n == TLCGet("stats").diameter - 1 IN
  /\ PrintT(<<"MATCHED", n>>)
  /\ n = Len(TraceLog)
CMsgDom == {}
CTextDom == {}
=============================================================================
