---------------------------- MODULE PolyTransform ----------------------------
(***************************************************************************)
(* Extension X18 of property C18: the consumers that turn data + axis      *)
(* ranges into drawable polylines (mpt++/transform.cpp graph transform,    *)
(* mpt++/polyline.cpp, linepart::array::apply with a transform).           *)
(*                                                                         *)
(* Every dimension d has a transform  v -> T_d(v)  (kind[d]):              *)
(*   "lin+"  device = d * (v - lo)        (scale  d, offset -d*lo)         *)
(*   "lin-"  device = d * (hi - v)        (scale -d, offset  d*hi)         *)
(*   "log"   device = d * (log10 v - lo)  (the range is [10^lo, 10^hi])    *)
(* The state keeps every coordinate as its POSITION L on the axis: the     *)
(* value itself for a linear dimension, the exponent e of the value 10^e   *)
(* for a logarithmic one (exact powers: classification and ordering are    *)
(* decided exactly).  Values that are not positive have no position under  *)
(* log: they are carried as the positions Zero / Neg far below every       *)
(* range (the real code is given 0.0 and -10.0).                           *)
(*                                                                         *)
(* Tier 1 (meaning): PartOKT -- the clauses of Linepart!PartOK / PartOK2   *)
(*   on positions whatever the transform; dimensions of unequal length     *)
(*   are judged on their common prefix; the position of a line end whose   *)
(*   data point is not positive under log is not judged.  DevOK -- the     *)
(*   drawn device points of a part are the transforms of its data points,  *)
(*   a cut/trimmed line end lies on the segment at the stored fraction     *)
(*   (one code), in one dimension: on the image of the range boundary.     *)
(* Tier 2 (design): PolyParts (linepart::array::set + apply per dimension  *)
(*   through transform3::part), PolyPtsT/PolyEndsT (apply_data, apply<>,   *)
(*   apply_log, polyline iterator / part::points / part::line).            *)
(***************************************************************************)
EXTENDS Linepart

CONSTANTS Kinds,      \* transform kinds explored
          Alphabet2,  \* positions explored in the second dimension
          HalfLimits, \* TRUE: the limits of a log dimension are also given as non-integral exponents
          Uneven      \* "same": dimensions of equal length; "any": the second dimension has any length up to MaxLen;
                      \* "short": a second dimension of one or two values

VARIABLE kind,        \* <<k1>> or <<k1, k2>>
         lim2         \* <<2 * lower, 2 * upper limit exponent>> as given to a logarithmic dimension

varsT == <<vars, kind, lim2>>

(* A logarithmic dimension rounds its limits outward to whole decades       *)
(* (transform3::part: 10^floor(min) .. 10^ceil(max)): the visible range     *)
(* [lo, hi] in positions is that of the given limit exponents lim2 / 2.     *)
(* kind "log2" (all dimensions of the run): positions and lo, hi count half *)
(* decades; an even position P is the value 10^(P/2), an odd one a value    *)
(* strictly between the decades (3 * 10^((P-1)/2)): its classification and  *)
(* ordering are decided, its exact position (crossing fractions, device     *)
(* coordinate) is not.                                                      *)
Half == \E d \in 1..Len(kind) : kind[d] = "log2"
FloorHalf(x) == x \div 2
CeilHalf(x)  == -((-x) \div 2)
LimitsOK ==
  IF Half THEN /\ \A d \in 1..Len(kind) : kind[d] = "log2"
               /\ lo = 2 * FloorHalf(lim2[1]) /\ hi = 2 * CeilHalf(lim2[2])
  ELSE lo = FloorHalf(lim2[1]) /\ hi = CeilHalf(lim2[2])

ND == Len(kind)      \* number of dimensions of the current run
Zero == -1048576      \* position of the value 0 under log
Neg  == -1048577      \* position of a negative value under log
NonPos(x) == x <= Zero
Max2(a, b) == IF a > b THEN a ELSE b

Pfx == IF ND = 2 THEN Min2(Len(data), Len(data2)) ELSE Len(data)   \* common prefix
Tot == IF ND = 2 THEN Max2(Len(data), Len(data2)) ELSE Len(data)

Dat(d) == IF d = 1 THEN data ELSE data2

---------------------------------------------------------------------------
(* device coordinate (exact integer) of the position L in dimension d      *)
DevA(d) == IF kind[d] = "lin-" THEN -d ELSE d
DevB(d) == IF kind[d] = "lin-" THEN d * hi ELSE -(d * lo)
Dev(d, L) == IF kind[d] = "log2" THEN d * ((L - lo) \div 2)       \* even positions only
             ELSE DevA(d) * L + DevB(d)

---------------------------------------------------------------------------
(* Tier 1 *)
VisT(i) == /\ i <= Pfx
           /\ InR(data[i])
           /\ ND = 2 => InR(data2[i])

Between(d, x) == kind[d] = "log2" /\ ~NonPos(x) /\ x % 2 = 1     \* a value between the decades
NoPosition(o) == \/ NonPos(data[o]) \/ Between(1, data[o])
                 \/ (ND = 2 /\ (NonPos(data2[o]) \/ Between(2, data2[o])))

CrossTOK(c, o, i) ==     \* o: outside line end, i: its neighbour on the line (both inside the common prefix)
  \/ NoPosition(o) \/ NoPosition(i)
  \/ IF ND = 2 THEN Cross2OK(c, o, i)
     ELSE InR(data[i]) /\ CodeNear(c, CrossA(data[o], data[i]), CrossB(data[o], data[i]))

PartOKT(p) ==
  LET m == Min2(p.n, Limit)
      e == p.s + p.usr
  IN
  /\ p.raw \in 0..m /\ p.usr \in 0..(m + 1)
  /\ p.n >= 1 => p.raw >= 1                                               \* progress
  /\ e <= Tot
  /\ \A i \in Drawn(p) : i <= Pfx => (VisT(i) /\ i <= p.s + p.raw)          \* only visible points drawn, in their own part
  /\ \A i \in (p.s + 1)..(p.s + p.raw) : VisT(i) => i \in Drawn(p)           \* every visible point drawn
  /\ (p.cut # 0 /\ p.usr > 0 /\ p.s + 2 <= Pfx) =>
       /\ p.usr >= 2 /\ ~VisT(p.s + 1)
       /\ CrossTOK(p.cut, p.s + 1, p.s + 2)
  /\ (p.trim # 0 /\ p.usr > 0 /\ e <= Pfx) =>
       /\ p.usr >= 2 /\ ~VisT(e)
       /\ CrossTOK(p.trim, e, e - 1)

(* device points: pts = <<x, y>> of every point of points(), ends =        *)
(* <<known, 65536 x, 65536 y, known, 65536 x, 65536 y>> of line()          *)
DevPt(i) == <<IF i <= Len(data) THEN Dev(1, data[i]) ELSE 0,
              IF ND = 2 /\ i <= Len(data2) THEN Dev(2, data2[i]) ELSE 0>>

Abs(x) == IF x < 0 THEN -x ELSE x
(* the end e65536 lies on the segment from o to i at code c, within one code *)
OnSegment(e65536, d, o, i, c) ==
  LET a == Dev(d, Dat(d)[o])  b == Dev(d, Dat(d)[i])
  IN Abs(e65536 - (65536 * a + c * (b - a))) <= Abs(b - a)
(* one dimension: the end lies on the image of the range boundary          *)
OnBoundary(e65536, o, i) ==
  LET bound == IF data[o] < lo THEN lo ELSE hi
  IN Abs(e65536 - 65536 * Dev(1, bound)) <= Abs(Dev(1, data[i]) - Dev(1, data[o]))

EndOKT(p, e, first) ==     \* e = <<known, x, y>> of the first / last line point
  LET o == IF first THEN p.s + 1 ELSE p.s + p.usr
      i == IF first THEN p.s + 2 ELSE p.s + p.usr - 1
      c == IF first THEN p.cut ELSE p.trim
  IN (e[1] = 1 /\ p.usr > 0 /\ p.s + p.usr <= Pfx) =>
       IF c = 0 THEN NoPosition(o) \/ (e[2] = 65536 * DevPt(o)[1] /\ e[3] = 65536 * DevPt(o)[2])
       ELSE NoPosition(o) \/ NoPosition(i) \/
            /\ OnSegment(e[2], 1, o, i, c)
            /\ ND = 2 => OnSegment(e[3], 2, o, i, c)
            /\ ND = 1 => OnBoundary(e[2], o, i)

DevOK(p, pts, ends) ==
  LET a == p.s + 1 + (IF p.cut # 0 THEN 1 ELSE 0) IN
  /\ Len(pts) = NDrawn(p)
  /\ \A k \in 1..Len(pts) : (a + k - 1 <= Pfx /\ ~NoPosition(a + k - 1)) => pts[k] = DevPt(a + k - 1)
  /\ EndOKT(p, <<ends[1], ends[2], ends[3]>>, TRUE)
  /\ EndOKT(p, <<ends[4], ends[5], ends[6]>>, FALSE)

---------------------------------------------------------------------------
(* Tier 2: linepart::array::apply over existing parts; as Linepart!ApplyOldD *)
(* with the rule for a dimension that ends inside the old line: the old     *)
(* line's trim does not describe the shortened line.                        *)
RECURSIVE ApplyOldT(_, _, _, _, _, _)
ApplyOldT(dat, old, rest, len, off, out) ==
  LET tl(r) == IF r = <<>> THEN <<>> ELSE SubSeq(r, 2, Len(r)) IN
  IF old.usr = 0 \/ len = 0
  THEN LET pt   == [s |-> off, n |-> old.raw, raw |-> old.raw, usr |-> old.usr, cut |-> old.cut, trim |-> old.trim]
           len2 == IF len > old.raw THEN len - old.raw ELSE 0
           off2 == off + old.raw       \* position of the next part (no value is read once len = 0)
           out2 == AddPart(out, pt)
       IN IF rest = <<>> THEN out2 ELSE ApplyOldT(dat, rest[1], tl(rest), len2, off2, out2)
  ELSE LET ousr  == Min2(old.usr, len)
           otrim == IF len < old.usr THEN 0 ELSE old.trim
           p0    == PartOf(SubSeq(dat, off + 1, off + Min2(ousr, Limit)))
           cut   == IF old.cut > p0.cut THEN old.cut ELSE p0.cut
           trimM == IF p0.usr = ousr /\ otrim > p0.trim THEN otrim ELSE p0.trim
       IN IF p0.raw < old.raw
          THEN LET pt == [s |-> off, n |-> ousr, raw |-> p0.raw, usr |-> p0.usr, cut |-> cut, trim |-> trimM]
                   o2 == [raw |-> old.raw - p0.raw, usr |-> ousr - p0.raw, cut |-> 0, trim |-> otrim]
               IN ApplyOldT(dat, o2, rest, len - p0.raw, off + p0.raw, AddPart(out, pt))
          ELSE LET raw  == Min2(old.raw, p0.raw)
                   pt   == [s |-> off, n |-> ousr, raw |-> raw, usr |-> p0.usr, cut |-> cut, trim |-> trimM]
                   out2 == AddPart(out, pt)
               IN IF rest = <<>> THEN out2 ELSE ApplyOldT(dat, rest[1], tl(rest), len - raw, off + raw, out2)

Rest(ps) == SubSeq(ps, 2, Len(ps))

(* polyline::set: set(longest dimension), then apply() per dimension *)
PolyParts ==
  LET sp == SetParts(Tot, 0)
      p1 == IF sp = <<>> THEN <<>> ELSE ApplyOldT(data, sp[1], Rest(sp), Len(data), 0, <<>>)
  IN IF ND = 1 \/ p1 = <<>> THEN p1
     ELSE ApplyOldT(data2, p1[1], Rest(p1), Len(data2), 0, <<>>)

(* a fresh linepart::array: apply() of the first dimension walks the data,  *)
(* the second is applied onto its parts                                    *)
FreshParts ==
  LET p1 == Walk(0, <<>>)
  IN IF ND = 1 \/ p1 = <<>> THEN p1
     ELSE ApplyOldT(data2, p1[1], Rest(p1), Len(data2), 0, <<>>)

(* apply_data + apply<> / apply_log: coordinates of points() and line()     *)
PtsOf(p) ==
  LET a == p.s + 1 + (IF p.cut # 0 THEN 1 ELSE 0) IN
  [k \in 1..NDrawn(p) |-> DevPt(a + k - 1)]
EndCoord(d, o, i, c) ==   \* 65536 * coordinate of the line end o with neighbour i and code c
  IF d > ND THEN 0
  ELSE LET a == Dev(d, Dat(d)[o]) IN
       IF c = 0 THEN 65536 * a ELSE 65536 * a + c * (Dev(d, Dat(d)[i]) - a)
EndsOf(p) ==
  IF p.usr = 0 \/ p.s + p.usr > Pfx \/ (p.usr < 2 /\ (p.cut # 0 \/ p.trim # 0))
  THEN <<0, 0, 0, 0, 0, 0>>     \* no line / reaches beyond a dimension / a cut line of one point: not projected
  ELSE LET f == p.s + 1  e == p.s + p.usr
           k1 == IF p.cut # 0 /\ (NoPosition(f) \/ NoPosition(f + 1)) THEN 0 ELSE 1
           k2 == IF p.trim # 0 /\ (NoPosition(e) \/ NoPosition(e - 1)) THEN 0 ELSE 1
       IN <<k1, IF k1 = 1 THEN EndCoord(1, f, f + 1, p.cut) ELSE 0, IF k1 = 1 THEN EndCoord(2, f, f + 1, p.cut) ELSE 0,
            k2, IF k2 = 1 THEN EndCoord(1, e, e - 1, p.trim) ELSE 0, IF k2 = 1 THEN EndCoord(2, e, e - 1, p.trim) ELSE 0>>
PolyPtsT(ps)  == [i \in 1..Visited(ps) |-> PtsOf(ps[i])]
PolyEndsT(ps) == [i \in 1..Visited(ps) |-> EndsOf(ps[i])]

---------------------------------------------------------------------------
(* actions *)
TApply(ps) ==      \* fresh linepart::array, apply() per dimension with the graph transform
  /\ parts' = ps
  /\ pos' = SumRaw(ps)
  /\ obs' = [a |-> "tapply", arg |-> [x |-> 0], exp |-> [parts |-> ProjL(ps)]]
  /\ UNCHANGED <<data, data2, lo, hi, ranged, kind, lim2>>

TPoly(ret, ps, pts, ends) ==   \* polyline::set with the graph transform, walk over its parts
  /\ parts' = ps
  /\ pos' = SumRaw(ps)
  /\ obs' = [a |-> "tpoly", arg |-> [x |-> 0],
             exp |-> [ret |-> ret, parts |-> ProjL(ps), pts |-> pts, ends |-> ends, full |-> 1]]
  /\ UNCHANGED <<data, data2, lo, hi, ranged, kind, lim2>>

InitObsT == [a |-> "init",
             arg |-> [data |-> data, data2 |-> data2, lo |-> lo, hi |-> hi, ranged |-> Flag(ranged), lim |-> Limit,
                      kind |-> kind, lmin2 |-> lim2[1], lmax2 |-> lim2[2]],
             exp |-> [x |-> 0]]

AlphaOf(k) == IF k = "log" /\ ranged THEN Alphabet \cup {Zero, Neg} ELSE Alphabet
AlphaOf2(k) == IF k = "log" /\ ranged THEN Alphabet2 \cup {Zero, Neg} ELSE Alphabet2

InitT ==
  /\ \E r \in Ranges : lo = r[1] /\ hi = r[2]
  /\ ranged \in BOOLEAN
  /\ kind \in [1..Dims -> Kinds]
  /\ lim2 \in IF HalfLimits /\ ranged /\ (\E d \in 1..Dims : kind[d] = "log")
              THEN {<<2 * lo, 2 * hi>>, <<2 * lo + 1, 2 * hi - 1>>, <<2 * lo + 1, 2 * hi>>}
              ELSE {<<2 * lo, 2 * hi>>}
  /\ data \in UNION {[1..k -> AlphaOf(kind[1])] : k \in 1..MaxLen}
  /\ data2 \in IF Dims = 2
               THEN IF Uneven = "short" THEN {<<2>>, <<2, 2>>, <<2, 4>>}      \* a short second dimension under long first ones
                    ELSE UNION {[1..k -> AlphaOf2(kind[2])] : k \in (IF Uneven = "any" THEN 1..MaxLen ELSE {Len(data)})}
               ELSE {<<>>}
  /\ ~ranged => Tot <= NoRangeLen
  /\ pos = 0 /\ parts = <<>>
  /\ obs = InitObsT

NextT ==
  /\ pos = 0 /\ parts = <<>> /\ obs.a = "init"
  /\ \/ TApply(FreshParts)
     \/ LET ps == PolyParts IN
        TPoly(IF SumUsr(ps) > 0 THEN "ok" ELSE "refused", ps, PolyPtsT(ps), PolyEndsT(ps))

SpecT == InitT /\ [][NextT]_varsT

---------------------------------------------------------------------------
(* invariants: the meaning holds of everything the design produces *)
TypeOKT    == /\ kind \in [1..Dims -> Kinds] /\ pos \in 0..Tot /\ LimitsOK
              /\ \A i \in 1..Len(parts) : parts[i].raw \in 0..Limit /\ parts[i].usr \in 0..Limit
                                           /\ parts[i].cut \in 0..65535 /\ parts[i].trim \in 0..65535
PartsOKT   == \A i \in 1..Len(parts) : PartOKT(parts[i])
PartitionT == Contiguous(parts, pos)
CompleteT  == obs.a \in {"tapply", "tpoly"} => pos \in Pfx..Tot /\ (ND = 1 => pos = Len(data))
DevOKT     == obs.a = "tpoly" =>
                /\ Len(obs.exp.pts) = Len(obs.exp.ends) /\ Len(obs.exp.pts) <= Len(parts)
                /\ \A i \in 1..Len(parts) : parts[i].usr > 0 => i <= Len(obs.exp.pts)
                /\ \A i \in 1..Len(obs.exp.pts) : DevOK(parts[i], obs.exp.pts[i], obs.exp.ends[i])
(* a drawn point inside the common prefix is in range: never a value that is not positive under log *)
NoNonPosDrawn == \A i \in 1..Len(parts) : \A j \in Drawn(parts[i]) :
                   j <= Pfx => ~NonPos(data[j]) /\ (ND = 2 => ~NonPos(data2[j]))
=============================================================================
