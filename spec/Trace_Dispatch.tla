--------------------------- MODULE Trace_Dispatch ---------------------------
(* Trace validation: a recorded execution of the real dispatcher (one      *)
(* event per call: arguments, scripted handler result, observation) must   *)
(* be a behaviour of Dispatch.  Executions are concatenated; each starts   *)
(* with an "init" event.                                                   *)
EXTENDS Dispatch, Json, IOUtils
VARIABLE l
TraceLog == ndJsonDeserialize(IOEnv.TRACE)

Reset ==
  /\ kind' = "none" /\ slots' = <<>> /\ def' = Zero /\ err' = -1
  /\ tab' = << >> /\ fin' = << >> /\ ever' = {} /\ ntok' = 0 /\ snap' = NoSnap
  /\ obs' = [a |-> "init", arg |-> [x |-> 0],
             exp |-> [ret |-> "ok", calls |-> <<>>, def |-> Zero, table |-> <<>>]]

HR(arg) == <<arg.r, arg.clear>>
Step(ev) ==
  CASE ev.a = "init"     -> Reset
    [] ev.a = "set"      -> Set(ev.arg.id) /\ ev.arg.tok = NewTok
    [] ev.a = "settext"  -> SetText(ev.arg.text) /\ ev.arg.tok = NewTok
    [] ev.a = "clear"    -> Clear(ev.arg.id)
    [] ev.a = "cmdset"   -> CmdSet(ev.arg.id, ev.arg.new) /\ ev.arg.tok = NewTok
    [] ev.a = "seterror" -> SetError /\ ev.arg.tok = NewTok
    \* which id is handed out (and whether one is) is the implementation's choice
    [] ev.a = "reserve"  -> /\ ev.arg.tok = NewTok
                            /\ IF ev.obs.ret = "ok" THEN Reserve(ev.arg.w, ev.obs.id, TRUE)
                               ELSE Reserve(ev.arg.w, Zero, FALSE)
    [] ev.a = "setdefault" -> SetDefault(ev.arg.id)
    [] ev.a = "fini"     -> Fini
    [] ev.a = "clearall" -> ClearAll
    [] ev.a = "drop"     -> Drop
    [] ev.a = "snapshot" -> Snapshot
    [] ev.a = "dropsnapshot" -> DropSnapshot
    [] ev.a = "emit"     -> EmitId(ev.arg.id, HR(ev.arg))
    [] ev.a = "emitmsg"  -> EmitMsg(ev.arg.data, HR(ev.arg))
    [] ev.a = "emitnone" -> EmitNone(HR(ev.arg))
    [] ev.a = "hash"     -> HashEmit(ev.arg.cmd, ev.arg.sep, ev.arg.payload, ev.arg.cuts, HR(ev.arg))
    [] OTHER             -> FALSE

Matches(ev) ==
  LET e == obs'.exp IN
  /\ e.ret = ev.obs.ret
  /\ e.calls = ev.obs.calls
  /\ e.def = ev.obs.def
  /\ e.table = ev.obs.table
  /\ "id" \in DOMAIN e => e.id = ev.obs.id

TraceInit == l = 1 /\ Init

TraceNext ==
  /\ l <= Len(TraceLog)
  /\ l' = l + 1
  /\ LET ev == TraceLog[l] IN
       Step(ev) /\ Matches(ev)

TraceSpec == TraceInit /\ [][TraceNext]_<<vars, l>>

TraceAccepted ==
  LET n == TLCGet("stats").diameter - 1 IN
  /\ PrintT(<<"MATCHED", n>>)
  /\ n = Len(TraceLog)
CTexts == {}
CHRs == {}
=============================================================================
