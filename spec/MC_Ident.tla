------------------------------ MODULE MC_Ident ------------------------------
(* Exhaustive configuration of Ident: full state, small constants.        *)
EXTENDS Ident
View == <<name, st, heap, bad>>     \* obs is an observation, not state
=============================================================================
