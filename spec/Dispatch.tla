------------------------------ MODULE Dispatch ------------------------------
(***************************************************************************)
(* Event dispatcher of mptcore/event (property C11).                       *)
(*                                                                         *)
(* Tier 1 (meaning):  tab  -- the map  id -> token of the handler that is  *)
(*                            registered for it now,                       *)
(*                    fin  -- end-of-life notifications seen per token,    *)
(*                    ever -- tokens that were ever registered.            *)
(* Tier 2 (design):   kind/slots mirror the command array of the           *)
(*                    dispatcher ({id, cmd, arg}; tok = 0 <=> cmd == NULL, *)
(*                    the id of an emptied slot stays behind), def/err     *)
(*                    mirror dispatch._def/_err.                           *)
(*                    snap mirrors a snapshot handle on the command array  *)
(*                    (mpt_array_clone of the public _d member): st =      *)
(*                    "none" (no handle), "same" (shares the dispatcher's  *)
(*                    buffer: every write is seen by both), "own" (the     *)
(*                    last reference to a buffer the dispatcher left       *)
(*                    behind: kind/slots of that buffer).                  *)
(* Ids are uintptr_t values: tuples <<l0,l1,l2,l3>> of 16-bit limbs, l0    *)
(* least significant (TLC integers are 32 bit, command hashes are not).    *)
(* A token identifies one registration (the handler's arg pointer); every  *)
(* registration attempt draws a fresh one.  What the harness handler       *)
(* returns (flags 0..7 or an error, clearing ev.id or not) is the model's  *)
(* choice hr, passed to the real handler by the script.                    *)
(***************************************************************************)
EXTENDS Integers, Sequences, FiniteSets, TLC

CONSTANTS SmallIds,   \* small integers used as ids (also as first message byte)
          Texts,      \* command texts (byte sequences < 128) registered by hash
          Widths,     \* id widths offered to mpt_command_reserve
          HRs         \* handler results offered: <<r, clear>>, r = flags or -1

VARIABLES kind, slots, def, err,         \* Tier 2
          snap,                          \* Tier 2: a second handle on the table's buffer
          tab, fin, ever,                \* Tier 1
          ntok, obs
vars  == <<kind, slots, def, err, snap, tab, fin, ever, ntok, obs>>
state == <<kind, slots, def, err, snap, tab, fin, ever, ntok>>

---------------------------------------------------------------------------
(* ids on limbs *)
Zero    == <<0, 0, 0, 0>>
L(n)    == <<n, 0, 0, 0>>                       \* small integer as id
Lt(a, b) == \/ a[4] < b[4]
            \/ a[4] = b[4] /\ a[3] < b[3]
            \/ a[4] = b[4] /\ a[3] = b[3] /\ a[2] < b[2]
            \/ a[4] = b[4] /\ a[3] = b[3] /\ a[2] = b[2] /\ a[1] < b[1]
Inc(a) == IF a[1] < 65535 THEN <<a[1] + 1, a[2], a[3], a[4]>>
          ELSE IF a[2] < 65535 THEN <<0, a[2] + 1, a[3], a[4]>>
          ELSE IF a[3] < 65535 THEN <<0, 0, a[3] + 1, a[4]>>
          ELSE <<0, 0, 0, (a[4] + 1) % 65536>>
MaxOfIds(S) == IF S = {} THEN Zero ELSE CHOOSE m \in S : \A x \in S : x = m \/ Lt(x, m)

\* bitwise xor of two bytes
RECURSIVE Xor8(_, _, _)
Xor8(a, b, n) == IF n = 0 THEN 0
                 ELSE (((a % 2) + (b % 2)) % 2) + 2 * Xor8(a \div 2, b \div 2, n - 1)
\* h * 33 mod 2^64 on limbs
Mul33(h) == LET p1 == h[1] * 33
                p2 == h[2] * 33 + p1 \div 65536
                p3 == h[3] * 33 + p2 \div 65536
                p4 == h[4] * 33 + p3 \div 65536
            IN <<p1 % 65536, p2 % 65536, p3 % 65536, p4 % 65536>>
XorLow(h, c) == <<(h[1] \div 256) * 256 + Xor8(h[1] % 256, c, 8), h[2], h[3], h[4]>>
\* the text is read as (signed) char: a byte >= 128 is sign extended before the xor,
\* i.e. every bit above the low byte is flipped as well
XorChar(h, c) == IF c < 128 THEN XorLow(h, c)
                 ELSE <<(255 - h[1] \div 256) * 256 + Xor8(h[1] % 256, c, 8),
                        65535 - h[2], 65535 - h[3], 65535 - h[4]>>
\* mpt_hash = djb2 variant  hash(i) = hash(i-1) * 33 ^ str[i], start 5381, over ALL bytes of
\* the given length (a zero byte inside is hashed like any other)
RECURSIVE Djb2From(_, _, _)
Djb2From(h, t, i) == IF i > Len(t) THEN h ELSE Djb2From(XorChar(Mul33(h), t[i]), t, i + 1)
Djb2(t) == Djb2From(L(5381), t, 1)

\* largest id mpt_command_reserve hands out for an id width
MaxFor(w) == CASE w = 1 -> <<127, 0, 0, 0>>        [] w = 2 -> <<32767, 0, 0, 0>>
               [] w = 3 -> <<65535, 127, 0, 0>>    [] w = 4 -> <<65535, 32767, 0, 0>>
               [] w = 5 -> <<65535, 65535, 127, 0>> [] w = 6 -> <<65535, 65535, 32767, 0>>
               [] w = 7 -> <<65535, 65535, 65535, 127>>
               [] OTHER -> <<65535, 65535, 65535, 32767>>

---------------------------------------------------------------------------
(* table helpers *)
Live       == {i \in DOMAIN slots : slots[i].tok # 0}
LiveIds    == {slots[i].id : i \in Live}
SlotOf(id) == CHOOSE i \in Live : slots[i].id = id
Empty      == {i \in DOMAIN slots : slots[i].tok = 0}
MinOf(S)   == CHOOSE x \in S : \A y \in S : x <= y
Registered(id) == id \in DOMAIN tab
Compact    == SelectSeq(slots, LAMBDA s : s.tok # 0)
TabSet(id, t) == [x \in DOMAIN tab \cup {id} |-> IF x = id THEN t ELSE tab[x]]
TabDel(id)    == [x \in DOMAIN tab \ {id} |-> tab[x]]
FinUp(T)      == [t \in DOMAIN fin |-> IF t \in T THEN fin[t] + 1 ELSE fin[t]]
NewTok        == ntok + 1
FinNew        == [t \in 1..NewTok |-> IF t \in DOMAIN fin THEN fin[t] ELSE 0]

\* the registrations in token order (canonical form of the table for obs)
RECURSIVE TableFrom(_, _)
TableFrom(t, top) ==
  IF t > top THEN <<>>
  ELSE LET ids == {id \in DOMAIN tab' : tab'[id] = t} IN
       (IF ids = {} THEN <<>> ELSE <<[tok |-> t, id |-> CHOOSE id \in ids : TRUE]>>) \o TableFrom(t + 1, top)

\* snapshot handle
NoSnap        == [st |-> "none", kind |-> "none", slots |-> <<>>]
SameSnap      == [st |-> "same", kind |-> "none", slots |-> <<>>]
OwnSnap(k, s) == [st |-> "own", kind |-> k, slots |-> s]
Shared        == snap.st = "same"
\* the snapshot is left behind with the buffer as it is (k, s) when the dispatcher moves on
Detach(k, s)  == snap' = IF Shared THEN OwnSnap(k, s) ELSE snap
\* registrations whose end-of-life call is due when the snapshot lets go of a typed buffer
Held          == IF snap.st = "own" /\ snap.kind = "cmd"
                 THEN {snap.slots[i].tok : i \in {j \in DOMAIN snap.slots : snap.slots[j].tok # 0}} ELSE {}
\* design: a shared typed buffer (created no-copy) cannot grow; an empty one is replaced
AppendRefused == Shared /\ kind = "cmd" /\ Empty = {} /\ slots # <<>>

Call(t, id, m)  == [tok |-> t, fin |-> 0, id |-> id, msg |-> m]
FinCall(t)      == [tok |-> t, fin |-> 1, id |-> Zero, msg |-> 0]

Answer(a, arg, ret, calls) ==
  obs' = [a |-> a, arg |-> arg,
          exp |-> [ret |-> ret, calls |-> calls, def |-> def', table |-> TableFrom(1, ntok')]]

---------------------------------------------------------------------------
(* mpt_command_set(&disp->_d, id, handler | NULL, tok): replace, add, delete *)
PlaceNew(id, t) ==      \* Tier 2: where a new entry goes
  IF kind = "none" THEN /\ kind' = "cmd" /\ slots' = <<[id |-> id, tok |-> t]>> /\ UNCHANGED snap
  ELSE /\ kind' = kind
       /\ IF Empty # {} THEN slots' = [slots EXCEPT ![MinOf(Empty)] = [id |-> id, tok |-> t]] /\ UNCHANGED snap
          ELSE slots' = Append(slots, [id |-> id, tok |-> t]) /\ Detach(kind, slots)   \* grows: not in shared storage

CmdSet(id, new) ==
  LET t == IF new = 1 THEN NewTok ELSE 0
      arg == [id |-> id, new |-> new, tok |-> NewTok] IN
  /\ ntok' = NewTok /\ UNCHANGED <<def, err>>
  /\ IF Registered(id)
     THEN /\ slots' = [slots EXCEPT ![SlotOf(id)].tok = t] /\ kind' = kind /\ UNCHANGED snap
          /\ tab' = IF new = 1 THEN TabSet(id, t) ELSE TabDel(id)
          /\ fin' = FinUp({tab[id]}) @@ (NewTok :> 0)
          /\ ever' = IF new = 1 THEN ever \cup {t} ELSE ever
          /\ Answer("cmdset", arg, "ok", <<FinCall(tab[id])>>)
     ELSE IF AppendRefused
     THEN /\ UNCHANGED <<kind, slots, snap, tab, ever>> /\ fin' = FinNew
          /\ Answer("cmdset", arg, "refused", <<>>)
     ELSE /\ PlaceNew(id, t)
          /\ tab' = IF new = 1 THEN TabSet(id, t) ELSE tab
          /\ fin' = FinNew
          /\ ever' = IF new = 1 THEN ever \cup {t} ELSE ever
          /\ Answer("cmdset", arg, "ok", <<>>)

(* mpt_dispatch_set(disp, id, handler, tok): register, refused when taken *)
SetCore(a, arg, id) ==
  /\ ntok' = NewTok /\ UNCHANGED <<def, err>>
  /\ IF Registered(id)
     THEN /\ UNCHANGED <<kind, slots, snap, tab, ever>> /\ fin' = FinNew
          /\ Answer(a, arg, "refused", <<>>)
     ELSE IF AppendRefused
     THEN /\ UNCHANGED <<kind, slots, snap, tab, ever>> /\ fin' = FinNew
          /\ Answer(a, arg, "refused", <<>>)
     ELSE /\ PlaceNew(id, NewTok)
          /\ tab' = TabSet(id, NewTok) /\ fin' = FinNew /\ ever' = ever \cup {NewTok}
          /\ Answer(a, arg, "ok", <<>>)
Set(id) == SetCore("set", [id |-> id, tok |-> NewTok], id)
\* ... under the hash of a command text (the id is computed by mpt_hash)
SetText(t) == SetCore("settext", [text |-> t, tok |-> NewTok], Djb2(t))

(* mpt_dispatch_set(disp, id, NULL, NULL): unregister *)
Clear(id) ==
  LET arg == [id |-> id] IN
  /\ UNCHANGED <<def, err, ntok, kind, ever, snap>>
  /\ IF Registered(id)
     THEN /\ slots' = [slots EXCEPT ![SlotOf(id)].tok = 0]
          /\ tab' = TabDel(id) /\ fin' = FinUp({tab[id]})
          /\ Answer("clear", arg, "ok", <<FinCall(tab[id])>>)
     ELSE /\ UNCHANGED <<slots, tab, fin>>
          /\ Answer("clear", arg, "refused", <<>>)

(* replace the fallback handler (what mpt++ dispatch::set_error does) *)
SetError ==
  LET arg == [tok |-> NewTok] IN
  /\ ntok' = NewTok /\ err' = NewTok /\ ever' = ever \cup {NewTok}
  /\ fin' = (IF err > 0 THEN FinUp({err}) ELSE fin) @@ (NewTok :> 0)
  /\ UNCHANGED <<kind, slots, def, tab, snap>>
  /\ Answer("seterror", arg, "ok", IF err > 0 THEN <<FinCall(err)>> ELSE <<>>)

(* choose the default id explicitly (mpt++ dispatch::set_default): only a *)
(* registered id can become the default                                   *)
SetDefault(id) ==
  LET arg == [id |-> id] IN
  /\ UNCHANGED <<kind, slots, err, snap, tab, fin, ever, ntok>>
  /\ IF Registered(id) THEN def' = id /\ Answer("setdefault", arg, "ok", <<>>)
     ELSE UNCHANGED def /\ Answer("setdefault", arg, "refused", <<>>)

(* mpt_command_reserve(&disp->_d, w) followed by taking the slot over     *)
(* (cmd->cmd = handler, cmd->arg = tok) as mpt_connection_await does.     *)
(* The id handed out must be new among the live ones and <= MaxFor(w);    *)
(* which one it is, is the implementation's choice.                       *)
ReserveId(w) ==        \* design: one above the largest id any slot carries, else the lowest free one
  LET mid == Inc(MaxOfIds({slots[i].id : i \in DOMAIN slots})) IN
  IF kind = "none" THEN L(1)
  ELSE IF ~Lt(MaxFor(w), mid) /\ mid # Zero THEN mid
  ELSE L(MinOf({n \in 1..(Cardinality(Live) + 1) : L(n) \notin LiveIds}))
ReserveOK(w) == kind # "cmd"     \* design: a typed (command traits) buffer cannot be appended to
Reserve(w, id, ok) ==
  LET arg == [w |-> w, tok |-> NewTok] IN
  /\ ntok' = NewTok /\ UNCHANGED <<def, err>>
  /\ IF ~ok
     THEN /\ slots' = Compact /\ kind' = kind
          /\ UNCHANGED <<tab, ever, snap>> /\ fin' = FinNew
          /\ obs' = [a |-> "reserve", arg |-> arg,
                     exp |-> [ret |-> "refused", calls |-> <<>>, def |-> def, table |-> TableFrom(1, ntok')]]
     ELSE /\ id \notin LiveIds /\ id # Zero /\ ~Lt(MaxFor(w), id)
          /\ IF kind = "none"
             THEN slots' = <<[id |-> id, tok |-> NewTok]>> \o [i \in 1..7 |-> [id |-> Zero, tok |-> 0]] /\ UNCHANGED snap
             ELSE slots' = Append(Compact, [id |-> id, tok |-> NewTok]) /\ Detach(kind, Compact)
          /\ kind' = "raw"
          /\ tab' = TabSet(id, NewTok) /\ fin' = FinNew /\ ever' = ever \cup {NewTok}
          /\ obs' = [a |-> "reserve", arg |-> arg,
                     exp |-> [ret |-> "ok", id |-> id, calls |-> <<>>, def |-> def, table |-> TableFrom(1, ntok')]]

(* mpt_dispatch_fini: everything registered is notified once, table gone  *)
RECURSIVE FinCalls(_)
FinCalls(s) == IF s = <<>> THEN <<>>
               ELSE (IF s[1].tok # 0 THEN <<FinCall(s[1].tok)>> ELSE <<>>) \o FinCalls(SubSeq(s, 2, Len(s)))
Fini ==
  /\ kind' = "none" /\ slots' = <<>> /\ def' = Zero /\ err' = 0
  /\ tab' = << >> /\ UNCHANGED <<ntok, ever>>
  /\ Detach(kind, <<>>)                 \* the table is cleared in place before the reference goes
  /\ fin' = FinUp({slots[i].tok : i \in Live} \cup (IF err > 0 THEN {err} ELSE {}))
  /\ Answer("fini", [x |-> 0], "ok", FinCalls(slots) \o (IF err > 0 THEN <<FinCall(err)>> ELSE <<>>))

(* mpt_command_clear(&disp->_d): all registrations notified, buffer kept *)
ClearAll ==
  /\ slots' = <<>> /\ tab' = << >> /\ UNCHANGED <<kind, def, err, ntok, ever, snap>>
  /\ fin' = FinUp({slots[i].tok : i \in Live})
  /\ Answer("clearall", [x |-> 0], "ok", FinCalls(slots))
(* dropping the table's buffer without clearing it first (mpt_array_clone  *)
(* with no source): a buffer created by mpt_command_set carries the        *)
(* command traits, whose finaliser notifies every live entry               *)
\* ... while a snapshot shares the buffer nothing is released: the registrations stay with
\* the snapshot (Held) until that lets go
Drop ==
  /\ kind # "raw"
  /\ kind' = "none" /\ slots' = <<>> /\ tab' = << >> /\ UNCHANGED <<def, err, ntok, ever>>
  /\ Detach(kind, slots)
  /\ fin' = IF Shared THEN fin ELSE FinUp({slots[i].tok : i \in Live})
  /\ Answer("drop", [x |-> 0], "ok", IF Shared THEN <<>> ELSE FinCalls(slots))

(* a snapshot handle on the table: mpt_array_clone(&snapshot, &disp->_d)   *)
(* takes a second reference to the buffer in place (nothing to take from   *)
(* an absent table), mpt_array_clone(&snapshot, 0) releases it: the last   *)
(* reference to a typed buffer gone notifies what is live in it.           *)
Snapshot ==
  /\ snap.st = "none"
  /\ UNCHANGED <<kind, slots, def, err, tab, fin, ever, ntok>>
  /\ IF kind = "none" THEN UNCHANGED snap /\ Answer("snapshot", [x |-> 0], "none", <<>>)
     ELSE snap' = SameSnap /\ Answer("snapshot", [x |-> 0], "ok", <<>>)
DropSnapshot ==
  /\ UNCHANGED <<kind, slots, def, err, tab, ever, ntok>>
  /\ snap' = NoSnap
  /\ fin' = FinUp(Held)
  /\ Answer("dropsnapshot", [x |-> 0], IF snap.st = "none" THEN "none" ELSE "ok",
            IF Held # {} THEN FinCalls(snap.slots) ELSE <<>>)

---------------------------------------------------------------------------
(* dispatch *)
\* what the built-in fallback (unknownEvent of dispatch_finit.c) answers
Builtin(id, m) == IF id # Zero THEN <<3, 1>> ELSE IF m = 0 THEN <<3, 0>> ELSE <<2, 0>>

\* bookkeeping of mpt_dispatch_emit after a handler answered <<r, clear>> for event id
AfterEmit(a, arg, id, h, calls) ==
  LET r == h[1]  idafter == IF h[2] = 1 THEN Zero ELSE id IN
  IF r < 0 THEN UNCHANGED def /\ Answer(a, arg, -1, calls)
  ELSE /\ def' = IF (r % 2) = 1 THEN idafter ELSE def
       /\ Answer(a, arg, (r \div 2) * 2 + (IF def' # Zero THEN 1 ELSE 0), calls)

Deliver(a, arg, id, m, hr) ==
  /\ UNCHANGED <<kind, slots, err, snap, tab, fin, ever, ntok>>
  /\ IF Registered(id) THEN AfterEmit(a, arg, id, hr, <<Call(tab[id], id, m)>>)
     ELSE IF err > 0 THEN AfterEmit(a, arg, id, hr, <<Call(err, id, m)>>)
     ELSE IF err < 0 THEN AfterEmit(a, arg, id, Builtin(id, m), <<>>)
     ELSE UNCHANGED def /\ Answer(a, arg, -1, <<>>)

\* mpt_dispatch_emit with an event carrying an id
EmitId(id, hr) == Deliver("emit", [id |-> id, r |-> hr[1], clear |-> hr[2]], id, 0, hr)
\* ... carrying a message: the first byte is the id
EmitMsg(data, hr) ==
  LET arg == [data |-> data, r |-> hr[1], clear |-> hr[2]] IN
  IF data = <<>> THEN UNCHANGED state /\ Answer("emitmsg", arg, -1, <<>>)
  ELSE Deliver("emitmsg", arg, L(data[1]), 1, hr)
\* ... without an event: the default id
EmitNone(hr) ==
  LET arg == [r |-> hr[1], clear |-> hr[2]] IN
  IF def = Zero THEN UNCHANGED state /\ Answer("emitnone", arg, 0, <<>>)
  ELSE IF ~Registered(def)
  THEN /\ def' = Zero /\ UNCHANGED <<kind, slots, err, snap, tab, fin, ever, ntok>>
       /\ Answer("emitnone", arg, -1, <<>>)
  ELSE Deliver("emitnone", arg, def, 0, hr)

(* mpt_dispatch_hash: message <<cmd, sep>> \o payload (however it is cut   *)
(* into fragments).  The command text is the first argument of the         *)
(* payload (mpt_message_argv); its hash is the id.  No default bookkeeping *)
(* here: the handler's answer is handed back, an error as Fail|Default.    *)
(*   sep = 0 (or cmd not Command): up to the first NUL, else everything;   *)
(*   sep # 0: leading white space (isspace) is skipped first, then         *)
(*     graphic sep: up to the first sep, else everything (a NUL inside is  *)
(*                  part of the text);                                     *)
(*     other sep:   up to the first blank/tab/newline/CR/VT outside of     *)
(*                  '..' or ".." (a quote preceded by \ does not close);   *)
(*                  without such a blank: up to the first NUL / the end.   *)
CommandCmd == 4
IsSpace(c) == c \in {9, 10, 11, 12, 13, 32}
IsGraph(c) == c \in 33..126
IsBlank(c) == c \in {9, 32, 10, 13, 11}
UpTo(p, c) == LET hits == {i \in DOMAIN p : p[i] = c} IN
              IF hits = {} THEN p ELSE SubSeq(p, 1, MinOf(hits) - 1)
Trim(p)    == LET vis == {i \in DOMAIN p : ~IsSpace(p[i])} IN
              IF vis = {} THEN p ELSE SubSeq(p, MinOf(vis), Len(p))
\* number of bytes before the first blank outside quotes, -1 when there is none
RECURSIVE BlankScan(_, _, _, _)
BlankScan(p, i, quote, prev) ==
  IF i > Len(p) THEN -1
  ELSE LET c == p[i] IN
       IF quote # 0 THEN BlankScan(p, i + 1, IF c = quote /\ prev # 92 THEN 0 ELSE quote, c)
       ELSE IF c = 39 \/ c = 34 THEN BlankScan(p, i + 1, c, prev)
       ELSE IF IsBlank(c) THEN i - 1
       ELSE BlankScan(p, i + 1, 0, c)
FirstArg(payload, sep) ==
  IF sep = 0 THEN UpTo(payload, 0)
  ELSE LET t == Trim(payload) IN
       IF IsGraph(sep) THEN UpTo(t, sep)
       ELSE LET n == BlankScan(t, 1, 0, 32) IN
            IF n >= 0 THEN SubSeq(t, 1, n) ELSE UpTo(t, 0)
\* cuts: where the message (header included) is cut into fragments; no influence on the meaning
HashEmit(cmd, sep, payload, cuts, hr) ==
  LET arg  == [cmd |-> cmd, sep |-> sep, payload |-> payload, cuts |-> cuts, r |-> hr[1], clear |-> hr[2]]
      text == FirstArg(payload, IF cmd = CommandCmd THEN sep ELSE 0)
      id   == Djb2(text)
      res(r) == IF r < 0 THEN 3 ELSE r
  IN
  /\ UNCHANGED state
  /\ IF text = <<>> THEN Answer("hash", arg, 3, <<>>)
     ELSE IF Registered(id) THEN Answer("hash", arg, res(hr[1]), <<Call(tab[id], id, 1)>>)
     ELSE IF err > 0 THEN Answer("hash", arg, IF hr[1] < 0 THEN -1 ELSE hr[1], <<Call(err, id, 1)>>)
     ELSE IF err < 0 THEN Answer("hash", arg, Builtin(id, 1)[1], <<>>)
     ELSE Answer("hash", arg, 3, <<>>)

---------------------------------------------------------------------------
Init ==
  /\ kind = "none" /\ slots = <<>> /\ def = Zero /\ err = -1
  /\ tab = << >> /\ fin = << >> /\ ever = {} /\ ntok = 0 /\ snap = NoSnap
  /\ obs = [a |-> "init", arg |-> [x |-> 0],
            exp |-> [ret |-> "ok", calls |-> <<>>, def |-> Zero, table |-> <<>>]]

HashIds == {Djb2(t) : t \in Texts}
RegIds  == {L(n) : n \in SmallIds} \cup HashIds
Unreg   == L(200)                    \* an id nobody registers

Next ==
  \/ \E id \in RegIds : Set(id) \/ Clear(id) \/ CmdSet(id, 1) \/ CmdSet(id, 0)
  \/ \E t \in Texts : SetText(t)
  \/ \E id \in RegIds : SetDefault(id)
  \/ SetError
  \/ \E w \in Widths : Reserve(w, ReserveId(w), ReserveOK(w))
  \/ Fini \/ ClearAll \/ Drop
  \/ Snapshot \/ DropSnapshot
  \/ \E id \in RegIds \cup {Unreg} \cup LiveIds, hr \in HRs : EmitId(id, hr)
  \/ \E n \in SmallIds \cup {200}, hr \in HRs : EmitMsg(<<n, 7>>, hr)
  \/ \E hr \in HRs : EmitMsg(<<>>, hr) \/ EmitNone(hr)
  \/ \E t \in Texts \cup {<<120>>}, hr \in HRs :
        \/ HashEmit(CommandCmd, 58, t \o <<58, 122>>, <<2>>, hr)           \* "text:z", separator ':'
        \/ HashEmit(CommandCmd, 0, t \o <<0, 122>>, <<3>>, hr)             \* zero-terminated, cut after 1 byte
        \/ HashEmit(0, 58, t, <<>>, hr)                                   \* not a command message
        \/ HashEmit(CommandCmd, 32, <<32, 9>> \o t \o <<32, 122>>, <<3, 5>>, hr)  \* blank separated, cut in the text
  \/ \E hr \in HRs : HashEmit(CommandCmd, 58, <<58, 122>>, <<2>>, hr)   \* empty command text

Spec == Init /\ [][Next]_vars

---------------------------------------------------------------------------
(* invariants *)
TypeOK ==
  /\ kind \in {"none", "cmd", "raw"} /\ (kind = "none" => slots = <<>>)
  /\ DOMAIN fin = 1..ntok /\ ever \subseteq 1..ntok
  /\ err \in (-1)..ntok
  /\ snap.st \in {"none", "same", "own"} /\ (Shared => kind # "none")

\* Tier 2 implements Tier 1: the live slots are exactly the registrations,
\* no id is live twice (this is also "reserved ids are unique among the live ones")
Refines ==
  /\ {<<slots[i].id, slots[i].tok>> : i \in Live} = {<<id, tab[id]>> : id \in DOMAIN tab}
  /\ \A i, j \in Live : slots[i].id = slots[j].id => i = j
  /\ \A i, j \in Live : slots[i].tok = slots[j].tok => i = j

\* every registration gets at most one end-of-life notification, and a
\* registration that is still in place has had none
OnceOnly == /\ \A t \in DOMAIN fin : fin[t] <= 1
            /\ \A id \in DOMAIN tab : fin[tab[id]] = 0
            /\ err > 0 => fin[err] = 0
            /\ \A t \in Held : fin[t] = 0
\* whoever was ever registered and is not in place any more has had exactly one
\* (a typed buffer the dispatcher let go of while a snapshot shared it keeps its registrations
\* until the snapshot is released: with no snapshot left nothing is held)
GoneNotified == \A t \in ever : (t \notin {tab[id] : id \in DOMAIN tab} /\ t # err /\ t \notin Held) => fin[t] = 1
\* a snapshot's own typed buffer never carries a registration the dispatcher has as well
HeldApart == Held \cap ({tab[id] : id \in DOMAIN tab} \cup {err}) = {}

(* action properties *)
\* events reach only the handler registered for the id (else the fallback), never a dead one
DeliveredRight == [][\A i \in DOMAIN obs'.exp.calls :
     LET c == obs'.exp.calls[i] IN
     c.fin = 0 => /\ fin[c.tok] = 0
                  /\ IF Registered(c.id) THEN c.tok = tab[c.id] ELSE c.tok = err]_vars
\* at most one handler sees an event
OneHandler == [][Cardinality({i \in DOMAIN obs'.exp.calls : obs'.exp.calls[i].fin = 0}) <= 1]_vars
\* after teardown everybody ever registered has been notified exactly once
\* (whatever handle on the table exists), and releasing a snapshot afterwards adds nothing
FiniAll == [][obs'.a = "fini" => \A t \in ever \ Held : fin'[t] = 1]_vars
\* a snapshot taken and released without the dispatcher dropping its table in between changes nothing
SnapshotSilent == [][(obs'.a = "dropsnapshot" /\ snap.st # "own") => (obs'.exp.calls = <<>> /\ fin' = fin)]_vars
\* a reserved id is new among the live ones and within the width's range
ReserveUnique == [][(obs'.a = "reserve" /\ obs'.exp.ret = "ok") =>
                     (obs'.exp.id \notin LiveIds /\ obs'.exp.id # Zero /\ ~Lt(MaxFor(obs'.arg.w), obs'.exp.id))]_vars
\* default bookkeeping: changes only when a handler answered with the Default flag
DefaultFollows == [][(def' # def) =>
     \/ obs'.a \in {"fini", "init"}
     \/ obs'.a = "setdefault" /\ Registered(def')
     \/ obs'.a = "emitnone" /\ obs'.exp.ret = -1 /\ def' = Zero
     \/ obs'.a \in {"emit", "emitmsg", "emitnone"} /\ obs'.exp.ret # -1]_vars
=============================================================================
