SPECIFICATION TraceSpec
CONSTANTS NH = 4 Gran = 128 Hdr = 64 PChunk = 64 MaxLen = 100000 MaxArg = 100000 Prune = FALSE Api = "c"
INVARIANTS TypeOK AliasOK Refines NoTouch
POSTCONDITION TraceAccepted
CHECK_DEADLOCK FALSE
