---------------------------- MODULE MC_TypeRegCxx ----------------------------
(* Exhaustive configuration of TypeRegCxx at the scaled capacities of       *)
(* MC_TypeReg: four user types compete for three generic identifiers, the   *)
(* two metatype pointer classes fill the metatype range.                    *)
EXTENDS TypeRegCxx
CONSTANTS MaxAdds, MaxRefs, RawSizes, RawNames
McBuiltinIf == <<"logger", "iterator">>
McFixedSize(id) == CASE id = 1 -> 4 [] id = 30 -> 16 [] OTHER -> 0
McFixedManaged(id) == IF id = 30 THEN 1 ELSE 0
McProbe == {1, 20, 21, 40, 41, 42, 43}

McCat(T) == CASE T \in {"int32", "metaptr"} -> "fixed" [] T = "tracked" -> "class" [] T = "pod3" -> "pod"
              [] T = "tptr" -> "ptr" [] T = "span3" -> "span" [] T \in {"genptr", "mval"} -> "meta"
McSize(T) == CASE T = "int32" -> 4 [] T = "tracked" -> 4 [] T = "pod3" -> 3 [] T = "span3" -> 16 [] OTHER -> 8
McFixedId(T) == CASE T = "int32" -> 1 [] T = "metaptr" -> 20 [] OTHER -> 0
McName(T) == IF T = "genptr" THEN "generic" ELSE ""
McClassK(T) == CASE T = "genptr" -> "generic" [] T = "mval" -> "tmpl" [] OTHER -> ""
McClassT(T) == IF T = "mval" THEN "tracked" ELSE ""

McNext == CxxNext \/ (RawNext(RawSizes, RawNames, McProbe, MetaBase, GenBase + GenCap - 1) /\ CKeep)
McSpec == CInit /\ [][McNext]_cvars
Bound == /\ Cardinality(DOMAIN reg) - Cardinality(DOMAIN BuiltinReg) <= MaxAdds
         /\ \A h \in Slots : mt[h].refs <= MaxRefs
View == <<reg, ifs, dyn, metaC, genC, cxx, mt, wrap>>
=============================================================================
