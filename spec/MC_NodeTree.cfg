SPECIFICATION SpecM
CONSTANTS MaxNodes = 3 Kinds <- KindsQ Pos <- PosQ3 Keys <- KeysQ
VIEW View
INVARIANTS TypeOK WellFormed OnceInForest Refines QueryInv
PROPERTIES QueryAgree CloneIso ReleaseOnce
CHECK_DEADLOCK FALSE
