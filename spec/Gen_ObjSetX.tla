---------------------------- MODULE Gen_ObjSetX ----------------------------
(* Behaviour export of ObjSet for the C++ object interface (Doors = "cxx"  *)
(* in Gen_ObjSet_x.cfg / Gen_ObjSet_xt.cfg): the same export under its own *)
(* module name so that it can run beside Gen_ObjSet.                        *)
EXTENDS Gen_ObjSet
=============================================================================
