SPECIFICATION TraceSpec
CONSTANTS Kinds = {"c", "cxx"}
  TextLens = {0}
  NH = 4 NObj = 24 Max = 1000 MaxExtra = 1 MaxTries = 1 AsFound = FALSE
INVARIANTS CTypeOK CShape CAliveIffHeld CCountExact CNoDangling
PROPERTIES CRefusedUnchanged CDestroyedOnce CGoneOnce CNoResurrection CReplacedOnce CAssignOnce CStaticInert CPrintInert
POSTCONDITION TraceAccepted
CHECK_DEADLOCK FALSE
