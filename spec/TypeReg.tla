------------------------------ MODULE TypeReg ------------------------------
(***************************************************************************)
(* Process-global type registry of mptcore/types (property C06).           *)
(*                                                                         *)
(* Tier 1 (meaning):  reg -- the partial map id -> description             *)
(*                    [kind, name, size, managed] of everything handed out *)
(*                    (and the named built-ins).                           *)
(* Tier 2 (design):   ifs/dyn/metaC/genC mirror the append-only tables of  *)
(*                    type_traits.c: interface_types[] from slot IfAdd,    *)
(*                    dynamic_types[], and the chunk lists (Chunk entries  *)
(*                    each) of named metatypes and generic traits.         *)
(* A registration is given the identifier the implementation chose (id);   *)
(* Tier 1 only demands that it is fresh and inside the range of its kind,  *)
(* that invalid requests are refused, and that a valid request is refused  *)
(* only when its range is used up.  obs.legal records that demand.         *)
(* Lookups are answered from Tier 1 (obs.exp) and from the tables (des).   *)
(***************************************************************************)
EXTENDS Integers, Sequences, FiniteSets, SequencesExt, TLC

CONSTANTS IfBase, IfAdd, IfCap,   \* interface ids: first id, reserved built-in slots, all slots
          BuiltinIf,              \* names of the built-in interfaces (slot 0..)
          DynBase, DynCap,        \* basic ("dynamic") types
          MetaBase, MetaCap,      \* named metatypes; id MetaBase is the built-in "metatype"
          GenBase, GenCap,        \* generic traits
          Chunk,                  \* entries per chunk of the two chunk lists
          PtrSize,                \* sizeof(void *)
          FixedSize(_),           \* built-in table id -> sizeof (core, scalar, vector, managed), 0 = none
          FixedManaged(_),        \* ... -> 1 when the built-in type has init/fini operations
          Optional,               \* ids the statement leaves open (may or may not resolve)
          Names, Sizes, Probe     \* explored names / sizes / looked-up ids

VARIABLES reg,                    \* Tier 1
          ifs, dyn, metaC, genC,  \* Tier 2
          obs, des
vars == <<reg, ifs, dyn, metaC, genC, obs, des>>

---------------------------------------------------------------------------
IfRange   == IfBase..(IfBase + IfCap - 1)
IfFree    == (IfBase + IfAdd)..(IfBase + IfCap - 1)      \* ids a registration may get
DynRange  == DynBase..(DynBase + DynCap - 1)
MetaRange == MetaBase..(MetaBase + MetaCap - 1)
GenRange  == GenBase..(GenBase + GenCap - 1)
RangeOf(kind) == CASE kind = "iface" -> IfFree [] kind = "dyn" -> DynRange
                   [] kind = "meta" -> MetaRange [] kind = "gen" -> GenRange
Registrable == IfRange \cup DynRange \cup MetaRange \cup GenRange

Alias == [n \in {"log", "iter", "out", "meta"} |->
            CASE n = "log" -> "logger" [] n = "iter" -> "iterator"
              [] n = "out" -> "output" [] n = "meta" -> "metatype"]

Desc(kind, name, size, managed) == [kind |-> kind, name |-> name, size |-> size, managed |-> managed]

---------------------------------------------------------------------------
(* Tier 1 *)
NamesIn(r) == {r[i].name : i \in DOMAIN r} \ {""}
IdOf(r, n) == IF \E i \in DOMAIN r : r[i].name = n
              THEN <<CHOOSE i \in DOMAIN r : r[i].name = n>> ELSE <<>>
Free(kind) == RangeOf(kind) \ DOMAIN reg

\* a request that must be refused whatever the fill
BadName(n) == n # "" /\ (Len(n) < 4 \/ n \in NamesIn(reg))

\* what a lookup by id answers
ById1(id) ==
  IF id \in DOMAIN reg
  THEN [present |-> 1, size |-> reg[id].size, managed |-> reg[id].managed,
        name |-> reg[id].name, ntype |-> IF reg[id].kind \in {"iface", "meta"} THEN id ELSE 0]
  ELSE IF FixedSize(id) # 0
  THEN [present |-> 1, size |-> FixedSize(id), managed |-> FixedManaged(id), name |-> "", ntype |-> 0]
  ELSE [present |-> 0, size |-> 0, managed |-> 0, name |-> "", ntype |-> 0]
InRegistrable(id) == id \in IfRange \/ id \in DynRange \/ id \in MetaRange \/ id \in GenRange
Open(id) == id \in Optional \/ (~InRegistrable(id) /\ FixedSize(id) = 0)

\* lookup by name: a registered name wins, then the short names
Full1(n) == IF IdOf(reg, n) # <<>> THEN IdOf(reg, n)
            ELSE IF n \in DOMAIN Alias THEN IdOf(reg, Alias[n]) ELSE <<>>
ByName1(text, len) ==
  IF text = "" \/ len = 0 THEN <<>>
  ELSE IF len < 0 THEN Full1(text)
  ELSE IF len > Len(text) THEN <<>>
  ELSE IdOf(reg, SubSeq(text, 1, len))

---------------------------------------------------------------------------
(* Tier 2: the tables *)
IfPos == IfAdd + Len(ifs)                       \* interface_pos

RECURSIVE Walk(_, _)                            \* entry at position pos of a chunk list
Walk(chunks, pos) ==
  IF chunks = <<>> THEN <<>>
  ELSE IF pos < Len(chunks[1]) THEN <<chunks[1][pos + 1]>>
  ELSE Walk(Tail(chunks), pos - Chunk)

\* append an entry the way mpt_type_add / mpt_type_metatype_add do
RECURSIVE Place(_, _, _, _, _)
Place(chunks, k, pos, max, entry) ==
  IF Len(chunks[k]) = Chunk
  THEN IF pos + Chunk > max THEN [ok |-> FALSE, id |-> 0, chunks |-> chunks]
       ELSE IF k = Len(chunks) THEN Place(Append(chunks, <<>>), k + 1, pos + Chunk, max, entry)
       ELSE Place(chunks, k + 1, pos + Chunk, max, entry)
  ELSE IF pos + Len(chunks[k]) > max THEN [ok |-> FALSE, id |-> 0, chunks |-> chunks]
  ELSE [ok |-> TRUE, id |-> pos + Len(chunks[k]), chunks |-> [chunks EXCEPT ![k] = Append(@, entry)]]

RECURSIVE ChunkNames(_)
ChunkNames(chunks) == IF chunks = <<>> THEN <<>> ELSE chunks[1] \o ChunkNames(Tail(chunks))

IfSlotName(pos) ==                              \* name in interface_types[pos] or <<>> (empty slot)
  IF pos < IfAdd THEN (IF pos < Len(BuiltinIf) THEN <<BuiltinIf[pos + 1]>> ELSE <<>>)
  ELSE IF pos - IfAdd < Len(ifs) THEN <<ifs[pos - IfAdd + 1]>> ELSE <<>>

\* scan for a name: metatype chunks first, then the interface slots in use
RECURSIVE ScanMeta(_, _, _)
ScanMeta(chunks, base, n) ==
  IF chunks = <<>> THEN <<>>
  ELSE LET hit == {i \in 1..Len(chunks[1]) : chunks[1][i] = n} IN
       IF hit # {} THEN <<base + (CHOOSE i \in hit : \A j \in hit : i <= j) - 1>>
       ELSE ScanMeta(Tail(chunks), base + Chunk, n)
ScanIf(n) ==
  LET hit == {p \in 0..(IfPos - 1) : IfSlotName(p) = <<n>>} IN
  IF hit = {} THEN <<>> ELSE <<IfBase + (CHOOSE p \in hit : \A q \in hit : p <= q)>>
Find2(n) == IF n = "" THEN <<>>
            ELSE LET m == ScanMeta(metaC, MetaBase, n) IN IF m # <<>> THEN m ELSE ScanIf(n)
Full2(n) == IF Find2(n) # <<>> THEN Find2(n)
            ELSE IF n \in DOMAIN Alias THEN Find2(Alias[n]) ELSE <<>>
ByName2(text, len) ==
  IF text = "" \/ len = 0 THEN <<>>
  ELSE IF len < 0 THEN Full2(text)
  ELSE IF len > Len(text) THEN <<>>
  ELSE Find2(SubSeq(text, 1, len))

\* range partition of mpt_type_traits
ById2(id) ==
  LET absent == [present |-> 0, size |-> 0, managed |-> 0, name |-> "", ntype |-> 0] IN
  IF id \in IfRange
  THEN LET s == IfSlotName(id - IfBase) IN
       IF s = <<>> \/ id - IfBase > IfPos THEN absent
       ELSE [present |-> 1, size |-> PtrSize, managed |-> 0, name |-> s[1], ntype |-> id]
  ELSE IF id \in DynRange
  THEN IF id - DynBase >= Len(dyn) THEN absent
       ELSE [present |-> 1, size |-> dyn[id - DynBase + 1], managed |-> 0, name |-> "", ntype |-> 0]
  ELSE IF id \in MetaRange
  THEN LET e == Walk(metaC, id - MetaBase) IN
       IF e = <<>> THEN absent
       ELSE [present |-> 1, size |-> PtrSize, managed |-> 0, name |-> e[1], ntype |-> id]
  ELSE IF id \in GenRange
  THEN LET e == Walk(genC, id - GenBase) IN
       IF e = <<>> THEN absent
       ELSE [present |-> 1, size |-> e[1].size, managed |-> e[1].managed, name |-> "", ntype |-> 0]
  ELSE IF FixedSize(id) # 0
  THEN [present |-> 1, size |-> FixedSize(id), managed |-> FixedManaged(id), name |-> "", ntype |-> 0]
  ELSE absent

\* refinement mapping tables -> reg
RegOfTables == [id \in {i \in Registrable : ById2(i).present = 1} |->
  LET d == ById2(id) IN
  Desc(IF id \in IfRange THEN "iface" ELSE IF id \in DynRange THEN "dyn"
       ELSE IF id \in MetaRange THEN "meta" ELSE "gen", d.name, d.size, d.managed)]

---------------------------------------------------------------------------
(* registrations.  id/ok = what the implementation answered (in the model: *)
(* what the tables answer).                                                *)
Registered(a, arg, kind, d, bad, ok, id) ==
  LET legal == IF ok THEN ~bad /\ id \in Free(kind)
               ELSE bad \/ Free(kind) = {}
  IN
  /\ reg' = IF ok /\ id \notin DOMAIN reg THEN [i \in DOMAIN reg \cup {id} |-> IF i = id THEN d ELSE reg[i]] ELSE reg
  /\ obs' = [a |-> a, arg |-> arg, legal |-> legal,
             exp |-> IF ok THEN [ret |-> "ok", val |-> <<id>>, name |-> d.name, size |-> d.size]
                     ELSE [ret |-> "refused", val |-> <<>>, name |-> "", size |-> 0]]
  /\ des' = obs'.exp

\* mpt_type_basic_add
DynOk == Len(dyn) < DynCap
DynId == DynBase + Len(dyn)
AddBasic(size, ok, id) ==
  LET sz == IF size = 0 THEN PtrSize ELSE size IN
  /\ dyn' = IF DynOk THEN Append(dyn, sz) ELSE dyn
  /\ UNCHANGED <<ifs, metaC, genC>>
  /\ Registered("addbasic", [size |-> size], "dyn", Desc("dyn", "", sz, 0), FALSE, ok, id)

\* mpt_type_add
GenPlace(e) == IF e.size = 0 THEN [ok |-> FALSE, id |-> 0, chunks |-> genC]
               ELSE Place(genC, 1, GenBase, GenBase + GenCap - 1, e)
AddGeneric(size, managed, ok, id) ==
  LET e == [size |-> size, managed |-> managed] IN
  /\ genC' = GenPlace(e).chunks
  /\ UNCHANGED <<ifs, dyn, metaC>>
  /\ Registered("addgeneric", [size |-> size, managed |-> managed], "gen", Desc("gen", "", size, managed),
                size = 0, ok, id)

\* mpt_type_interface_add
IfOk(name) == IfPos < IfCap /\ ~(name # "" /\ (Find2(name) # <<>> \/ Len(name) < 4))
IfId == IfBase + IfPos
AddIface(name, ok, id) ==
  /\ ifs' = IF IfOk(name) THEN Append(ifs, name) ELSE ifs
  /\ UNCHANGED <<dyn, metaC, genC>>
  /\ Registered("addiface", [name |-> name], "iface", Desc("iface", name, PtrSize, 0), BadName(name), ok, id)

\* mpt_type_metatype_add
MetaPlace(name) ==
  IF name # "" /\ (Len(name) < 4 \/ Find2(name) # <<>>) THEN [ok |-> FALSE, id |-> 0, chunks |-> metaC]
  ELSE Place(metaC, 1, MetaBase, MetaBase + MetaCap - 1, name)
AddMeta(name, ok, id) ==
  /\ metaC' = MetaPlace(name).chunks
  /\ UNCHANGED <<ifs, dyn, genC>>
  /\ Registered("addmeta", [name |-> name], "meta", Desc("meta", name, PtrSize, 0), BadName(name), ok, id)

---------------------------------------------------------------------------
(* A registration that is denied memory (arg.fail = k: the k-th allocation  *)
(* the call asks for is refused by the environment).  Such a call may       *)
(* answer "refused" whatever the request and the fill; then the registry is *)
(* exactly as before.  (When the call succeeds in spite of the denial the   *)
(* ordinary registration action judges it.)  Design: the chunk walk of      *)
(* mpt_type_add / mpt_type_metatype_add may already have appended a new,    *)
(* still empty chunk when memory runs out; nothing else is touched.         *)
Refusal == [ret |-> "refused", val |-> <<>>, name |-> "", size |-> 0]
StarvedObs(a, arg) ==
  /\ reg' = reg
  /\ obs' = [a |-> a, arg |-> arg, legal |-> TRUE, exp |-> Refusal]
  /\ des' = Refusal
HalfWay(chunks, base, cap) ==
  IF Len(chunks[Len(chunks)]) = Chunk /\ base + Len(chunks) * Chunk <= base + cap - 1
  THEN {chunks, Append(chunks, <<>>)} ELSE {chunks}
OomBasic(size, k) ==
  /\ UNCHANGED <<ifs, dyn, metaC, genC>>
  /\ StarvedObs("addbasic", [size |-> size, fail |-> k])
OomGeneric(size, managed, k, half) ==
  /\ genC' = half /\ UNCHANGED <<ifs, dyn, metaC>>
  /\ StarvedObs("addgeneric", [size |-> size, managed |-> managed, fail |-> k])
OomIface(name, k) ==
  /\ UNCHANGED <<ifs, dyn, metaC, genC>>
  /\ StarvedObs("addiface", [name |-> name, fail |-> k])
OomMeta(name, k, half) ==
  /\ metaC' = half /\ UNCHANGED <<ifs, dyn, genC>>
  /\ StarvedObs("addmeta", [name |-> name, fail |-> k])

---------------------------------------------------------------------------
(* lookups *)
Keep == UNCHANGED <<reg, ifs, dyn, metaC, genC>>

---------------------------------------------------------------------------
(* Transport format code face of the built-in scalars (message.h,          *)
(* msgvalfmt.c): code byte = byte order bit (128) + class bits (unsigned   *)
(* 32, float 64, signed integer 96) + (element size - 1).  nat = the byte  *)
(* order bit of the machine.  The table is derived from the size table:    *)
(* the code of scalar t carries the size of the C type t stands for, and   *)
(* codes and scalars are inverse to each other.  -1 = refused.             *)
FmtClass(t) == CASE t \in {98, 110, 105, 120}  -> 96     \* b n i x : int8_t .. int64_t
                 [] t \in {121, 113, 117, 116} -> 32     \* y q u t : uint8_t .. uint64_t
                 [] t \in {102, 100, 101}      -> 64     \* f d e   : float, double, long double
                 [] OTHER -> 0
FmtScalars == {t \in {98, 110, 105, 120, 121, 113, 117, 116, 102, 100, 101} :
                 FixedSize(t) # 0 /\ FixedSize(t) <= 32}
\* Tier 1: the table and its inverse
FmtCode1(t, nat) == IF t \in FmtScalars THEN nat + FmtClass(t) + FixedSize(t) - 1 ELSE -1
FmtType1(c, nat) == LET hit == {t \in FmtScalars : FmtCode1(t, nat) = c} IN
                    IF hit = {} THEN -1 ELSE CHOOSE t \in hit : TRUE
\* Tier 2: mpt_msgvalfmt_typeid takes the byte apart (order, class, size) and
\* looks for the native type of that class and size (mpt_type_int/uint, float switch)
FmtType2(c, nat) ==
  LET order == (c \div 128) * 128
      cls   == ((c \div 32) % 4) * 32
      size  == (c % 32) + 1
      cand  == {t \in FmtScalars : FmtClass(t) = cls /\ FixedSize(t) = size}
  IN IF order # nat \/ cls = 0 \/ cand = {} THEN -1 ELSE CHOOSE t \in cand : TRUE
FmtSize(c) == IF c < 0 THEN 0 ELSE (c % 32) + 1        \* element size a code carries

\* all 256 code bytes and the codes of the listed type ids in one call.  The
\* statement speaks about the built-in scalars: entries of other ids are nominal
\* (-1) and not compared by trace validation.
FmtSweep(types, nat) ==
  /\ Keep
  /\ obs' = [a |-> "fmtsweep", arg |-> [types |-> types, nat |-> nat], legal |-> TRUE,
             exp |-> [nat   |-> nat,
                      ids   |-> [c \in 1..256 |-> FmtType1(c - 1, nat)],
                      codes |-> [k \in 1..Len(types) |-> FmtCode1(types[k], nat)],
                      sizes |-> [k \in 1..Len(types) |->
                                   IF types[k] \in FmtScalars THEN ById1(types[k]).size ELSE 0]]]
  /\ des' = [nat   |-> nat,
             ids   |-> [c \in 1..256 |-> FmtType2(c - 1, nat)],
             codes |-> [k \in 1..Len(types) |-> FmtCode1(types[k], nat)],
             sizes |-> [k \in 1..Len(types) |-> FmtSize(FmtCode1(types[k], nat))]]
FmtScalarSeq == SetToSortSeq(FmtScalars, LAMBDA x, y : x < y)

ById(id) ==
  /\ Keep
  /\ obs' = [a |-> "byid", arg |-> [id |-> id], legal |-> TRUE,
             exp |-> IF Open(id) THEN [open |-> 1] ELSE ById1(id)]
  /\ des' = IF Open(id) THEN [open |-> 1] ELSE ById2(id)

\* all resolvable ids of lo..hi with their descriptions, ascending (ids left open are skipped)
Answer(tier, id) == IF tier = 1 THEN ById1(id) ELSE ById2(id)
ScanList(tier, lo, hi) ==
  LET ids == {i \in lo..hi : ~Open(i) /\ Answer(tier, i).present = 1}
      ord == SetToSortSeq(ids, LAMBDA x, y : x < y)
  IN [k \in 1..Len(ord) |->
        LET d == Answer(tier, ord[k]) IN
        [id |-> ord[k], size |-> d.size, managed |-> d.managed, name |-> d.name, ntype |-> d.ntype]]
Scan(lo, hi) ==
  /\ Keep
  /\ obs' = [a |-> "scan", arg |-> [lo |-> lo, hi |-> hi], legal |-> TRUE,
             exp |-> [list |-> ScanList(1, lo, hi)]]
  /\ des' = [list |-> ScanList(2, lo, hi)]

ByName(text, len) ==
  /\ Keep
  /\ obs' = [a |-> "byname", arg |-> [text |-> text, len |-> len], legal |-> TRUE,
             exp |-> [val |-> ByName1(text, len)]]
  /\ des' = [val |-> ByName2(text, len)]

\* mpt_alias_typeid on  name [spaces] ':' [spaces] symbol   (sep = 1)  or  name  (sep = 0)
AliasId(name, pad, sep, sym) ==
  LET look(f(_, _)) == IF sep = 1 THEN (IF name = "" THEN <<>> ELSE f(name, Len(name))) ELSE f(name, -1) IN
  /\ Keep
  /\ obs' = [a |-> "alias", arg |-> [name |-> name, pad |-> pad, sep |-> sep, sym |-> sym], legal |-> TRUE,
             exp |-> [val |-> look(ByName1)]]
  /\ des' = [val |-> look(ByName2)]

---------------------------------------------------------------------------
BuiltinReg ==
  [id \in {IfBase + p : p \in 0..(Len(BuiltinIf) - 1)} \cup {MetaBase} |->
     IF id = MetaBase THEN Desc("meta", "metatype", PtrSize, 0)
     ELSE Desc("iface", BuiltinIf[id - IfBase + 1], PtrSize, 0)]

Init ==
  /\ reg = BuiltinReg
  /\ ifs = <<>> /\ dyn = <<>> /\ metaC = << <<"metatype">> >> /\ genC = << <<>> >>
  /\ obs = [a |-> "boot", arg |-> [x |-> 0], legal |-> TRUE, exp |-> [x |-> 0]]
  /\ des = [x |-> 0]

Next ==
  \/ \E s \in Sizes : AddBasic(s, DynOk, DynId)
  \/ \E s \in Sizes, m \in {0, 1} :
       LET p == GenPlace([size |-> s, managed |-> m]) IN AddGeneric(s, m, p.ok, p.id)
  \/ \E n \in Names : AddIface(n, IfOk(n), IfId)
  \/ \E n \in Names : LET p == MetaPlace(n) IN AddMeta(n, p.ok, p.id)
  \/ \E id \in Probe : ById(id)
  \/ \E n \in Names \cup {"log", "loggerx", "abcdx"}, len \in {-1, 0, 3, 4, 6, 9} : ByName(n, len)
  \/ \E n \in Names \cup {"log", "out"}, sep \in {0, 1} : AliasId(n, 1, sep, "sym")
  \/ Scan(IfBase, MetaBase + MetaCap - 1) \/ Scan(GenBase, GenBase + GenCap - 1)
  \* memory denied to a registration
  \/ \E sz \in Sizes : OomBasic(sz, 1)
  \/ \E sz \in Sizes, m \in {0, 1}, h \in HalfWay(genC, GenBase, GenCap) : OomGeneric(sz, m, 1, h)
  \/ \E n \in Names : OomIface(n, 1)
  \/ \E n \in Names, h \in HalfWay(metaC, MetaBase, MetaCap) : OomMeta(n, 1, h)
  \* the format code face does not depend on the registrations: explored before the first one
  \/ (reg = BuiltinReg /\ \E nat \in {0, 128} : FmtSweep(FmtScalarSeq, nat))

Spec == Init /\ [][Next]_vars

---------------------------------------------------------------------------
(* properties *)
TypeOK ==
  /\ Len(ifs) <= IfCap - IfAdd /\ Len(dyn) <= DynCap
  /\ \A k \in DOMAIN metaC : Len(metaC[k]) <= Chunk
  /\ \A k \in DOMAIN genC : Len(genC[k]) <= Chunk

Refines == RegOfTables = reg                       \* the tables implement the map

\* every chunk but the last is full (append-only chunk lists)
ChunksDense == /\ \A k \in 1..(Len(metaC) - 1) : Len(metaC[k]) = Chunk
               /\ \A k \in 1..(Len(genC) - 1) : Len(genC[k]) = Chunk

\* identifiers lie in the range of their kind.  That they are pairwise different
\* for the life of the process follows from Legal (a registration returns an id
\* outside DOMAIN reg) and Stable (DOMAIN reg never loses an id).
InRange == \A id \in DOMAIN reg :
             id \in (CASE reg[id].kind = "iface" -> IfRange [] reg[id].kind = "dyn" -> DynRange
                       [] reg[id].kind = "meta" -> MetaRange [] reg[id].kind = "gen" -> GenRange)

\* names and identifiers are inverse to each other
NameInverse ==
  /\ \A id \in DOMAIN reg : reg[id].name # "" => ByName1(reg[id].name, -1) = <<id>>
  /\ \A i, j \in DOMAIN reg : (i # j /\ reg[i].name # "") => reg[i].name # reg[j].name

\* format codes and built-in scalars are inverse to each other, both ways, over all
\* 256 code bytes; a code carries the size of its scalar; the bit-wise reading of
\* msgvalfmt.c agrees.  Independent of the registrations (evaluated before the first).
FmtFace ==
  reg = BuiltinReg =>
    \A nat \in {0, 128} :
      /\ \A t \in FmtScalars :
           /\ FmtCode1(t, nat) \in 0..255
           /\ FmtType1(FmtCode1(t, nat), nat) = t
           /\ FmtSize(FmtCode1(t, nat)) = FixedSize(t)
           /\ ((FmtCode1(t, nat) \div 32) % 4) * 32 = FmtClass(t)
      /\ \A c \in 0..255 :
           /\ FmtType1(c, nat) = FmtType2(c, nat)
           /\ FmtType1(c, nat) # -1 => FmtCode1(FmtType1(c, nat), nat) = c
           /\ FmtType1(c, nat) = -1 \/ FmtType1(c, nat) \in FmtScalars

\* action properties (every transition)
Legal        == [][obs'.legal]_vars
\* within one process ("boot" starts a new one) no entry is ever lost or changed
Stable       == [][obs'.a # "boot" => \A i \in DOMAIN reg : i \in DOMAIN reg' /\ reg'[i] = reg[i]]_vars
RefuseFrame  == [][obs'.a \in {"addbasic", "addgeneric", "addiface", "addmeta"} /\ obs'.exp.ret = "refused"
                    => reg' = reg /\ RegOfTables' = RegOfTables]_vars
RefuseKeeps  == [][obs'.a \in {"addbasic", "addgeneric", "addiface", "addmeta"} /\ obs'.exp.ret = "refused"
                    => reg' = reg]_vars
DesignAgrees == [][des' = obs'.exp]_vars
=============================================================================
