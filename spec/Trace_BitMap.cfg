SPECIFICATION TraceSpec
CONSTANTS MaxBytes = 100000 InitBytes = {} Far = 0
INVARIANTS TypeOK Refines
POSTCONDITION TraceAccepted
CHECK_DEADLOCK FALSE
