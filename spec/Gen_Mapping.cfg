SPECIFICATION GenSpec
CONSTANTS DimSeq <- Dims2 MaskSeq <- MasksF CliSeq <- Clis2 DestSeq <- Dest2 PathSeq <- NoSeq Toks <- None
  Impl = "c" WithAll = TRUE Acts <- ActsC MaxTab = 2
  ItemSet <- None MaxItems = 0 GapSet <- None EdgeGaps <- None
  Letters <- None MaxLetters = 0 LetterGaps <- None NodeSet <- None MaxNodes = 0
CONSTRAINT Bound
VIEW Skel
ACTION_CONSTRAINT Emit
CHECK_DEADLOCK FALSE
