---------------------------- MODULE Trace_MsgUse ----------------------------
(* Trace validation: recorded uses of long, randomly cut messages by the   *)
(* real code (arguments + what the code handed out) must be a behaviour of  *)
(* MsgUse: every answer is recomputed from the contiguous string (Tier 1)   *)
(* with the operators the model checker used, the fragment design (Tier 2)  *)
(* is evaluated alongside (UDesignAgrees).  Executions are concatenated;    *)
(* each starts with an "init".                                              *)
EXTENDS MsgUse, Json, IOUtils
VARIABLE l
TraceLog == ndJsonDeserialize(IOEnv.TRACE)

TraceStep(ev) ==
  CASE ev.a = "init"        -> UInitMsg(ev.arg.data, ev.arg.cut)
    [] ev.a = "read"        -> URead(ev.arg.n, ev.arg.dest)
    [] ev.a = "length"      -> ULength
    [] ev.a = "argv"        -> UArgv(ev.arg.sep)
    [] ev.a = "arrmsg"      -> UArrMsg(ev.arg.sep)
    [] ev.a = "append"      -> UAppend(ev.arg.pre)
    [] ev.a = "vmemchr"     -> VMemchr(ev.arg.b)
    [] ev.a = "vmemrchr"    -> VMemrchr(ev.arg.b)
    [] ev.a = "vmemfcn"     -> VMemfcn(ev.arg.cls)
    [] ev.a = "vmemrfcn"    -> VMemrfcn(ev.arg.cls)
    [] ev.a = "vmemstr"     -> VMemstr(ev.arg.set)
    [] ev.a = "vmemrstr"    -> VMemrstr(ev.arg.set)
    [] ev.a = "vmemtok"     -> VMemtok(ev.arg.hastok, ev.arg.tok, ev.arg.com, ev.arg.esc)
    [] ev.a = "vmemcpy"     -> VMemcpy(ev.arg.n, ev.arg.dcut)
    [] ev.a = "iter"        -> Iter(ev.arg.sep)
    [] ev.a = "evcmd"       -> EvCmd
    [] ev.a = "clientcmd"   -> ClientCmd(ev.arg.sep)
    [] ev.a = "cxxdispatch" -> CxxDispatch
    [] ev.a = "hash"        -> Hash
    [] ev.a = "emit"        -> Emit
    [] ev.a = "cfgnext"     -> CfgNext(ev.arg.sep)
    [] ev.a = "assign"      -> Assign(ev.arg.n)
    [] ev.a = "property"    -> Property(ev.arg.sep)
    [] ev.a = "sappend"     -> SAppend(ev.arg.kind, ev.arg.pre, ev.arg.twice)
    [] ev.a = "dgreply"     -> DgReply(ev.arg.idlen, ev.arg.id)
    [] ev.a = "histpush"    -> HistPush
    [] ev.a = "outvals"     -> OutVals(ev.arg.n, ev.arg.ld, ev.arg.cap)
    [] ev.a = "deccmd"      -> DecCmd(ev.arg.curr)
    [] OTHER                -> FALSE

\* the command text is observed through its hash: the driver lists every
\* substring of the message with that hash (normally one)
Matches(ev) ==
  \A k \in DOMAIN obs'.exp :
     IF k = "cmd" /\ "cmds" \in DOMAIN ev.obs
     THEN \/ obs'.exp.cmd = <<>> /\ ev.obs.cmds = <<>>
          \/ obs'.exp.cmd # <<>> /\ \E i \in DOMAIN ev.obs.cmds : ev.obs.cmds[i] = obs'.exp.cmd[1]
     ELSE k \in DOMAIN ev.obs /\ ev.obs[k] = obs'.exp[k]

TraceInit == l = 1 /\ UInit

TraceNext ==
  /\ l <= Len(TraceLog)
  /\ l' = l + 1
  /\ LET ev == TraceLog[l] IN TraceStep(ev) /\ Matches(ev)

TraceSpec == TraceInit /\ [][TraceNext]_<<uvars, l>>

TraceAccepted ==
  LET n == TLCGet("stats").diameter - 1 IN
  /\ PrintT(<<"MATCHED", n>>)
  /\ n = Len(TraceLog)
=============================================================================
