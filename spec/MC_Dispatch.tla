---------------------------- MODULE MC_Dispatch ----------------------------
(* Exhaustive configuration of Dispatch: full state, small constants.     *)
EXTENDS Dispatch
CONSTANT MaxTok
Bound == ntok <= MaxTok
View  == state                      \* obs is an observation, not state
CTexts == {<<103, 111>>}            \* "go"
CHRs   == {<<0, 0>>, <<1, 0>>, <<1, 1>>, <<3, 1>>, <<6, 0>>, <<-1, 0>>}
CHRsQ  == {<<1, 0>>, <<3, 1>>, <<-1, 0>>}
=============================================================================
