---------------------------- MODULE Trace_Owned ----------------------------
(* Trace validation: a recorded execution of the real code (one event per  *)
(* call: arguments + observation) must be a behaviour of Owned.            *)
(* Executions are concatenated; each starts with "init".                   *)
EXTENDS Owned, Json, IOUtils
VARIABLE l
TraceLog == ndJsonDeserialize(IOEnv.TRACE)

ResetTo(k) ==
  /\ kind' = k /\ tlen' = 0
  /\ holds' = [h \in Handles |-> 0] /\ copyh' = [h \in Handles |-> 0] /\ hascopy' = FALSE
  /\ extra' = [o \in Objs |-> 0] /\ defer' = [o \in Objs |-> 0] /\ made' = 0
  /\ inner' = [o \in Objs |-> 0] /\ origin' = [o \in Objs |-> 0]
  /\ cnt' = [o \in Objs |-> 0] /\ alive' = [o \in Objs |-> FALSE]
  /\ snd' = [o \in Objs |-> TRUE] /\ tries' = [o \in Objs |-> 0]
  /\ cls' = [o \in Objs |-> "none"] /\ mem' = [o \in Objs |-> NoMem]
  /\ obs' = [a |-> "init", arg |-> [kind |-> k, nh |-> NH, nobj |-> NObj, max |-> Max],
             exp |-> OTeardownExp([o \in Objs |-> FALSE], [o \in Objs |-> "none"])]

Step(ev) ==
  CASE ev.a = "init"      -> ev.arg.nh = NH /\ ev.arg.nobj = NObj /\ ev.arg.max = Max /\ ev.arg.kind \in Kinds /\ ResetTo(ev.arg.kind)
    [] ev.a = "create"    -> OCreate(ev.arg.h, ev.arg.c, ev.arg.via, ev.arg.how)
    [] ev.a = "wrap"      -> Wrap(ev.arg.h, ev.arg.c, ev.arg.g)
    [] ev.a = "copy"      -> OCopy(ev.arg.h, ev.arg.g, ev.arg.via)
    [] ev.a = "take"      -> Take(ev.arg.h, ev.arg.g, ev.arg.s)
    [] ev.a = "setmember" -> SetMember(ev.arg.h, ev.arg.g, ev.arg.s, ev.arg.via)
    [] ev.a = "drop"      -> ODrop(ev.arg.h, ev.arg.via)
    [] ev.a = "clone"     -> OClone(ev.arg.h, ev.arg.g, ev.arg.fail)
    [] ev.a = "rawref"    -> ORawRef(ev.arg.o)
    [] ev.a = "rawunref"  -> ORawUnref(ev.arg.o)
    [] ev.a = "poke"      -> OPoke(ev.arg.o, ev.arg.v)
    [] ev.a = "teardown"  -> OTeardown
    [] OTHER              -> FALSE

SeqSet(s) == {s[i] : i \in 1..Len(s)}
Matches(ev) ==
  LET e == obs'.exp  o == ev.obs IN
  /\ (e.ret # "any" => e.ret = o.ret)
  /\ e.href = o.href /\ e.alive = o.alive /\ e.mem = o.mem
  /\ Len(e.gone) = Len(o.gone) /\ SeqSet(e.gone) = SeqSet(o.gone)
  /\ e.cnt = o.cnt
  /\ (e.quiet = 0 => o.quiet = 0)
  /\ (e.dblk = 0 => o.dblk = 0)
  /\ e.badfree = o.badfree

TraceInit ==
  /\ l = 1 /\ kind = "loader" /\ tlen = 0
  /\ holds = [h \in Handles |-> 0] /\ copyh = [h \in Handles |-> 0] /\ hascopy = FALSE
  /\ extra = [o \in Objs |-> 0] /\ defer = [o \in Objs |-> 0] /\ made = 0
  /\ inner = [o \in Objs |-> 0] /\ origin = [o \in Objs |-> 0]
  /\ cnt = [o \in Objs |-> 0] /\ alive = [o \in Objs |-> FALSE]
  /\ snd = [o \in Objs |-> TRUE] /\ tries = [o \in Objs |-> 0]
  /\ cls = [o \in Objs |-> "none"] /\ mem = [o \in Objs |-> NoMem]
  /\ obs = [a |-> "none", arg |-> [x |-> 0], exp |-> OTeardownExp([o \in Objs |-> FALSE], [o \in Objs |-> "none"])]

TraceNext ==
  /\ l <= Len(TraceLog)
  /\ l' = l + 1
  /\ LET ev == TraceLog[l] IN
       Step(ev) /\ Matches(ev)

TraceSpec == TraceInit /\ [][TraceNext]_<<ovars, l>>

TraceAccepted ==
  LET n == TLCGet("stats").diameter - 1 IN
  /\ PrintT(<<"MATCHED", n>>)
  /\ n = Len(TraceLog)
=============================================================================
