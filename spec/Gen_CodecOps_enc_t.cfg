SPECIFICATION GenSpec
CONSTANTS
  Mode = "enc"
  Kinds <- KindsET
  Alpha <- AlphaE
  MaxMsg = 2
  MaxMsgs = 3
  Caps <- CapsZ
  Grows <- Grows2
  Pres <- None
  DelKs <- Del12
  NextSet <- NextFew
  Shifts <- None
  DMaxLen = 0
  DSlacks <- None
  DGrants <- None
  DStreams <- NoStreams
  DFeeds <- None
  DQs <- None
  DOps <- None
  DMis <- None
  CapMax = 8
CONSTRAINT BoundGE
VIEW SkelE
ACTION_CONSTRAINT EmitE
CHECK_DEADLOCK FALSE
