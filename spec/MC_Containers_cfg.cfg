SPECIFICATION Spec
CONSTANTS NH = 2 NO = 2 NN = 2 MaxLen = 2 MaxLen2 = 1 MaxSub = 1 MaxArg = 2 Kinds = {"cfg"} Solo = {2} Fails = {0, 1} FailOut = TRUE Prune = FALSE
CONSTRAINT Bound
VIEW View
INVARIANTS TypeOK AliasOK Refines Balance AllGone OneSlot
PROPERTY Independent RefuseFrame KindFixed
CHECK_DEADLOCK FALSE
