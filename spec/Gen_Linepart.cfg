SPECIFICATION GenSpec
CONSTANTS
  Alphabet <- Alpha5
  Ranges <- Rng1
  MaxLen = 5
  Limit = 65535
  Chunked = FALSE
  NoRangeLen = 4
  CodeDen <- Den2
  Dims = 1
VIEW View
ACTION_CONSTRAINT Emit
CHECK_DEADLOCK FALSE
