-------------------------- MODULE Trace_TypeRegCxx --------------------------
(* Trace validation of recorded histories of the real registry driven from  *)
(* C++ (one fresh process each, starting with "boot"): they must be          *)
(* behaviours of TypeRegCxx.  The calls of the C face (also through the      *)
(* type_traits wrappers) are the events of Trace_TypeReg.  A C++ step is     *)
(* given the registrations the code made during the call and the identifiers *)
(* it chose; the specification judges them (legal) and answers the rest.     *)
EXTENDS Trace_TypeReg, TypeRegCxx, TypeRegCxxTab
TSlots == 1..8
BaseActs == {"boot", "addbasic", "addgeneric", "addiface", "addmeta", "byid", "scan", "byname", "alias"}

CStep(ev) ==
  IF ev.a \in BaseActs
  THEN /\ TraceStep(ev)
       /\ IF ev.a = "boot" THEN cxx' = [T \in {} |-> 0] /\ mt' = [h \in Slots |-> NoMeta] /\ wrap' = NoWrap
          ELSE CKeep
  ELSE LET n == ev.obs.news IN
       CASE ev.a = "cxxid"     -> CxxId(ev.arg.t, ev.arg.obtain, n)
         [] ev.a = "cxxtraits" -> CxxTraits(ev.arg.t, n)
         [] ev.a = "create"    -> Create(ev.arg.h, ev.arg.via, ev.arg.t, ev.arg.v, n)
         [] ev.a = "get"       -> Get(ev.arg.h, ev.arg.t, n)
         [] ev.a = "getval"    -> GetVal(ev.arg.h, n)
         [] ev.a = "typeof"    -> TypeOf(ev.arg.h, n)
         [] ev.a = "metaptr"   -> MetaPtr(ev.arg.h, n)
         [] ev.a = "asmeta"    -> AsMeta(ev.arg.h, ev.arg.t, n)
         [] ev.a = "addref"    -> AddRef(ev.arg.h, ev.obs.got, n)
         [] ev.a = "release"   -> Release(ev.arg.h, n)
         [] ev.a = "clone"     -> Clone(ev.arg.h, ev.arg.h2, n)
         [] ev.a = "valassign" -> ValAssign(ev.arg.t, ev.arg.v, n)
         [] ev.a = "valget"    -> ValGet(ev.arg.t, n)
         [] ev.a = "propset"   -> PropSet(ev.arg.t, ev.arg.v, n)
         [] OTHER              -> FALSE

CMatches(ev) ==
  IF ev.a \in BaseActs THEN Matches(ev)
  ELSE LET E     == obs'.exp
           openE == "open" \in DOMAIN E /\ E.open = 1
           keys  == IF openE THEN {"live", "bad"} ELSE DOMAIN E \ {"ans_in", "open", "news"}
       IN /\ obs'.legal
          /\ \A k \in keys : ev.obs[k] = E[k]
          /\ (~openE /\ "ans_in" \in DOMAIN E) => ev.obs.ans \in E.ans_in

CTraceInit == l = 1 /\ CInit
CTraceNext ==
  /\ l <= Len(TraceLog)
  /\ l' = l + 1
  /\ LET ev == TraceLog[l] IN CStep(ev) /\ CMatches(ev)
CTraceSpec == CTraceInit /\ [][CTraceNext]_<<cvars, l>>
=============================================================================
