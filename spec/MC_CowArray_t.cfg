SPECIFICATION Spec
CONSTANTS NH = 2 Gran = 4 Hdr = 64 PChunk = 64 MaxLen = 2 MaxArg = 2 Prune = FALSE Api = "c" CtrMax = 3
CONSTRAINT Bound
VIEW View
INVARIANTS TypeOK AliasOK Refines NoTouch
PROPERTY Independent RefuseFrame
CHECK_DEADLOCK FALSE
