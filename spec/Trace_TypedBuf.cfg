SPECIFICATION TraceSpec
CONSTANTS NH = 4 GranE = 0 ES = 16 MaxLen = 100000 MaxArg = 100000 NV = 3 CTSet = {"raw", "plain", "elem", "elemB"} Prune = FALSE Api = "c"
INVARIANTS TypeOK AliasOK Refines Balance AllGone
POSTCONDITION TraceAccepted
CHECK_DEADLOCK FALSE
