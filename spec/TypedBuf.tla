------------------------------ MODULE TypedBuf ------------------------------
(***************************************************************************)
(* Typed buffers with managed elements (property C05).                     *)
(*                                                                         *)
(* An element is created by its type's init (copy of a source element or   *)
(* default) and destroyed by fini.  Elements carry a value v in 0..NV      *)
(* (0 = default constructed); copying copies the value.                    *)
(*                                                                         *)
(* Tier 1 (meaning):  val[h] -- the element values every handle reads      *)
(*                    (independent vectors), and cnt[k] -- how many        *)
(*                    elements with value k are alive: every action states *)
(*                    which elements it constructs (Cre) and which it      *)
(*                    destroys (Fin), cnt is updated from that statement.  *)
(* Tier 2 (design):   rec[h] = buffer record {data (element values), size  *)
(*                    (elements), imm, nc, typ}, share[h] = handles on the *)
(*                    same buffer; mirrors buffer_set/cut/insert/alloc.    *)
(* Balance: cnt[k] equals the number of slots holding value k in the       *)
(* distinct live buffers -- i.e. every element that was constructed and    *)
(* not destroyed sits in exactly one buffer slot (no leak, no double       *)
(* destroy, a shared buffer is copied element by element), and the last    *)
(* release leaves nothing alive.                                           *)
(*                                                                         *)
(* obs.exp: result class, vals/lens per handle, live counts per value      *)
(* (irefs = 1 + cnt, the driver itself holds one reference/unit), total    *)
(* nlive, and the anomaly counters a recording element type observes       *)
(* (bad = destroyed twice / not an element, dead = destroyed element       *)
(* still inside a buffer, dup = one element in two slots, orph = live      *)
(* element in no buffer) which must all be zero.                           *)
(***************************************************************************)
EXTENDS Naturals, Integers, Sequences, FiniteSets, TLC

CONSTANTS NH,      \* handles
          GranE,   \* allocation granularity in elements (scaled allocator); 0 = production:
          ES,      \*   element size in bytes, 128 byte steps with a 64 byte header
          MaxLen,  \* largest element count explored
          MaxArg,  \* largest offset/count argument offered
          NV,      \* element values 1..NV (0 = default constructed)
          CTSet,   \* content types offered to new/reserve (subset of CTypes)
          Prune,   \* TRUE: handle 1 is the actor (behaviour export)
          Api      \* "c": C calls with traits; "xtyped"/"xunique": typed_array<T>/unique_array<T>
                   \* and the buffer members trim/skip/copy/move with a tracked class T (C++)

VARIABLES val, vtyp, cnt,    \* Tier 1
          rec, share,        \* Tier 2
          ctr, obs
vars == <<val, vtyp, cnt, rec, share, ctr, obs>>

H == 1..NH
V == 0..NV

---------------------------------------------------------------------------
Min(a, b) == IF a < b THEN a ELSE b
Max(a, b) == IF a > b THEN a ELSE b
Zeros(n)  == [i \in 1..n |-> 0]
Fresh(n)  == [i \in 1..n |-> ((ctr + i - 1) % NV) + 1]
FirstN(s, n) == SubSeq(s, 1, Min(n, Len(s)))
Drop(s, n)   == SubSeq(s, n + 1, Len(s))
Pad(s, n)    == IF Len(s) >= n THEN s ELSE s \o Zeros(n - Len(s))
Over(s, pos, d) ==
  LET p == Pad(s, pos) IN
  [i \in 1..Max(Len(p), pos + Len(d)) |->
     IF i > pos /\ i <= pos + Len(d) THEN d[i - pos] ELSE p[i]]
Ins(s, pos, d) == FirstN(Pad(s, pos), pos) \o d \o Drop(s, pos)
CutSeq(s, off, n) == FirstN(s, off) \o Drop(s, off + n)
Part(s, a, b) == SubSeq(s, a + 1, Min(b, Len(s)))      \* slots a..b-1 (0-based), clipped
CountIn(s, k) == Cardinality({i \in 1..Len(s) : s[i] = k})
AllocSize(n) == IF GranE > 0 THEN ((n + GranE - 1) \div GranE) * GranE
                ELSE (((n * ES + 63) \div 128 + 1) * 128 - 64) \div ES

\* the k-th copy construction of this call fails: the slot is default constructed instead
Failed(d, k) == [i \in 1..Len(d) |-> IF i = k THEN 0 ELSE d[i]]

\* content types: "raw" (no traits), "plain" (typed, no init/fini), "elem" and "elemB" (two managed
\* element types with different finalisers).  Unmanaged content is counted in element sized
\* units and written as the marker 9 (bytes, never elements).
Managed(t) == t \in {"elem", "elemB"}
CTypes == {"raw", "plain", "elem", "elemB"}
Marks(n) == [i \in 1..n |-> 9]
PadT(s, n, t) == IF Len(s) >= n THEN s ELSE s \o (IF Managed(t) THEN Zeros(n - Len(s)) ELSE Marks(n - Len(s)))
\* a slot of a managed buffer that was zero filled instead of constructed (default construction failed
\* while filling an insert gap) is written 7: it is no element (not counted), copying it gives a default
\* element, destroying it is a no-op
Blank == 7
Unblank(d) == [i \in 1..Len(d) |-> IF d[i] = Blank THEN 0 ELSE d[i]]
GapF(g, df) == [i \in 1..g |-> IF df > 0 /\ i >= df THEN Blank ELSE 0]
InsF(s, pos, d, df) == IF pos > Len(s) THEN s \o GapF(pos - Len(s), df) \o d ELSE Ins(s, pos, d)
Null == [data |-> <<>>, size |-> 0, imm |-> FALSE, nc |-> FALSE, typ |-> "none"]
NewRec(d, sz, t) == [data |-> d, size |-> sz, imm |-> FALSE, nc |-> FALSE, typ |-> t]
IsNull(h) == rec[h].typ = "none"
Used(h)   == Len(rec[h].data)
Shared(h) == Cardinality(share[h]) > 1

\* Tier 1: the call constructs elements with values cre and destroys elements with values fin
Account(cre, fin) ==
  cnt' = [k \in V |-> cnt[k] + CountIn(cre, k) - CountIn(fin, k)]

---------------------------------------------------------------------------
(* detach(buf, len): [ok, same, rec, cre, fin, ncopy]                      *)
(* shared: element-wise copy (fail = index of the failing copy);           *)
(* private: same storage or moved (truncated elements destroyed)           *)
DetF(h, len, fail, fm) ==
  LET r == rec[h] used == Len(r.data) IN
  IF ~Shared(h)
  THEN IF len <= r.size /\ ~r.imm
       THEN [ok |-> TRUE, same |-> TRUE, rec |-> r, cre |-> <<>>, fin |-> <<>>, ncopy |-> 0]
       ELSE [ok |-> TRUE, same |-> FALSE,
             rec |-> [r EXCEPT !.size = AllocSize(len), !.imm = FALSE, !.data = FirstN(r.data, len)],
             cre |-> <<>>, fin |-> Drop(r.data, len), ncopy |-> 0]
  ELSE IF (r.nc /\ used > 0) \/ used > AllocSize(len)
       THEN [ok |-> FALSE, same |-> TRUE, rec |-> r, cre |-> <<>>, fin |-> <<>>, ncopy |-> 0]
       ELSE LET c == IF ~Managed(r.typ) THEN r.data                                      \* bytes: no constructor
                     ELSE IF fm = 1 /\ fail >= 1 /\ fail <= used THEN FirstN(r.data, fail - 1)   \* fatal: copy stops
                     ELSE Failed(Unblank(r.data), fail) IN
            [ok |-> TRUE, same |-> FALSE,
             rec |-> [r EXCEPT !.size = AllocSize(len), !.imm = FALSE, !.data = c],
             cre |-> c, fin |-> <<>>, ncopy |-> IF Managed(r.typ) THEN used ELSE 0]
Det(h, len, fail) == DetF(h, len, fail, 0)
Same(h) == [ok |-> TRUE, same |-> TRUE, rec |-> rec[h], cre |-> <<>>, fin |-> <<>>, ncopy |-> 0]

\* h leaves its buffer; when it was the last holder every element is destroyed
Released(h) == IF IsNull(h) \/ Shared(h) THEN <<>> ELSE rec[h].data

Private(h, r) ==
  /\ rec' = [rec EXCEPT ![h] = r]
  /\ share' = [g \in H |-> IF g = h THEN {h} ELSE share[g] \ {h}]
InPlace(h, r) ==
  /\ rec' = [g \in H |-> IF g \in share[h] THEN r ELSE rec[g]]
  /\ UNCHANGED share
Store(h, dr, d) ==
  IF dr.same THEN InPlace(h, [dr.rec EXCEPT !.data = d])
  ELSE Private(h, [dr.rec EXCEPT !.data = d])
SetV(h, d, t) == /\ val' = [val EXCEPT ![h] = d]
                 /\ vtyp' = [vtyp EXCEPT ![h] = t]

---------------------------------------------------------------------------
Answer(a, arg, ret, either) ==
  obs' = [a |-> a, arg |-> arg,
          exp |-> [ret |-> ret, vals |-> [g \in H |-> IF Managed(vtyp'[g]) THEN val'[g] ELSE <<>>],
                   lens |-> [g \in H |-> Len(val'[g])], typs |-> vtyp',
                   irefs |-> [k \in 1..NV |-> 1 + cnt'[k]],
                   nlive |-> LET RECURSIVE S(_) S(k) == IF k < 0 THEN 0 ELSE cnt'[k] + S(k - 1) IN S(NV),
                   bad |-> 0, dead |-> 0, dup |-> 0, orph |-> 0, refok |-> "ok", either |-> either],
          mdl |-> [sizes |-> [g \in H |-> rec'[g].size],
                   refs |-> [g \in H |-> Cardinality(share'[g])],
                   imm |-> [g \in H |-> rec'[g].imm], nc |-> [g \in H |-> rec'[g].nc]]]

Refuse(a, arg, either) ==
  /\ UNCHANGED <<val, vtyp, cnt, rec, share, ctr>>
  /\ Answer(a, arg, "refused", either)
NoChange(a, arg, ret) ==
  /\ UNCHANGED <<val, vtyp, cnt, rec, share, ctr>>
  /\ Answer(a, arg, ret, FALSE)

---------------------------------------------------------------------------
(* driver-made buffer: elements constructed by the caller *)
New(h, d, imm, nc, t) ==
  LET arg == [h |-> h, data |-> d, imm |-> IF imm THEN 1 ELSE 0, nc |-> IF nc THEN 1 ELSE 0, typ |-> t] IN
  /\ IsNull(h)
  /\ Private(h, [data |-> d, size |-> AllocSize(Len(d)), imm |-> imm, nc |-> nc, typ |-> t])
  /\ SetV(h, d, t) /\ Account(d, <<>>)
  /\ ctr' = ctr + Len(d)
  /\ Answer("new", arg, "ok", FALSE)

(* mpt_buffer_set on exclusive storage r: [ok, data, cre, fin]             *)
(* d0 = offered values (zero = 1: default construct), fail = failing copy  *)
\* fm = 1: the default construction that replaces the failed copy fails as well (fatal):
\* the buffer ends before that slot and everything behind it is destroyed
BSetF(r, pos, d0, fail, fm) ==
  LET n == Len(d0) used == Len(r.data) end == pos + n
      d == Failed(d0, fail)
      gap == Zeros(IF pos > used THEN pos - used ELSE 0)
  IN
  IF fm = 1 /\ fail >= 1 /\ fail <= n
  THEN [ok   |-> end <= r.size /\ r.typ = "elem",
        data |-> Pad(FirstN(r.data, pos), pos) \o FirstN(d0, fail - 1),
        cre  |-> gap \o FirstN(d0, fail - 1),
        fin  |-> Drop(r.data, pos)]
  ELSE [ok   |-> end <= r.size /\ r.typ = "elem",
        data |-> Over(r.data, pos, d),
        cre  |-> gap \o d,
        fin  |-> Part(r.data, pos, end)]

BSet(r, pos, d0, fail) == BSetF(r, pos, d0, fail, 0)

(* mpt_array_set(arr, traits, len, data | 0, off) *)
SetTyped(h, d, off, zero, fail, fm) ==
  LET r == rec[h] n == Len(d) used == Len(r.data)
      arg == [h |-> h, data |-> d, off |-> off, zero |-> zero, fail |-> fail, fm |-> fm]
      pos == IF off < 0 THEN used + off ELSE off
      total == pos + n
  IN
  IF r.typ \notin {"none", "elem"} \/ pos < 0 THEN Refuse("settyped", arg, FALSE)
  ELSE IF r.typ = "none"
  THEN LET b == BSetF(NewRec(<<>>, AllocSize(total), "elem"), pos, d, fail, fm) IN
       /\ Private(h, NewRec(b.data, AllocSize(total), "elem"))
       /\ SetV(h, b.data, "elem") /\ Account(b.cre, <<>>)
       /\ ctr' = ctr + n
       /\ Answer("settyped", arg, "ok", FALSE)
  ELSE LET need == r.size < total \/ r.imm \/ Shared(h)
           dr == IF need THEN DetF(h, Max(used, total), fail, fm) ELSE Same(h)
           b  == BSetF(dr.rec, pos, d, fail - dr.ncopy, fm)
       IN
       IF ~dr.ok THEN Refuse("settyped", arg, FALSE)
       ELSE /\ Store(h, dr, b.data)
            /\ SetV(h, b.data, "elem")
            /\ Account(dr.cre \o b.cre, dr.fin \o b.fin)
            /\ ctr' = ctr + n
            /\ Answer("settyped", arg, "ok", FALSE)

(* buffer level calls on exclusively owned, mutable buffers *)
BufSet(h, pos, d, zero, fail, fm) ==
  LET r == rec[h] arg == [h |-> h, pos |-> pos, data |-> d, zero |-> zero, fail |-> fail, fm |-> fm]
      b == BSetF(r, pos, d, fail, fm)
  IN
  /\ r.typ = "elem" /\ ~Shared(h) /\ ~r.imm
  /\ IF ~b.ok THEN Refuse("bufset", arg, FALSE)
     ELSE /\ InPlace(h, [r EXCEPT !.data = b.data])
          /\ SetV(h, b.data, "elem") /\ Account(b.cre, b.fin)
          /\ ctr' = ctr + Len(d)
          /\ Answer("bufset", arg, "ok", FALSE)

BufCut(h, off, n) ==
  LET r == rec[h] used == Len(r.data) arg == [h |-> h, off |-> off, n |-> n] IN
  /\ r.typ = "elem" /\ ~Shared(h) /\ ~r.imm
  /\ IF n > used \/ off > used \/ (n > 0 /\ used - n < off) THEN Refuse("bufcut", arg, FALSE)
     ELSE LET gone == IF n = 0 THEN Drop(r.data, off) ELSE Part(r.data, off, off + n)
              keep == IF n = 0 THEN FirstN(r.data, off) ELSE CutSeq(r.data, off, n)
          IN
          /\ InPlace(h, [r EXCEPT !.data = keep])
          /\ SetV(h, keep, "elem") /\ Account(<<>>, gone)
          /\ UNCHANGED ctr
          /\ Answer("bufcut", arg, "ok", FALSE)

(* mpt_buffer_insert: the gap behind the old end is default constructed,   *)
(* the returned region is constructed by the caller (values d)             *)
BInsOk(r, pos, n) ==
  LET used == Len(r.data) total == IF pos < used THEN used + n ELSE pos + n IN
  total = 0 \/ (total <= r.size /\ ~r.imm)
BInsCre(r, pos, d) == Zeros(IF pos > Len(r.data) THEN pos - Len(r.data) ELSE 0) \o d

BufInsert(h, pos, d, df) ==       \* df = k: the k-th default construction (gap slot) of the call fails
  LET r == rec[h] n == Len(d) used == Len(r.data)
      arg == [h |-> h, pos |-> pos, data |-> d, dfail |-> df]
      total == IF pos < used THEN used + n ELSE pos + n
      nd == InsF(r.data, pos, d, df)
  IN
  /\ r.typ = "elem" /\ ~Shared(h)
  /\ IF total = 0 THEN NoChange("bufinsert", arg, "any")
     ELSE IF ~BInsOk(r, pos, n) THEN Refuse("bufinsert", arg, FALSE)
     ELSE /\ InPlace(h, [r EXCEPT !.data = nd])
          /\ SetV(h, nd, "elem") /\ Account((IF pos > used THEN GapF(pos - used, df) ELSE <<>>) \o d, <<>>)
          /\ ctr' = ctr + n
          /\ Answer("bufinsert", arg, "ok", FALSE)

(* mpt_array_insert(arr, pos, len) on a typed array *)
ArrInsert(h, pos, d, fail, v) ==
  LET r == rec[h] n == Len(d) used == Len(r.data)
      arg == [h |-> h, pos |-> pos, data |-> d, fail |-> fail]
      top == Max(used, pos)
  IN
  /\ r.typ = "elem" /\ v = 0
  /\ IF top + n <= r.size /\ ~Shared(h) /\ ~r.imm
     THEN /\ InPlace(h, [r EXCEPT !.data = Ins(r.data, pos, d)])
          /\ SetV(h, Ins(val[h], pos, d), "elem") /\ Account(BInsCre(r, pos, d), <<>>)
          /\ ctr' = ctr + n
          /\ Answer("insert", arg, IF top + n = 0 THEN "any" ELSE "ok", FALSE)
     ELSE LET dr == Det(h, top + n, fail) IN
          IF ~dr.ok THEN Refuse("insert", arg, FALSE)
          ELSE /\ Store(h, dr, Ins(dr.rec.data, pos, d))
               /\ SetV(h, Ins(dr.rec.data, pos, d), "elem")
               /\ Account(dr.cre \o BInsCre(dr.rec, pos, d), dr.fin)
               /\ ctr' = ctr + n
               /\ Answer("insert", arg, IF top + n = 0 THEN "any" ELSE "ok", FALSE)

(* mpt_array_slice(arr, off, len): missing elements are default constructed *)
(* (unmanaged content: zero bytes, which the caller then owns)               *)
Slice(h, off, n, fail) ==
  LET r == rec[h] used == Len(r.data) total == off + n
      arg == [h |-> h, off |-> off, n |-> n, fail |-> fail]
  IN
  /\ ~IsNull(h)
  /\ LET dr == IF total > r.size \/ r.imm \/ Shared(h) THEN Det(h, Max(used, total), fail) ELSE Same(h) IN
     IF ~dr.ok THEN Refuse("slice", arg, FALSE)
     ELSE LET nd == PadT(dr.rec.data, total, r.typ) IN
          /\ Store(h, dr, nd)
          /\ SetV(h, nd, r.typ)
          /\ Account(dr.cre \o SubSeq(nd, Len(dr.rec.data) + 1, Len(nd)), dr.fin)
          /\ UNCHANGED ctr
          /\ Answer("slice", arg, "ok", FALSE)

(* mpt_array_reserve(arr, len, traits): the same type keeps the content, any  *)
(* other type (raw, plain, the other managed type) starts empty and every     *)
(* element of the old content is destroyed.  len below the used count: keep  *)
(* or truncate.                                                              *)
Reserve(h, len, t, fail, v) ==
  LET r == rec[h] used == Len(r.data)
      arg == [h |-> h, len |-> len, typ |-> t, fail |-> fail]
      sameT == r.typ = t
      short == sameT /\ len < used
  IN
  IF r.typ = "none" \/ Shared(h) \/ r.imm
  THEN \* a no-copy buffer is not copied: the new private buffer starts empty (C04 records
       \* the lost content; for element lifetime only the destructions matter)
       LET trunc == (v = 0)
                src  == IF ~sameT \/ r.nc THEN <<>> ELSE IF short /\ trunc THEN FirstN(r.data, len) ELSE r.data
                keep == IF Managed(t) THEN Failed(Unblank(src), fail) ELSE src
       IN
            /\ v = 0 \/ (short /\ ~r.nc)
            /\ Private(h, NewRec(keep, AllocSize(Max(len, Len(keep))), t))
            /\ SetV(h, keep, t) /\ Account(keep, Released(h))
            /\ UNCHANGED ctr
            /\ Answer("reserve", arg, "ok", short /\ ~r.nc)
  ELSE LET trunc == (v = 1)
           keep  == IF ~sameT THEN <<>> ELSE IF short /\ trunc THEN FirstN(r.data, len) ELSE r.data
           gone  == IF ~sameT THEN r.data ELSE IF short /\ trunc THEN Drop(r.data, len) ELSE <<>>
           nsize == IF len <= r.size THEN r.size ELSE AllocSize(len)
       IN
       /\ v = 0 \/ short
       /\ InPlace(h, [r EXCEPT !.data = keep, !.size = nsize, !.typ = t])
       /\ SetV(h, keep, t) /\ Account(<<>>, gone)
       /\ UNCHANGED ctr
       /\ Answer("reserve", arg, "ok", short)

(* mpt_array_clone(arr, from | 0) *)
Clone(h, g) ==
  LET arg == [h |-> h, from |-> g] IN
  IF g = 0 \/ (g # 0 /\ IsNull(g) /\ ~IsNull(h))
  THEN /\ Account(<<>>, Released(h))
       /\ Private(h, Null) /\ SetV(h, <<>>, "none") /\ UNCHANGED ctr
       /\ Answer("clone", arg, "ok", FALSE)
  ELSE IF g \in share[h] \/ (IsNull(h) /\ IsNull(g)) THEN NoChange("clone", arg, "ok")
  ELSE IF Api = "c" /\ ~IsNull(h) /\ rec[h].typ # rec[g].typ THEN Refuse("clone", arg, FALSE)
  ELSE /\ Account(<<>>, Released(h))
       /\ rec' = [rec EXCEPT ![h] = rec[g]]
       /\ share' = [x \in H |-> IF x \in share[g] \/ x = h THEN share[g] \cup {h} ELSE share[x] \ {h}]
       /\ SetV(h, val[g], vtyp[g]) /\ UNCHANGED ctr
       /\ Answer("clone", arg, "ok", FALSE)

(* mpt_array_reduce / direct detach(buf, len): the content is kept; a      *)
(* length below the used count may truncate (v = 1) or be refused          *)
Detach(h, len, fail, v) ==
  LET r == rec[h] used == Len(r.data) arg == [h |-> h, len |-> len, fail |-> fail]
      dr == Det(h, len, fail)
  IN
  /\ r.typ = "elem"
  /\ v = 0
  /\ IF ~dr.ok THEN Refuse("detach", arg, len < used)
     ELSE /\ IF dr.same THEN UNCHANGED <<rec, share>> ELSE Private(h, dr.rec)
          /\ SetV(h, dr.rec.data, "elem") /\ Account(dr.cre, dr.fin)
          /\ UNCHANGED ctr
          /\ Answer("detach", arg, "ok", len < used)

---------------------------------------------------------------------------
(* C++ containers over a tracked element class: constructors, copy         *)
(* constructors, assignment and destructors are the init/fini calls.       *)
ENc == Api = "xunique"
TRes(h, len) ==
  IF IsNull(h)
  THEN [ok |-> TRUE, same |-> FALSE, rec |-> [NewRec(<<>>, AllocSize(len), "elem") EXCEPT !.nc = ENc],
        cre |-> <<>>, fin |-> <<>>, ncopy |-> 0]
  ELSE Det(h, len, 0)

TCtor(h, len) ==
  LET arg == [h |-> h, len |-> len] IN
  /\ IsNull(h)
  /\ IF len < 0 THEN NoChange("tctor", arg, "ok")
     ELSE /\ Private(h, TRes(h, len).rec) /\ SetV(h, <<>>, "elem") /\ UNCHANGED <<cnt, ctr>>
          /\ Answer("tctor", arg, "ok", FALSE)

(* typed_array::insert(pos, value) / unique_array::insert(pos) (default element, v = 0) *)
TInsert(h, pos0, v) ==
  LET r == rec[h] used == Len(r.data) arg == [h |-> h, pos |-> pos0, data |-> <<v>>]
      pos == IF pos0 < 0 THEN pos0 + used ELSE pos0
      top == Max(used, pos)
      dr == TRes(h, top + 1)
  IN
  IF pos < 0 \/ ~dr.ok \/ ~BInsOk(dr.rec, pos, 1) THEN Refuse("tinsert", arg, FALSE)
  ELSE /\ Store(h, dr, Ins(dr.rec.data, pos, <<v>>))
       /\ SetV(h, Ins(dr.rec.data, pos, <<v>>), "elem")
       /\ Account(dr.cre \o BInsCre(dr.rec, pos, <<v>>), dr.fin)
       /\ ctr' = ctr + 1
       /\ Answer("tinsert", arg, "ok", FALSE)

(* unique_array::set(pos, value): assignment to a live element *)
TSet(h, pos0, v) ==
  LET r == rec[h] used == Len(r.data) arg == [h |-> h, pos |-> pos0, data |-> <<v>>]
      pos == IF pos0 < 0 THEN pos0 + used ELSE pos0
  IN
  IF pos < 0 \/ pos >= used THEN Refuse("tset", arg, FALSE)
  ELSE LET dr == Det(h, used, 0) IN
       IF ~dr.ok THEN Refuse("tset", arg, FALSE)
       ELSE /\ Store(h, dr, Over(dr.rec.data, pos, <<v>>))
            /\ SetV(h, Over(dr.rec.data, pos, <<v>>), "elem")
            /\ Account(dr.cre \o <<v>>, dr.fin \o <<dr.rec.data[pos + 1]>>)
            /\ ctr' = ctr + 1
            /\ Answer("tset", arg, "ok", FALSE)

TResize(h, len) ==
  LET arg == [h |-> h, len |-> len] dr == TRes(h, len)
      F(s) == IF len <= Len(s) THEN FirstN(s, len) ELSE Pad(s, len)
  IN
  IF ~dr.ok THEN Refuse("tresize", arg, FALSE)
  ELSE LET old == dr.rec.data IN
       /\ Store(h, dr, F(old))
       /\ SetV(h, F(old), "elem")
       /\ Account(dr.cre \o Zeros(IF len > Len(old) THEN len - Len(old) ELSE 0), dr.fin \o Drop(old, len))
       /\ UNCHANGED ctr
       /\ Answer("tresize", arg, "ok", FALSE)

TReserve(h, len0) ==
  LET arg == [h |-> h, len |-> len0] len == IF len0 < 0 THEN len0 + Used(h) ELSE len0 IN
  IF len < 0 THEN Refuse("treserve", arg, FALSE)
  ELSE LET dr == TRes(h, len) IN
       IF ~dr.ok THEN Refuse("treserve", arg, FALSE)
       ELSE /\ IF dr.same THEN UNCHANGED <<rec, share>> ELSE Private(h, dr.rec)
            /\ SetV(h, dr.rec.data, "elem") /\ Account(dr.cre, dr.fin) /\ UNCHANGED ctr
            /\ Answer("treserve", arg, "ok", Len(dr.rec.data) < Used(h))

(* buffer::trim(n) / buffer::skip(n): n elements removed at the end / front (exclusive buffer) *)
XTrim(h, n, front) ==
  LET r == rec[h] used == Len(r.data) arg == [h |-> h, n |-> n, front |-> front] IN
  /\ r.typ = "elem" /\ ~Shared(h) /\ ~r.imm
  /\ IF n > used THEN Refuse("xtrim", arg, FALSE)
     ELSE LET keep == IF front = 1 THEN Drop(r.data, n) ELSE FirstN(r.data, used - n)
              gone == IF front = 1 THEN FirstN(r.data, n) ELSE Drop(r.data, used - n)
          IN
          /\ InPlace(h, [r EXCEPT !.data = keep]) /\ SetV(h, keep, "elem") /\ Account(<<>>, gone)
          /\ UNCHANGED ctr
          /\ Answer("xtrim", arg, "ok", FALSE)

(* buffer::copy(from): the target's elements become copies of the source's;      *)
(* buffer::move(from): the source's elements are taken over, the source is empty *)
XCopy(h, g, move) ==
  LET r == rec[h] q == rec[g] arg == [h |-> h, from |-> g, move |-> move] IN
  /\ g # h /\ r.typ = "elem" /\ q.typ = "elem" /\ ~Shared(h) /\ ~Shared(g) /\ ~r.imm /\ ~q.imm
  /\ IF Len(q.data) > r.size THEN Refuse("xcopy", arg, FALSE)
     ELSE IF move = 0
     THEN /\ rec' = [rec EXCEPT ![h] = [r EXCEPT !.data = q.data]] /\ UNCHANGED share
          /\ SetV(h, q.data, "elem") /\ Account(q.data, r.data) /\ UNCHANGED ctr
          /\ Answer("xcopy", arg, "ok", FALSE)
     ELSE /\ rec' = [rec EXCEPT ![h] = [r EXCEPT !.data = q.data], ![g] = [q EXCEPT !.data = <<>>]]
          /\ UNCHANGED share
          /\ val' = [val EXCEPT ![h] = q.data, ![g] = <<>>] /\ UNCHANGED vtyp
          /\ Account(<<>>, r.data) /\ UNCHANGED ctr
          /\ Answer("xcopy", arg, "ok", FALSE)

---------------------------------------------------------------------------
Init ==
  /\ val = [h \in H |-> <<>>] /\ vtyp = [h \in H |-> "none"] /\ cnt = [k \in V |-> 0]
  /\ rec = [h \in H |-> Null] /\ share = [h \in H |-> {h}]
  /\ ctr = 0
  /\ obs = [a |-> "init", arg |-> [n |-> NH, grane |-> GranE, nv |-> NV, api |-> Api],
            exp |-> [ret |-> "ok", vals |-> [h \in H |-> <<>>], lens |-> [h \in H |-> 0],
                     typs |-> [h \in H |-> "none"], irefs |-> [k \in 1..NV |-> 1], nlive |-> 0,
                     bad |-> 0, dead |-> 0, dup |-> 0, orph |-> 0, refok |-> "ok", either |-> FALSE],
            mdl |-> [sizes |-> [h \in H |-> 0], refs |-> [h \in H |-> 1],
                     imm |-> [h \in H |-> FALSE], nc |-> [h \in H |-> FALSE]]]

Data(n, z) == IF z = 1 THEN Zeros(n) ELSE Fresh(n)
\* which copy may fail: none, or one of the first copies of the call
Fails(h, n) == 0..Min(2, Used(h) + n)

NextC ==
  \E h \in H : LET A == (Prune => h = 1) IN
     \/ \E n \in 0..MaxArg, imm \in BOOLEAN, nc \in BOOLEAN :
           /\ Prune => ((imm \/ nc) => h = 1)
           /\ (Prune /\ h # 1) => n = 1
           /\ \E t \in CTSet :
                 /\ (Prune /\ (h # 1 \/ imm \/ nc)) => t = "elem"
                 /\ (Prune /\ ~Managed(t)) => n \in {0, 2}
                 /\ New(h, IF Managed(t) THEN Fresh(n) ELSE Marks(n), imm, nc, t)
     \/ \E n \in 0..MaxArg, off \in (-2)..MaxArg, z \in {0, 1}, fm \in {0, 1} : \E f \in Fails(h, n) :
           /\ A /\ (z = 1 => n > 0 /\ f = 0) /\ (fm = 1 => f > 0)
           /\ SetTyped(h, Data(n, z), off, z, f, fm)
     \/ \E pos \in 0..MaxArg, n \in 0..MaxArg, z \in {0, 1}, fm \in {0, 1} : \E f \in 0..Min(2, n) :
           /\ A /\ (z = 1 => n > 0 /\ f = 0) /\ (fm = 1 => f > 0)
           /\ BufSet(h, pos, Data(n, z), z, f, fm)
     \/ \E off \in 0..MaxArg, n \in 0..MaxArg : A /\ BufCut(h, off, n)
     \/ \E pos \in 0..MaxArg, n \in 0..MaxArg, df \in 0..(IF Prune THEN 2 ELSE 1) :
           A /\ (df > 0 => pos >= Used(h) + df) /\ BufInsert(h, pos, Fresh(n), df)
     \/ \E pos \in 0..MaxArg, n \in 0..MaxArg, f \in Fails(h, 0), v \in {0, 1} :
           A /\ ArrInsert(h, pos, Fresh(n), f, v)
     \/ \E off \in 0..MaxArg, n \in 0..MaxArg, f \in Fails(h, 0) :
           A /\ (f > 0 => Managed(rec[h].typ)) /\ Slice(h, off, n, f)
     \/ \E n \in 0..MaxArg, t \in CTSet, f \in Fails(h, 0), v \in {0, 1} :
           /\ A /\ (f > 0 => Managed(rec[h].typ))
           /\ (Prune /\ t # rec[h].typ) => n \in {0, MaxArg}
           /\ Reserve(h, n, t, f, v)
     \/ \E g \in 0..NH : g # h /\ Clone(h, g)
     \/ \E n \in 0..MaxArg, f \in Fails(h, 0), v \in {0, 1} : A /\ Detach(h, n, f, v)

NextX ==
  \E h \in H : LET A == (Prune => h = 1) IN
     \/ \E len \in (-1)..MaxArg : (Prune /\ h # 1 => len = 2) /\ TCtor(h, len)
     \/ \E g \in 0..NH : g # h /\ Clone(h, g)
     \/ \E pos \in (-2)..MaxArg :
           /\ (Prune /\ h # 1) => pos = 0
           /\ TInsert(h, pos, IF Api = "xunique" THEN 0 ELSE Fresh(1)[1])
     \/ \E pos \in (-2)..MaxArg : A /\ TSet(h, pos, Fresh(1)[1])
     \/ \E len \in (-2)..MaxArg : A /\ TReserve(h, len)
     \/ \E len \in 0..MaxArg : A /\ TResize(h, len)
     \/ \E n \in 0..MaxArg, f \in {0, 1} : A /\ XTrim(h, n, f)
     \/ \E g \in H, m \in {0, 1} : A /\ XCopy(h, g, m)

Next == IF Api = "c" THEN NextC ELSE NextX

Spec == Init /\ [][Next]_vars

---------------------------------------------------------------------------
TypeOK ==
  \A h \in H : /\ vtyp[h] \in CTypes \cup {"none"}
               /\ Len(rec[h].data) <= rec[h].size
               /\ h \in share[h]
               /\ \A i \in 1..Len(rec[h].data) :
                     IF Managed(rec[h].typ) THEN rec[h].data[i] \in V \cup {Blank} ELSE rec[h].data[i] = 9

AliasOK ==
  \A h \in H : /\ \A g \in share[h] : rec[g] = rec[h] /\ share[g] = share[h]
               /\ IsNull(h) => share[h] = {h}

Refines == \A h \in H : rec[h].data = val[h] /\ rec[h].typ = vtyp[h]

\* every element constructed and not destroyed sits in exactly one slot of one live buffer
Reps == {h \in H : ~IsNull(h) /\ \A g \in share[h] : h <= g}
RECURSIVE SlotCount(_, _)
SlotCount(S, k) == IF S = {} THEN 0
                   ELSE LET h == CHOOSE x \in S : TRUE IN CountIn(rec[h].data, k) + SlotCount(S \ {h}, k)
Balance == \A k \in V : cnt[k] = SlotCount(Reps, k)

\* when no handle holds a buffer nothing is alive
AllGone == (\A h \in H : IsNull(h)) => (\A k \in V : cnt[k] = 0)

Independent == [][\A h \in H : (h # obs'.arg.h /\ ~(obs'.a = "xcopy" /\ h = obs'.arg.from))
                                  => (val'[h] = val[h] /\ vtyp'[h] = vtyp[h])]_vars
RefuseFrame == [][obs'.exp.ret = "refused" => (val' = val /\ cnt' = cnt)]_vars
=============================================================================
