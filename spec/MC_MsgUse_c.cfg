SPECIFICATION USpec
CONSTANTS
  Alphabet = {0, 97}
  MaxLen = 4
  MaxFrag = 3
  MaxDst = 2
  MaxDstFrag = 2
  MaxQ = 0
  Ops = {}
  EmptyBases = {"slice"}
  ForeignBytes = {0}
  ArrKinds = {"roomy"}
  MaxFail = 0
  Heads <- HeadsC
  UOps = {"read", "length", "zero", "sappend", "dgreply", "outvals", "deccmd"}
VIEW UView
CHECK_DEADLOCK FALSE
INVARIANTS UTypeOK URefines
PROPERTIES UDesignAgrees
