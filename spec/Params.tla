------------------------------- MODULE Params -------------------------------
(***************************************************************************)
(* C11 extension X24: the stock handlers mpt_dispatch_param registers on a *)
(* dispatcher (mptcore/event/dispatch_param.c) and what they do with the   *)
(* command messages that reach them.                                       *)
(*                                                                         *)
(* Tier 1 (meaning):  tab  -- id -> registration [kind, tok, mt]           *)
(*                            kind "user" (harness handler, token = arg)   *)
(*                            or "set"/"get"/"cond" (stock handler whose   *)
(*                            context is metatype mt; 0 = none: process    *)
(*                            configuration),                              *)
(*                    fin  -- end-of-life notifications per token (stock   *)
(*                            registrations carry internal negative ones), *)
(*                    cfg  -- per metatype the map path -> value behind it *)
(*                            (C10's words: a query returns the value most *)
(*                            recently assigned to exactly that path).     *)
(* Tier 2 (design):   rc   -- reference counter of each counted metatype   *)
(*                            as the code moves it (hand-over, addref,     *)
(*                            unref when a stock handler ends),            *)
(*                    fb   -- the built-in fallback is in place.           *)
(* A path is a sequence of elements, an element a sequence of bytes.       *)
(* Messages are <<cmd, sep>> \o payload, cut into fragments anywhere.      *)
(***************************************************************************)
EXTENDS Integers, Sequences, FiniteSets, TLC

CONSTANTS Mts,        \* metatypes offered to install: 0 = NULL, 1, 2 = counted
          UserIds,    \* ids user handlers are registered for (besides 5, 6, 7)
          MaxTok,     \* bound on registrations (model checking only)
          Paths,      \* paths used by the generated commands
          Vals        \* values used by the generated commands

VARIABLES tab, fin, nst, cfg,      \* Tier 1
          rc, fb,                  \* Tier 2
          obs
vars  == <<tab, fin, nst, cfg, rc, fb, obs>>
state == <<tab, fin, nst, cfg, rc, fb>>

ParamGet  == 5
ParamSet  == 6
ParamCond == 7
StockIds  == {ParamGet, ParamSet, ParamCond}
Limit     == 1024     \* mpt_message_assign reads the payload into a buffer of this size: longer ones may be refused

MinOf(S) == CHOOSE x \in S : \A y \in S : x <= y

---------------------------------------------------------------------------
(* wire format *)
\* depth elements, each zero-terminated, the remaining bytes are the value
RECURSIVE TakeElems(_, _, _)
TakeElems(p, k, acc) ==
  IF k = 0 THEN [ok |-> TRUE, path |-> acc, val |-> p]
  ELSE LET z == {i \in DOMAIN p : p[i] = 0} IN
       IF z = {} THEN [ok |-> FALSE, path |-> acc, val |-> <<>>]
       ELSE LET i == MinOf(z) IN
            TakeElems(SubSeq(p, i + 1, Len(p)), k - 1, Append(acc, SubSeq(p, 1, i - 1)))
\* pieces between separator bytes; a separator at the very end closes the last piece
RECURSIVE Split(_, _)
Split(p, c) ==
  IF p = <<>> THEN <<>>
  ELSE LET z == {i \in DOMAIN p : p[i] = c} IN
       IF z = {} THEN <<p>>
       ELSE LET i == MinOf(z) IN <<SubSeq(p, 1, i - 1)>> \o Split(SubSeq(p, i + 1, Len(p)), c)
PathOf(text) == Split(text, 46)           \* '.' separated text
RECURSIVE Join(_, _)
Join(s, c) == IF s = <<>> THEN <<>> ELSE IF Len(s) = 1 THEN s[1] ELSE s[1] \o <<c>> \o Join(SubSeq(s, 2, Len(s)), c)
RECURSIVE Terminated(_)
Terminated(s) == IF s = <<>> THEN <<>> ELSE s[1] \o <<0>> \o Terminated(SubSeq(s, 2, Len(s)))
SetPayload(path, val) == Terminated(path) \o val
GetPayload(paths, sep) == Join([i \in DOMAIN paths |-> Join(paths[i], 46)], sep)

---------------------------------------------------------------------------
(* helpers *)
Registered(id) == id \in DOMAIN tab
Stock(r)       == r.kind # "user"
Put(f, p, v)   == [q \in DOMAIN f \cup {p} |-> IF q = p THEN v ELSE f[q]]
TabSet(id, r)  == [x \in DOMAIN tab \cup {id} |-> IF x = id THEN r ELSE tab[x]]
TabDel(id)     == [x \in DOMAIN tab \ {id} |-> tab[x]]
FinUp(f, T)    == [t \in DOMAIN f |-> IF t \in T THEN f[t] + 1 ELSE f[t]]
FinAdd(f, T)   == [t \in DOMAIN f \cup T |-> IF t \in DOMAIN f THEN f[t] ELSE 0]
LiveToks       == {tab[id].tok : id \in DOMAIN tab}
UserToks(t)    == {t[id].tok : id \in {x \in DOMAIN t : t[x].kind = "user"}}
\* references the live stock registrations hold on metatype m
Holders(t, m)  == Cardinality({id \in DOMAIN t : Stock(t[id]) /\ t[id].mt = m})
RcDrop(r)      == IF Stock(r) /\ r.mt # 0 THEN [rc EXCEPT ![r.mt] = @ - 1] ELSE rc

RECURSIVE TabFrom(_, _)
TabFrom(t, ids) ==
  IF ids = {} THEN <<>>
  ELSE LET i == MinOf(ids) IN
       <<[id |-> i, kind |-> IF Stock(t[i]) THEN "stock" ELSE "user",
          ref |-> IF Stock(t[i]) THEN t[i].mt ELSE t[i].tok]>> \o TabFrom(t, ids \ {i})
RECURSIVE FinCallsOf(_)
FinCallsOf(T) == IF T = {} THEN <<>>
                 ELSE LET t == MinOf(T) IN <<[tok |-> t, fin |-> 1, id |-> 0, msg |-> 0]>> \o FinCallsOf(T \ {t})
Call(t, id, m) == [tok |-> t, fin |-> 0, id |-> id, msg |-> m]
EndCalls(r)    == IF Stock(r) THEN <<>> ELSE FinCallsOf({r.tok})

OkReply  == [cmd |-> 1, code |-> "ok",  vals |-> <<>>]
ErrReply == [cmd |-> 1, code |-> "err", vals |-> <<>>]
ValReply(v) == [cmd |-> ParamGet, code |-> "ok", vals |-> v]

\* rany: bit 0 = the reply's content is not spoken about (only that there is exactly one), bit 1 = nor is the returned value
\* after = <<present, value>>: the addressed path of a set/cond command read back independently after the call
AnswerA(a, arg, ret, calls, reps, rany, after) ==
  obs' = [a |-> a, arg |-> arg,
          exp |-> [ret |-> ret, calls |-> calls,
                   replies |-> IF rany % 2 = 1 THEN "any" ELSE reps, rany |-> rany, nreplies |-> Len(reps),
                   apresent |-> after[1], aval |-> after[2],
                   table |-> TabFrom(tab', DOMAIN tab'), refs |-> <<rc'[1], rc'[2]>>]]
Answer(a, arg, ret, calls, reps, rany) == AnswerA(a, arg, ret, calls, reps, rany, <<0, <<>>>>)

---------------------------------------------------------------------------
(* mpt_dispatch_param(disp, mt): set, get, cond registered in this order   *)
(* under the message type ids, each through mpt_dispatch_set (refused when *)
(* the id is taken: the call stops there).  The caller's reference goes to *)
(* the first registration, every further one takes its own; fr = n makes   *)
(* the n-th addref of the counted metatype fail.  Nothing registered: the  *)
(* call is refused and the caller keeps its reference.                     *)
InstallCount(m, fr) ==
  IF Registered(ParamSet) THEN 0
  ELSE IF (m # 0 /\ fr = 1) \/ Registered(ParamGet) THEN 1
  ELSE IF (m # 0 /\ fr = 2) \/ Registered(ParamCond) THEN 2
  ELSE 3
Install(m, fr) ==
  LET n    == InstallCount(m, fr)
      reg  == [k \in 1..n |-> [kind |-> <<"set", "get", "cond">>[k], tok |-> -(nst + k), mt |-> m]]
      idof == <<ParamSet, ParamGet, ParamCond>>
      new  == {idof[k] : k \in 1..n}
  IN
  /\ tab' = [x \in DOMAIN tab \cup new |-> IF x \in new THEN reg[CHOOSE k \in 1..n : idof[k] = x] ELSE tab[x]]
  /\ fin' = FinAdd(fin, {-(nst + k) : k \in 1..n})
  /\ nst' = nst + n
  /\ rc'  = IF m # 0 THEN [rc EXCEPT ![m] = @ + n] ELSE rc
  /\ UNCHANGED <<cfg, fb>>
  /\ Answer("install", [m |-> m, failref |-> fr], IF n = 0 THEN "refused" ELSE "ok", <<>>, <<>>, 0)

(* mpt_dispatch_set(disp, id, handler, tok): user registration, refused when taken *)
Set(id, tok) ==
  /\ tok > 0 /\ tok \notin DOMAIN fin
  /\ UNCHANGED <<nst, cfg, rc, fb>>
  /\ IF Registered(id)
     THEN /\ UNCHANGED <<tab, fin>>
          /\ Answer("set", [id |-> id, tok |-> tok], "refused", <<>>, <<>>, 0)
     ELSE /\ tab' = TabSet(id, [kind |-> "user", tok |-> tok, mt |-> 0])
          /\ fin' = FinAdd(fin, {tok})
          /\ Answer("set", [id |-> id, tok |-> tok], "ok", <<>>, <<>>, 0)

(* mpt_command_set(&disp->_d, id, handler | NULL, tok): replace / add / delete; *)
(* whoever held the id gets its end-of-life call                              *)
CmdSet(id, new, tok) ==
  LET arg == [id |-> id, new |-> new, tok |-> tok]
      r   == [kind |-> "user", tok |-> tok, mt |-> 0] IN
  /\ tok > 0 /\ tok \notin DOMAIN fin
  /\ UNCHANGED <<nst, cfg, fb>>
  /\ IF Registered(id)
     THEN /\ tab' = IF new = 1 THEN TabSet(id, r) ELSE TabDel(id)
          /\ fin' = IF new = 1 THEN FinAdd(FinUp(fin, {tab[id].tok}), {tok}) ELSE FinUp(fin, {tab[id].tok})
          /\ rc'  = RcDrop(tab[id])
          /\ Answer("cmdset", arg, "ok", EndCalls(tab[id]), <<>>, 0)
     ELSE /\ tab' = IF new = 1 THEN TabSet(id, r) ELSE tab
          /\ fin' = IF new = 1 THEN FinAdd(fin, {tok}) ELSE fin
          /\ rc'  = rc
          /\ Answer("cmdset", arg, "ok", <<>>, <<>>, 0)

(* mpt_dispatch_set(disp, id, NULL, NULL): unregister *)
Clear(id) ==
  /\ UNCHANGED <<nst, cfg, fb>>
  /\ IF Registered(id)
     THEN /\ tab' = TabDel(id) /\ fin' = FinUp(fin, {tab[id].tok}) /\ rc' = RcDrop(tab[id])
          /\ Answer("clear", [id |-> id], "ok", EndCalls(tab[id]), <<>>, 0)
     ELSE /\ UNCHANGED <<tab, fin, rc>>
          /\ Answer("clear", [id |-> id], "refused", <<>>, <<>>, 0)

(* mpt_dispatch_fini: every registration notified once (user calls reported in token order) *)
Fini ==
  /\ tab' = << >> /\ fin' = FinUp(fin, LiveToks) /\ fb' = FALSE
  /\ rc'  = [m \in DOMAIN rc |-> rc[m] - Holders(tab, m)]
  /\ UNCHANGED <<nst, cfg>>
  /\ Answer("fini", [x |-> 0], "ok", FinCallsOf(UserToks(tab)), <<>>, 0)

---------------------------------------------------------------------------
(* delivery of a message event: id = first byte *)
Reps(reply, r) == IF reply = 1 THEN <<r>> ELSE <<>>

\* what the stock handlers do; big: the payload does not fit the handler's buffer and is refused
SetLike(kind, m, sep, payload, big) ==
  LET p == TakeElems(payload, sep, <<>>) IN
  IF big \/ ~p.ok THEN [ok |-> FALSE, cfg |-> cfg]
  ELSE IF kind = "cond" /\ p.path \in DOMAIN cfg[m] THEN [ok |-> TRUE, cfg |-> cfg]
  ELSE [ok |-> TRUE, cfg |-> [cfg EXCEPT ![m] = Put(@, p.path, p.val)]]

\* values of the longest run of present paths from the start
RECURSIVE Found(_, _)
Found(f, paths) == IF paths = <<>> \/ paths[1] \notin DOMAIN f THEN <<>>
                   ELSE <<f[paths[1]]>> \o Found(f, SubSeq(paths, 2, Len(paths)))

Emit(cmd, sep, payload, cuts, reply, hr, big) ==
  LET arg == [cmd |-> cmd, sep |-> sep, payload |-> payload, cuts |-> cuts, reply |-> reply, r |-> hr]
      id  == cmd IN
  /\ UNCHANGED <<tab, fin, nst, rc, fb>>
  /\ IF ~Registered(id)
     THEN /\ UNCHANGED cfg
          /\ Answer("emit", arg, IF fb THEN 2 ELSE -1, <<>>, Reps(reply, ErrReply), 0)
     ELSE LET r == tab[id] IN
       CASE r.kind = "user" ->
              /\ UNCHANGED cfg
              /\ IF hr < 0 THEN Answer("emit", arg, -1, <<Call(r.tok, id, 1)>>, Reps(reply, ErrReply), 0)
                 ELSE Answer("emit", arg, hr, <<Call(r.tok, id, 1)>>, <<>>, 0)
         [] r.kind \in {"set", "cond"} ->
              LET e == SetLike(r.kind, r.mt, sep, payload, big) IN
              /\ sep >= 1                       \* depth 0 (assignment to the root itself): not spoken about
              /\ big => Len(payload) >= Limit
              /\ cfg' = e.cfg
              /\ LET p     == TakeElems(payload, sep, <<>>)
                     after == IF p.ok /\ p.path \in DOMAIN e.cfg[r.mt] THEN <<1, e.cfg[r.mt][p.path]>> ELSE <<0, <<>>>> IN
                 IF e.ok THEN AnswerA("emit", arg, 0, <<>>, Reps(reply, OkReply), 0, after)
                 ELSE AnswerA("emit", arg, 2, <<>>, Reps(reply, ErrReply), 0, after)
         [] r.kind = "get" ->
              LET paths == [i \in DOMAIN Split(payload, sep) |-> PathOf(Split(payload, sep)[i])]
                  v     == Found(cfg[r.mt], paths) IN
              /\ UNCHANGED cfg
              /\ IF paths = <<>> THEN Answer("emit", arg, 0, <<>>, Reps(reply, OkReply), 3)
                 ELSE IF v = <<>> THEN Answer("emit", arg, 0, <<>>, Reps(reply, ErrReply), 2)
                 ELSE Answer("emit", arg, 0, <<>>, Reps(reply, ValReply(v)), 0)

(* a message that ends after the command byte: a stock handler cannot read its header *)
EmitShort(cmd, reply, hr) ==
  LET arg == [cmd |-> cmd, hdr |-> 1, payload |-> <<>>, cuts |-> <<>>, reply |-> reply, r |-> hr] IN
  /\ UNCHANGED state
  /\ IF ~Registered(cmd) THEN Answer("emit", arg, IF fb THEN 2 ELSE -1, <<>>, Reps(reply, ErrReply), 0)
     ELSE IF tab[cmd].kind = "user"
     THEN IF hr < 0 THEN Answer("emit", arg, -1, <<Call(tab[cmd].tok, cmd, 1)>>, Reps(reply, ErrReply), 0)
          ELSE Answer("emit", arg, hr, <<Call(tab[cmd].tok, cmd, 1)>>, <<>>, 0)
     ELSE Answer("emit", arg, -1, <<>>, Reps(reply, ErrReply), 0)

(* independent read of one path of the configuration behind metatype m *)
Probe(m, text) ==
  LET p == PathOf(text) IN
  /\ UNCHANGED state
  /\ obs' = [a |-> "probe", arg |-> [m |-> m, path |-> text],
             exp |-> IF p \in DOMAIN cfg[m] THEN [present |-> 1, val |-> cfg[m][p]]
                     ELSE [present |-> 0, val |-> <<>>]]

---------------------------------------------------------------------------
InitState ==
  /\ tab = << >> /\ fin = << >> /\ nst = 0
  /\ cfg = [m \in 0..2 |-> << >>] /\ rc = [m \in 1..2 |-> 0] /\ fb = TRUE
Init ==
  /\ InitState
  /\ obs = [a |-> "init", arg |-> [x |-> 0],
            exp |-> [ret |-> "ok", calls |-> <<>>, replies |-> <<>>, rany |-> 0, nreplies |-> 0,
                     apresent |-> 0, aval |-> <<>>, table |-> <<>>, refs |-> <<0, 0>>]]

NextTok == Cardinality({t \in DOMAIN fin : t > 0}) + 1
AllIds  == StockIds \cup UserIds
Unknown == 9

Next ==
  \/ \E m \in Mts, fr \in 0..2 : (m = 0 => fr = 0) /\ Install(m, fr)
  \/ \E id \in AllIds : Set(id, NextTok) \/ CmdSet(id, 1, NextTok) \/ CmdSet(id, 0, NextTok) \/ Clear(id)
  \/ Fini
  \/ \E p \in Paths, v \in Vals \cup {<<>>}, c \in {ParamSet, ParamCond}, reply \in 0..1 :
        \/ Emit(c, Len(p), SetPayload(p, v), <<3>>, reply, 0, FALSE)
        \/ Emit(c, Len(p) + 1, SetPayload(p, v), <<>>, reply, 0, FALSE)          \* fewer elements than announced
  \/ \E p \in Paths, q \in Paths, reply \in 0..1 :
        \/ Emit(ParamGet, 0, GetPayload(<<p>>, 0), <<>>, reply, 0, FALSE)
        \/ Emit(ParamGet, 0, GetPayload(<<p, q>>, 0) \o <<0>>, <<2, 4>>, reply, 0, FALSE)
        \/ Emit(ParamGet, 58, GetPayload(<<p, q>>, 58), <<1>>, reply, 0, FALSE)
  \/ \E reply \in 0..1 : Emit(ParamGet, 0, <<>>, <<>>, reply, 0, FALSE)
  \/ \E c \in AllIds \cup {Unknown}, reply \in 0..1, hr \in {0, -1} :
        \/ Emit(c, 1, SetPayload(<<<<97>>>>, <<120>>), <<>>, reply, hr, FALSE) /\ (Registered(c) => tab[c].kind = "user")
        \/ EmitShort(c, reply, hr)
  \/ \E m \in Mts \cup {0}, p \in Paths : Probe(m, Join(p, 46))

Spec == Init /\ [][Next]_vars

---------------------------------------------------------------------------
(* invariants *)
TypeOK ==
  /\ \A id \in DOMAIN tab : tab[id].kind \in {"user", "set", "get", "cond"}
  /\ \A t \in DOMAIN fin : fin[t] \in 0..2
  /\ nst >= 0
\* Tier 2 implements Tier 1: a counted metatype holds exactly one reference per live stock registration
RefsMatch == \A m \in DOMAIN rc : rc[m] = Holders(tab, m)
\* no registration is notified twice, the ones in place not at all
OnceOnly == /\ \A t \in DOMAIN fin : fin[t] <= 1
            /\ \A id \in DOMAIN tab : fin[tab[id].tok] = 0
\* whoever was registered and is not in place any more has had exactly one notification
GoneNotified == \A t \in DOMAIN fin : t \notin LiveToks => fin[t] = 1
\* stock handlers sit under their own message type only
StockPlaces == \A id \in DOMAIN tab :
                 /\ tab[id].kind = "set"  => id = ParamSet
                 /\ tab[id].kind = "get"  => id = ParamGet
                 /\ tab[id].kind = "cond" => id = ParamCond

(* action properties *)
\* a message reaches the handler registered for its first byte and no other: a user handler is called only when it
\* holds the id, and the configuration changes only through a stock set/cond handler in place under that id
DeliveredRight == [][obs'.a = "emit" =>
     /\ \A i \in DOMAIN obs'.exp.calls :
          LET c == obs'.exp.calls[i] IN
          Registered(c.id) /\ tab[c.id].kind = "user" /\ tab[c.id].tok = c.tok /\ c.id = obs'.arg.cmd
     /\ cfg' # cfg => Registered(obs'.arg.cmd) /\ tab[obs'.arg.cmd].kind \in {"set", "cond"}]_vars
\* one path changes at most, in the configuration of the handler's metatype; other paths untouched
OnePath == [][cfg' # cfg =>
     \E m \in DOMAIN cfg : /\ \A k \in DOMAIN cfg \ {m} : cfg'[k] = cfg[k]
                           /\ m = tab[obs'.arg.cmd].mt
                           /\ \E p \in DOMAIN cfg'[m] : \A q \in DOMAIN cfg[m] \ {p} : q \in DOMAIN cfg'[m] /\ cfg'[m][q] = cfg[m][q]]_vars
\* an event with a reply context that reaches a stock handler or the fallback is answered exactly once,
\* without one never
OneReply == [][obs'.a = "emit" =>
     IF obs'.arg.reply = 0 THEN obs'.exp.nreplies = 0
     ELSE (obs'.exp.calls = <<>> \/ obs'.exp.ret = -1) <=> obs'.exp.nreplies = 1]_vars
\* after teardown every registration ever made has been notified exactly once and no reference is left
FiniAll == [][obs'.a = "fini" => (\A t \in DOMAIN fin' : fin'[t] = 1) /\ (\A m \in DOMAIN rc' : rc'[m] = 0)]_vars
=============================================================================
