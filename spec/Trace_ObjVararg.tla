--------------------------- MODULE Trace_ObjVararg ---------------------------
(* Trace validation for ObjVararg: recorded calls of the variadic doors on   *)
(* the reference object and on the library's local output object (many      *)
(* arguments, long texts).  The statement tier decides: a settled meaning is *)
(* what was stored, an open one (conversion policy) is stored as delivered   *)
(* or not at all, nothing but the named property changes, walks of the       *)
(* iterator see what the position in the delivered list says.                *)
EXTENDS ObjVararg, Json, IOUtils
VARIABLE l
TraceLog == ndJsonDeserialize(IOEnv.TRACE)

ArgV(a) == [f |-> a.f, n |-> a.n, c |-> a.c, sty |-> a.sty]
ArgsOf(ev) == [i \in 1..Len(ev.arg.ents) |-> ArgV(ev.arg.ents[i])]
PO(ev, o) == IF o = 1 THEN ev.obs.p0 ELSE ev.obs.p1
RECURSIVE Unflat(_, _)
Unflat(s, i) ==
  IF i > Len(s) THEN <<>>
  ELSE IF s[i] = 115 THEN <<[t |-> 115, n |-> <<>>, c |-> SubSeq(s, i + 2, i + 1 + s[i + 1])]>> \o Unflat(s, i + 2 + s[i + 1])
  ELSE <<[t |-> s[i], n |-> <<s[i + 1], s[i + 2]>>, c |-> <<>>]>> \o Unflat(s, i + 3)
FromView(p) == IF kind = "ref" THEN [count |-> p.count, ratio |-> SubSeq(p.ratio, 2, 3), label |-> p.label, items |-> Unflat(p.items, 1)]
               ELSE [ignore |-> p.ignore[1]]
With(o, slot, d) == [st[o] EXCEPT ![slot] = d]
Note(a, o, slot, r) == obs' = [a |-> a, arg |-> <<>>, door |-> o, slot |-> slot, res |-> r,
                               exp |-> [p0 |-> ViewOf(kind, st'[1]), p1 |-> ViewOf(kind, st'[2])]]
DoorX(a, ev, o, slot, r, ret) ==
  LET p == PO(ev, o) IN
  /\ Settled(r) => ret = r.ret
  /\ ret = "refused" => p = ViewOf(kind, st[o])
  /\ CASE r.ret = "ok"      -> st' = [st EXCEPT ![o] = With(o, slot, r.den)]
       [] r.ret = "refused" -> st' = st
       [] r.ret = "either"  -> IF p = ViewOf(kind, st[o]) THEN st' = st ELSE st' = [st EXCEPT ![o] = With(o, slot, r.den)]
       [] OTHER             -> /\ st' = [st EXCEPT ![o] = FromView(p)]
                               /\ \A s \in DOMAIN Def : s # slot => FromView(p)[s] = st[o][s]
  /\ UNCHANGED kind
  /\ Note(a, o, slot, r)
Quiet(a) == Same /\ obs' = [a |-> a, arg |-> <<>>, door |-> 0, slot |-> "", res |-> Silent,
                            exp |-> [p0 |-> ViewOf(kind, st[1]), p1 |-> ViewOf(kind, st[2])]]
SeenNames(ev) == [j \in 1..Len(ev.obs.seen) |-> ev.obs.seen[j].n]
SeenVals(ev)  == [j \in 1..Len(ev.obs.seen) |-> ev.obs.seen[j].v]
Sel(o, m) == SelectSeq(Listed, LAMBDA nm : m % 256 >= 48 \/ (IF IsDef(o, nm) THEN (m \div 32) % 2 = 1 ELSE (m \div 16) % 2 = 1))

Step(ev) ==
  LET o == IF "o" \in DOMAIN ev.arg THEN ev.arg.o + 1 ELSE 1 IN
  CASE ev.a = "init" ->
         /\ kind' = ev.arg.kind
         /\ st' = IF ev.arg.kind = "ref" THEN <<DefRef, DefRef>> ELSE <<DefHist, DefHist>>
         /\ obs' = [a |-> "init", arg |-> <<>>, door |-> 0, slot |-> "", res |-> Silent,
                    exp |-> [p0 |-> ViewOf(ev.arg.kind, st'[1]), p1 |-> ViewOf(ev.arg.kind, st'[2])]]
    [] ev.a = "dset" ->
         LET e == ev.arg.ents[1]  slot == SlotOf(e.name)
             r == IF ~Knows(e.name) THEN Refused ELSE IF e.f = "none" THEN Ok(Def[slot]) ELSE DenDirect(slot, ArgV(e)) IN
         DoorX("dset", ev, o, slot, r, IF ev.obs.oks[1] = 1 THEN "ok" ELSE "refused")
    [] ev.a \in {"vset", "vvset"} ->
         IF ev.obs.ret = "skipped" THEN Quiet(ev.a)
         ELSE DoorX(ev.a, ev, o, SlotOf(ev.arg.name), VSetRes(ev.arg.name, ev.arg.fmt, ArgsOf(ev), FALSE), ev.obs.ret)
    [] ev.a = "iset" ->
         LET args == ArgsOf(ev)
             ds == [i \in 1..Len(args) |-> Item(CodeOf(args[i].f), args[i])]
             r == IF ~Knows(ev.arg.name) THEN Refused ELSE DenList(SlotOf(ev.arg.name), ds, FALSE) IN
         DoorX("iset", ev, o, SlotOf(ev.arg.name), r, ev.obs.ret)
    [] ev.a = "walk" ->
         /\ (ev.obs.ret # "skipped" /\ WellFormed(ev.arg.fmt) /\ ev.arg.fmt # <<>>) =>
               /\ ev.obs.ret = "ok"
               /\ ev.obs.seen = WalkPos(Delivered(ev.arg.fmt, ArgsOf(ev)), 1, ev.arg.w, 1)
         /\ Same
         /\ obs' = [a |-> "walk", arg |-> <<>>, door |-> 0, slot |-> "", res |-> Silent, exp |-> [x |-> 0]]
    [] ev.a = "list" ->
         /\ ev.obs.ret = "ok"
         /\ (kind = "ref" \/ ev.arg.match % 256 >= 48) =>
               /\ SeenNames(ev) = Sel(o, ev.arg.match)
               /\ (kind = "ref" /\ ev.arg.mode # "print") => SeenVals(ev) = [j \in 1..Len(Sel(o, ev.arg.match)) |-> ViewOf(kind, st[o])[Sel(o, ev.arg.match)[j]]]
         /\ Quiet("list")
    [] ev.a = "tname" ->
         /\ ev.obs.ret = "ok" /\ ev.obs.tname = (IF kind = "ref" THEN "ref" ELSE "history")
         /\ ev.obs.iname = "object" /\ ev.obs.idesc = ev.obs.tname /\ ev.obs.icode = 1
         /\ Quiet("tname")
    [] ev.a = "vcopy" ->
         LET f == ev.arg.ents[1].f IN
         /\ IF SizeOf(f) > ev.arg.max THEN ev.obs.ret = "refused" /\ ev.obs.kept = 1
            ELSE ev.obs.ret = "ok" /\ ev.obs.size = SizeOf(f) /\ (ev.arg.nosrc = 1 => ev.obs.bytes = [i \in 1..SizeOf(f) |-> 0])
         /\ ev.obs.tail = 1
         /\ Same
         /\ obs' = [a |-> "vcopy", arg |-> <<>>, door |-> 0, slot |-> "", res |-> Silent, exp |-> [x |-> 0]]
    [] OTHER -> FALSE

Matches(ev) == \A k \in DOMAIN obs'.exp : k = "x" \/ (k \in DOMAIN ev.obs /\ obs'.exp[k] = ev.obs[k])
TraceInit == /\ l = 1 /\ kind = "ref" /\ ops = 0 /\ st = <<DefRef, DefRef>>
             /\ obs = [a |-> "none", arg |-> <<>>, door |-> 0, slot |-> "", res |-> Silent, exp |-> [x |-> 0]]
TraceNext == /\ l <= Len(TraceLog) /\ l' = l + 1 /\ UNCHANGED ops
             /\ LET ev == TraceLog[l] IN Step(ev) /\ Matches(ev)
TraceSpec == TraceInit /\ [][TraceNext]_<<vars, l>>
OtherKept == [][obs'.door # 0 => st'[3 - obs'.door] = st[3 - obs'.door]]_<<vars, l>>
TraceAccepted ==
  LET n == TLCGet("stats").diameter - 1 IN
  /\ PrintT(<<"MATCHED", n>>)
  /\ n = Len(TraceLog)
=============================================================================
