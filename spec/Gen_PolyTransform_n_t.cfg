SPECIFICATION GenSpec
CONSTANTS
  Alphabet <- AlphaN
  Alphabet2 <- AlphaN
  Ranges <- RngN
  MaxLen = 5
  Limit = 65535
  Chunked = FALSE
  NoRangeLen = 0
  CodeDen = {}
  Dims = 1
  Kinds <- KindsLog
  HalfLimits = TRUE
  Uneven = "same"
VIEW View
ACTION_CONSTRAINT Emit
CHECK_DEADLOCK FALSE
