------------------------------ MODULE TreeUse ------------------------------
(***************************************************************************)
(* Extension X14 of property C14: the remaining operations of mptcore/node *)
(* and the users of node trees.  Same state as NodeTree (hp = the four     *)
(* links, fo = the ordered forest they mean), same demands (WellFormed,    *)
(* OnceInForest, Refines, released exactly once, clone relation).          *)
(*                                                                         *)
(*   Switch         mpt_gnode_switch: two subtrees exchange their places   *)
(*   TravX          mpt_gnode_traverse in pre/post/in/level order, leaf /  *)
(*                  non-leaf selection, visitor that stops at its k-th call*)
(*   SameQ, SubQ    mpt_gnode_samelevel / mpt_gnode_sublevel               *)
(*   PathQ          mpt_node_query: locate a node by path                  *)
(*   Assign, SetVal mpt_node_assign (path elements are created on demand), *)
(*                  mpt_meta_set / node::set_metatype on a node            *)
(*   CfgSet, CfgDel mpt_config_set on the process-wide configuration list  *)
(*                  (directly and through a sub-tree view)                 *)
(*   Parse          mpt_parse_node (merge) / mpt_node_parse (replace) of a *)
(*                  text that denotes forest t: "produce tree t"           *)
(*   ParseRefused, ParseFail, AssignFail                                   *)
(*                  a refused text / an allocation failure on the way      *)
(*   Drop, Teardown node::~node (unlink + clear + release); release of all *)
(*   Adopt          a tree produced by a subsystem the specification does  *)
(*                  not describe: the structure found afterwards is taken  *)
(*                  over, demanded are WellFormed, the frame (nothing      *)
(*                  outside the target changes) and release-once.          *)
(* Each call again as a pair: Tier 2 = the pointer algorithm of the        *)
(* library on hp, Tier 1 = the same call on the forest.                    *)
(***************************************************************************)
EXTENDS NodeTree

CONSTANTS Paths,     \* paths offered to the query: non-empty sequences of names
          APaths,    \* paths offered to assign / set / remove
          Forests,   \* forests offered to the producing calls: sequences of <<name, value, children>>
          Ups,       \* "up" arguments of samelevel / sublevel
          Stops      \* the visitor of a traversal answers non-zero at its k-th call (0 = never)

---------------------------------------------------------------------------
(* forests: positions, rows, orders (Tier 1) *)
RestOf(f, n) == LET L == ListOf(f, n) IN From(L, IndexOf(L, n))
KidsOf(f, s) == Flat([i \in 1..Len(s) |-> f.kids[s[i]]])
RECURSIVE LevelL(_, _)
LevelL(f, r) == IF r = <<>> THEN <<>> ELSE r \o LevelL(f, KidsOf(f, r))
RECURSIVE DepthOf(_, _)
DepthOf(f, n) == IF OwnerOf(f, n) = 0 THEN 0 ELSE 1 + DepthOf(f, OwnerOf(f, n))
RECURSIVE AncK(_, _, _)
AncK(f, n, k) == IF k = 0 THEN n ELSE AncK(f, OwnerOf(f, n), k - 1)
RECURSIVE DescAt(_, _, _)
DescAt(f, r, u) == IF u = 0 THEN r ELSE DescAt(f, KidsOf(f, r), u - 1)

Orders4 == {"pre", "post", "in", "level"}
Sels == {"all", "leaf", "inner"}
Order1(f, n, ord) ==
  LET r == RestOf(f, n) IN
  IF ord = "pre" THEN PreL(f, r)
  ELSE IF ord = "post" THEN Flat([i \in 1..Len(r) |-> PostT(f, r[i])])
  ELSE IF ord = "in" THEN Flat([i \in 1..Len(r) |-> InT(f, r[i])])
  ELSE LevelL(f, r)
Sel1(f, s, sel) == SelectSeq(s, LAMBDA x : sel = "all" \/ (sel = "leaf" /\ f.kids[x] = <<>>)
                                                       \/ (sel = "inner" /\ f.kids[x] # <<>>))
\* the visited nodes in order with the depth handed to the visitor, and the
\* node at which the visitor stopped the traversal (0 = it ran to the end)
Visit(s, D(_), stop) ==
  LET c == IF stop = 0 \/ stop > Len(s) THEN s ELSE SubSeq(s, 1, stop) IN
  [node |-> IF stop > 0 /\ stop <= Len(s) THEN s[stop] ELSE 0,
   seq |-> c, depth |-> [i \in 1..Len(c) |-> D(c[i])]]

\* the row of n: the nodes on its level, in order, that a search climbing at
\* most "up" levels can reach
Row1(f, n, up) ==
  LET d == DepthOf(f, n) u == IF up < d THEN up ELSE d IN DescAt(f, RestOf(f, AncK(f, n, u)), u)
Same1(f, n, up) == LET c == Row1(f, n, up) i == IndexOf(c, n) IN IF i < Len(c) THEN c[i + 1] ELSE 0
Sub1(f, n, up) ==
  LET c == Row1(f, n, up)
      w == SelectSeq(From(c, IndexOf(c, n)), LAMBDA x : f.kids[x] # <<>>)
  IN IF w = <<>> THEN 0 ELSE f.kids[w[1]][1]

---------------------------------------------------------------------------
(* the same on the links (Tier 2): gnode_level.c, gnode_traverse.c *)
RECURSIVE SameLevelH(_, _, _), SameUpH(_, _, _)
SameLevelH(h, s, up) ==
  IF s = 0 THEN 0
  ELSE IF up = 0 \/ h.nx[s] # 0 THEN h.nx[s]
  ELSE SameUpH(h, h.pa[s], up)
SameUpH(h, st, up) ==
  LET s2 == SameLevelH(h, st, up - 1) IN
  IF s2 = 0 THEN 0 ELSE IF h.ch[s2] # 0 THEN h.ch[s2] ELSE SameUpH(h, s2, up)
RECURSIVE SubLevelH(_, _, _)
SubLevelH(h, s, up) ==
  IF s = 0 THEN 0 ELSE IF h.ch[s] # 0 THEN h.ch[s] ELSE SubLevelH(h, SameLevelH(h, s, up), up)
RECURSIVE RowH(_, _, _)
RowH(h, c, up) == IF c = 0 THEN <<>>
                  ELSE <<c>> \o RowH(h, IF h.nx[c] = 0 THEN SameLevelH(h, c, up) ELSE h.nx[c], up)
RECURSIVE LevelH(_, _, _)
LevelH(h, n, up) == IF n = 0 THEN <<>> ELSE RowH(h, n, up) \o LevelH(h, SubLevelH(h, n, up), up + 1)
RECURSIVE TravH4(_, _, _)
TravH4(h, n, ord) ==
  LET cs  == Fwd(h, h.ch[n])
      sub == [i \in 1..Len(cs) |-> TravH4(h, cs[i], ord)]
  IN IF ord = "pre" THEN <<n>> \o Flat(sub)
     ELSE IF ord = "post" THEN Flat(sub) \o <<n>>
     ELSE IF cs = <<>> THEN <<n>> ELSE sub[1] \o <<n>> \o Flat(From(sub, 2))
Order2(h, n, ord) ==
  IF ord = "level" THEN LevelH(h, n, 0)
  ELSE LET f == Fwd(h, n) IN Flat([i \in 1..Len(f) |-> TravH4(h, f[i], ord)])
Sel2(h, s, sel) == SelectSeq(s, LAMBDA x : sel = "all" \/ (sel = "leaf" /\ h.ch[x] = 0)
                                                       \/ (sel = "inner" /\ h.ch[x] # 0))
RECURSIVE DepthH(_, _, _)
DepthH(h, r, x) == IF InSeq(x, r) \/ x = 0 THEN 0 ELSE 1 + DepthH(h, r, h.pa[x])

\* mpt_node_query(conf, path): the deepest element the path leads to and how
\* many path elements were used up
RECURSIVE QueryH(_, _, _, _, _)
QueryH(h, conf, path, i, pre) ==
  IF i > Len(path) THEN [node |-> pre, used |-> i - 1]
  ELSE LET c == Locate(h, conf, 1, path[i]) IN
       IF c = 0 THEN [node |-> pre, used |-> i - 1]
       ELSE IF h.ch[c] = 0 THEN [node |-> c, used |-> i]
       ELSE QueryH(h, h.ch[c], path, i + 1, c)
Query2(h, c, path) == IF c = 0 \/ path = <<>> THEN [node |-> 0, used |-> 0] ELSE QueryH(h, c, path, 1, 0)
NamedN(nm, s, key) == SelectSeq(s, LAMBDA x : nm[x] = key)
RECURSIVE QueryTN(_, _, _, _, _, _)
QueryTN(nm, f, L, path, i, pre) ==
  IF i > Len(path) THEN [node |-> pre, used |-> i - 1]
  ELSE LET m == NamedN(nm, L, path[i]) IN
       IF m = <<>> THEN [node |-> pre, used |-> i - 1]
       ELSE IF f.kids[m[1]] = <<>> THEN [node |-> m[1], used |-> i]
       ELSE QueryTN(nm, f, f.kids[m[1]], path, i + 1, m[1])
Query1N(nm, f, c, path) == IF c = 0 \/ path = <<>> THEN [node |-> 0, used |-> 0]
                           ELSE QueryTN(nm, f, RestOf(f, c), path, 1, 0)
Query1(f, c, path) == Query1N(name, f, c, path)

\* mpt_gnode_switch(pri, sec): all links except the children are exchanged
SwitchH(h, a0, b0) ==
  IF a0 = b0 THEN h ELSE
  LET a  == IF h.nx[b0] = a0 THEN b0 ELSE a0
      b  == IF h.nx[b0] = a0 THEN a0 ELSE b0
      pp == h.pa[a] pn == h.nx[a] pq == h.pv[a]
      sp == h.pa[b] sn == h.nx[b] sq == h.pv[b]
  IN IF pn = b
     THEN LET h1 == [h EXCEPT !.pv[b] = pq, !.nx[b] = a, !.pv[a] = b, !.nx[a] = sn]
              h2 == IF sn # 0 THEN [h1 EXCEPT !.pv[sn] = a] ELSE h1
          IN IF pq # 0 THEN [h2 EXCEPT !.nx[pq] = b]
             ELSE IF pp # 0 /\ h.ch[pp] = a THEN [h2 EXCEPT !.ch[pp] = b] ELSE h2
     ELSE LET h1 == [h EXCEPT !.pa[a] = sp, !.nx[a] = sn, !.pv[a] = sq,
                              !.pa[b] = pp, !.nx[b] = pn, !.pv[b] = pq]
              h2 == IF sn # 0 THEN [h1 EXCEPT !.pv[sn] = a] ELSE h1
              h3 == IF sq # 0 THEN [h2 EXCEPT !.nx[sq] = a]
                    ELSE IF sp # 0 /\ h2.ch[sp] = b THEN [h2 EXCEPT !.ch[sp] = a] ELSE h2
              h4 == IF pn # 0 THEN [h3 EXCEPT !.pv[pn] = b] ELSE h3
          IN IF pq # 0 THEN [h4 EXCEPT !.nx[pq] = b]
             ELSE IF pp # 0 /\ h4.ch[pp] = a THEN [h4 EXCEPT !.ch[pp] = b] ELSE h4

---------------------------------------------------------------------------
(* name-parametrised copies of the merge of node_move (the names of nodes  *)
(* made during the same call are not in the variable "name" yet)           *)
Locate1N(nm, h, c, key) == LET m == NamedN(nm, Fwd(h, c), key) IN IF m = <<>> THEN 0 ELSE m[1]
RECURSIVE MoveHN(_, _, _, _, _, _)
MoveHN(nm, h, src, dst, last, from) ==
  IF src = 0 THEN [h |-> h, from |-> from]
  ELSE LET curr == Locate1N(nm, h, dst, nm[src]) IN
       IF curr = 0
       THEN LET nsrc == h.nx[src]
                h2   == ByPos(Unlink(h, src), last, 0, src)
            IN MoveHN(nm, h2, nsrc, dst, src, IF from = src THEN nsrc ELSE from)
       ELSE LET h1 == IF h.ch[src] = 0 THEN h
                      ELSE IF h.ch[curr] # 0
                      THEN MoveHN(nm, h, h.ch[src], h.ch[curr], h.ch[curr], h.ch[src]).h
                      ELSE Reparent(h, src, curr)
            IN MoveHN(nm, h1, h1.nx[src], dst, last, from)
RECURSIVE MoveTN(_, _, _, _)
MoveTN(nm, f, rest, dst) ==
  IF rest = <<>> THEN f
  ELSE LET s    == rest[1]
           L    == ListOf(f, dst)
           cand == {i \in IndexOf(L, dst)..Len(L) : nm[L[i]] = nm[s]}
       IN IF cand = {}
          THEN LET f1 == Detach(f, s)
               IN MoveTN(nm, Attach(f1, dst, Len(ListOf(f1, dst)) + 1, s), From(rest, 2), dst)
          ELSE LET c  == L[MinOf(cand)]
                   f1 == IF f.kids[s] = <<>> THEN f
                         ELSE IF f.kids[c] # <<>> THEN MoveTN(nm, f, f.kids[s], f.kids[c][1])
                         ELSE [f EXCEPT !.kids[c] = f.kids[s], !.kids[s] = <<>>]
               IN MoveTN(nm, f1, From(rest, 2), dst)

---------------------------------------------------------------------------
(* a forest description t = <<<<name, value, children>>, ...>> in document *)
(* order: entries [nm, vl, par] (par = index of the parent entry, 0 = top) *)
RECURSIVE FlatF(_, _, _)
FlatF(t, par, off) ==
  IF t = <<>> THEN <<>>
  ELSE LET me   == off + 1
           sub  == FlatF(t[1][3], me, me)
           rest == FlatF(From(t, 2), par, me + Len(sub))
       IN <<[nm |-> t[1][1], vl |-> t[1][2], par |-> par]>> \o sub \o rest
KidsE(E, ids, p) == LET S == SortedSeq({j \in 1..Len(E) : E[j].par = p}) IN [i \in 1..Len(S) |-> ids[S[i]]]
\* node_append.c: the first element of a section is inserted below it, the
\* others are added at the end of the list of their predecessor
RECURSIVE BuildH(_, _, _, _)
BuildH(h, E, ids, i) ==
  IF i > Len(E) THEN h
  ELSE LET x    == ids[i]
           par  == E[i].par
           sibs == {j \in 1..(i - 1) : E[j].par = par}
       IN IF sibs = {}
          THEN BuildH(IF par = 0 THEN h ELSE [h EXCEPT !.ch[ids[par]] = x, !.pa[x] = ids[par]], E, ids, i + 1)
          ELSE BuildH(ByPos(h, ids[MinOf(sibs)], 0, x), E, ids, i + 1)

---------------------------------------------------------------------------
(* actions *)
CanSwitch(a, b) == CanSwap(a, b)
\* Tier 1: the two nodes (with everything below them) exchange their places
Switch(a, b) ==
  /\ CanSwitch(a, b)
  /\ hp' = SwitchH(hp, a, b)
  /\ LET X(s) == [i \in 1..Len(s) |-> IF s[i] = a THEN b ELSE IF s[i] = b THEN a ELSE s[i]] IN
       fo' = [kids |-> [n \in Ids |-> X(fo.kids[n])], tops |-> {X(s) : s \in fo.tops}]
  /\ UNCHANGED <<live, name, val>>
  /\ Ans("switch", [a |-> a, b |-> b], "ok", <<>>, "ok")

TravXA(n, ord, sel, stop) ==
  LET r == RestOf(fo, n) f == Fwd(hp, n) IN
  [ret |-> Visit(Sel2(hp, Order2(hp, n, ord), sel), LAMBDA x : DepthH(hp, f, x), stop),
   t1  |-> Visit(Sel1(fo, Order1(fo, n, ord), sel), LAMBDA x : DepthOf(fo, x) - DepthOf(fo, n), stop)]
TravX(n, ord, sel, stop) ==
  /\ n \in live /\ Same
  /\ Ans("travx", [n |-> n, ord |-> ord, sel |-> sel, stop |-> stop],
         TravXA(n, ord, sel, stop).ret, <<>>, TravXA(n, ord, sel, stop).t1)

SameQ(n, up) ==
  /\ n \in live /\ Same
  /\ Ans("samelevel", [n |-> n, up |-> up], SameLevelH(hp, n, up), <<>>, Same1(fo, n, up))
SubQ(n, up) ==
  /\ n \in live /\ Same
  /\ Ans("sublevel", [n |-> n, up |-> up], SubLevelH(hp, n, up), <<>>, Sub1(fo, n, up))

PathA(n, path) ==
  LET q2 == Query2(hp, n, path) q1 == Query1(fo, n, path) IN
  [ret |-> [node |-> q2.node, rest |-> Len(path) - q2.used],
   t1  |-> [node |-> q1.node, rest |-> Len(path) - q1.used]]
PathQ(n, path) ==
  /\ n \in live /\ Same
  /\ Ans("query", [n |-> n, path |-> path], PathA(n, path).ret, <<>>, PathA(n, path).t1)

\* mpt_node_assign(&list, path, value): the elements of the path that exist
\* (first of that name on each level, from hd on) are followed, the missing
\* ones are made -- the first of them goes to the end of the list the search
\* stopped in, each further one is the only child of its predecessor -- and
\* the last element gets the value.  Result: the new state and that element.
AssignTo(hd, path, v) ==
  LET q    == IF hd = 0 THEN [node |-> 0, used |-> 0] ELSE Query2(hp, hd, path)
      k    == Len(path) - q.used
      ids  == SubSeq(SortedSeq(FreeIds), 1, k)
      new  == Range(ids)
      nm2  == [m \in Ids |-> IF m \in new THEN path[q.used + IndexOf(ids, m)] ELSE name[m]]
  IN IF k = 0
     THEN [ok |-> TRUE, live |-> live, hp |-> hp, fo |-> fo, name |-> name,
           val |-> [val EXCEPT ![q.node] = v], node |-> q.node, first |-> 0]
     ELSE IF Cardinality(FreeIds) < k
     THEN [ok |-> FALSE]
     ELSE
     LET x1    == ids[1]
         first == IF q.node = 0 THEN hd ELSE hp.ch[q.node]
         h1    == IF first # 0 THEN ByPos(hp, first, 0, x1)
                  ELSE IF q.node # 0 THEN [hp EXCEPT !.pa[x1] = q.node, !.ch[q.node] = x1]
                  ELSE hp
         h2    == [h1 EXCEPT !.ch = [m \in Ids |-> IF \E j \in 1..(k - 1) : ids[j] = m
                                                   THEN ids[IndexOf(ids, m) + 1] ELSE h1.ch[m]],
                             !.pa = [m \in Ids |-> IF \E j \in 2..k : ids[j] = m
                                                   THEN ids[IndexOf(ids, m) - 1] ELSE h1.pa[m]]]
         f1    == [fo EXCEPT !.tops = @ \cup {<<x1>>}]
         f2    == IF q.node # 0 THEN AttachChild(f1, q.node, Len(fo.kids[q.node]) + 1, x1)
                  ELSE IF hd # 0 THEN Attach(f1, hd, Len(ListOf(fo, hd)) + 1, x1)
                  ELSE f1
         f3    == [f2 EXCEPT !.kids = [m \in Ids |-> IF \E j \in 1..(k - 1) : ids[j] = m
                                                     THEN <<ids[IndexOf(ids, m) + 1]>> ELSE f2.kids[m]]]
     IN [ok |-> TRUE, live |-> live \cup new, hp |-> h2, fo |-> f3, name |-> nm2,
         val |-> [val EXCEPT ![ids[k]] = v], node |-> ids[k], first |-> x1]

\* a path without value must not exist completely (mpt_meta_set with no value
\* stores the library's default value object: left to property C10)
CanAssign(hd, path, v) ==
  /\ hd = 0 \/ hd \in live
  /\ path # <<>>
  /\ v = 0 => (hd = 0 \/ Query2(hp, hd, path).used < Len(path))
  /\ AssignTo(hd, path, v).ok
Assign(hd, path, v) ==
  /\ CanAssign(hd, path, v)
  /\ LET r == AssignTo(hd, path, v) IN
     /\ live' = r.live /\ hp' = r.hp /\ fo' = r.fo /\ name' = r.name /\ val' = r.val
     /\ Ans("assign", [h |-> hd, path |-> path, val |-> v], r.node, <<>>,
            LET q1 == IF hd = 0 THEN [node |-> 0, used |-> 0] ELSE Query1(fo, hd, path)
            IN IF q1.used = Len(path) THEN q1.node ELSE r.node)

\* mpt_meta_set(&node->_meta, value) / node::set_metatype
SetVal(n, v) ==
  /\ n \in live /\ v # 0
  /\ val' = [val EXCEPT ![n] = v]
  /\ UNCHANGED <<live, hp, name, fo>>
  /\ Ans("setval", [n |-> n, val |-> v], "ok", <<>>, "ok")

\* the process-wide configuration is a top-level list; its head is what the
\* library keeps in nodeGlobal.  mpt_config_set(0, base.path, value) directly
\* (base = <<>>) or through the view mpt_config_global(base): the elements of
\* base, then those of path are made on demand.
IsHead(hd) == hd \in live /\ hp.pa[hd] = 0 /\ hp.pv[hd] = 0
CanCfgSet(hd, base, path, v) ==
  /\ hd = 0 \/ IsHead(hd)
  /\ v # 0 /\ path # <<>>
  /\ AssignTo(hd, base \o path, v).ok
CfgSet(hd, base, path, v) ==
  /\ CanCfgSet(hd, base, path, v)
  /\ LET r == AssignTo(hd, base \o path, v) IN
     /\ live' = r.live /\ hp' = r.hp /\ fo' = r.fo /\ name' = r.name /\ val' = r.val
     /\ LET head == IF hd = 0 THEN r.first ELSE hd IN
        Ans("cfgset", [h |-> hd, base |-> base, path |-> path, val |-> v],
            [r |-> "ok", head |-> head], <<>>, [r |-> "ok", head |-> head])

\* mpt_config_set(0, path, 0): the element at exactly that path is unlinked
\* and released with everything below it
CfgDel(hd, path) ==
  /\ IsHead(hd) /\ path # <<>>
  /\ LET q == Query2(hp, hd, path) q1 == Query1(fo, hd, path) IN
     IF q.node # 0 /\ q.used = Len(path)
     THEN LET x == q.node S == SubT(fo, x) f1 == Detach(fo, x) IN
          /\ Release(S)
          /\ hp' = ZeroH(Unlink(hp, x), S)
          /\ fo' = [kids |-> [m \in Ids |-> IF m \in S THEN <<>> ELSE f1.kids[m]], tops |-> f1.tops \ {<<x>>}]
          /\ LET L == ListOf(fo, hd) IN
             Ans("cfgdel", [h |-> hd, path |-> path],
                 [r |-> 1, head |-> IF x = hd THEN hp.nx[hd] ELSE hd], SortedSeq(S),
                 [r |-> IF q1.used = Len(path) THEN 1 ELSE 0,
                  head |-> IF q1.node = hd THEN (IF Len(L) > 1 THEN L[2] ELSE 0) ELSE hd])
     ELSE /\ UNCHANGED <<live, hp, name, val, fo>>
          /\ Ans("cfgdel", [h |-> hd, path |-> path], [r |-> 0, head |-> hd], <<>>,
                 [r |-> IF q1.node # 0 /\ q1.used = Len(path) THEN 1 ELSE 0, head |-> hd])

\* mpt_parse_node(n, text, format) ["merge"] / mpt_node_parse(n, file, ...)
\* ["replace"] with a text that denotes forest t.  The nodes of t are made in
\* document order.  replace: they become the children of n, the former
\* children are released.  merge: former children whose name the text does
\* not have on that level are kept behind the new ones (mpt_node_move), the
\* others are superseded and released.
CanParse(n, t) == n \in live /\ Cardinality(FreeIds) >= Len(FlatF(t, 0, 0))
ParseTo(n, t, mode) ==
  LET E    == FlatF(t, 0, 0)
      ids  == SubSeq(SortedSeq(FreeIds), 1, Len(E))
      new  == Range(ids)
      nm2  == [m \in Ids |-> IF m \in new THEN E[IndexOf(ids, m)].nm ELSE name[m]]
      vl2  == [m \in Ids |-> IF m \in new THEN E[IndexOf(ids, m)].vl ELSE val[m]]
      R    == KidsE(E, ids, 0)
      h1   == BuildH(hp, E, ids, 1)
      f1   == [kids |-> [m \in Ids |-> IF m \in new THEN KidsE(E, ids, IndexOf(ids, m)) ELSE fo.kids[m]],
               tops |-> IF R = <<>> THEN fo.tops ELSE fo.tops \cup {R}]
      old  == SubT(fo, n) \ {n}
      Hang(h, L, S) == [ZeroH(h, S) EXCEPT !.ch[n] = IF L = <<>> THEN 0 ELSE L[1],
                                           !.pa = [m \in Ids |-> IF InSeq(m, L) THEN n ELSE @[m]]]
      HangF(f, L, S) == [kids |-> [m \in Ids |-> IF m \in S THEN <<>> ELSE IF m = n THEN L ELSE f.kids[m]],
                         tops |-> f.tops \ {L}]
  IN IF mode = "replace" \/ fo.kids[n] = <<>>
     THEN [live |-> (live \cup new) \ old, hp |-> Hang(h1, R, old), fo |-> HangF(f1, R, old),
           name |-> [m \in Ids |-> IF m \in old THEN "" ELSE nm2[m]],
           val |-> [m \in Ids |-> IF m \in old THEN 0 ELSE vl2[m]], freed |-> old]
     ELSE IF R = <<>>
     THEN [live |-> live, hp |-> hp, fo |-> fo, name |-> name, val |-> val, freed |-> {}]
     ELSE LET r  == MoveHN(nm2, h1, h1.ch[n], R[1], R[1], h1.ch[n])
              f2 == MoveTN(nm2, f1, f1.kids[n], R[1])
              S  == SubT(f2, n) \ {n}
              L  == ListOf(f2, R[1])
          IN [live |-> (live \cup new) \ S, hp |-> Hang(r.h, L, S), fo |-> HangF(f2, L, S),
              name |-> [m \in Ids |-> IF m \in S THEN "" ELSE nm2[m]],
              val |-> [m \in Ids |-> IF m \in S THEN 0 ELSE vl2[m]], freed |-> S]
Parse(n, t, mode) ==
  /\ CanParse(n, t)
  /\ LET r == ParseTo(n, t, mode) IN
     /\ live' = r.live /\ hp' = r.hp /\ fo' = r.fo /\ name' = r.name /\ val' = r.val
     /\ Ans("parse", [n |-> n, t |-> t, mode |-> mode, bad |-> 0, failat |-> 0], "ok", SortedSeq(r.freed), "ok")

\* what a call that changes nothing leaves behind
Untouched(a, arg, ret, more) ==
  /\ UNCHANGED <<live, hp, name, val, fo>>
  /\ obs' = [a |-> a, arg |-> arg, t1 |-> ret,
             exp |-> [ret |-> ret, freed |-> <<>>, links |-> Links(hp, live), names |-> name, vals |-> val,
                      metas |-> Cardinality({m \in live : val[m] # 0})] @@ more]

\* the text denotes t and then breaks the syntax (bad = 1: a section is closed
\* that was never opened; 2: the input ends inside a section): the parse is
\* refused, the target is as before, nothing made on the way stays allocated
ParseRefused(n, t, mode, bad) ==
  /\ CanParse(n, t)
  /\ Untouched("parse", [n |-> n, t |-> t, mode |-> mode, bad |-> bad, failat |-> 0], "refused", [grow |-> 0])
\* the m-th allocation of the call fails
ParseFail(n, t, mode, m) ==
  /\ CanParse(n, t) /\ m \in 1..Len(FlatF(t, 0, 0))
  /\ Untouched("parse", [n |-> n, t |-> t, mode |-> mode, bad |-> 0, failat |-> m], "refused", [grow |-> 0, fired |-> 1])

\* mpt_node_assign meets an allocation failure: the m-th new element cannot be
\* made (the elements made before it stay: they are linked like any other), or
\* (m = 0) the value object cannot be made (nothing changes)
AssignFail(hd, path, v, m) ==
  /\ CanAssign(hd, path, v)
  /\ LET q == IF hd = 0 THEN [node |-> 0, used |-> 0] ELSE Query2(hp, hd, path)
         k == Len(path) - q.used
         arg == [h |-> hd, path |-> path, val |-> v, failat |-> m]
     IN
     /\ m \in 0..k /\ (m = 0 => v # 0)
     /\ IF m <= 1
        THEN Untouched("assignfail", arg, 0, [fired |-> 1])
        ELSE LET r == AssignTo(hd, SubSeq(path, 1, q.used + m - 1), 0) IN
             /\ live' = r.live /\ hp' = r.hp /\ fo' = r.fo /\ name' = r.name /\ val' = r.val
             /\ obs' = [a |-> "assignfail", arg |-> arg, t1 |-> 0,
                        exp |-> [ret |-> 0, freed |-> <<>>, links |-> Links(hp', live'), names |-> name',
                                 vals |-> val', metas |-> Cardinality({x \in live' : val'[x] # 0}), fired |-> 1]]

\* mpt::add_items(group, children of n) (mpt++/collection.cpp, item_group.cpp):
\* the forest below n read as item descriptions "<kind> <name>" -- a node
\* without value describes a group (its children are its items), one with a
\* value a plain item; a node without name, or of a kind and name that an
\* earlier item of the same group has, describes nothing.  Demanded: the item
\* forest has the shape of the accepted part of the node forest (no item
\* reachable twice), a lookup through the chain of parent relations finds the
\* innermost item of that kind and name, every object made is released once.
ItemKind(x) == IF val[x] # 0 THEN "l" ELSE "g"
RECURSIVE ItemsAcc(_, _, _, _)
ItemsAcc(f, L, i, acc) ==
  IF i > Len(L) THEN acc
  ELSE LET x == L[i] k == ItemKind(x)
           dup == \E j \in 1..Len(acc) : acc[j].name = name[x] /\ acc[j].kind = k
       IN IF name[x] = "" \/ dup THEN ItemsAcc(f, L, i + 1, acc)
          ELSE ItemsAcc(f, L, i + 1, Append(acc, [name |-> name[x], kind |-> k, node |-> x,
                                                  sub |-> IF k = "g" THEN ItemsAcc(f, f.kids[x], 1, <<>>) ELSE <<>>]))
RECURSIVE ItemCount(_)
ItemCount(its) == IF its = <<>> THEN 0 ELSE 1 + ItemCount(its[1].sub) + ItemCount(From(its, 2))
\* objects made on the way: one per node of every list that is read
RECURSIVE ItemMade(_, _)
ItemMade(f, its) == IF its = <<>> THEN 0
                    ELSE (IF its[1].kind = "g" THEN Len(f.kids[its[1].node]) + ItemMade(f, its[1].sub) ELSE 0)
                         + ItemMade(f, From(its, 2))
RECURSIVE NumItems(_, _)
NumItems(its, off) ==
  IF its = <<>> THEN <<>>
  ELSE <<[name |-> its[1].name, kind |-> its[1].kind, idx |-> off + 1, sub |-> NumItems(its[1].sub, off + 1)]>>
       \o NumItems(From(its, 2), off + 1 + ItemCount(its[1].sub))
RECURSIVE ItemTree(_)
ItemTree(its) == [i \in 1..Len(its) |-> <<its[i].name, its[i].kind, ItemTree(its[i].sub)>>]
LookupIn(its, kind, key) ==
  LET m == SelectSeq(its, LAMBDA e : e.kind = kind /\ e.name = key) IN IF m = <<>> THEN 0 ELSE m[1].idx
RECURSIVE ChainFind(_, _, _)
ChainFind(chain, kind, key) ==
  IF chain = <<>> THEN 0
  ELSE LET r == LookupIn(chain[1], kind, key) IN IF r # 0 THEN r ELSE ChainFind(From(chain, 2), kind, key)
RECURSIVE FindsOf(_, _, _)
FindsOf(its, chain, ks) ==
  LET ch == <<its>> \o chain IN
  << <<[i \in 1..Len(ks) |-> ChainFind(ch, "g", ks[i])], [i \in 1..Len(ks) |-> ChainFind(ch, "l", ks[i])]>> >>
  \o Flat([i \in 1..Len(its) |-> IF its[i].kind = "g" THEN FindsOf(its[i].sub, ch, ks) ELSE <<>>])
ItemsA(n, ks, stop) ==
  LET raw  == ItemsAcc(fo, fo.kids[n], 1, <<>>)
      its  == NumItems(raw, 0)
      made == Len(fo.kids[n]) + ItemMade(fo, raw)
  IN [tree |-> ItemTree(its), find |-> FindsOf(its, <<>>, ks),
      visited |-> IF stop = 0 \/ stop > Len(its) THEN Len(its) ELSE stop,
      made |-> made, cleared |-> IF its = <<>> THEN 0 ELSE 1 + ItemCount(its[1].sub),
      released |-> made, alive |-> 0, bad |-> 0]
Items(n, ks, stop) ==
  /\ n \in live /\ Same
  /\ Ans("items", [n |-> n, ks |-> ks, stop |-> stop], ItemsA(n, ks, stop), <<>>, ItemsA(n, ks, stop))

\* mpt::config::root (mpt++/config.cpp, config_item_reserve.c): the values
\* below n are assigned path by path (document order) to a configuration
\* with its own item store; with del = 1 the first top-level element is then
\* removed and the first path assigned once more.  Tier 2 = the item arrays
\* (slots; a removed element is an unused slot that the next new name takes),
\* Tier 1 = the map path -> value.  Demanded of the walk over the store: no
\* name twice among the items of one element (no path reachable twice), a
\* removed element is not reachable, every path has the value assigned last.
RECURSIVE ValPaths(_, _, _)
ValPaths(f, L, pre) ==
  Flat([i \in 1..Len(L) |->
          LET x == L[i] p == Append(pre, name[x]) IN
          IF name[x] = "" THEN <<>>
          ELSE (IF val[x] # 0 THEN <<[p |-> p, v |-> val[x]]>> ELSE <<>>) \o ValPaths(f, f.kids[x], p)])
RECURSIVE SlotChain(_, _, _)
SlotChain(p, i, v) == IF i = Len(p) THEN [used |-> TRUE, name |-> p[i], val |-> v, sub |-> <<>>]
                      ELSE [used |-> TRUE, name |-> p[i], val |-> 0, sub |-> <<SlotChain(p, i + 1, v)>>]
RECURSIVE SlotSet(_, _, _, _)
SlotSet(tr, p, i, v) ==
  LET hit  == {j \in 1..Len(tr) : tr[j].used /\ tr[j].name = p[i]}
      free == {j \in 1..Len(tr) : ~tr[j].used}
  IN IF hit # {}
     THEN LET j == MinOf(hit) IN
          [tr EXCEPT ![j] = IF i = Len(p) THEN [used |-> TRUE, name |-> tr[j].name, val |-> v, sub |-> tr[j].sub]
                            ELSE [used |-> TRUE, name |-> tr[j].name, val |-> tr[j].val, sub |-> SlotSet(tr[j].sub, p, i + 1, v)]]
     ELSE IF free # {} THEN [tr EXCEPT ![MinOf(free)] = SlotChain(p, i, v)]
     ELSE Append(tr, SlotChain(p, i, v))
SlotDel(tr, nm) ==
  LET hit == {j \in 1..Len(tr) : tr[j].used /\ tr[j].name = nm} IN
  IF hit = {} THEN tr ELSE [tr EXCEPT ![MinOf(hit)] = [used |-> FALSE, name |-> "", val |-> 0, sub |-> <<>>]]
RECURSIVE SlotFill(_, _, _)
SlotFill(tr, ps, i) == IF i > Len(ps) THEN tr ELSE SlotFill(SlotSet(tr, ps[i].p, 1, ps[i].v), ps, i + 1)
RECURSIVE SlotOut(_)
SlotOut(tr) == LET u == SelectSeq(tr, LAMBDA e : e.used) IN [i \in 1..Len(u) |-> <<u[i].name, u[i].val, SlotOut(u[i].sub)>>]
\* Tier 1: value of a path in the walk (0 = not there), names unique on every level
RECURSIVE OutGet(_, _, _)
OutGet(o, p, i) == LET m == SelectSeq(o, LAMBDA e : e[1] = p[i]) IN
                   IF m = <<>> THEN 0 ELSE IF i = Len(p) THEN m[1][2] ELSE OutGet(m[1][3], p, i + 1)
RECURSIVE OutUnique(_)
OutUnique(o) == /\ \A i, j \in 1..Len(o) : o[i][1] = o[j][1] => i = j
                /\ \A i \in 1..Len(o) : OutUnique(o[i][3])
LastOf(ps, p) == LET m == SelectSeq(ps, LAMBDA e : e.p = p) IN m[Len(m)].v
CRootA(n, del) ==
  LET ps    == ValPaths(fo, fo.kids[n], <<>>)
      named == SelectSeq(fo.kids[n], LAMBDA x : name[x] # "")
      tr1   == SlotFill(<<>>, ps, 1)
      tr2   == IF del = 1 /\ named # <<>>
               THEN LET t == SlotDel(tr1, name[named[1]]) IN
                    IF ps = <<>> THEN t ELSE SlotSet(t, ps[1].p, 1, ps[1].v)
               ELSE tr1
      out   == SlotOut(tr2)
      gone(p) == del = 1 /\ named # <<>> /\ p[1] = name[named[1]] /\ p # ps[1].p
  IN [ret |-> out,
      t1  |-> IF OutUnique(out) /\ \A k \in 1..Len(ps) : OutGet(out, ps[k].p, 1) = (IF gone(ps[k].p) THEN 0 ELSE IF del = 1 /\ ps[k].p = ps[1].p THEN ps[1].v ELSE LastOf(ps, ps[k].p))
              THEN out ELSE <<"unsound">>]
CRoot(n, del) ==
  /\ n \in live /\ Same
  /\ Ans("croot", [n |-> n, del |-> del], CRootA(n, del).ret, <<>>, CRootA(n, del).t1)

\* mpt::node_relation (mpt++/collection.cpp): a chain of relations along the
\* parent links of n; find(key) answers the value of the first child of that
\* name that has a value, looking at n first, then at each ancestor in turn
RECURSIVE NRelH(_, _, _)
NRelH(h, x, key) ==
  IF x = 0 THEN 0
  ELSE LET m == SelectSeq(Fwd(h, h.ch[x]), LAMBDA c : val[c] # 0 /\ name[c] = key)
       IN IF m # <<>> THEN m[1] ELSE NRelH(h, h.pa[x], key)
RECURSIVE NRel1(_, _, _)
NRel1(f, x, key) ==
  IF x = 0 THEN 0
  ELSE LET m == SelectSeq(f.kids[x], LAMBDA c : val[c] # 0 /\ name[c] = key)
       IN IF m # <<>> THEN m[1] ELSE NRel1(f, OwnerOf(f, x), key)
NRelQ(n, key) ==
  /\ n \in live /\ Same
  /\ Ans("nrel", [n |-> n, key |-> key], NRelH(hp, n, key), <<>>, NRel1(fo, n, key))

\* node::~node on a node created with node::create: unlinked, everything
\* below released, then the node itself (C: mpt_node_unlink + mpt_node_destroy)
Drop(n) ==
  /\ n \in live
  /\ LET S == SubT(fo, n) f1 == Detach(fo, n) IN
     /\ Release(S)
     /\ hp' = ZeroH(Unlink(hp, n), S)
     /\ fo' = [kids |-> [m \in Ids |-> IF m \in S THEN <<>> ELSE f1.kids[m]], tops |-> f1.tops \ {<<n>>}]
     /\ Ans("drop", [n |-> n], "ok", SortedSeq(S), "ok")

\* every tree is released: no block (node, name buffer, value) stays
Teardown ==
  /\ live' = {} /\ hp' = [nx |-> Zero, pv |-> Zero, pa |-> Zero, ch |-> Zero]
  /\ name' = [n \in Ids |-> ""] /\ val' = Zero
  /\ fo' = [kids |-> [n \in Ids |-> <<>>], tops |-> {}]
  /\ obs' = [a |-> "teardown", arg |-> [x |-> 0], t1 |-> "ok",
             exp |-> [ret |-> "ok", freed |-> SortedSeq(live), links |-> [n \in Ids |-> <<>>],
                      names |-> [n \in Ids |-> ""], vals |-> Zero, metas |-> 0, blocks |-> 0]]

\* A tree produced by a subsystem this specification does not describe (a
\* decorated text, the configuration loader, ...): the structure found below
\* target n afterwards (n = 0: the top-level lists) is taken over.  Demanded:
\* the released nodes are what left the table, once each, and were below the
\* target; nothing outside the target changed; new nodes are below the target.
\* (WellFormed / OnceInForest / Refines are invariants of the next state.)
AdoptActs == {"parsex", "cfgload", "cfgview"}
FromLinks(lk) == [nx |-> [m \in Ids |-> IF lk[m] = <<>> THEN 0 ELSE lk[m][1]],
                  pv |-> [m \in Ids |-> IF lk[m] = <<>> THEN 0 ELSE lk[m][2]],
                  pa |-> [m \in Ids |-> IF lk[m] = <<>> THEN 0 ELSE lk[m][3]],
                  ch |-> [m \in Ids |-> IF lk[m] = <<>> THEN 0 ELSE lk[m][4]]]
Adopt(a, arg, n, reg, o) ==       \* reg = the nodes the call may change or release; n = the node whose children may change
  LET h2  == FromLinks(o.links)
      lv2 == {m \in Ids : o.links[m] # <<>>}
      f2  == [kids |-> AbsKids(h2), tops |-> AbsTops(h2, lv2)]
  IN
  /\ \A m \in lv2 : \A i \in 1..4 : o.links[m][i] \in lv2 \cup {0}
  /\ ~\E m \in lv2 : Cyclic(h2.nx, m) \/ Cyclic(h2.pa, m)      \* (else the abstraction is not defined)
  /\ live' = lv2 /\ hp' = h2 /\ fo' = f2
  /\ name' = [m \in Ids |-> o.names[m]] /\ val' = [m \in Ids |-> o.vals[m]]
  /\ Range(o.freed) = live \ lv2 /\ Len(o.freed) = Cardinality(live \ lv2)
  /\ (live \ lv2) \subseteq reg
  /\ \A m \in live \ reg : m \in lv2 /\ name'[m] = name[m] /\ val'[m] = val[m]
                          /\ h2.nx[m] = hp.nx[m] /\ h2.pv[m] = hp.pv[m] /\ h2.pa[m] = hp.pa[m]
                          /\ (m # n => h2.ch[m] = hp.ch[m])
  /\ \A m \in lv2 \ live : IF n # 0 THEN m \in SubT(f2, n)
                            ELSE \A x \in live \ reg : RootOf(f2, m) \notin Range(ListOf(f2, RootOf(f2, x)))
  /\ Ans(a, arg, o.ret, o.freed, o.ret)

---------------------------------------------------------------------------
\* the new queries agree in the current state; the name-parametrised merge is
\* the merge of NodeTree
QueryInv2 ==
  /\ \A n \in live :
       /\ \A ord \in Orders4, sel \in Sels, stop \in Stops : TravXA(n, ord, sel, stop).ret = TravXA(n, ord, sel, stop).t1
       /\ \A up \in Ups : SameLevelH(hp, n, up) = Same1(fo, n, up) /\ SubLevelH(hp, n, up) = Sub1(fo, n, up)
       /\ \A p \in Paths : PathA(n, p).ret = PathA(n, p).t1
       /\ \A del \in {0, 1} : CRootA(n, del).ret = CRootA(n, del).t1
       /\ \A key \in Keys : NRelH(hp, n, key) = NRel1(fo, n, key)
  /\ \A s \in live, d \in live : CanMove(s, d) =>
       /\ MoveHN(name, hp, s, d, d, s) = MoveH(hp, s, d, d, s)
       /\ LET L == ListOf(fo, s) r == From(L, IndexOf(L, s)) IN MoveTN(name, fo, r, d) = MoveT(fo, r, d)

Modify2 ==
  \/ \E a \in Ids, b \in Ids : Switch(a, b)
  \/ \E hd \in Ids \cup {0}, p \in APaths, k \in Kinds : Assign(hd, p, k[2])
  \/ \E n \in Ids, k \in Kinds : k[2] # 0 /\ SetVal(n, k[2])
  \/ \E hd \in Ids \cup {0}, p \in APaths, k \in Kinds : CfgSet(hd, <<>>, p, k[2])
  \/ \E hd \in Ids \cup {0}, p \in APaths, k \in Kinds : \E i \in 1..(Len(p) - 1) :
        CfgSet(hd, SubSeq(p, 1, i), SubSeq(p, i + 1, Len(p)), k[2])
  \/ \E hd \in Ids, p \in APaths : CfgDel(hd, p)
  \/ \E n \in Ids, t \in Forests, mode \in {"merge", "replace"} : Parse(n, t, mode)
  \/ \E n \in Ids : Drop(n)
AFails ==
  \/ \E hd \in Ids \cup {0}, p \in APaths, k \in Kinds : \E m \in 0..Len(p) : AssignFail(hd, p, k[2], m)
  \/ Teardown
Fails2 ==
  \/ \E n \in Ids, t \in Forests, mode \in {"merge", "replace"} :
        \/ \E bad \in {1, 2} : ParseRefused(n, t, mode, bad)
        \/ \E m \in 1..3 : ParseFail(n, t, mode, m)
  \/ AFails
ItemCalls == \/ \E n \in Ids, stop \in {0, 1} : Items(n, <<"a", "b", "c">>, stop)
             \/ \E n \in Ids, del \in {0, 1} : CRoot(n, del)
             \/ \E n \in Ids, key \in Keys : NRelQ(n, key)
Query2A ==
  \/ \E n \in Ids, ord \in Orders4, sel \in Sels, stop \in Stops : TravX(n, ord, sel, stop)
  \/ \E n \in Ids, up \in Ups : SameQ(n, up) \/ SubQ(n, up)
  \/ \E n \in Ids, p \in Paths : PathQ(n, p)

NextU == Modify \/ Modify2
SpecU == Init /\ [][NextU]_vars          \* modifying calls (queries: QueryInv, QueryInv2)
NextAll == Modify \/ Modify2 \/ Fails2 \/ Query2A

---------------------------------------------------------------------------
(* action properties *)
NewActs == {"items", "croot", "nrel", "switch", "travx", "samelevel", "sublevel", "query", "assign", "assignfail", "setval",
            "cfgset", "cfgdel", "parse", "drop", "teardown"}

\* released exactly once: the released list is what left the handle table,
\* and only what the call is entitled to release
ReleaseOnce2Step ==
  /\ Range(obs'.exp.freed) = live \ live'
  /\ Len(obs'.exp.freed) = Cardinality(live \ live')
  /\ obs'.a \in {"destroy", "clear"} => ReleaseOnceStep
  /\ obs'.a = "drop" => live \ live' = SubT(fo, obs'.arg.n)
  /\ obs'.a = "cfgdel" =>
        LET q == Query1(fo, obs'.arg.h, obs'.arg.path) IN
        live \ live' = IF q.node # 0 /\ q.used = Len(obs'.arg.path) THEN SubT(fo, q.node) ELSE {}
  /\ obs'.a = "parse" =>
        /\ (live \ live') \subseteq SubT(fo, obs'.arg.n) \ {obs'.arg.n}
        /\ (obs'.exp.ret = "ok" /\ obs'.arg.mode = "replace") => live \ live' = SubT(fo, obs'.arg.n) \ {obs'.arg.n}
        /\ obs'.exp.ret = "refused" => live' = live
  /\ obs'.a = "teardown" => live' = {}
  /\ obs'.a \notin ({"destroy", "clear", "drop", "cfgdel", "parse", "teardown", "init"} \cup AdoptActs) => live \subseteq live'
ReleaseOnce2 == [][obs'.a = "init" \/ ReleaseOnce2Step]_vars

\* "produce tree t": below the target stands the forest the text denotes
\* (replace: exactly t; merge: t's elements first, then former children of
\* other names), nothing outside the target changes, a refused text changes
\* nothing at all
ShapeF(f, nm, vl, L) == [i \in 1..Len(L) |-> Shape(f, nm, vl, L[i])]
ProducedStep ==
  /\ obs'.a = "parse" =>
       LET n == obs'.arg.n t == obs'.arg.t K == fo'.kids[n] IN
       /\ \A m \in live \ SubT(fo, n) : m \in live' /\ fo'.kids[m] = fo.kids[m]
                                       /\ hp'.nx[m] = hp.nx[m] /\ hp'.pv[m] = hp.pv[m]
                                       /\ hp'.pa[m] = hp.pa[m] /\ hp'.ch[m] = hp.ch[m]
       /\ hp'.nx[n] = hp.nx[n] /\ hp'.pv[n] = hp.pv[n] /\ hp'.pa[n] = hp.pa[n]
       /\ obs'.exp.ret = "refused" => (hp' = hp /\ fo' = fo /\ name' = name /\ val' = val)
       /\ (obs'.exp.ret = "ok" /\ (obs'.arg.mode = "replace" \/ fo.kids[n] = <<>>)) => ShapeF(fo', name', val', K) = t
       /\ (obs'.exp.ret = "ok" /\ obs'.arg.mode = "merge" /\ fo.kids[n] # <<>> /\ t # <<>>) =>
            /\ Len(K) >= Len(t)
            /\ \A i \in 1..Len(t) : name'[K[i]] = t[i][1] /\ K[i] \notin live
            /\ \A i \in (Len(t) + 1)..Len(K) : K[i] \in live /\ InSeq(K[i], fo.kids[n])
                                               /\ ~\E j \in 1..Len(t) : t[j][1] = name[K[i]]
            /\ \A i \in 1..Len(fo.kids[n]) :        \* (a former child of a name that occurred before it merges into that one)
                 LET c == fo.kids[n][i] IN
                 ((~\E j \in 1..Len(t) : t[j][1] = name[c]) /\ (~\E j \in 1..(i - 1) : name[fo.kids[n][j]] = name[c]))
                     => InSeq(c, K)
  /\ obs'.a \in {"assign", "cfgset", "assignfail"} =>
       /\ live \subseteq live'
       /\ \A m \in live : name'[m] = name[m] /\ hp'.pa[m] = hp.pa[m] /\ hp'.pv[m] = hp.pv[m]
                          /\ (fo.kids[m] # <<>> => (Len(fo'.kids[m]) >= Len(fo.kids[m]) /\ SubSeq(fo'.kids[m], 1, Len(fo.kids[m])) = fo.kids[m]))
       /\ \A s \in fo.tops : \E s2 \in fo'.tops : Len(s2) >= Len(s) /\ SubSeq(s2, 1, Len(s)) = s
  /\ obs'.a \in {"assign", "cfgset"} =>
       LET hd == obs'.arg.h
           p  == IF obs'.a = "cfgset" THEN obs'.arg.base \o obs'.arg.path ELSE obs'.arg.path
           st == IF hd # 0 THEN hd ELSE IF obs'.a = "cfgset" THEN obs'.exp.ret.head
                 ELSE RootOf(fo', obs'.exp.ret)
           q  == Query1N(name', fo', st, p)
       IN q.used = Len(p) /\ val'[q.node] = obs'.arg.val
          /\ (obs'.a = "assign" => q.node = obs'.exp.ret)
Produced == [][ProducedStep]_vars

\* mpt_gnode_switch exchanges the places of two subtrees and nothing else
SwitchStep ==
  obs'.a = "switch" =>
    LET a == obs'.arg.a b == obs'.arg.b IN
    /\ \A n \in {a, b} : Shape(fo', name', val', n) = Shape(fo, name, val, n)
    /\ \A n \in live : (a \notin SubT(fo, n) /\ b \notin SubT(fo, n)) => fo'.kids[n] = fo.kids[n]
    /\ OwnerOf(fo', a) = (IF OwnerOf(fo, b) = a THEN b ELSE OwnerOf(fo, b))
    /\ OwnerOf(fo', b) = (IF OwnerOf(fo, a) = b THEN a ELSE OwnerOf(fo, a))
    /\ Cardinality(fo'.tops) = Cardinality(fo.tops)
Switched == [][SwitchStep]_vars
=============================================================================
