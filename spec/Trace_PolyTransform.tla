------------------------- MODULE Trace_PolyTransform -------------------------
(* Trace validation: recorded calls of the real transform / polyline code     *)
(* (arguments + what the code answered) must be a behaviour of PolyTransform  *)
(* in which every reported part satisfies the meaning (PartOKT) and the       *)
(* reported device points satisfy DevOK.  The recorded answer selects the     *)
(* parts; nothing but the property's clauses is demanded of them.             *)
(* Executions are concatenated; each starts with an "init" event.             *)
EXTENDS PolyTransform, Json, IOUtils
VARIABLE l
TraceLog == ndJsonDeserialize(IOEnv.TRACE)

ResetTo(ev) ==
  /\ data' = ev.arg.data /\ data2' = ev.arg.data2 /\ lo' = ev.arg.lo /\ hi' = ev.arg.hi /\ ranged' = (ev.arg.ranged = 1)
  /\ kind' = ev.arg.kind
  /\ Len(ev.arg.kind) \in 1..2 /\ \A d \in 1..Len(ev.arg.kind) : ev.arg.kind[d] \in {"lin+", "lin-", "log", "log2"}
  /\ lim2' = <<ev.arg.lmin2, ev.arg.lmax2>>
  /\ LimitsOK'                       \* the visible range is the given limit rounded outward to whole decades
  /\ pos' = 0 /\ parts' = <<>>
  /\ ev.arg.lim = Limit
  /\ obs' = [a |-> "init", arg |-> [x |-> 0], exp |-> [x |-> 0]]

RECURSIVE BuildT(_, _, _)
BuildT(L, i, s) ==   \* recorded list of <<raw, usr, cut, trim>> -> parts with start and offered count
  IF i > Len(L) THEN <<>>
  ELSE <<[s |-> s, n |-> Tot - s, raw |-> L[i][1], usr |-> L[i][2], cut |-> L[i][3], trim |-> L[i][4]]>>
       \o BuildT(L, i + 1, s + L[i][1])

InsideT(ps) == \A i \in 1..Len(ps) : ps[i].s <= Tot /\ ps[i].raw >= 0 /\ ps[i].usr >= 0
                                     /\ ps[i].cut \in 0..65535 /\ ps[i].trim \in 0..65535

PartsAccepted(ps) ==
  /\ LET bad == {i \in 1..Len(ps) : ~PartOKT(ps[i])} IN     \* diagnostics: the first part that is not acceptable
     bad # {} => PrintT(<<"BADPART", l, CHOOSE i \in bad : \A j \in bad : i <= j>>)
  /\ \A i \in 1..Len(ps) : PartOKT(ps[i])

Step(ev) ==
  CASE ev.a = "init" -> ResetTo(ev)
    [] ev.a = "tapply" ->
         LET ps == BuildT(ev.obs.parts, 1, 0) IN
         /\ InsideT(ps)
         /\ TApply(ps)
         /\ pos' \in Pfx..Tot /\ (ND = 1 => pos' = Len(data))
         /\ PartsAccepted(ps)
    [] ev.a = "tpoly" ->
         LET ps == BuildT(ev.obs.parts, 1, 0) IN
         /\ InsideT(ps)
         /\ ev.obs.ret \in {"ok", "refused"}
         /\ TPoly(ev.obs.ret, ps, ev.obs.pts, ev.obs.ends)
         /\ pos' \in Pfx..Tot /\ (ND = 1 => pos' = Len(data))
         /\ PartsAccepted(ps)
         /\ ev.obs.full = 1 =>
              /\ Len(ev.obs.pts) = Len(ev.obs.ends) /\ Len(ev.obs.pts) <= Len(ps)
              /\ \A i \in 1..Len(ps) : ps[i].usr > 0 => i <= Len(ev.obs.pts)
              /\ LET bad == {i \in 1..Len(ev.obs.pts) : ~DevOK(ps[i], ev.obs.pts[i], ev.obs.ends[i])} IN
                 bad # {} => PrintT(<<"BADDEV", l, CHOOSE i \in bad : \A j \in bad : i <= j>>)
              /\ \A i \in 1..Len(ev.obs.pts) : DevOK(ps[i], ev.obs.pts[i], ev.obs.ends[i])
    [] OTHER -> FALSE

TraceInit ==
  /\ l = 1 /\ data = <<>> /\ data2 = <<>> /\ lo = 0 /\ hi = 0 /\ ranged = TRUE /\ pos = 0 /\ parts = <<>>
  /\ kind = <<"lin+">> /\ lim2 = <<0, 0>>
  /\ obs = [a |-> "none", arg |-> [x |-> 0], exp |-> [x |-> 0]]

TraceNext ==
  /\ l <= Len(TraceLog)
  /\ l' = l + 1
  /\ Step(TraceLog[l])

TraceSpec == TraceInit /\ [][TraceNext]_<<varsT, l>>

TraceAccepted ==
  LET n == TLCGet("stats").diameter - 1 IN
  /\ PrintT(<<"MATCHED", n>>)
  /\ n = Len(TraceLog)
=============================================================================
