---------------------------- MODULE Gen_PipeLog ----------------------------
(* Behaviour export: one JSON line per generated transition of the control *)
(* skeleton (open, quota, composing, counts of messages sent / delimiters  *)
(* in the pipe and in the input queue / messages received).  Shipped       *)
(* LogMax; delivery is "everything the child forwards" (the driver polls   *)
(* until the child waits for input or is gone).                            *)
EXTENDS PipeLog, Json
VARIABLE hist
GenInit == Init /\ hist = <<obs>>
GenNext == Next /\ hist' = Append(hist, obs')
GenSpec == GenInit /\ [][GenNext]_<<vars, hist>>
Skel == <<open, quota, cur.on, cur.done, Len(sent), Zeros(wire), Len(rpend) - Zeros(rpend) > 0, Zeros(rpend), Len(rcvd),
          IF Len(sent) > 0 THEN Len(sent[Len(sent)]) ELSE 0>>
Full == state
Emit == PrintT(<<"BEHAV", ToJson(hist')>>)
Msgs  == {<<>>, <<7>>, <<0, 5, 0>>, <<1, 2, 3, 0, 255, 254>>}
MsgsL == {<<9, 0, 9>>}
L(fp, fn, tp, tn, ty) == [fp |-> fp, fc |-> 65, fn |-> fn, tp |-> tp, tc |-> 66, tn |-> tn, ty |-> ty]
LogsNone == {}
LogsQ == {L(fp, fn, tp, tn, ty) : fp \in {1}, fn \in {0, 3, 250, 251, 252}, tp \in {0, 1}, tn \in {0, 2, 249, 250, 300}, ty \in {3, 2052}}
         \cup {L(0, 0, tp, tn, ty) : tp \in {0, 1}, tn \in {0, 1, 251, 252, 253}, ty \in {0, 2051}}
         \cup {L(1, fn, 0, 0, ty) : fn \in {253, 254}, ty \in {4, 2052}}
LogsS == {L(1, fn, t[1], t[2], 2052) : fn \in {0, 3, 251, 252}, t \in {<<0, 0>>, <<1, 0>>, <<1, 2>>, <<1, 300>>}}
         \cup {L(1, fn, 1, 2, 3) : fn \in {0, 3}}
         \cup {L(0, 0, t[1], t[2], ty) : t \in {<<0, 0>>, <<1, 0>>, <<1, 252>>, <<1, 253>>}, ty \in {0, 2051}}
         \cup {L(1, 253, 0, 0, 4), L(1, 254, 0, 0, 2052), L(1, 250, 1, 1, 2052), L(1, 250, 1, 2, 2052)}
LogsT == {L(fp, fn, tp, tn, ty) : fp \in {1}, fn \in {0, 1, 3, 100, 249, 250, 251, 252, 253, 254}, tp \in {0, 1},
                                  tn \in {0, 1, 2, 3, 100, 248, 249, 250, 251, 252, 253, 300}, ty \in {3, 2052, 32 + 2048 + 16}}
         \cup {L(0, 0, tp, tn, ty) : tp \in {0, 1}, tn \in {0, 1, 250, 251, 252, 253, 254, 400}, ty \in {0, 2051}}
QuotasQ == {[k |-> Unl, j |-> 0], [k |-> 1, j |-> 1], [k |-> 0, j |-> 0], [k |-> 1, j |-> 0], [k |-> 0, j |-> 2]}
QuotasU == {[k |-> Unl, j |-> 0]}
OpsQ == {"bad", "close"}
OpsL == {"log"}
KsQ == {Unl}
=============================================================================
