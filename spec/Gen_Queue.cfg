SPECIFICATION GenSpec
CONSTANTS MaxCap = 4 MaxLen = 5 Word = 8
CONSTRAINT Bound
VIEW Skel
ACTION_CONSTRAINT Emit
CHECK_DEADLOCK FALSE
