SPECIFICATION TraceSpec
CONSTANTS SmallIds = {} Widths = {}
  Texts <- CTexts HRs <- CEmpty
  MaxIn = 100000 Kinds = {} MsgIds = {} NextRVs <- CEmpty Whats <- CEmpty
  MaxQ = 100000 Hows = {} Ops <- CEmpty
INVARIANTS TypeOK Refines OnceOnly GoneNotified NTypeOK ReleasedOnce ListedLive
PROPERTIES DeliveredRight OneHandler CalledWhileReady HandedRight ReleaseCause
POSTCONDITION TraceAccepted
CHECK_DEADLOCK FALSE
