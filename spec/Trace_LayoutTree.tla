--------------------------- MODULE Trace_LayoutTree ---------------------------
(* Seeded longer descriptions.  $TRACE holds one event per description:    *)
(* a list of item parameters (option name + value, value-less option,      *)
(* section header with parents, section end; each with its decoration) and *)
(* a probe -- no text, no expectation.  The items are fed through the      *)
(* actions of LayoutTree (an item whose guard is false -- not writable in  *)
(* the format, outcome left open by the statement, parent unknown, ... --  *)
(* is skipped), which renders the document, builds the heap (Tier 2) and   *)
(* computes what the document denotes (Tier 1).                            *)
(*   pass 1 (event without obs): the case is printed for the driver;       *)
(*   pass 2 (event with obs = what the real layout showed after loading    *)
(*           that text, and after the probe): the step is possible only if *)
(*           the recorded observation is the denoted one.                  *)
EXTENDS LayoutTree, Json, IOUtils
VARIABLES l, d, j, k
(* an event holds a HISTORY of one layout object: arg.docs = list of descriptions [items, ops, reset]; the          *)
(* descriptions are loaded one after the other on the same object ("reset" = layout::reset() before the next one), *)
(* ops = operations on the loaded layout (gset: graph property from text, gbind: the graph binds again)            *)
TraceLog == ndJsonDeserialize(IOEnv.TRACE)
Ev == TraceLog[l]
Doc == Ev.arg.docs[d]
Items == Doc.items

Begin ==
  /\ d = 0
  /\ stack' = EmptyStack
  /\ text' = <<>> /\ heap' = <<LayImg>> /\ cnt' = [secs |-> 0, opts |-> 0, rep |-> 0]
  /\ den' = Exp1(stack') /\ sess' = NoSess
  /\ obs' = [a |-> "none", arg |-> [x |-> 0], exp |-> [ret |-> "ok"]]
  /\ d' = 1 /\ j' = 1 /\ k' = 1 /\ l' = l

ItemAct(it) ==
  CASE it.k = "opt"   -> AddOption(it.name, it.v, it.d)
    [] it.k = "reset" -> AddReset(it.name, it.d)
    [] it.k = "open"  -> OpenSection(it.h, it.d)
    [] it.k = "close" -> CloseSection(it.d)
    [] OTHER -> FALSE
Item ==
  /\ d >= 1 /\ j <= Len(Items)
  /\ LET it == Items[j] IN
       \/ ~sess.on /\ ItemAct(it)
       \/ ~(~sess.on /\ ENABLED ItemAct(it)) /\ UNCHANGED vars
  /\ j' = j + 1 /\ UNCHANGED <<l, d, k>>

OpAct(op) ==
  CASE op.k = "gset"  -> GSet(op.g + 1, op.name, op.v)
    [] op.k = "gbind" -> GBind(op.g + 1)
    [] OTHER -> FALSE
Op ==
  /\ d >= 1 /\ j > Len(Items) /\ k <= Len(Doc.ops)
  /\ LET op == Doc.ops[k] IN
       \/ OpAct(op)
       \/ ~ENABLED OpAct(op) /\ UNCHANGED vars
  /\ k' = k + 1 /\ UNCHANGED <<l, d, j>>

Following ==
  /\ d >= 1 /\ j > Len(Items) /\ k > Len(Doc.ops) /\ d < Len(Ev.arg.docs)
  /\ NextDoc(Doc.reset)
  /\ d' = d + 1 /\ j' = 1 /\ k' = 1 /\ l' = l

(* the complete history and what every step of it must show *)
DocText == RleOfRuns(CT!Cat(text, Closers(stack)))
ProbeOf(p) ==
  IF cnt.secs = 0 \/ p = "none" \/ sess.docs > 0 \/ sess.on THEN <<>>
  ELSE IF p = "cload" THEN << [a |-> "cload", arg |-> [text |-> DocText],
                               exp |-> [ret |-> "ok", items |-> CItems(Fold(stack), Len(Fold(stack)))]] >>
  ELSE IF p = "inst" THEN
       (IF den.ret # "ok" THEN <<>>
        ELSE LET kk == IF cnt.secs % 2 = 0 THEN "axis" ELSE "world" IN
             << [a |-> "inst", arg |-> [kind |-> kk, name |-> InstName],
                 exp |-> [ret |-> "ok", lay |-> den.lay, graphs |-> den.graphs,
                          items |-> Append(den.items, [name |-> L!RLE(InstName), kind |-> kk, p |-> AllView1(kk, Def1T[kk]),
                                                       items |-> <<>>, axes |-> <<>>, worlds |-> <<>>])]] >>)
  ELSE IF p = "props" /\ \E i \in 2..Len(heap) : heap[i].kind = "text" /\ ~UnitXY(heap[i].r) THEN <<>>
  ELSE << [a |-> IF p = "dump" THEN "dump" ELSE "copy", arg |-> IF p = "dump" THEN [x |-> 0] ELSE [mode |-> p],
           exp |-> IF den.ret = "ok" THEN [ret |-> "ok", lay |-> den.lay, items |-> den.items, graphs |-> den.graphs]
                   ELSE [ret |-> "failed"]] >>
Beh == History \o ProbeOf(Ev.arg.probe)

(* projection of a recorded observation onto what the specification speaks about *)
ProjB(b) == [i \in 1..Len(b) |-> [name |-> b[i].name, kind |-> b[i].kind, p |-> b[i].p]]
RECURSIVE ProjItems(_)
ProjItems(its) == [i \in 1..Len(its) |->
                     [name |-> its[i].name, kind |-> its[i].kind, p |-> its[i].p, items |-> ProjItems(its[i].items),
                      axes |-> ProjB(its[i].axes), worlds |-> ProjB(its[i].worlds)]]
RECURSIVE ProjC(_)
ProjC(its) == [i \in 1..Len(its) |-> [name |-> its[i].name, kind |-> its[i].kind, p |-> its[i].p, nset |-> its[i].nset,
                                      items |-> ProjC(its[i].items)]]
RECURSIVE CopiesOK(_)
CopiesOK(its) == \A i \in 1..Len(its) : ("cret" \in DOMAIN its[i] => its[i].cret = "ok") /\ CopiesOK(its[i].items)
StepOK(st, o) ==
  /\ o.ret = st.exp.ret
  /\ IF st.a = "cload" THEN ProjC(o.items) = st.exp.items
     ELSE /\ "lay" \in DOMAIN st.exp => \A key \in DOMAIN st.exp.lay : o.lay[key] = st.exp.lay[key]
          /\ "graphs" \in DOMAIN st.exp => o.graphs = st.exp.graphs
          /\ "items" \in DOMAIN st.exp => ProjItems(o.items) = st.exp.items /\ CopiesOK(o.items)
          /\ ("rep" \in DOMAIN st.exp /\ st.exp.rep >= 0) => o.rep = st.exp.rep

Finish ==
  /\ d >= 1 /\ j > Len(Items) /\ k > Len(Doc.ops) /\ d = Len(Ev.arg.docs)
  /\ IF "obs" \in DOMAIN Ev
     THEN /\ Len(Ev.obs) = Len(Beh)
          /\ \A i \in 1..Len(Beh) : StepOK(Beh[i], Ev.obs[i])
          /\ Ev.arg.texts = [i \in 1..Len(Beh) |-> IF "text" \in DOMAIN Beh[i].arg THEN Beh[i].arg.text ELSE <<>>]
     ELSE PrintT(<<"BEHAV", ToJson(Beh)>>)
  /\ TLCSet(1, l)
  /\ UNCHANGED vars
  /\ d' = 0 /\ j' = 1 /\ k' = 1 /\ l' = l + 1

TraceInit ==
  /\ l = 1 /\ d = 0 /\ j = 1 /\ k = 1 /\ TLCSet(1, 0)
  /\ Init

TraceNext == l <= Len(TraceLog) /\ (Begin \/ Item \/ Op \/ Following \/ Finish)
TraceSpec == TraceInit /\ [][TraceNext]_<<vars, l, d, j, k>>

TraceAccepted ==
  LET n == TLCGet(1) IN
  /\ PrintT(<<"MATCHED", n>>)
  /\ n = Len(TraceLog)
=============================================================================
