--------------------------- MODULE Trace_LayoutTree ---------------------------
(* Seeded longer descriptions.  $TRACE holds one event per description:    *)
(* a list of item parameters (option name + value, value-less option,      *)
(* section header with parents, section end; each with its decoration) and *)
(* a probe -- no text, no expectation.  The items are fed through the      *)
(* actions of LayoutTree (an item whose guard is false -- not writable in  *)
(* the format, outcome left open by the statement, parent unknown, ... --  *)
(* is skipped), which renders the document, builds the heap (Tier 2) and   *)
(* computes what the document denotes (Tier 1).                            *)
(*   pass 1 (event without obs): the case is printed for the driver;       *)
(*   pass 2 (event with obs = what the real layout showed after loading    *)
(*           that text, and after the probe): the step is possible only if *)
(*           the recorded observation is the denoted one.                  *)
EXTENDS LayoutTree, Json, IOUtils
VARIABLES l, j
TraceLog == ndJsonDeserialize(IOEnv.TRACE)
Doc == TraceLog[l]
Items == Doc.arg.items

Begin ==
  /\ j = 0
  /\ stack' = << [h |-> NoHdr, body |-> <<>>, id |-> 1] >>
  /\ text' = <<>> /\ heap' = <<LayImg>> /\ cnt' = [secs |-> 0, opts |-> 0, rep |-> 0]
  /\ den' = Exp1(stack')
  /\ obs' = [a |-> "none", arg |-> [x |-> 0], exp |-> [ret |-> "ok"]]
  /\ j' = 1 /\ l' = l

ItemAct(it) ==
  CASE it.k = "opt"   -> AddOption(it.name, it.v, it.d)
    [] it.k = "reset" -> AddReset(it.name, it.d)
    [] it.k = "open"  -> OpenSection(it.h, it.d)
    [] it.k = "close" -> CloseSection(it.d)
    [] OTHER -> FALSE

Item ==
  /\ j >= 1 /\ j <= Len(Items)
  /\ LET it == Items[j] IN
       \/ ItemAct(it)
       \/ ~ENABLED ItemAct(it) /\ UNCHANGED vars
  /\ j' = j + 1 /\ l' = l

(* the complete document and what loading / probing it must show *)
DocText == RleOfRuns(CT!Cat(text, Closers(stack)))
ProbeOf(p) ==
  IF cnt.secs = 0 \/ p = "none" THEN <<>>
  ELSE IF p = "cload" THEN << [a |-> "cload", arg |-> [text |-> DocText],
                               exp |-> [ret |-> "ok", items |-> CItems(Fold(stack), Len(Fold(stack)))]] >>
  ELSE IF p = "inst" THEN
       (IF den.ret # "ok" THEN <<>>
        ELSE LET k == IF cnt.secs % 2 = 0 THEN "axis" ELSE "world" IN
             << [a |-> "inst", arg |-> [kind |-> k, name |-> InstName],
                 exp |-> [ret |-> "ok", lay |-> den.lay, graphs |-> den.graphs,
                          items |-> Append(den.items, [name |-> L!RLE(InstName), kind |-> k, p |-> AllView1(k, Def1T[k]),
                                                       items |-> <<>>, axes |-> <<>>, worlds |-> <<>>])]] >>)
  ELSE IF p = "props" /\ \E i \in 2..Len(heap) : heap[i].kind = "text" /\ ~UnitXY(heap[i].r) THEN <<>>
  ELSE << [a |-> IF p = "dump" THEN "dump" ELSE "copy", arg |-> IF p = "dump" THEN [x |-> 0] ELSE [mode |-> p],
           exp |-> IF den.ret = "ok" THEN [ret |-> "ok", lay |-> den.lay, items |-> den.items, graphs |-> den.graphs]
                   ELSE [ret |-> "failed"]] >>
Beh == << [a |-> "load", arg |-> [text |-> DocText], exp |-> den] >> \o ProbeOf(Doc.arg.probe)

(* projection of a recorded observation onto what the specification speaks about *)
ProjB(b) == [i \in 1..Len(b) |-> [name |-> b[i].name, kind |-> b[i].kind, p |-> b[i].p]]
RECURSIVE ProjItems(_)
ProjItems(its) == [i \in 1..Len(its) |->
                     [name |-> its[i].name, kind |-> its[i].kind, p |-> its[i].p, items |-> ProjItems(its[i].items),
                      axes |-> ProjB(its[i].axes), worlds |-> ProjB(its[i].worlds)]]
RECURSIVE ProjC(_)
ProjC(its) == [i \in 1..Len(its) |-> [name |-> its[i].name, kind |-> its[i].kind, p |-> its[i].p, nset |-> its[i].nset,
                                      items |-> ProjC(its[i].items)]]
RECURSIVE CopiesOK(_)
CopiesOK(its) == \A i \in 1..Len(its) : ("cret" \in DOMAIN its[i] => its[i].cret = "ok") /\ CopiesOK(its[i].items)
StepOK(st, o) ==
  /\ o.ret = st.exp.ret
  /\ st.exp.ret = "ok" =>
       IF st.a = "cload" THEN ProjC(o.items) = st.exp.items
       ELSE /\ o.lay = st.exp.lay /\ o.graphs = st.exp.graphs
            /\ ProjItems(o.items) = st.exp.items /\ CopiesOK(o.items)
            /\ st.a = "load" => o.rep = st.exp.rep

Finish ==
  /\ j > Len(Items)
  /\ IF "obs" \in DOMAIN Doc
     THEN /\ Doc.arg.text = DocText
          /\ Len(Doc.obs) = Len(Beh)
          /\ \A i \in 1..Len(Beh) : StepOK(Beh[i], Doc.obs[i])
     ELSE PrintT(<<"BEHAV", ToJson(Beh)>>)
  /\ TLCSet(1, l)
  /\ UNCHANGED vars
  /\ j' = 0 /\ l' = l + 1

TraceInit ==
  /\ l = 1 /\ j = 0 /\ TLCSet(1, 0)
  /\ Init

TraceNext == l <= Len(TraceLog) /\ (Begin \/ Item \/ Finish)
TraceSpec == TraceInit /\ [][TraceNext]_<<vars, l, j>>

TraceAccepted ==
  LET n == TLCGet(1) IN
  /\ PrintT(<<"MATCHED", n>>)
  /\ n = Len(TraceLog)
=============================================================================
