SPECIFICATION OSpec
CONSTANTS Kinds = {"cxxmeta"}
  TextLens = {0}
  NH = 3 NObj = 3 Max = 4 MaxExtra = 1 MaxTries = 1 AsFound = FALSE
VIEW OView
CONSTRAINT OneHigh
INVARIANTS OTypeOK AliveIffReachable OCountExact ONoDangling OObsAgrees ProxyComplete
PROPERTIES ORefusedUnchanged ODestroyedOnce ONoResurrection MemberReplacedOnce HandleReplacedOnce BindReleasesOld OTeardownClears
CHECK_DEADLOCK FALSE
