SPECIFICATION GenSpec
CONSTANTS Kinds = {"c", "cxx"}
  TextLens = {0}
  NH = 2 NObj = 3 Max = 4 MaxExtra = 1 MaxTries = 1 AsFound = FALSE
  Paths <- APaths
  NodeNames <- QNames
  PrintVias <- NoPaths
VIEW Skel
ACTION_CONSTRAINT Emit
CHECK_DEADLOCK FALSE
