SPECIFICATION GenSpec
CONSTANTS
  Configs <- CfgsTty
  Heads <- HeadsTty
  Levels = {}
  Calls = {}
  TextBytes = {1, 2, 3, 97}
  MaxText = 3
  Ops = {"abort"}
  LogMax = 256
  AsFound = {}
  Chain = FALSE
  GenMax = 12
VIEW GenView
CONSTRAINT GenBound
CHECK_DEADLOCK FALSE
ACTION_CONSTRAINT Emit
