SPECIFICATION GenSpec
CONSTANTS
  Alphabet = {32, 97, 128, 255}
  MaxLen = 3
  MaxFrag = 2
  MaxDst = 0
  MaxDstFrag = 1
  MaxQ = 0
  Ops = {"read", "length", "argv", "arrmsg", "memchr", "memfcn", "memstr", "memtok", "wide"}
  EmptyBases = {"slice", "foreign"}
  ForeignBytes = {255}
  ArrKinds = {"exact", "shared", "roomy"}
  MaxFail = 3
VIEW View
ACTION_CONSTRAINT Emit
CHECK_DEADLOCK FALSE
