------------------------------ MODULE Creators ------------------------------
(***************************************************************************)
(* X30 (extension of C15): the objects the CREATOR functions hand out and   *)
(* what the C library does with them.                                       *)
(*                                                                         *)
(* mpt_node_new, mpt_meta_new and mpt_meta_buffer exist twice: in mptcore   *)
(* (node_new.c, meta_new.c, array/meta_buffer.c) and in libmpt++            *)
(* (node_new.cpp, meta_new.cpp, meta_buffer.cpp).  When libmpt++ comes      *)
(* before libmptcore in the link order its definitions interpose the C ones *)
(* for EVERY caller, also for the calls inside libmptcore (mpt_node_clone,  *)
(* mpt_meta_set, mpt_node_assign, mpt_node_append, _mpt_geninfo_clone):     *)
(* kind = "cxx".  Without libmpt++: kind = "c".                             *)
(*                                                                         *)
(* Same vocabulary as RefCount (EXTENDS): handles holds[h], counters        *)
(* cnt[o], alive[o], made.  New: class cls[o] of the object                 *)
(*   node   a tree node (owned: one owner, the parent or a handle)          *)
(*   small  text metatype below the size limit of the small implementation  *)
(*          (c: mpt_meta_geninfo, cxx: metatype::basic) -- addref answers 0 *)
(*   bufm   buffer-backed text metatype (c: array/meta_buffer.c, addref     *)
(*          answers 0; cxx: io::buffer::metatype, counted)                  *)
(* and the UNCOUNTED STATIC metatype (value Static = -1 in a handle or a    *)
(* node's metatype slot): mpt_meta_new(0) of libmpt++, mpt_meta_set(.., 0)  *)
(* of mptcore.  addref/clone/unref on it never change or release anything.  *)
(* nmeta[n] = the metatype node n holds, par[n] = its parent.               *)
(*                                                                         *)
(* Demanded (C15 on these objects): a metatype lives exactly as long as a   *)
(* handle or a live node holds it, a node as long as its root is held; the  *)
(* object is released exactly once when the last holder goes (with the      *)
(* subtree and every metatype in it), a refused call changes nothing,       *)
(* replacing a node's metatype releases the old one once, and the static    *)
(* is never released.                                                       *)
(***************************************************************************)
EXTENDS RefCount

VARIABLES cls, nmeta, par,
          nname   \* identifier of node n ("short"/"long": given at creation, "a"/"b": path elements of an assignment)
cvars == <<vars, cls, nmeta, par, nname>>

Static == -1
NodeNames == {"short", "long"}            \* identifier stored inline / separately (narrowed by the exhaustive configurations)
Sizes  == {"small", "big", "buf"}            \* text below / above the small limit through mpt_meta_new; mpt_meta_buffer
ClassOf(sz) == IF sz = "small" THEN "small" ELSE IF sz = "enc" THEN "bufe" ELSE "bufm"
CShare(k, c) == k = "cxx" /\ c = "bufm"      \* addref works
NullOK(k)    == k = "cxx"                    \* mpt_meta_new(0): only the override takes it (the C one reads the value)
MetaCls == {"small", "bufm", "bufe"}
(* "bufe" (size "enc", creator cxx only): a buffer metatype whose message encoder has a message IN PROGRESS -- the   *)
(* refusing state of io::buffer::metatype::clone().  Made by a subclass (uncounted: addref answers 0, unref          *)
(* releases); held by handles only.  clone() answers refused and nothing changes.                                   *)
Busy(t) == t > 0 /\ cls[t] = "bufe"
IsNodeC(o) == o > 0 /\ cls[o] = "node"
IsMetaC(x) == x = Static \/ (x > 0 /\ cls[x] \in MetaCls)

---------------------------------------------------------------------------
(* Tier 1 *)
RECURSIVE Under(_, _, _, _)
Under(pp, o, n, k) == IF o = n THEN TRUE ELSE IF k = 0 \/ pp[o] = 0 THEN FALSE ELSE Under(pp, pp[o], n, k - 1)
SubOf(pp, n)  == {o \in Objs : Under(pp, o, n, NObj)}           \* n and everything below it (dead nodes have par 0)
Held(hl, o)   == \E h \in Handles : hl[h] = o
NodeLive(pp, hl, o) == \E r \in Objs : Held(hl, r) /\ Under(pp, o, r, NObj)
MetaRefs(o)   == Count({h \in Handles : holds[h] = o}) + Count({n \in Objs : alive[n] /\ cls[n] = "node" /\ nmeta[n] = o})

(* Tier 2: counter machine *)
CM0 == [cnt |-> cnt, alive |-> alive, nmeta |-> nmeta, par |-> par, gone |-> <<>>]
CCanRaise(m, o) == CShare(kind, cls[o]) /\ m.alive[o] /\ m.cnt[o] # 0 /\ m.cnt[o] # Max
CLower(m, x) ==
  IF x <= 0 THEN m                                               \* nothing, or the static: nothing happens
  ELSE IF m.cnt[x] <= 1 \/ ~CShare(kind, cls[x])
  THEN [m EXCEPT !.cnt[x] = 0, !.alive[x] = FALSE, !.gone = Append(@, x)]
  ELSE [m EXCEPT !.cnt[x] = @ - 1]
KillNode(m, n) ==
  CLower([m EXCEPT !.cnt[n] = 0, !.alive[n] = FALSE, !.gone = Append(@, n), !.nmeta[n] = 0, !.par[n] = 0], m.nmeta[n])
RECURSIVE KillFrom(_, _, _)
KillFrom(m, S, o) == IF o > NObj THEN m ELSE KillFrom(IF o \in S THEN KillNode(m, o) ELSE m, S, o + 1)
DestroySub(m, n)  == KillFrom(m, SubOf(m.par, n), 1)
ClearSub(m, n)    == KillFrom(m, SubOf(m.par, n) \ {n}, 1)
CSetM(m) == cnt' = m.cnt /\ alive' = m.alive /\ nmeta' = m.nmeta /\ par' = m.par

CAnswer(a, arg, ret, gone) ==
  obs' = [a |-> a, arg |-> arg,
          exp |-> [ret   |-> ret,
                   href  |-> holds',
                   alive |-> [o \in Objs |-> Bit(alive'[o])],
                   gone  |-> gone,
                   nmeta |-> nmeta',
                   par   |-> par',
                   badfree |-> 0,
                   quiet |-> IF \A o \in Objs : ~alive'[o] THEN 0 ELSE -1]]

CIdleN == UNCHANGED <<kind, copyh, hascopy, extra, defer, inner, origin, tlen, snd, tries>>
CIdle == CIdleN /\ UNCHANGED nname
CSame == UNCHANGED <<holds, made, cnt, alive, cls, nmeta, par, nname>>

NewObj(m, o, c) == [m EXCEPT !.cnt[o] = 1, !.alive[o] = TRUE]

---------------------------------------------------------------------------
(* mpt_meta_new(value) / mpt_meta_new(0) / mpt_meta_buffer(array) into the empty handle h *)
NewMeta(h, sz) ==
  LET o == made + 1  arg == [h |-> h, sz |-> sz] IN
  /\ holds[h] = 0 /\ CIdle
  /\ IF sz = "null"
     THEN /\ NullOK(kind)
          /\ holds' = [holds EXCEPT ![h] = Static] /\ UNCHANGED <<made, cnt, alive, cls, nmeta, par>>
          /\ CAnswer("newmeta", arg, "ok", <<>>)
     ELSE /\ (sz \in Sizes \/ (sz = "enc" /\ kind = "cxx")) /\ o <= NObj
          /\ made' = o /\ holds' = [holds EXCEPT ![h] = o] /\ cls' = [cls EXCEPT ![o] = ClassOf(sz)]
          /\ CSetM(NewObj(CM0, o, 0))
          /\ CAnswer("newmeta", arg, "ok", <<>>)

(* mpt_node_new + identifier (nm = "short": inline, "long": separate storage) into the empty handle h *)
NewNode(h, nm) ==
  LET o == made + 1 IN
  /\ holds[h] = 0 /\ o <= NObj /\ nm \in NodeNames /\ CIdleN
  /\ nname' = [nname EXCEPT ![o] = nm]
  /\ made' = o /\ holds' = [holds EXCEPT ![h] = o] /\ cls' = [cls EXCEPT ![o] = "node"]
  /\ CSetM(NewObj(CM0, o, 0))
  /\ CAnswer("newnode", [h |-> h, nm |-> nm], "ok", <<>>)

(* clone() of the metatype of handle h into the empty handle g *)
CloneMeta(h, g) ==
  LET t == holds[h]  o == made + 1  arg == [h |-> h, g |-> g] IN
  /\ IsMetaC(t) /\ holds[g] = 0 /\ CIdle
  /\ IF t = Static
     THEN /\ holds' = [holds EXCEPT ![g] = Static] /\ UNCHANGED <<made, cnt, alive, cls, nmeta, par>>
          /\ CAnswer("clonemeta", arg, "ok", <<>>)
     ELSE IF Busy(t)
     THEN CSame /\ CAnswer("clonemeta", arg, "refused", <<>>)
     ELSE /\ o <= NObj
          /\ made' = o /\ holds' = [holds EXCEPT ![g] = o] /\ cls' = [cls EXCEPT ![o] = cls[t]]
          /\ CSetM(NewObj(CM0, o, 0))
          /\ CAnswer("clonemeta", arg, "ok", <<>>)

(* addref() of metatype t for the empty handle g *)
RefInto(a, arg, t, g) ==
  IF t = Static
  THEN /\ holds' = [holds EXCEPT ![g] = Static] /\ UNCHANGED <<made, cnt, alive, cls, nmeta, par>>
       /\ CAnswer(a, arg, "ok", <<>>)
  ELSE IF CCanRaise(CM0, t)
  THEN /\ holds' = [holds EXCEPT ![g] = t] /\ cnt' = [cnt EXCEPT ![t] = @ + 1] /\ UNCHANGED <<made, alive, cls, nmeta, par>>
       /\ CAnswer(a, arg, "ok", <<>>)
  ELSE CSame /\ CAnswer(a, arg, "refused", <<>>)
AddRef(h, g) ==
  /\ IsMetaC(holds[h]) /\ holds[g] = 0 /\ CIdle
  /\ RefInto("addref", [h |-> h, g |-> g], holds[h], g)
(* ... of the metatype node n holds *)
TakeMeta(n, g) ==
  /\ IsNodeC(n) /\ alive[n] /\ nmeta[n] # 0 /\ holds[g] = 0 /\ CIdle
  /\ RefInto("takemeta", [n |-> n, g |-> g], nmeta[n], g)

(* unref() through handle h *)
Unref(h) ==
  LET t == holds[h]  m == CLower(CM0, t) IN
  /\ IsMetaC(t) /\ CIdle
  /\ holds' = [holds EXCEPT ![h] = 0] /\ CSetM(m) /\ UNCHANGED <<made, cls>>
  /\ CAnswer("unref", [h |-> h], "ok", m.gone)

(* mpt_meta_set(&n->_meta, value): assign over what the node holds.  sz = "null": no value, the uncounted default  *)
(* of mptcore.  (A buffer metatype is an iterator: without a value mpt_meta_set resets it instead -- not offered.)  *)
SetValue(n, sz) ==
  LET old == nmeta[n]  o == made + 1  arg == [n |-> n, sz |-> sz] IN
  /\ IsNodeC(n) /\ alive[n] /\ CIdle
  /\ IF sz = "null"
     THEN /\ (old > 0 => cls[old] # "bufm")
          /\ LET m == CLower(CM0, old) IN
             /\ CSetM([m EXCEPT !.nmeta[n] = Static]) /\ UNCHANGED <<holds, made, cls>>
             /\ CAnswer("setvalue", arg, "ok", m.gone)
     ELSE /\ sz \in {"small", "big"} /\ o <= NObj
          /\ LET m == CLower(NewObj(CM0, o, 0), old) IN                \* make the new one, then release the old one once
             /\ made' = o /\ cls' = [cls EXCEPT ![o] = ClassOf(sz)] /\ UNCHANGED holds
             /\ CSetM([m EXCEPT !.nmeta[n] = o])
             /\ CAnswer("setvalue", arg, "ok", m.gone)

(* the node takes over the reference of handle h (via "cxx": node::set_metatype, "raw": unref + store as         *)
(* mpt_node_clone does)                                                                                          *)
MoveMeta(n, h, via) ==
  LET t == holds[h]  old == nmeta[n]  m == CLower(CM0, old) IN
  /\ IsNodeC(n) /\ alive[n] /\ IsMetaC(t) /\ ~Busy(t) /\ CIdle
  /\ via \in (IF kind = "cxx" THEN {"cxx", "raw"} ELSE {"raw"})
  /\ holds' = [holds EXCEPT ![h] = 0] /\ UNCHANGED <<made, cls>>
  /\ CSetM([m EXCEPT !.nmeta[n] = t])
  /\ CAnswer("movemeta", [n |-> n, h |-> h, via |-> via], "ok", m.gone)

(* the root node of handle h becomes a child of node p *)
AddChild(p, h) ==
  LET c == holds[h] IN
  /\ IsNodeC(c) /\ IsNodeC(p) /\ alive[p] /\ ~Under(par, p, c, NObj) /\ CIdle
  /\ holds' = [holds EXCEPT ![h] = 0] /\ par' = [par EXCEPT ![c] = p] /\ UNCHANGED <<made, cnt, alive, cls, nmeta>>
  /\ CAnswer("addchild", [p |-> p, h |-> h], "ok", <<>>)
(* mpt_node_unlink: the inner node c becomes a root of its own in the empty handle g *)
Unlink(c, g) ==
  /\ IsNodeC(c) /\ alive[c] /\ par[c] # 0 /\ holds[g] = 0 /\ CIdle
  /\ holds' = [holds EXCEPT ![g] = c] /\ par' = [par EXCEPT ![c] = 0] /\ UNCHANGED <<made, cnt, alive, cls, nmeta>>
  /\ CAnswer("unlink", [c |-> c, g |-> g], "ok", <<>>)

(* mpt_node_clone(n) into the empty handle g: a new node with a clone of the metatype *)
CloneNode(n, g) ==
  LET t == nmeta[n]  o == made + 1  need == IF t > 0 THEN 2 ELSE 1  arg == [n |-> n, g |-> g] IN
  /\ IsNodeC(n) /\ alive[n] /\ holds[g] = 0 /\ made + need <= NObj /\ CIdleN
  /\ nname' = [nname EXCEPT ![o] = nname[n]]                              \* the identifier is copied
  /\ made' = made + need /\ holds' = [holds EXCEPT ![g] = o]
  /\ cls' = [x \in Objs |-> IF x = o THEN "node" ELSE IF t > 0 /\ x = o + 1 THEN cls[t] ELSE cls[x]]
  /\ LET m1 == NewObj(CM0, o, 0)
         m2 == IF t > 0 THEN NewObj(m1, o + 1, 0) ELSE m1 IN
     CSetM([m2 EXCEPT !.nmeta[o] = IF t > 0 THEN o + 1 ELSE t])
  /\ CAnswer("clonenode", arg, "ok", <<>>)

(* mpt++/std_cout.cpp: the metatype of handle h (or the static) is printed to a std::ostream as a convertable.     *)
(* Printing is no holder: nothing changes (whether the text comes out is not C15's matter: ret "any")              *)
PrintVias == {"conv"}                                                    \* (narrowed to {} by the larger configurations)
PrintMeta(h, via) ==
  /\ kind = "cxx" /\ via \in PrintVias /\ IsMetaC(holds[h]) /\ CIdle
  /\ CSame /\ CAnswer("print", [h |-> h, via |-> via], "any", <<>>)

(* mpt_node_assign(&n->children, path, value) as the configuration's assign does it below a base node: the path  *)
(* (elements "a", "b") is followed as far as it exists; a complete match is assigned over (mpt_meta_set), for the  *)
(* missing rest the metatype is made first (mpt_meta_new), then one node per element (mpt_node_new), the last one *)
(* takes the metatype.  Not offered while two siblings on the way carry the same identifier (which one is found   *)
(* is a matter of sibling order, not of reference counts).                                                        *)
PathOf(p) == CASE p = "a" -> <<"a">> [] p = "b" -> <<"b">> [] p = "a.b" -> <<"a", "b">> [] p = "b.a" -> <<"b", "a">> [] OTHER -> <<>>
Paths == {"a", "b", "a.b", "b.a"}          \* (the exhaustive configurations narrow Paths and NodeNames)
Named(cur, e) == {c \in Objs : alive[c] /\ cls[c] = "node" /\ par[c] = cur /\ nname[c] = e}
RECURSIVE Walk(_, _)
Walk(cur, p) == IF p = <<>> THEN [at |-> cur, rest |-> <<>>, amb |-> FALSE]
                ELSE LET S == Named(cur, p[1]) IN
                     IF S = {} THEN [at |-> cur, rest |-> p, amb |-> FALSE]
                     ELSE IF Cardinality(S) > 1 THEN [at |-> cur, rest |-> p, amb |-> TRUE]
                     ELSE Walk(CHOOSE c \in S : TRUE, SubSeq(p, 2, Len(p)))
Assign(n, p, sz) ==
  LET w == Walk(n, PathOf(p))  arg == [n |-> n, p |-> p, sz |-> sz]  k == Len(w.rest)
      nm == IF sz = "null" THEN 0 ELSE 1                                   \* metatypes made
      mo == made + 1                                                      \* ... it is made first
      first == made + nm + 1 IN                                           \* first new node
  /\ IsNodeC(n) /\ alive[n] /\ p \in Paths /\ ~w.amb /\ sz \in {"small", "big", "null"}
  /\ IF k = 0
     THEN /\ CIdle
          /\ LET t == w.at  old == nmeta[t] IN
             IF sz = "null"
             THEN /\ (old > 0 => cls[old] # "bufm")
                  /\ LET m == CLower(CM0, old) IN
                     /\ CSetM([m EXCEPT !.nmeta[t] = Static]) /\ UNCHANGED <<holds, made, cls>>
                     /\ CAnswer("assign", arg, "ok", m.gone)
             ELSE /\ mo <= NObj
                  /\ LET m == CLower(NewObj(CM0, mo, 0), old) IN
                     /\ made' = mo /\ cls' = [cls EXCEPT ![mo] = ClassOf(sz)] /\ UNCHANGED holds
                     /\ CSetM([m EXCEPT !.nmeta[t] = mo])
                     /\ CAnswer("assign", arg, "ok", m.gone)
     ELSE /\ made + nm + k <= NObj /\ CIdleN
          /\ made' = made + nm + k /\ UNCHANGED holds
          /\ cls' = [x \in Objs |-> IF nm = 1 /\ x = mo THEN ClassOf(sz) ELSE IF x >= first /\ x < first + k THEN "node" ELSE cls[x]]
          /\ nname' = [x \in Objs |-> IF x >= first /\ x < first + k THEN w.rest[x - first + 1] ELSE nname[x]]
          /\ cnt' = [x \in Objs |-> IF x > made /\ x <= made + nm + k THEN 1 ELSE cnt[x]]
          /\ alive' = [x \in Objs |-> IF x > made /\ x <= made + nm + k THEN TRUE ELSE alive[x]]
          /\ par' = [x \in Objs |-> IF x = first THEN w.at ELSE IF x > first /\ x < first + k THEN x - 1 ELSE par[x]]
          /\ nmeta' = [x \in Objs |-> IF x = first + k - 1 /\ nm = 1 THEN mo ELSE nmeta[x]]
          /\ CAnswer("assign", arg, "ok", <<>>)

(* mpt_node_destroy of the root node handle h holds: the subtree and every metatype reference in it *)
DestroyNode(h) ==
  LET c == holds[h]  m == DestroySub(CM0, c) IN
  /\ IsNodeC(c) /\ CIdle
  /\ holds' = [holds EXCEPT ![h] = 0] /\ CSetM(m) /\ UNCHANGED <<made, cls>>
  /\ CAnswer("destroy", [h |-> h], "ok", m.gone)
(* ... of a node that still has a parent: refused *)
DestroyInner(n) ==
  /\ IsNodeC(n) /\ alive[n] /\ par[n] # 0 /\ CIdle
  /\ CSame /\ CAnswer("destroyinner", [n |-> n], "refused", <<>>)
(* mpt_node_clear: everything below n *)
ClearNode(n) ==
  LET m == ClearSub(CM0, n) IN
  /\ IsNodeC(n) /\ alive[n] /\ CIdle
  /\ CSetM(m) /\ UNCHANGED <<holds, made, cls>>
  /\ CAnswer("clear", [n |-> n], "ok", m.gone)

(* ALLOCATION FAILURE as an outcome of the producers (arg.fail = 1: some allocation of the call was refused; the     *)
(* binding sweeps which one).  A producer that answers "refused" has changed nothing: every object alive before is   *)
(* alive with the same count, nothing new stays allocated, nothing is released (not once, let alone twice).  No      *)
(* bound on made: nothing is made.                                                                                   *)
NoMem(a, arg) == CIdle /\ CSame /\ CAnswer(a, arg, "refused", <<>>)
NewMetaNoMem(h, sz)  == holds[h] = 0 /\ sz \in Sizes /\ NoMem("newmeta", [h |-> h, sz |-> sz, fail |-> 1])
NewNodeNoMem(h, nm)  == holds[h] = 0 /\ nm \in NodeNames /\ NoMem("newnode", [h |-> h, nm |-> nm, fail |-> 1])
CloneMetaNoMem(h, g) == holds[h] > 0 /\ IsMetaC(holds[h]) /\ holds[g] = 0 /\ NoMem("clonemeta", [h |-> h, g |-> g, fail |-> 1])
SetValueNoMem(n, sz) == IsNodeC(n) /\ alive[n] /\ sz \in {"small", "big"} /\ NoMem("setvalue", [n |-> n, sz |-> sz, fail |-> 1])
CloneNodeNoMem(n, g) == IsNodeC(n) /\ alive[n] /\ holds[g] = 0 /\ NoMem("clonenode", [n |-> n, g |-> g, fail |-> 1])
AssignNoMem(n, p, sz) ==
  /\ IsNodeC(n) /\ alive[n] /\ p \in Paths /\ sz \in {"small", "big", "null"}
  /\ LET w == Walk(n, PathOf(p)) IN ~w.amb /\ (sz # "null" \/ Len(w.rest) > 0)
  /\ NoMem("assign", [n |-> n, p |-> p, sz |-> sz, fail |-> 1])
NoMemNext ==
  \/ \E h \in Handles, sz \in Sizes : NewMetaNoMem(h, sz)
  \/ \E h \in Handles, nm \in NodeNames : NewNodeNoMem(h, nm)
  \/ \E h \in Handles, g \in Handles : CloneMetaNoMem(h, g)
  \/ \E n \in Objs, sz \in {"small", "big"} : SetValueNoMem(n, sz)
  \/ \E n \in Objs, g \in Handles : CloneNodeNoMem(n, g)
  \/ \E n \in Objs, p \in Paths, sz \in {"small", "big", "null"} : AssignNoMem(n, p, sz)

(* everything is released *)
CTeardownExp(a) ==
  [ret |-> "ok", href |-> [h \in Handles |-> 0], alive |-> [o \in Objs |-> 0], gone |-> AliveSeq(a, 1),
   nmeta |-> [o \in Objs |-> 0], par |-> [o \in Objs |-> 0], badfree |-> 0, quiet |-> 0]
CTeardown ==
  /\ CIdle
  /\ holds' = [h \in Handles |-> 0] /\ cnt' = [o \in Objs |-> 0] /\ alive' = [o \in Objs |-> FALSE]
  /\ nmeta' = [o \in Objs |-> 0] /\ par' = [o \in Objs |-> 0] /\ UNCHANGED <<made, cls>>
  /\ obs' = [a |-> "teardown", arg |-> [x |-> 0], exp |-> CTeardownExp(alive)]

---------------------------------------------------------------------------
CInitObs(k) == [a |-> "init", arg |-> [kind |-> k, nh |-> NH, nobj |-> NObj], exp |-> CTeardownExp([o \in Objs |-> FALSE])]
CInitKind(k) ==
  /\ kind = k /\ tlen = 0
  /\ holds = [h \in Handles |-> 0] /\ copyh = [h \in Handles |-> 0] /\ hascopy = FALSE
  /\ extra = [o \in Objs |-> 0] /\ defer = [o \in Objs |-> 0] /\ made = 0
  /\ inner = [o \in Objs |-> 0] /\ origin = [o \in Objs |-> 0]
  /\ cnt = [o \in Objs |-> 0] /\ alive = [o \in Objs |-> FALSE]
  /\ snd = [o \in Objs |-> TRUE] /\ tries = [o \in Objs |-> 0]
  /\ cls = [o \in Objs |-> "none"] /\ nmeta = [o \in Objs |-> 0] /\ par = [o \in Objs |-> 0]
  /\ nname = [o \in Objs |-> "none"]
  /\ obs = CInitObs(k)
CInit == \E k \in Kinds : CInitKind(k)

CNext ==
  \/ \E h \in Handles, sz \in Sizes \cup {"null", "enc"} : NewMeta(h, sz)
  \/ \E h \in Handles, nm \in NodeNames : NewNode(h, nm)
  \/ \E h \in Handles, g \in Handles : CloneMeta(h, g) \/ AddRef(h, g)
  \/ \E n \in Objs, g \in Handles : TakeMeta(n, g) \/ Unlink(n, g) \/ CloneNode(n, g) \/ AddChild(n, g)
  \/ \E h \in Handles : Unref(h) \/ DestroyNode(h)
  \/ \E n \in Objs, sz \in {"small", "big", "null"} : SetValue(n, sz)
  \/ \E n \in Objs, h \in Handles, via \in {"cxx", "raw"} : MoveMeta(n, h, via)
  \/ \E n \in Objs : DestroyInner(n) \/ ClearNode(n)
  \/ \E n \in Objs, p \in Paths, sz \in {"small", "big", "null"} : Assign(n, p, sz)
  \/ \E h \in Handles, via \in PrintVias : PrintMeta(h, via)
  \/ NoMemNext
  \/ CTeardown

CSpec == CInit /\ [][CNext]_cvars

---------------------------------------------------------------------------
(* invariants *)
CTypeOK ==
  /\ kind \in Kinds /\ made \in 0..NObj
  /\ \A h \in Handles : holds[h] \in -1..made
  /\ \A o \in Objs : cls[o] \in {"none", "node", "small", "bufm", "bufe"} /\ (cls[o] = "none") = (o > made)
  /\ \A o \in Objs : nmeta[o] \in -1..made /\ par[o] \in 0..made /\ cnt[o] \in 0..Max
  /\ \A o \in Objs : nname[o] \in {"none", "short", "long", "a", "b"} /\ (nname[o] # "none" <=> cls[o] = "node")
(* a handle holds a metatype, the static, or the ROOT of a tree; what a node holds is a metatype *)
CShape ==
  /\ \A h \in Handles : holds[h] > 0 /\ cls[holds[h]] = "node" => par[holds[h]] = 0
  /\ \A o \in Objs : (nmeta[o] # 0 \/ par[o] # 0) => (cls[o] = "node" /\ alive[o])
  /\ \A o \in Objs : nmeta[o] > 0 => cls[nmeta[o]] \in MetaCls
  /\ \A o \in Objs : par[o] > 0 => cls[par[o]] = "node"
  /\ \A h \in Handles, g \in Handles : (h # g /\ holds[h] > 0 /\ cls[holds[h]] = "node") => holds[g] # holds[h]
(* the object lives exactly as long as somebody holds it *)
CAliveIffHeld ==
  \A o \in Objs : alive[o] <=> /\ o <= made
                               /\ IF cls[o] = "node" THEN NodeLive(par, holds, o) ELSE MetaRefs(o) > 0
(* the counter is the number of holders; an object that cannot be shared has one *)
CCountExact ==
  \A o \in Objs : (alive[o] /\ cls[o] \in MetaCls) =>
       IF CShare(kind, cls[o]) THEN cnt[o] = MetaRefs(o) ELSE MetaRefs(o) = 1 /\ cnt[o] = 1
CNoDangling ==
  /\ \A h \in Handles : holds[h] > 0 => alive[holds[h]]
  /\ \A o \in Objs : nmeta[o] > 0 => alive[nmeta[o]]
  /\ \A o \in Objs : par[o] > 0 => alive[par[o]]
CObsAgrees == \A o \in Objs : obs.exp.alive[o] = Bit(alive[o])

(* action properties *)
CRefusedUnchanged == [][obs'.exp.ret = "refused" => UNCHANGED <<holds, made, cnt, alive, cls, nmeta, par, nname>>]_cvars
(* an assignment over an existing element releases what the element held once; one that makes elements releases nothing *)
CAssignOnce == [][(obs'.a = "assign" /\ obs'.exp.ret = "ok") =>
                    /\ Len(obs'.exp.gone) <= 1
                    /\ \A o \in Objs : (alive[o] /\ cls[o] = "node") => alive'[o]]_cvars
CDestroyedOnce    == [][\A o \in Objs : (alive[o] /\ ~alive'[o]) <=> (\E i \in 1..Len(obs'.exp.gone) : obs'.exp.gone[i] = o)]_cvars
CGoneOnce         == [][\A i, j \in 1..Len(obs'.exp.gone) : i # j => obs'.exp.gone[i] # obs'.exp.gone[j]]_cvars
CNoResurrection   == [][\A o \in Objs : (o <= made /\ ~alive[o]) => ~alive'[o]]_cvars
(* replacing what a node holds: the old referent is released once, the new one is held *)
CReplacedOnce == [][(obs'.a \in {"setvalue", "movemeta"} /\ obs'.exp.ret = "ok") =>
                      LET n == obs'.arg.n  old == nmeta[n]  new == nmeta'[n] IN
                      /\ (old > 0 /\ old # new => (cnt'[old] = cnt[old] - 1 \/ (~CShare(kind, cls[old]) /\ cnt'[old] = 0)))
                      /\ (new > 0 => alive'[new])]_cvars
(* the static is nobody's object: no call on it changes a counter or releases anything *)
CStaticInert == [][(obs'.a \in {"unref", "addref", "clonemeta"} /\ holds[obs'.arg.h] = Static) =>
                     /\ cnt' = cnt /\ alive' = alive /\ obs'.exp.gone = <<>>]_cvars
(* printing holds nothing *)
CPrintInert == [][obs'.a = "print" => UNCHANGED <<holds, made, cnt, alive, cls, nmeta, par, nname>>]_cvars
CTeardownClears == [][obs'.a = "teardown" => \A o \in Objs : ~alive'[o]]_cvars
=============================================================================
