SPECIFICATION GenSpec
CONSTANTS
  Sources <- SrcQuick
  MaxInst = 2
VIEW View
ACTION_CONSTRAINT Emit
CHECK_DEADLOCK FALSE
