------------------------------- MODULE MC_Iter -------------------------------
(* Exhaustive configuration of Iter; obs is an observation, not state.      *)
EXTENDS IterSources
View == <<src, inst, todo>>
=============================================================================
