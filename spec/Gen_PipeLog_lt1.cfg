SPECIFICATION GenSpec
CONSTANTS NMsg = 1 LogMax = 256 MsgSet <- MsgsL LogArgs <- LogsT Quotas <- QuotasU Ks <- KsQ Ops <- OpsL
VIEW Full
ACTION_CONSTRAINT Emit
CHECK_DEADLOCK FALSE
