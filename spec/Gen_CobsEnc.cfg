SPECIFICATION GenSpec
CONSTANTS
  Kinds <- KindsQ
  Alpha <- AlphaQ
  MaxMsg = 4
  Caps <- CapsZ
  Grows <- GrowsQ
  Pres <- PresG
  CapMax = 8
CONSTRAINT Bound
VIEW Skel
ACTION_CONSTRAINT Emit
CHECK_DEADLOCK FALSE
