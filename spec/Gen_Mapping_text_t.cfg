SPECIFICATION GenSpec
CONSTANTS DimSeq <- Dims4 MaskSeq <- Masks17 CliSeq <- Clis1 DestSeq <- NoSeq PathSeq <- NoSeq Toks <- None
  Impl = "c" WithAll = TRUE Acts <- ActsTxt MaxTab = 4
  ItemSet <- ItemsQ MaxItems = 3 GapSet <- Gaps1 EdgeGaps <- Edge0
  Letters <- None MaxLetters = 0 LetterGaps <- None NodeSet <- None MaxNodes = 0
CONSTRAINT Bound
VIEW Skel
ACTION_CONSTRAINT Emit
CHECK_DEADLOCK FALSE
