SPECIFICATION GenSpecS
CONSTANTS MaxNodes = 4 Kinds <- Kinds1 Pos <- PosU Keys <- KeysQ
          Paths <- Paths1 APaths <- APaths1 Forests <- Forests1 Ups <- UpsQ Stops <- StopsQ
VIEW ShapeView
ACTION_CONSTRAINT EmitU
CHECK_DEADLOCK FALSE
