SPECIFICATION Spec
CONSTANTS Kinds = {"buf", "hmeta", "stream", "geninfo", "cxxref", "bare"}
  TextLens = {0, 249, 250, 1000}
  NH = 3 NObj = 2 Max = 4 MaxExtra = 1 MaxTries = 2 AsFound = FALSE
VIEW View
INVARIANTS TypeOK AliveIffReferenced CountExact NoDangling ObsAgrees
PROPERTIES RefusedUnchanged DestroyedOnce NoResurrection ReplaceOnce NewReferentSurvives TeardownClears
CHECK_DEADLOCK FALSE
