------------------------------ MODULE Trace_Iter ------------------------------
(* Trace validation: recorded calls on real generators/iterators must be a   *)
(* behaviour of Iter in which every answer is acceptable to the meaning      *)
(* (T1Value/T1Advance/T1Reset/T1Clone; doubles within the tolerance of the   *)
(* exact rational).  The create event carries the source record (parameters) *)
(* from which the specification derives the denoted elements.                *)
(* Sources of kind "unknown" (mutated descriptions, non-finite bounds): only *)
(* no fault and self-consistency are demanded -- after a reset, and in a     *)
(* clone, the same calls get the same answers as after creation.             *)
EXTENDS Iter, Json, IOUtils
VARIABLES l, memo
TraceLog == ndJsonDeserialize(IOEnv.TRACE)

Known(s) == s.kind \in {"linear", "range", "factor", "factormax", "boundary", "poly", "values", "text", "buffer", "args"}

Ans(ev) == IF ev.a \in {"value", "consume"} THEN <<ev.a, ev.obs.ret, ev.obs.d>> ELSE <<ev.a, ev.obs.ret, <<>>>>

(* unknown source: answers are compared with the first pass *)
StepU(ev) ==
  LET i == ev.arg.i IN
  /\ i \in 1..Len(memo.k)
  /\ UNCHANGED <<src, inst, todo>>
  /\ obs' = [a |-> ev.a, arg |-> ev.arg, exp |-> ev.obs]
  /\ CASE ev.a \in {"value", "advance", "consume"} ->
            LET k == memo.k[i] IN
            IF k < 0 THEN UNCHANGED memo
            ELSE IF k < Len(memo.ref)
            THEN memo.ref[k + 1] = Ans(ev) /\ memo' = [memo EXCEPT !.k[i] = k + 1]
            ELSE memo' = [ref |-> Append(memo.ref, Ans(ev)), k |-> [memo.k EXCEPT ![i] = k + 1]]
       [] ev.a = "reset" ->
            /\ ev.obs.ret \in {"ok", "error"}
            /\ memo' = [memo EXCEPT !.k[i] = IF ev.obs.ret = "ok" THEN 0 ELSE -1]
       [] ev.a = "clone" ->
            /\ ev.obs.ret \in {"ok", "none"}
            /\ memo' = IF ev.obs.ret = "ok" THEN [memo EXCEPT !.k = Append(memo.k, memo.k[i])] ELSE memo
       [] OTHER -> FALSE

Step(ev) ==
  CASE ev.a = "create" ->
         /\ src' = ev.src /\ todo' = <<>>
         /\ obs' = [a |-> "create", arg |-> ev.arg, src |-> ev.src, exp |-> ev.obs]
         /\ IF Known(ev.src)
            THEN /\ ev.obs.ret = "ok"                    \* a well-formed description is accepted
                 /\ \E c \in Cands(ev.src) : inst' = <<Fresh(c)>>     \* undecided trailing text: either reading
                 /\ memo' = [ref |-> <<>>, k |-> <<>>]
            ELSE /\ ev.obs.ret \in {"ok", "refused"}     \* anything else may be refused
                 /\ inst' = <<>>
                 /\ memo' = [ref |-> <<>>, k |-> IF ev.obs.ret = "ok" THEN <<0>> ELSE <<>>]
    [] ev.a = "nop" ->
         /\ src' = ev.src /\ inst' = <<>> /\ todo' = <<>> /\ memo' = [ref |-> <<>>, k |-> <<>>]
         /\ obs' = [a |-> "nop", arg |-> ev.arg, src |-> ev.src, exp |-> ev.obs]
    [] ev.a = "fill" ->
         /\ UNCHANGED <<src, inst, todo, memo>>
         /\ obs' = [a |-> "fill", arg |-> ev.arg, exp |-> ev.obs]
         /\ LET s == FillSrc(ev.arg.kind, ev.arg.len, ev.arg.ld, ev.arg.a, ev.arg.b, ev.arg.c)
                E == Elems(s)
            IN /\ Len(ev.obs.vals) = Len(E)
               /\ ev.obs.clean = 1          \* nothing but the requested (strided) elements was written
               /\ IF ev.arg.len = 1        \* a single point of a linear profile is one of the bounds; of a boundary profile: not decided
                  THEN ev.arg.kind = "bound" \/ Near(ev.obs.vals[1], ev.arg.a, TolExp(s, ev.arg.a))
                                             \/ Near(ev.obs.vals[1], ev.arg.b, TolExp(s, ev.arg.b))
                  ELSE \A i \in 1..Len(E) : Near(ev.obs.vals[i], E[i], TolExp(s, E[i]))
    [] ev.a \in {"value", "advance", "reset", "clone", "consume"}
         /\ ev.arg.i \notin 1..(IF Known(src) THEN Len(inst) ELSE Len(memo.k)) ->
         \* no such instance (a clone or the source was refused): the driver made no call
         /\ ev.obs.ret = "noinst"
         /\ UNCHANGED <<src, inst, todo, memo>>
         /\ obs' = [a |-> ev.a, arg |-> ev.arg, exp |-> ev.obs]
    [] ev.a \in {"value", "advance", "reset", "clone", "consume"} /\ ~Known(src) -> StepU(ev)
    [] ev.a = "consume" ->
         /\ UNCHANGED memo
         /\ Consume(ev.arg.i, ev.obs.ret, ev.obs.d)
         /\ T1Consume(src, inst[ev.arg.i], ev.obs.ret, ev.obs.d)
    [] ev.a = "value" ->
         /\ ev.arg.i \in 1..Len(inst) /\ UNCHANGED memo
         /\ Value(ev.arg.i, ev.obs.ret, ev.obs.d)
         /\ T1Value(src, inst[ev.arg.i], ev.obs.ret, ev.obs.d)
    [] ev.a = "advance" ->
         /\ ev.arg.i \in 1..Len(inst) /\ UNCHANGED memo
         /\ Advance(ev.arg.i, ev.obs.ret)
         /\ T1Advance(inst[ev.arg.i], ev.obs.ret)
    [] ev.a = "reset" ->
         /\ ev.arg.i \in 1..Len(inst) /\ UNCHANGED memo
         /\ \E seq \in {inst[ev.arg.i].seq, inst[ev.arg.i].alt} : Reset(ev.arg.i, ev.obs.ret, seq)
         /\ T1Reset(ev.obs.ret)
    [] ev.a = "clone" ->
         /\ ev.arg.i \in 1..Len(inst) /\ UNCHANGED memo
         /\ Clone(ev.arg.i, ev.obs.ret, CloneT1(inst[ev.arg.i]))
         /\ T1Clone(ev.obs.ret)
    [] OTHER -> FALSE

TraceInit ==
  /\ l = 1 /\ src = [kind |-> "none"] /\ inst = <<>> /\ todo = <<>>
  /\ memo = [ref |-> <<>>, k |-> <<>>]
  /\ obs = [a |-> "none", arg |-> [x |-> 0], exp |-> [x |-> 0]]

TraceNext ==
  /\ l <= Len(TraceLog)
  /\ l' = l + 1
  /\ UNCHANGED todo
  /\ Step(TraceLog[l])

TraceSpec == TraceInit /\ [][TraceNext]_<<vars, l, memo>>

TraceAccepted ==
  LET n == TLCGet("stats").diameter - 1 IN
  /\ PrintT(<<"MATCHED", n>>)
  /\ n = Len(TraceLog)
=============================================================================
