SPECIFICATION XSpec
CONSTANTS
  Mode = "arr"
  Kinds <- KindsAQ
  Alpha <- AlphaE
  MaxMsg = 2
  MaxMsgs = 2
  Caps <- CapsA
  Grows <- None
  Pres <- None
  DelKs <- Del12
  NextSet <- NextAll
  Shifts <- Sh12
  DMaxLen = 0
  DSlacks <- None
  DGrants <- None
  DStreams <- NoStreams
  DFeeds <- None
  DQs <- None
  DOps <- None
  DMis <- None
  CapMax = 0
VIEW View
INVARIANTS XTypeOK SurvivorsOnly PartialTextX PartialRaw PartialCobs FinDenotesX RefusedX
PROPERTIES AnswerAllowedX DeleteAllowed DeleteClean ReaderView
CHECK_DEADLOCK FALSE
