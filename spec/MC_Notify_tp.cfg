SPECIFICATION NSpec
CONSTANTS SmallIds = {1} Widths = {} MaxTok = 2
  Texts <- CTexts HRs <- CHRsT
  MaxIn = 1 Kinds = {"p", "c", "f"} MsgIds = {1, 200} NextRVs <- CRVs Whats <- CWhats
  MaxQ = 2 Hows = {"shut"} MaxSent = 2 Ops <- OpsP
CONSTRAINT Bound
VIEW View
INVARIANTS TypeOK Refines OnceOnly GoneNotified NTypeOK ReleasedOnce ListedLive InOrderInv
PROPERTIES DeliveredRight OneHandler CalledWhileReady HandedRight ReleaseCause
CHECK_DEADLOCK FALSE
