------------------------------ MODULE Gen_Queue ------------------------------
(* Behaviour export: one JSON line per generated transition of the        *)
(* control skeleton (max, off, len); payload bytes are symmetric.         *)
EXTENDS Queue, Json
VARIABLE hist
GenInit == Init /\ hist = <<obs>>
GenNext == Next /\ hist' = Append(hist, obs')
GenSpec == GenInit /\ [][GenNext]_<<vars, hist>>
Bound == max <= MaxCap
Skel  == <<max, off, len>>
Emit  == PrintT(<<"BEHAV", ToJson(hist')>>)
=============================================================================
