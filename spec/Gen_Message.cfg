SPECIFICATION GenSpec
CONSTANTS
  Alphabet = {0, 32, 34, 97}
  MaxLen = 3
  MaxFrag = 3
  MaxDst = 2
  MaxDstFrag = 2
  MaxQ = 3
  Ops = {"read", "length", "argv", "arrmsg", "memchr", "memfcn", "memstr", "memtok", "memcpy", "append", "qget"}
  EmptyBases = {"slice", "guard"}
  ForeignBytes = {97}
  ArrKinds = {"exact", "shared", "roomy"}
  MaxFail = 4
VIEW View
ACTION_CONSTRAINT Emit
CHECK_DEADLOCK FALSE
