SPECIFICATION FSpec
CONSTANTS Configs <- DirConfigs OptNames <- DirNames SecNames <- DirNames Values <- DirValues
          Decos <- DirDecos MaxNodes = 1 MaxDepth = 1
          FrontEnds = {"folder"} LoadAccs <- MCLoadAccs Pres = {0} MaxLoads = 1 MaxFail = 1 MaxAside = 1
          XNames = {} XValues = {} XDecos = {}
VIEW FView
INVARIANTS FTypeOK Refines
PROPERTIES Atomic Faithful
CHECK_DEADLOCK FALSE
