SPECIFICATION SpecX
CONSTANTS Names <- NamesMB Depth = 3 Vals <- ValsX Sep = 46 Design = "list" Base <- BaseA MaxSlots = 6
  Ends <- Ends0 Strs <- None Seps <- None Asgs <- None Elems <- None
  Configs <- DefaultOnly OptNames <- OptA SecNames <- None Values <- ValsDocX Decos <- Decos1 MaxNodes = 1 MaxDepth = 1
  Routes <- RAll Cfgs <- CfgTNV SingleKinds <- SKBoth PrePaths <- PreC
  LoadKinds <- LoadB TwoFiles = TRUE EnvCalls <- EnvT ArgCalls <- ArgsT ClearLists <- ClearT
  MsgSets <- MSetT MsgGets <- MGetT NodeBases <- BasesT FputSeps <- None
  MaxOps = 2 MaxArr = 2 SingleWhen = "any" QuoteSet <- AllQuotes Observe = FALSE
CONSTRAINT Bound
VIEW ViewF
INVARIANTS Refines PrefixClosed
PROPERTIES ArrivalProp SingleProp
CHECK_DEADLOCK FALSE
