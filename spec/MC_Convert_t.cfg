SPECIFICATION MCSpec
CONSTANTS
  LBits = 4
  TypeTab <- ScaledTypes
  GraphLo = 1 GraphHi = 2 MaxBits = 6
  Apis = {"data", "value", "iter"}
  TextApis = {"cint", "number", "string"}
  TextDsts = {"b", "y", "n", "x", "t"}
  Bases = {0, 8, 10, 16, 36}
  Alphabet = {32, 45, 43, 48, 49, 55, 57, 120, 102, 122}
  TextLen = 4
  ConverseDsts = {"f", "d"}
  ConverseSrcs = {"c", "b", "y", "n", "q", "i", "u", "x", "t", "l", "f", "d", "e"}
INVARIANTS TypeOK DesignSound AllowedSound NeighbourExact DesignUseful
CHECK_DEADLOCK FALSE
