--------------------------- MODULE Trace_FramedPeek ---------------------------
(* Trace validation for FramedPeek: Trace_Stream (shipped framings, production sizes) with peek events.  The         *)
(* recorded answer of a peek must be one of the permitted ones (a decoded prefix of the message at the queue front). *)
EXTENDS Trace_Stream, FramedPeek

PResetTo(sh) == ResetTo(sh) /\ held' = FALSE

PStep(ev) ==
  IF ev.a = "init" THEN PResetTo(ev.arg)
  ELSE IF ev.a = "peek" THEN Peek(ev.arg.max, ev.arg.dst)
  ELSE /\ Step(ev)
       /\ held' = IF ev.a = "recv" THEN obs'.exp.ret = "msg" ELSE held

PMatches(ev) ==
  IF ev.a = "peek" THEN obs'.a = "peek" /\ <<ev.obs.n, ev.obs.data>> \in obs'.exp.peek_in
  ELSE /\ (ev.a = "deliver" /\ Len(wire) = 0) \/ (\A k \in DOMAIN obs'.exp : k \in DOMAIN ev.obs)
       /\ Matches(ev)

PTraceInit == TraceInit /\ held = FALSE

PTraceNext ==
  /\ l <= Len(TraceLog)
  /\ l' = l + 1
  /\ LET ev == TraceLog[l] IN PStep(ev) /\ PMatches(ev)

PTraceSpec == PTraceInit /\ [][PTraceNext]_<<pvars, l>>
=============================================================================
