------------------------------ MODULE Message ------------------------------
(***************************************************************************)
(* Messages given as lists of memory fragments (property C17).             *)
(*                                                                         *)
(* Tier 1 (meaning):  flat -- the contiguous byte string the cursor stands *)
(*                    for.  Every operation is defined on it alone         *)
(*                    (operators ending in F).                             *)
(* Tier 2 (design):   cur/cont mirror struct message {base,used} and       *)
(*                    {cont,clen}: the rest of the current fragment and    *)
(*                    the continuation fragments.  Operators ending in D   *)
(*                    walk the fragments the way the C code does (cursor   *)
(*                    advance, absolute position = offset in fragment +    *)
(*                    lengths of the preceding fragments, scanner state    *)
(*                    carried over fragment borders).                      *)
(* obs.exp is computed from Tier 1 only; des is what the fragment design   *)
(* answers.  DesignAgrees (checked on every transition) says that no way   *)
(* of cutting the string changes an answer.                                *)
(***************************************************************************)
EXTENDS Integers, Sequences, FiniteSets, TLC

CONSTANTS Alphabet,    \* byte values of the explored strings
          MaxLen,      \* longest explored string
          MaxFrag,     \* most fragments of a message
          MaxDst,      \* largest total size of a copy destination
          MaxDstFrag,  \* most fragments of a copy destination
          MaxQ,        \* largest queue capacity for message_get
          Ops,         \* enabled operation families
          EmptyBases,  \* where the base of a zero-length fragment points: "slice" (own block), "null",
                       \* "guard" (inaccessible page), "foreign" (unrelated memory filled with ForeignBytes)
          ForeignBytes,\* byte values the unrelated memory behind an empty fragment is filled with
          ArrKinds,    \* arrays a message is appended to: "exact" (no buffer / buffer exactly full),
                       \* "shared" (buffer with a second owner), "roomy" (spare capacity for the message)
          MaxFail      \* allocation failure is injected at the k-th allocation of an append, k <= MaxFail

VARIABLES flat,        \* Tier 1
          cur, cont,   \* Tier 2
          mode,        \* "blank" before the first message, then "msg"
          ebase,       \* <<kind, fill>>: what the bases of zero-length fragments point to (no meaning:
                       \* no operator below looks at it -- a length of zero says "nothing to read here")
          obs, des
vars == <<flat, cur, cont, mode, ebase, obs, des>>

---------------------------------------------------------------------------
(* bytes and classes (C locale) *)
Space    == {9, 10, 11, 12, 13, 32}          \* isspace()
Graph    == 33..126                          \* isgraph()
NotSpace == (0..255) \ Space
Quotes   == {39, 34}
High     == 128..255                         \* bytes a signed char holds as negative values
ByteOf(t) == t % 256                         \* an int token stands for this byte (memchr() semantics)
White    == <<9, 32, 10, 13, 11>>            \* "\t \n\r\v" of message_argv.c
Fill     == 238                              \* initial content of a copy destination

Min(a, b)    == IF a < b THEN a ELSE b
Range(s)     == {s[i] : i \in DOMAIN s}
FirstN(s, n) == SubSeq(s, 1, Min(n, Len(s)))
Drop(s, n)   == SubSeq(s, Min(n, Len(s)) + 1, Len(s))
Fills(n)     == [i \in 1..n |-> Fill]

RECURSIVE Flat(_)
Flat(fr) == IF fr = <<>> THEN <<>> ELSE Head(fr) \o Flat(Tail(fr))

RECURSIVE CutUp(_, _)            \* fragments of data with the given lengths
CutUp(data, cut) ==
  IF cut = <<>> THEN <<>>
  ELSE <<FirstN(data, cut[1])>> \o CutUp(Drop(data, cut[1]), Tail(cut))

RECURSIVE SumSeq(_)
SumSeq(c) == IF c = <<>> THEN 0 ELSE c[1] + SumSeq(Tail(c))
Comps(n, k) == {c \in [1..k -> 0..n] : SumSeq(c) = n}    \* n as k parts >= 0

(* answers *)
Ok(v)   == [ret |-> "ok", val |-> <<v>>]
None    == [ret |-> "none", val |-> <<>>]
Pos1(i) == IF i = 0 THEN None ELSE Ok(i - 1)      \* 1-based index or 0 -> answer

---------------------------------------------------------------------------
(* Tier 1: meaning on the contiguous string *)

RECURSIVE FirstIn(_, _, _)       \* least index >= i whose byte is in set, or 0
FirstIn(s, i, set) ==
  IF i > Len(s) THEN 0 ELSE IF s[i] \in set THEN i ELSE FirstIn(s, i + 1, set)
RECURSIVE LastIn(_, _, _)        \* largest index <= i whose byte is in set, or 0
LastIn(s, i, set) ==
  IF i = 0 THEN 0 ELSE IF s[i] \in set THEN i ELSE LastIn(s, i - 1, set)

MemchrF(s, t)    == Pos1(FirstIn(s, 1, {ByteOf(t)}))          \* token: any int, taken as a byte
MemrchrF(s, t)   == Pos1(LastIn(s, Len(s), {ByteOf(t)}))
MemfcnF(s, set)  == Pos1(FirstIn(s, 1, set))
MemrfcnF(s, set) == Pos1(LastIn(s, Len(s), set))
MemstrF(s, m)    == IF m = <<>> THEN Ok(0) ELSE Pos1(FirstIn(s, 1, Range(m)))
MemrstrF(s, m)   == IF m = <<>> THEN Ok(0) ELSE Pos1(LastIn(s, Len(s), Range(m)))

(* mpt_memtok: position of the first token byte (hastok = 1) or of the     *)
(* first visible byte (hastok = 0); bytes between a byte of esc and its    *)
(* next occurrence not preceded by a backslash are skipped; a byte of com  *)
(* after white space stops the search (hastok = 1) or hides the rest of    *)
(* its line (hastok = 0).  Returns a 1-based index or 0.                   *)
RECURSIVE TokF(_, _, _, _, _)
TokF(s, i, match, prev, p) ==
  IF i > Len(s) THEN 0
  ELSE LET c == s[i] IN
    IF p.esc # {} /\ match # 0
    THEN TokF(s, i + 1, IF c = match /\ prev # 92 THEN 0 ELSE match, c, p)
    ELSE IF p.esc # {} /\ c \in p.esc
    THEN TokF(s, i + 1, c, prev, p)
    ELSE IF p.com # {} /\ c \in p.com /\ prev \in Space
    THEN IF p.hastok = 1 THEN i
         ELSE LET j == FirstIn(s, i + 1, {10}) IN
              IF j = 0 THEN 0 ELSE TokF(s, j + 1, 0, 10, p)
    ELSE IF p.hastok = 1
    THEN IF c \in p.tok THEN i ELSE TokF(s, i + 1, 0, c, p)
    ELSE IF c \notin Space THEN i ELSE TokF(s, i + 1, 0, c, p)

TokPar(hastok, tok, com, esc) ==
  [hastok |-> hastok, tok |-> Range(tok), com |-> Range(com), esc |-> Range(esc)]
MemtokF(s, hastok, tok, com, esc) == Pos1(TokF(s, 1, 0, 32, TokPar(hastok, tok, com, esc)))

(* mpt_message_read *)
ReadF(s, n) == [out |-> FirstN(s, n), rest |-> Drop(s, n)]

(* mpt_memcpy(n, src, dest): k bytes of s replace the first k bytes of d *)
MemcpyF(n, s, d) ==
  IF n > 0 /\ (n > Len(s) \/ n > Len(d))
  THEN [ret |-> "refused", val |-> <<>>, out |-> d]
  ELSE LET k == IF n < 0 THEN Min(Len(s), Len(d)) ELSE n IN
       [ret |-> "ok", val |-> <<k>>, out |-> FirstN(s, k) \o Drop(d, k)]

(* mpt_message_argv: length of the next argument; with a separator other   *)
(* than 0 leading white space is consumed first.                           *)
PosOrLen(s, t) == LET i == FirstIn(s, 1, {ByteOf(t)}) IN IF i = 0 THEN Len(s) ELSE i - 1
ArgvF(s, sep) ==
  IF s = <<>> THEN [ret |-> "missing", val |-> <<>>, rest |-> s]
  ELSE IF sep = 0 THEN [ret |-> "ok", val |-> <<PosOrLen(s, 0)>>, rest |-> s]
  ELSE LET k == FirstIn(s, 1, NotSpace)
           t == IF k = 0 THEN s ELSE Drop(s, k - 1)
           w == IF sep \in Graph THEN 0
                ELSE TokF(t, 1, 0, 32, TokPar(1, White, <<>>, <<39, 34>>))
       IN IF w # 0 THEN [ret |-> "ok", val |-> <<w - 1>>, rest |-> t]
          ELSE [ret |-> "ok", val |-> <<PosOrLen(t, IF sep \in Graph THEN sep ELSE 0)>>, rest |-> t]

(* mpt_array_message: the arguments, each followed by one zero byte *)
RECURSIVE ArgsF(_, _, _, _)
ArgsF(s, sep, acc, n) ==
  LET a == ArgvF(s, sep) IN
  IF a.ret # "ok" \/ (a.val[1] = 0 /\ sep # 0)
  THEN [ret |-> "ok", val |-> <<n>>, out |-> acc]
  ELSE LET len == a.val[1]
           r   == ReadF(a.rest, len)
       IN ArgsF(Drop(r.rest, 1), sep, acc \o r.out \o <<0>>, n + 1)
ArrMsgF(s, sep) == ArgsF(s, sep, <<>>, 0)

(* mpt_message_append: the string follows the array content; when an allocation the call needs  *)
(* fails the call is refused and the array holds what it held before (no part of the message).  *)
AppendF(pre, s, failed) ==
  IF failed THEN [ret |-> "refused", val |-> <<>>, out |-> pre]
  ELSE [ret |-> "ok", val |-> <<>>, out |-> pre \o s]

(* mpt_message_get: take bytes at pos of the queue content *)
GetF(content, pos, take) ==
  IF pos > Len(content) \/ take > Len(content) - pos
  THEN [ret |-> "refused", content |-> <<>>]
  ELSE [ret |-> "ok", content |-> SubSeq(content, pos + 1, pos + take)]

---------------------------------------------------------------------------
(* Tier 2: the same operations on the fragment list *)

Frags == <<cur>> \o cont         \* iovec view of the cursor

RECURSIVE LenSum(_)
LenSum(fr) == IF fr = <<>> THEN 0 ELSE Len(Head(fr)) + LenSum(Tail(fr))

RECURSIVE PreLen(_, _)           \* lengths of the fragments before fragment k
PreLen(fr, k) == IF k <= 1 THEN 0 ELSE Len(fr[k - 1]) + PreLen(fr, k - 1)

\* first fragment (from k upward) with a hit; absolute 1-based position or 0
RECURSIVE FirstFr(_, _, _)
FirstFr(fr, k, set) ==
  IF k > Len(fr) THEN 0
  ELSE LET i == FirstIn(fr[k], 1, set) IN
       IF i # 0 THEN PreLen(fr, k) + i ELSE FirstFr(fr, k + 1, set)
RECURSIVE LastFr(_, _, _)
LastFr(fr, k, set) ==
  IF k = 0 THEN 0
  ELSE LET i == LastIn(fr[k], Len(fr[k]), set) IN
       IF i # 0 THEN PreLen(fr, k) + i ELSE LastFr(fr, k - 1, set)

\* skip to the next newline at or after (k, i); <<k, i>> of it or <<0, 0>>
RECURSIVE LineEnd(_, _, _)
LineEnd(fr, k, i) ==
  IF k > Len(fr) THEN <<0, 0>>
  ELSE IF i > Len(fr[k]) THEN LineEnd(fr, k + 1, 1)
  ELSE IF fr[k][i] = 10 THEN <<k, i>> ELSE LineEnd(fr, k, i + 1)

\* token scanner over the fragments: state (match, prev) survives borders
RECURSIVE TokD(_, _, _, _, _, _)
TokD(fr, k, i, match, prev, p) ==
  IF k > Len(fr) THEN 0
  ELSE IF i > Len(fr[k]) THEN TokD(fr, k + 1, 1, match, prev, p)
  ELSE LET c == fr[k][i] IN
    IF p.esc # {} /\ match # 0
    THEN TokD(fr, k, i + 1, IF c = match /\ prev # 92 THEN 0 ELSE match, c, p)
    ELSE IF p.esc # {} /\ c \in p.esc
    THEN TokD(fr, k, i + 1, c, prev, p)
    ELSE IF p.com # {} /\ c \in p.com /\ prev \in Space
    THEN IF p.hastok = 1 THEN PreLen(fr, k) + i
         ELSE LET e == LineEnd(fr, k, i + 1) IN
              IF e[1] = 0 THEN 0 ELSE TokD(fr, e[1], e[2] + 1, 0, 10, p)
    ELSE IF p.hastok = 1
    THEN IF c \in p.tok THEN PreLen(fr, k) + i ELSE TokD(fr, k, i + 1, 0, c, p)
    ELSE IF c \notin Space THEN PreLen(fr, k) + i ELSE TokD(fr, k, i + 1, 0, c, p)

\* cursor normalisation: an exhausted current fragment is replaced by the next
RECURSIVE Norm(_, _)
Norm(c, ct) == IF c = <<>> /\ ct # <<>> THEN Norm(Head(ct), Tail(ct)) ELSE [cur |-> c, cont |-> ct]

\* mpt_message_read on the cursor
RECURSIVE ReadD(_, _, _, _)
ReadD(c, ct, n, acc) ==
  IF n > Len(c)
  THEN IF ct = <<>> THEN [out |-> acc \o c, cur |-> <<>>, cont |-> <<>>]
       ELSE ReadD(Head(ct), Tail(ct), n - Len(c), acc \o c)
  ELSE LET m == Norm(Drop(c, n), ct) IN
       [out |-> acc \o FirstN(c, n), cur |-> m.cur, cont |-> m.cont]

\* mpt_memcpy: two cursors; dst fragments are rewritten in place
RECURSIVE CopyD(_, _, _, _, _, _)
CopyD(n, src, sk, so, dst, pos) ==     \* pos = <<dk, do>>, so/dof = bytes used of fragment sk/dk
  LET dk == pos[1] dof == pos[2] IN
  IF n = 0 THEN [copied |-> 0, dst |-> dst]
  ELSE IF sk > Len(src) THEN [copied |-> 0, dst |-> dst]
  ELSE IF so >= Len(src[sk]) THEN CopyD(n, src, sk + 1, 0, dst, pos)
  ELSE IF dk > Len(dst) THEN [copied |-> 0, dst |-> dst]
  ELSE IF dof >= Len(dst[dk]) THEN CopyD(n, src, sk, so, dst, <<dk + 1, 0>>)
  ELSE LET left  == Len(src[sk]) - so
           space == Len(dst[dk]) - dof
           lim   == IF n < 0 THEN left ELSE Min(n, left)
           cp    == Min(lim, space)
           piece == SubSeq(src[sk], so + 1, so + cp)
           frag  == [j \in 1..Len(dst[dk]) |->
                       IF j > dof /\ j <= dof + cp THEN piece[j - dof] ELSE dst[dk][j]]
           r     == CopyD(IF n < 0 THEN n ELSE n - cp, src, sk, so + cp,
                          [dst EXCEPT ![dk] = frag], <<dk, dof + cp>>)
       IN [copied |-> cp + r.copied, dst |-> r.dst]
MemcpyD(n, src, dst) ==
  IF n > 0 /\ (n > LenSum(src) \/ n > LenSum(dst))
  THEN [ret |-> "refused", val |-> <<>>, out |-> Flat(dst)]
  ELSE LET r == CopyD(n, src, 1, 0, dst, <<1, 0>>) IN
       [ret |-> "ok", val |-> <<r.copied>>, out |-> Flat(r.dst)]

\* position of the first byte b in the current fragment, else in the
\* continuation (plus the current length), else the total length
NextCharD(c, ct, t) ==
  LET b == ByteOf(t)
      i == FirstIn(c, 1, {b}) IN
  IF i # 0 THEN i - 1
  ELSE LET j == FirstFr(ct, 1, {b}) IN
       IF j # 0 THEN Len(c) + j - 1 ELSE Len(c) + LenSum(ct)

\* fragment of ct holding absolute 1-based position p: <<k, offset in it>>
RECURSIVE Locate(_, _, _)
Locate(ct, k, p) == IF p > Len(ct[k]) THEN Locate(ct, k + 1, p - Len(ct[k])) ELSE <<k, p>>

\* mpt_message_argv on the cursor
ArgvD(c0, ct0, sep) ==
  LET m == Norm(c0, ct0) c == m.cur ct == m.cont IN
  IF c = <<>> THEN [ret |-> "missing", val |-> <<>>, cur |-> c, cont |-> ct]
  ELSE IF sep = 0 THEN [ret |-> "ok", val |-> <<NextCharD(c, ct, 0)>>, cur |-> c, cont |-> ct]
  ELSE LET k  == FirstIn(c, 1, NotSpace)
           p  == IF k # 0 THEN 0 ELSE FirstFr(ct, 1, NotSpace)
           at == IF p # 0 THEN Locate(ct, 1, p) ELSE <<0, 0>>
           c1 == IF k # 0 THEN Drop(c, k - 1)
                 ELSE IF p # 0 THEN Drop(ct[at[1]], at[2] - 1) ELSE c
           t1 == IF k = 0 /\ p # 0 THEN SubSeq(ct, at[1] + 1, Len(ct)) ELSE ct
           w  == IF sep \in Graph THEN 0
                 ELSE TokD(<<c1>> \o t1, 1, 1, 0, 32, TokPar(1, White, <<>>, <<39, 34>>))
       IN IF w # 0 THEN [ret |-> "ok", val |-> <<w - 1>>, cur |-> c1, cont |-> t1]
          ELSE [ret |-> "ok", val |-> <<NextCharD(c1, t1, IF sep \in Graph THEN sep ELSE 0)>>,
                cur |-> c1, cont |-> t1]

\* mpt_array_message on the cursor (a private copy of it)
RECURSIVE ArgsD(_, _, _, _, _)
ArgsD(c, ct, sep, acc, n) ==
  LET a == ArgvD(c, ct, sep) IN
  IF a.ret # "ok" \/ (a.val[1] = 0 /\ sep # 0)
  THEN [ret |-> "ok", val |-> <<n>>, out |-> acc]
  ELSE LET r1 == ReadD(a.cur, a.cont, a.val[1], <<>>)
           r2 == ReadD(r1.cur, r1.cont, 1, <<>>)
       IN ArgsD(r2.cur, r2.cont, sep, acc \o r1.out \o <<0>>, n + 1)

\* mpt_message_append: current fragment, then every continuation fragment
RECURSIVE AppendD(_, _)
AppendD(acc, fr) == IF fr = <<>> THEN acc ELSE AppendD(acc \o Head(fr), Tail(fr))

\* ... on an array of a kind, every non-empty fragment is one mpt_array_append that may have to
\* allocate: always when the buffer is absent, exactly full or shared (the replacement is exactly
\* sized again), only for the absent buffer when there is spare capacity.  k counts down to the
\* allocation that fails (0: none does); a refused fragment rolls the array back to pre.
RECURSIVE NonEmpty(_)
NonEmpty(fr) == IF fr = <<>> THEN 0 ELSE (IF Head(fr) = <<>> THEN 0 ELSE 1) + NonEmpty(Tail(fr))
NeedAlloc(kind, pre, fr) ==
  IF kind = "roomy" THEN (IF pre = <<>> /\ NonEmpty(fr) > 0 THEN 1 ELSE 0) ELSE NonEmpty(fr)
RECURSIVE AppendFailD(_, _, _, _, _)
AppendFailD(pre, acc, fr, kind, k) ==
  IF fr = <<>> THEN [ret |-> "ok", val |-> <<>>, out |-> acc]
  ELSE IF Head(fr) = <<>> THEN AppendFailD(pre, acc, Tail(fr), kind, k)
  ELSE LET alloc == kind # "roomy" \/ acc = <<>> IN
       IF alloc /\ k = 1 THEN [ret |-> "refused", val |-> <<>>, out |-> pre]
       ELSE AppendFailD(pre, acc \o Head(fr), Tail(fr), kind, IF alloc /\ k > 0 THEN k - 1 ELSE k)

\* mpt_message_get on a ring (max, qoff) holding data: first part up to the
\* storage border, second part from the storage start
Ring(max, qoff, data) ==
  [j \in 0..(max - 1) |-> LET k == (j + max - qoff) % max IN IF k < Len(data) THEN data[k + 1] ELSE Fill]
GetD(max, qoff, data, pos, take) ==
  LET n     == Len(data)
      store == Ring(max, qoff, data)
      low   == IF max - qoff < n THEN max - qoff ELSE n
      high  == n - low
      inlow == pos < low
      b1    == IF inlow THEN qoff + pos ELSE pos - low
      l1    == IF inlow THEN low - pos ELSE high - (pos - low)
      h     == IF inlow THEN high ELSE 0
      n1    == Min(take, l1)
  IN IF ~inlow /\ pos - low > high THEN [ret |-> "refused", cur |-> <<>>, cont |-> <<>>, inside |-> TRUE]
     ELSE IF take > l1 + h THEN [ret |-> "refused", cur |-> <<>>, cont |-> <<>>, inside |-> TRUE]
     ELSE [ret |-> "ok",
           cur |-> [i \in 1..n1 |-> store[b1 + i - 1]],
           cont |-> IF take <= l1 THEN <<>> ELSE << [i \in 1..(take - l1) |-> store[i - 1]] >>,
           inside |-> (n1 = 0 \/ b1 + n1 <= max) /\ take - n1 <= max]

---------------------------------------------------------------------------
(* actions: one per public call *)
Exp(r, out, content) == [ret |-> r.ret, val |-> r.val, out |-> out, content |-> content]
Keep == UNCHANGED <<flat, cur, cont, mode, ebase>>

\* a pure question about the fragment list
Ask(a, arg, e, d) ==
  /\ Keep
  /\ obs' = [a |-> a, arg |-> arg, exp |-> Exp(e, <<>>, flat)]
  /\ des' = Exp(d, <<>>, Flat(Frags))

InitMsg(data, cut, eb, fb) ==
  LET fr == CutUp(data, cut) IN
  /\ flat' = data /\ cur' = fr[1] /\ cont' = Tail(fr) /\ mode' = "msg" /\ ebase' = <<eb, fb>>
  /\ obs' = [a |-> "init", arg |-> [data |-> data, cut |-> cut, eb |-> eb, fb |-> fb],
             exp |-> [ret |-> "ok", val |-> <<>>, out |-> <<>>, content |-> data]]
  /\ des' = [ret |-> "ok", val |-> <<>>, out |-> <<>>, content |-> Flat(fr)]

QGet(max, qoff, data, pos, take) ==
  LET e == GetF(data, pos, take)
      d == GetD(max, qoff, data, pos, take)
  IN
  /\ flat' = e.content /\ cur' = d.cur /\ cont' = d.cont /\ mode' = "msg" /\ ebase' = <<"slice", 0>>
  /\ obs' = [a |-> "qget", arg |-> [max |-> max, qoff |-> qoff, data |-> data, pos |-> pos, take |-> take],
             exp |-> [ret |-> e.ret, val |-> <<>>, out |-> <<>>, content |-> e.content]]
  /\ des' = [ret |-> IF d.inside THEN d.ret ELSE "outside", val |-> <<>>, out |-> <<>>,
             content |-> Flat(<<d.cur>> \o d.cont)]

Read(n, dest) ==
  LET e == ReadF(flat, n)
      d == ReadD(cur, cont, n, <<>>)
  IN
  /\ flat' = e.rest /\ cur' = d.cur /\ cont' = d.cont /\ UNCHANGED <<mode, ebase>>
  /\ obs' = [a |-> "read", arg |-> [n |-> n, dest |-> dest],
             exp |-> [ret |-> "ok", val |-> <<Len(e.out)>>,
                      out |-> IF dest = 1 THEN e.out ELSE <<>>, content |-> e.rest]]
  /\ des' = [ret |-> "ok", val |-> <<Len(d.out)>>,
             out |-> IF dest = 1 THEN d.out ELSE <<>>, content |-> Flat(<<d.cur>> \o d.cont)]

Length == Ask("length", [x |-> 0], Ok(Len(flat)), Ok(LenSum(Frags)))

Argv(sep) ==
  LET e == ArgvF(flat, sep)
      d == ArgvD(cur, cont, sep)
  IN
  /\ flat' = e.rest /\ cur' = d.cur /\ cont' = d.cont /\ UNCHANGED <<mode, ebase>>
  /\ obs' = [a |-> "argv", arg |-> [sep |-> sep], exp |-> Exp(e, <<>>, e.rest)]
  /\ des' = Exp(d, <<>>, Flat(<<d.cur>> \o d.cont))

ArrMsg(sep) ==
  LET e == ArrMsgF(flat, sep)
      d == ArgsD(cur, cont, sep, <<>>, 0)
  IN
  /\ Keep
  /\ obs' = [a |-> "arrmsg", arg |-> [sep |-> sep], exp |-> Exp(e, e.out, flat)]
  /\ des' = Exp(d, d.out, Flat(Frags))

Memchr(b)  == Ask("memchr",  [b |-> b], MemchrF(flat, b),  Pos1(FirstFr(Frags, 1, {ByteOf(b)})))
Memrchr(b) == Ask("memrchr", [b |-> b], MemrchrF(flat, b), Pos1(LastFr(Frags, Len(Frags), {ByteOf(b)})))

ClassSet(cls) == CASE cls = "space" -> Space [] cls = "notspace" -> NotSpace
                   [] cls = "quote" -> Quotes [] cls = "zero" -> {0} [] cls = "high" -> High
Memfcn(cls)  == Ask("memfcn",  [cls |-> cls], MemfcnF(flat, ClassSet(cls)),
                    Pos1(FirstFr(Frags, 1, ClassSet(cls))))
Memrfcn(cls) == Ask("memrfcn", [cls |-> cls], MemrfcnF(flat, ClassSet(cls)),
                    Pos1(LastFr(Frags, Len(Frags), ClassSet(cls))))

Memstr(m)  == Ask("memstr",  [set |-> m], MemstrF(flat, m),
                  IF m = <<>> THEN Ok(0) ELSE Pos1(FirstFr(Frags, 1, Range(m))))
Memrstr(m) == Ask("memrstr", [set |-> m], MemrstrF(flat, m),
                  IF m = <<>> THEN Ok(0) ELSE Pos1(LastFr(Frags, Len(Frags), Range(m))))

Memtok(hastok, tok, com, esc) ==
  Ask("memtok", [hastok |-> hastok, tok |-> tok, com |-> com, esc |-> esc],
      MemtokF(flat, hastok, tok, com, esc),
      Pos1(TokD(Frags, 1, 1, 0, 32, TokPar(hastok, tok, com, esc))))

Memcpy(n, dcut) ==
  LET dst == CutUp(Fills(SumSeq(dcut)), dcut)
      e   == MemcpyF(n, flat, Fills(SumSeq(dcut)))
      d   == MemcpyD(n, Frags, dst)
  IN
  /\ Keep
  /\ obs' = [a |-> "memcpy", arg |-> [n |-> n, dcut |-> dcut], exp |-> Exp(e, e.out, flat)]
  /\ des' = Exp(d, d.out, Flat(Frags))

\* fail = k > 0: the k-th allocation of the call fails (none does when the call needs fewer)
MsgAppend(pre, kind, fail) ==
  LET e == AppendF(pre, flat, fail \in 1..NeedAlloc(kind, pre, Frags))
      d == AppendFailD(pre, pre, Frags, kind, fail)
  IN
  /\ Keep
  /\ obs' = [a |-> "append", arg |-> [pre |-> pre, kind |-> kind, fail |-> fail], exp |-> Exp(e, e.out, flat)]
  /\ des' = Exp(d, d.out, Flat(Frags))

---------------------------------------------------------------------------
(* bounded exploration *)
Strings(n) == UNION {[1..k -> Alphabet] : k \in 0..n}
\* int tokens the way C code passes them: a byte >= 0x80 taken from (signed) char data is a
\* negative int; "wide" in Ops adds tokens outside 0..255 for every byte of the alphabet
HighA    == Alphabet \cap High
Signed   == {b - 256 : b \in HighA}
Wide     == IF "wide" \in Ops THEN {b + 256 : b \in Alphabet} \cup {b - 512 : b \in Alphabet} ELSE {}
Seps     == {0, 1, 32, 44} \cup (Alphabet \cap Graph) \cup HighA \cup Signed
Needles  == Alphabet \cup {1} \cup Signed \cup Wide
Classes  == {"space", "notspace", "quote", "zero"} \cup (IF HighA # {} THEN {"high"} ELSE {})
MatchSets == {<<>>, <<32, 34>>, <<97, 0>>, <<1>>} \cup (IF HighA # {} THEN {<<255, 128>>, <<200>>} ELSE {})
TokArgs  == {<<0, <<>> >>, <<1, White>>, <<1, <<97, 44>> >>, <<1, <<>> >>}
              \cup (IF HighA # {} THEN {<<1, <<128, 44>> >>} ELSE {})
ComArgs  == {<<>>} \cup (IF 35 \in Alphabet THEN {<<35>>} ELSE {}) \cup (IF 255 \in Alphabet THEN {<<255>>} ELSE {})
EscArgs  == {<<>>} \cup (IF Alphabet \cap Quotes # {} THEN {<<39, 34>>} ELSE {})
              \cup (IF 128 \in Alphabet THEN {<<128>>} ELSE {})
DstCuts  == UNION {Comps(n, k) : n \in 0..MaxDst, k \in 1..MaxDstFrag}

Init ==
  /\ flat = <<>> /\ cur = <<>> /\ cont = <<>> /\ mode = "blank" /\ ebase = <<"slice", 0>>
  /\ obs = [a |-> "none", arg |-> [x |-> 0],
            exp |-> [ret |-> "ok", val |-> <<>>, out |-> <<>>, content |-> <<>>]]
  /\ des = [ret |-> "ok", val |-> <<>>, out |-> <<>>, content |-> <<>>]

Start ==
  \/ \E data \in Strings(MaxLen), k \in 1..MaxFrag :
        \E cut \in Comps(Len(data), k) :
          \E eb \in (IF \E i \in 1..k : cut[i] = 0 THEN EmptyBases ELSE {"slice"}) :
            \E fb \in (IF eb = "foreign" THEN ForeignBytes ELSE {0}) : InitMsg(data, cut, eb, fb)
  \/ /\ "qget" \in Ops
     /\ \E max \in 0..MaxQ, pos \in 0..(MaxQ + 1), take \in 0..(MaxQ + 1) :
        \E qoff \in (IF max = 0 THEN {0} ELSE 0..(max - 1)), data \in Strings(max) :
           QGet(max, qoff, data, pos, take)

Step ==
  \/ "read" \in Ops /\ \E n \in 0..(MaxLen + 1), dest \in {0, 1} : Read(n, dest)
  \/ "length" \in Ops /\ Length
  \/ "argv" \in Ops /\ \E sep \in Seps : Argv(sep)
  \/ "arrmsg" \in Ops /\ \E sep \in Seps : ArrMsg(sep)
  \/ "memchr" \in Ops /\ \E b \in Needles : Memchr(b) \/ Memrchr(b)
  \/ "memfcn" \in Ops /\ \E cls \in Classes : Memfcn(cls) \/ Memrfcn(cls)
  \/ "memstr" \in Ops /\ \E m \in MatchSets : Memstr(m) \/ Memrstr(m)
  \/ "memtok" \in Ops /\ \E t \in TokArgs, com \in ComArgs, esc \in EscArgs : Memtok(t[1], t[2], com, esc)
  \/ /\ "memcpy" \in Ops
     /\ Cardinality(Range(flat)) = Len(flat)   \* copying looks at no byte value: explored on
     /\ \E n \in (-1)..(MaxDst + 1), dcut \in DstCuts : Memcpy(n, dcut)   \* strings that show every misplacement
  \/ /\ "append" \in Ops
     /\ \E pre \in {<<>>, <<7, 8>>}, kind \in ArrKinds :
          \E fail \in 0..(IF kind = "roomy" THEN Min(1, MaxFail) ELSE MaxFail) :
             (kind = "shared" => pre # <<>>) /\ MsgAppend(pre, kind, fail)

Next == IF mode = "blank" THEN Start ELSE Step

Spec == Init /\ [][Next]_vars

---------------------------------------------------------------------------
(* properties *)
TypeOK ==
  /\ mode \in {"blank", "msg"}
  /\ flat \in Seq(0..255) /\ cur \in Seq(0..255)
  /\ \A k \in DOMAIN cont : cont[k] \in Seq(0..255)

Refines == Flat(Frags) = flat                  \* the cursor stands for the string

\* mpt_message_read leaves the current fragment empty only when nothing follows
Normalised == [][obs'.a = "read" => (cur' # <<>> \/ cont' = <<>>)]_vars

\* no way of cutting changes an answer: checked on every transition
DesignAgrees == [][des' = obs'.exp]_vars

\* first and last occurrence coincide where the byte occurs exactly once, whatever int stands for it
Occur(s, b) == {i \in 1..Len(s) : s[i] = b}
OnceAgrees == [][obs'.a \in {"memchr", "memrchr"} /\ Cardinality(Occur(flat, ByteOf(obs'.arg.b))) = 1
                  => obs'.exp.val = <<(CHOOSE i \in Occur(flat, ByteOf(obs'.arg.b)) : TRUE) - 1>>]_vars
=============================================================================
