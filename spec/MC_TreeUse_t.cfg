SPECIFICATION SpecMU
CONSTANTS MaxNodes = 4 Kinds <- KindsQ Pos <- PosU Keys <- KeysQ
          Paths <- PathsQ APaths <- APathsT Forests <- ForestsQ Ups <- UpsQ Stops <- StopsQ
VIEW ShapeView
INVARIANTS TypeOK WellFormed OnceInForest Refines QueryInv QueryInv2
PROPERTIES QueryAgree CloneIso ReleaseOnce2 Produced Switched
CHECK_DEADLOCK FALSE
