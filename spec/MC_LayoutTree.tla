---------------------------- MODULE MC_LayoutTree ----------------------------
(* Exhaustive configuration of LayoutTree: every description within the    *)
(* bounds (sections, options, members per graph, top-level entries) over   *)
(* the reduced alphabet of Mode "mc"; both tiers in the state, obs is an   *)
(* observation.  Text decorations do not matter here (one profile).        *)
EXTENDS LayoutTree
View == <<stack, heap, cnt, den, sess>>
(* the probes (copy / read again / C path) leave the state as it is: only the building actions are explored *)
SpecMC == Init /\ [][Build]_vars
=============================================================================
