SPECIFICATION Spec
CONSTANTS Configs <- MCConfigs OptNames <- GenOptNames SecNames <- GenSecNames Values <- GenValues
          Decos <- GenDecos MaxNodes = 2 MaxDepth = 2
VIEW Skel
ACTION_CONSTRAINT Emit
CHECK_DEADLOCK FALSE
