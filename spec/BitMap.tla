------------------------------- MODULE BitMap -------------------------------
(***************************************************************************)
(* X23 / C04: a byte array used as a set of bit positions                  *)
(* (mptcore/array/bitmap.c: mpt_bitmap_set / _unset / _get).               *)
(*                                                                         *)
(* Tier 1 (meaning):  bits -- a set of naturals below 8 * len.  set adds,  *)
(*                    unset removes, get asks for membership; a position   *)
(*                    outside 0 .. 8*len-1 is refused and nothing changes. *)
(* Tier 2 (design):   mem -- the bytes; position p lives in byte p div 8   *)
(*                    as bit p mod 8 (least significant first).            *)
(* Refines:           BitsOf(mem) = bits after every call.                 *)
(* obs.exp = [ret, mem]: result class as documented (refused / changed /   *)
(* unchanged; get: refused / "0" / "1") and the bytes the set reads as.    *)
(***************************************************************************)
EXTENDS Naturals, Integers, Sequences, FiniteSets

CONSTANTS MaxBytes,    \* longest map explored
          InitBytes,   \* byte values a map starts with
          Far          \* positions offered beyond the end: 8*len .. 8*len+Far, and before 0: -Far .. -1

VARIABLES bits, mem, obs
vars == <<bits, mem, obs>>

Pow2(k)   == CASE k = 0 -> 1 [] k = 1 -> 2 [] k = 2 -> 4 [] k = 3 -> 8
               [] k = 4 -> 16 [] k = 5 -> 32 [] k = 6 -> 64 [] k = 7 -> 128
Bit(b, k) == (b \div Pow2(k)) % 2
BitsOf(m) == {p \in 0..(8 * Len(m) - 1) : Bit(m[p \div 8 + 1], p % 8) = 1}
W(s, i, k) == IF 8 * (i - 1) + k \in s THEN Pow2(k) ELSE 0
MemOf(s, n) == [i \in 1..n |-> W(s, i, 0) + W(s, i, 1) + W(s, i, 2) + W(s, i, 3)
                              + W(s, i, 4) + W(s, i, 5) + W(s, i, 6) + W(s, i, 7)]

\* LONG_MAX stand-in (TLC integers are 32 bit; the check writes it as "smax-0")
LongMax == 499999
InRange(p) == p >= 0 /\ p < 8 * Len(mem)

Answer(a, arg, ret) ==
  obs' = [a |-> a, arg |-> arg, exp |-> [ret |-> ret, mem |-> MemOf(bits', Len(mem'))]]

BmInit(d) ==
  /\ mem' = d /\ bits' = BitsOf(d)
  /\ Answer("bminit", [data |-> d], "ok")

Refused(a, p) == /\ UNCHANGED <<bits, mem>> /\ Answer(a, [pos |-> p], "refused")

BmSet(p) ==
  IF ~InRange(p) THEN Refused("bmset", p)
  ELSE LET i == p \div 8 + 1 k == p % 8 IN
       IF p \in bits
       THEN /\ UNCHANGED <<bits, mem>> /\ Answer("bmset", [pos |-> p], "unchanged")
       ELSE /\ bits' = bits \cup {p}
            /\ mem' = [mem EXCEPT ![i] = IF Bit(@, k) = 1 THEN @ ELSE @ + Pow2(k)]
            /\ Answer("bmset", [pos |-> p], "changed")

BmUnset(p) ==
  IF ~InRange(p) THEN Refused("bmunset", p)
  ELSE LET i == p \div 8 + 1 k == p % 8 IN
       IF p \notin bits
       THEN /\ UNCHANGED <<bits, mem>> /\ Answer("bmunset", [pos |-> p], "unchanged")
       ELSE /\ bits' = bits \ {p}
            /\ mem' = [mem EXCEPT ![i] = IF Bit(@, k) = 1 THEN @ - Pow2(k) ELSE @]
            /\ Answer("bmunset", [pos |-> p], "changed")

BmGet(p) ==
  IF ~InRange(p) THEN Refused("bmget", p)
  ELSE /\ UNCHANGED <<bits, mem>>
       /\ Answer("bmget", [pos |-> p], IF p \in bits THEN "1" ELSE "0")

Init == /\ bits = {} /\ mem = <<>>
        /\ obs = [a |-> "init", arg |-> [n |-> 0], exp |-> [ret |-> "any", mem |-> <<>>]]

Seqs(n) == UNION {[1..k -> InitBytes] : k \in 0..n}
Positions == ((-Far)..(8 * Len(mem) + Far)) \cup {LongMax, LongMax - 7, -LongMax}

Next ==
  \/ \E d \in Seqs(MaxBytes) : obs.a = "init" /\ BmInit(d)
  \/ \E p \in Positions : obs.a # "init" /\ (BmSet(p) \/ BmUnset(p) \/ BmGet(p))

Spec == Init /\ [][Next]_vars

TypeOK  == /\ \A i \in 1..Len(mem) : mem[i] \in 0..255
           /\ bits \subseteq 0..(8 * Len(mem) - 1)
Refines == BitsOf(mem) = bits /\ MemOf(bits, Len(mem)) = mem
\* a refused call changes nothing; no call changes the length
Frame   == [][Len(mem') = Len(mem) \/ obs'.a = "bminit"]_vars
RefuseFrame == [][obs'.exp.ret = "refused" => (mem' = mem /\ bits' = bits)]_vars
\* only the byte holding the position may differ, only in that bit
OneBit  == [][obs'.a \in {"bmset", "bmunset"} =>
               \A q \in 0..(8 * Len(mem) - 1) : q # obs'.arg.pos => ((q \in bits') <=> (q \in bits))]_vars
=============================================================================
