------------------------------- MODULE Gen_Iter -------------------------------
(* Behaviour export: one JSON line per generated transition (path to the     *)
(* source state + the transition).  FileSources: source records read from    *)
(* $SOURCES (ndjson, parameters only; rendering and prediction stay here).   *)
EXTENDS IterSources, Json, IOUtils
VARIABLE hist
GenInit == Init /\ hist = <<obs>>
GenNext == Next /\ hist' = Append(hist, obs')
GenSpec == GenInit /\ [][GenNext]_<<vars, hist>>
View == <<src, inst, todo>>
\* scripted (walk) sources are chains: only the complete script is printed
Emit == IF src.explore \/ todo' = <<>> THEN PrintT(<<"BEHAV", ToJson(hist')>>) ELSE TRUE
FileLog == ndJsonDeserialize(IOEnv.SOURCES)
FileSources == {FileLog[i] : i \in 1..Len(FileLog)}
=============================================================================
