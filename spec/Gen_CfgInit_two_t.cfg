SPECIFICATION GenSpecI
CONSTANTS Names <- NamesI Depth = 3 Vals <- ValsX Sep = 46 Design = "list" Base <- BaseA MaxSlots = 14
  Ends <- Ends0 Strs <- None Seps <- None Asgs <- None Elems <- None
  Configs <- DefaultOnly OptNames <- OptA SecNames <- None Values <- ValsDocX Decos <- Decos1 MaxNodes = 1 MaxDepth = 1
  Routes <- RInit Cfgs <- CfgTV SingleKinds <- None PrePaths <- PreI
  LoadKinds <- None TwoFiles = FALSE EnvCalls <- None ArgCalls <- None ClearLists <- None
  MsgSets <- None MsgGets <- None NodeBases <- None FputSeps <- None
  MaxOps = 3 MaxArr = 3 SingleWhen = "first" QuoteSet <- BareOnly Observe = TRUE
  ArgVecs <- ArgsT2 EnvSets <- EnvQ2 FlagStrs <- FlagsQ2 EtcKinds <- EtcNone BadText <- Bad1 MaxInits = 2
CONSTRAINT BoundI
VIEW ViewI
ACTION_CONSTRAINT EmitI
INVARIANTS Refines PrefixClosed DeadEnds
PROPERTIES InitProp SingleProp
CHECK_DEADLOCK FALSE
