------------------------------ MODULE Gen_Ident ------------------------------
(* Behaviour export: one JSON line per generated transition of the control *)
(* skeleton (per slot: kind, inline capacity, stored length; plus which     *)
(* slots hold equal values).  Payload bytes follow fixed patterns.          *)
EXTENDS Ident, Json
VARIABLE hist
GenInit == Init /\ hist = <<obs>>
GenNext == Next /\ hist' = Append(hist, obs')
GenSpec == GenInit /\ [][GenNext]_<<vars, hist>>
Skel == <<[i \in Slots |-> <<name[i].kind, st[i].max, st[i].len>>],
          {<<i, j>> \in Slots \X Slots : i < j /\ name[i] = name[j]}>>
Emit == PrintT(<<"BEHAV", ToJson(hist')>>)
=============================================================================
