------------------------------ MODULE Gen_Ident ------------------------------
(* Behaviour export: one JSON line per generated transition of the control *)
(* skeleton (per slot: kind, inline capacity, stored length; plus which     *)
(* slots hold equal values).  Payload bytes follow fixed patterns.          *)
EXTENDS Ident, Json
VARIABLE hist
GenInit == Init /\ hist = <<obs>>
GenNext == Next /\ hist' = Append(hist, obs')
GenSpec == GenInit /\ [][GenNext]_<<vars, hist>>
Skel == <<[i \in Slots |-> <<name[i].kind, st[i].max, st[i].len>>],
          {<<i, j>> \in Slots \X Slots : i < j /\ name[i] = name[j]}>>
(* quick tier: a name obtained by SetSelf from a pattern name is checked where it arises, but is not itself a *)
(* starting point of further exploration                                                                      *)
NoDerived == \A i \in Slots : name[i].kind = "text" => name[i].s \in Strings
Emit == PrintT(<<"BEHAV", ToJson(hist')>>)
=============================================================================
