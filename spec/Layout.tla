------------------------------- MODULE Layout -------------------------------
(***************************************************************************)
(* Plot layout objects (axis, line, text, graph, world) of mptplot/layout  *)
(* behind the generic object interface (property C20).                     *)
(*                                                                         *)
(* Two objects of one kind exist (1 = target "o=0", 2 = sibling "o=1").    *)
(*                                                                         *)
(* Tier 1 (meaning)  t1[o]: record  slot name -> value as it reads back.   *)
(*                   A Set means "slot := what the value denotes" (Den..),  *)
(*                   a Reset "slot := documented default", a Copy "all     *)
(*                   slots := the sibling's".                              *)
(* Tier 2 (design)   t2[o]: record shaped like the C struct: strings are   *)
(*                   [s, id] with an allocation token, axis intervals is   *)
(*                   (intv, lg flag), graph clip is a bit mask, text pos   *)
(*                   is (x, y); Set/Reset dispatch on the name tables of   *)
(*                   mpt_<kind>_set, reads go through the tables of        *)
(*                   mpt_<kind>_get (View2) and mpt_property_match.        *)
(*                                                                         *)
(* Value encoding (what the driver logs): every value is a flat sequence   *)
(* of integers:  string = run-length list <<ch,n,ch,n,...>>; 8/16 bit and  *)
(* char = <<v>>; uint32 = <<hi16,lo16>>; real = <<0,hi,lo>> with           *)
(* 2*v = hi*65536+lo (or raw IEEE limbs <<1,..>>/<<2,..>> when 2*v is not  *)
(* integral); colour = <<alpha,red,green,blue>>; point = real ++ real.     *)
(* Numbers offered to a Set are pairs n = <<hi,lo>> with 2*v = hi*65536+lo *)
(* (so halves are exact and 2^32 fits into TLC's 32 bit integers).         *)
(***************************************************************************)
EXTENDS Integers, Sequences, FiniteSets, TLC, LayoutNames

CONSTANTS KindSet,   \* kinds explored, subset of {"axis","line","text","graph","world"}
          MaxOps     \* operations per behaviour (exhaustive / export runs)

VARIABLES kind, t2, t1, nid, ops, obs
vars == <<kind, t2, t1, nid, ops, obs>>

---------------------------------------------------------------------------
(* numbers *)
D(v2)          == <<v2 \div 65536, v2 % 65536>>        \* doubled value v2 = 2*v
IsInt(n)       == n[2] % 2 = 0
Leq(a, b)      == a[1] < b[1] \/ (a[1] = b[1] /\ a[2] <= b[2])
Within(n, l, h) == Leq(l, n) /\ Leq(n, h)
Half(n)        == <<n[1] \div 2, ((n[1] % 2) * 65536 + n[2]) \div 2>>
EncReal(n)     == <<0, n[1], n[2]>>
EncI(n)        == LET h == Half(n) IN <<h[1] * 65536 + h[2]>>   \* |v| < 2^15 only
EncU(n)        == Half(n)
F32Exact(n)    == n[1] \in -256..255                  \* |2v| < 2^24

(* characters *)
Lower(c)   == IF c \in 65..90 THEN c + 32 ELSE c
LowSeq(s)  == [i \in 1..Len(s) |-> Lower(s[i])]
IsLetter(c) == c \in 65..90 \/ c \in 97..122
IsSpace(c) == c = 32 \/ c \in 9..13
At(s, i)   == IF i <= Len(s) THEN Lower(s[i]) ELSE 0
NEq(a, b, m) == \A i \in 1..m : At(a, i) = At(b, i)   \* strncasecmp(a, b, m) = 0
IsPrefix(a, b) == Len(a) <= Len(b) /\ \A i \in 1..Len(a) : Lower(a[i]) = Lower(b[i])
\* a word no number parser can start on (not "inf"/"nan" either)
NonNumericWord(c) == Len(c) > 0 /\ IsLetter(c[1]) /\ Lower(c[1]) \notin {105, 110}

RECURSIVE RLEfrom(_, _)
RLEfrom(c, i) ==          \* run-length list of c[i..]
  IF i > Len(c) THEN <<>>
  ELSE LET RECURSIVE Run(_)
           Run(j) == IF j <= Len(c) /\ c[j] = c[i] THEN Run(j + 1) ELSE j
           e == Run(i)
       IN <<c[i], e - i>> \o RLEfrom(c, e)
RLE(c) == RLEfrom(c, 1)

RECURSIVE RLETake(_, _)
RLETake(r, n) ==          \* first n bytes of the string
  IF n <= 0 \/ r = <<>> THEN <<>>
  ELSE IF r[2] >= n THEN <<r[1], n>>
  ELSE <<r[1], r[2]>> \o RLETake(SubSeq(r, 3, Len(r)), n - r[2])
RECURSIVE RLEDrop(_, _)
RLEDrop(r, n) ==          \* the string without its first n bytes
  IF r = <<>> THEN <<>>
  ELSE IF n <= 0 THEN r
  ELSE IF r[2] > n THEN <<r[1], r[2] - n>> \o SubSeq(r, 3, Len(r))
  ELSE RLEDrop(SubSeq(r, 3, Len(r)), n - r[2])
RECURSIVE RunTotal(_, _)
RunTotal(r, i) == IF i > Len(r) THEN 0 ELSE r[i + 1] + RunTotal(r, i + 2)
Scribbled(r) == IF r = <<>> THEN <<>> ELSE <<90, RunTotal(r, 1)>>   \* every byte := 'Z'

---------------------------------------------------------------------------
(* value arguments:  [f, n, c, sty]                                        *)
(*  f = "num"  decimal text of the number n, rendered in style sty         *)
(*      "num2" text "a b" of two numbers n = a \o b                        *)
(*      "txt"  text with the character codes c                             *)
(*      "rle"  text given as run-length list c                             *)
(*      "i" "y" "u" "n" "b" "q" "f" "d"  typed value of that type id       *)
(*      "col"  typed colour c = <<a,r,g,b>>;  "fpt" typed point n = a \o b  *)
(*      "s"    typed character pointer to text c                           *)
(*      "vec"  source answering the character-vector type with exactly the  *)
(*             bytes c (run-length list) out of a longer buffer, n = <<bytes *)
(*             before, bytes after up to the terminator>>                   *)
V(f, n, c, sty) == [f |-> f, n |-> n, c |-> c, sty |-> sty]
Num(v2, sty) == V("num", D(v2), <<>>, sty)
NumN(n)      == V("num", n, <<>>, "dec")
Num2(a2, b2) == V("num2", D(a2) \o D(b2), <<>>, "")
Typ(t, v2)   == V(t, D(v2), <<>>, "")
TypN(t, n)   == V(t, n, <<>>, "")
Txt(c)       == V("txt", <<>>, c, "")
Rle(c)       == V("rle", <<>>, c, "")
Col(c)       == V("col", <<>>, c, "")
Pt(a2, b2)   == V("fpt", D(a2) \o D(b2), <<>>, "")
\* character vector (base + length) with the bytes c, lying inside a longer NUL-terminated buffer:
\* pre bytes before it, post bytes between its end and the terminator
Vec(c, pre, post) == V("vec", <<pre, post>>, c, "")
IntTyped(f)  == f \in {"i", "y", "u", "n", "b", "q"}

(* result of interpreting a value for a property:                          *)
(*  ok      accepted, the slot reads back den                              *)
(*  refused refused, nothing changes                                       *)
(*  either  the statement allows both (conversion policy); if accepted the *)
(*          slot reads back den                                            *)
(*  silent  the statement does not say what the text means (empty text,    *)
(*          trailing garbage ...): only the frame condition is demanded    *)
Ok(d)     == [ret |-> "ok", den |-> d]
Either(d) == [ret |-> "either", den |-> d]
Refused   == [ret |-> "refused", den |-> <<>>]
Silent    == [ret |-> "silent", den |-> <<>>]

---------------------------------------------------------------------------
(* property types:  [t, lo, hi, def, w]                                    *)
PT(t, lo, hi, def, w) == [t |-> t, lo |-> lo, hi |-> hi, def |-> def, w |-> w]
U32MAX2 == <<131071, 65534>>                          \* 2 * 4294967295
PInt(lo, hi, def) == PT("int", D(2 * lo), D(2 * hi), <<def>>, "i")
PU32              == PT("int", D(0), U32MAX2, <<0, 0>>, "u")
PReal(w, def)     == PT("real", <<0, 0>>, <<0, 0>>, def, w)
PChr(def)         == PT("chr", <<0, 0>>, <<0, 0>>, <<def>>, "")
PStr              == PT("str", <<0, 0>>, <<0, 0>>, <<>>, "")
PCol(def)         == PT("col", <<0, 0>>, <<0, 0>>, def, "")
PPt(lo2, hi, def) == PT("pt", D(lo2), hi, def, "")
PIntv             == PT("intv", D(0), D(510), <<0>>, "i")
PAlign            == PT("align", D(0), D(510), <<0>>, "i")
PClip             == PT("clip", D(0), D(510), <<>>, "i")
FLTBIG == <<1000000, 0>>                              \* stands for FLT_MAX
R0 == <<0, 0, 0>>   R1 == <<0, 0, 2>>   RH == <<0, 0, 1>>  \* 0, 1, 0.5
TLEN03 == <<1, 16025, 39322>>                         \* 0.3f = 0x3e99999a
BLACK == <<255, 0, 0, 0>>
LOGV  == <<108, 1, 111, 1, 103, 1>>                   \* "log"

CI(c) == [n |-> c, ci |-> TRUE]     \* strcasecmp
CS(c) == [n |-> c, ci |-> FALSE]    \* strcmp
P(name, nc, set, pt) == [name |-> name, nc |-> nc, set |-> set, pt |-> pt]

(* Tables transcribed from mpt_<kind>_set (accepted names, conversion) and *)
(* mpt_<kind>_get (listed names, order, defaults def_<kind>).              *)
PropsAxis == <<
      P("title",     N_title,     {CI(N_title)}, PStr),
      P("begin",     N_begin,     {CI(N_begin)}, PReal(64, R0)),
      P("end",       N_end,       {CI(N_end)}, PReal(64, R1)),
      P("tlen",      N_tlen,      {CI(N_tlen)}, PReal(32, TLEN03)),
      P("exponent",  N_exponent,  {CI(N_exp), CI(N_exponent)}, PInt(-32768, 32767, 0)),
      P("intervals", N_intervals, {CI(N_int), CI(N_intv), CI(N_intervals)}, PIntv),
      P("subtick",   N_subtick,   {CI(N_sub), CI(N_subtick)}, PInt(0, 255, 0)),
      P("decimals",  N_decimals,  {CI(N_dec), CI(N_decimals)}, PInt(0, 255, 0)),
      P("lpos",      N_lpos,      {CI(N_lpos), CI(N_labelpos), CI(N_label_position)}, PChr(0)),
      P("tpos",      N_tpos,      {CI(N_tpos), CI(N_titlepos), CI(N_title_position)}, PChr(0)) >>
PropsLine == <<
      P("color",  N_color,  {CI(N_color)}, PCol(BLACK)),
      P("x1",     N_x1,     {CS(N_x1)}, PReal(32, R0)),
      P("x2",     N_x2,     {CS(N_x2)}, PReal(32, R0)),
      P("y1",     N_y1,     {CS(N_y1)}, PReal(32, R0)),
      P("y2",     N_y2,     {CS(N_y2)}, PReal(32, R0)),
      P("width",  N_width,  {CI(N_width)}, PInt(0, 10, 1)),
      P("style",  N_style,  {CI(N_style)}, PInt(0, 5, 1)),
      P("symbol", N_symbol, {CI(N_symbol)}, PInt(0, 8, 0)),
      P("size",   N_size,   {CI(N_size)}, PInt(0, 20, 10)) >>
PropsText == <<
      P("color",  N_color,  {CI(N_color)}, PCol(BLACK)),
      P("pos",    N_pos,    {CI(N_pos)}, PPt(0, D(2), RH \o RH)),
      P("size",   N_size,   {CI(N_size)}, PInt(0, 255, 10)),
      P("align",  N_align,  {CI(N_align)}, PChr(53)),
      P("angle",  N_angle,  {CI(N_angle)}, PReal(64, R0)),
      P("value",  N_value,  {CI(N_value)}, PStr),
      P("font",   N_font,   {CI(N_font)}, PStr),
      P("x",      N_x,      {CI(N_x)}, PReal(32, RH)),     \* by name only
      P("y",      N_y,      {CI(N_y)}, PReal(32, RH)) >>
PropsGraph == <<
      P("axes",       N_axes,       {CS(N_axes)}, PStr),
      P("worlds",     N_worlds,     {CS(N_worlds)}, PStr),
      P("foreground", N_foreground, {CS(N_fg), CI(N_foreground)}, PCol(BLACK)),
      P("background", N_background, {CS(N_bg), CI(N_background)}, PCol(<<0, 255, 255, 255>>)),
      P("pos",        N_pos,        {CS(N_pos), CI(N_position)}, PPt(0, D(2), R0 \o R0)),
      P("scale",      N_scale,      {CI(N_scale)}, PPt(0, FLTBIG, R1 \o R1)),
      P("grid",       N_grid,       {CS(N_type), CI(N_gridtype), CI(N_grid)}, PChr(0)),
      P("align",      N_align,      {CS(N_align), CI(N_alignment)}, PAlign),
      P("clip",       N_clip,       {CS(N_clip), CI(N_clipping)}, PClip),
      P("lpos",       N_lpos,       {CS(N_lpos)}, PChr(0)) >>
PropsWorld == <<
      P("color",  N_color,  {CI(N_color), CI(N_colour)}, PCol(BLACK)),
      P("cycles", N_cycles, {CI(N_cyc), CI(N_cycles)}, PU32),
      P("width",  N_width,  {CI(N_width)}, PInt(0, 10, 1)),
      P("style",  N_style,  {CI(N_style)}, PInt(0, 5, 1)),
      P("symbol", N_symbol, {CI(N_sym), CI(N_symbol)}, PInt(0, 8, 0)),
      P("size",   N_size,   {CI(N_size)}, PInt(0, 20, 10)),
      P("alias",  N_alias,  {CI(N_alias)}, PStr) >>
Props(k) == CASE k = "axis" -> PropsAxis [] k = "line" -> PropsLine [] k = "text" -> PropsText
              [] k = "graph" -> PropsGraph [] k = "world" -> PropsWorld

NProps(k)  == Len(Props(k))
NListed(k) == IF k = "text" THEN 7 ELSE NProps(k)     \* reachable by position
MatchLen(k) == CASE k = "axis" -> 3 [] k = "graph" -> 2 [] k = "world" -> 3 [] OTHER -> -1
ReadNames(k) == {Props(k)[i].name : i \in 1..NProps(k)}
PropByName(k, nm) == Props(k)[CHOOSE i \in 1..NProps(k) : Props(k)[i].name = nm]
\* slots: every property has its own, except text "pos" which is (x, y)
Slots(k) == IF k = "text" THEN ReadNames(k) \ {"pos"} ELSE ReadNames(k)
Overlap(k, nm) == IF k # "text" THEN {nm}
                  ELSE IF nm = "pos" THEN {"pos", "x", "y"}
                  ELSE IF nm \in {"x", "y"} THEN {nm, "pos"} ELSE {nm}

(* name dispatch of mpt_<kind>_set: index of the property or 0 *)
NameHit(e, name) == IF e.ci THEN LowSeq(e.n) = LowSeq(name) ELSE e.n = name
SetResolve(k, name) ==
  LET hits == {i \in 1..NProps(k) : \E e \in Props(k)[i].set : NameHit(e, name)}
  IN IF hits = {} THEN 0 ELSE CHOOSE i \in hits : \A j \in hits : i <= j

(* Tier 2 read lookup: mpt_property_match as called by mpt_<kind>_get      *)
(* (text: one-character names are x / y, case sensitive).  0 = refused.    *)
Match2(k, name) ==
  LET m == MatchLen(k) n == NListed(k) IN
  IF k = "text" /\ Len(name) = 1
  THEN IF name = N_x THEN 8 ELSE IF name = N_y THEN 9 ELSE 0
  ELSE IF m < 0
  THEN LET hits == {i \in 1..n : LowSeq(Props(k)[i].nc) = LowSeq(name)}
       IN IF hits = {} THEN 0 ELSE CHOOSE i \in hits : \A j \in hits : i <= j
  ELSE LET hits == {i \in 1..n : NEq(name, Props(k)[i].nc, m)}
       IN IF hits = {} THEN 0
          ELSE LET pos == CHOOSE i \in hits : \A j \in hits : i <= j
               IN IF m <= Len(Props(k)[pos].nc) /\ \E j \in hits : j > pos THEN 0 ELSE pos
(* Tier 1 read lookup: the full name, or (where prefixes are accepted) a   *)
(* prefix of at least the minimum length that fits exactly one listed      *)
(* name.  -1 = the statement is silent (short prefix, foreign tail).       *)
Resolve1(k, name) ==
  LET m == MatchLen(k) n == NListed(k)
      full == {i \in 1..NProps(k) : LowSeq(Props(k)[i].nc) = LowSeq(name)
                                    /\ (i <= n \/ Props(k)[i].nc = name)}
      pre  == {i \in 1..n : IsPrefix(name, Props(k)[i].nc)}
  IN IF full # {} THEN CHOOSE i \in full : TRUE
     ELSE IF m >= 0 /\ Len(name) >= m /\ Cardinality(pre) = 1 THEN CHOOSE i \in pre : TRUE
     ELSE IF pre = {} /\ (m < 0 \/ \A i \in 1..n : ~NEq(name, Props(k)[i].nc, m)) THEN 0
     ELSE -1

---------------------------------------------------------------------------
(* colour text (color_parse.c, color_html.c) and its printed form          *)
ColorNames == {
  [n |-> W_black, v |-> <<255, 0, 0, 0>>],     [n |-> W_red, v |-> <<255, 255, 0, 0>>],
  [n |-> W_green, v |-> <<255, 0, 255, 0>>],   [n |-> W_blue, v |-> <<255, 0, 0, 255>>],
  [n |-> W_cyan, v |-> <<255, 0, 255, 255>>],  [n |-> W_magenta, v |-> <<255, 255, 0, 255>>],
  [n |-> W_yellow, v |-> <<255, 255, 255, 0>>], [n |-> W_white, v |-> <<255, 255, 255, 255>>] }
IsHex(c)  == c \in 48..57 \/ c \in 65..70 \/ c \in 97..102
HexVal(c) == IF c \in 48..57 THEN c - 48 ELSE IF c \in 65..70 THEN c - 55 ELSE c - 87
ParseHex(h) ==            \* text after '#': up to four pairs red, green, blue, alpha
  LET n == Len(h)
      pair(i) == IF 2 * i <= n THEN 16 * HexVal(h[2 * i - 1]) + HexVal(h[2 * i]) ELSE IF i = 4 THEN 255 ELSE 0
  IN IF n > 8 THEN Silent
     ELSE IF \E i \in 1..n : ~IsHex(h[i]) /\ ~IsLetter(h[i]) THEN Silent  \* sign, blank: strtoul policy
     ELSE IF \E i \in 1..n : i % 2 = 1 /\ ~IsHex(h[i]) THEN Refused     \* a pair without any digit
     ELSE IF \E i \in 1..n : ~IsHex(h[i]) THEN Silent                    \* digit + foreign letter
     ELSE IF n % 2 = 1 THEN Refused
     ELSE Ok(<<pair(4), pair(1), pair(2), pair(3)>>)
ParseColor(c) ==
  IF c = <<>> THEN Silent
  ELSE IF c[1] = 35 THEN ParseHex(SubSeq(c, 2, Len(c)))
  ELSE LET low == LowSeq(c) IN
       IF \E e \in ColorNames : e.n = low THEN Ok((CHOOSE e \in ColorNames : e.n = low).v)
       ELSE IF \E e \in ColorNames : IsPrefix(e.n, low) /\ IsSpace(low[Len(e.n) + 1]) THEN Silent
       ELSE IF IsSpace(c[1]) THEN Silent
       ELSE Refused
HexDigit(v) == IF v < 10 THEN 48 + v ELSE 87 + v
Hex2(v) == <<HexDigit(v \div 16), HexDigit(v % 16)>>
PrintColor(c) ==          \* operator<<(ostream, color) of mpt++/color.cpp
  <<35>> \o Hex2(c[2]) \o Hex2(c[3]) \o Hex2(c[4]) \o (IF c[1] # 255 THEN Hex2(c[1]) ELSE <<>>)
Chan == {0, 1, 9, 10, 15, 16, 127, 128, 171, 254, 255}
ASSUME ColourRoundTrip ==
  \A a \in Chan, r \in Chan, g \in {0, 10, 255}, b \in {0, 171, 255} :
     ParseColor(PrintColor(<<a, r, g, b>>)) = Ok(<<a, r, g, b>>)

---------------------------------------------------------------------------
(* what a value denotes for a property type (Tier 1)                       *)
\* type id of the member itself
OwnType(pt) == IF pt.w = "u" THEN "u" ELSE IF Leq(D(0), pt.lo) THEN "y" ELSE "n"
DenInt(pt, v) ==
  LET enc(n) == IF pt.w = "u" THEN EncU(n) ELSE EncI(n) IN
  IF v.f = "num" THEN IF ~IsInt(v.n) THEN Silent
                      ELSE IF Within(v.n, pt.lo, pt.hi) THEN Ok(enc(v.n)) ELSE Refused
  ELSE IF IntTyped(v.f) THEN
       IF ~Within(v.n, pt.lo, pt.hi) THEN Refused
       ELSE IF v.f \in {"i", OwnType(pt)} THEN Ok(enc(v.n)) ELSE Either(enc(v.n))   \* other widths: conversion policy
  ELSE IF v.f \in {"d", "f"} THEN IF IsInt(v.n) /\ Within(v.n, pt.lo, pt.hi) THEN Either(enc(v.n)) ELSE Refused
  ELSE IF v.f = "txt" THEN IF NonNumericWord(v.c) THEN Refused ELSE Silent
  ELSE IF v.f \in {"col", "fpt"} THEN Refused
  ELSE Silent
DenReal(pt, v) ==
  IF v.f = "num" THEN IF pt.w = 32 /\ ~F32Exact(v.n) THEN Silent ELSE Ok(EncReal(v.n))
  ELSE IF IntTyped(v.f) THEN IF pt.w = 32 /\ ~F32Exact(v.n) THEN Silent
                             ELSE IF v.f = "i" THEN Ok(EncReal(v.n)) ELSE Either(EncReal(v.n))
  ELSE IF v.f = "f" THEN IF pt.w = 32 /\ ~F32Exact(v.n) THEN Silent ELSE Ok(EncReal(v.n))
  ELSE IF v.f = "d" THEN IF pt.w = 64 THEN Ok(EncReal(v.n))
                         ELSE IF F32Exact(v.n) THEN Either(EncReal(v.n)) ELSE Silent
  ELSE IF v.f = "txt" THEN IF NonNumericWord(v.c) THEN Refused ELSE Silent
  ELSE IF v.f \in {"col", "fpt"} THEN Refused
  ELSE Silent
RECURSIVE FirstGraph(_, _, _)
FirstGraph(c, i, step) ==     \* first non-blank character
  IF i > Len(c) THEN Silent
  ELSE IF IsSpace(c[i]) THEN FirstGraph(c, i + step, step)
  ELSE IF c[i] \in 33..126 THEN Ok(<<c[i]>>) ELSE Silent
DenChr(pt, v) ==
  IF v.f = "txt" THEN FirstGraph(v.c, 1, 1)
  ELSE IF v.f = "rle" THEN FirstGraph(v.c, 1, 2)
  ELSE IF IntTyped(v.f) THEN IF Within(v.n, D(0), D(510)) THEN Either(EncI(v.n)) ELSE Refused
  ELSE IF v.f \in {"col", "fpt"} THEN Refused
  ELSE Silent
DenStr(pt, v) ==
  IF v.f \in {"rle", "vec"} THEN Ok(v.c)     \* a vector means its own bytes, whatever follows in the buffer
  ELSE IF v.f = "txt" THEN Ok(RLE(v.c))
  ELSE IF v.f \in {"col", "fpt"} THEN Refused
  ELSE Silent
DenCol(pt, v) ==
  IF v.f = "txt" THEN ParseColor(v.c)
  ELSE IF v.f = "col" THEN Ok(v.c)
  ELSE IF v.f = "fpt" THEN Refused
  ELSE Silent
DenPt(pt, v) ==
  LET a == SubSeq(v.n, 1, 2)  b == SubSeq(v.n, 3, 4)
      in(n) == Within(n, pt.lo, pt.hi) IN
  IF v.f = "num" THEN IF ~F32Exact(a) THEN Silent
                      ELSE IF in(a) THEN Ok(EncReal(a) \o EncReal(a)) ELSE Refused
  ELSE IF v.f \in {"num2", "fpt"} THEN IF ~F32Exact(a) \/ ~F32Exact(b) THEN Silent
                      ELSE IF in(a) /\ in(b) THEN Ok(EncReal(a) \o EncReal(b)) ELSE Refused
  ELSE IF IntTyped(v.f) \/ v.f \in {"d", "f"} THEN
       IF ~F32Exact(a) THEN Silent ELSE IF in(a) THEN Either(EncReal(a) \o EncReal(a)) ELSE Refused
  ELSE IF v.f = "txt" THEN IF NonNumericWord(v.c) THEN Refused ELSE Silent
  ELSE IF v.f = "col" THEN Refused
  ELSE Silent
DenIntv(pt, v) ==
  IF v.f = "txt" /\ Len(v.c) >= 3 /\ LowSeq(SubSeq(v.c, 1, 3)) = W_log THEN Ok(LOGV)
  ELSE DenInt(pt, v)
(* graph align text: one letter b/e/z per axis, two bits each              *)
AlignCode(c) == CASE Lower(c) = 98 -> 1 [] Lower(c) = 101 -> 2 [] Lower(c) = 122 -> 3 [] OTHER -> 0
RECURSIVE AlignBits(_, _)
AlignBits(c, i) == IF i > Len(c) THEN 0 ELSE AlignCode(c[i]) * (4 ^ i) + AlignBits(c, i + 1)
AlignWord(c) == Len(c) \in 1..3 /\ \A i \in 1..Len(c) : AlignCode(c[i]) # 0
DenAlign(pt, v) ==
  IF v.f = "txt" THEN IF AlignWord(v.c) THEN Ok(<<AlignBits(v.c, 1)>>) ELSE Silent
  ELSE DenInt(pt, v)
(* graph clip: bit mask x=1 y=2 z=4; masks below 8 read back as axis names *)
ClipView(n) == IF n >= 8 THEN <<n>>
               ELSE (IF n % 2 = 1 THEN <<120, 1>> ELSE <<>>)
                 \o (IF (n \div 2) % 2 = 1 THEN <<121, 1>> ELSE <<>>)
                 \o (IF (n \div 4) % 2 = 1 THEN <<122, 1>> ELSE <<>>)
ClipWord(c) == Len(c) \in 1..4 /\ \A i \in 1..Len(c) : c[i] \in {120, 121, 122}
ClipMask(c) == (IF \E i \in 1..Len(c) : c[i] = 120 THEN 1 ELSE 0)
             + (IF \E i \in 1..Len(c) : c[i] = 121 THEN 2 ELSE 0)
             + (IF \E i \in 1..Len(c) : c[i] = 122 THEN 4 ELSE 0)
DenClip(pt, v) ==
  IF v.f = "txt" THEN IF ClipWord(v.c) THEN Ok(ClipView(ClipMask(v.c))) ELSE Silent
  ELSE LET r == DenInt(pt, v) IN
       IF r.ret \in {"ok", "either"} THEN [ret |-> r.ret, den |-> ClipView(r.den[1])] ELSE r

(* "ptxt"/"prle": the same text handed over through mpt_object_set_property *)
Norm(v) == IF v.f = "ptxt" THEN [v EXCEPT !.f = "txt"] ELSE IF v.f = "prle" THEN [v EXCEPT !.f = "rle"]
           ELSE IF v.f = "pnum" THEN [v EXCEPT !.f = "num"] ELSE v
DenN(pt, v) ==
  CASE pt.t = "int"   -> DenInt(pt, v)
    [] pt.t = "real"  -> DenReal(pt, v)
    [] pt.t = "chr"   -> DenChr(pt, v)
    [] pt.t = "str"   -> DenStr(pt, v)
    [] pt.t = "col"   -> DenCol(pt, v)
    [] pt.t = "pt"    -> DenPt(pt, v)
    [] pt.t = "intv"  -> DenIntv(pt, v)
    [] pt.t = "align" -> DenAlign(pt, v)
    [] pt.t = "clip"  -> DenClip(pt, v)
Den(pt, v) == DenN(pt, Norm(v))

---------------------------------------------------------------------------
(* Tier 1: slots *)
Def1(k) == [s \in Slots(k) |-> PropByName(k, s).pt.def]
View1(k, a, nm) == IF k = "text" /\ nm = "pos" THEN a.x \o a.y ELSE a[nm]
Put1(k, a, nm, d) ==
  IF k = "text" /\ nm = "pos" THEN [a EXCEPT !.x = SubSeq(d, 1, 3), !.y = SubSeq(d, 4, 6)]
  ELSE [a EXCEPT ![nm] = d]
StrSlots(k) == {s \in Slots(k) : PropByName(k, s).pt.t = "str"}

(* Tier 2: struct images *)
NoStr == [s |-> <<>>, id |-> 0]
Def2(k) ==
  CASE k = "axis"  -> [title |-> NoStr, begin |-> R0, end |-> R1, tlen |-> TLEN03, exp |-> <<0>>,
                       intv |-> <<0>>, lg |-> FALSE, sub |-> <<0>>, dec |-> <<0>>, lpos |-> <<0>>, tpos |-> <<0>>]
    [] k = "line"  -> [color |-> BLACK, x1 |-> R0, x2 |-> R0, y1 |-> R0, y2 |-> R0,
                       width |-> <<1>>, style |-> <<1>>, symbol |-> <<0>>, size |-> <<10>>]
    [] k = "text"  -> [value |-> NoStr, font |-> NoStr, color |-> BLACK, size |-> <<10>>, align |-> <<53>>,
                       x |-> RH, y |-> RH, angle |-> R0]
    [] k = "graph" -> [axes |-> NoStr, worlds |-> NoStr, fg |-> BLACK, bg |-> <<0, 255, 255, 255>>,
                       px |-> R0, py |-> R0, sx |-> R1, sy |-> R1,
                       grid |-> <<0>>, align |-> <<0>>, clip |-> 0, lpos |-> <<0>>]
    [] k = "world" -> [alias |-> NoStr, color |-> BLACK, width |-> <<1>>, style |-> <<1>>, symbol |-> <<0>>,
                       size |-> <<10>>, cyc |-> <<0, 0>>]
StrFields(k) == CASE k = "axis" -> {"title"} [] k = "text" -> {"value", "font"}
                  [] k = "graph" -> {"axes", "worlds"} [] k = "world" -> {"alias"} [] OTHER -> {}
\* struct member behind a property name
Field(k, nm) ==
  CASE k = "axis" /\ nm = "exponent" -> "exp"   [] k = "axis" /\ nm = "intervals" -> "intv"
    [] k = "axis" /\ nm = "subtick" -> "sub"    [] k = "axis" /\ nm = "decimals" -> "dec"
    [] k = "graph" /\ nm = "foreground" -> "fg" [] k = "graph" /\ nm = "background" -> "bg"
    [] k = "world" /\ nm = "cycles" -> "cyc"
    [] OTHER -> nm
(* read through the table of mpt_<kind>_get *)
View2(k, r, nm) ==
  LET f == Field(k, nm) IN
  IF f \in StrFields(k) THEN r[f].s
  ELSE IF k = "axis" /\ nm = "intervals" THEN (IF r.lg THEN LOGV ELSE r.intv)
  ELSE IF k = "text" /\ nm = "pos" THEN r.x \o r.y
  ELSE IF k = "graph" /\ nm = "pos" THEN r.px \o r.py
  ELSE IF k = "graph" /\ nm = "scale" THEN r.sx \o r.sy
  ELSE IF k = "graph" /\ nm = "clip" THEN ClipView(r.clip)
  ELSE r[f]
(* store through mpt_<kind>_set: d is the converted value (view form), v   *)
(* the source (needed where the member is not the view)                    *)
ClipOfView(d) == IF Len(d) = 1 /\ d[1] >= 8 THEN d[1]
                 ELSE (IF \E i \in 1..Len(d) : d[i] = 120 THEN 1 ELSE 0)
                    + (IF \E i \in 1..Len(d) : d[i] = 121 THEN 2 ELSE 0)
                    + (IF \E i \in 1..Len(d) : d[i] = 122 THEN 4 ELSE 0)
Put2(k, r, nm, d, id) ==
  LET f == Field(k, nm) IN
  IF f \in StrFields(k) THEN [r EXCEPT ![f] = [s |-> d, id |-> IF d = <<>> THEN 0 ELSE id]]
  ELSE IF k = "axis" /\ nm = "intervals"
       THEN IF d = LOGV THEN [r EXCEPT !.lg = TRUE, !.intv = <<0>>] ELSE [r EXCEPT !.lg = FALSE, !.intv = d]
  ELSE IF k = "text" /\ nm = "pos" THEN [r EXCEPT !.x = SubSeq(d, 1, 3), !.y = SubSeq(d, 4, 6)]
  ELSE IF k = "graph" /\ nm = "pos" THEN [r EXCEPT !.px = SubSeq(d, 1, 3), !.py = SubSeq(d, 4, 6)]
  ELSE IF k = "graph" /\ nm = "scale" THEN [r EXCEPT !.sx = SubSeq(d, 1, 3), !.sy = SubSeq(d, 4, 6)]
  ELSE IF k = "graph" /\ nm = "clip" THEN [r EXCEPT !.clip = ClipOfView(d)]
  ELSE [r EXCEPT ![f] = d]
(* mpt_<kind>_init(dst, src): struct copy, strings duplicated *)
Dup2(k, r, id0) ==
  LET fs == StrFields(k)
  IN [f \in DOMAIN r |->
        IF f \in fs /\ r[f].s # <<>> THEN [s |-> r[f].s, id |-> id0 + (IF f \in {"font", "worlds"} THEN 1 ELSE 0)]
        ELSE IF f \in fs THEN NoStr ELSE r[f]]

AllView1(k, a) == [nm \in ReadNames(k) |-> View1(k, a, nm)]
AllView2(k, r) == [nm \in ReadNames(k) |-> View2(k, r, nm)]
Ids(k, r) == {r[f].id : f \in StrFields(k)} \ {0}
SharedCount == Cardinality(Ids(kind, t2[1]) \cap Ids(kind, t2[2]))

---------------------------------------------------------------------------
(* observation of a step *)
Exp(ret) == [ret |-> ret, p0 |-> AllView1(kind, t1'[1]), p1 |-> AllView1(kind, t1'[2]), shared |-> SharedCount']
Answer(a, arg, ret, tgt, den) ==
  obs' = [a |-> a, arg |-> arg, exp |-> Exp(ret), tgt |-> tgt, den |-> den]
Same == UNCHANGED <<kind, t2, t1, nid>>
Touch(o, nm, d) ==     \* slot nm of object o reads back d from now on
  /\ t1' = [t1 EXCEPT ![o] = Put1(kind, t1[o], nm, d)]
  /\ t2' = [t2 EXCEPT ![o] = Put2(kind, t2[o], nm, d, nid)]
  /\ nid' = nid + 1
  /\ UNCHANGED kind

SetArg(o, name, v) == [o |-> o - 1, name |-> name, f |-> v.f, n |-> v.n, c |-> v.c, sty |-> v.sty]

(* set_property(name, value).  oret/oval: the recorded answer and the value *)
(* the target read back afterwards; they matter only where the statement   *)
(* leaves the outcome open (either / silent) -- trace validation.          *)
SetX(o, name, v, oret, oval) ==
  LET i == SetResolve(kind, name) arg == SetArg(o, name, v) IN
  IF i = 0 THEN Same /\ Answer("set", arg, "refused", "", <<>>)
  ELSE LET p == Props(kind)[i]  r == Den(p.pt, v) IN
    CASE r.ret = "ok" -> Touch(o, p.name, r.den) /\ Answer("set", arg, "ok", p.name, r.den)
      [] r.ret = "refused" -> Same /\ Answer("set", arg, "refused", p.name, <<>>)
      [] r.ret = "either" ->
           IF oret = "ok" THEN Touch(o, p.name, r.den) /\ Answer("set", arg, "ok", p.name, r.den)
           ELSE oret = "refused" /\ Same /\ Answer("set", arg, "refused", p.name, <<>>)
      [] r.ret = "silent" ->
           /\ oret \in {"ok", "refused"}
           /\ IF oret = "ok" THEN Touch(o, p.name, oval) ELSE Same
           /\ Answer("set", arg, oret, p.name, oval)
Determinate(name, v) ==
  LET i == SetResolve(kind, name) IN IF i = 0 THEN TRUE ELSE Den(Props(kind)[i].pt, v).ret \in {"ok", "refused"}
Set(o, name, v) == Determinate(name, v) /\ SetX(o, name, v, "", <<>>)

(* set_property(name, no value): documented default *)
Reset(o, name, f) ==      \* f = "null": set_property(name, 0); "pnull": mpt_object_set_property(.., name, 0)
  LET i == SetResolve(kind, name) arg == [o |-> o - 1, name |-> name, f |-> f] IN
  IF i = 0 THEN Same /\ Answer("reset", arg, "refused", "", <<>>)
  ELSE LET p == Props(kind)[i] IN
       Touch(o, p.name, p.pt.def) /\ Answer("reset", arg, "ok", p.name, p.pt.def)

(* set_property(no name, value): the kind picks the member (auto select)   *)
AutoTarget(v) ==
  IF v.f \in {"rle", "txt"} THEN CASE kind = "axis" -> "title" [] kind = "text" -> "value"
                                   [] kind = "world" -> "alias" [] OTHER -> ""
  ELSE IF v.f = "col" THEN CASE kind = "line" -> "color" [] kind = "text" -> "color"
                             [] kind = "world" -> "color" [] kind = "graph" -> "foreground" [] OTHER -> ""
  ELSE "-"
AutoDeterminate(v) == AutoTarget(v) # "-" /\ (v.f = "txt" => v.c # <<>>) /\ (v.f = "rle" => v.c # <<>>)
Auto(o, v) ==
  LET nm == AutoTarget(v) arg == [o |-> o - 1, f |-> v.f, n |-> v.n, c |-> v.c, sty |-> v.sty] IN
  /\ AutoDeterminate(v)
  /\ IF nm = "" THEN Same /\ Answer("auto", arg, "refused", "", <<>>)
     ELSE LET r == Den(PropByName(kind, nm).pt, v) IN
          /\ r.ret = "ok"
          /\ Touch(o, nm, r.den) /\ Answer("auto", arg, "ok", nm, r.den)

(* property(name): read one property by (partial) name *)
GetX(o, name, oret, ocname) ==
  LET i1 == Resolve1(kind, name) arg == [o |-> o - 1, name |-> name]
      i == IF i1 >= 0 THEN i1
           ELSE IF oret = "ok" /\ \E j \in 1..NProps(kind) : Props(kind)[j].name = ocname
                THEN CHOOSE j \in 1..NProps(kind) : Props(kind)[j].name = ocname ELSE 0 IN
  /\ Same
  /\ IF i = 0
     THEN obs' = [a |-> "get", arg |-> arg, tgt |-> "", den |-> <<>>,
                  exp |-> Exp("refused") @@ [cname |-> "", val |-> <<>>]]
     ELSE obs' = [a |-> "get", arg |-> arg, tgt |-> Props(kind)[i].name, den |-> <<>>,
                  exp |-> Exp("ok") @@ [cname |-> Props(kind)[i].name,
                                        val |-> View1(kind, t1[o], Props(kind)[i].name)]]
Get(o, name) == Resolve1(kind, name) >= 0 /\ GetX(o, name, "", "")

(* generic assignment from the sibling.  mode: "null" / "empty" =           *)
(* set_property(NULL | "", source); "clone" = metatype::clone();            *)
(* "props" = object::set(const object &), property by property (its return  *)
(* value is an index, not an answer).                                       *)
CopyModes == {"null", "empty", "clone", "props"}
Copy(o, from, mode) ==
  LET arg == [o |-> o - 1, from |-> from - 1, mode |-> mode] IN
  /\ IF o = from THEN Same
     ELSE /\ t1' = [t1 EXCEPT ![o] = t1[from]]
          /\ t2' = [t2 EXCEPT ![o] = Dup2(kind, t2[from], nid)]
          /\ nid' = nid + 2 /\ UNCHANGED kind
  /\ obs' = [a |-> "copy", arg |-> arg, tgt |-> "", den |-> <<>>,
             exp |-> [Exp("ok") EXCEPT !.ret = IF mode = "props" THEN "any" ELSE "ok"]]

(* the caller overwrites the string bytes of one object in place / ends it *)
Scribble(o) ==
  /\ t1' = [t1 EXCEPT ![o] = [s \in DOMAIN t1[o] |-> IF s \in StrSlots(kind) THEN Scribbled(t1[o][s]) ELSE t1[o][s]]]
  /\ t2' = [t2 EXCEPT ![o] = [f \in DOMAIN t2[o] |->
                 IF f \in StrFields(kind) THEN [s |-> Scribbled(t2[o][f].s), id |-> t2[o][f].id] ELSE t2[o][f]]]
  /\ UNCHANGED <<kind, nid>>
  /\ Answer("scribble", [o |-> o - 1], "ok", "", <<>>)
Fini(o) ==
  /\ t1' = [t1 EXCEPT ![o] = Def1(kind)]
  /\ t2' = [t2 EXCEPT ![o] = Def2(kind)]
  /\ UNCHANGED <<kind, nid>>
  /\ Answer("fini", [o |-> o - 1], "ok", "", <<>>)

(* mpt_color_parse on its own (target preset to <<1,2,3,4>>) *)
CParseX(c, oret, oval) ==
  LET r == ParseColor(c) IN
  /\ Same
  /\ obs' = [a |-> "cparse", arg |-> [c |-> c], tgt |-> "", den |-> <<>>,
             exp |-> CASE r.ret = "ok" -> [ret |-> "ok", col |-> r.den]
                       [] r.ret = "refused" -> [ret |-> "refused", col |-> <<1, 2, 3, 4>>]
                       [] OTHER -> [ret |-> oret, col |-> oval]]
CParse(c) == ParseColor(c).ret \in {"ok", "refused"} /\ CParseX(c, "", <<>>)
(* mpt_color_set / mpt_color_setalpha / mpt_lattr_set on scratch targets    *)
(* preset to <<1,2,3,4>> resp. style 2, width 3, symbol 4, size 5           *)
CSet(r, g, b) ==
  /\ Same
  /\ obs' = [a |-> "cset", arg |-> [r |-> r, g |-> g, b |-> b], tgt |-> "", den |-> <<>>,
             exp |-> IF \A x \in {r, g, b} : x \in 0..255 THEN [ret |-> "ok", col |-> <<255, r, g, b>>]
                     ELSE [ret |-> "refused", col |-> <<1, 2, 3, 4>>]]
CAlpha(a) ==
  /\ Same
  /\ obs' = [a |-> "calpha", arg |-> [v |-> a], tgt |-> "", den |-> <<>>,
             exp |-> IF a \in 0..255 THEN [ret |-> "ok", col |-> <<a, 2, 3, 4>>]
                     ELSE [ret |-> "refused", col |-> <<1, 2, 3, 4>>]]
LSet(w, st, sy, sz) ==     \* negative = documented default 1, 1, 0, 10; maxima 10, 5, 8, 20
  LET d(x, def) == IF x >= 0 THEN x ELSE def IN
  /\ Same
  /\ obs' = [a |-> "lset", arg |-> [w |-> w, st |-> st, sy |-> sy, sz |-> sz], tgt |-> "", den |-> <<>>,
             exp |-> IF w > 10 \/ st > 5 \/ sy > 8 \/ sz > 20 THEN [ret |-> "refused", la |-> <<2, 3, 4, 5>>]
                     ELSE [ret |-> "ok", la |-> <<d(st, 1), d(w, 1), d(sy, 0), d(sz, 10)>>]]

(* mpt_string_set on the first string member: m = "new" first n bytes of   *)
(* the text c (n < 0: all of it); "self" the member's own address; "tail"  *)
(* an address n bytes inside the current value                              *)
FirstStr == CASE kind = "axis" -> "title" [] kind = "text" -> "value" [] kind = "graph" -> "axes"
              [] kind = "world" -> "alias" [] OTHER -> ""
SSet(o, m, c, n) ==
  LET nm == FirstStr  arg == [o |-> o - 1, m |-> m, c |-> c, n |-> n]
      cur == IF nm = "" THEN <<>> ELSE t1[o][nm]
      len == RunTotal(cur, 1)
      d == CASE m = "new"  -> IF n < 0 THEN c ELSE RLETake(c, n)
             [] m = "self" -> cur
             [] m = "tail" -> RLEDrop(cur, n)
             [] OTHER      -> cur IN
  IF nm = "" \/ (m = "new" /\ n > RunTotal(c, 1)) \/ (m # "new" /\ len = 0) \/ (m = "tail" /\ (n < 0 \/ n > len))
  THEN Same /\ Answer("sset", arg, "skipped", "", <<>>)        \* the harness does not make such a call
  ELSE Touch(o, nm, d) /\ Answer("sset", arg, "ok", nm, d)

(* Allocation failure as an outcome of a write (arg.fail = k: the k-th     *)
(* allocation the call makes fails).  Storage for an owned value (strings  *)
(* of a set, every string of a generic copy) may not be had: the call is   *)
(* then refused for lack of memory and -- like every refusal -- leaves     *)
(* BOTH objects as they were: all properties, the one being set included,  *)
(* read back as before, nothing is lost (leak) and nothing released twice. *)
(* A call that meets the failure and is carried out all the same has its   *)
(* ordinary outcome (the bindings accept either).                          *)
NoMem(a, arg) ==
  /\ Same
  /\ obs' = [a |-> a, arg |-> arg @@ [fail |-> 1], tgt |-> "", den |-> <<>>,
             exp |-> Exp("refused") @@ [leak |-> 0, badfree |-> 0]]
SetN(o, name, v)   == Determinate(name, v) /\ NoMem("set", SetArg(o, name, v))
ResetN(o, name, f) == NoMem("reset", [o |-> o - 1, name |-> name, f |-> f])
AutoN(o, v)        == AutoDeterminate(v) /\ NoMem("auto", [o |-> o - 1, f |-> v.f, n |-> v.n, c |-> v.c, sty |-> v.sty])
CopyN(o, from, mode) == NoMem("copy", [o |-> o - 1, from |-> from - 1, mode |-> mode])
SSetN(o, m, c, n)  == NoMem("sset", [o |-> o - 1, m |-> m, c |-> c, n |-> n])

(* operator<<(ostream, color), and the printed text parsed again *)
CPrint(c) ==
  /\ Same
  /\ obs' = [a |-> "cprint", arg |-> [c |-> c], tgt |-> "", den |-> <<>>,
             exp |-> [ret |-> "ok", txt |-> PrintColor(c), col |-> ParseColor(PrintColor(c)).den]]

---------------------------------------------------------------------------
(* value classes offered by the exhaustive / export runs                   *)
IntVals(pt) ==
  LET lo == pt.lo hi == pt.hi
      mid == IF pt.w = "u" THEN D(14) ELSE IF EncI(lo)[1] < 0 THEN D(200)
             ELSE D(2 * ((EncI(lo)[1] + EncI(hi)[1]) \div 2))
      below == IF pt.w = "u" THEN D(-2) ELSE D(2 * (EncI(lo)[1] - 1))
      above == IF pt.w = "u" THEN <<131072, 0>> ELSE D(2 * (EncI(hi)[1] + 1))
      far   == IF pt.w = "u" THEN <<400000, 0>> ELSE D(2 * (EncI(hi)[1] + 70000))
      small == pt.w # "u"
  IN {NumN(below), NumN(lo), NumN(mid), NumN(hi), NumN(above), NumN(far),
      V("num", mid, <<>>, "sp"), V("num", mid, <<>>, "plus"), V("num", hi, <<>>, "hex"),
      TypN("i", mid), TypN("i", lo), TypN("i", below), Txt(W_abc), Col(<<255, 1, 2, 3>>)}
     \cup (IF small THEN {TypN("i", hi), TypN("i", above), TypN("n", mid), TypN("u", mid)}
           ELSE {TypN("u", hi), TypN("u", mid), TypN("y", mid)})
     \cup (IF small /\ Within(mid, D(0), D(510)) THEN {TypN("y", mid)} ELSE {})
     \cup (IF small /\ EncI(lo)[1] < 0 THEN {Num(-400, "dec"), Typ("i", -400), Typ("n", -400)} ELSE {})
RealVals(pt) ==
  {Num(0, "dec"), Num(3, "dec"), Num(-5, "dec"), Num(2000000, "dec"), Num(14, "sp"), Num(14, "plus"),
   Num(62, "hex"), Num(8, "flt"), Typ("i", 14), Typ("i", -6), Typ("y", 200), Typ("n", -600), Typ("f", 5),
   Txt(W_abc), Txt(W_red), Col(<<255, 1, 2, 3>>), Pt(1, 1)}
  \cup (IF pt.w = 64 THEN {Typ("d", 7), Typ("d", -3)} ELSE {})
ChrVals == {Txt(W_A), Txt(W_r), Txt(W_sp_r), Txt(W_tilde), Txt(W_five), Rle(<<97, 3>>), Col(<<255, 1, 2, 3>>), Pt(1, 1),
            Typ("i", 2000), Typ("i", -2), TypN("i", <<65535, 65534>>), Typ("n", 600)}   \* beyond a character's range
StrVals == {Rle(<<>>), Rle(<<97, 1>>), Rle(<<104, 1, 105, 1, 32, 1, 116, 1, 104, 1, 101, 1, 114, 1, 101, 1>>),
            Rle(<<120, 300>>), Rle(<<97, 5000, 98, 1, 32, 2, 99, 70>>), Txt(W_abc), Txt(W_h_red), Col(<<255, 1, 2, 3>>),
            Vec(<<104, 1, 105, 1>>, 0, 0), Vec(<<104, 1, 105, 1>>, 0, 3), Vec(<<116, 1, 111, 1, 107, 1>>, 2, 2),
            Vec(<<>>, 0, 4), Vec(<<120, 300>>, 1, 1)}
ColVals == {Txt(W_red), Txt(W_RED), Txt(W_Red), Txt(W_green), Txt(W_blue), Txt(W_cyan), Txt(W_magenta), Txt(W_yellow),
            Txt(W_white), Txt(W_black), Txt(W_h_red), Txt(W_h_reda), Txt(W_h_), Txt(W_h_80), Txt(W_h_8040),
            Txt(W_h_mix), Txt(W_h_full), Txt(W_h_8), Txt(W_h_804), Txt(W_h_gg), Txt(W_reddish), Txt(W_abc),
            Col(<<128, 1, 2, 3>>), Col(<<0, 0, 0, 0>>), Col(<<255, 255, 255, 255>>), Pt(1, 1)}
PtVals(pt) ==
  {Num(1, "dec"), Num(0, "dec"), NumN(pt.lo), Num(2, "dec"), Num(3, "dec"), Num(-1, "dec"), Num(400, "dec"),
   Num2(0, 2), Num2(2, 1), Num2(3, 1), Num2(1, -1), Num2(4, 6), Pt(1, 2), Pt(0, 0), Pt(3, 1), Pt(1, -1), Pt(6, 4),
   Txt(W_abc), Col(<<255, 1, 2, 3>>)}
IntvVals  == {Txt(W_log), Txt(W_LOG), Txt(W_logarithmic), Txt(W_lag)}
AlignVals == {Txt(W_b), Txt(W_e), Txt(W_z), Txt(W_bez), Txt(W_ZE), Txt(W_eb)}
ClipVals  == {Txt(W_x), Txt(W_y), Txt(W_xy), Txt(W_zx), Txt(W_xyz), Txt(W_yy), Num(6, "dec"), Num(14, "dec"), Num(16, "dec")}
Vals(pt) ==
  CASE pt.t = "int"   -> IntVals(pt)
    [] pt.t = "real"  -> RealVals(pt)
    [] pt.t = "chr"   -> ChrVals
    [] pt.t = "str"   -> StrVals
    [] pt.t = "col"   -> ColVals
    [] pt.t = "pt"    -> PtVals(pt)
    [] pt.t = "intv"  -> IntVals(pt) \cup IntvVals
    [] pt.t = "align" -> IntVals(pt) \cup AlignVals
    [] pt.t = "clip"  -> IntVals(pt) \cup ClipVals
\* two accepted and one refused value per type (aliases, sibling object)
FewVals(pt) ==
  CASE pt.t = "int"   -> {NumN(pt.hi), TypN("i", pt.lo), Txt(W_abc)}
    [] pt.t = "real"  -> {Num(3, "dec"), Typ("i", -6), Txt(W_abc)}
    [] pt.t = "chr"   -> {Txt(W_A), Txt(W_r), Col(<<255, 1, 2, 3>>)}
    [] pt.t = "str"   -> {Rle(<<104, 1, 105, 1>>), Rle(<<121, 40>>), Vec(<<118, 2>>, 1, 2), Col(<<255, 1, 2, 3>>)}
    [] pt.t = "col"   -> {Txt(W_blue), Col(<<128, 1, 2, 3>>), Txt(W_abc)}
    [] pt.t = "pt"    -> {Num(1, "dec"), Num2(2, 1), Num(-1, "dec")}
    [] pt.t = "intv"  -> {Num(14, "dec"), Txt(W_log), Txt(W_lag)}
    [] pt.t = "align" -> {Num(14, "dec"), Txt(W_bez), Num(600, "dec")}
    [] pt.t = "clip"  -> {Num(6, "dec"), Txt(W_zx), Num(600, "dec")}

\* through mpt_object_set_property: one accepted, one refused text, the empty text where it has a meaning
PropVals(pt) ==
  CASE pt.t = "int"   -> {V("pnum", pt.hi, <<>>, "dec"), V("ptxt", <<>>, W_abc, "")}
    [] pt.t = "real"  -> {V("pnum", D(5), <<>>, "dec"), V("ptxt", <<>>, W_abc, "")}
    [] pt.t = "chr"   -> {V("ptxt", <<>>, W_A, "")}
    [] pt.t = "str"   -> {V("prle", <<>>, <<104, 1, 105, 1>>, ""), V("prle", <<>>, <<>>, ""), V("prle", <<>>, <<119, 600>>, "")}
    [] pt.t = "col"   -> {V("ptxt", <<>>, W_blue, ""), V("ptxt", <<>>, W_h_reda, ""), V("ptxt", <<>>, W_abc, "")}
    [] pt.t = "pt"    -> {V("pnum", D(1), <<>>, "dec"), V("pnum", D(-1), <<>>, "dec"), V("ptxt", <<>>, W_abc, "")}
    [] pt.t = "intv"  -> {V("ptxt", <<>>, W_log, ""), V("pnum", D(14), <<>>, "dec"), V("ptxt", <<>>, W_lag, "")}
    [] pt.t = "align" -> {V("ptxt", <<>>, W_bez, ""), V("pnum", D(14), <<>>, "dec")}
    [] pt.t = "clip"  -> {V("ptxt", <<>>, W_zx, ""), V("pnum", D(14), <<>>, "dec")}

\* other spellings offered per kind: case variants, foreign names
ExtraSetNames(k) ==
  CASE k = "axis"  -> {N_TITLE, N_Begin, N_EXPONENT, N_Intervals, N_LPOS, N_bogus, N_tit, N_color}
    [] k = "line"  -> {N_COLOR, N_X1, N_Width, N_Symbol, N_bogus, N_col, N_title}
    [] k = "text"  -> {N_COLOR, N_POS, N_VALUE, N_Font, N_X, N_Size, N_bogus, N_title}
    [] k = "graph" -> {N_FG, N_Foreground, N_POS, N_Axes, N_LPOS, N_Clip, N_SCALE, N_bogus, N_fo, N_title}
    [] k = "world" -> {N_COLOR, N_Colour, N_Cycles, N_ALIAS, N_Symbol, N_bogus, N_col, N_title}
CanonNames(k) == {Props(k)[i].nc : i \in 1..NProps(k)}
AliasNames(k) == (UNION {{e.n : e \in Props(k)[i].set} : i \in 1..NProps(k)}) \ CanonNames(k)
GetNames(k) ==
  CanonNames(k) \cup AliasNames(k) \cup ExtraSetNames(k) \cup
  CASE k = "axis"  -> {N_tit, N_titl, N_beg, N_expo, N_inte, N_subt, N_deci, N_lpo, N_tpo, N_tle, N_TIT, N_exp, N_int}
    [] k = "line"  -> {N_col, N_wid, N_x, N_Size}
    [] k = "text"  -> {N_col, N_ali, N_x, N_y, N_X, N_po}
    [] k = "graph" -> {N_ax, N_wo, N_fo, N_ba, N_po, N_sc, N_gr, N_al, N_cl, N_lp, N_fore, N_back, N_sca, N_posi, N_Fore}
    [] k = "world" -> {N_col, N_cyc, N_wid, N_sty, N_sym, N_symb, N_siz, N_ali, N_cycl, N_colo}
(* where Tier 1 resolves a name, mpt_property_match must resolve it alike *)
ASSUME NameResolutionAgrees ==
  \A k \in {"axis", "line", "text", "graph", "world"} : \A nm \in GetNames(k) :
     Resolve1(k, nm) >= 0 => Match2(k, nm) = Resolve1(k, nm)

PropOfName(k, name) == LET i == SetResolve(k, name) IN IF i = 0 THEN Props(k)[1] ELSE Props(k)[i]

---------------------------------------------------------------------------
Init ==
  /\ kind \in KindSet
  /\ t2 = <<Def2(kind), Def2(kind)>>
  /\ t1 = <<Def1(kind), Def1(kind)>>
  /\ nid = 1 /\ ops = 0
  /\ obs = [a |-> "init", arg |-> [kind |-> kind], tgt |-> "", den |-> <<>>,
            exp |-> [ret |-> "ok", p0 |-> AllView1(kind, Def1(kind)), p1 |-> AllView1(kind, Def1(kind)), shared |-> 0]]

AnyOp ==
  \/ \E nc \in CanonNames(kind) : \E v \in Vals(PropOfName(kind, nc).pt) : Set(1, nc, v)
  \/ \E nc \in AliasNames(kind) \cup ExtraSetNames(kind) : \E v \in FewVals(PropOfName(kind, nc).pt) : Set(1, nc, v)
  \/ \E nc \in CanonNames(kind) : \E v \in FewVals(PropOfName(kind, nc).pt) : Set(2, nc, v)
  \/ \E nc \in CanonNames(kind) \cup AliasNames(kind) \cup ExtraSetNames(kind) : Reset(1, nc, "null")
  \/ \E nc \in CanonNames(kind) \cup {N_bogus} : Reset(1, nc, "pnull")
  \/ \E nc \in CanonNames(kind) \cup {N_bogus} : \E v \in PropVals(PropOfName(kind, nc).pt) : Set(1, nc, v)
  \/ \E nc \in GetNames(kind) : Get(1, nc)
  \/ \E v \in {Rle(<<104, 1, 105, 1>>), Rle(<<122, 90>>), Col(<<64, 3, 2, 1>>), Txt(W_abc)} : Auto(1, v)
  \/ \E m \in CopyModes : Copy(1, 2, m) \/ Copy(2, 1, m) \/ Copy(1, 1, m)
  \/ Scribble(1) \/ Scribble(2) \/ Fini(2) \/ Fini(1)
  \/ \E v \in ColVals : v.f = "txt" /\ CParse(v.c)
  \/ \E x \in {-1, 0, 255, 256} : CSet(x, 7, 9) \/ CSet(7, x, 9) \/ CSet(7, 9, x) \/ CAlpha(x)
  \/ \E x \in {-1, -7, 0, 5, 6} : LSet(x, 5, 8, 20) \/ LSet(10, x, 0, 0)
  \/ \E x \in {-1, 8, 9, 20, 21} : LSet(10, 5, x, x) \/ LSet(x, 0, 0, 3)
  \/ \E n \in {-1, 0, 2, 5} : SSet(1, "new", <<97, 2, 98, 3>>, n)
  \/ SSet(1, "self", <<>>, 0) \/ \E n \in {0, 1, 2} : SSet(1, "tail", <<>>, n)
  \/ \E c \in {<<255, 0, 0, 0>>, <<255, 255, 128, 1>>, <<0, 10, 171, 16>>, <<128, 15, 0, 255>>, <<254, 9, 9, 9>>} : CPrint(c)

(* the same writes refused for lack of memory: every property of every kind *)
(* (all string values; two accepted + one refused value elsewhere), both    *)
(* objects, resets, auto select, copies in both directions and onto itself, *)
(* mpt_string_set                                                           *)
NoMemVals(pt) == IF pt.t = "str" THEN StrVals \cup PropVals(pt) ELSE FewVals(pt) \cup PropVals(pt)
NoMemOp ==
  \/ \E nc \in CanonNames(kind) : \E v \in NoMemVals(PropOfName(kind, nc).pt) : SetN(1, nc, v)
  \/ \E nc \in AliasNames(kind) : \E v \in FewVals(PropOfName(kind, nc).pt) : SetN(1, nc, v)
  \/ \E nc \in CanonNames(kind) : \E v \in FewVals(PropOfName(kind, nc).pt) : SetN(2, nc, v)
  \/ \E nc \in CanonNames(kind) \cup {N_bogus} : ResetN(1, nc, "null") \/ ResetN(1, nc, "pnull")
  \/ \E v \in {Rle(<<104, 1, 105, 1>>), Rle(<<122, 90>>), Col(<<64, 3, 2, 1>>)} : AutoN(1, v)
  \/ \E m \in {"null", "empty"} : CopyN(1, 2, m) \/ CopyN(2, 1, m) \/ CopyN(1, 1, m)
  \/ \E n \in {-1, 2} : SSetN(1, "new", <<97, 2, 98, 3>>, n)
  \/ SSetN(1, "self", <<>>, 0) \/ SSetN(1, "tail", <<>>, 1)

Next == ops < MaxOps /\ ops' = ops + 1 /\ (AnyOp \/ NoMemOp)
Spec == Init /\ [][Next]_vars

---------------------------------------------------------------------------
(* invariants *)
TypeOK ==
  /\ kind \in {"axis", "line", "text", "graph", "world"}
  /\ DOMAIN t1[1] = Slots(kind) /\ DOMAIN t1[2] = Slots(kind)
  /\ DOMAIN t2[1] = DOMAIN Def2(kind) /\ DOMAIN t2[2] = DOMAIN Def2(kind)
  /\ nid \in Nat /\ ops \in 0..MaxOps

\* every property reads the same through the get tables of the design
Refines == \A o \in 1..2 : AllView2(kind, t2[o]) = AllView1(kind, t1[o])

\* no string storage is shared, a string has storage iff it is not empty
OwnStrings ==
  /\ Ids(kind, t2[1]) \cap Ids(kind, t2[2]) = {}
  /\ \A o \in 1..2 : \A f \in StrFields(kind), g \in StrFields(kind) :
        /\ (t2[o][f].id = 0) = (t2[o][f].s = <<>>)
        /\ (f # g /\ t2[o][f].id # 0) => t2[o][f].id # t2[o][g].id

\* integer members stay inside their documented range
InDomain ==
  \A o \in 1..2 : \A i \in 1..NProps(kind) :
     LET p == Props(kind)[i] IN
     (p.pt.t = "int" /\ p.pt.w = "i") =>
        LET x == t1[o][p.name][1] IN EncI(p.pt.lo)[1] <= x /\ x <= EncI(p.pt.hi)[1]

(* action properties (evaluated on the design tier) *)
ObjOf(ob) == ob.arg.o + 1
IsWrite(ob) == ob.a \in {"set", "reset", "auto", "sset"}
\* set-then-get: an accepted value reads back as what it denotes
SetGet == [][(IsWrite(obs') /\ obs'.exp.ret = "ok")
             => View2(kind, t2'[ObjOf(obs')], obs'.tgt) = obs'.den]_vars
\* frame: nothing but the target (and views of the same storage) changes
Frame == [][IsWrite(obs') =>
             /\ \A nm \in ReadNames(kind) \ Overlap(kind, obs'.tgt) :
                   obs'.tgt # "" => View2(kind, t2'[ObjOf(obs')], nm) = View2(kind, t2[ObjOf(obs')], nm)
             /\ t2'[3 - ObjOf(obs')] = t2[3 - ObjOf(obs')]]_vars
\* a refusal changes nothing
RefuseFrame == [][obs'.exp.ret = "refused" => (t2' = t2 /\ t1' = t1)]_vars
\* reset = documented default
ResetDefault == [][obs'.a = "reset" /\ obs'.exp.ret = "ok"
                   => View2(kind, t2'[ObjOf(obs')], obs'.tgt) = PropByName(kind, obs'.tgt).pt.def]_vars
\* copy: equal properties, source untouched (a copy refused for lack of memory: RefuseFrame)
CopyEqual == [][(obs'.a = "copy" /\ obs'.exp.ret # "refused") =>
                 /\ AllView2(kind, t2'[obs'.arg.o + 1]) = AllView2(kind, t2[obs'.arg.from + 1])
                 /\ t2'[obs'.arg.from + 1] = t2[obs'.arg.from + 1] \/ obs'.arg.from = obs'.arg.o]_vars
\* reads change nothing
ReadOnly == [][obs'.a \in {"get", "cparse", "cprint", "cset", "calpha", "lset"} => (t2' = t2 /\ t1' = t1)]_vars
=============================================================================
