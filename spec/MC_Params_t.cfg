SPECIFICATION Spec
CONSTANTS Mts = {0, 1} UserIds = {16} MaxTok = 5
CONSTANTS Paths <- Paths2 Vals <- Vals1
CONSTRAINT Bound
VIEW View
INVARIANTS TypeOK RefsMatch OnceOnly GoneNotified StockPlaces
PROPERTIES DeliveredRight OnePath OneReply FiniAll
CHECK_DEADLOCK FALSE
