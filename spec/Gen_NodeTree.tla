---------------------------- MODULE Gen_NodeTree ----------------------------
(* Behaviour export: one JSON line per generated transition (modifying     *)
(* calls and queries) from every state of the view.                        *)
EXTENDS NodeTree, Json
VARIABLE hist
\* "~b": a node with a non-text identifier (raw key "b"); text keys never match it
KindsQ == {<<"a", 0>>, <<"~b", 7>>}
KindsT == {<<"a", 0>>, <<"b", 7>>, <<"~b", 5>>, <<"", 0>>}
PosQ3  == -2..3
PosT   == -3..4
KeysQ  == {"a", "b", "c"}
KeysT  == {"a", "b", "", "c"}
Call(o) == [a |-> o.a, arg |-> o.arg]
GenInit == Init /\ hist = <<Call(obs)>>
GenNext == Next /\ hist' = Append(hist, Call(obs'))
GenSpec == GenInit /\ [][GenNext]_<<vars, hist>>
GenNextM == Modify /\ hist' = Append(hist, Call(obs'))      \* modifying calls only
GenSpecM == GenInit /\ [][GenNextM]_<<vars, hist>>
Full  == <<live, hp, name, val>>
\* states that differ by a renaming of the handles are explored once
ListShape(s) == [i \in 1..Len(s) |-> Shape(fo, name, val, s[i])]
ShapeView ==
  LET shs == {ListShape(s) : s \in fo.tops} IN
  [sh \in shs |-> Cardinality({s \in fo.tops : ListShape(s) = sh})]
\* the calls leading to the source state, then the transition with its full
\* expected observation (every prefix is the last step of another line)
\* ... and, coarser, states that differ only by names and values
RECURSIVE Skel(_)
Skel(n) == [i \in 1..Len(fo.kids[n]) |-> Skel(fo.kids[n][i])]
ListSkel(s) == [i \in 1..Len(s) |-> Skel(s[i])]
SkelView ==
  LET shs == {ListSkel(s) : s \in fo.tops} IN
  [sh \in shs |-> Cardinality({s \in fo.tops : ListSkel(s) = sh})]
Emit  == PrintT(<<"BEHAV", ToJson(Append(hist, obs'))>>)
=============================================================================
