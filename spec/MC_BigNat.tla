----------------------------- MODULE MC_BigNat -----------------------------
(* Model-level check of the limb arithmetic against TLC's own integers:   *)
(* every pair of the value set, every operator.                           *)
EXTENDS BigNat
CONSTANTS Vals,      \* set of naturals used as operands
          Smalls,    \* small factors / shift counts
          Radices
VARIABLES x, y
vars == <<x, y>>
Init == x \in Vals /\ y \in Vals
Next == UNCHANGED vars
Spec == Init /\ [][Next]_vars

A == FromInt(x)
B == FromInt(y)
Sign(n) == IF n < 0 THEN -1 ELSE IF n > 0 THEN 1 ELSE 0
SafeMul(n, k) == n = 0 \/ k <= (2^29 \div n)

RoundTrip == IsBigNat(A) /\ ToInt(A) = x
CmpOK     == Cmp(A, B) = Sign(x - y)
AddOK     ==  (IsBigNat(Add(A, B)) /\ ToInt(Add(A, B)) = x + y)
SubOK     == x >= y => (IsBigNat(Sub(A, B)) /\ ToInt(Sub(A, B)) = x - y)
MulOK     == \A k \in Smalls : \A c \in {0, 1, k} :
               (SafeMul(x, k) /\ x * k + c < 2^30) => (IsBigNat(MulAdd(A, k, c)) /\ ToInt(MulAdd(A, k, c)) = x * k + c)
ShiftOK   == \A s \in Smalls : s <= 12 =>
               /\ ((SafeMul(x, 2^s) /\ x * 2^s < 2^30) => (IsBigNat(Shl(A, s)) /\ ToInt(Shl(A, s)) = x * 2^s))
               /\ IsBigNat(Shr(A, s)) /\ ToInt(Shr(A, s)) = x \div 2^s
               /\ ToInt(LowBits(A, s)) = x % 2^s
               /\ MultPow2(A, s) = (x % 2^s = 0)
BitsOK    == /\ (x > 0 => (2^(BitLen(A) - 1) <= x /\ (BitLen(A) < 31 => x < 2^BitLen(A))))
             /\ (x = 0 => BitLen(A) = 0)
             /\ (x > 0 => (x % 2^TrailZeros(A) = 0 /\ (x \div 2^TrailZeros(A)) % 2 = 1))
DigitsOK  == \A r \in Radices :
               /\ (x < r /\ y < r) =>
                    /\ ToInt(FromDigits(<<x, y>>, r)) = x * r + y
                    /\ ToInt(FromDigits(<<y, x, y>>, r)) = (y * r + x) * r + y
                    /\ IsBigNat(FromDigits(<<x, y, x>>, r))
MulBigOK  == (SafeMul(x, y) /\ x * y < 2^30) => (IsBigNat(Mul(A, B)) /\ ToInt(Mul(A, B)) = x * y)
Pow10OK   == \A k \in Smalls : (k <= 5 /\ SafeMul(x, 10^k) /\ x * 10^k < 2^30) => ToInt(MulPow10(A, k)) = x * 10^k
=============================================================================
