SPECIFICATION Spec
CONSTANTS NH = 2 GranE = 2 ES = 16 MaxLen = 2 MaxArg = 3 NV = 2 CTSet = {"raw", "plain", "elem", "elemB"} Prune = FALSE Api = "c" CtrMax = 2
CONSTRAINT Bound
VIEW View
INVARIANTS TypeOK AliasOK Refines Balance AllGone
PROPERTY Independent RefuseFrame
CHECK_DEADLOCK FALSE
