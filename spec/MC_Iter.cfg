SPECIFICATION Spec
CONSTANTS
  Sources <- SrcQuick
  MaxInst = 2
VIEW View
INVARIANTS TypeOK
PROPERTIES Accepts LoopVisits
CHECK_DEADLOCK FALSE
