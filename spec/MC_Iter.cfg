SPECIFICATION Spec
CONSTANTS
  Sources <- SrcQuick
  MaxInst = 2
VIEW View
INVARIANTS TypeOK SeqOK
PROPERTIES Accepts LoopVisits
CHECK_DEADLOCK FALSE
