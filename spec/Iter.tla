-------------------------------- MODULE Iter --------------------------------
(***************************************************************************)
(* Value generators and argument iterators (property C19).                 *)
(*                                                                         *)
(* Tier 1 (meaning): a source denotes a finite sequence of exact rational  *)
(*   numbers Elems(s); an instance (the source or a clone) is a position   *)
(*   in the sequence it replays; T1Value / T1Advance / T1Reset / T1Clone   *)
(*   say which answers of the four calls are acceptable.                   *)
(* Tier 2 (design): per kind the element formulas as the code computes     *)
(*   them (linear a+i*step, factor init,base,base*fact.., range, boundary, *)
(*   polynomial, explicit values, text and buffer arguments), the text the *)
(*   description is rendered to, the exact answer classes of the calls     *)
(*   (a text iterator says "last" once more before "end"; a polynomial has *)
(*   no clone; a text clone replays only what remained).                   *)
(* Numbers are rationals <<p, q>>; doubles are logged as                   *)
(* <<sign, m0, m1, m2, m3, e>> (see IterNum).                              *)
(***************************************************************************)
EXTENDS IterNum, FiniteSets

CONSTANTS Sources,   \* source records explored (see the constructors below)
          MaxInst    \* instances per behaviour (source + clones)

VARIABLES src,    \* the source record
          inst,   \* sequence of instances [seq, pos, over, seen, alt]
          todo,   \* remaining scripted calls (walk family)
          obs
vars == <<src, inst, todo, obs>>

---------------------------------------------------------------------------
(* source constructors *)
Linear(via, n, a, b, style) == [kind |-> "linear", via |-> via, n |-> n, a |-> a, b |-> b, style |-> style]
Range(a, b, step, style)    == [kind |-> "range", via |-> "desc", a |-> a, b |-> b, step |-> step, style |-> style]
Factor(n, base, fact, init, form) == [kind |-> "factor", via |-> "desc", n |-> n, base |-> base, fact |-> fact, init |-> init, form |-> form]
IterArg(s)                  == [s EXCEPT !.via = "iterarg"]     \* same source, parameters passed as iterator (full form)
Boundary(via, len, l, m, r) == [kind |-> "boundary", via |-> via, len |-> len, l |-> l, m |-> m, r |-> r]
Poly(via, grid, co, sh)     == [kind |-> "poly", via |-> via, grid |-> grid, co |-> co, sh |-> sh]
                               \* via "profile": "poly <coeff> : <shifts>" on a non-empty grid; "polyapi": mpt_iterator_poly
Values(via, vals)           == [kind |-> "values", via |-> via, vals |-> vals]
Text(vals)                  == [kind |-> "text", via |-> "string", vals |-> vals]
Buffer(via, vals)           == [kind |-> via, via |-> via, vals |-> vals]      \* via = "buffer" | "args"
BufferCut(via, vals, n, nd, keep) == [kind |-> via, via |-> via, vals |-> vals, tail |-> <<n, nd, keep>>]
                               \* a last segment with the nd digits of n of which only `keep` lie inside the used size
                               \* (no terminator; the other digits and the terminator stay behind the used data)
FactorMax                   == [kind |-> "factormax", via |-> "desc"]           \* fac(4294967295): count wraps to 0
FillSrc(fk, len, ld, a, b, c) == [kind |-> "fill", via |-> "fill", fk |-> fk, len |-> len, ld |-> ld, a |-> a, b |-> b, c |-> c]
                               \* mpt_values_linear (fk "linear": a..b) / mpt_values_bound (fk "bound": a, b.., c)
Unknown(via, k)             == [kind |-> "unknown", via |-> via, sep |-> k]  \* description of separators only: SepTexts[k]
WithDeco(S, D)              == {[x \in DOMAIN s \cup {"deco"} |-> IF x = "deco" THEN d ELSE s[x]] : s \in S, d \in D}
                               \* deco = <<leading, between numbers, trailing, around ( : )>>: indices into WS
WithExplore(S, e)           == {[x \in DOMAIN s \cup {"explore"} |-> IF x = "explore" THEN e ELSE s[x]] : s \in S}

(* Tier 1: the elements a source denotes *)
RECURSIVE PolyVal(_, _, _, _)
PolyVal(x, co, sh, j) ==     \* sum_j co[j] * (x + sh[j])^(n - j)
  IF j > Len(co) THEN <<0, 1>>
  ELSE RAdd(RMul(co[j], RPow(RAdd(x, IF j <= Len(sh) THEN sh[j] ELSE <<0, 1>>), Len(co) - j)), PolyVal(x, co, sh, j + 1))

(* decoration of description texts: white space the grammars skip.  ~ ^ $ stand for tab, newline, carriage  *)
(* return (the driver substitutes them when the create call carries esc=1).                                  *)
WS    == <<"", " ", "  ", "~", "^", " ~^ ", "$^", "^^">>
WSLen == <<0, 1, 2, 1, 1, 4, 2, 2>>
HasDeco(s) == "deco" \in DOMAIN s
Ld(s) == IF HasDeco(s) THEN WS[s.deco[1]] ELSE ""
Sp(s) == IF HasDeco(s) THEN WS[s.deco[2]] ELSE " "
Tr(s) == IF HasDeco(s) THEN WS[s.deco[3]] ELSE ""
Pd(s) == IF HasDeco(s) THEN WS[s.deco[4]] ELSE ""
Tk(s, c) == Pd(s) \o c \o Pd(s)                         \* a structural character ( : ) with white space around it
KwSep(s) == IF HasDeco(s) /\ s.deco[4] # 1 THEN Tk(s, ":") ELSE Sp(s)     \* after a profile keyword: white space and/or a colon
SepTexts == <<":", " : ", ",", " , ; ", "()", "( : )", "::", "/", "~:^", ";">>

(* A text iterator skips one separator character behind an element it has read; white space in front of an   *)
(* element belongs to the element.  Text that remains behind the last number is served as one more position  *)
(* without a value (Hole): whether it is an element is not decided by the statement -- both are acceptable.  *)
Hole == <<0, 0>>
HoleText(s) == IF ~HasDeco(s) THEN -1 ELSE IF s.vals = <<>> THEN WSLen[s.deco[1]] + WSLen[s.deco[3]] - 1 ELSE WSLen[s.deco[3]] - 1
               \* characters behind the separator character that follows the last number (no number: all characters, less one); -1: none
HasHole(s) == s.kind = "text" /\ HoleText(s) >= 0
HoleLen(s) == IF s.vals = <<>> THEN HoleText(s) + 1 ELSE HoleText(s)

HasTail(s) == "tail" \in DOMAIN s
RECURSIVE Pow10(_)
Pow10(n) == IF n = 0 THEN 1 ELSE 10 * Pow10(n - 1)
TailVal(s) == s.tail[1] \div Pow10(s.tail[2] - s.tail[3])     \* number read from the digits inside the used size

Elems(s) ==
  CASE s.kind = "linear"   -> [i \in 1..(s.n + 1) |-> RAdd(s.a, RDivI(RMul(RInt(i - 1), RSub(s.b, s.a)), s.n))]
    [] s.kind = "range"    -> LET d == RSub(s.b, s.a)
                                  cnt == (d[1] * s.step[2]) \div (d[2] * s.step[1])    \* floor((b - a) / step)
                              IN [i \in 1..(cnt + 1) |-> RAdd(s.a, RMul(RInt(i - 1), s.step))]
    [] s.kind = "factor"   -> [i \in 1..(s.n + 1) |-> IF i = 1 THEN s.init ELSE RMul(s.base, RPow(s.fact, i - 2))]
    [] s.kind = "boundary" -> [i \in 1..s.len |-> IF i = 1 THEN s.l ELSE IF i = s.len THEN s.r ELSE s.m]
    [] s.kind = "poly"     -> [i \in 1..Len(s.grid) |-> IF s.co = <<>> THEN s.grid[i] ELSE PolyVal(s.grid[i], s.co, s.sh, 1)]
    [] s.kind \in {"values", "text"} -> s.vals
    [] s.kind \in {"buffer", "args"} -> IF HasTail(s) THEN Append(s.vals, RInt(TailVal(s))) ELSE s.vals
    [] s.kind = "factormax" -> <<>>
    [] s.kind = "fill" ->         \* 0 points: nothing; 1 point: the last bound (linear) / the mean of the three (bound), as the code has it
         IF s.len = 0 THEN <<>>
         ELSE IF s.fk = "bound"
         THEN (IF s.len = 1 THEN <<RDivI(RAdd(RAdd(s.a, s.b), s.c), 3)>>
               ELSE [i \in 1..s.len |-> IF i = 1 THEN s.a ELSE IF i = s.len THEN s.c ELSE s.b])
         ELSE (IF s.len = 1 THEN <<s.b>>
               ELSE [i \in 1..s.len |-> RAdd(s.a, RDivI(RMul(RInt(i - 1), RSub(s.b, s.a)), s.len - 1))])

(* Tier 2: are the doubles the code computes exactly the rationals? (all    *)
(* operands dyadic and small: every operation of the code is then exact)    *)
Dyadic(x) == x[2] \in {1, 2, 4, 8, 16, 32, 64}
ExactSrc(s) ==
  CASE s.kind = "linear"   -> Dyadic(s.a) /\ Dyadic(s.b) /\ Dyadic(RDivI(RSub(s.b, s.a), s.n))
    [] s.kind = "range"    -> Dyadic(s.a) /\ Dyadic(s.b) /\ Dyadic(s.step)
    [] s.kind = "factor"   -> Dyadic(s.base) /\ Dyadic(s.fact) /\ Dyadic(s.init)
    [] s.kind = "boundary" -> Dyadic(s.l) /\ Dyadic(s.m) /\ Dyadic(s.r)
    [] s.kind = "poly"     -> (\A i \in 1..Len(s.grid) : Dyadic(s.grid[i])) /\ (\A i \in 1..Len(s.co) : Dyadic(s.co[i]))
                              /\ (\A i \in 1..Len(s.sh) : Dyadic(s.sh[i]))
    [] s.kind \in {"values", "text", "buffer", "args"} -> \A i \in 1..Len(s.vals) : Dyadic(s.vals[i])
    [] s.kind = "fill" -> /\ Dyadic(s.a) /\ Dyadic(s.b) /\ Dyadic(s.c)
                          /\ IF s.fk = "bound" THEN s.len # 1 \/ Dyadic(RDivI(RAdd(RAdd(s.a, s.b), s.c), 3))
                             ELSE s.len <= 1 \/ Dyadic(RDivI(RSub(s.b, s.a), s.len - 1))
    [] OTHER -> TRUE

(* Tier 1: how far a computed double may be from the exact element: 2^t     *)
(* with t = (magnitude of the operands involved) - 48                       *)
MaxMag(S) == LET E == {MagExp(x) : x \in S} IN IF E = {} THEN 0 ELSE CHOOSE e \in E : \A f \in E : f <= e
TolExp(s, x) ==
  (CASE s.kind \in {"linear", "range", "fill"} -> MaxMag({s.a, s.b, x})
     [] s.kind = "poly" -> MaxMag({x} \cup {RMul(RAbs(s.co[j]), RPow(RAdd(RAbs(s.grid[i]), IF j <= Len(s.sh) THEN RAbs(s.sh[j]) ELSE <<0, 1>>), Len(s.co) - j)) :
                                           i \in 1..Len(s.grid), j \in 1..Len(s.co)}) + 3
     [] OTHER -> MagExp(x)) - 48

(* Tier 1: sequences a source may replay; Tier 2: the one the code replays *)
Cands(s) == IF HasHole(s) THEN {Elems(s), Append(Elems(s), Hole)} ELSE {Elems(s)}
DSeq(s)  == IF HasHole(s) THEN Append(Elems(s), Hole) ELSE Elems(s)
HasVal(I) == I.pos < Len(I.seq) /\ I.seq[I.pos + 1] # Hole

---------------------------------------------------------------------------
(* Tier 2: the description text / constructor arguments *)
RECURSIVE Join(_, _)
Join(xs, sep) == IF xs = <<>> THEN "" ELSE IF Len(xs) = 1 THEN RText(xs[1]) ELSE RText(xs[1]) \o sep \o Join(Rest(xs), sep)
N2(n) == ToString(n)

Body(s) ==
  CASE s.kind = "unknown" -> IF s.sep = 0 THEN "" ELSE SepTexts[s.sep]
    [] s.via = "iterarg" ->       \* the parameters as text iterator handed to _mpt_iterator_linear/_range/_factor
         (CASE s.kind = "linear" -> N2(s.n) \o Sp(s) \o RText(s.a) \o Sp(s) \o RText(s.b)
            [] s.kind = "range"  -> RText(s.a) \o Sp(s) \o RText(s.b) \o Sp(s) \o RText(s.step)
            [] s.kind = "factor" -> IF s.form = 1 THEN N2(s.n)
                                    ELSE N2(s.n) \o Sp(s) \o RText(s.base) \o Sp(s) \o RText(s.fact) \o Sp(s) \o RText(s.init))
    [] s.kind = "linear" /\ s.via = "desc" ->
         (CASE s.style = 0 -> "lin" \o Tk(s, "(") \o N2(s.n) \o Tk(s, ":") \o RText(s.a) \o Sp(s) \o RText(s.b) \o Tk(s, ")")
            [] s.style = 1 -> "  Linear ( " \o N2(s.n) \o " : " \o RText(s.a) \o "  " \o RText(s.b) \o " ) "
            [] s.style = 2 -> "LIN" \o Tk(s, "(") \o N2(s.n) \o Tk(s, ")"))                     \* default bounds 0 1
    [] s.kind = "linear" /\ s.via = "profile" ->
         (IF s.style = 0 THEN "lin" \o KwSep(s) ELSE IF HasDeco(s) THEN "Linear" \o KwSep(s) ELSE " linear: ") \o RText(s.a) \o Sp(s) \o RText(s.b)
    [] s.kind = "range" ->
         (CASE s.style = 0 -> "range" \o Tk(s, "(") \o RText(s.a) \o Sp(s) \o RText(s.b) \o Tk(s, ":") \o RText(s.step) \o Tk(s, ")")
            [] s.style = 1 -> " Range( " \o RText(s.a) \o " " \o RText(s.b) \o " : " \o RText(s.step) \o " )"
            [] s.style = 2 -> "range" \o Tk(s, "(") \o RText(s.a) \o Sp(s) \o RText(s.b) \o Tk(s, ")")    \* default step (b - a) / 10
            [] s.style = 3 -> "  "                                                  \* no description: range(0 1:0.1)
            [] s.style = 4 -> "")                                                   \* empty (decorated: blank only)
    [] s.kind = "factor" ->
         (CASE s.form = 1 -> "fac" \o Tk(s, "(") \o N2(s.n) \o Tk(s, ")")
            [] s.form = 2 -> "fact" \o Tk(s, "(") \o N2(s.n) \o Tk(s, ":") \o RText(s.base) \o Tk(s, ")")
            [] s.form = 3 -> "factor" \o Tk(s, "(") \o N2(s.n) \o Tk(s, ":") \o RText(s.base) \o Tk(s, ":") \o RText(s.fact) \o Tk(s, ")")
            [] s.form = 4 -> "fac" \o Tk(s, "(") \o N2(s.n) \o Tk(s, ":") \o RText(s.base) \o Tk(s, "::") \o RText(s.init) \o Tk(s, ")")
            [] s.form = 5 -> IF HasDeco(s)
                             THEN "FAC" \o Tk(s, "(") \o N2(s.n) \o Tk(s, ":") \o RText(s.base) \o Tk(s, ":") \o RText(s.fact) \o Tk(s, ":") \o RText(s.init) \o Tk(s, ")")
                             ELSE " Fac ( " \o N2(s.n) \o " : " \o RText(s.base) \o " : " \o RText(s.fact) \o " : " \o RText(s.init) \o " )")
    [] s.kind = "factormax" -> "fac(4294967295)"
    [] s.kind = "boundary" /\ s.via = "profile" -> (IF HasDeco(s) /\ s.deco[1] > 2 THEN "boundary" ELSE "bound") \o KwSep(s) \o RText(s.l) \o Sp(s) \o RText(s.m) \o Sp(s) \o RText(s.r)
    [] s.kind = "poly" -> (IF s.via = "profile" THEN "poly" \o KwSep(s) ELSE "") \o Join(s.co, Sp(s))
                          \o (IF s.sh = <<>> THEN "" ELSE (IF HasDeco(s) THEN Tk(s, ":") ELSE " : ") \o Join(s.sh, Sp(s)))
    [] s.kind \in {"values", "text"} -> Join(s.vals, Sp(s))
    [] s.kind \in {"buffer", "args"} ->
         IF HasTail(s) THEN (IF s.vals = <<>> THEN "" ELSE Join(s.vals, "|") \o "|") \o ToString(s.tail[1]) ELSE Join(s.vals, "|")
    [] OTHER -> ""
Desc(s) == Ld(s) \o Body(s) \o Tr(s)

CreateArg0(s) ==
  CASE s.kind = "unknown" -> [via |-> s.via, desc |-> Desc(s)]
    [] s.via = "iterarg" -> [via |-> "iterarg", kind |-> s.kind, desc |-> Desc(s)]
    [] s.kind = "linear" /\ s.via = "api"     -> [via |-> "linear", len |-> s.n + 1, a |-> s.a, b |-> s.b]
    [] s.kind = "linear" /\ s.via = "profile" -> [via |-> "profile", len |-> s.n + 1, desc |-> Desc(s)]
    [] s.kind = "boundary" /\ s.via = "api"     -> [via |-> "boundary", len |-> s.len, a |-> s.l, b |-> s.m, c |-> s.r]
    [] s.kind = "boundary" /\ s.via = "profile" -> [via |-> "profile", len |-> s.len, desc |-> Desc(s)]
    [] s.kind = "poly"   -> [via |-> IF s.via = "profile" THEN "poly" ELSE "polyapi", grid |-> s.grid, desc |-> Desc(s)]
    [] s.kind = "values" -> [via |-> s.via, desc |-> Desc(s)]              \* "values" | "desc"
    [] s.kind = "text"   -> [via |-> "string", desc |-> Desc(s)]
    [] s.kind \in {"buffer", "args"} ->       \* cut: bytes at the end of the data that lie behind the used size
         [via |-> s.kind, desc |-> Desc(s), cut |-> IF HasTail(s) THEN 1 + s.tail[2] - s.tail[3] ELSE 0]
    [] OTHER -> [via |-> "desc", desc |-> Desc(s)]
CreateArg(s) == LET c == CreateArg0(s) IN
  IF HasDeco(s) THEN [x \in DOMAIN c \cup {"esc"} |-> IF x = "esc" THEN 1 ELSE c[x]] ELSE c

(* Tier 2: the double of an exactly computed small dyadic element *)
DOf(x) == <<IF x[1] < 0 THEN 1 ELSE 0, Abs(x[1]) % B, Abs(x[1]) \div B, 0, 0,
            CASE x[2] = 1 -> 0 [] x[2] = 2 -> -1 [] x[2] = 4 -> -2 [] x[2] = 8 -> -3 [] x[2] = 16 -> -4
              [] x[2] = 32 -> -5 [] x[2] = 64 -> -6 [] x[2] = 128 -> -7 [] x[2] = 256 -> -8 [] x[2] = 512 -> -9 [] x[2] = 1024 -> -10
              [] OTHER -> 99>>
DExp(s, x) == IF ExactSrc(s) /\ DOf(x)[6] # 99 /\ Abs(x[1]) < B * B THEN DOf(x) ELSE <<>>   \* <<>>: not predicted

TextLike(s) == s.kind = "text"
Cloneable(s) == s.kind # "poly"

---------------------------------------------------------------------------
(* Tier 1: acceptable answers *)
T1Value(s, I, ret, d) ==
  IF HasVal(I)
  THEN ret = "value" /\ Near(d, I.seq[I.pos + 1], TolExp(s, I.seq[I.pos + 1]))
  ELSE ret = "end"                                    \* reading past the end is reported
T1Advance(I, ret) ==
  IF I.pos + 1 < Len(I.seq) THEN ret = "more"
  ELSE IF I.pos + 1 = Len(I.seq) THEN ret = "last"    \* no further element
  ELSE ret \in {"last", "end"}                        \* advancing past the end is reported
T1Consume(s, I, ret, d) ==                            \* mpt_iterator_consume: value and advance in one
  IF HasVal(I) THEN ret = "value" /\ Near(d, I.seq[I.pos + 1], TolExp(s, I.seq[I.pos + 1]))
  ELSE ret = "end"
T1Reset(ret)  == ret = "ok"
T1Clone(ret)  == ret \in {"ok", "none"}

(* instance transitions (shared by both tiers) *)
Fresh(seq) == [seq |-> seq, pos |-> 0, over |-> 0, seen |-> FALSE, alt |-> seq]
Remaining(I) == SubSeq(I.seq, I.pos + 1, Len(I.seq))
Min2(a, b) == IF a < b THEN a ELSE b

Answer(a, i, exp) == obs' = [a |-> a, arg |-> [i |-> i], exp |-> exp]

Value(i, ret, d) ==
  /\ i \in 1..Len(inst)
  /\ inst' = [inst EXCEPT ![i].seen = TRUE]
  /\ Answer("value", i, [ret |-> ret, d |-> d])
  /\ UNCHANGED src

Advance(i, ret) ==
  /\ i \in 1..Len(inst)
  /\ LET I == inst[i] IN
     inst' = [inst EXCEPT ![i] = [I EXCEPT !.pos = Min2(I.pos + 1, Len(I.seq)),
                                          !.over = IF I.pos >= Len(I.seq) THEN Min2(I.over + 1, 2) ELSE 0,
                                          !.seen = FALSE]]
  /\ Answer("advance", i, [ret |-> ret])
  /\ UNCHANGED src

Consume(i, ret, d) ==
  /\ i \in 1..Len(inst)
  /\ LET I == inst[i] IN
     inst' = IF HasVal(I) THEN [inst EXCEPT ![i] = [I EXCEPT !.pos = I.pos + 1, !.over = 0, !.seen = FALSE]] ELSE inst
  /\ Answer("consume", i, [ret |-> ret, d |-> d])
  /\ UNCHANGED src

Reset(i, ret, seq) ==        \* seq: the sequence replayed from now on
  /\ i \in 1..Len(inst)
  /\ seq \in {inst[i].seq, inst[i].alt}
  /\ inst' = [inst EXCEPT ![i] = Fresh(seq)]
  /\ Answer("reset", i, [ret |-> ret])
  /\ UNCHANGED src

Clone(i, ret, new) ==        \* new: the instance created
  /\ i \in 1..Len(inst)
  /\ inst' = IF ret = "ok" THEN Append(inst, new) ELSE inst
  /\ Answer("clone", i, [ret |-> ret])
  /\ UNCHANGED src

(* Tier 1 clone: same remaining elements; after a reset it replays either   *)
(* the whole sequence or what remained when it was taken                    *)
CloneT1(I) == [seq |-> I.seq, pos |-> I.pos, over |-> 0, seen |-> FALSE, alt |-> Remaining(I)]
(* Tier 2 clone *)
CloneT2(s, I) == IF TextLike(s) THEN Fresh(Remaining(I)) ELSE [Fresh(I.seq) EXCEPT !.pos = I.pos]

(* Tier 2: the answers of the code *)
ValueT2(i) ==
  LET I == inst[i] IN
  IF HasVal(I) THEN Value(i, "value", DExp(src, I.seq[I.pos + 1])) ELSE Value(i, "end", <<>>)
(* a text iterator answers "last" once more before "end", unless it stopped on remaining text of length 0 *)
ExtraLast(s, I) == I.seq = <<>> \/ I.seq[Len(I.seq)] # Hole \/ HoleLen(s) > 0
AdvanceT2(i) ==
  LET I == inst[i] n == Len(I.seq) IN
  Advance(i, IF I.pos + 1 < n THEN "more" ELSE IF I.pos + 1 = n THEN "last"
             ELSE IF TextLike(src) /\ I.over = 0 /\ ExtraLast(src, I) THEN "last" ELSE "end")
ConsumeT2(i) ==
  LET I == inst[i] IN
  IF HasVal(I) THEN Consume(i, "value", DExp(src, I.seq[I.pos + 1])) ELSE Consume(i, "end", <<>>)
Consumable(s) == s.kind \notin {"buffer", "args"}      \* string elements are not converted to numbers by consume
ResetT2(i) == Reset(i, "ok", inst[i].seq)
CloneT2Act(i) ==
  /\ Len(inst) < MaxInst
  /\ Len(inst) >= 2 => Len(inst[1].seq) <= 1        \* a third instance only for the shortest sources (size of the export)
  /\ IF Cloneable(src) THEN Clone(i, "ok", CloneT2(src, inst[i])) ELSE Clone(i, "none", inst[i])

(* mpt_values_linear / mpt_values_bound: the whole sequence written to a strided array *)
FillAct ==
  /\ obs' = [a |-> "fill", arg |-> [kind |-> src.fk, len |-> src.len, ld |-> src.ld, a |-> src.a, b |-> src.b, c |-> src.c],
             exp |-> [vals |-> IF ExactSrc(src) THEN [i \in 1..src.len |-> DExp(src, Elems(src)[i])] ELSE <<>>, clean |-> 1]]
  /\ UNCHANGED <<src, inst>>

AnyAct(c) ==      \* a description the statement does not decide: any answer (no fault; replay is judged on the recorded run)
  /\ obs' = [a |-> (CASE c[1] = "V" -> "value" [] c[1] = "A" -> "advance" [] c[1] = "R" -> "reset" [] c[1] = "C" -> "clone" [] OTHER -> "consume"),
             arg |-> [i |-> c[2]], exp |-> [ret |-> "any"]]
  /\ UNCHANGED <<src, inst>>

Do(c) ==
  CASE src.kind = "unknown" -> AnyAct(c)
    [] c[1] = "F" -> FillAct
    [] c[1] = "V" -> ValueT2(c[2])
    [] c[1] = "A" -> AdvanceT2(c[2])
    [] c[1] = "R" -> ResetT2(c[2])
    [] c[1] = "X" -> ConsumeT2(c[2])
    [] c[1] = "C" -> CloneT2Act(c[2])

(* the documented loop, past the end, reset, half a walk, clone, ... *)
Rep(xs, n) == IF n <= 0 THEN <<>> ELSE [i \in 1..(n * Len(xs)) |-> xs[((i - 1) % Len(xs)) + 1]]   \* xs repeated n times
Script(s) ==
  LET n == Len(DSeq(s))
      h == (n + 1) \div 2
      VA1 == <<<<"V", 1>>, <<"A", 1>>>>
      VA2 == <<<<"V", 2>>, <<"A", 2>>>>
  IN Rep(VA1, n) \o VA1 \o <<<<"R", 1>>>> \o Rep(VA1, h)
     \o (IF Cloneable(s) THEN <<<<"C", 1>>>> \o Rep(VA2, n - h) \o VA2 \o <<<<"R", 2>>>> \o VA2 ELSE <<>>)
     \o VA1
     \* read-then-reset probe: a value read at a position > 0 and NOT followed by an advance, then reset, then read
     \* again (a source that caches the value it handed out must not serve it after the reset; seed C19-10)
     \o <<<<"R", 1>>>> \o Rep(VA1, h) \o <<<<"V", 1>>, <<"R", 1>>, <<"V", 1>>, <<"A", 1>>, <<"V", 1>>>>
     \o (IF Consumable(s) THEN <<<<"R", 1>>>> \o Rep(<<<<"X", 1>>>>, n + 1) ELSE <<>>)

(* undecided description: walk, reset, the same walk, clone of the reset source, the same walk *)
ScriptU ==
  LET W(i) == Rep(<<<<"V", i>>, <<"A", i>>>>, 4)
  IN W(1) \o <<<<"R", 1>>>> \o W(1) \o <<<<"R", 1>>, <<"C", 1>>>> \o W(2)

---------------------------------------------------------------------------
Init ==
  /\ src \in Sources
  /\ inst = IF src.kind \in {"fill", "unknown"} THEN <<>> ELSE <<Fresh(DSeq(src))>>
  /\ todo = IF src.kind = "fill" THEN <<<<"F", 0>>>> ELSE IF src.kind = "unknown" THEN ScriptU ELSE IF src.explore THEN <<>> ELSE Script(src)
  /\ obs = IF src.kind = "fill"
           THEN [a |-> "nop", arg |-> [x |-> 0], src |-> src, exp |-> [ret |-> "ok"]]
           ELSE IF src.kind = "unknown"
           THEN [a |-> "create", arg |-> CreateArg(src), src |-> src, exp |-> [ret |-> "any"]]
           ELSE [a |-> "create", arg |-> CreateArg(src), src |-> src, exp |-> [ret |-> "ok"]]

Next ==
  \/ /\ todo # <<>>
     /\ Do(todo[1])
     /\ todo' = Rest(todo)
  \/ /\ todo = <<>> /\ src.explore
     /\ UNCHANGED todo
     /\ \E i \in 1..Len(inst) :
          \/ ValueT2(i)
          \/ (TextLike(src) => inst[i].seen \/ inst[i].pos >= Len(inst[i].seq)) /\ AdvanceT2(i)
          \/ ResetT2(i)
          \/ Consumable(src) /\ ConsumeT2(i)
          \/ CloneT2Act(i)

Spec == Init /\ [][Next]_vars

---------------------------------------------------------------------------
TypeOK ==
  /\ Len(inst) \in 0..MaxInst
  /\ \A i \in 1..Len(inst) : inst[i].pos \in 0..Len(inst[i].seq) /\ inst[i].over \in 0..2

(* every answer of the design is acceptable to the meaning (Tier 2 => Tier 1) *)
Accepts ==
  [][ LET i == IF obs'.a = "fill" THEN 0 ELSE obs'.arg.i IN
      IF src.kind = "unknown" THEN TRUE ELSE
      CASE obs'.a = "value"   -> IF obs'.exp.d = <<>> THEN obs'.exp.ret = (IF HasVal(inst[i]) THEN "value" ELSE "end")
                                 ELSE T1Value(src, inst[i], obs'.exp.ret, obs'.exp.d) /\ Exactly(obs'.exp.d, inst[i].seq[inst[i].pos + 1])
        [] obs'.a = "consume" -> IF obs'.exp.d = <<>> THEN obs'.exp.ret = (IF HasVal(inst[i]) THEN "value" ELSE "end")
                                 ELSE T1Consume(src, inst[i], obs'.exp.ret, obs'.exp.d)
        [] obs'.a = "advance" -> T1Advance(inst[i], obs'.exp.ret)
        [] obs'.a = "reset"   -> T1Reset(obs'.exp.ret)
        [] obs'.a = "clone"   -> T1Clone(obs'.exp.ret) /\ (obs'.exp.ret = "ok" =>
                                    /\ Remaining(inst'[Len(inst')]) = Remaining(inst[i])
                                    /\ inst'[Len(inst')].seq \in {CloneT1(inst[i]).seq, CloneT1(inst[i]).alt})
        [] obs'.a = "fill"    -> obs'.exp.vals = <<>> \/ \A k \in 1..src.len : Exactly(obs'.exp.vals[k], Elems(src)[k])
        [] OTHER -> TRUE ]_vars

(* the documented loop visits exactly the denoted elements: an instance at  *)
(* position 0 that is read and advanced until "last" has answered one value *)
(* per element, in order (ghost: positions only move by advance/reset)      *)
(* the sequence the design replays is one the meaning admits; its numbers are exactly the denoted elements *)
SeqOK == src.kind \in {"fill", "unknown", "none"} \/ (DSeq(src) \in Cands(src) /\ SelectSeq(DSeq(src), LAMBDA x : x # Hole) = Elems(src))

LoopVisits ==
  [][ obs'.a = "advance" /\ src.kind # "unknown" =>
        LET i == obs'.arg.i IN
        /\ (obs'.exp.ret = "more" <=> inst'[i].pos < Len(inst[i].seq))
        /\ (obs'.exp.ret = "last" /\ inst[i].pos < Len(inst[i].seq) => inst'[i].pos = Len(inst[i].seq)) ]_vars
=============================================================================
