----------------------------- MODULE RawStream -----------------------------
(***************************************************************************)
(* X02 (extension of C02): the byte stream paths of the stream code that   *)
(* do not go through a framing.                                            *)
(*                                                                         *)
(* Section "raw": encode_queue -> wire -> decode_queue WITHOUT encoder /    *)
(* decoder (mpt_queue_push direct append, push(0,0) marks the data done,   *)
(* push(1,NULL) discards the unfinished bytes; mpt_queue_recv / peek /     *)
(* shift without decoder).                                                 *)
(* Section "file": struct stream on a file (mpt_stream_open in read, write *)
(* and append mode, write / read / getc / seek / flush / close, raw        *)
(* mpt_stream_push, buffered and unbuffered, line end flags).              *)
(*                                                                         *)
(* The statement of C02 in these words: a byte stream is a sequence; what  *)
(* is read (in any segmentation of read calls, with seeks) is exactly what *)
(* was written at those positions -- same count, same order, same bytes,   *)
(* nothing lost, duplicated or merged; bytes marked done leave in order    *)
(* exactly once; a discard removes exactly the unfinished bytes; a file    *)
(* reopened for reading yields the bytes flushed before; a line end is the *)
(* documented byte string of the stream's newline flag and nothing else.   *)
(*                                                                         *)
(* Tier 1 (meaning): byte sequences (usent, uw, uwire, urin; want, disk)   *)
(* and positions.  Tier 2 (design): the counters of the queue states       *)
(* (wq2: done/scratch, rq2: pos/len/msg) and the buffers of the file       *)
(* stream (wbuf at file offset wat, read-ahead rbuf), linked to Tier 1 by  *)
(* the refinement invariants below.                                        *)
(***************************************************************************)
EXTENDS Naturals, Integers, Sequences, FiniteSets, TLC

CONSTANTS Shapes,     \* init arguments: [sec |-> "raw", via, wcap, woff, rcap, roff, grow] or [sec |-> "file", pre]
          Datas,      \* byte strings offered to write / push on a file stream
          RawDatas,   \* byte strings offered to push on the unframed queue
          Ks,         \* sizes offered to flush / deliver / read / peek (1000000 = everything)
          OpenArgs,   \* [m, nl, fl, buf, via] offered to open
          SeekArgs,   \* [off, wh] offered to seek
          Parts,      \* element sizes offered to write / read
          Early,      \* numbers of buffered bytes the implementation may write out early (design freedom)
          Ahead,      \* numbers of bytes the implementation may load ahead of a read (design freedom)
          MaxOps,     \* history length bound, section file
          RawOps      \* history length bound, section raw

VARIABLES shape, nops, obs,
          \* ---- section raw, Tier 1
          uw,         \* writer queue: [fin |-> finished bytes not yet taken, open |-> unfinished bytes]
          usent,      \* ghost: every byte ever marked done, in order
          uwire,      \* taken from the writer, not yet delivered
          urin,       \* delivered into the reader queue (raw data stays there)
          uwin,       \* [pos, len]: the part handed out by the last receive
          \* ---- section raw, Tier 2
          wq2,        \* [done, scratch] of the encode_state
          rq2,        \* [pos, len, msg] of the decode_state
          \* ---- section file, Tier 1
          fs,         \* stream: [st, m, nl, fl, buf, via, pos, lin, sty]
          want,       \* the file as written: every accepted write applied at its position
          pend,       \* bytes pushed but not finished (raw mpt_stream_push)
          \* ---- section file, Tier 2
          disk,       \* the file's bytes
          wbuf, wat,  \* write buffer and the file offset its first byte belongs to
          rbuf        \* read-ahead
uvars == <<uw, usent, uwire, urin, uwin, wq2, rq2>>
fvars == <<fs, want, pend, disk, wbuf, wat, rbuf>>
vars  == <<shape, nops, obs, uvars, fvars>>

---------------------------------------------------------------------------
ALL == 1000000
FirstN(s, n) == SubSeq(s, 1, n)
Drop(s, n)   == SubSeq(s, n + 1, Len(s))
MinOf(a, b)  == IF a < b THEN a ELSE b
MaxOf(a, b)  == IF a > b THEN a ELSE b
SetMax(S)    == CHOOSE x \in S : \A y \in S : y <= x
IsPrefix(s, t) == Len(s) <= Len(t) /\ \A i \in 1..Len(s) : s[i] = t[i]
\* d written over s at offset at (a gap between the end of s and at is filled with zero bytes)
Overlay(s, at, d) ==
  IF d = <<>> THEN s
  ELSE [i \in 1..MaxOf(Len(s), at + Len(d)) |->
          IF i > at /\ i <= at + Len(d) THEN d[i - at] ELSE IF i <= Len(s) THEN s[i] ELSE 0]
Zeros(n) == [i \in 1..n |-> 0]

\* the documented line ends (mptcore/convert/newline_string.c; "-" = platform default = UNIX here)
NlStr(nl) == CASE nl = "m" -> <<13>> [] nl = "n" -> <<13, 10>> [] OTHER -> <<10>>
\* the complete lines of s: everything up to and including the last line end
LinesOf(s, nl) ==
  LET t == NlStr(nl)
      ends == {i \in 1..Len(s) : i >= Len(t) /\ SubSeq(s, i - Len(t) + 1, i) = t}
  IN IF ends = {} THEN <<>> ELSE FirstN(s, SetMax(ends))

Answer(a, arg, exp) == obs' = [a |-> a, arg |-> arg, exp |-> exp]
Count == nops' = nops + 1
IsRaw  == shape.sec = "raw"
IsFile == shape.sec = "file"

---------------------------------------------------------------------------
(* Section raw, Tier 2: the arithmetic of mpt_queue_push / mpt_queue_recv / *)
(* mpt_queue_peek without encoder / decoder on the state counters          *)
OpPush(q, n)    == [q EXCEPT !.scratch = @ + n]
OpDone(q)       == [done |-> q.done + q.scratch, scratch |-> 0]
OpDiscardOk(q, n) == q.scratch > 0 /\ n <= 1
OpDiscard(q)    == [q EXCEPT !.scratch = 0]
OpTake(q, n)    == [q EXCEPT !.done = @ - n]
\* receive on a queue holding L bytes
OpRecvEnd(r)    == r.pos + (IF r.msg >= 0 THEN r.msg ELSE r.len)
OpRecv(r, L)    == [pos |-> OpRecvEnd(r), len |-> L - OpRecvEnd(r), msg |-> r.msg]
OpPeekOff(r)    == r.pos + (IF r.msg >= 0 THEN r.msg ELSE 0)

(* the writer appends unfinished bytes *)
UPush(d) ==
  /\ IsRaw /\ d # <<>>
  /\ uw' = [uw EXCEPT !.open = @ \o d]
  /\ wq2' = OpPush(wq2, Len(d))
  /\ UNCHANGED <<usent, uwire, urin, uwin, rq2>>
  /\ Answer("push", [data |-> d], [ret |-> "ok"])

(* push(0,0): everything in the queue is finished; answers the finished size *)
UDone ==
  /\ IsRaw
  /\ uw' = [fin |-> uw.fin \o uw.open, open |-> <<>>]
  /\ usent' = usent \o uw.open
  /\ wq2' = OpDone(wq2)
  /\ UNCHANGED <<uwire, urin, uwin, rq2>>
  /\ Answer("done", [x |-> 0], [ret |-> "ok", n |-> Len(uw.fin) + Len(uw.open)])

(* push(n,NULL): exactly the unfinished bytes go away (n = 1, something unfinished); otherwise refused *)
UDiscard(n) ==
  /\ IsRaw
  /\ IF OpDiscardOk(wq2, n)
     THEN /\ uw' = [uw EXCEPT !.open = <<>>]
          /\ wq2' = OpDiscard(wq2)
          /\ Answer("discard", [n |-> n], [ret |-> "ok"])
     ELSE /\ UNCHANGED <<uw, wq2>>
          /\ Answer("discard", [n |-> n], [ret |-> "refused"])
  /\ UNCHANGED <<usent, uwire, urin, uwin, rq2>>

(* up to k finished bytes leave the writer queue (mpt_queue_crop + done, or encode_queue::trim) *)
UFlush(k) ==
  LET n == MinOf(k, Len(uw.fin)) IN
  /\ IsRaw /\ k >= 1 /\ n >= 1
  /\ uwire' = uwire \o FirstN(uw.fin, n)
  /\ uw' = [uw EXCEPT !.fin = Drop(@, n)]
  /\ wq2' = OpTake(wq2, n)
  /\ UNCHANGED <<usent, urin, uwin, rq2>>
  /\ Answer("flush", [n |-> k], [ret |-> "ok", out |-> FirstN(uw.fin, n)])

(* encode_queue::trim of more than the finished bytes is refused *)
UOvertrim(n) ==
  /\ IsRaw /\ shape.via = "cxx" /\ n >= 1
  /\ UNCHANGED uvars
  /\ Answer("overtrim", [n |-> n], [ret |-> "refused"])

UDeliver(k) ==
  LET n == MinOf(k, Len(uwire)) IN
  /\ IsRaw /\ k >= 1 /\ n >= 1
  /\ urin' = urin \o FirstN(uwire, n)
  /\ uwire' = Drop(uwire, n)
  /\ UNCHANGED <<uw, usent, uwin, wq2, rq2>>
  /\ Answer("deliver", [n |-> k], [ret |-> "ok", out |-> FirstN(uwire, n)])

(* without decoder a receive hands out the data that arrived since the last one as the current part *)
URecv ==
  /\ IsRaw
  /\ IF urin = <<>>
     THEN /\ UNCHANGED <<uwin, rq2>>
          /\ Answer("recv", [x |-> 0], [ret |-> "none", data |-> <<>>])
     ELSE LET p == uwin.pos + uwin.len IN
          /\ uwin' = [pos |-> p, len |-> Len(urin) - p]
          /\ rq2' = OpRecv(rq2, Len(urin))
          /\ Answer("recv", [x |-> 0], [ret |-> "part", data |-> Drop(urin, p)])
  /\ UNCHANGED <<uw, usent, uwire, urin, wq2>>

(* a peek shows the bytes from the current part on; nothing changes *)
UPeek(max, dst) ==
  LET off == OpPeekOff(rq2)
      av  == Len(urin) - off
      n   == MinOf(max, av) IN
  /\ IsRaw
  /\ UNCHANGED uvars
  /\ Answer("peek", [max |-> max, dst |-> dst],
            IF urin = <<>> THEN [n |-> -1, data |-> <<>>]
            ELSE IF dst = 1 THEN [n |-> n, data |-> SubSeq(urin, off + 1, off + n)]
            ELSE [n |-> av, data |-> <<>>])

UShift ==
  /\ IsRaw
  /\ UNCHANGED uvars
  /\ Answer("shift", [x |-> 0], [ret |-> "ok"])

UNext ==
  /\ UNCHANGED fvars
  /\ \/ \E d \in RawDatas : UPush(d)
     \/ UDone
     \/ \E n \in {1, 2} : UDiscard(n) \/ UOvertrim(n)
     \/ \E k \in Ks : UFlush(k) \/ UDeliver(k)
     \/ URecv
     \/ \E k \in Ks, dst \in {0, 1} : UPeek(IF k = ALL THEN 9 ELSE k, dst)
     \/ UShift

---------------------------------------------------------------------------
(* Section file *)
Closed == [st |-> "closed", m |-> "-", nl |-> "-", fl |-> 0, buf |-> 1, via |-> "c", pos |-> 0, lin |-> FALSE, sty |-> "none"]
Opened  == IsFile /\ fs.st = "open"
Writing == Opened /\ fs.m \in {"w", "a"}
Reading == Opened /\ fs.m = "r"
\* where the next written byte goes
WPos == IF fs.m = "a" THEN Len(want) ELSE fs.pos
\* the file with the write buffer applied (Tier 2 view of `want`)
Buffered == IF fs.m = "a" THEN disk \o wbuf ELSE Overlay(disk, wat, wbuf)
\* write out the first k buffered bytes
Spill(k) == IF fs.m = "a" THEN disk \o FirstN(wbuf, k) ELSE Overlay(disk, wat, FirstN(wbuf, k))
\* the complete lines are demanded in the file while the stream flushes at line ends and wrote from an empty file on
WithLines(r, w, keep) == IF keep THEN r @@ [lines |-> LinesOf(w, fs.nl)] ELSE r

(* open; on a write stream that is still open (same object) mpt_stream_open closes it first: everything that       *)
(* belongs to the old stream is in the file, unfinished bytes are dropped.  The file is looked at after the call. *)
FOpen(a) ==
  LET re == fs.st = "open" IN
  /\ IsFile
  /\ fs.st = "closed" \/ (Writing /\ a.via = fs.via)
  /\ disk' = Buffered
  /\ fs' = [st |-> "open", m |-> a.m, nl |-> a.nl, fl |-> a.fl, buf |-> a.buf, via |-> a.via,
            pos |-> 0, lin |-> (a.fl = 1 /\ Buffered = <<>>), sty |-> "none"]
  /\ want' = Buffered /\ pend' = <<>> /\ wbuf' = <<>> /\ wat' = 0 /\ rbuf' = <<>>
  /\ Answer("open", [m |-> a.m, nl |-> a.nl, fl |-> a.fl, buf |-> a.buf, via |-> a.via, re |-> IF re THEN 1 ELSE 0],
            [ret |-> "ok", disk |-> IF re THEN want ELSE disk])

(* count elements of size part are written at the stream position; e of the buffered bytes go out early *)
WriteBytes(a, arg, d, e) ==
  LET w2  == Overlay(want, WPos, d)
      wb2 == wbuf \o d
      k   == IF fs.buf = 0 THEN Len(wb2) ELSE MinOf(e, Len(wb2))
      split == fs.nl = "n" /\ d # <<>> /\ d[1] = 10 /\ WPos >= 1 /\ want[WPos] = 13
      keep == fs.lin /\ ~split IN
  /\ want' = w2
  /\ fs' = [fs EXCEPT !.pos = WPos + Len(d), !.sty = "write", !.lin = keep]
  /\ disk' = (IF fs.m = "a" THEN disk \o FirstN(wb2, k) ELSE Overlay(disk, wat, FirstN(wb2, k)))
  /\ wbuf' = Drop(wb2, k)
  /\ wat' = wat + k
  /\ UNCHANGED <<pend, rbuf>>
  /\ Answer(a, arg, WithLines([n |-> Len(d) \div arg.part], w2, keep))

\* an unbuffered stream writes single bytes only (ENOTSUP otherwise): refused, nothing changes
Refused(a, arg) ==
  /\ UNCHANGED fvars
  /\ Answer(a, arg, [n |-> 0])

FWrite(d, part, e) ==
  /\ Writing /\ fs.sty # "push" /\ d # <<>> /\ Len(d) % part = 0
  /\ IF fs.buf = 0 /\ part # 1
     THEN Refused("write", [data |-> d, part |-> part])
     ELSE WriteBytes("write", [data |-> d, part |-> part], d, e)

FZeros(n, part, e) ==
  /\ Writing /\ fs.sty # "push" /\ n >= 1
  /\ IF fs.buf = 0
     THEN Refused("zeros", [n |-> n, part |-> part])
     ELSE WriteBytes("zeros", [n |-> n, part |-> part], Zeros(n * part), e)

(* stream::endline(): the line end of the stream's newline flag, as one element *)
FEndl(e) ==
  LET d == NlStr(fs.nl) IN
  /\ Writing /\ fs.sty # "push"
  /\ IF fs.buf = 0 /\ Len(d) # 1
     THEN /\ UNCHANGED fvars
          /\ Answer("endl", [x |-> 0], [ret |-> "failed"])
     ELSE LET w2 == Overlay(want, WPos, d)
              wb2 == wbuf \o d
              k == IF fs.buf = 0 THEN Len(wb2) ELSE MinOf(e, Len(wb2)) IN
          /\ want' = w2
          /\ fs' = [fs EXCEPT !.pos = WPos + Len(d), !.sty = "write"]
          /\ disk' = (IF fs.m = "a" THEN disk \o FirstN(wb2, k) ELSE Overlay(disk, wat, FirstN(wb2, k)))
          /\ wbuf' = Drop(wb2, k) /\ wat' = wat + k
          /\ UNCHANGED <<pend, rbuf>>
          /\ Answer("endl", [x |-> 0], WithLines([ret |-> "ok"], w2, fs.lin))

(* raw mpt_stream_push: bytes of an unfinished line ... *)
FPush(d) ==
  /\ Writing /\ fs.buf = 1 /\ fs.sty # "write" /\ d # <<>>
  /\ pend' = pend \o d
  /\ fs' = [fs EXCEPT !.sty = "push", !.lin = FALSE]
  /\ UNCHANGED <<want, disk, wbuf, wat, rbuf>>
  /\ Answer("push", [data |-> d], [ret |-> "ok"])

(* ... finished by push(0,0): the line end is added, the line belongs to the stream *)
FEnd ==
  LET d == pend \o NlStr(fs.nl) IN
  /\ Writing /\ fs.buf = 1 /\ fs.sty # "write"
  /\ want' = Overlay(want, WPos, d)
  /\ wbuf' = wbuf \o d
  /\ pend' = <<>>
  /\ fs' = [fs EXCEPT !.pos = WPos + Len(d), !.sty = "push", !.lin = FALSE]
  /\ UNCHANGED <<disk, wat, rbuf>>
  /\ Answer("end", [x |-> 0], [ret |-> "ok"])

(* ... or dropped by push(1,NULL): exactly the unfinished bytes go away (what the call answers is not demanded) *)
FDrop ==
  /\ Writing /\ fs.buf = 1 /\ fs.sty # "write"
  /\ pend' = <<>>
  /\ fs' = [fs EXCEPT !.sty = "push", !.lin = FALSE]
  /\ UNCHANGED <<want, disk, wbuf, wat, rbuf>>
  /\ Answer("drop", [x |-> 0], [ret |-> "any"])

(* flush: everything that belongs to the stream is in the file *)
FFlush ==
  /\ Opened
  /\ disk' = Buffered
  /\ wat' = wat + Len(wbuf) /\ wbuf' = <<>>
  /\ UNCHANGED <<fs, want, pend, rbuf>>
  /\ Answer("flush", [x |-> 0], [ret |-> IF pend # <<>> THEN "remaining" ELSE "clean", disk |-> IF Writing THEN want ELSE disk])

(* close: the same, unfinished bytes are dropped *)
FClose ==
  /\ Opened
  /\ disk' = Buffered
  /\ fs' = Closed
  /\ want' = Buffered /\ pend' = <<>> /\ wbuf' = <<>> /\ wat' = 0 /\ rbuf' = <<>>
  /\ Answer("close", [x |-> 0], [ret |-> "ok", disk |-> IF Writing THEN want ELSE disk])

\* absolute target of a seek request
Target(a, end) == CASE a.wh = "set" -> a.off [] a.wh = "cur" -> fs.pos + a.off [] OTHER -> end + a.off

(* seek: a target before the start of the file is refused; a write stream is flushed first; in append mode the   *)
(* position is not demanded (writes go to the end anyway)                                                      *)
FSeek(a) ==
  /\ Opened
  /\ IF Reading
     THEN LET t == Target(a, Len(disk)) IN
          IF t < 0
          THEN /\ UNCHANGED fvars
               /\ Answer("seek", a, [ret |-> "failed", pos |-> -1])
          ELSE /\ fs' = [fs EXCEPT !.pos = t]
               /\ rbuf' = <<>>
               /\ UNCHANGED <<want, pend, disk, wbuf, wat>>
               /\ Answer("seek", a, [ret |-> "ok", pos |-> t])
     ELSE IF pend # <<>>
     THEN /\ UNCHANGED fvars
          /\ Answer("seek", a, [ret |-> "failed", pos |-> -1])
     ELSE LET t == Target(a, Len(want)) IN
          /\ disk' = Buffered /\ wbuf' = <<>>
          /\ UNCHANGED <<want, pend, rbuf>>
          /\ IF t < 0
             THEN /\ wat' = wat + Len(wbuf)
                  /\ fs' = [fs EXCEPT !.lin = FALSE]
                  /\ Answer("seek", a, IF fs.m = "a" THEN [ret |-> "any"] ELSE [ret |-> "failed", pos |-> -1])
             ELSE /\ wat' = t
                  /\ fs' = [fs EXCEPT !.pos = IF fs.m = "a" THEN @ ELSE t, !.lin = FALSE, !.sty = "none"]
                  /\ Answer("seek", a, IF fs.m = "a" THEN [ret |-> "any"] ELSE [ret |-> "ok", pos |-> t])

\* Tier 2 of reading: the bytes come out of the read-ahead, which is refilled from the file with some look-ahead h
Avail == MaxOf(0, Len(disk) - fs.pos)
Refill(need, h) ==
  LET have == Len(rbuf)
      load == IF need <= have THEN 0 ELSE MinOf(need - have + h, MaxOf(0, Len(disk) - (fs.pos + have))) IN
  rbuf \o SubSeq(disk, fs.pos + have + 1, fs.pos + have + load)

FRead(n, part, h) ==
  LET got == MinOf(n, Avail \div part)
      rb  == Refill(got * part, h) IN
  /\ Reading /\ n >= 1
  /\ fs' = [fs EXCEPT !.pos = @ + got * part]
  /\ rbuf' = Drop(rb, got * part)
  /\ UNCHANGED <<want, pend, disk, wbuf, wat>>
  /\ Answer("read", [n |-> n, part |-> part], [n |-> got, data |-> FirstN(rb, got * part)])

FSkip(n, h) ==
  LET got == MinOf(n, Avail)
      rb  == Refill(got, h) IN
  /\ Reading /\ n >= 1
  /\ fs' = [fs EXCEPT !.pos = @ + got]
  /\ rbuf' = Drop(rb, got)
  /\ UNCHANGED <<want, pend, disk, wbuf, wat>>
  /\ Answer("skip", [n |-> n], [n |-> got])

(* look at the next n bytes without taking them (buffered streams) *)
FPeekr(n, h) ==
  LET rb == Refill(n, h) IN
  /\ Reading /\ fs.buf = 1 /\ n >= 1
  /\ rbuf' = rb
  /\ UNCHANGED <<fs, want, pend, disk, wbuf, wat>>
  /\ Answer("peekr", [n |-> n], IF Avail >= n THEN [ret |-> "ok", data |-> FirstN(rb, n)] ELSE [ret |-> "none", data |-> <<>>])

FGetc(h) ==
  LET rb == Refill(1, h) IN
  /\ Reading
  /\ IF Avail >= 1
     THEN /\ fs' = [fs EXCEPT !.pos = @ + 1]
          /\ rbuf' = Drop(rb, 1)
          /\ Answer("getc", [x |-> 0], [c |-> rb[1]])
     ELSE /\ UNCHANGED <<fs, rbuf>>
          /\ Answer("getc", [x |-> 0], [c |-> -1])
  /\ UNCHANGED <<want, pend, disk, wbuf, wat>>

FNext ==
  /\ UNCHANGED uvars
  /\ \/ \E a \in OpenArgs : FOpen(a)
     \/ \E d \in Datas, p \in Parts, e \in Early : FWrite(d, p, e)
     \/ \E p \in Parts, e \in Early : FZeros(3, p, e)
     \/ \E e \in Early : FEndl(e)
     \/ \E d \in Datas : FPush(d)
     \/ FEnd \/ FDrop \/ FFlush \/ FClose
     \/ \E a \in SeekArgs : FSeek(a)
     \/ \E k \in Ks, p \in Parts, h \in Ahead : k # ALL /\ FRead(k, p, h)
     \/ \E k \in Ks, h \in Ahead : k # ALL /\ (FSkip(k, h) \/ FPeekr(k, h))
     \/ \E h \in Ahead : FGetc(h)

---------------------------------------------------------------------------
Init ==
  /\ shape \in Shapes /\ nops = 0
  /\ uw = [fin |-> <<>>, open |-> <<>>] /\ usent = <<>> /\ uwire = <<>> /\ urin = <<>>
  /\ uwin = [pos |-> 0, len |-> 0]
  /\ wq2 = [done |-> 0, scratch |-> 0] /\ rq2 = [pos |-> 0, len |-> 0, msg |-> -1]
  /\ fs = Closed /\ want = <<>> /\ pend = <<>> /\ wbuf = <<>> /\ wat = 0 /\ rbuf = <<>>
  /\ disk = IF shape.sec = "file" THEN shape.pre ELSE <<>>
  /\ obs = [a |-> "init", arg |-> shape, exp |-> [ret |-> "ok"]]

Next == nops < (IF IsRaw THEN RawOps ELSE MaxOps) /\ Count /\ UNCHANGED shape /\ (UNext \/ FNext)

Spec == Init /\ [][Next]_vars

---------------------------------------------------------------------------
(* raw: bytes marked done leave in order exactly once *)
RawConservation == IsRaw => usent = urin \o uwire \o uw.fin
\* Tier 2 refines Tier 1
RawRefines == IsRaw => /\ wq2.done = Len(uw.fin) /\ wq2.scratch = Len(uw.open)
                       /\ rq2.pos = uwin.pos /\ rq2.len = uwin.len /\ rq2.msg = -1
                       /\ uwin.pos + uwin.len <= Len(urin)
\* the parts handed out by successive receives tile the delivered data: nothing lost, duplicated or merged
RawTiling == [][(IsRaw /\ obs'.a = "recv" /\ obs'.exp.ret = "part")
                 => /\ uwin'.pos = uwin.pos + uwin.len
                    /\ obs'.exp.data = SubSeq(urin, uwin'.pos + 1, uwin'.pos + uwin'.len)
                    /\ uwin'.pos + uwin'.len = Len(urin)]_vars
\* a peek shows bytes of the current part and what arrived after it, nothing else
RawPeek == [][(IsRaw /\ obs'.a = "peek" /\ obs'.arg.dst = 1 /\ urin # <<>>)
               => (IsPrefix(obs'.exp.data, Drop(urin, uwin.pos)) /\ obs'.exp.n = Len(obs'.exp.data))]_vars
\* a discard removes exactly the unfinished bytes
RawDiscard == [][(IsRaw /\ obs'.a = "discard") => (uw'.fin = uw.fin /\ usent' = usent /\ uw'.open \in {<<>>, uw.open})]_vars

(* file: the buffers account for the difference between the file as written and the file's bytes *)
FileRefines == (IsFile /\ Writing) => want = Buffered
ReadRefines == (IsFile /\ Reading) => /\ fs.pos + Len(rbuf) <= MaxOf(Len(disk), fs.pos)
                                      /\ rbuf = SubSeq(disk, fs.pos + 1, fs.pos + Len(rbuf))
\* what a read hands out is what the file holds at the stream position
ReadIsFile == [][(IsFile /\ obs'.a = "read")
                  => obs'.exp.data = SubSeq(disk, fs.pos + 1, fs.pos + obs'.exp.n * obs'.arg.part)]_vars
\* after flush and close the file is the file as written
FlushComplete == (IsFile /\ obs.a \in {"flush", "close", "open"}) => (obs.exp.disk = disk /\ (fs.st = "open" => (Writing => disk = want)))
\* a line end adds the documented bytes and nothing else
EndlExact == [][(IsFile /\ obs'.a = "endl" /\ obs'.exp.ret = "ok")
                 => want' = Overlay(want, WPos, NlStr(fs.nl))]_vars
TypeOK == /\ nops \in 0..MaxOf(MaxOps, RawOps)
          /\ IsRaw => (fs = Closed /\ disk = <<>>)
          /\ IsFile => (uw.fin = <<>> /\ urin = <<>>)
=============================================================================
