SPECIFICATION GenSpec
CONSTANTS
  LBits = 16
  TypeTab <- RealTypes
  GraphLo = 33 GraphHi = 126 MaxBits = 64
  GPrec = 6 ByteMax = 255 DecLimit = 127
  PrintTypes = {"b", "n", "q", "i", "x", "t", "l", "f", "d", "e"}
  IntFormats <- IntFormatsG
  FltFormats <- FltFormatsG
  Lefts = {2, 6, 24} FltLefts = {2, 6, 24}
  FmtAlphabet = {32, 102, 48, 50, 53, 54, 46}
  FmtLen = 4
  DestAlphabet = {32, 58, 48, 50, 53, 54}
  DestLen = 4
  DestSeps = {58}
  DestMax = {7}
  RDsts = {"b", "t", "f"}
  RBases = {0}
  RAlphabet = {45, 48, 49, 57}
  RLen = 3
  VecTypes = {"b", "i", "d", "l"}
  VecLen = 1
  Ks = {7, 8, 15, 16, 31, 32, 63, 64}
  FltDesign = FALSE
INVARIANTS XDesignSound XDigitsSound XPrintedSound
ACTION_CONSTRAINT Emit
CHECK_DEADLOCK FALSE
