SPECIFICATION GenSpec
CONSTANTS
  LBits = 16
  TypeTab <- RealTypes
  GraphLo = 33 GraphHi = 126 MaxBits = 64
  GPrec = 6 ByteMax = 255 DecLimit = 127
  PrintTypes = {"b", "q", "i", "x", "t", "f", "d", "e"}
  IntFormats <- IntFormatsG
  FltFormats <- FltFormatsG
  Lefts = {2, 6, 24} FltLefts = {6, 24}
  FmtAlphabet = {32, 43, 102, 48, 50, 53, 54, 46}
  FmtLen = 3
  DestAlphabet = {32, 58, 48, 50, 53, 54}
  DestLen = 4
  DestSeps = {58}
  DestMax = {7}
  RDsts = {"b", "f"}
  RBases = {0}
  RAlphabet = {45, 48, 49, 57}
  RLen = 3
  VecTypes = {"b", "i", "d", "l"}
  VecLen = 1
  SinkTypes = {"n", "q", "i", "x"} SinkCaps = {3, 5} SinkLefts = {4, 12, 64}
  Ks = {7, 15, 31, 63, 64}
  FltDesign = FALSE
INVARIANTS XDesignSound XDigitsSound XPrintedSound
ACTION_CONSTRAINT Emit
CHECK_DEADLOCK FALSE
