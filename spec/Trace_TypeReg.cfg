SPECIFICATION TraceSpec
CONSTANTS
  IfBase <- SIfBase  IfAdd <- SIfAdd  IfCap <- SIfCap
  BuiltinIf <- FBuiltinIf
  DynBase <- SDynBase  DynCap <- SDynCap
  MetaBase <- SMetaBase  MetaCap <- SMetaCap
  GenBase <- SGenBase  GenCap <- SGenCap
  Chunk = 30
  PtrSize <- SPtr
  FixedSize <- SFixedSize
  FixedManaged <- SFixedManaged
  Optional = {}
  Names = {}
  Sizes = {}
  Probe = {}
INVARIANTS InRange
PROPERTIES Stable RefuseKeeps
POSTCONDITION TraceAccepted
CHECK_DEADLOCK FALSE
