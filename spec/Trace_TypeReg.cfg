SPECIFICATION TraceSpec
CONSTANTS
  IfBase <- FIfBase  IfAdd <- FIfAdd  IfCap <- FIfCap
  BuiltinIf <- FBuiltinIf
  DynBase <- FDynBase  DynCap <- FDynCap
  MetaBase <- FMetaBase  MetaCap <- FMetaCap
  GenBase <- FGenBase  GenCap <- FGenCap
  Chunk = 30
  PtrSize <- FPtr
  Fixed <- FFixed
  Optional = {}
  Names = {}
  Sizes = {}
  Probe = {}
INVARIANTS InRange
PROPERTIES Stable RefuseKeeps
POSTCONDITION TraceAccepted
CHECK_DEADLOCK FALSE
