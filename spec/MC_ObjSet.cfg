SPECIFICATION Spec21
CONSTANTS KindSet = {"axis", "line", "text", "graph", "world"} MaxOps = 2 Lvl = 1 Doors = "all"
VIEW View21
INVARIANTS TypeOK Refines OwnStrings InDomain
PROPERTIES DoorSound Reads PrintEqual
CHECK_DEADLOCK FALSE
