---------------------------- MODULE Gen_ParseFront ----------------------------
(* Case export of ParseFront.  Every document of the bounded generator is   *)
(* a state of its own (no view); in every state the document is loaded      *)
(* through every front end x flag string x failAt: one behaviour            *)
(*   <<init(pre), load, clear>>                                             *)
(* per combination, with the expectation computed in the new state.         *)
EXTENDS MC_ParseFront
FSkel == <<cfg.fmt, cfg.acc, Len(stack), nn, pre, Len(aside)>>
\* C++ build: live blocks are counted with the sanitizer hooks (driver and C library included): the release of
\* everything after the clear is not observable there, only demanded of the C front ends
ClearObsX == [a |-> "clear", arg |-> [x |-> 0], exp |-> [alts |-> << [tree |-> <<>>] >>]]
InitObs == [a |-> fobs.a, arg |-> fobs.arg, exp |-> fobs.exp]
Cases ==
  /\ \A fe \in FrontEnds \ {"folder"}, lacc \in LoadAccs, k \in 0..MaxFail :
        LoadOK(fe, lacc, k) => \A lg \in LogsOf(fe) :
           PrintT(<<"BEHAV", ToJson(<<InitObs, LoadObs(fe, lacc, k, lg), IF IsCxx(fe) THEN ClearObsX ELSE ClearObs>>)>>)
  /\ ("folder" \in FrontEnds /\ FeOK("folder", Same)) =>
        \A k \in 0..MaxFail, lg \in 0..1 : PrintT(<<"BEHAV", ToJson(<<InitObs, FolderObs(k, k # 1, lg)>>)>>)
\* evaluated once per distinct state = once per document (unprimed: TLC caches the lazy values there)
CasesInv == Cases
GSpec == FInit /\ [][(DocNext /\ UNCHANGED <<target, pre, aside, nl, fobs>>) \/ PutAside]_fvars
=============================================================================
