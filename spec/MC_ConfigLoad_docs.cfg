SPECIFICATION SpecX
CONSTANTS Names <- NamesMB Depth = 3 Vals <- ValsX Sep = 46 Design = "list" Base <- NoBase MaxSlots = 6
  Ends <- Ends0 Strs <- None Seps <- None Asgs <- None Elems <- None
  Configs <- NodeConfigsQ OptNames <- OptAB SecNames <- SecA Values <- ValsDocQ Decos <- Decos1 MaxNodes = 2 MaxDepth = 1
  Routes <- RDocs Cfgs <- CfgTN SingleKinds <- SKAssign PrePaths <- PreD
  LoadKinds <- LoadB TwoFiles = TRUE EnvCalls <- None ArgCalls <- None ClearLists <- None
  MsgSets <- None MsgGets <- None NodeBases <- BasesQ FputSeps <- None
  MaxOps = 2 MaxArr = 1 SingleWhen = "first" QuoteSet <- AllQuotes Observe = FALSE
CONSTRAINT Bound
VIEW ViewF
INVARIANTS Refines PrefixClosed
PROPERTIES ArrivalProp SingleProp
CHECK_DEADLOCK FALSE
