SPECIFICATION GenSpec
CONSTANTS
  Kinds <- KindsQ
  Alpha <- AlphaG
  MaxLen = 3
  Slacks <- SlacksQ
  Grants <- GrantsQ
CONSTRAINT Bound
VIEW Skel
ACTION_CONSTRAINT Emit
CHECK_DEADLOCK FALSE
