----------------------------- MODULE Gen_ObjSet -----------------------------
(* Behaviour export of ObjSet: one JSON line per generated transition.  The *)
(* view is the control skeleton: kind, step count and which properties of   *)
(* the two objects differ from their defaults.                              *)
EXTENDS ObjSet, Json
VARIABLE hist
Pub(o) == [a |-> o.a, arg |-> o.arg, exp |-> o.exp]
GenInit == Init21 /\ hist = <<Pub(obs)>>
GenNext == Next21 /\ hist' = Append(hist, Pub(obs'))
GenSpec == GenInit /\ [][GenNext]_<<vars, hist>>
Mask(o) == {s \in Slots(kind) : t1[o][s] # Def1(kind)[s]}
Skel  == <<kind, ops, Mask(1), Mask(2)>>
Emit  == PrintT(<<"BEHAV", ToJson(hist')>>)
=============================================================================
