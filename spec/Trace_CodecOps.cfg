SPECIFICATION TraceSpec
CONSTANTS
  Modes = {}
  KindsE = {}
  KindsA = {}
  KindsD = {}
  MaxMsgsA = 0
  SStreams = {}
  SQs = {}
  Kinds = {}
  Alpha = {}
  MaxMsg = 0
  MaxMsgs = 0
  Caps = {}
  Grows = {}
  Pres = {}
  DelKs = {}
  NextSet = {}
  NextSetA = {}
  Shifts = {}
  DMaxLen = 0
  DSlacks = {}
  DGrants = {}
  DStreams = {}
  DFeeds = {}
  DQs = {}
  DOps = {}
  DMis = {}
INVARIANT AtEnd
POSTCONDITION TraceAccepted
CHECK_DEADLOCK FALSE
