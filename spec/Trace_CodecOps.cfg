SPECIFICATION TraceSpec
CONSTANTS
  Mode = "enc"
  Kinds = {}
  Alpha = {}
  MaxMsg = 0
  MaxMsgs = 0
  Caps = {}
  Grows = {}
  Pres = {}
  DelKs = {}
  NextSet = {}
  Shifts = {}
  DMaxLen = 0
  DSlacks = {}
  DGrants = {}
  DStreams = {}
  DFeeds = {}
  DQs = {}
  DOps = {}
  DMis = {}
INVARIANT AtEnd
POSTCONDITION TraceAccepted
CHECK_DEADLOCK FALSE
