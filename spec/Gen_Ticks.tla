------------------------------ MODULE Gen_Ticks ------------------------------
(* Case export: every completed call of the small model as a one-step behaviour (arguments + Tier-2 result). *)
EXTENDS MC_Ticks, Json
Emit == pc' = "done" => PrintT(<<"BEHAV", ToJson(<<obs'>>)>>)
=============================================================================
