SPECIFICATION Spec
CONSTANTS LBits = 4
  Vals = {0,1,2,3,9,10,15,16,17,35,36,99,255,256,257,1000,4095,4096,9999,10000,65535,65536,65537,99999,1048575}
  Smalls = {0,1,2,3,4,5,7,8,9,10,12,15,16,17,36,100,10000}
  Radices = {2,8,10,16,36}
INVARIANTS RoundTrip CmpOK AddOK SubOK MulOK ShiftOK BitsOK DigitsOK Pow10OK MulBigOK
CHECK_DEADLOCK FALSE
