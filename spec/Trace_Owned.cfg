SPECIFICATION TraceSpec
CONSTANTS Kinds = {"loader", "outchain", "cxxmeta"}
  TextLens = {0}
  NH = 4 NObj = 9 Max = 1000 MaxExtra = 3 MaxTries = 1 AsFound = FALSE
INVARIANTS OTypeOK AliveIffReachable OCountExact ONoDangling ProxyComplete
PROPERTIES ORefusedUnchanged ODestroyedOnce ONoResurrection MemberReplacedOnce HandleReplacedOnce BindReleasesOld
POSTCONDITION TraceAccepted
CHECK_DEADLOCK FALSE
