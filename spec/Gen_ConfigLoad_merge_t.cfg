SPECIFICATION GenSpecX
CONSTANTS Names <- NamesABC Depth = 3 Vals <- ValsX Sep = 46 Design = "list" Base <- NoBase MaxSlots = 8
  Ends <- Ends0 Strs <- None Seps <- None Asgs <- None Elems <- None
  Configs <- DefaultOnly OptNames <- OptABC SecNames <- SecA Values <- ValsDocY Decos <- Decos1 MaxNodes = 3 MaxDepth = 1
  Routes <- RMerge Cfgs <- CfgT SingleKinds <- SKBoth PrePaths <- PreMT
  LoadKinds <- None TwoFiles = FALSE EnvCalls <- None ArgCalls <- None ClearLists <- None
  MsgSets <- None MsgGets <- None NodeBases <- BasesA FputSeps <- None
  MaxOps = 4 MaxArr = 1 SingleWhen = "around" QuoteSet <- BareOnly Observe = TRUE
CONSTRAINT Bound
VIEW ViewX
ACTION_CONSTRAINT EmitX
INVARIANTS Refines PrefixClosed
PROPERTIES ArrivalProp SingleProp
CHECK_DEADLOCK FALSE
