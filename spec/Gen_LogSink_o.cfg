SPECIFICATION GenSpec
CONSTANTS
  Configs <- CfgsOpsQ
  Heads <- HeadsChain
  Levels = {}
  Calls = {}
  TextBytes = {5}
  MaxText = 1
  Ops = {"abort"}
  LogMax = 256
  AsFound = {}
  Chain = TRUE
  GenMax = 11
VIEW GenView
CONSTRAINT GenBound
CHECK_DEADLOCK FALSE
ACTION_CONSTRAINT Emit
