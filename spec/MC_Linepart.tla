----------------------------- MODULE MC_Linepart -----------------------------
(* Exhaustive configurations of Linepart: every sequence over the alphabet   *)
(* up to MaxLen, every range of Ranges; obs is an observation, not state.    *)
EXTENDS Linepart
View == <<data, data2, lo, hi, ranged, pos, parts>>
Rng1 == {<<0, 4>>}
Rng3 == {<<0, 4>>, <<2, 2>>, <<4, 0>>}
Alpha5 == {-2, 0, 2, 4, 6}
Den1 == {1, 2, 3, 7}
Den2 == {1, 2, 3, 5, 7, 16, 100, 65536, 65537, 131072, 200001}
=============================================================================
