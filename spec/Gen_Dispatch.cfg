SPECIFICATION GenSpec
CONSTANTS SmallIds = {1, 2} Widths = {1} MaxTok = 2 MaxSlots = 9
  Texts <- CTexts1 HRs <- CHRs
CONSTRAINT Bound
VIEW Skel
ACTION_CONSTRAINT Emit
CHECK_DEADLOCK FALSE
