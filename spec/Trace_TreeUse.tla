--------------------------- MODULE Trace_TreeUse ---------------------------
(* Trace validation for TreeUse (X14): a recorded execution of the real     *)
(* code (drv/treeuse.c, drv/treeuse_cxx.cpp) must be a behaviour of         *)
(* TreeUse.  Events of the calls of NodeTree are handled by Trace_NodeTree. *)
(* The driver evaluates the caller's obligations before each call; a call   *)
(* it did not make ("skipped") is accepted exactly when the specification's *)
(* guard of that call is false.                                             *)
EXTENDS TreeUse, Trace_NodeTree
NoPaths == {}
NoForests == {}
NoUps == {}
NoStops == {}

Missing(g) == Len(g.path) - (IF g.h = 0 THEN 0 ELSE Query2(hp, g.h, g.path).used)
ListRegion(h) == IF h = 0 THEN {} ELSE UNION {SubT(fo, x) : x \in Range(TopList(fo, h))}

Guard2(a, g) ==
  CASE a = "switch" -> CanSwitch(g.a, g.b)
    [] a \in {"travx", "samelevel", "sublevel", "query", "drop", "items", "croot", "nrel"} -> g.n \in live
    [] a = "setval" -> g.n \in live /\ g.val # 0
    [] a = "assign" -> CanAssign(g.h, g.path, g.val)
    [] a = "assignfail" -> /\ CanAssign(g.h, g.path, g.val)
                           /\ g.failat \in 0..Missing(g) /\ (g.failat = 0 => g.val # 0)
    [] a = "cfgset" -> CanCfgSet(g.h, g.base, g.path, g.val)
    [] a = "cfgdel" -> IsHead(g.h) /\ g.path # <<>>
    [] a = "parse" -> CanParse(g.n, g.t)
    [] a = "parsex" -> g.n \in live /\ Cardinality(FreeIds) >= g.cnt
    [] a = "cfgload" -> (g.h = 0 \/ IsHead(g.h)) /\ Cardinality(FreeIds) >= g.cnt
    [] a = "teardown" -> TRUE
    [] OTHER -> Guard(a, g)

Call2(ev) ==
  LET a == ev.a g == ev.arg IN
  CASE a = "switch"    -> Switch(g.a, g.b)
    [] a = "travx"     -> TravX(g.n, g.ord, g.sel, g.stop)
    [] a = "samelevel" -> SameQ(g.n, g.up)
    [] a = "sublevel"  -> SubQ(g.n, g.up)
    [] a = "query"     -> PathQ(g.n, g.path)
    [] a = "items"     -> Items(g.n, g.ks, g.stop)
    [] a = "croot"     -> CRoot(g.n, g.del)
    [] a = "nrel"      -> NRelQ(g.n, g.key)
    [] a = "assign"    -> Assign(g.h, g.path, g.val)
    \* the recorded fact whether the armed failure was met selects the branch; how
    \* many elements were made before it is not prescribed (names may need a block of their own)
    [] a = "assignfail" -> IF ev.obs.fired = 0 THEN Assign(g.h, g.path, g.val)
                           ELSE \E m \in 1..(IF Missing(g) = 0 THEN 1 ELSE Missing(g)) : AssignFail(g.h, g.path, g.val, IF Missing(g) = 0 THEN 0 ELSE m)
    [] a = "setval"    -> SetVal(g.n, g.val)
    [] a = "cfgset"    -> CfgSet(g.h, g.base, g.path, g.val)
    [] a = "cfgdel"    -> CfgDel(g.h, g.path)
    [] a = "parse"     -> IF g.bad # 0 THEN ParseRefused(g.n, g.t, g.mode, g.bad)
                          ELSE IF g.failat # 0 /\ ev.obs.fired = 1
                          THEN Untouched("parse", g, "refused", [grow |-> 0, fired |-> 1])
                          ELSE Parse(g.n, g.t, g.mode)
    \* a text the specification does not interpret: whatever stands below the target afterwards is taken over
    [] a = "parsex"    -> IF ev.obs.ret = "refused" THEN Untouched("parsex", g, "refused", [grow |-> 0])
                          ELSE Adopt("parsex", g, g.n, SubT(fo, g.n) \ {g.n}, ev.obs)
    \* the configuration loader working on the list that starts at h
    [] a = "cfgload"   -> Adopt("cfgload", g, 0, ListRegion(g.h), ev.obs)
    [] a = "drop"      -> Drop(g.n)
    [] a = "teardown"  -> Teardown
    [] OTHER           -> FALSE

Step2(ev) ==
  IF "obs" \notin DOMAIN ev THEN FALSE      \* the call crashed or hung: no observation
  ELSE IF ev.a \in NewActs \cup AdoptActs
  THEN IF ev.obs.skip = 1
       THEN /\ ~Guard2(ev.a, ev.arg)
            /\ UNCHANGED <<live, hp, name, val, fo>>
            /\ Ans("skipped", ev.arg, "skipped", <<>>, "skipped")
       ELSE Guard2(ev.a, ev.arg) /\ Call2(ev)
  ELSE Step(ev)

Matches2(ev) ==
  /\ "obs" \in DOMAIN ev
  /\ obs'.t1 = ev.obs.ret
  /\ \A k \in DOMAIN obs'.exp : k \in DOMAIN ev.obs /\ obs'.exp[k] = ev.obs[k]
  /\ ev.obs.skip = 0 => (ev.dbg.badfree = 0 /\ ev.dbg.badunref = 0)

TraceNext2 ==
  /\ l <= Len(TraceLog)
  /\ l' = l + 1
  /\ LET ev == TraceLog[l] IN
       Step2(ev) /\ Matches2(ev)

TraceSpec2 == TraceInit /\ [][TraceNext2]_<<vars, l>>
=============================================================================
