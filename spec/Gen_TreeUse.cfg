SPECIFICATION GenSpecU
CONSTANTS MaxNodes = 4 Kinds <- KindsQ Pos <- PosU Keys <- KeysQ
          Paths <- PathsG APaths <- APathsG Forests <- ForestsG Ups <- UpsQ Stops <- StopsQ
VIEW ShapeView
ACTION_CONSTRAINT EmitU
CONSTRAINT BaseLabels
CHECK_DEADLOCK FALSE
