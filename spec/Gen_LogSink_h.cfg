SPECIFICATION GenSpec
CONSTANTS
  Configs <- CfgsHistQ
  Heads <- HeadsValG
  Levels = {}
  Calls = {}
  TextBytes = {5}
  MaxText = 3
  Ops = {}
  LogMax = 256
  AsFound = {}
  Chain = FALSE
  GenMax = 11
VIEW GenView
CONSTRAINT GenBound
CHECK_DEADLOCK FALSE
ACTION_CONSTRAINT Emit
