------------------------------ MODULE MsgUse ------------------------------
(***************************************************************************)
(* X17 (extension of C17): the other consumers and producers of fragmented *)
(* messages.  Built on Message.tla: same variables (flat = the contiguous  *)
(* byte string, cur/cont = the fragment cursor), same generators (Strings, *)
(* Comps, CutUp) and the same two tiers:                                   *)
(*   ...F  the meaning of a use on Flat(frags) alone (obs.exp),            *)
(*   ...D  the way the C code walks the fragments (des).                   *)
(* Every use must answer on a fragment list what it answers on the flat    *)
(* string: UDesignAgrees on every transition.                              *)
(*                                                                         *)
(* uses: the text arguments as iterator elements (mpt_message_iterator),   *)
(* command + arguments of a command message (mpt_event_command,            *)
(* mpt_client_command, mpt++ client::dispatch), the command text a message *)
(* is dispatched by (mpt_dispatch_hash) and its type byte                  *)
(* (mpt_dispatch_emit), path / value of configuration messages             *)
(* (mpt_config_message_next, mpt_message_assign), name=value arguments     *)
(* (mpt_message_property), a message appended to a stream frame            *)
(* (mpt_stream_append) or gathered into a reply datagram                   *)
(* (mpt_outdata_reply), typed values of a value-format message pushed      *)
(* piecewise into a history (mpt_history_push, msgvalfmt codes), and the    *)
(* base calls on cursors and iovec lists with no fragment at all.          *)
(***************************************************************************)
EXTENDS Message

CONSTANTS Heads,       \* message heads (type byte, argument byte) put in front of the strings
          UOps         \* enabled families of uses

VARIABLE nofrag        \* TRUE: the list has no fragment at all (all-zero cursor, iovec count 0)
uvars == <<vars, nofrag>>

---------------------------------------------------------------------------
(* helpers on flat strings *)
SByte(b)   == IF b >= 128 THEN b - 256 ELSE b               \* int8_t of a byte
CStr(s)    == FirstN(s, PosOrLen(s, 0))                      \* C string at the start of s

RECURSIVE Items(_)                 \* zero-delimited elements of an argument array
Items(s) ==
  IF s = <<>> THEN <<>>
  ELSE LET k == FirstIn(s, 1, {0}) IN
       IF k = 0 THEN <<s>> ELSE <<FirstN(s, k - 1)>> \o Items(Drop(s, k))

One(x)     == <<x>>
FirstOf(q) == IF q = <<>> THEN <<>> ELSE <<q[1]>>
RestOf(q)  == IF q = <<>> THEN <<>> ELSE Tail(q)

RECURSIVE Pow256(_)
Pow256(n) == IF n = 0 THEN 1 ELSE 256 * Pow256(n - 1)
IdBytes(id, n) == [i \in 1..n |-> (id \div Pow256(n - i)) % 256]   \* mpt_message_id2buf

---------------------------------------------------------------------------
(* Tier 1: meaning on the contiguous string *)

\* mpt_message_iterator(msg, sep)
IterF(s, sep) == [ret |-> "ok", items |-> Items(ArrMsgF(s, sep).out), content |-> s]

\* mpt_event_command: two byte head (type, separator), text arguments behind it
EvCmdF(s) ==
  IF s = <<>> \/ s[1] # 4
  THEN [ret |-> "none", cmd |-> <<>>, args |-> <<>>, content |-> s]
  ELSE LET sep == IF Len(s) < 2 THEN 0 ELSE SByte(s[2])
           it  == Items(ArrMsgF(Drop(s, 2), sep).out)
       IN [ret |-> "ok", cmd |-> FirstOf(it), args |-> RestOf(it), content |-> s]

\* mpt_client_command(client, msg, sep)
ClientCmdF(s, sep) ==
  LET it == Items(ArrMsgF(s, sep).out)
  IN [ret |-> "called", cmd |-> FirstOf(it), args |-> RestOf(it), content |-> s]

\* mpt++ client::dispatch(event): head read by message::read, then mpt_client_command
CxxDispatchF(s) ==
  IF s # <<>> /\ s[1] # 4
  THEN [ret |-> "failed", cmd |-> <<>>, args |-> <<>>, content |-> s]
  ELSE LET sep == IF Len(s) < 2 THEN 0 ELSE SByte(s[2])
           it  == Items(ArrMsgF(Drop(s, 2), sep).out)
       IN [ret |-> "called", cmd |-> FirstOf(it), args |-> RestOf(it), content |-> s]

\* mpt_dispatch_hash: the command text the handler is looked up by
HashF(s) ==
  IF Len(s) < 2 THEN [ret |-> "failed", cmd |-> <<>>, content |-> s]
  ELSE LET sep == IF s[1] = 4 THEN SByte(s[2]) ELSE 0
           a   == ArgvF(Drop(s, 2), sep)
       IN IF a.ret # "ok" \/ a.val[1] = 0
          THEN [ret |-> "failed", cmd |-> <<>>, content |-> s]
          ELSE [ret |-> "called", cmd |-> One(FirstN(a.rest, a.val[1])), content |-> s]

\* mpt_dispatch_emit: the type byte
EmitF(s) ==
  IF s = <<>> THEN [ret |-> "failed", id |-> <<>>, content |-> s]
  ELSE [ret |-> "called", id |-> <<s[1]>>, content |-> s]

\* mpt_config_message_next(path, sep >= 0, msg): next path, consumed with its separator
CfgNextF(s, sep) ==
  LET a == ArgvF(s, sep) IN
  IF a.ret # "ok" THEN [ret |-> "missing", val |-> <<>>, path |-> <<>>, content |-> s]
  ELSE LET len == a.val[1]
           r   == ReadF(a.rest, len)
       IN [ret |-> "ok", val |-> <<IF len = 0 THEN 1 ELSE len>>,
           path |-> r.out \o <<0>>, content |-> Drop(r.rest, 1)]

\* mpt_message_assign(msg, n, proc): n zero-terminated path elements, the value behind them
RECURSIVE PathEnd(_, _, _)         \* end (length) of the k-th element from pos, or -1
PathEnd(all, pos, k) ==
  IF k = 0 THEN pos
  ELSE LET z == FirstIn(all, pos + 1, {0}) IN
       IF z = 0 THEN -1 ELSE PathEnd(all, z, k - 1)
AssignBody(t, n, s) ==
  LET all == FirstN(t, 1024) IN
  IF Len(all) >= 1024 THEN [ret |-> "toolong", path |-> <<>>, value |-> <<>>, content |-> s]
  ELSE IF n < 0 THEN [ret |-> "badvalue", path |-> <<>>, value |-> <<>>, content |-> s]
  ELSE LET e == PathEnd(all, 0, n) IN
       IF e < 0 THEN [ret |-> "badvalue", path |-> <<>>, value |-> <<>>, content |-> s]
       ELSE [ret |-> "called", path |-> FirstN(all, e), value |-> Drop(all, e), content |-> s]
AssignF(s, n) ==
  IF n >= 0 THEN AssignBody(s, n, s)
  ELSE IF Len(s) < 2 THEN [ret |-> "missing", path |-> <<>>, value |-> <<>>, content |-> s]
  ELSE AssignBody(Drop(s, 2), SByte(s[2]), s)

\* mpt_message_property(msg, sep, handler): next argument as name=value
PropBody(arg) ==                   \* the copied argument -> what the handler is given
  LET eq == FirstIn(arg, 1, {61}) IN
  IF eq = 0 THEN [ret |-> "noassign", name |-> <<>>, value |-> <<>>]
  ELSE LET n0   == FirstN(arg, eq - 1)
           v0   == Drop(arg, eq)
           len  == Len(v0)
           b1   == IF eq = 1 THEN 0 ELSE arg[1]
           last == IF len = 0 THEN 0 ELSE v0[len]
           nq   == b1 \in Quotes
           vq   == ~nq /\ len > 0 /\ v0[1] \in Quotes
           name == IF nq /\ b1 = last THEN Tail(n0) ELSE n0
           val  == IF nq /\ b1 = last THEN FirstN(v0, len - 1)
                   ELSE IF vq /\ v0[1] = last THEN SubSeq(v0, 2, len - 1)
                   ELSE v0
       IN [ret |-> "called", name |-> CStr(name), value |-> CStr(val)]
PropertyF(s, sep) ==
  LET a == ArgvF(s, sep) IN
  IF a.ret # "ok" \/ a.val[1] = 0
  THEN [ret |-> "missing", name |-> <<>>, value |-> <<>>, content |-> s]
  ELSE IF a.val[1] >= 1024
  THEN [ret |-> "toolong", name |-> <<>>, value |-> <<>>, content |-> s]
  ELSE LET r == ReadF(a.rest, a.val[1])
           p == PropBody(r.out)
       IN [ret |-> p.ret, name |-> p.name, value |-> p.value,
           content |-> IF p.ret = "called" THEN r.rest ELSE s]

\* mpt_stream_append into an open frame (pre pushed before), frame closed afterwards;
\* raw streams end a frame with a newline, encoded ones are read back by the decoder
SAppendF(s, kind, pre, twice) ==
  LET body == pre \o s \o (IF twice = 1 THEN s ELSE <<>>) IN
  [ret |-> "ok", val |-> <<Len(s)>>,
   msgs |-> IF kind = "raw" THEN <<body \o <<10>> >> ELSE <<body>>, content |-> s]

\* mpt_outdata_reply: identifier and message in one datagram
DgReplyF(s, idlen, id) ==
  [ret |-> "ok", val |-> <<idlen + Len(s)>>, wire |-> IdBytes(id, idlen) \o s, content |-> s]

\* mpt_output_values(out, n, array, ld): the array (= the message bytes, zero filled) as n doubles,
\* every ld-th one; the output takes at most cap bytes per push (0: everything)
RECURSIVE Strided(_, _, _, _)
Strided(b, n, ld, i) ==
  IF i >= n THEN <<>>
  ELSE [j \in 1..8 |-> IF i * ld * 8 + j <= Len(b) THEN b[i * ld * 8 + j] ELSE 0] \o Strided(b, n, ld, i + 1)
OutValsF(s, n, ld) == [ret |-> "ok", out |-> Strided(s, n, ld, 0), content |-> s]
\* design: chunks of 32 values through a 256 byte buffer, every chunk pushed until it is taken
RECURSIVE PushParts(_, _, _)
PushParts(b, cap, acc) ==
  IF b = <<>> THEN acc
  ELSE LET k == IF cap = 0 THEN Len(b) ELSE Min(cap, Len(b)) IN PushParts(Drop(b, k), cap, acc \o FirstN(b, k))
RECURSIVE OutChunks(_, _, _, _, _)
OutChunks(b, n, ld, cap, acc) ==
  IF n = 0 THEN acc
  ELSE LET k == Min(n, 32) IN
       OutChunks(Drop(b, k * ld * 8), n - k, ld, cap, PushParts(Strided(b, k, ld, 0), cap, acc))
OutValsD(fr, n, ld, cap) ==
  LET b == Flat(fr) IN
  [ret |-> "ok", out |-> IF ld = 1 THEN PushParts(Strided(b, n, 1, 0), cap, <<>>) ELSE OutChunks(b, n, ld, cap, <<>>),
   content |-> b]

\* mpt_decode_command(state with curr = c, fragments): the two head bytes (command, ' ') are written
\* in front of the text at c, the text ends at the first zero byte
DecHead(s, c) == [i \in 1..Len(s) |-> IF i = c - 1 THEN 4 ELSE IF i = c THEN 32 ELSE s[i]]
DecCmdF(s, c) ==
  IF c < 2 THEN [ret |-> "toolong", state |-> <<>>, content |-> s]
  ELSE IF Len(s) < c - 2 THEN [ret |-> "missing", state |-> <<>>, content |-> s]
  ELSE IF Len(s) < c THEN [ret |-> "toolong", state |-> <<>>, content |-> DecHead(s, c)]
  ELSE LET k == FirstIn(s, c + 1, {0}) IN
       IF k = 0 THEN [ret |-> "more", state |-> <<c - 2, Len(s) - c + 2, -1, Len(s)>>, content |-> DecHead(s, c)]
       ELSE [ret |-> "message", state |-> <<c - 2, k - c + 1, k - c + 1, k>>, content |-> DecHead(s, c)]

(* value-format messages (type 9) pushed into a history (mpt_history_push,   *)
(* mpt_history_values with the element codes of msgvalfmt.c): count byte,   *)
(* then either count element formats and the values row by row, or (count   *)
(* 0) every value behind its own format byte.  The history prints the       *)
(* decoded numbers; rows = the printed lines as number lists.  HFeed is     *)
(* the decoder fed with one piece: what it cannot take yet (an incomplete   *)
(* value) stays in tail and is offered again in front of the next piece.    *)
IntFormats == {224, 160, 225, 161, 227, 163, 231, 167}   \* native order int8/uint8/16/32/64
FmtSize(f)  == (f % 32) + 1
FmtSigned(f) == (f % 128) \div 32 = 3
TooBig == 1000000000                                     \* stands for every number of 2^29 and more
RECURSIVE LeSum(_, _)                                    \* little endian value of bytes b (complemented: c = 255)
LeSum(b, c) == IF b = <<>> THEN 0 ELSE (IF c = 0 THEN b[1] ELSE 255 - b[1]) + 256 * LeSum(Tail(b), c)
Num(f, b) ==
  LET n   == Len(b)
      neg == FmtSigned(f) /\ b[n] >= 128
      c   == IF neg THEN 255 ELSE 0
      big == (\E i \in 5..n : b[i] # c) \/ (n >= 4 /\ (IF neg THEN 255 - b[4] ELSE b[4]) >= 32)
  IN IF big THEN TooBig
     ELSE IF neg THEN -LeSum(FirstN(b, 4), 255) - 1 ELSE LeSum(FirstN(b, 4), 0)

HInit == [ph |-> "type", nf |-> 0, fl |-> <<>>, pf |-> 0, vals |-> <<>>, tail |-> <<>>, seen |-> FALSE]
RECURSIVE HFeed(_, _)
HTake(st, f, d) ==
  IF f \notin IntFormats THEN [st EXCEPT !.ph = "stop", !.tail = <<>>]
  ELSE IF Len(d) < FmtSize(f) THEN [st EXCEPT !.tail = d]
  ELSE HFeed([st EXCEPT !.vals = Append(@, Num(f, FirstN(d, FmtSize(f)))), !.pf = 0], Drop(d, FmtSize(f)))
HFeed(st, d) ==
  IF st.ph = "stop" \/ d = <<>> THEN [st EXCEPT !.tail = <<>>]
  ELSE CASE st.ph = "type"  -> IF d[1] = 9 THEN HFeed([st EXCEPT !.ph = "count"], Tail(d))
                               ELSE [st EXCEPT !.ph = "stop", !.tail = <<>>]
         [] st.ph = "count" -> IF d[1] >= 128 THEN [st EXCEPT !.ph = "stop", !.tail = <<>>]
                               ELSE IF d[1] = 0 THEN HFeed([st EXCEPT !.ph = "inline"], Tail(d))
                               ELSE HFeed([st EXCEPT !.ph = "fmts", !.nf = d[1]], Tail(d))
         [] st.ph = "fmts"  -> IF d[1] % 128 = 0 THEN [st EXCEPT !.ph = "stop", !.tail = <<>>]
                               ELSE HFeed([st EXCEPT !.fl = Append(@, d[1]),
                                                     !.ph = IF Len(st.fl) + 1 = st.nf THEN "vals" ELSE "fmts"], Tail(d))
         [] st.ph = "vals"  -> HTake([st EXCEPT !.seen = TRUE], st.fl[(Len(st.vals) % st.nf) + 1], d)
         [] st.ph = "inline" -> IF st.pf # 0 THEN HTake(st, st.pf, d)
                                ELSE IF d[1] = 0 THEN [st EXCEPT !.ph = "stop", !.tail = <<>>]
                                ELSE HFeed([st EXCEPT !.pf = d[1]], Tail(d))
RECURSIVE RowsOf(_, _)
RowsOf(v, n) == IF v = <<>> THEN <<>> ELSE <<FirstN(v, n)>> \o RowsOf(Drop(v, n), n)
\* a message that ends with (or inside) its format list leaves one empty line
HRows(st) == IF st.nf = 0 THEN (IF st.vals = <<>> THEN <<>> ELSE <<st.vals>>)
             ELSE IF st.vals = <<>> /\ ~st.seen THEN << <<>> >> ELSE RowsOf(st.vals, st.nf)
HistF(s) == [rows |-> HRows(HFeed(HInit, s)), content |-> s]

---------------------------------------------------------------------------
(* Tier 2: the same uses on the fragment cursor *)

IterD(c, ct, sep) ==
  [ret |-> "ok", items |-> Items(ArgsD(c, ct, sep, <<>>, 0).out), content |-> Flat(<<c>> \o ct)]

\* head read with mpt_message_read into a two byte struct
HeadD(c, ct) == ReadD(c, ct, 2, <<>>)

EvCmdD(c, ct) ==
  LET h == HeadD(c, ct) all == Flat(<<c>> \o ct) IN
  IF h.out = <<>> \/ h.out[1] # 4
  THEN [ret |-> "none", cmd |-> <<>>, args |-> <<>>, content |-> all]
  ELSE LET sep == IF Len(h.out) < 2 THEN 0 ELSE SByte(h.out[2])
           it  == Items(ArgsD(h.cur, h.cont, sep, <<>>, 0).out)
       IN [ret |-> "ok", cmd |-> FirstOf(it), args |-> RestOf(it), content |-> all]

ClientCmdD(c, ct, sep) ==
  LET it == Items(ArgsD(c, ct, sep, <<>>, 0).out)
  IN [ret |-> "called", cmd |-> FirstOf(it), args |-> RestOf(it), content |-> Flat(<<c>> \o ct)]

CxxDispatchD(c, ct) ==
  LET h == HeadD(c, ct) all == Flat(<<c>> \o ct) IN
  IF h.out # <<>> /\ h.out[1] # 4
  THEN [ret |-> "failed", cmd |-> <<>>, args |-> <<>>, content |-> all]
  ELSE LET sep == IF Len(h.out) < 2 THEN 0 ELSE SByte(h.out[2])
           it  == Items(ArgsD(h.cur, h.cont, sep, <<>>, 0).out)
       IN [ret |-> "called", cmd |-> FirstOf(it), args |-> RestOf(it), content |-> all]

\* the text is taken in place when the current fragment holds it, else read into a buffer
HashD(c, ct) ==
  LET h == HeadD(c, ct) all == Flat(<<c>> \o ct) IN
  IF Len(h.out) < 2 THEN [ret |-> "failed", cmd |-> <<>>, content |-> all]
  ELSE LET sep == IF h.out[1] = 4 THEN SByte(h.out[2]) ELSE 0
           a   == ArgvD(h.cur, h.cont, sep)
       IN IF a.ret # "ok" \/ a.val[1] = 0
          THEN [ret |-> "failed", cmd |-> <<>>, content |-> all]
          ELSE LET len == a.val[1]
                   txt == IF Len(a.cur) >= len THEN FirstN(a.cur, len)
                          ELSE ReadD(a.cur, a.cont, len, <<>>).out
               IN [ret |-> "called", cmd |-> One(txt), content |-> all]

EmitD(c, ct) ==
  LET r == ReadD(c, ct, 1, <<>>) all == Flat(<<c>> \o ct) IN
  IF r.out = <<>> THEN [ret |-> "failed", id |-> <<>>, content |-> all]
  ELSE [ret |-> "called", id |-> r.out, content |-> all]

CfgNextD(c, ct, sep) ==
  LET a == ArgvD(c, ct, sep) IN
  IF a.ret # "ok" THEN [ret |-> "missing", val |-> <<>>, path |-> <<>>, cur |-> c, cont |-> ct]
  ELSE LET len == a.val[1]
           r1  == ReadD(a.cur, a.cont, len, <<>>)
           r2  == ReadD(r1.cur, r1.cont, 1, <<>>)
       IN [ret |-> "ok", val |-> <<IF len = 0 THEN 1 ELSE len>>,
           path |-> r1.out \o <<0>>, cur |-> r2.cur, cont |-> r2.cont]

AssignD(c, ct, n) ==
  LET all == Flat(<<c>> \o ct) IN
  IF n >= 0 THEN AssignBody(ReadD(c, ct, 1024, <<>>).out, n, all)
  ELSE LET h == HeadD(c, ct) IN
       IF Len(h.out) < 2 THEN [ret |-> "missing", path |-> <<>>, value |-> <<>>, content |-> all]
       ELSE AssignBody(ReadD(h.cur, h.cont, 1024, <<>>).out, SByte(h.out[2]), all)

PropertyD(c, ct, sep) ==
  LET a == ArgvD(c, ct, sep) IN
  IF a.ret # "ok" \/ a.val[1] = 0
  THEN [ret |-> "missing", name |-> <<>>, value |-> <<>>, cur |-> c, cont |-> ct]
  ELSE IF a.val[1] >= 1024
  THEN [ret |-> "toolong", name |-> <<>>, value |-> <<>>, cur |-> c, cont |-> ct]
  ELSE LET r == ReadD(a.cur, a.cont, a.val[1], <<>>)
           p == PropBody(r.out)
       IN [ret |-> p.ret, name |-> p.name, value |-> p.value,
           cur |-> IF p.ret = "called" THEN r.cur ELSE c,
           cont |-> IF p.ret = "called" THEN r.cont ELSE ct]

\* pushes: every non-empty fragment is pushed, a zero length push would close the frame
RECURSIVE PushAll(_, _, _)
PushAll(fr, open, done) ==
  IF fr = <<>> THEN [open |-> open, done |-> done]
  ELSE IF Head(fr) = <<>> THEN PushAll(Tail(fr), open, done)
  ELSE PushAll(Tail(fr), open \o Head(fr), done)
SAppendD(fr, kind, pre, twice) ==
  LET p1 == PushAll(fr, pre, <<>>)
      p2 == IF twice = 1 THEN PushAll(fr, p1.open, p1.done) ELSE p1
      ms == p2.done \o <<p2.open>>
  IN [ret |-> "ok", val |-> <<LenSum(fr)>>,
      msgs |-> IF kind = "raw" THEN <<Flat(ms) \o <<10>> >> ELSE ms, content |-> Flat(fr)]

\* read into the 256 byte buffer, longer messages read again into the array
DgReplyD(c, ct, idlen, id) ==
  LET all  == Flat(<<c>> \o ct)
      r    == ReadD(c, ct, 256 - idlen, <<>>)
      left == LenSum(<<r.cur>> \o r.cont)
      body == IF left = 0 THEN r.out ELSE ReadD(c, ct, Len(r.out) + left, <<>>).out
  IN [ret |-> "ok", val |-> <<idlen + Len(body)>>, wire |-> IdBytes(id, idlen) \o body, content |-> all]

---------------------------------------------------------------------------
(* actions *)
UFrags == IF nofrag THEN <<>> ELSE Frags

Use(a, arg, e, d) ==        \* a use that leaves the message alone
  /\ UNCHANGED <<flat, cur, cont, mode, ebase, nofrag>>
  /\ obs' = [a |-> a, arg |-> arg, exp |-> e]
  /\ des' = d

UInitMsg(data, cut) ==
  LET fr == CutUp(data, cut) IN
  /\ flat' = data /\ mode' = "msg" /\ ebase' = <<"slice", 0>>
  /\ IF cut = <<>> THEN cur' = <<>> /\ cont' = <<>> /\ nofrag' = TRUE
     ELSE cur' = fr[1] /\ cont' = Tail(fr) /\ nofrag' = FALSE
  /\ obs' = [a |-> "init", arg |-> [data |-> data, cut |-> cut],
             exp |-> [ret |-> "ok", val |-> <<>>, out |-> <<>>, content |-> data]]
  /\ des' = [ret |-> "ok", val |-> <<>>, out |-> <<>>, content |-> Flat(fr)]

\* base calls (also through the C++ wrappers message::read / message::length)
URead(n, dest) == Read(n, dest) /\ UNCHANGED nofrag
ULength        == Length /\ UNCHANGED nofrag
UArgv(sep)     == Argv(sep) /\ UNCHANGED nofrag
UArrMsg(sep)   == ArrMsg(sep) /\ UNCHANGED nofrag
UAppend(pre)   == MsgAppend(pre, "roomy", 0) /\ UNCHANGED nofrag

\* iovec calls on the list of fragments the message was made of
VAsk(a, arg, e, d) == Use(a, arg, Exp(e, <<>>, flat), Exp(d, <<>>, Flat(UFrags)))
VMemchr(b)   == VAsk("vmemchr",  [b |-> b], MemchrF(flat, b),  Pos1(FirstFr(UFrags, 1, {b})))
VMemrchr(b)  == VAsk("vmemrchr", [b |-> b], MemrchrF(flat, b), Pos1(LastFr(UFrags, Len(UFrags), {b})))
VMemfcn(cls) == VAsk("vmemfcn",  [cls |-> cls], MemfcnF(flat, ClassSet(cls)), Pos1(FirstFr(UFrags, 1, ClassSet(cls))))
VMemrfcn(cls) == VAsk("vmemrfcn", [cls |-> cls], MemrfcnF(flat, ClassSet(cls)),
                      Pos1(LastFr(UFrags, Len(UFrags), ClassSet(cls))))
VMemstr(m)   == VAsk("vmemstr",  [set |-> m], MemstrF(flat, m),
                     IF m = <<>> THEN Ok(0) ELSE Pos1(FirstFr(UFrags, 1, Range(m))))
VMemrstr(m)  == VAsk("vmemrstr", [set |-> m], MemrstrF(flat, m),
                     IF m = <<>> THEN Ok(0) ELSE Pos1(LastFr(UFrags, Len(UFrags), Range(m))))
VMemtok(hastok, tok, com, esc) ==
  VAsk("vmemtok", [hastok |-> hastok, tok |-> tok, com |-> com, esc |-> esc],
       MemtokF(flat, hastok, tok, com, esc), Pos1(TokD(UFrags, 1, 1, 0, 32, TokPar(hastok, tok, com, esc))))
VMemcpy(n, dcut) ==
  LET dst == CutUp(Fills(SumSeq(dcut)), dcut)
      e   == MemcpyF(n, flat, Fills(SumSeq(dcut)))
      d   == MemcpyD(n, UFrags, dst)
  IN Use("vmemcpy", [n |-> n, dcut |-> dcut], Exp(e, e.out, flat), Exp(d, d.out, Flat(UFrags)))

Iter(sep)      == Use("iter", [sep |-> sep], IterF(flat, sep), IterD(cur, cont, sep))
EvCmd          == Use("evcmd", [x |-> 0], EvCmdF(flat), EvCmdD(cur, cont))
ClientCmd(sep) == Use("clientcmd", [sep |-> sep], ClientCmdF(flat, sep), ClientCmdD(cur, cont, sep))
CxxDispatch    == Use("cxxdispatch", [x |-> 0], CxxDispatchF(flat), CxxDispatchD(cur, cont))
Hash           == Use("hash", [x |-> 0], HashF(flat), HashD(cur, cont))
Emit           == Use("emit", [x |-> 0], EmitF(flat), EmitD(cur, cont))
Assign(n)      == Use("assign", [n |-> n], AssignF(flat, n), AssignD(cur, cont, n))
SAppend(kind, pre, twice) ==
  Use("sappend", [kind |-> kind, pre |-> pre, twice |-> twice],
      SAppendF(flat, kind, pre, twice), SAppendD(UFrags, kind, pre, twice))
DgReply(idlen, id) ==
  Use("dgreply", [idlen |-> idlen, id |-> id], DgReplyF(flat, idlen, id), DgReplyD(cur, cont, idlen, id))

CfgNext(sep) ==
  LET e == CfgNextF(flat, sep)
      d == CfgNextD(cur, cont, sep)
  IN
  /\ flat' = e.content /\ cur' = d.cur /\ cont' = d.cont /\ UNCHANGED <<mode, ebase, nofrag>>
  /\ obs' = [a |-> "cfgnext", arg |-> [sep |-> sep], exp |-> e]
  /\ des' = [ret |-> d.ret, val |-> d.val, path |-> d.path, content |-> Flat(<<d.cur>> \o d.cont)]

Property(sep) ==
  LET e == PropertyF(flat, sep)
      d == PropertyD(cur, cont, sep)
  IN
  /\ flat' = e.content /\ cur' = d.cur /\ cont' = d.cont /\ UNCHANGED <<mode, ebase, nofrag>>
  /\ obs' = [a |-> "property", arg |-> [sep |-> sep], exp |-> e]
  /\ des' = [ret |-> d.ret, name |-> d.name, value |-> d.value, content |-> Flat(<<d.cur>> \o d.cont)]

\* mpt_decode_command walks the fragments: skip to curr - 2, write the head over fragment borders,
\* look for the zero byte fragment by fragment (absolute position = offset + preceding lengths)
RECURSIVE PokeFr(_, _, _)          \* byte b at absolute 1-based position p (nothing when p is outside)
PokeFr(fr, p, b) ==
  IF fr = <<>> THEN <<>>
  ELSE IF p >= 1 /\ p <= Len(Head(fr)) THEN <<[Head(fr) EXCEPT ![p] = b]>> \o Tail(fr)
  ELSE <<Head(fr)>> \o PokeFr(Tail(fr), p - Len(Head(fr)), b)
RECURSIVE FirstFrFrom(_, _, _, _)  \* first hit at absolute position >= from, or 0
FirstFrFrom(fr, k, from, set) ==
  IF k > Len(fr) THEN 0
  ELSE LET lo == from - PreLen(fr, k)
           i  == IF lo > Len(fr[k]) THEN 0 ELSE FirstIn(fr[k], IF lo < 1 THEN 1 ELSE lo, set)
       IN IF i # 0 THEN PreLen(fr, k) + i ELSE FirstFrFrom(fr, k + 1, from, set)
DecCmdD(fr, c) ==
  LET total == LenSum(fr) IN
  IF c < 2 THEN [ret |-> "toolong", state |-> <<>>, fr |-> fr]
  ELSE IF total < c - 2 THEN [ret |-> "missing", state |-> <<>>, fr |-> fr]
  ELSE LET hd == PokeFr(PokeFr(fr, c - 1, 4), c, 32) IN
       IF total < c THEN [ret |-> "toolong", state |-> <<>>, fr |-> hd]
       ELSE LET k == FirstFrFrom(hd, 1, c + 1, {0}) IN
            IF k = 0 THEN [ret |-> "more", state |-> <<c - 2, total - c + 2, -1, total>>, fr |-> hd]
            ELSE [ret |-> "message", state |-> <<c - 2, k - c + 1, k - c + 1, k>>, fr |-> hd]

\* value-format message into a history, one push per non-empty fragment
RECURSIVE HPieces(_, _)
HPieces(st, fr) ==
  IF fr = <<>> THEN HFeed(st, st.tail)
  ELSE HPieces(HFeed(st, st.tail \o Head(fr)), Tail(fr))
HistD(fr) == [rows |-> HRows(HPieces(HInit, fr)), content |-> Flat(fr)]
HistPush == Use("histpush", [x |-> 0], HistF(flat), HistD(UFrags))

OutVals(n, ld, cap) ==
  Use("outvals", [n |-> n, ld |-> ld, cap |-> cap], OutValsF(flat, n, ld), OutValsD(UFrags, n, ld, cap))

DecCmd(c) ==
  LET e == DecCmdF(flat, c)
      d == DecCmdD(Frags, c)
  IN
  /\ flat' = e.content /\ cur' = d.fr[1] /\ cont' = Tail(d.fr) /\ UNCHANGED <<mode, ebase, nofrag>>
  /\ obs' = [a |-> "deccmd", arg |-> [curr |-> c], exp |-> e]
  /\ des' = [ret |-> d.ret, state |-> d.state, content |-> Flat(d.fr)]

---------------------------------------------------------------------------
(* bounded exploration *)
USeps    == {0, 32} \cup (Alphabet \cap {44, 47, 97})
UNeedles == {0, 97}

UInit == Init /\ nofrag = FALSE

UStart ==
  \E h \in Heads, body \in Strings(MaxLen), k \in 0..MaxFrag :
     LET data == h \o body IN
     \E cut \in (IF k = 0 THEN (IF data = <<>> THEN {<<>>} ELSE {}) ELSE Comps(Len(data), k)) :
        UInitMsg(data, cut)

UStep ==
  \/ "read" \in UOps /\ \E n \in 0..(MaxLen + 3), dest \in {0, 1} : URead(n, dest)
  \/ "length" \in UOps /\ ULength
  \/ "zero" \in UOps /\ nofrag /\
       \/ \E sep \in {0, 32} : UArgv(sep) \/ UArrMsg(sep)
       \/ \E pre \in {<<>>, <<7, 8>>} : UAppend(pre)
       \/ \E b \in UNeedles : VMemchr(b) \/ VMemrchr(b)
       \/ \E cls \in Classes : VMemfcn(cls) \/ VMemrfcn(cls)
       \/ \E m \in MatchSets : VMemstr(m) \/ VMemrstr(m)
       \/ \E t \in TokArgs : VMemtok(t[1], t[2], <<>>, <<>>) \/ VMemtok(t[1], t[2], <<35>>, <<39, 34>>)
  \/ "zero" \in UOps /\ \E n \in (-1)..2 :
       \/ VMemcpy(n, <<>>)                                  \* no destination fragment
       \/ nofrag /\ \E dcut \in {<<0>>, <<2>>, <<1, 1>>} : VMemcpy(n, dcut)
  \/ "iter" \in UOps /\ \E sep \in USeps : Iter(sep)
  \/ "evcmd" \in UOps /\ EvCmd
  \/ "clientcmd" \in UOps /\ \E sep \in USeps : ClientCmd(sep)
  \/ "cxxdispatch" \in UOps /\ CxxDispatch
  \/ "hash" \in UOps /\ Hash
  \/ "emit" \in UOps /\ Emit
  \/ "cfgnext" \in UOps /\ \E sep \in USeps : CfgNext(sep)
  \/ "assign" \in UOps /\ \E n \in (-1)..2 : Assign(n)
  \/ "property" \in UOps /\ \E sep \in USeps : Property(sep)
  \/ "sappend" \in UOps /\ \E kind \in {"raw", "cobs"}, pre \in {<<>>, <<7, 0>>}, twice \in {0, 1} :
        SAppend(kind, pre, twice)
  \/ "outvals" \in UOps /\ cont = <<>> /\ \E n \in 0..2, ld \in {1, 2}, cap \in {0, 1, 5, 8, 11} : OutVals(n, ld, cap)
  \/ "deccmd" \in UOps /\ ~nofrag /\ \E c \in 0..(MaxLen + 3) : DecCmd(c)
  \/ "histpush" \in UOps /\ flat # <<>> /\ flat[1] = 9 /\ HistPush
  \/ "dgreply" \in UOps /\ \E idl \in {0, 2} : DgReply(idl, IF idl = 0 THEN 0 ELSE 258)

UNext == IF mode = "blank" THEN UStart ELSE UStep

USpec == UInit /\ [][UNext]_uvars

---------------------------------------------------------------------------
(* properties *)
UTypeOK == TypeOK /\ nofrag \in BOOLEAN
URefines == Flat(UFrags) = flat /\ (nofrag => cur = <<>> /\ cont = <<>>)

\* no way of cutting changes an answer: checked on every transition
UDesignAgrees == [][des' = obs'.exp]_uvars
=============================================================================
