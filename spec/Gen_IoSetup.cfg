SPECIFICATION GenSpec
CONSTANTS MaxIn = 2 MaxL = 1 MaxPend = 1 MaxSent = 1 Ops <- OpsQ
VIEW Skel
ACTION_CONSTRAINT Emit
CHECK_DEADLOCK FALSE
