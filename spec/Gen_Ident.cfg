SPECIFICATION GenSpec
CONSTANTS NId = 2 Maxes = {3, 12} Lens = {0, 2, 4, 11, 12} TraitsMax = 12 ValSz = 4 PtrSz = 8 Limit = 65535 CodeOrder = FALSE
CONSTRAINT NoDerived
VIEW Skel
ACTION_CONSTRAINT Emit
CHECK_DEADLOCK FALSE
