SPECIFICATION SpecT
CONSTANTS
  Alphabet <- AlphaN
  Alphabet2 <- AlphaN
  Ranges <- RngN
  MaxLen = 5
  Limit = 65535
  Chunked = FALSE
  NoRangeLen = 0
  CodeDen = {}
  Dims = 1
  Kinds <- KindsLog
  HalfLimits = TRUE
  Uneven = "same"
VIEW View
INVARIANTS TypeOKT PartsOKT PartitionT CompleteT DevOKT NoNonPosDrawn
CHECK_DEADLOCK FALSE
