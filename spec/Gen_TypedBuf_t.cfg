SPECIFICATION GenSpec
CONSTANTS NH = 3 GranE = 2 ES = 16 MaxLen = 2 MaxArg = 2 NV = 2 CTSet = {"raw", "plain", "elem", "elemB"} Prune = TRUE Api = "c" MaxDepth = 8
CONSTRAINT Bound
VIEW Skel
INVARIANTS TypeOK AliasOK Refines Balance AllGone
ACTION_CONSTRAINT Emit
CHECK_DEADLOCK FALSE
