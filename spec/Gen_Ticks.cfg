SPECIFICATION Spec
CONSTANTS NtMax = 3 Firsts <- McFirsts Deltas <- McDeltas RVals <- McRVals IVals <- McIVals RLenMax = 2 LogDen = 64
INVARIANTS TypeOK PtrOK Completes Refines
ACTION_CONSTRAINT Emit
CHECK_DEADLOCK FALSE
