SPECIFICATION TraceSpec
CONSTANTS MaxPolls = 2 Names = {} MaxLen = 0 MaxDepth = 0 Forests = {}
POSTCONDITION TraceAccepted
CHECK_DEADLOCK FALSE
