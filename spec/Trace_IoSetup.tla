--------------------------- MODULE Trace_IoSetup ---------------------------
(* Trace validation: a recorded execution of the real doors (one event per *)
(* call: arguments + observation) must be a behaviour of IoSetup.          *)
(* Executions are concatenated; each starts with an "init" event.          *)
EXTENDS IoSetup, Json, IOUtils
VARIABLE l
TraceLog == ndJsonDeserialize(IOEnv.TRACE)

Reset ==
  /\ nin' = 0 /\ ik' = << >> /\ reg' = {} /\ was' = {} /\ rel' = << >> /\ fdo' = {} /\ pend' = << >>
  /\ bnd' = 0 /\ bp' = 0 /\ wire' = << >> /\ eof' = << >> /\ sent' = 0
  /\ Answer("init", [x |-> 0], "ok", {}, <<>>)
\* a call whose target does not exist (any more) / an environment step the kernel refused: nothing happens
Quiet(a) == UNCHANGED state /\ Answer(a, [x |-> 0], "any", {}, <<>>)
Known(i) == i \in reg
\* message payloads are the recorded ones (the model's numbering is one of them)
SendAs(i, m) ==
  /\ i \in reg /\ Data(ik[i]) /\ ~eof[i]
  /\ wire' = Upd(wire, i, Append(wire[i], m)) /\ sent' = sent + 1
  /\ UNCHANGED <<nin, ik, reg, was, rel, fdo, pend, bnd, bp, eof>>
  /\ Answer("send", [i |-> i, data |-> m], "ok", {}, <<>>)

Step(ev) ==
  CASE ev.a = "init"       -> Reset
    [] ev.a = "listen"     -> Listen
    [] ev.a = "connect"    -> Connect
    [] ev.a = "create"     -> Create
    [] ev.a \in {"connectbad", "listenbad", "createbad"} -> Refused(ev.a)
    [] ev.a = "bind"       -> IF bnd = 0 THEN Bind ELSE Quiet("bind")
    \* whether the kernel took the connection is the environment's answer (recorded)
    [] ev.a = "conn"       -> IF ev.obs.ret = "ok" /\ (IF ev.arg.l = 0 THEN bnd = 1 ELSE ev.arg.l \in Listeners)
                              THEN PConn(ev.arg.l) ELSE Quiet("conn")
    [] ev.a = "accept"     -> IF bnd = 1 THEN Accept(0) ELSE Quiet("accept")
    [] ev.a = "unbind"     -> Unbind
    [] ev.a = "keepread"   -> IF Known(ev.arg.i) /\ ik[ev.arg.i] \in {"c", "a", "n"} THEN KeepRead(ev.arg.i) ELSE Quiet("keepread")
    [] ev.a = "send"       -> IF Known(ev.arg.i) /\ Data(ik[ev.arg.i]) /\ ~eof[ev.arg.i] /\ ev.obs.ret = "ok"
                              THEN SendAs(ev.arg.i, ev.arg.data) ELSE Quiet("send")
    [] ev.a = "pclose"     -> IF Known(ev.arg.i) /\ Data(ik[ev.arg.i]) /\ ~eof[ev.arg.i] /\ wire[ev.arg.i] = <<>>
                              THEN PClose(ev.arg.i) ELSE Quiet("pclose")
    [] ev.a = "wait"       -> IF reg # {} THEN Wait ELSE Quiet("wait")
    [] ev.a = "remove"     -> IF Known(ev.arg.i) THEN Remove(ev.arg.i) ELSE Quiet("remove")
    [] ev.a = "config"     -> Config(ev.arg.c, ev.arg.l)
    [] ev.a = "change"     -> IF Known(ev.arg.i) /\ ik[ev.arg.i] = "r" THEN Change(ev.arg.i) ELSE Quiet("change")
    [] ev.a = "fini"       -> Fini
    [] OTHER               -> FALSE

Matches(ev) ==
  LET e == obs'.exp  o == ev.obs IN
  /\ e.ret = "any" \/ e.ret = o.ret
  /\ e.reg = o.reg /\ e.rel = o.rel /\ e.open = o.open /\ e.got = o.got
  /\ e.stray = o.stray /\ e.bad = o.bad

TraceInit == l = 1 /\ Init
TraceNext ==
  /\ l <= Len(TraceLog)
  /\ l' = l + 1
  /\ LET ev == TraceLog[l] IN Step(ev) /\ Matches(ev)
TraceSpec == TraceInit /\ [][TraceNext]_<<vars, l>>
TraceAccepted ==
  LET n == TLCGet("stats").diameter - 1 IN
  /\ PrintT(<<"MATCHED", n>>)
  /\ n = Len(TraceLog)
CEmpty == {}
=============================================================================
