SPECIFICATION Spec
CONSTANTS
  Alphabet = {32, 97, 128, 255}
  MaxLen = 3
  MaxFrag = 3
  MaxDst = 0
  MaxDstFrag = 1
  MaxQ = 0
  Ops = {"read", "length", "argv", "arrmsg", "memchr", "memfcn", "memstr", "memtok", "wide"}
  EmptyBases = {"slice", "guard"}
  ForeignBytes = {255}
  ArrKinds = {"exact", "shared", "roomy"}
  MaxFail = 4
VIEW View
INVARIANTS TypeOK Refines
PROPERTIES DesignAgrees Normalised OnceAgrees
CHECK_DEADLOCK FALSE
