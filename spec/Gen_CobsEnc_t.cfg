SPECIFICATION GenSpec
CONSTANTS
  Kinds <- KindsT
  Alpha <- AlphaQ
  MaxMsg = 5
  Caps <- CapsQ
  Grows <- GrowsQ
  Pres <- PresQ
  CapMax = 8
CONSTRAINT Bound
VIEW Skel
ACTION_CONSTRAINT Emit
CHECK_DEADLOCK FALSE
