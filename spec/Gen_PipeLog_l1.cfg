SPECIFICATION GenSpec
CONSTANTS NMsg = 1 LogMax = 256 MsgSet <- MsgsL LogArgs <- LogsQ Quotas <- QuotasU Ks <- KsQ Ops <- OpsL
VIEW Full
ACTION_CONSTRAINT Emit
CHECK_DEADLOCK FALSE
