------------------------------ MODULE MC_IoBuf ------------------------------
EXTENDS IoBuf
Bound == /\ \A k \in B : Len(rep[k].bytes) <= MaxLen
         /\ \A h \in A : Len(arr[h]) <= MaxLen
View == <<arr, buf, rep>>
=============================================================================
