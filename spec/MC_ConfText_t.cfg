SPECIFICATION Spec
CONSTANTS Configs <- MCConfigs OptNames <- MCOptNames SecNames <- MCSecNames Values <- MCValues
          Decos <- MCDecosT MaxNodes = 3 MaxDepth = 2
VIEW View
INVARIANTS TypeOK
CHECK_DEADLOCK FALSE
