----------------------------- MODULE Gen_Owned -----------------------------
(* Behaviour export of Owned: one JSON line per generated transition, every *)
(* behaviour ends with the release of everything (expectation by TLC).      *)
EXTENDS Owned, Json
VARIABLE hist
GenInit == OInit /\ hist = <<obs>>
GenNext == ONext /\ hist' = Append(hist, obs')
GenSpec == GenInit /\ [][GenNext]_<<ovars, hist>>
Skel == <<kind, holds, extra, made, cnt, alive, cls, mem>>
NoGapWalk == \A o \in Objs : cnt[o] <= Max \div 2 - 1 \/ cnt[o] >= Max - 1
High(o) == cnt[o] >= Max - 1
Narrow == /\ Cardinality({o \in Objs : High(o)}) <= 1
          /\ (\E o \in Objs : High(o)) => \A p \in Objs : High(p) \/ extra[p] = 0
NarrowGap == NoGapWalk /\ Narrow
(* object budget per scenario: a proxy comes as three objects (clone: two more); the mpt++ scenario has five *)
(* classes and many assignment paths                                                                        *)
Plain == \A o \in Objs : extra[o] = 0 /\ ~High(o)
(* quick tier: written counters and plain-pointer references only while few objects exist *)
CapQ == /\ NarrowGap /\ made <= (CASE kind = "loader" -> 5 [] kind = "outchain" -> 3 [] OTHER -> 2)
        /\ (made > (IF kind = "loader" THEN 3 ELSE 2) => Plain)
(* thorough tier: two handles, five / three / three objects; the mpt++ scenario with three objects without *)
(* written counters and plain pointers                                                                    *)
CapT == /\ NarrowGap /\ made <= (CASE kind = "loader" -> 5 [] OTHER -> 3)
        /\ (kind = "cxxmeta" /\ made > 2 => Plain)
Emit == LET td == [a |-> "teardown", arg |-> [x |-> 0], exp |-> OTeardownExp(alive', cls')] IN
        PrintT(<<"BEHAV", ToJson(IF OCanTeardown(cnt') /\ obs'.a # "teardown" THEN Append(hist', td) ELSE hist')>>)
=============================================================================
