SPECIFICATION TraceSpec
CONSTANTS Widths = {} MaxH = 16 MaxOwn = 1 LimbDom = {0} IdWidths = {} StreamWidths = {}
  MsgDom <- CMsgDom TextDom <- CTextDom
  Transports = {} ConnWidths = {} IdCand = {} IdLimit = 0
  MaxReq = 1000000 MaxPlain = 1000000 MaxStray = 1000000
  BActs = {} BHrets <- CNone SyncMax = 0
  MaxBReq = 1000000 MaxBPlain = 1000000 CRets <- CNone MaxChain = 0
INVARIANTS XTypeOK Distinct XRefines AtMostOnce IdsFit HeaderOK TypeOK
PROPERTIES RightWaiter EndToEnd ReserveTiers Recycle NothingLost StreamOnce Final
POSTCONDITION TraceAccepted
CHECK_DEADLOCK FALSE
