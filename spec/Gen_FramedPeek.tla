--------------------------- MODULE Gen_FramedPeek ---------------------------
(* Behaviour export for FramedPeek (replayed into drv/rawstream.cpp, section "framed").  In the model a peek and a  *)
(* receive answering "none" change nothing; in the code both move decoder state, so the ghosts `polled` and        *)
(* `peeked` (points of the delivery at which such a call was made) keep the export going after them.               *)
EXTENDS FramedPeek, Json
CONSTANTS PollMem, PeekMem
VARIABLES hist, polled, peeked
Delivered == Len(rpend) + 100 * Len(rcvd)
GenInit == PInit /\ hist = <<obs>> /\ polled = {} /\ peeked = {}
GenNext == /\ PNext
           /\ hist' = Append(hist, obs')
           /\ polled' = IF obs'.a = "recv" /\ obs'.exp.ret = "none" /\ Cardinality(polled \cup {Delivered}) <= PollMem
                         THEN polled \cup {Delivered} ELSE polled
           /\ peeked' = IF obs'.a = "peek" /\ Cardinality(peeked \cup {<<Delivered, obs'.arg.max>>}) <= PeekMem
                         THEN peeked \cup {<<Delivered, obs'.arg.max>>} ELSE peeked
GenSpec == GenInit /\ [][GenNext]_<<pvars, hist, polled, peeked>>
MsgsQ == {<<1, 0, 6>>, <<1, 2, 3, 4, 6>>}
MsgsT == {<<>>, <<0, 0>>, <<1, 0, 6>>, <<1, 2, 3, 4, 6>>, <<1, 2, 3, 4, 0, 7>>}
Sh(k, v, wc, wo, rc, ro, g) == [sec |-> "framed", kind |-> k, via |-> v, wcap |-> wc, woff |-> wo, rcap |-> rc, roff |-> ro, grow |-> g]
ShapesQ == {Sh("s5", "c", 8, 5, 8, 6, 2), Sh("s5", "cxx", 0, 0, 0, 0, 8)}
ShapesT == {Sh("s5", "c", 8, 5, 8, 6, 2), Sh("s5", "cxx", 0, 0, 0, 0, 8), Sh("s5", "cxx", 8, 5, 8, 6, 2)}
KsQ == {1, 1000000}
KsT == {1, 2, 1000000}
PeekQ == {<<9, 1>>}
PeekT == {<<9, 1>>, <<2, 0>>}
Skel == <<shape, cur, sent, wdone, wire, rpend, rcvd, held, polled, peeked>>
Emit == PrintT(<<"BEHAV", ToJson(hist')>>)
=============================================================================
