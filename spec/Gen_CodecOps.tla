---------------------------- MODULE Gen_CodecOps ----------------------------
(* Behaviour export for CodecOps: one JSON line per generated transition   *)
(* under a view that keeps what decides the future of the session:         *)
(* encoder side: framing, bytes still to push, bytes of the message in     *)
(*   progress, open block, free room, the layout (frame ends) of the       *)
(*   finished part and how much of it the reader has taken, whether a push *)
(*   of the message in progress was accepted in part; the content of       *)
(*   finished frames is dropped;                                           *)
(* decoder side: the view of Gen_CobsDec plus the class of the last call.  *)
(* Each encoder line also carries what the driver must find when it        *)
(* completes the session from there ("xfin").                              *)
EXTENDS MC_CodecOps, Json
VARIABLES hist,
          part      \* ghost: a push of the message in progress was accepted only in part.  The design reaches the
                    \* same state as by a smaller push that was accepted whole; the code need not (it keeps its
                    \* own count of the message in progress), so the export continues from both.
CONSTANT HistD      \* longest exported decoder behaviour
GenInit == XInit /\ hist = <<obs>> /\ part = FALSE
GenNext == /\ XNext /\ hist' = Append(hist, obs')
           /\ part' = IF obs'.a = "push" /\ obs'.exp.ret = "ok" /\ obs'.exp.n < obs'.arg.k THEN TRUE
                      ELSE IF obs'.a \in {"next", "delete"} THEN FALSE
                      ELSE part
GenSpec == GenInit /\ [][GenNext]_<<allvars, hist, part>>
BoundG == IF mode = "enc" THEN BoundE /\ Len(hist) <= 16
          ELSE IF mode = "arr" THEN Len(hist) <= 12
          ELSE IF mode = "size" THEN BoundD /\ Len(hist) <= 14
          ELSE BoundD /\ Len(hist) <= HistD
SkelE == <<K, Rest, DropN(out, pre), run, code, cap - Len(out) - code, st, marks, pre, cons, left, part>>
SkelD == <<K, DropN(stream, fedn), DropN(reg, pos), curr - pos, dlen, dmsg, dcode, cpos, last = "nobuf", lost, fs = fedn,
           last = "reset">>
Skel  == <<mode, IF IsDec THEN SkelD ELSE SkelE>>
\* what the whole finished output must be when the driver completes the message in progress
FinExp ==
  IF st' = "dead" \/ (st' = "run" /\ ~XAdmits(K', msg')) THEN [ret |-> "err"]
  ELSE LET cur  == st' = "run"
           o    == IF cur THEN (IF IsText(K') THEN out' \o DropN(msg', acc') \o K'.dl
                                ELSE IF IsRaw(K') THEN out' \o run' \o DropN(msg', acc')
                                ELSE FinOut(K', out', run', code', DropN(msg', acc')))
                   ELSE out'
           fin  == (IF st' = "done" \/ cur THEN Append(sess', msg') ELSE sess')
       IN [ret |-> "ok", out |-> o,
           decs |-> IF IsText(K') \/ IsRaw(K') THEN "any"
                    ELSE [i \in 1..Len(fin) |-> IF K'.cmd THEN CmdHeader \o fin[i] ELSE fin[i]]]
EmitE == PrintT(<<"BEHAV", ToJson([p |-> mode, h |-> hist', fin |-> FinExp])>>)
\* decoder side: the plain feed / call / peek / grant behaviours are replayed by C03 already
EmitD == (\E i \in 1..Len(hist') : hist'[i].a \in {"size", "reset"}) => PrintT(<<"BEHAV", ToJson([p |-> mode, h |-> hist'])>>)
Emit  == IF IsDec THEN EmitD ELSE EmitE
=============================================================================
