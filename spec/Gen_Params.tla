----------------------------- MODULE Gen_Params -----------------------------
(* Behaviour export: one JSON line per generated transition from every      *)
(* state that differs in table shape (kinds and metatypes, not tokens),     *)
(* configuration content or fallback.                                       *)
EXTENDS MC_Params, Json
VARIABLE hist
GenInit == Init /\ hist = <<obs>>
GenNext == Next /\ hist' = Append(hist, obs')
GenSpec == GenInit /\ [][GenNext]_<<vars, hist>>
Skel    == <<[id \in DOMAIN tab |-> <<tab[id].kind, tab[id].mt>>], [m \in DOMAIN cfg |-> DOMAIN cfg[m]], fb>>
Emitted == PrintT(<<"BEHAV", ToJson(hist')>>)
=============================================================================
