SPECIFICATION NSpec
CONSTANTS SmallIds = {1} Widths = {} MaxTok = 1
  Texts <- CTexts HRs <- CHRs2
  MaxIn = 3 Kinds = {"h", "s"} MsgIds = {1} NextRVs <- CRVs Whats <- CWhats1
  MaxQ = 1 Hows = {"shut"} MaxSent = 1 Ops <- OpsT3
CONSTRAINT Bound
VIEW View
INVARIANTS TypeOK Refines OnceOnly GoneNotified NTypeOK ReleasedOnce ListedLive InOrderInv
PROPERTIES DeliveredRight OneHandler CalledWhileReady HandedRight ReleaseCause
CHECK_DEADLOCK FALSE
