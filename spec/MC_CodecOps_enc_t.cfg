SPECIFICATION XSpec
CONSTANTS
  Mode = "enc"
  Kinds <- KindsET
  Alpha <- AlphaE
  MaxMsg = 2
  MaxMsgs = 3
  Caps <- CapsZ
  Grows <- Grows12
  Pres <- None
  DelKs <- Del123
  NextSet <- NextAll
  Shifts <- None
  DMaxLen = 0
  DSlacks <- None
  DGrants <- None
  DStreams <- NoStreams
  DFeeds <- None
  DQs <- None
  DOps <- None
  DMis <- None
  CapMax = 8
CONSTRAINT BoundE
VIEW View
INVARIANTS XTypeOK SurvivorsOnly PartialTextX PartialRaw PartialCobs FinDenotesX RefusedX
PROPERTIES AnswerAllowedX DeleteAllowed DeleteClean ReaderView
CHECK_DEADLOCK FALSE
