--------------------------- MODULE Trace_RefCount ---------------------------
(* Trace validation: a recorded execution of the real reference-counting   *)
(* code (one event per call: arguments + observation) must be a behaviour  *)
(* of RefCount.  Executions are concatenated; each starts with "init".     *)
EXTENDS RefCount, Json, IOUtils
VARIABLE l
TraceLog == ndJsonDeserialize(IOEnv.TRACE)

ResetTo(k, tl) ==
  /\ kind' = k /\ tlen' = tl
  /\ holds' = [h \in Handles |-> 0] /\ copyh' = [h \in Handles |-> 0] /\ hascopy' = FALSE
  /\ extra' = [o \in Objs |-> 0] /\ defer' = [o \in Objs |-> 0] /\ made' = 0
  /\ inner' = [o \in Objs |-> 0] /\ origin' = [o \in Objs |-> 0]
  /\ cnt' = [o \in Objs |-> IF k = "bare" /\ o = 1 THEN 1 ELSE 0] /\ alive' = [o \in Objs |-> FALSE]
  /\ snd' = [o \in Objs |-> TRUE] /\ tries' = [o \in Objs |-> 0]
  /\ obs' = [a |-> "init", arg |-> [kind |-> k, nh |-> NH, nobj |-> NObj, max |-> Max],
             exp |-> TeardownExp(k, [o \in Objs |-> FALSE], [o \in Objs |-> IF k = "bare" /\ o = 1 THEN 1 ELSE 0])]

Step(ev) ==
  CASE ev.a = "init"      -> ev.arg.nh = NH /\ ev.arg.nobj = NObj /\ ev.arg.max = Max /\ ResetTo(ev.arg.kind, ev.arg.tlen)
    [] ev.a = "create"    -> ev.arg.len = tlen /\ Create(ev.arg.h)
    [] ev.a = "copy"      -> Copy(ev.arg.h, ev.arg.g, ev.arg.via, ev.arg.sin)
    [] ev.a = "nest"      -> Nest(ev.arg.h, ev.arg.g, ev.arg.via)
    [] ev.a = "teardown"  -> Teardown
    [] ev.a = "drop"      -> Drop(ev.arg.h, ev.arg.via)
    [] ev.a = "move"      -> Move(ev.arg.h, ev.arg.g)
    [] ev.a = "detach"    -> Detach(ev.arg.h)
    [] ev.a = "adopt"     -> Adopt(ev.arg.h, ev.arg.o)
    [] ev.a = "rawref"    -> RawRef(ev.arg.o)
    [] ev.a = "rawunref"  -> RawUnref(ev.arg.o)
    [] ev.a = "defer"     -> Defer(ev.arg.o, ev.arg.armed)
    [] ev.a = "undefer"   -> Undefer(ev.arg.o, ev.arg.msg, ev.arg.accept)
    [] ev.a = "reply"     -> ReplyCtx(ev.arg.o, ev.arg.msg, ev.arg.accept)
    [] ev.a = "poke"      -> Poke(ev.arg.o, ev.arg.v)
    [] ev.a = "arrcopy"   -> ArrCopy
    [] ev.a = "arrdrop"   -> ArrDrop
    [] ev.a = "clone"     -> Clone(ev.arg.h, ev.arg.g)
    [] ev.a = "unshare"   -> Unshare(ev.arg.h, ev.arg.via)
    [] ev.a = "nadd"      -> NotifyAdd(ev.arg.h)
    [] ev.a = "nclear"    -> NotifyClear(ev.arg.o)
    [] ev.a = "nfini"     -> NotifyFini
    [] ev.a = "bareset"   -> BareSet(ev.arg.v)
    [] ev.a = "bareraise" -> BareRaise(ev.arg.api)
    [] ev.a = "barelower" -> BareLower(ev.arg.api)
    [] OTHER              -> FALSE

SeqSet(s) == {s[i] : i \in 1..Len(s)}
Matches(ev) ==
  LET e == obs'.exp  o == ev.obs IN
  /\ (e.ret # "any" => e.ret = o.ret)
  /\ e.href = o.href /\ e.copy = o.copy /\ e.alive = o.alive /\ e.inner = o.inner
  /\ Len(e.gone) = Len(o.gone) /\ SeqSet(e.gone) = SeqSet(o.gone)
  /\ e.cnt = o.cnt /\ e.bare = o.bare
  \* buffers always show their shared flag; a metatype only when it exposes a text buffer
  /\ \A x \in Objs : e.shared[x] = o.shared[x] \/ (kind' # "buf" /\ (e.shared[x] = -1 \/ o.shared[x] = -1))
  /\ (e.val # -1 => e.val = o.val)
  /\ (e.quiet = 0 => o.quiet = 0)
  /\ e.badfree = o.badfree

TraceInit ==
  /\ l = 1 /\ kind = "bare" /\ tlen = 0
  /\ holds = [h \in Handles |-> 0] /\ copyh = [h \in Handles |-> 0] /\ hascopy = FALSE
  /\ extra = [o \in Objs |-> 0] /\ defer = [o \in Objs |-> 0] /\ made = 0
  /\ inner = [o \in Objs |-> 0] /\ origin = [o \in Objs |-> 0]
  /\ cnt = [o \in Objs |-> 0] /\ alive = [o \in Objs |-> FALSE]
  /\ snd = [o \in Objs |-> TRUE] /\ tries = [o \in Objs |-> 0]
  /\ obs = [a |-> "none", arg |-> [x |-> 0], exp |-> TeardownExp("bare", [o \in Objs |-> FALSE], [o \in Objs |-> 0])]

TraceNext ==
  /\ l <= Len(TraceLog)
  /\ l' = l + 1
  /\ LET ev == TraceLog[l] IN
       Step(ev) /\ Matches(ev)

TraceSpec == TraceInit /\ [][TraceNext]_<<vars, l>>

TraceAccepted ==
  LET n == TLCGet("stats").diameter - 1 IN
  /\ PrintT(<<"MATCHED", n>>)
  /\ n = Len(TraceLog)
=============================================================================
