SPECIFICATION TraceSpec
CONSTANTS
  Sources = {}
  MaxInst = 16
  MaxOps = 0
  ModSet = {}
  QuerySet = {}
POSTCONDITION TraceAccepted
CHECK_DEADLOCK FALSE
