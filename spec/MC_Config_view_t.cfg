SPECIFICATION SpecC
CONSTANTS Names <- Names2 Depth = 3 Vals <- ValsQ Sep = 46 Design = "list" Base <- BaseAB MaxSlots = 4
  Ends <- EndsQ Strs <- NoStrs Seps <- NoStrs Asgs <- NoStrs Elems <- NoStrs
CONSTRAINT Bound
VIEW ViewC
INVARIANTS Refines PrefixClosed
PROPERTIES MapProp
CHECK_DEADLOCK FALSE
