----------------------------- MODULE MC_CfgInit -----------------------------
(* Constants of the exhaustive / export configurations of CfgInit (X27);    *)
(* the document and store constants are those of MC_ConfigLoad.             *)
EXTENDS CfgInit, MC_ConfigLoad
NamesI == <<M, A, ArgsN, ConnectN, ListenN>>
P  == <<112>>                         \* "p"
R  == <<114>>                         \* "r"
oc == <<45, 99>>      ol == <<45, 108>>   of == <<45, 102>>   oE == <<45, 69>>   oe == <<45, 101>>   ov == <<45, 118>>
dd == <<45, 45>>
cX == <<45, 99, 120>>                 \* "-cx"
fF == <<45, 102, 70>>                 \* "-fF"
vEc == <<45, 118, 69, 99>>            \* "-vEc"
ox == <<45, 120>>                     \* "-x"
lo == <<45, 45, 99>>                  \* "--c"
Yv == <<121>>
aX == <<97, 61, 120>>                 \* "a=x"
aaY == <<97, 46, 97, 61, 121>>        \* "a.a=y"
pMA  == <<109, 112, 116, 95, 97, 42>> \* "mpt_a*"
FN == <<78>>
ArgsQ1 == { <<P>>, <<P, X>>, <<P, oc, X>>, <<P, cX, ol, Yv, R, aX>>, <<P, oc, X, oc, Yv>>, <<P, ol>>,
            <<P, of, FileDoc>>, <<P, of, FN>>, <<P, of, FileBad>>,
            <<P, oE, oc, X>>, <<P, oc, X, oE>>, <<P, oe, pMA, oe, pAll>>, <<P, dd>>, <<P, dd, oc>>,
            <<P, vEc, X, R>>, <<P, ox>>, <<P, fF, of, FileDoc, oc, X>>, <<P, oE, oe, pAll>>,
            <<P, ov, <<45>>, oc>>, <<P, of, FileDoc, of, FN>>, << <<>>, R, aaY, aX>>, <<P, lo>>,
            <<P, oc, X, of, FileDoc>>, <<P, oe, pAll, oc, X, ol, Yv, dd, R>>, <<P, ol, X, ol, X>>, <<P, oc>> }
ArgsQ2 == { <<P>>, <<P, oc, X, R, aX>>, <<P, oe, pAll, Yv>>, <<P, oE>>, <<P, of, FileDoc, dd>> }
eMC   == <<77, 80, 84, 95, 67, 79, 78, 78, 69, 67, 84, 61, 101>>     \* MPT_CONNECT=e
eML   == <<109, 112, 116, 95, 108, 105, 115, 116, 101, 110, 61>>     \* mpt_listen=
eMAA  == <<77, 112, 116, 95, 65, 95, 97, 61, 49>>                    \* Mpt_A_a=1
eCon  == <<67, 79, 78, 78, 69, 67, 84, 61, 122>>                     \* CONNECT=z
EnvQ1 == { <<>>, <<eMC, ema, eOth>>, <<eMAA, eML, eCon>> }
EnvQ1b == { <<eMC, ema, eOth>>, <<eMAA, eML, eCon>> }
EnvQ2 == { <<eMC, ema, eOth>> }
fE   == <<69>>
fvee == <<118, 101, 101>>
feE  == <<101, 69, 120>>
FlagsQ1 == {Null0, fE, fvee}
FlagsT  == {Null0, fE, fvee, feE, <<>>}
FlagsQ2 == {Null0, fE}
EtcBoth == {"none", "doc"}
EtcNone == {"none"}
Bad1 == <<91, 97, 10>>                \* "[a\n": a section that never ends its name
RInit == {"single", "load"}          \* ("load": the document generator is on)
PreI == {<<M, ConnectN>>, <<A>>, <<M, A>>}
PreI1 == {<<M, ConnectN>>}
ArgsT2 == ArgsQ2 \cup { <<P, oc, X, oc, Yv>>, <<P, dd>>, <<P, oe, pMA>>, <<P, X>> }
ViewI == <<tree, st, draft, doc2, nops, narr, gl, saved, ninit, dead>>
BoundI == Count(st) <= MaxSlots /\ nops <= MaxOps
=============================================================================
