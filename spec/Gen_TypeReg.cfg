SPECIFICATION GenSpec
CONSTANTS
  IfBase <- SIfBase  IfAdd <- SIfAdd  IfCap <- SIfCap
  BuiltinIf <- FBuiltinIf
  DynBase <- SDynBase  DynCap <- SDynCap
  MetaBase <- SMetaBase  MetaCap <- SMetaCap
  GenBase <- SGenBase  GenCap <- SGenCap
  Chunk = 30
  PtrSize <- SPtr
  FixedSize <- SFixedSize
  FixedManaged <- SFixedManaged
  Optional = {}
  Names = {"", "abc", "abcd", "iter", "logger", "metatype", "mpt.x"}
  Sizes = {0, 24}
  Probe <- GProbeQ
  MaxAdds = 2
CONSTRAINT Bound
VIEW View
ACTION_CONSTRAINT Emit
INVARIANTS TypeOK InRange
PROPERTIES Legal Stable RefuseKeeps DesignAgrees
CHECK_DEADLOCK FALSE
