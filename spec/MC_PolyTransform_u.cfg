SPECIFICATION SpecT
CONSTANTS
  Alphabet <- Alpha3
  Alphabet2 <- Alpha3
  Ranges <- Rng13
  MaxLen = 5
  Limit = 65535
  Chunked = FALSE
  NoRangeLen = 2
  CodeDen = {}
  Dims = 2
  Kinds <- KindsML
  HalfLimits = FALSE
  Uneven = "short"
VIEW View
INVARIANTS TypeOKT PartsOKT PartitionT CompleteT DevOKT NoNonPosDrawn
CHECK_DEADLOCK FALSE
