SPECIFICATION Spec
CONSTANTS
  Alphabet = {0, 32, 34, 97}
  MaxLen = 4
  MaxFrag = 4
  MaxDst = 3
  MaxDstFrag = 3
  MaxQ = 4
  Ops = {"read", "length", "argv", "arrmsg", "memchr", "memfcn", "memstr", "memtok", "append", "qget"}
  EmptyBases = {"slice"}
  ForeignBytes = {97}
  ArrKinds = {"exact", "shared", "roomy"}
  MaxFail = 5
VIEW View
INVARIANTS TypeOK Refines
PROPERTIES DesignAgrees Normalised OnceAgrees
CHECK_DEADLOCK FALSE
