SPECIFICATION GenSpec
CONSTANTS
  LBits = 16
  TypeTab <- RealTypes
  GraphLo = 33 GraphHi = 126 MaxBits = 64
  GPrec = 6 ByteMax = 255 DecLimit = 127
  PrintTypes = {"b", "y", "n", "q", "i", "u", "x", "t", "l", "f", "d", "e"}
  IntFormats <- IntFormatsGT
  FltFormats <- FltFormatsGT
  Lefts = {2, 6, 21, 200}
  FltLefts = {2, 12, 24, 200}
  FmtAlphabet = {32, 43, 102, 101, 48, 50, 53, 54, 46}
  FmtLen = 4
  DestAlphabet = {32, 58, 48, 50, 53, 54, 45, 120}
  DestLen = 4
  DestSeps = {0, 58}
  DestMax = {7}
  RDsts = {"b", "y", "i", "x", "t", "f", "d"}
  RBases = {0}
  RAlphabet = {32, 45, 48, 49, 57, 102}
  RLen = 3
  VecTypes = {"c", "b", "y", "i", "x", "f", "d", "l"}
  VecLen = 2
  SinkTypes = {"b", "y", "n", "q", "i", "u", "x", "t", "l"} SinkCaps = {1, 3, 5, 10} SinkLefts = {0, 4, 12, 24, 64}
  Ks = {7, 8, 15, 16, 31, 32, 63, 64}
  FltDesign = FALSE
INVARIANTS XDesignSound XDigitsSound XPrintedSound
ACTION_CONSTRAINT Emit
CHECK_DEADLOCK FALSE
