------------------------------ MODULE ParseFront ------------------------------
(***************************************************************************)
(* Front ends of the configuration parser (extension X09 of C09 / C08).     *)
(*                                                                         *)
(* ConfText says which forest a text denotes (C09); ParseMon says what a    *)
(* clean failure is (C08: error reported, target as it was, nothing left    *)
(* behind, every node of the target linked to a live parent).  This module  *)
(* composes the two for the calls an application really makes:              *)
(*                                                                         *)
(*   Load(front end, text, format, flags, failAt, logger)                   *)
(*     success: target := forest denoted by the text, by the front end's    *)
(*              replace / merge rule                                        *)
(*     refused: target unchanged                                            *)
(*                                                                         *)
(* front ends                                                               *)
(*   parsenode  mpt_parse_node, character source in memory      (merge)     *)
(*   ctxstdio   mpt_parse_node, source mpt_getchar_stdio(FILE)  (merge)     *)
(*   ctxfile    mpt_parse_node, source mpt_getchar_file(fd)     (merge)     *)
(*   nodeparse  mpt_node_parse(node, FILE, format, limits)       (replace)   *)
(*   cxx        mpt::config_parser set_format/open/read         (replace)   *)
(*   cxxreset   ... read, reset, read again                      (replace)   *)
(*   folder     mpt_parse_folder(DIR):  one file per visible entry, default *)
(*              format, every name permitted; no target of its own: the     *)
(*              handler sees, file by file, the events the text denotes     *)
(*                                                                         *)
(* A text is refused iff it denotes no forest (ConfText.StrayEnd) or one of *)
(* its names is not permitted by the flag set active for the load (NameOK = *)
(* mpt_parse_ncheck, flags as mpt_parse_accept reads them).  With an        *)
(* allocation failure injected (failAt = k > 0: the k-th allocation inside  *)
(* the call answers NULL) both outcomes are permitted; nothing else is.     *)
(* Merging into a non-empty target: the statement does not say what the     *)
(* merged forest is (tree "any"), the clean-failure side still applies.     *)
(*                                                                         *)
(* Language beyond ConfText (XOption): an option written with the option    *)
(* start character of the format (os [blank] name as value), and the option *)
(* with the empty name (flag e).                                            *)
(*                                                                         *)
(* Tier 2: the arrangement of the front ends around the core parse          *)
(* (detach / restore of node_parse.c, temporary root of parse_node.c and    *)
(* parse.cpp) -- Refines: it yields the Tier-1 result.                      *)
(***************************************************************************)
EXTENDS ConfText

CONSTANTS FrontEnds,   \* front ends offered
          LoadAccs,    \* flag strings offered at load time; Same = the flags the document was written for
          Pres,        \* initial targets (driver: marker groups)
          MaxLoads,    \* loads per behaviour
          MaxFail,     \* failAt in 0..MaxFail
          MaxAside,    \* files put aside for a folder load
          XNames,      \* option names offered to XOption (may hold the empty name)
          XValues, XDecos

VARIABLES target,      \* forest below the target node | Unknown
          pre,         \* which initial target
          aside,       \* documents put aside (folder): [text, ev, good]
          nl,          \* loads so far
          fobs
fvars == <<vars, target, pre, aside, nl, fobs>>

Unknown == << [n |-> <<>>, v |-> <<>>, c |-> <<>>, unknown |-> TRUE] >>

---------------------------------------------------------------------------
(* initial targets, as drv/parsefront.c builds them *)
S(str) == B(str)
Leaf(n, v) == [n |-> n, v |-> v, c |-> <<>>]
PreForest(p) ==
  LET keep == [n |-> S(<<107, 101, 101, 112>>), v |-> S(<<107, 118>>), c |-> << Leaf(S(<<115, 117, 98>>), S(<<99, 118>>)) >>]
      a    == Leaf(S(<<97>>), S(<<111, 108, 100>>))
      zz   == [n |-> S(<<122, 122>>), v |-> <<>>, c |-> << Leaf(S(<<122, 99>>), S(<<99, 118>>)) >>]
  IN CASE p = 0 -> <<>> [] p = 1 -> <<keep>> [] p = 2 -> <<keep, a>> [] OTHER -> <<keep, a, zz>>

---------------------------------------------------------------------------
(* flag sets <-> flag strings (mpt_parse_accept) *)
FlagOrder == <<"f", "c", "s", "w", "e", "b">>
LetterOf(f) == CASE f = "f" -> 102 [] f = "c" -> 99 [] f = "s" -> 115 [] f = "w" -> 119 [] f = "e" -> 101 [] f = "b" -> 98
AccStr(sect, opt) ==
  LET ss == SelectSeq(FlagOrder, LAMBDA f : f \in sect)
      os == SelectSeq(FlagOrder, LAMBDA f : f \in opt)
  IN [i \in DOMAIN ss |-> LetterOf(ss[i]) - 32] \o [i \in DOMAIN os |-> LetterOf(os[i])]
AccStrChecked == \A s \in SUBSET AllFlags, o \in SUBSET AllFlags :
                    (s \cup o # {}) => AcceptOf(AccStr(s, o)) = [sect |-> s, opt |-> o]

Merges(fe)  == fe \in {"parsenode", "ctxstdio", "ctxfile"}
IsCxx(fe)   == fe \in {"cxx", "cxxreset"}
(* flags active for a load *)
Same == << 1 >>                 \* "the flags the document was written for"
LoadAcc(lacc) == IF lacc = Same THEN cfg.acc ELSE lacc
EffAcc(fe, lacc) ==
  LET a == LoadAcc(lacc) IN
  IF fe = "nodeparse" /\ a = Null THEN AcceptOf(<<110, 115>>)                       \* limits default "ns"
  ELSE IF IsCxx(fe) /\ a = Null THEN [sect |-> {"c", "w", "s"}, opt |-> {"c"}]     \* config_parser::config_parser
  ELSE AcceptOf(a)
FeOK(fe, lacc) ==
  /\ fe \in FrontEnds
  /\ fe = "folder" => (cfg.fmt = Null /\ LoadAcc(lacc) = Null)                     \* default format, every name
  /\ StyleOf(F) # "none"

RECURSIVE TreeOK(_, _)
TreeOK(nodes, A2) ==
  \A i \in DOMAIN nodes :
     IF nodes[i].k = "o" THEN NameOK(nodes[i].n, A2.opt)
     ELSE NameOK(nodes[i].n, A2.sect) /\ TreeOK(nodes[i].c, A2)

RECURSIVE BBi(_, _)          \* byte tuple -> runs
BBi(s, i) == IF i > Len(s) THEN <<>> ELSE Cat(<< <<s[i], 1>> >>, BBi(s, i + 1))
BB(s) == BBi(s, 1)
RECURSIVE NLi(_, _)          \* (index recursion: the sequence argument stays the same expression)
NLi(r, i) == IF i > Len(r) THEN 0 ELSE (IF r[i][1] = 10 THEN r[i][2] ELSE 0) + NLi(r, i + 1)
NL(r) == NLi(r, 1)

(* the current document: ConfText keeps a complete rendering and its denotation in obs *)
DocText == IF obs.a = "parse" THEN obs.arg.text ELSE <<>>
DocRet  == obs.exp.ret
DocTree == obs.exp.tree
DocEv   == obs.exp.ev
DocGood(A2) == DocRet = "ok" /\ TreeOK(Fold(stack), A2)

---------------------------------------------------------------------------
(* Tier 1: result of a load *)
Result(fe, tgt, tree) ==
  IF ~Merges(fe) THEN tree
  ELSE IF tgt = <<>> THEN tree
  ELSE IF tree = <<>> THEN tgt
  ELSE Unknown

(* Tier 2: how the code arranges it *)
CoreParseT2(kids, good, tree) ==            \* parse_node.c: temporary root conf; on error conf is cleared
  IF ~good THEN [ok |-> FALSE, kids |-> kids]
  ELSE IF kids = <<>> THEN [ok |-> TRUE, kids |-> tree]          \* root->children = conf.children
  ELSE IF tree = <<>> THEN [ok |-> TRUE, kids |-> kids]          \* nothing to add
  ELSE [ok |-> TRUE, kids |-> Unknown]                           \* mpt_node_move + clear superseded
(* lg = the optional logger argument: 0 = none (NULL), 1 = a log target.  It selects the exit path of the failure   *)
(* branch (message with the line, or a plain return); the old children are put back on both.                       *)
NodeParseT2(kids, good, tree, lg) ==        \* node_parse.c: old = children; children = 0; parse; clear old | restore
  LET old == kids
      r == CoreParseT2(<<>>, good, tree)
      restored == old                       \* conf->children = old, before the (optional) message
  IN IF r.ok THEN [ok |-> TRUE, kids |-> r.kids]
     ELSE IF lg = 0 THEN [ok |-> FALSE, kids |-> restored] ELSE [ok |-> FALSE, kids |-> restored]
CxxReadT2(kids, good, tree, lg) ==          \* parse.cpp: node tmp; on success mpt_node_clear(&to), children handed over;
  IF good THEN [ok |-> TRUE, kids |-> tree]  \* on failure tmp is cleared, then (lg = 0) plain return | message
  ELSE [ok |-> FALSE, kids |-> kids]
FrontT2(fe, kids, good, tree, lg) ==
  IF fe = "nodeparse" THEN NodeParseT2(kids, good, tree, lg)
  ELSE IF IsCxx(fe) THEN CxxReadT2(kids, good, tree, lg)
  ELSE CoreParseT2(kids, good, tree)
(* which values of the optional logger argument a front end has *)
LogsOf(fe) == IF Merges(fe) THEN {0} ELSE {0, 1}

---------------------------------------------------------------------------
(* what a load must show.  alts = the permitted complete observations.      *)
(* a key that is absent = the statement is silent there; <key>_in = the set of permitted values *)
OkAlt(fe, new, txt) ==
  [ret |-> "ok", links |-> 0, fds |-> 0, badfree |-> 0]
    @@ (IF new = Unknown THEN [ret |-> "ok"] ELSE [tree |-> new])
    @@ (IF fe = "nodeparse" THEN [ret |-> "ok"] ELSE [line_in |-> {1 + NL(txt)}])   \* every line break counted once
ErrAlt(fe, tgt, txt, lg) ==
  [ret |-> "error", tree |-> tgt, links |-> 0, net |-> 0, fds |-> 0, badfree |-> 0]
    @@ (IF fe = "nodeparse" /\ lg = 0 THEN [ret |-> "error"]          \* mpt_node_parse reports the line to the logger only
        ELSE [line_in |-> 0..(1 + NL(txt))])

Alts(fe, good, k, tgt, new, txt, lg) ==
  IF ~good THEN << ErrAlt(fe, tgt, txt, lg) >>
  ELSE IF k = 0 THEN << OkAlt(fe, new, txt) >>
  ELSE << OkAlt(fe, new, txt), ErrAlt(fe, tgt, txt, lg) >>

ResetDoc ==
  /\ text' = <<>> /\ stack' = << [n |-> <<>>, k |-> <<>>] >> /\ nn' = 0
  /\ obs' = [a |-> "none", arg |-> [x |-> 0], exp |-> [ret |-> "ok", tree |-> <<>>, links |-> 0, ev |-> <<>>]]

FailOK(fe, k) == IsCxx(fe) => k = 0            \* no allocation seam below the C++ front end
LoadAlts(fe, lacc, k, lg) ==
  Alts(fe, DocGood(EffAcc(fe, lacc)), k, target, Result(fe, target, DocTree), DocText, lg)
LoadObs(fe, lacc, k, lg) ==
  [a |-> "load",
   arg |-> [fe |-> fe, fmt |-> BB(cfg.fmt), acc |-> BB(LoadAcc(lacc)), text |-> DocText, fail |-> k, log |-> lg],
   exp |-> [alts |-> LoadAlts(fe, lacc, k, lg)]]
LoadOK(fe, lacc, k) == fe # "folder" /\ FeOK(fe, lacc) /\ FailOK(fe, k) /\ target # Unknown /\ aside = <<>>

Load(fe, lacc, k, lg, out) ==
  /\ LoadOK(fe, lacc, k) /\ nl < MaxLoads /\ lg \in LogsOf(fe)
  /\ LET lo   == LoadObs(fe, lacc, k, lg)
         alts == lo.exp.alts
         new  == Result(fe, target, DocTree)
         t2   == FrontT2(fe, target, DocGood(EffAcc(fe, lacc)) /\ alts[out].ret = "ok", DocTree, lg)
     IN /\ out \in DOMAIN alts
        /\ target' = IF alts[out].ret = "ok" THEN new ELSE target
        /\ fobs' = [a |-> lo.a, arg |-> lo.arg, exp |-> lo.exp, t2 |-> t2.kids]
  /\ nl' = nl + 1
  /\ UNCHANGED <<vars, pre, aside>>

(* mpt_node_clear(target): everything the loads allocated is released (ParseMon R4) *)
ClearObs == [a |-> "clear", arg |-> [x |-> 0], exp |-> [alts |-> << [tree |-> <<>>, netclear |-> 0, badfree |-> 0] >>]]
Clear ==
  /\ nl >= 1 /\ fobs.a = "load" /\ aside = <<>>
  /\ target' = <<>>
  /\ fobs' = [a |-> "clear", arg |-> ClearObs.arg, exp |-> ClearObs.exp, t2 |-> <<>>]
  /\ UNCHANGED <<vars, pre, aside, nl>>

(* folder: the documents put aside and the current one are the files of one directory *)
PutAside ==
  /\ "folder" \in FrontEnds /\ Len(aside) < MaxAside /\ cfg.fmt = Null /\ cfg.acc = Null /\ nl = 0
  /\ aside' = Append(aside, [text |-> DocText, ev |-> DocEv, good |-> DocRet = "ok"])
  /\ ResetDoc
  /\ UNCHANGED <<cfg, target, pre, nl, fobs>>

Perms(s) ==
  LET n == Len(s)
      bij == {f \in [1..n -> 1..n] : \A i, j \in 1..n : i # j => f[i] # f[j]}
  IN {[i \in 1..n |-> s[f[i]]] : f \in bij}

FolderFiles == Append(aside, [text |-> DocText, ev |-> DocEv, good |-> DocRet = "ok"])
FolderObs(k, hidden, lg) ==
  LET files == FolderFiles
      good == \A i \in DOMAIN files : files[i].good
      okA  == [ret |-> "ok", files_in |-> Perms([i \in DOMAIN files |-> files[i].ev]),
               net |-> 0, fds |-> 0, badfree |-> 0]
      errA == [ret |-> "error", net |-> 0, fds |-> 0, badfree |-> 0]
  IN [a |-> "load",
      arg |-> [fe |-> "folder", files |-> [i \in DOMAIN files |-> files[i].text], hidden |-> hidden, fail |-> k, log |-> lg],
      exp |-> [alts |-> IF ~good THEN <<errA>> ELSE IF k = 0 THEN <<okA>> ELSE <<okA, errA>>]]
LoadFolder(k, hidden, lg, out) ==
  /\ FeOK("folder", Same) /\ nl < MaxLoads
  /\ LET lo == FolderObs(k, hidden, lg) IN
        /\ out \in DOMAIN lo.exp.alts
        /\ fobs' = [a |-> lo.a, arg |-> lo.arg, exp |-> lo.exp, t2 |-> target]
  /\ nl' = nl + 1
  /\ UNCHANGED <<vars, target, pre, aside>>

(* a further document for the same target; only where the outcome of the load before is determined *)
NewDoc ==
  /\ nl >= 1 /\ nl < MaxLoads /\ fobs.a \in {"load", "clear"} /\ Len(fobs.exp.alts) = 1 /\ target # Unknown /\ aside = <<>>
  /\ text # <<>>
  /\ ResetDoc
  /\ UNCHANGED <<cfg, target, pre, aside, nl, fobs>>

---------------------------------------------------------------------------
(* options beyond ConfText: written with the option start character; the empty name *)
(*   [gap] [os [b0]] name [b1] as [b2] value [b3] end                                *)
XOption(withos, name, v, q, g, b0, b1, b2, b3, term) ==
  /\ Style # "none" /\ nn < MaxNodes /\ F.as # 0
  /\ NameOK(name, A.opt) /\ NameLex(F, name)
  /\ ValOK(F, v, q) /\ GapOK(F, g)
  /\ withos => F.os # 0
  /\ (~withos /\ F.os # 0) => Style = "pre"          \* the other styles require the start character
  /\ (~withos /\ name # <<>>) => FALSE               \* that is ConfText.AddOption
  /\ name = <<>> => b1 = "none"
  /\ LET lead == IF withos THEN Cat(C1(F.os), BlankText(b0)) ELSE <<>>
         body == CatAll(<<GapText(F, g), lead, name, BlankText(b1), C1(F.as), BlankText(b2), ValText(v, q), BlankText(b3)>>)
         ending == IF F.oe # 0 THEN C1(F.oe)
                   ELSE IF term = "com" THEN ComLine(F, CHOOSE c \in ComChars(F) : TRUE)
                   ELSE C1(10)
         st2 == AddLeaf(stack, name, v)
     IN /\ F.oe # 0 => term = "end"
        /\ F.oe = 0 => term \in {"nl", "com", "eof"}
        /\ term = "com" => ComChars(F) # {} /\ BlankText(b3) # <<>>
        /\ term = "eof" => Closers(stack) = <<>>
        /\ text' = CatAll(<<text, body, ending>>)
        /\ stack' = st2 /\ nn' = nn + 1
        /\ Case(IF term = "eof" THEN Cat(text, body) ELSE Cat(text', Closers(st2)), st2)
  /\ UNCHANGED cfg

(* ConfText.AddOption writes no start character: where the format has one, only the prefix style takes such options *)
PlainOK == F.os = 0 \/ Style = "pre"

DocNext ==
  \/ (PlainOK /\ \E name \in OptNames, v \in Values, q \in Quotes, d \in Decos :
        AddOption(name, v, q, d.g, d.b1, d.b2, d.b3, IF F.oe # 0 THEN "end" ELSE d.term))
  \/ \E name \in SecNames, d \in Decos : OpenSection(name, d.g, d.b1, d.b2, d.g2)
  \/ \E d \in Decos : CloseSection(d.g)
  \/ \E w \in BOOLEAN, name \in XNames, v \in XValues, q \in Quotes, d \in XDecos :
        XOption(w, name, v, q, d.g, d.b3, d.b1, d.b2, d.b3, IF F.oe # 0 THEN "end" ELSE d.term)
  \/ \E d \in Decos, w \in BOOLEAN : StrayEnd(d.g, w)

FInit ==
  /\ Init
  /\ pre \in Pres /\ target = PreForest(pre) /\ aside = <<>> /\ nl = 0
  /\ fobs = [a |-> "init", arg |-> [pre |-> pre], exp |-> [alts |-> << [tree |-> PreForest(pre)] >>], t2 |-> PreForest(pre)]

FNext ==
  \/ (nl < MaxLoads /\ DocNext /\ UNCHANGED <<target, pre, aside, nl, fobs>>)
  \/ \E fe \in FrontEnds, lacc \in LoadAccs, k \in 0..MaxFail, lg \in 0..1, out \in 1..2 : Load(fe, lacc, k, lg, out)
  \/ PutAside
  \/ \E k \in 0..MaxFail, h \in BOOLEAN, lg \in 0..1, out \in 1..2 : LoadFolder(k, h, lg, out)
  \/ NewDoc
  \/ Clear

FSpec == FInit /\ [][FNext]_fvars

---------------------------------------------------------------------------
FTypeOK ==
  /\ TypeOK /\ nl \in 0..MaxLoads /\ pre \in Pres
  /\ fobs.a \in {"init", "load", "clear"}
(* Tier 2 yields the Tier-1 result *)
Refines == fobs.a = "load" => fobs.t2 = target
(* C08 on the model: a refused load leaves the target as it was; a successful replacing load installs the document *)
Atomic ==
  [][(fobs'.a = "load" /\ nl' = nl + 1 /\ target' # target) =>
        \E i \in DOMAIN fobs'.exp.alts : fobs'.exp.alts[i].ret = "ok"]_fvars
Faithful ==
  [][(nl' = nl + 1 /\ fobs'.arg.fe \in {"nodeparse", "cxx", "cxxreset"} /\ target' # target) => target' = DocTree]_fvars
=============================================================================
