SPECIFICATION Spec
CONSTANTS Kinds = {"reply"}
  NH = 3 NObj = 2 Max = 4 MaxExtra = 1 MaxTries = 2 AsFound = FALSE
VIEW View
INVARIANTS TypeOK AliveIffReferenced CountExact NoDangling ObsAgrees
PROPERTIES RefusedUnchanged DestroyedOnce NoResurrection ReplaceOnce
CHECK_DEADLOCK FALSE
