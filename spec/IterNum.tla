------------------------------ MODULE IterNum ------------------------------
(***************************************************************************)
(* Exact numbers for spec/Iter.tla (property C19).                         *)
(*  - rationals <<p, q>> (q > 0, lowest terms) with small components;      *)
(*  - naturals of any size as little-endian sequences of limbs base 2^15   *)
(*    (TLC integers are 32 bit), used to compare a double, logged by the   *)
(*    driver as <<sign, m0, m1, m2, m3, e>> (value = +-M * 2^e with        *)
(*    M = m0 + m1 B + m2 B^2 + m3 B^3 < 2^53), with a rational:            *)
(*    Near(d, r, t)  ==  |d - r| <= 2^t.                                   *)
(***************************************************************************)
EXTENDS Integers, Sequences, TLC

B == 32768

Abs(x) == IF x < 0 THEN -x ELSE x
RECURSIVE Gcd(_, _)
Gcd(a, b) == IF b = 0 THEN a ELSE Gcd(b, a % b)

(* ---------------- rationals ---------------- *)
RNorm(p, q) ==
  LET s == IF q < 0 THEN -1 ELSE 1
      g == Gcd(Abs(p), Abs(q))
  IN IF p = 0 THEN <<0, 1>> ELSE <<(s * p) \div g, (s * q) \div g>>
RInt(n)     == <<n, 1>>
RAdd(x, y)  == RNorm(x[1] * y[2] + y[1] * x[2], x[2] * y[2])
RSub(x, y)  == RNorm(x[1] * y[2] - y[1] * x[2], x[2] * y[2])
RMul(x, y)  == RNorm(x[1] * y[1], x[2] * y[2])
RDivI(x, n) == RNorm(x[1], x[2] * n)
RAbs(x)     == <<Abs(x[1]), x[2]>>
RLe(x, y)   == x[1] * y[2] <= y[1] * x[2]
RMax(x, y)  == IF RLe(x, y) THEN y ELSE x
RECURSIVE RPow(_, _)
RPow(x, n)  == IF n = 0 THEN <<1, 1>> ELSE RMul(x, RPow(x, n - 1))
RECURSIVE Pow2(_)
Pow2(n)     == IF n = 0 THEN 1 ELSE 2 * Pow2(n - 1)

(* smallest e >= -30 with |x| <= 2^e (magnitude exponent), without overflow *)
RECURSIVE MagUp(_, _)
MagUp(a, e)   == IF a[1] <= a[2] * Pow2(e) THEN e ELSE MagUp(a, e + 1)
RECURSIVE MagDown(_, _)
MagDown(a, k) == IF k >= 30 \/ a[1] * Pow2(k + 1) > a[2] THEN -k ELSE MagDown(a, k + 1)
MagExp(x) ==
  LET a == RAbs(x) IN
  IF a[1] = 0 THEN -30 ELSE IF a[1] > a[2] THEN MagUp(a, 1) ELSE MagDown(a, 0)

(* decimal text of a rational whose denominator divides 1000 *)
Pad3(n) == IF n < 10 THEN "00" \o ToString(n) ELSE IF n < 100 THEN "0" \o ToString(n) ELSE ToString(n)
RText(x) ==
  LET a == Abs(x[1])
      ip == a \div x[2]
      fr == ((a % x[2]) * 1000) \div x[2]
  IN (IF x[1] < 0 THEN "-" ELSE "") \o ToString(ip) \o (IF x[2] = 1 THEN "" ELSE "." \o Pad3(fr))

(* ---------------- big naturals ---------------- *)
Rest(L) == SubSeq(L, 2, Len(L))
RECURSIVE Strip(_)
Strip(L) == IF L # <<>> /\ L[Len(L)] = 0 THEN Strip(SubSeq(L, 1, Len(L) - 1)) ELSE L
FromInt(n) == Strip(<<n % B, (n \div B) % B, n \div (B * B)>>)
RECURSIVE MulC(_, _, _)
MulC(L, k, c) ==
  IF L = <<>> THEN (IF c = 0 THEN <<>> ELSE <<c % B>> \o MulC(<<>>, k, c \div B))
  ELSE LET t == L[1] * k + c IN <<t % B>> \o MulC(Rest(L), k, t \div B)
MulS(L, k) == Strip(MulC(L, k, 0))                  \* k < 2^15
Zeros(n) == [i \in 1..n |-> 0]
Shl(L, n) == IF L = <<>> THEN <<>> ELSE Zeros(n \div 15) \o MulS(L, Pow2(n % 15))
RECURSIVE CmpFrom(_, _, _)
CmpFrom(X, Y, i) == IF i = 0 THEN 0 ELSE IF X[i] < Y[i] THEN -1 ELSE IF X[i] > Y[i] THEN 1 ELSE CmpFrom(X, Y, i - 1)
Cmp(X, Y) == IF Len(X) < Len(Y) THEN -1 ELSE IF Len(X) > Len(Y) THEN 1 ELSE CmpFrom(X, Y, Len(X))
RECURSIVE AddC(_, _, _)
AddC(X, Y, c) ==
  IF X = <<>> /\ Y = <<>> THEN (IF c = 0 THEN <<>> ELSE <<c>>)
  ELSE LET x == IF X = <<>> THEN 0 ELSE X[1]
           y == IF Y = <<>> THEN 0 ELSE Y[1]
           t == x + y + c
       IN <<t % B>> \o AddC(IF X = <<>> THEN <<>> ELSE Rest(X), IF Y = <<>> THEN <<>> ELSE Rest(Y), t \div B)
Add(X, Y) == Strip(AddC(X, Y, 0))
RECURSIVE SubC(_, _, _)
SubC(X, Y, c) ==      \* X >= Y
  IF X = <<>> THEN <<>>
  ELSE LET y == IF Y = <<>> THEN 0 ELSE Y[1]
           t == X[1] - y - c
       IN <<(t + B) % B>> \o SubC(Rest(X), IF Y = <<>> THEN <<>> ELSE Rest(Y), IF t < 0 THEN 1 ELSE 0)
AbsDiff(X, Y) == IF Cmp(X, Y) >= 0 THEN Strip(SubC(X, Y, 0)) ELSE Strip(SubC(Y, X, 0))

(* ---------------- doubles ---------------- *)
(* d = <<sign, m0, m1, m2, m3, e>>; sign 0 / 1 (negative); sign >= 2: not finite *)
DFinite(d) == d[1] \in {0, 1}
DMant(d)   == Strip(<<d[2], d[3], d[4], d[5]>>)
DZero(d)   == DFinite(d) /\ DMant(d) = <<>>

(* |d - p/q| <= 2^t, all scaled by q * 2^-z with z = min(e, t, 0) *)
Near(d, r, t) ==
  /\ DFinite(d)
  /\ LET e == d[6]
         z == IF e < t THEN (IF e < 0 THEN e ELSE 0) ELSE (IF t < 0 THEN t ELSE 0)
         L == Shl(MulS(DMant(d), r[2]), e - z)
         R == Shl(FromInt(Abs(r[1])), -z)
         Bd == Shl(FromInt(r[2]), t - z)
         same == (d[1] = 1) = (r[1] < 0) \/ L = <<>> \/ R = <<>>
         D == IF same THEN AbsDiff(L, R) ELSE Add(L, R)
     IN Cmp(D, Bd) <= 0

(* the double equals the rational exactly *)
Exactly(d, r) ==
  /\ DFinite(d)
  /\ LET e == d[6]
         z == IF e < 0 THEN e ELSE 0
         L == Shl(MulS(DMant(d), r[2]), e - z)
         R == Shl(FromInt(Abs(r[1])), -z)
     IN L = R /\ (L = <<>> \/ (d[1] = 1) = (r[1] < 0))

(* the double as rational when that fits small integers (M odd or 0, |e| small) *)
DSmall(d) == DFinite(d) /\ d[4] = 0 /\ d[5] = 0 /\ d[6] \in -20..0 /\ d[3] < 2
DRat(d)   == RNorm((IF d[1] = 1 THEN -1 ELSE 1) * (d[2] + B * d[3]), Pow2(-d[6]))
=============================================================================
