SPECIFICATION SpecMU
CONSTANTS MaxNodes = 4 Kinds <- Kinds1 Pos <- PosU Keys <- KeysQ
          Paths <- Paths1 APaths <- APaths1 Forests <- Forests1 Ups <- UpsQ Stops <- StopsQ
VIEW ShapeView
INVARIANTS TypeOK WellFormed OnceInForest Refines QueryInv QueryInv2
PROPERTIES QueryAgree CloneIso ReleaseOnce2 Produced Switched
CHECK_DEADLOCK FALSE
