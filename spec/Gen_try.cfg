SPECIFICATION GenSpec
CONSTANTS NH = 3 Gran = 2 Hdr = 64 PChunk = 64 MaxLen = 3 MaxArg = 3 Prune = TRUE MaxDepth = 7
CONSTRAINT Bound
VIEW Skel
ACTION_CONSTRAINT Emit
CHECK_DEADLOCK FALSE
