SPECIFICATION GenSpec
CONSTANTS SmallIds = {1} Widths = {} MaxTok = 1
  Texts <- CTexts HRs <- CHRs
  MaxIn = 2 Kinds = {"h", "s", "p", "l"} MsgIds = {1} NextRVs <- CRVs Whats <- CWhats1
  MaxQ = 2 Hows = {"shut"} MaxSent = 2 Ops <- OpsQ
CONSTRAINT BoundQ
VIEW SkelQ
ACTION_CONSTRAINT EmitQ
CHECK_DEADLOCK FALSE
