SPECIFICATION PTraceSpec
CONSTANTS MaxCode = 255 NMsg = 1000000
  MsgSet = {}
  Shapes = {}
  Ks = {}
  PeekArgs = {}
INVARIANTS TraceIntegrity Availability HeldOK
POSTCONDITION TraceAccepted
CHECK_DEADLOCK FALSE
