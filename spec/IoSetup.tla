------------------------------ MODULE IoSetup ------------------------------
(***************************************************************************)
(* How inputs come into existence and are exchanged (extension X26 of      *)
(* property C11, in the reading of Notify.tla): mpt_notify_bind,           *)
(* mpt_notify_connect, mpt_bind + mpt_accept, mpt_notify_config,           *)
(* mpt_input_create, mpt_notify_change, mpt_notify_clear, mpt_notify_fini. *)
(*                                                                         *)
(* Tier 1 (meaning, the variables of Notify.tla with the same names):      *)
(*   reg -- inputs registered now (tokens), was -- ever registered,        *)
(*   rel -- end-of-life notifications (releases) seen per input,           *)
(*   wire -- per input the messages ITS peer wrote and it has not handed   *)
(*           on; eof -- its peer is gone.                                  *)
(* Tier 2 (design): fdo -- tokens whose descriptor is open (an input owned *)
(*   by the notifier alone has its descriptor open exactly while it is     *)
(*   registered: closed once, at release), pend -- pending connections of  *)
(*   a listening input, bnd/bp -- a bound socket that is not an input      *)
(*   (mpt_bind; mpt_accept makes inputs from it) and its pending           *)
(*   connections.                                                          *)
(* Kinds: "l" listening input (mpt_notify_bind / listen entry), "c"        *)
(* connected (mpt_notify_connect / connect entry), "a" made by mpt_accept  *)
(* and added, "n" accepted by a listening input's next(), "r" remote       *)
(* input of mpt_input_create.                                              *)
(* Where C11 is silent (return values, order in which ready inputs are     *)
(* served, order of configuration entries) the answer is "any" / a set.    *)
(***************************************************************************)
EXTENDS Naturals, Integers, Sequences, FiniteSets, TLC

CONSTANTS MaxIn,      \* input tokens 1..MaxIn
          MaxL,       \* listening inputs registered at a time
          MaxPend,    \* pending connections in total
          MaxSent,    \* messages sent in total
          Ops         \* groups of calls offered

VARIABLES nin, ik, reg, was, rel, fdo, pend, bnd, bp, wire, eof, sent, obs
state == <<nin, ik, reg, was, rel, fdo, pend, bnd, bp, wire, eof, sent>>
vars  == <<state, obs>>

---------------------------------------------------------------------------
Ext(f, t, v) == [x \in DOMAIN f \cup {t} |-> IF x = t THEN v ELSE f[x]]
Upd(f, t, v) == [f EXCEPT ![t] = v]
MinOf(S) == CHOOSE m \in S : \A x \in S : m <= x
RECURSIVE SetSeq(_)
SetSeq(S) == IF S = {} THEN <<>> ELSE LET m == MinOf(S) IN <<m>> \o SetSeq(S \ {m})
RECURSIVE SumOver(_, _)
SumOver(f, S) == IF S = {} THEN 0 ELSE LET m == MinOf(S) IN f[m] + SumOver(f, S \ {m})
Lsn(k)  == k = "l"
Data(k) == k \in {"c", "a", "n", "r"}
Listeners == {i \in reg : Lsn(ik[i])}
PendAll == bp + SumOver(pend, Listeners)

\* what the real system must show after a step: registered inputs, inputs released in this step, tokens whose
\* descriptor is open, messages handed to the handler per input (got), descriptors open that belong to nobody
\* (stray) and close() calls on descriptors that were not open or belong to somebody else (bad)
Answer(a, arg, ret, rl, got) ==
  obs' = [a |-> a, arg |-> arg,
          exp |-> [ret |-> ret, reg |-> SetSeq(reg'), rel |-> SetSeq(rl), open |-> SetSeq(fdo'),
                   got |-> got, stray |-> 0, bad |-> 0]]

\* n fresh tokens of the kinds ks (a sequence), all registered
Fresh(ks) ==
  LET n == Len(ks)  T == (nin + 1)..(nin + n) IN
  /\ nin' = nin + n
  /\ ik'   = [x \in 1..(nin + n) |-> IF x \in T THEN ks[x - nin] ELSE ik[x]]
  /\ rel'  = [x \in 1..(nin + n) |-> IF x \in T THEN 0 ELSE rel[x]]
  /\ pend' = [x \in 1..(nin + n) |-> IF x \in T THEN 0 ELSE pend[x]]
  /\ wire' = [x \in 1..(nin + n) |-> IF x \in T THEN <<>> ELSE wire[x]]
  /\ eof'  = [x \in 1..(nin + n) |-> IF x \in T THEN FALSE ELSE eof[x]]
  /\ reg' = reg \cup T /\ was' = was \cup T /\ fdo' = fdo \cup T

---------------------------------------------------------------------------
(* mpt_notify_bind: a listening input *)
Listen ==
  /\ nin < MaxIn /\ Cardinality(Listeners) < MaxL
  /\ Fresh(<<"l">>)
  /\ UNCHANGED <<bnd, bp, sent>>
  /\ Answer("listen", [tok |-> nin + 1], "ok", {}, <<>>)

(* mpt_notify_connect to a listening peer: a connected input *)
Connect ==
  /\ nin < MaxIn
  /\ Fresh(<<"c">>)
  /\ UNCHANGED <<bnd, bp, sent>>
  /\ Answer("connect", [tok |-> nin + 1], "ok", {}, <<>>)

(* mpt_input_create(connect string) + mpt_notify_add *)
Create ==
  /\ nin < MaxIn
  /\ Fresh(<<"r">>)
  /\ UNCHANGED <<bnd, bp, sent>>
  /\ Answer("create", [tok |-> nin + 1], "ok", {}, <<>>)

(* a door that fails (nobody listens at the address): nothing registered, nothing left open *)
Refused(a) ==
  /\ UNCHANGED state
  /\ Answer(a, [x |-> 0], "refused", {}, <<>>)

(* mpt_bind + listen: a bound socket that is no input *)
Bind ==
  /\ bnd = 0 /\ bnd' = 1
  /\ UNCHANGED <<nin, ik, reg, was, rel, fdo, pend, bp, wire, eof, sent>>
  /\ Answer("bind", [x |-> 0], "ok", {}, <<>>)

(* environment: a peer connects to listening input l (0: to the bound socket) *)
PConn(l) ==
  /\ PendAll < MaxPend /\ nin + PendAll < MaxIn
  /\ IF l = 0 THEN bnd = 1 /\ bp' = bp + 1 /\ UNCHANGED pend
     ELSE l \in Listeners /\ pend' = Upd(pend, l, pend[l] + 1) /\ UNCHANGED bp
  /\ UNCHANGED <<nin, ik, reg, was, rel, fdo, bnd, wire, eof, sent>>
  /\ Answer("conn", [l |-> l], "ok", {}, <<>>)

(* mpt_accept on the bound socket + mpt_notify_add: exactly one new registered input per pending connection; *)
(* none pending: no input.  Which descriptor number the kernel hands out is the environment's choice (low = 1: *)
(* the lowest one, 0, is free)                                                                                 *)
Accept(low) ==
  /\ bnd = 1
  /\ IF bp > 0
     THEN /\ Fresh(<<"a">>) /\ bp' = bp - 1
          /\ Answer("accept", [tok |-> nin + 1, low |-> low], "ok", {}, <<>>)
     ELSE /\ UNCHANGED <<nin, ik, reg, was, rel, fdo, pend, bp, wire, eof>>
          /\ Answer("accept", [tok |-> 0, low |-> low], "refused", {}, <<>>)
  /\ UNCHANGED <<bnd, sent>>

(* mpt_bind(handle, 0): the bound socket is released; releasing the handle again changes nothing (whatever got its   *)
(* descriptor number meanwhile is not touched); connections still pending there are lost                           *)
Unbind ==
  /\ bnd' = 0 /\ bp' = 0
  /\ UNCHANGED <<nin, ik, reg, was, rel, fdo, pend, wire, eof, sent>>
  /\ Answer("unbind", [x |-> 0], "any", {}, <<>>)

(* _mpt_stream_setfile(fd, -1) on a registered bidirectional input: it keeps its one descriptor for reading only;   *)
(* a descriptor still referenced stays open, the input stays registered and goes on receiving its peer's events       *)
KeepRead(i) ==
  /\ i \in reg /\ ik[i] \in {"c", "a", "n"}
  /\ UNCHANGED state
  /\ Answer("keepread", [i |-> i], "any", {}, <<>>)

(* environment: the peer of input i writes one message / goes away *)
Send(i) ==
  /\ i \in reg /\ Data(ik[i]) /\ ~eof[i] /\ sent < MaxSent
  /\ wire' = Upd(wire, i, Append(wire[i], <<i, sent + 1>>)) /\ sent' = sent + 1
  /\ UNCHANGED <<nin, ik, reg, was, rel, fdo, pend, bnd, bp, eof>>
  /\ Answer("send", [i |-> i, data |-> <<i, sent + 1>>], "ok", {}, <<>>)
PClose(i) ==
  /\ i \in reg /\ Data(ik[i]) /\ ~eof[i] /\ wire[i] = <<>>
  /\ eof' = Upd(eof, i, TRUE)
  /\ UNCHANGED <<nin, ik, reg, was, rel, fdo, pend, bnd, bp, wire, sent>>
  /\ Answer("pclose", [i |-> i], "ok", {}, <<>>)

(* mpt_notify_wait + mpt_notify_next / dispatch, repeated until nothing is left to do: every listening input       *)
(* accepts its pending connections, exactly one new registered input each (tokens in the order of the listeners'   *)
(* tokens, then of the connections; how much an input reads in one go is its own business), every                  *)
(* input hands on the messages of its own peer and no other's, an input whose peer is gone is removed and released *)
\* the listeners in the order of their tokens, each as often as it has pending connections
RECURSIVE Repeat(_)
Repeat(q) == IF q = <<>> THEN <<>> ELSE [k \in 1..pend[Head(q)] |-> Head(q)] \o Repeat(Tail(q))
Got == LET S == {i \in reg : Data(ik[i]) /\ wire[i] # <<>>}
           q == SetSeq(S)
       IN [k \in DOMAIN q |-> [i |-> q[k], d |-> wire[q[k]]]]
Wait ==
  LET acc  == Repeat(SetSeq(Listeners))
      gone == {i \in reg : Data(ik[i]) /\ eof[i]}
      n    == Len(acc)
      T    == (nin + 1)..(nin + n)
      E(f, v0) == [x \in 1..(nin + n) |-> IF x \in T THEN v0 ELSE f[x]]
  IN
  /\ reg # {}
  /\ nin' = nin + n
  /\ ik' = E(ik, "n") /\ eof' = E(eof, FALSE)
  /\ rel' = [x \in 1..(nin + n) |-> IF x \in gone THEN rel[x] + 1 ELSE E(rel, 0)[x]]
  /\ pend' = [x \in 1..(nin + n) |-> IF x \in T \/ x \in Listeners THEN 0 ELSE pend[x]]
  /\ wire' = [x \in 1..(nin + n) |-> <<>>]
  /\ reg' = (reg \ gone) \cup T /\ was' = was \cup T /\ fdo' = (fdo \ gone) \cup T
  /\ UNCHANGED <<bnd, bp, sent>>
  /\ Answer("wait", [from |-> acc], "any", gone, Got)

(* mpt_notify_clear(descriptor of i) *)
Remove(i) ==
  /\ i \in reg
  /\ reg' = reg \ {i} /\ rel' = Upd(rel, i, rel[i] + 1) /\ fdo' = fdo \ {i}
  /\ UNCHANGED <<nin, ik, was, pend, bnd, bp, wire, eof, sent>>
  /\ Answer("remove", [i |-> i], "any", {i}, <<>>)

(* mpt_notify_config: a configuration with a connect and / or a listen entry, each good or failing ("bad": nobody *)
(* listens there / the address cannot be bound): exactly the inputs it lists, the connected one first            *)
Config(c, l) ==
  LET ks == (IF c = "ok" THEN <<"c">> ELSE <<>>) \o (IF l = "ok" THEN <<"l">> ELSE <<>>) IN
  /\ nin + Len(ks) <= MaxIn
  /\ l = "ok" => Cardinality(Listeners) < MaxL
  /\ Fresh(ks)
  /\ UNCHANGED <<bnd, bp, sent>>
  /\ Answer("config", [c |-> c, l |-> l, tok |-> nin + 1], "any", {}, <<>>)

(* mpt_notify_change(input r, new address): the remote input r gets a new peer; the descriptor it had is closed     *)
(* (once), it stays (or becomes) registered under the new one and from now on receives the new peer's events only  *)
Change(r) ==
  /\ r \in reg /\ ik[r] = "r"
  /\ wire' = Upd(wire, r, <<>>) /\ eof' = Upd(eof, r, FALSE)
  /\ UNCHANGED <<nin, ik, reg, was, rel, fdo, pend, bnd, bp, sent>>
  /\ Answer("change", [i |-> r], "any", {}, <<>>)

(* mpt_notify_fini: every registered input released once *)
Fini ==
  /\ reg' = {} /\ fdo' = fdo \ reg
  /\ rel' = [x \in DOMAIN rel |-> IF x \in reg THEN rel[x] + 1 ELSE rel[x]]
  /\ UNCHANGED <<nin, ik, was, pend, bnd, bp, wire, eof, sent>>
  /\ Answer("fini", [x |-> 0], "ok", reg, <<>>)

---------------------------------------------------------------------------
Init ==
  /\ nin = 0 /\ ik = << >> /\ reg = {} /\ was = {} /\ rel = << >> /\ fdo = {} /\ pend = << >>
  /\ bnd = 0 /\ bp = 0 /\ wire = << >> /\ eof = << >> /\ sent = 0
  /\ obs = [a |-> "init", arg |-> [x |-> 0],
            exp |-> [ret |-> "ok", reg |-> <<>>, rel |-> <<>>, open |-> <<>>, got |-> <<>>, stray |-> 0, bad |-> 0]]

Next ==
  \/ Listen \/ Connect
  \/ "refuse" \in Ops /\ (Refused("connectbad") \/ Refused("listenbad"))
  \/ "accept" \in Ops /\ (Bind \/ (\E low \in {0, 1} : Accept(low)) \/ PConn(0))
  \/ "release" \in Ops /\ (Unbind \/ \E i \in reg : KeepRead(i))
  \/ \E l \in Listeners : PConn(l)
  \/ \E i \in reg : Send(i) \/ PClose(i)
  \/ Wait
  \/ \E i \in reg : Remove(i)
  \/ "config" \in Ops /\ \E c, l \in {"none", "ok", "bad"} : Config(c, l)
  \/ "create" \in Ops /\ (Create \/ Refused("createbad") \/ \E r \in reg : Change(r))
  \/ Fini

Spec == Init /\ [][Next]_vars

---------------------------------------------------------------------------
TypeOK ==
  /\ reg \subseteq 1..nin /\ was \subseteq 1..nin /\ reg \subseteq was /\ fdo \subseteq 1..nin
  /\ DOMAIN ik = 1..nin /\ DOMAIN rel = 1..nin /\ DOMAIN wire = 1..nin /\ DOMAIN eof = 1..nin /\ DOMAIN pend = 1..nin
  /\ bnd \in {0, 1} /\ bp \in Nat
\* every input ever registered that is not registered any more was released exactly once; a registered one not at all
ReleasedOnce ==
  \A t \in 1..nin : /\ rel[t] <= 1
                    /\ t \in reg => rel[t] = 0
                    /\ t \in was \ reg => rel[t] = 1
\* descriptors: open exactly while the input lives (closed once, at release)
OpenWhileLive == fdo = reg

\* an input receives the events that are its own and no other's, only while registered
OwnEventsOnly ==
  [][\A k \in DOMAIN obs'.exp.got :
        LET g == obs'.exp.got[k] IN
        /\ g.i \in reg /\ rel[g.i] = 0 /\ g.d = wire[g.i]
        /\ \A m \in DOMAIN g.d : g.d[m][1] = g.i]_vars
\* a listening input that accepts creates exactly one new registered input per pending connection it takes
OnePerConnection ==
  [][obs'.a \in {"wait", "accept"} =>
        (nin' - nin) = (PendAll - (bp' + SumOver(pend', {i \in reg : Lsn(ik[i])})))]_vars
\* releases happen only on removal (peer gone, clear) or at teardown; after teardown everybody is released
ReleaseCause ==
  [][obs'.a = "init" \/
     /\ \A t \in 1..nin : rel'[t] # rel[t] => obs'.a \in {"wait", "remove", "fini"} /\ t \in reg /\ t \notin reg'
     /\ obs'.a = "fini" => (reg' = {} /\ \A t \in was : rel'[t] = 1)]_vars
=============================================================================
