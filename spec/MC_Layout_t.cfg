SPECIFICATION Spec3
CONSTANTS KindSet = {"axis", "line", "text", "graph", "world"} MaxOps = 3
VIEW View
INVARIANTS TypeOK Refines OwnStrings InDomain
PROPERTIES SetGet Frame RefuseFrame ResetDefault CopyEqual ReadOnly
CHECK_DEADLOCK FALSE
