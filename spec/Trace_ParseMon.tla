--------------------------- MODULE Trace_ParseMon ---------------------------
(* Trace validation for C08: every line of $TRACE is one recorded run of   *)
(* the real parser (driver action "events" = mpt_parse_config with a       *)
(* recording handler, "parse" = mpt_parse_node on a prepared target).  The *)
(* record is unfolded into the monitor's events and must be accepted by    *)
(* ParseMon (Refused = 0).  One TLC step per run.                          *)
EXTENDS ParseMon, Json, IOUtils
VARIABLE l
TraceLog == ndJsonDeserialize(IOEnv.TRACE)

ReadsAt(o, i) == IF i = 0 THEN 0 ELSE o.ev[i].r
RECURSIVE Unfold(_, _)
Unfold(o, i) ==       \* handler events 1..i, each preceded by the reads made since the previous one
  IF i = 0 THEN <<>>
  ELSE Unfold(o, i - 1)
       \o (IF ReadsAt(o, i) > ReadsAt(o, i - 1) THEN <<[t |-> "getc", k |-> ReadsAt(o, i) - ReadsAt(o, i - 1)]>> ELSE <<>>)
       \o <<[t |-> o.ev[i].e, p |-> o.ev[i].p, vl |-> IF o.ev[i].hv = 1 THEN o.ev[i].vl ELSE 0, post |-> o.ev[i].post]>>

EvList(run) ==
  LET o == run.obs
      ok == o.ret = "ok"
  IN IF run.a = "events"
     THEN LET n == Len(o.ev) IN
          <<[t |-> "start", len |-> o.len, before |-> <<>>]>>
          \o Unfold(o, n)
          \o (IF o.reads > ReadsAt(o, n) THEN <<[t |-> "getc", k |-> o.reads - ReadsAt(o, n)]>> ELSE <<>>)
          \o <<[t |-> "return", ok |-> ok, after |-> <<>>, net |-> o.net, netclear |-> o.net, links |-> 0]>>
     ELSE IF run.a = "folder"       \* mpt_parse_folder: heap blocks and descriptors left behind count alike
     THEN <<[t |-> "start", len |-> 0, before |-> <<>>],
            [t |-> "return", ok |-> ok, after |-> <<>>, net |-> o.net + o.fds, netclear |-> o.net + o.fds, links |-> 0]>>
     ELSE <<[t |-> "start", len |-> o.len, before |-> o.fbefore]>>
          \o (IF o.reads > 0 THEN <<[t |-> "getc", k |-> o.reads]>> ELSE <<>>)
          \o <<[t |-> "return", ok |-> ok, after |-> o.ftree, net |-> o.net, netclear |-> o.netclear, links |-> o.links]>>

RECURSIVE Final(_, _, _)
Final(s, evs, i) == IF i > Len(evs) THEN s ELSE Final(Upd(s, evs[i]), evs, i + 1)

TraceInit == l = 1 /\ TLCSet(2, 0) /\ mon = Idle /\ obs = [a |-> "none", arg |-> [t |-> "none"], exp |-> [phase |-> "idle"]]

(* every run is judged; a refused one is reported (run index, event index, rule) and counted *)
TraceNext ==
  /\ l <= Len(TraceLog)
  /\ LET run == TraceLog[l]
         evs == EvList(run)
         r == Refused(Idle, evs, 1)
     IN /\ IF r = 0 THEN TRUE
           ELSE /\ PrintT(<<"REJECT", l, r, IF r <= Len(evs) THEN Why(StateAt(Idle, evs, r), evs[r]) ELSE "R2:no-return">>)
                /\ TLCSet(2, TLCGet(2) + 1)
        /\ mon' = Final(Idle, evs, 1)
        /\ obs' = [a |-> run.a, arg |-> [t |-> "run"], exp |-> [phase |-> mon'.phase]]
  /\ l' = l + 1

TraceSpec == TraceInit /\ [][TraceNext]_<<vars, l>>

TraceAccepted ==
  LET n == TLCGet("stats").diameter - 1 IN
  /\ PrintT(<<"MATCHED", n>>)
  /\ PrintT(<<"REJECTED", TLCGet(2)>>)
  /\ n = Len(TraceLog)
  /\ TLCGet(2) = 0
=============================================================================
