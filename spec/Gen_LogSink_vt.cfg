SPECIFICATION GenSpec
CONSTANTS
  Configs <- CfgsMix
  Heads <- HeadsOne
  Levels = {}
  Calls <- CallsAll
  TextBytes = {97}
  MaxText = 1
  Ops = {"vlog", "log"}
  LogMax = 12
  AsFound = {}
  Chain = FALSE
  GenMax = 12
VIEW GenView
CONSTRAINT GenBound
CHECK_DEADLOCK FALSE
ACTION_CONSTRAINT Emit
