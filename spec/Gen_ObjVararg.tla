---------------------------- MODULE Gen_ObjVararg ----------------------------
(* Behaviour export of ObjVararg: one JSON line per generated transition;   *)
(* the view is kind, step count and which slots of the two objects differ   *)
(* from their defaults.                                                      *)
EXTENDS ObjVararg, Json
VARIABLE hist
Pub(o) == [a |-> o.a, arg |-> o.arg, exp |-> o.exp]
GenInit == Init /\ hist = <<Pub(obs)>>
GenNext == Next /\ hist' = Append(hist, Pub(obs'))
GenSpec == GenInit /\ [][GenNext]_<<vars, hist>>
Mask(o) == {s \in DOMAIN Def : st[o][s] # Def[s]}
Skel  == <<kind, ops, Mask(1), Mask(2)>>
Emit  == PrintT(<<"BEHAV", ToJson(hist')>>)
=============================================================================
