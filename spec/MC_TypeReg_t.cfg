SPECIFICATION Spec
CONSTANTS
  IfBase = 8  IfAdd = 2  IfCap = 4
  BuiltinIf <- McBuiltinIf
  DynBase = 12  DynCap = 2
  MetaBase = 20  MetaCap = 3
  GenBase = 40  GenCap = 3
  Chunk = 2
  PtrSize = 8
  FixedSize <- McFixedSize
  FixedManaged <- McFixedManaged
  Optional = {2}
  Names = {"", "abc", "abcd", "iter", "logger"}
  Sizes = {0, 3}
  Probe <- McProbe
  MaxAdds = 9
CONSTRAINT Bound
VIEW View
INVARIANTS TypeOK Refines ChunksDense InRange NameInverse FmtFace
PROPERTIES Legal Stable RefuseFrame DesignAgrees
CHECK_DEADLOCK FALSE
