---------------------------- MODULE Trace_Mapping ----------------------------
(* Trace validation: a recorded execution of the real binding table (one   *)
(* event per call: arguments + the answers of every lookup of the universe *)
(* asked after it) must be a behaviour of Mapping.  Executions are         *)
(* concatenated; each starts with an "init" event naming the universe,     *)
(* which must be the one of the .cfg.                                      *)
EXTENDS Mapping, Json, IOUtils
VARIABLE l
TraceLog == ndJsonDeserialize(IOEnv.TRACE)

TDims   == <<0, 1, 2>>
TMasks  == <<1, 2, 7, 8>>
TClis   == <<0, 1, 65535>>
TPaths  == <<<<1, 1, 1>>, <<1, 1, 2>>, <<1, 2, 1>>, <<2, 1, 1>>, <<2, 1, 2>>, <<255, 255, 255>>>>
NoSeq == <<>>
None == {}
ActsNone == {}

Reset(ev) ==
  /\ ev.arg.dims = DimSeq /\ ev.arg.masks = MaskSeq /\ ev.arg.clis = CliSeq /\ ev.arg.paths = FlattenSeq(PathSeq)
  /\ bound' = {} /\ cycm' = <<>> /\ tab' = <<>> /\ cyc' = <<>>
  /\ obs' = [a |-> "init", arg |-> ev.arg,
             exp |-> [ret |-> "ok", all |-> AllLookups({}), cyc |-> CycAnswers(<<>>)], dsg |-> [ret |-> "ok"]]

Step(ev) ==
  CASE ev.a = "init"        -> Reset(ev)
    [] ev.a = "add"         -> Add(ev.arg.src, ev.arg.dst, ev.arg.cli)
    [] ev.a = "del"         -> Del(ev.arg.src, ev.arg.dst, ev.arg.cli)
    [] ev.a = "clear"       -> Clear
    [] ev.a = "setcycle"    -> SetCycle(ev.arg.path, ev.arg.tok)
    [] ev.a = "clearcycles" -> ClearCycles(ev.arg.hint)
    [] ev.a = "bindtext"    -> /\ TextOf(ev.arg.items, ev.arg.gaps) = ev.arg.text
                               /\ BindText(ev.arg.items, ev.arg.gaps, ev.arg.cli, ev.obs.recs)
    [] ev.a = "bindclear"   -> BindClearMsg
    [] OTHER                -> FALSE

Matches(ev) ==
  LET e == obs'.exp  a == ev.a IN
  /\ e.all = ev.obs.all
  /\ e.cyc = ev.obs.cyc
  /\ a \in {"init", "add", "clear", "setcycle"} => e.ret = ev.obs.ret
  /\ a \in {"bindtext", "bindclear"} => ev.obs.open = 0 /\ ev.obs.junk = 0
  /\ a = "bindtext" => (e.anyret = 1 \/ ev.obs.ret = Len(ev.obs.recs) \div 2)
  /\ a = "bindclear" => ev.obs.msgs = e.msgs /\ ev.obs.ret = 0

TraceInit ==
  /\ l = 1 /\ bound = {} /\ cycm = <<>> /\ tab = <<>> /\ cyc = <<>>
  /\ obs = [a |-> "none", arg |-> [x |-> 0], exp |-> [ret |-> "ok"], dsg |-> [ret |-> "ok"]]

TraceNext ==
  /\ l <= Len(TraceLog)
  /\ l' = l + 1
  /\ LET ev == TraceLog[l] IN
       Step(ev) /\ Matches(ev)

TraceSpec == TraceInit /\ [][TraceNext]_<<vars, l>>

TraceAccepted ==
  LET n == TLCGet("stats").diameter - 1 IN
  /\ PrintT(<<"MATCHED", n>>)
  /\ n = Len(TraceLog)
=============================================================================
