SPECIFICATION Spec
CONSTANTS
  IfBase = 8  IfAdd = 2  IfCap = 3
  BuiltinIf <- McBuiltinIf
  DynBase = 12  DynCap = 1
  MetaBase = 20  MetaCap = 5
  GenBase = 40  GenCap = 5
  Chunk = 2
  PtrSize = 8
  FixedSize <- McFixedSize
  FixedManaged <- McFixedManaged
  Optional = {2}
  Names = {"", "abcd", "wxyz"}
  Sizes = {0, 3}
  Probe <- McProbe
  MaxAdds = 12
CONSTRAINT Bound
VIEW View
INVARIANTS TypeOK Refines ChunksDense InRange NameInverse FmtFace
PROPERTIES Legal Stable RefuseFrame DesignAgrees
CHECK_DEADLOCK FALSE
