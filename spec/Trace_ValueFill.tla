--------------------------- MODULE Trace_ValueFill ---------------------------
(* Trace validation (X19): recorded calls on real sources, consumers and     *)
(* stores must be a behaviour of ValueFill in which every answer is          *)
(* acceptable to the meaning (Tier 1): values within the tolerance of the    *)
(* exact rational (Iter!Near / TolExp), walks visit exactly the next         *)
(* elements, columns hold what was assigned.  Where the meaning leaves a     *)
(* choice (placeholder stage, dimension created by a query, refusals the     *)
(* statement permits, reserve shrinking) the recorded answer selects it.     *)
(* The create event carries the scenario record (parameters only).           *)
(* Sources of kind "unknown" (mutated file contents): no fault, and after a  *)
(* reset / in a clone the same calls get the same answers as after creation. *)
EXTENDS ValueFill, Json, IOUtils
VARIABLES l, memo
TraceLog == ndJsonDeserialize(IOEnv.TRACE)

KnownX(s) == s.kind \in {"linear", "range", "factor", "factormax", "boundary", "poly", "values", "text", "buffer", "args", "file", "cxx"}
NoMemo == [ref |-> <<>>, k |-> <<>>]
Log(ev) == obs' = [a |-> ev.a, arg |-> ev.arg, exp |-> ev.obs]

NearList(ds, xs) == Len(ds) = Len(xs) /\ \A j \in 1..Len(xs) : Near(ds[j], xs[j], TolExp(src, xs[j]))
StagesNear(os, st) ==
  /\ Len(os) = Len(st)
  /\ \A s \in 1..Len(st) : /\ Len(os[s]) = Len(st[s])
                           /\ \A d \in 1..Len(st[s]) : NearList(os[s][d], st[s][d].v)
SnapNear(o, st) ==       \* evaluated with the new store: the other store (if any) reports what it held
  /\ o.ns = Len(st) /\ StagesNear(o.st, st)
  /\ IF "cl" \in DOMAIN store' THEN StagesNear(o.alt, store'.cl.st) ELSE o.alt = <<>>
StoresNear(o, vs) == Len(o.stores) = Len(vs) /\ \A c \in 1..Len(vs) : NearList(o.stores[c], vs[c].v)

Ans(ev) == IF ev.a \in {"value", "consume"} THEN <<ev.a, ev.obs.ret, ev.obs.d>> ELSE <<ev.a, ev.obs.ret, <<>>>>
StepU(ev) ==      \* unknown source: answers are compared with the first pass
  LET i == ev.arg.i IN
  /\ i \in 1..Len(memo.k)
  /\ UNCHANGED <<src, inst, todo, store, arr, nops>>
  /\ Log(ev)
  /\ CASE ev.a \in {"value", "advance", "consume"} ->
            LET k == memo.k[i] IN
            IF k < 0 THEN UNCHANGED memo
            ELSE IF k < Len(memo.ref)
            THEN memo.ref[k + 1] = Ans(ev) /\ memo' = [memo EXCEPT !.k[i] = k + 1]
            ELSE memo' = [ref |-> Append(memo.ref, Ans(ev)), k |-> [memo.k EXCEPT ![i] = k + 1]]
       [] ev.a = "reset" ->
            /\ ev.obs.ret \in {"ok", "error"}
            /\ memo' = [memo EXCEPT !.k[i] = IF ev.obs.ret = "ok" THEN 0 ELSE -1]
       [] ev.a = "clone" ->
            /\ ev.obs.ret \in {"ok", "none"}
            /\ memo' = IF ev.obs.ret = "ok" THEN [memo EXCEPT !.k = Append(memo.k, memo.k[i])] ELSE memo
       [] OTHER -> FALSE

IterCalls == {"value", "advance", "reset", "clone", "consume", "walk", "consumex", "rangeset"}

Step(ev) ==
  CASE ev.a = "create" ->
         /\ src' = ev.src /\ todo' = <<>> /\ store' = NoStore /\ arr' = NoArr /\ nops' = 0
         /\ obs' = [a |-> "create", arg |-> ev.arg, src |-> ev.src, exp |-> ev.obs]
         /\ IF KnownX(ev.src)
            THEN /\ ev.obs.ret = "ok"                    \* a well-formed source is accepted
                 /\ inst' = <<Fresh(ElemsX(ev.src))>>
                 /\ memo' = NoMemo
            ELSE /\ ev.obs.ret \in {"ok", "refused"}
                 /\ inst' = <<>>
                 /\ memo' = [ref |-> <<>>, k |-> IF ev.obs.ret = "ok" THEN <<0>> ELSE <<>>]
    [] ev.a = "nop" ->
         /\ src' = ev.src /\ inst' = <<>> /\ todo' = <<>> /\ store' = NoStore /\ arr' = NoArr /\ nops' = 0 /\ memo' = NoMemo
         /\ obs' = [a |-> "nop", arg |-> ev.arg, src |-> ev.src, exp |-> ev.obs]
    [] ev.a \in IterCalls /\ ev.arg.i \notin 1..(IF KnownX(src) THEN Len(inst) ELSE Len(memo.k)) ->
         \* no such instance (a clone or the source was refused): the driver made no call
         /\ ev.obs.ret = "noinst"
         /\ UNCHANGED <<src, inst, todo, store, arr, nops, memo>> /\ Log(ev)
    [] ev.a \in {"value", "advance", "reset", "clone", "consume"} /\ ~KnownX(src) -> StepU(ev)
    [] ev.a = "value" /\ "type" \in DOMAIN ev.arg ->
         LET I == inst[ev.arg.i] IN
         /\ UNCHANGED <<todo, store, arr, nops, memo>>
         /\ ValueTyped(ev.arg.i, ev.arg.type)
         /\ IF I.pos < Len(I.seq)
            THEN ev.obs.ret = "value" /\ Near(ev.obs.d, I.seq[I.pos + 1], Max2(TolExp(src, I.seq[I.pos + 1]), IF ev.arg.type = "f" THEN MagExp(I.seq[I.pos + 1]) - 23 ELSE -99))
            ELSE ev.obs.ret = "end"
    [] ev.a = "value" ->
         /\ UNCHANGED <<todo, store, arr, nops, memo>>
         /\ Value(ev.arg.i, ev.obs.ret, ev.obs.d)
         /\ T1Value(src, inst[ev.arg.i], ev.obs.ret, ev.obs.d)
    [] ev.a = "consume" ->
         /\ UNCHANGED <<todo, store, arr, nops, memo>>
         /\ Consume(ev.arg.i, ev.obs.ret, ev.obs.d)
         /\ T1Consume(src, inst[ev.arg.i], ev.obs.ret, ev.obs.d)
    [] ev.a = "advance" ->
         /\ UNCHANGED <<todo, store, arr, nops, memo>>
         /\ Advance(ev.arg.i, ev.obs.ret)
         /\ T1Advance(inst[ev.arg.i], ev.obs.ret)
    [] ev.a = "reset" ->
         /\ UNCHANGED <<todo, store, arr, nops, memo>>
         /\ IF ev.obs.ret = "error"
            THEN ~Seekable(src) /\ ResetFail(ev.arg.i)       \* a stream that cannot be rewound may refuse
            ELSE /\ \E seq \in {inst[ev.arg.i].seq, inst[ev.arg.i].alt} : Reset(ev.arg.i, ev.obs.ret, seq)
                 /\ T1Reset(ev.obs.ret)
    [] ev.a = "clone" ->
         /\ UNCHANGED <<todo, store, arr, nops, memo>>
         /\ Clone(ev.arg.i, ev.obs.ret, CloneT1(inst[ev.arg.i]))
         /\ T1Clone(ev.obs.ret)
    [] ev.a = "walk" ->
         LET I == inst[ev.arg.i] IN
         /\ UNCHANGED <<src, todo, store, arr, nops, memo>> /\ Log(ev)
         /\ ev.obs.ret = "ok"
         /\ T1Walk(src, I, ev.arg.style, ev.arg.max, ev.obs.n, ev.obs.vals, ev.obs.how, 0)
         /\ inst' = [inst EXCEPT ![ev.arg.i] = Moved(I, ev.obs.n)]
    [] ev.a = "consumex" ->
         LET I == inst[ev.arg.i] has == I.pos < Len(I.seq) ty == ev.arg.type IN
         /\ UNCHANGED <<src, todo, store, arr, nops, memo>> /\ Log(ev)
         /\ ev.obs.kept = 1
         /\ CASE ty = 0 -> /\ has => ev.obs.ret = "value"
                           /\ ev.obs.ret \in {"value", "end"}
                           /\ inst' = [inst EXCEPT ![ev.arg.i] = Advanced(I)]
              [] ty \in {100, 102} /\ has ->
                           /\ ev.obs.ret = "value"
                           /\ ev.arg.dest = 1 => Near(ev.obs.d, I.seq[I.pos + 1], Max2(TolExp(src, I.seq[I.pos + 1]), IF ty = 102 THEN MagExp(I.seq[I.pos + 1]) - 23 ELSE -99))
                           /\ ev.arg.dest = 0 => ev.obs.d = <<>>
                           /\ inst' = [inst EXCEPT ![ev.arg.i] = Moved(I, 1)]
              [] OTHER ->  /\ ev.obs.ret = "end" /\ ev.obs.d = <<>>          \* past the end / no number type: reported
                           /\ inst' = inst
    [] ev.a = "rangeset" ->
         LET I == inst[ev.arg.i] IN
         /\ UNCHANGED <<src, todo, store, arr, nops, memo>> /\ Log(ev)
         /\ inst' = [inst EXCEPT ![ev.arg.i] = Moved(I, Take(I, 2))]
         /\ IF Rem(I) >= 2
            THEN /\ ev.obs.ret = "ok"
                 /\ Near(ev.obs.min, I.seq[I.pos + 1], TolExp(src, I.seq[I.pos + 1]))
                 /\ Near(ev.obs.max, I.seq[I.pos + 2], TolExp(src, I.seq[I.pos + 2]))
            ELSE ev.obs.ret = "refused"
    [] ev.a = "prepare" /\ "i" \notin DOMAIN ev.arg ->
         LET n == ev.arg.len L == Len(arr.v) can == n >= 0 \/ (arr.has /\ L >= -n) IN
         /\ UNCHANGED <<src, inst, todo, store, nops, memo>> /\ Log(ev)
         /\ ev.obs.ret = IF can THEN "ok" ELSE "refused"       \* repeating more elements than exist is refused
         /\ arr' = IF can THEN [arr EXCEPT !.has = TRUE, !.v = arr.v \o (IF n >= 0 THEN ZerosR(n) ELSE SubSeq(arr.v, L + n + 1, L))] ELSE arr
         /\ can => ev.obs.at = L
         /\ NearList(ev.obs.arr, arr'.v) /\ NearList(ev.obs.sib, arr.sib)
    [] ev.a = "prepare" ->
         LET g == ev.arg I == inst[g.i] k == Take(I, g.len) L == Len(arr.v)
             new == [j \in 1..(g.len * g.ld) |-> IF (j - 1) % g.ld = 0 /\ (j - 1) \div g.ld < k THEN I.seq[I.pos + ((j - 1) \div g.ld) + 1] ELSE ZeroR]
         IN
         /\ UNCHANGED <<src, todo, store, nops, memo>> /\ Log(ev)
         /\ g.len > 0 /\ ev.obs.ret = "ok" /\ ev.obs.at = L /\ ev.obs.n = k /\ ev.obs.how = HowOf("loop", I, g.len)
         /\ arr' = [arr EXCEPT !.has = TRUE, !.v = arr.v \o new]
         /\ inst' = [inst EXCEPT ![g.i] = Moved(I, k)]
         /\ NearList(ev.obs.arr, arr'.v) /\ NearList(ev.obs.sib, arr.sib)
    [] ev.a = "vfile" ->
         \* lines of the case are carried by the script step (ev.lines); only filled cells are compared
         LET p == ev.arg run == VFileRun(Toks(ev.lines, 1), 1, p.rows, p.cols, p.order, p.data) IN
         /\ UNCHANGED <<src, inst, todo, store, arr, nops, memo>> /\ Log(ev)
         /\ ev.obs.ret = run.rets
         /\ Len(ev.obs.vals) = Len(run.cells)
         /\ \A c \in 1..Len(run.cells) : run.cells[c] # Sentinel => Near(ev.obs.vals[c], run.cells[c], MagExp(run.cells[c]) - 50)
    [] ev.a = "pshare" ->
         /\ UNCHANGED <<src, inst, todo, store, nops, memo>> /\ Log(ev)
         /\ arr.has /\ ev.obs.ret = "ok"
         /\ arr' = [arr EXCEPT !.sib = arr.v]
         /\ NearList(ev.obs.arr, arr.v) /\ NearList(ev.obs.sib, arr.v)
    [] ev.a = "rdnew" ->
         /\ UNCHANGED <<src, inst, todo, arr, nops, memo>> /\ Log(ev)
         /\ store' = NewStore(src.drv, src.lim, src.dims)
         /\ ev.obs.ret = "ok" /\ SnapNear(ev.obs, store'.st)
    [] ev.a = "rdmod" ->
         LET g == ev.arg refused == ev.obs.ret = "refused" IN
         /\ UNCHANGED <<todo, nops, memo>>
         /\ ev.obs.ret \in {"ok", "refused"}
         /\ refused => MayRefuse(g.dim, g.cycle, g.type)
         /\ Modify(g.i, g.dim, g.cycle, g.off, g.max, g.type, g.scalar, refused)
         /\ ev.obs.n = obs'.exp.n
         /\ SnapNear(ev.obs, store'.st)
    [] ev.a = "rdadv" ->
         /\ UNCHANGED <<todo, nops, memo>>
         /\ ev.obs.ret = "ok" /\ ev.obs.idx = AdvTarget
         /\ \E ph \in BOOLEAN : RdAdvance(ph) /\ SnapNear(ev.obs, store'.st)
    [] ev.a = "rdclone" ->
         /\ UNCHANGED <<todo, nops, memo>>
         /\ RdClone
         /\ ev.obs.ret = obs'.exp.ret /\ SnapNear(ev.obs, store'.st)
    [] ev.a = "rdswap" ->
         /\ UNCHANGED <<todo, nops, memo>>
         /\ RdSwap
         /\ ev.obs.ret = "ok" /\ SnapNear(ev.obs, store'.st)
    [] ev.a = "rdval" ->
         LET g == ev.arg s == IF g.cycle < 0 THEN store.cur ELSE g.cycle
             assigned == s < Len(store.st) /\ g.dim < Len(store.st[s + 1])
         IN
         /\ UNCHANGED <<todo, nops, memo>>
         /\ \E cr \in BOOLEAN : RdValues(g.dim, g.cycle, cr) /\ SnapNear(ev.obs, store'.st)
         /\ IF assigned THEN ev.obs.ret = "ok" /\ Len(ev.obs.col) = 1 /\ NearList(ev.obs.col[1], store.st[s + 1][g.dim + 1].v)
            ELSE (ev.obs.ret = "none" /\ ev.obs.col = <<>>) \/ (ev.obs.ret = "ok" /\ ev.obs.col = << <<>> >>)
    [] ev.a = "rddim" ->
         /\ UNCHANGED <<todo, nops, memo>>
         /\ RdDim(ev.arg.cycle)
         /\ ev.obs.ret = obs'.exp.ret /\ ev.obs.n = obs'.exp.n /\ SnapNear(ev.obs, store.st)
    [] ev.a = "rdcount" ->
         /\ UNCHANGED <<todo, nops, memo>>
         /\ RdCount
         /\ ev.obs.ret = "ok" /\ ev.obs.n = Len(store.st) /\ SnapNear(ev.obs, store.st)
    [] ev.a = "vsnew" ->
         /\ UNCHANGED <<src, inst, todo, arr, nops, memo>> /\ Log(ev)
         /\ store' = [vs |-> [c \in 1..ev.arg.n |-> EmptyCol]]
         /\ ev.obs.ret = "ok" /\ StoresNear(ev.obs, store'.vs)
    [] ev.a = "vsset" ->
         LET g == ev.arg IN
         /\ UNCHANGED <<todo, nops, memo>>
         /\ VsSet(g.col, g.type, g.pos, g.max)
         /\ ev.obs.ret = obs'.exp.ret /\ ev.obs.n = obs'.exp.n /\ StoresNear(ev.obs, store'.vs)
    [] ev.a = "vsres" ->
         LET g == ev.arg IN
         /\ UNCHANGED <<todo, nops, memo>>
         /\ ev.obs.ret = "ok"
         /\ \E sh \in BOOLEAN : VsReserve(g.col, g.type, g.count, sh) /\ StoresNear(ev.obs, store'.vs)
    [] ev.a = "vsmax" ->
         /\ UNCHANGED <<todo, nops, memo>>
         /\ VsMax(IF "type" \in DOMAIN ev.arg THEN ev.arg.type ELSE "")
         /\ ev.obs.n = obs'.exp.n /\ StoresNear(ev.obs, store.vs)
    [] OTHER -> FALSE

TraceInit ==
  /\ l = 1 /\ src = [kind |-> "none", drv |-> "c", lim |-> 0, dims |-> 0] /\ inst = <<>> /\ todo = <<>>
  /\ store = NoStore /\ arr = NoArr /\ nops = 0 /\ memo = NoMemo
  /\ obs = [a |-> "none", arg |-> [x |-> 0], exp |-> [x |-> 0]]

TraceNext ==
  /\ l <= Len(TraceLog)
  /\ l' = l + 1
  /\ Step(TraceLog[l])

TraceSpec == TraceInit /\ [][TraceNext]_<<xvars, l, memo>>

TraceAccepted ==
  LET n == TLCGet("stats").diameter - 1 IN
  /\ PrintT(<<"MATCHED", n>>)
  /\ n = Len(TraceLog)
=============================================================================
