----------------------------- MODULE Gen_Mapping -----------------------------
(* Behaviour export for Mapping: one JSON line per generated transition:  *)
(* the calls leading to the source state (shortest path of the array      *)
(* design), then the transition with its expected observation.            *)
EXTENDS MC_Mapping, Json
VARIABLE hist
Call(o) == [a |-> o.a, arg |-> o.arg]
GenInit == Init /\ hist = <<Call(obs)>>
GenSpec == GenInit /\ [][Next /\ hist' = Append(hist, Call(obs'))]_<<vars, hist>>
Skel == <<tab, cyc>>
Emit == PrintT(<<"BEHAV", ToJson(Append(hist, [a |-> obs'.a, arg |-> obs'.arg, exp |-> obs'.exp]))>>)
\* quick text export: texts are judged on the empty table and on tables of one destination (two entries)
GenSpec2 == GenInit /\ [][Len(tab) <= 2 /\ Next /\ hist' = Append(hist, Call(obs'))]_<<vars, hist>>
=============================================================================
