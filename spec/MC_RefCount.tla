---------------------------- MODULE MC_RefCount ----------------------------
(* Exhaustive configuration of RefCount: full state, small constants.     *)
EXTENDS RefCount
View == <<kind, holds, copyh, hascopy, extra, defer, made, cnt, alive>>   \* obs is an observation, not state
=============================================================================
