---------------------------- MODULE MC_RefCount ----------------------------
(* Exhaustive configuration of RefCount: full state, small constants.     *)
(* Kinds "stream" and "metabuf" have the same capabilities as "rawdata"  *)
(* and "geninfo" (same transitions); they are exercised by Gen/Trace.     *)
EXTENDS RefCount
View == <<kind, holds, copyh, hascopy, extra, defer, made, cnt, alive>>   \* obs is an observation, not state
=============================================================================
