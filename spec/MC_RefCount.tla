---------------------------- MODULE MC_RefCount ----------------------------
(* Exhaustive configuration of RefCount: full state, small constants.     *)
(* Kind "metabuf" has the same capabilities as "geninfo" (same            *)
(* transitions); it is exercised by Gen/Trace.  "stream" adds the         *)
(* notifier as a holder and is model checked itself.                      *)
EXTENDS RefCount
View == <<kind, holds, copyh, hascopy, extra, defer, made, cnt, alive, snd, tries, inner, origin, tlen>>   \* obs is an observation, not state
(* quick tier only: rejected-reply retries and a cleared send callback are not combined with an   *)
(* array copy or plain-pointer references (the thorough configuration has no such constraint)    *)
QuickBound == /\ \A o \in Objs : (tries[o] > 0 \/ ~snd[o]) => (~hascopy /\ extra[o] = 0)
              /\ (\E o \in Objs : inner[o] # 0) => (~hascopy /\ \A o \in Objs : extra[o] = 0)
(* thorough tier: nested references are not combined with an array copy or plain-pointer references *)
NestBound == (\E o \in Objs : inner[o] # 0) => (~hascopy /\ \A o \in Objs : extra[o] = 0)
=============================================================================
