SPECIFICATION FTraceSpec
CONSTANTS Configs = {} OptNames = {} SecNames = {} Values = {} Decos = {} MaxNodes = 100000 MaxDepth = 8
          FrontEnds = {"parsenode", "ctxstdio", "ctxfile", "nodeparse", "cxx", "cxxreset"} LoadAccs = {} Pres = {0, 1, 2, 3}
          MaxLoads = 100000 MaxFail = 100000 MaxAside = 0 XNames = {} XValues = {} XDecos = {}
POSTCONDITION TraceAccepted
CHECK_DEADLOCK FALSE
