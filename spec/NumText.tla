------------------------------ MODULE NumText ------------------------------
(***************************************************************************)
(* Extension X07 of property C07 ("scalar conversion is exact or refused;  *)
(* asking gives the same verdict") to the other direction and to the       *)
(* composite paths of mptcore/convert:                                     *)
(*   scalar -> text   mpt_number_tostring (struct value_format: width,     *)
(*                    precision, flags), mpt_print_value / _convertable /  *)
(*                    _object (text handed to a callback)                  *)
(*   text -> format   mpt_valfmt_get / _parse / _set, mpt_convert_string   *)
(*                    (TypeValFmt): width and precision are numerals       *)
(*   text -> bytes    mpt_string_dest (up to seven numerals 0..255)        *)
(*   text -> scalar   the range argument of mpt_c[u]int* / mpt_c*double    *)
(*   vectors          typed vectors / arrays through mpt_value_convert and *)
(*                    mpt_data_convert_array (element-wise)                *)
(*   text -> key      mpt_convert_key (the key is a slice of the text)     *)
(*                                                                         *)
(* Numbers, Denote, Same are Convert's (exact limb arithmetic).            *)
(*                                                                         *)
(* Tier 1 (meaning), all on the text alone:                                *)
(*   integers: the printed text, read back as the SAME type in the radix   *)
(*     of the format, denotes v or a number that type refuses (hex/octal   *)
(*     print the object's bits; decimal: IntDenote(text, 10) = v)          *)
(*   floating: the printed numeral P = m * unit (unit = 10^d or 2^e of the *)
(*     last printed digit) satisfies |P - v| < unit ("within the printed   *)
(*     precision"); when P carries at least RTDigits(type) significant     *)
(*     decimal digits, P lies strictly inside the rounding interval of v   *)
(*     (every round-to-nearest re-conversion to the same type gives v);    *)
(*     inf / nan are printed as such.  A re-conversion observed with the   *)
(*     library's own parser must give v (integers; floating when P = v or  *)
(*     P has round-trip precision) and in any case a value Same accepts.   *)
(*   A print that does not fit is refused: an accepted print is judged on  *)
(*   exactly the characters reported, so a truncated numeral is rejected.  *)
(*   text -> numbers: every stored number equals the one denoted by its    *)
(*     part of the characters reported as consumed, or the call is refused.*)
(*   vectors: same length, every element Same.                             *)
(* Tier 2 (design): printf as digit generation by comparison (floor digit  *)
(*   by digit, round half to even, %e / %f / %g selection, padding, buffer  *)
(*   test), strtol scan + saturation + range test for the format and       *)
(*   destination parsers, the dispatch table of the vector conversions.    *)
(*   TLC checks Tier 2 => Tier 1 on scaled types.                          *)
(***************************************************************************)
EXTENDS Convert

CONSTANTS GPrec,      \* significant digits of the default floating format ("%g"): 6
          ByteMax,    \* largest field width / destination byte: 255 (UINT8_MAX)
          DecLimit    \* precisions from this value on are refused: 127 (INT8_MAX)

---------------------------------------------------------------------------
(* helpers *)
HasBit(n, b) == (n \div b) % 2 = 1

RECURSIVE TrimEnd(_, _)
TrimEnd(s, n) == IF n > 0 /\ IsBlank(s[n]) THEN TrimEnd(s, n - 1) ELSE n
TrimR(s) == SubSeq(s, 1, TrimEnd(s, Len(s)))

(* a \div k, a % k for a small k (k * Base below 2^31) *)
RECURSIVE DivFrom(_, _, _, _)
DivFrom(a, k, i, r) ==
  IF i = 0 THEN [q |-> << >>, r |-> r]
  ELSE LET cur  == r * Base + a[i]
           rest == DivFrom(a, k, i - 1, cur % k)
       IN [q |-> Append(rest.q, cur \div k), r |-> rest.r]
DivSmall(a, k) == LET x == DivFrom(a, k, Len(a), 0) IN [q |-> Norm(x.q), r |-> x.r]

RECURSIVE DigitsOf(_, _)
DigitsOf(a, radix) == IF IsZero(a) THEN << >>
                      ELSE LET x == DivSmall(a, radix) IN Append(DigitsOf(x.q, radix), x.r)
ToDigits(a, radix) == IF IsZero(a) THEN <<0>> ELSE DigitsOf(a, radix)
DigitChar(dg)      == IF dg < 10 THEN 48 + dg ELSE 87 + dg
Numeral(a, radix)  == LET ds == ToDigits(a, radix) IN [i \in 1..Len(ds) |-> DigitChar(ds[i])]

PadL(s, w)     == IF Len(s) >= w THEN s ELSE [i \in 1..(w - Len(s)) |-> 32] \o s
PadZeros(s, n) == IF Len(s) >= n THEN s ELSE [i \in 1..(n - Len(s)) |-> 48] \o s

(* radix a reader of the printed text has to assume (the printer writes no prefix) *)
FmtRadix(flags) == IF HasBit(flags, 1) THEN 16 ELSE IF HasBit(flags, 2) THEN 8 ELSE 10

---------------------------------------------------------------------------
(***************************************************************************)
(* Tier 1: printed floating numerals                                       *)
(***************************************************************************)
NoP == [k |-> "none", neg |-> 0, m |-> << >>, e |-> 0, d |-> 0, nd |-> 0, hex |-> FALSE]

SigCount(ds) == IF \E i \in 1..Len(ds) : ds[i] # 48
                THEN Len(ds) + 1 - (CHOOSE i \in 1..Len(ds) : ds[i] # 48 /\ \A j \in 1..(i - 1) : ds[j] = 48)
                ELSE 0

(* the numeral with the place of its last digit kept (also for zero):      *)
(*   |value| = m * 2^e * 10^d, nd = significant digits printed             *)
PrintedNum(s) ==
  LET rest == From(s, LeadBlanks(s) + 1)
      neg  == SignNeg(rest)
      lb   == LowerSeq(Unsigned(rest))
  IN IF lb = INF3 \/ lb = INF8 THEN [NoP EXCEPT !.k = "inf", !.neg = neg]
     ELSE IF Len(lb) >= 3 /\ SubSeq(lb, 1, 3) = NAN3
     THEN (IF FloatDenote(s).k = "nan" THEN [NoP EXCEPT !.k = "nan"] ELSE NoP)
     ELSE LET hex   == Len(lb) >= 2 /\ lb[1] = 48 /\ lb[2] = 120
              num   == IF hex THEN From(lb, 3) ELSE lb
              radix == IF hex THEN 16 ELSE 10
              ei    == FirstIn(num, {IF hex THEN 112 ELSE 101})
              mant  == IF ei = 0 THEN num ELSE SubSeq(num, 1, ei - 1)
              expo  == IF ei = 0 THEN << >> ELSE From(num, ei + 1)
              ebody == Unsigned(expo)
              di    == FirstIn(mant, {46})
              ip    == IF di = 0 THEN mant ELSE SubSeq(mant, 1, di - 1)
              fp    == IF di = 0 THEN << >> ELSE From(mant, di + 1)
              digs  == ip \o fp
              okm   == Len(digs) >= 1 /\ AllDigits(digs, radix)
              oke   == ei = 0 \/ (Len(ebody) \in 1..5 /\ AllDigits(ebody, 10))
              ex    == IF ei = 0 THEN 0
                       ELSE IF SignNeg(expo) = 1 THEN 0 - DecNat(ebody, Len(ebody)) ELSE DecNat(ebody, Len(ebody))
          IN IF ~(okm /\ oke) THEN NoP
             ELSE [k |-> "fin", neg |-> neg, m |-> FromDigits(DigitVals(digs), radix),
                   e |-> IF hex THEN ex - 4 * Len(fp) ELSE 0, d |-> IF hex THEN 0 ELSE ex - Len(fp),
                   nd |-> SigCount(digs), hex |-> hex]

PNum(P) == IF P.k # "fin" THEN [k |-> P.k, neg |-> P.neg, m |-> << >>, e |-> 0, d |-> 0]
           ELSE IF IsZero(P.m) THEN Fin(0, Zero, 0)
           ELSE [k |-> "fin", neg |-> P.neg, m |-> P.m, e |-> P.e, d |-> P.d]

(* the scale 5^|d| of a printed numeral is computed once per judgement and   *)
(* applied to the shorter operand                                            *)
MulAny(a, b) == IF Len(a) < Len(b) THEN Mul(b, a) ELSE Mul(a, b)
Pow5Of(P)    == MulPow5(One, IF P.d < 0 THEN 0 - P.d ELSE P.d)

(* compare  mm * 2^P.e * 10^P.d  with the magnitude of the dyadic y: -1, 0, 1 *)
UCmp(P, p5, mm, y) ==
  IF IsZero(mm) \/ IsZero(y.m) THEN (IF IsZero(mm) /\ IsZero(y.m) THEN 0 ELSE IF IsZero(mm) THEN -1 ELSE 1)
  ELSE LET far == FarCmp([k |-> "fin", neg |-> 0, m |-> mm, e |-> P.e, d |-> P.d], y) IN
       IF far # 0 THEN far
       ELSE IF P.d >= 0 THEN MagCmp(Fin(0, MulAny(p5, mm), P.e + P.d), Abs(y))
       ELSE MagCmp(Fin(0, mm, P.e + P.d), Fin(0, MulAny(p5, y.m), y.e))

(* |v| lies strictly between (m - 1) and (m + 1) units of the last printed place *)
WithinPrinted(v, P, p5) ==
  IF IsZero(P.m) THEN UCmp(P, p5, One, v) > 0
  ELSE /\ ~IsZero(v.m) /\ v.neg = P.neg
       /\ UCmp(P, p5, Sub(P.m, One), v) < 0
       /\ UCmp(P, p5, Add(P.m, One), v) > 0

(* decimal digits after which print -> parse is the identity: 10^(n-1) > 2^p *)
RTDigits(T) == CHOOSE n \in 1..40 : /\ Cmp(MulPow10(One, n - 1), Pow2(T.p)) > 0
                                     /\ (n = 1 \/ Cmp(MulPow10(One, n - 2), Pow2(T.p)) <= 0)

(* the printed numeral P lies strictly inside the rounding interval of v    *)
(* (v # 0 in format T): every conversion to T that rounds to nearest yields v *)
RoundsTo(T, v, P, p5) ==
  LET av   == Abs(v)
      q    == Quantum(T, av)
      pow2 == TrailZeros(av.m) = BitLen(av.m) - 1
      qlo  == IF pow2 /\ q > QMin(T) THEN q - 2 ELSE q - 1
      hi   == StepMag(av, q - 1, TRUE)
      lo   == StepMag(av, qlo, FALSE)
  IN /\ P.k = "fin" /\ ~IsZero(P.m) /\ P.neg = v.neg
     /\ UCmp(P, p5, P.m, lo) > 0
     /\ UCmp(P, p5, P.m, hi) < 0

SameNum(a, b) == \/ a.k = "nan" /\ b.k = "nan"
                 \/ a.k = "inf" /\ b.k = "inf" /\ a.neg = b.neg
                 \/ a.k = "fin" /\ b.k = "fin" /\ NumCmp(a, b) = 0

(* the text (without padding) printed for v of type t denotes v;            *)
(* pr / pw: verdict and value of a re-conversion of the text to type t      *)
(* with the library's parser ("none" = not attempted)                       *)
TextDenotes(t, v, radix, body, pr, pw) ==
  LET T == TypeTab[t] IN
  IF T.kind = "int"
  THEN LET dn == IntDenote(body, radix) IN          \* read back as the SAME type: v, or a number the type refuses
       /\ v.k = "fin" /\ dn.k = "fin"
       /\ (NumCmp(dn, v) = 0 \/ (radix # 10 /\ ~InIntRange(T, dn)))
       /\ (pr = "ok" => SameNum(pw, v))
  ELSE LET P == PrintedNum(body)
           x == PNum(P)
       IN CASE v.k = "nan" -> P.k = "nan" /\ (pr = "ok" => pw.k = "nan")
            [] v.k = "inf" -> P.k = "inf" /\ P.neg = v.neg /\ (pr = "ok" => SameNum(pw, v))
            [] OTHER ->
                 LET rt == ~P.hex /\ P.nd >= RTDigits(T)
                     p5 == Pow5Of(P)
                     eq == (IsZero(P.m) /\ IsZero(v.m)) \/ (~IsZero(P.m) /\ P.neg = v.neg /\ UCmp(P, p5, P.m, v) = 0)
                 IN
                 /\ P.k = "fin"
                 /\ WithinPrinted(v, P, p5)
                 /\ ((rt /\ ~IsZero(v.m)) => RoundsTo(T, v, P, p5))
                 /\ (pr = "ok" => /\ ((rt \/ eq) => SameNum(pw, v))
                                  /\ (~(rt \/ eq) => Same(t, x, pw)))

(* judgement of one observed print: o = [r, text, ov, pr, pw]              *)
(*   ov = a byte outside the space handed to the printer was changed       *)
PrintOK(t, v, radix, o) ==
  /\ o.ov = 0
  /\ (o.r = "ok" => (t = "c" \/ TextDenotes(t, v, radix, TrimR(o.text), o.pr, o.pw)))

(* composite prints: numerals separated by blanks / punctuation *)
RECURSIVE TokFrom(_, _, _, _)
TokFrom(s, seps, i, cur) ==
  IF i > Len(s) THEN (IF Len(cur) = 0 THEN << >> ELSE <<cur>>)
  ELSE IF s[i] \in seps THEN (IF Len(cur) = 0 THEN << >> ELSE <<cur>>) \o TokFrom(s, seps, i + 1, << >>)
  ELSE TokFrom(s, seps, i + 1, Append(cur, s[i]))
TokensOn(s, seps) == TokFrom(s, seps, 1, << >>)
Blanks == {32, 9, 10, 11, 12, 13}

CharNum(b) == IF b >= 128 THEN IntNum(1, FromInt(256 - b)) ELSE NatNum(b)

(* a vector printed through the callback: one numeral per element, in order *)
PrintVecOK(t, vs, o) ==
  /\ o.ov = 0
  /\ (o.r = "ok" =>
        IF t = "c"
        THEN Len(o.text) = Len(vs) /\ \A i \in 1..Len(vs) : SameNum(CharNum(o.text[i]), vs[i])
        ELSE LET tk == SelectSeq(TokensOn(o.text, Blanks), LAMBDA x : x # <<91>> /\ x # <<93>>) IN
             /\ Len(tk) = Len(vs)
             /\ \A i \in 1..Len(vs) : TextDenotes(t, vs[i], 10, tk[i], "none", None))

(* an object printed through the callback: name=value pairs, in order *)
PrintObjOK(ts, vs, o) ==
  /\ o.ov = 0
  /\ (o.r = "ok" =>
        LET tk == TokensOn(o.text, Blanks \cup {123, 125, 44, 61}) IN
        /\ Len(tk) = 2 * Len(vs)
        /\ \A i \in 1..Len(vs) : ts[i] = "c" \/ TextDenotes(ts[i], vs[i], 10, tk[2 * i], "none", None))

(* prints through a sink (callback that may take fewer bytes than offered):   *)
(* off = every byte the printer offered, text = what the sink holds.  A print  *)
(* that reports success delivered each numeral it produced completely -- it is *)
(* refused, or the sink content carries the full numerals, never a cut one.    *)
(* (punctuation / property names are not numbers: not compared)                *)
NumTokens(s)  == SelectSeq(TokensOn(s, Blanks), LAMBDA x : x # <<91>> /\ x # <<93>>)
SinkOK(o)     == o.r = "ok" => NumTokens(o.text) = NumTokens(o.off)
SinkObjOK(n, o) ==
  o.r = "ok" => LET a == TokensOn(o.text, Blanks \cup {123, 125, 44, 61})
                    b == TokensOn(o.off, Blanks \cup {123, 125, 44, 61})
                IN \A i \in 1..n : 2 * i <= Len(a) /\ 2 * i <= Len(b) /\ a[2 * i] = b[2 * i]

---------------------------------------------------------------------------
(***************************************************************************)
(* Tier 2: design of the printer (snprintf)                                *)
(***************************************************************************)
PObsRefused     == [r |-> "refused", text |-> << >>, ov |-> 0, pr |-> "none", pw |-> None]
PObs(text, left) == IF Len(text) >= left THEN PObsRefused
                    ELSE [r |-> "ok", text |-> text, ov |-> 0, pr |-> "none", pw |-> None]

(* f = [flags, width, dec] as in struct value_format *)
FieldWidth(f) == IF HasBit(f.flags, 512) THEN 0 ELSE f.width     \* "left": printed without padding

DesignPrintInt(t, v, f, left) ==
  LET T     == TypeTab[t]
      intf  == f.flags % 16
      radix == IF intf = 0 THEN 10 ELSE IF HasBit(intf, 1) THEN 16 ELSE IF HasBit(intf, 2) THEN 8 ELSE 0
      plus  == HasBit(f.flags, 256)
      wd    == FieldWidth(f)
      mag   == Shl(v.m, v.e)
      sign  == IF v.neg = 1 THEN <<45>> ELSE IF plus /\ T.sg = 1 /\ radix = 10 THEN <<43>> ELSE << >>
      body  == IF v.neg = 1 /\ radix # 10
               THEN Numeral(Sub(Pow2(T.bits), mag), radix)       \* hex / octal: the object's bits (two's complement)
               ELSE sign \o Numeral(mag, radix)
  IN IF wd > left \/ radix = 0 THEN PObsRefused
     ELSE PObs(PadL(body, wd), left)

(* M * 10^k *)
Dec(M, k) == [k |-> "fin", neg |-> 0, m |-> M, e |-> 0, d |-> k]
LE(a, b)  == MagCmp(a, b) <= 0

(* decimal exponent of av # 0: 10^E <= av < 10^(E+1) *)
DecExp(av) ==
  LET est == (Log2Lo(av) * 30103) \div 100000 IN
  CHOOSE E \in (est - 1)..(est + 2) : LE(Dec(One, E), av) /\ ~LE(Dec(One, E + 1), av)

(* largest D with D * 10^k <= av, n digits (av < 10^(k+n)): digit by digit *)
FloorDec(av, k, n) ==
  FoldLeft(LAMBDA D, i :
             LET D10 == MulSmall(D, 10)
                 kk  == k + n - i
                 c   == CHOOSE cc \in 0..9 : /\ LE(Dec(Add(D10, FromInt(cc)), kk), av)
                                             /\ (cc = 9 \/ ~LE(Dec(Add(D10, FromInt(cc + 1)), kk), av))
             IN Add(D10, FromInt(c)),
           Zero, [i \in 1..n |-> i])

(* round half to even on the exact value *)
RoundDec(av, k, n) ==
  LET F  == FloorDec(av, k, n)
      c  == MagCmp(Fin(0, av.m, av.e + 1), Dec(Add(MulSmall(F, 2), One), k))
      up == c > 0 \/ (c = 0 /\ ~IsZero(F) /\ ~MultPow2(F, 1))
  IN IF up THEN Add(F, One) ELSE F

DecText(D, P) ==          \* the integer D with P digits behind the point
  LET ds == PadZeros(Numeral(D, 10), P + 1)
      n  == Len(ds)
  IN IF P = 0 THEN ds ELSE SubSeq(ds, 1, n - P) \o <<46>> \o SubSeq(ds, n - P + 1, n)
ExpText(E) == (IF E < 0 THEN <<45>> ELSE <<43>>) \o PadZeros(Numeral(FromInt(IF E < 0 THEN 0 - E ELSE E), 10), 2)

SciParts(av, P) ==        \* P + 1 significant digits
  LET E0    == DecExp(av)
      D0    == RoundDec(av, E0 - P, P + 1)
      carry == Cmp(D0, MulPow10(One, P + 1)) >= 0
  IN [D |-> IF carry THEN MulPow10(One, P) ELSE D0, E |-> IF carry THEN E0 + 1 ELSE E0]

TextE(av, P) == IF IsZero(av.m) THEN DecText(Zero, P) \o <<101, 43, 48, 48>>
                ELSE LET s == SciParts(av, P) IN DecText(s.D, P) \o <<101>> \o ExpText(s.E)
TextF(av, P) == IF IsZero(av.m) THEN DecText(Zero, P)
                ELSE LET E0   == DecExp(av)
                         nint == IF E0 >= 0 THEN E0 + 1 ELSE 1
                     IN DecText(RoundDec(av, 0 - P, nint + P), P)
RECURSIVE StripEnd(_, _, _)
StripEnd(s, n, ch) == IF n > 0 /\ s[n] = ch THEN StripEnd(s, n - 1, ch) ELSE n
StripZ(s) == IF \E i \in 1..Len(s) : s[i] = 46
             THEN LET a == SubSeq(s, 1, StripEnd(s, Len(s), 48)) IN SubSeq(a, 1, StripEnd(a, Len(a), 46))
             ELSE s
TextG(av, P0) ==
  IF IsZero(av.m) THEN <<48>>
  ELSE LET P == IF P0 = 0 THEN 1 ELSE P0
           s == SciParts(av, P - 1)
       IN IF s.E >= -4 /\ s.E < P THEN StripZ(TextF(av, P - 1 - s.E))
          ELSE StripZ(DecText(s.D, P - 1)) \o <<101>> \o ExpText(s.E)

DesignPrintFlt(t, v, f, left) ==
  LET fltf  == (f.flags \div 16) % 16
      plus  == HasBit(f.flags, 256)
      wd    == FieldWidth(f)
      style == IF f.dec = 0 THEN "g" ELSE IF fltf = 0 THEN "f" ELSE IF HasBit(fltf, 1) THEN "a"
               ELSE IF HasBit(fltf, 2) THEN "e" ELSE "bad"
      sign  == IF v.neg = 1 THEN <<45>> ELSE IF plus THEN <<43>> ELSE << >>
      av    == Abs(v)
      body  == CASE v.k = "nan" -> NAN3
                 [] v.k = "inf" -> INF3
                 [] style = "g" -> TextG(av, GPrec)
                 [] style = "f" -> TextF(av, f.dec)
                 [] OTHER       -> TextE(av, f.dec)
  IN IF wd > left \/ style = "bad" THEN PObsRefused
     ELSE IF style = "a" THEN [PObsRefused EXCEPT !.r = "skip"]       \* "%a" is not modelled
     ELSE PObs(PadL(sign \o body, wd), left)

DesignPrint(t, v, f, left) ==
  IF t = "c" THEN [PObsRefused EXCEPT !.r = "skip"]
  ELSE IF TypeTab[t].kind = "int" THEN DesignPrintInt(t, v, f, left) ELSE DesignPrintFlt(t, v, f, left)

(* shortest text that can denote v in the radix: a smaller space obliges refusal  *)
(* (negative values in hex / octal: a numeral outside the type may be shorter, no  *)
(* obligation is stated for them)                                                  *)
MinLen(v, radix) == (IF v.neg = 1 THEN 1 ELSE 0) + Len(ToDigits(Shl(v.m, v.e), radix))
MustRefuse(t, v, radix, left) ==
  TypeTab[t].kind = "int" /\ t # "c" /\ (v.neg = 0 \/ radix = 10) /\ MinLen(v, radix) >= left

(***************************************************************************)
(* Tier 2: prints through a sink (print_value.c).  The printer offers      *)
(* pieces; the sink takes each piece according to its policy:              *)
(*   "all"   the piece completely, or an error                             *)
(*   "part"  what still fits into the total capacity (short count)         *)
(*   "cap"   at most cap bytes of every piece, and what still fits         *)
(* A piece p = [s, need]: the printer goes on when at least `need` bytes   *)
(* were taken (numerals: all of them; "[ ": 2; " ": 1; "]": error only).   *)
(***************************************************************************)
Took(pol, cap, room, n) ==        \* bytes taken of a piece of n bytes; -1 = error
  LET m == IF pol = "cap" /\ n > cap THEN cap ELSE n IN
  IF m > room THEN (IF pol = "all" THEN -1 ELSE room) ELSE m

SObs(r, text, off) == [r |-> r, text |-> text, off |-> off, ov |-> 0, pr |-> "none", pw |-> None]
RECURSIVE SinkRun(_, _, _, _, _, _, _)
SinkRun(ps, i, pol, cap, left, acc, off) ==
  IF i > Len(ps) THEN SObs("ok", acc, off)
  ELSE LET p == ps[i]
           k == Took(pol, cap, left - Len(acc), Len(p.s))
       IN IF k < 0 \/ k < p.need THEN SObs("refused", << >>, off \o p.s)
          ELSE SinkRun(ps, i + 1, pol, cap, left, acc \o SubSeq(p.s, 1, k), off \o p.s)

DefaultFmt   == [flags |-> 0, width |-> 0, dec |-> 0]
NumeralOf(t, v) == DesignPrint(t, v, DefaultFmt, 256)       \* the 256 byte buffer of print_value.c
Piece(s, need)  == [s |-> s, need |-> need]

DesignSinkScalar(t, v, pol, cap, left) ==
  LET nm == NumeralOf(t, v) IN
  IF nm.r # "ok" THEN SObs(nm.r, << >>, << >>)
  ELSE SinkRun(<<Piece(nm.text, Len(nm.text))>>, 1, pol, cap, left, << >>, << >>)

DesignSinkVec(t, vs, pol, cap, left) ==
  LET nms == [i \in 1..Len(vs) |-> NumeralOf(t, vs[i])] IN
  IF \E i \in 1..Len(vs) : nms[i].r # "ok" THEN SObs("skip", << >>, << >>)
  ELSE LET el(i) == <<Piece(nms[i].text, Len(nms[i].text)), Piece(<<32>>, 1)>>
           RECURSIVE Els(_)
           Els(i) == IF i > Len(vs) THEN << >> ELSE el(i) \o Els(i + 1)
       IN SinkRun(<<Piece(<<91, 32>>, 2)>> \o Els(1) \o <<Piece(<<93>>, 0)>>, 1, pol, cap, left, << >>, << >>)

(* no text with one numeral per element fits: refusal obliged *)
SinkMustRefuse(t, vs, left) ==
  /\ TypeTab[t].kind = "int" /\ t # "c" /\ Len(vs) > 0
  /\ FoldLeft(LAMBDA acc, v : acc + MinLen(v, 10), 0, vs) + Len(vs) - 1 > left

---------------------------------------------------------------------------
(***************************************************************************)
(* text -> struct value_format  (valfmt_get.c):                            *)
(*   blank* ['+'] [f|g|a|x|o|e] width ['.' precision]                      *)
(* width and precision are numerals read by strtol(.., 0)                  *)
(***************************************************************************)
FmtLetters == {102, 103, 97, 120, 111, 101}

(* Tier 1 *)
FmtParts(s) ==
  LET rest == From(s, LeadBlanks(s) + 1)
      r1   == IF Len(rest) > 0 /\ rest[1] = 43 THEN From(rest, 2) ELSE rest
      hasl == Len(r1) > 0 /\ Lower(r1[1]) \in FmtLetters
      r2   == IF hasl THEN From(r1, 2) ELSE r1
      di   == FirstIn(r2, {46})
  IN [hasdec |-> di # 0,
      w |-> IntDenote(IF di = 0 THEN r2 ELSE SubSeq(r2, 1, di - 1), 0),
      d |-> IF di = 0 THEN None ELSE IntDenote(From(r2, di + 1), 0)]

(* one format: o = [r, q, used, st, w, d]; q = "none" where the call has no query form *)
FmtOneOK(pre, w, d) ==
  LET P == FmtParts(pre) IN
  /\ P.w.k = "fin" /\ NumCmp(P.w, NatNum(w)) = 0
  /\ (P.hasdec => P.d.k = "fin" /\ NumCmp(P.d, NatNum(d)) = 0)
FmtOK(chars, o) ==
  /\ (o.q # "none" => o.q = o.r)
  /\ (o.r = "ok" =>
        /\ o.used <= Len(chars)
        /\ LET pre == SubSeq(chars, 1, o.used) IN
           AllBlank(pre) \/ (o.st = 1 /\ FmtOneOK(pre, o.w, o.d)))

(* a list of formats (valfmt_parse): the consumed characters split into as   *)
(* many consecutive descriptions as formats were stored, each denoting its    *)
(* format (where one description ends is the parser's choice, as for any     *)
(* consumed prefix); blanks alone describe nothing                            *)
RECURSIVE SegOK(_, _, _, _)
SegOK(pre, i, fmts, k) ==
  IF k > Len(fmts) THEN \A j \in i..Len(pre) : IsBlank(pre[j])
  ELSE \E j \in i..Len(pre) :
         /\ ~AllBlank(SubSeq(pre, i, j))
         /\ FmtOneOK(SubSeq(pre, i, j), fmts[k].w, fmts[k].d)
         /\ SegOK(pre, j + 1, fmts, k + 1)
FmtListOK(chars, o) ==
  o.r = "ok" => /\ o.used <= Len(chars)
                /\ SegOK(SubSeq(chars, 1, o.used), 1, o.fmts, 1)

(* Tier 2 *)
LongT    == [kind |-> "int", sg |-> 1, bits |-> MaxBits]
SatLong(neg, mag) ==                       \* strtol saturates
  LET exact == IntNum(neg, mag) IN
  IF InIntRange(LongT, exact) THEN exact ELSE IF neg = 1 THEN IntLo(LongT) ELSE IntHi(LongT)

FObsRefused   == [r |-> "refused", q |-> "refused", used |-> 0, st |-> 0, w |-> 0, d |-> 0]
FObs(n, w, d) == [r |-> "ok", q |-> "ok", used |-> n, st |-> 1, w |-> w, d |-> d]
SmallInt(v)   == ToInt(Shl(v.m, v.e))      \* v in 0..ByteMax
(* C store of a long into a byte-sized field: value modulo ByteMax + 1 *)
StoreByte(v)  == LET r == DivSmall(Shl(v.m, v.e), ByteMax + 1).r IN
                 IF v.neg = 1 /\ r # 0 THEN ByteMax + 1 - r ELSE r

DesignFmtGet(s) ==
  LET n  == Len(s)
      p0 == LeadBlanks(s) + 1
      p1 == IF p0 <= n /\ s[p0] = 43 THEN p0 + 1 ELSE p0
      lt == IF p1 <= n THEN Lower(s[p1]) ELSE 0
      p2 == IF lt \in FmtLetters THEN p1 + 1 ELSE p1
      sw == Scan(From(s, p2), 0)
      wv == SatLong(sw.neg, sw.mag)
      p3 == p2 + sw.used
      sd == Scan(From(s, p3 + 1), 0)
      dv == SatLong(sd.neg, sd.mag)
  IN IF p0 > n THEN [FObs(n, 0, 0) EXCEPT !.st = 0]
     ELSE IF lt \notin FmtLetters /\ (p1 > n \/ s[p1] \notin 48..57) THEN FObsRefused
     ELSE IF sw.used = 0 THEN FObsRefused
     ELSE IF NumCmp(wv, NatNum(0)) < 0 \/ NumCmp(wv, NatNum(ByteMax)) > 0 THEN FObsRefused
     ELSE IF p3 > n \/ IsBlank(s[p3]) THEN FObs(p3 - 1, StoreByte(wv), IF lt = 102 THEN 6 ELSE 0)
     ELSE IF s[p3] # 46 THEN FObsRefused
     ELSE IF sd.used = 0 THEN FObsRefused
     ELSE IF NumCmp(dv, NatNum(0)) < 0 \/ NumCmp(dv, NatNum(DecLimit)) >= 0 THEN FObsRefused
     ELSE FObs(p3 + sd.used, StoreByte(wv), StoreByte(dv))

RECURSIVE DesignFmtList(_, _, _)
DesignFmtList(s, p, acc) ==               \* valfmt_parse: descriptions until the end of the text
  LET rest == From(s, p) IN
  IF AllBlank(rest) THEN [r |-> "ok", used |-> Len(s), fmts |-> acc]
  ELSE LET g == DesignFmtGet(rest) IN
       IF g.r = "refused" THEN [r |-> "refused", used |-> 0, fmts |-> << >>]
       ELSE DesignFmtList(s, p + g.used, Append(acc, [w |-> g.w, d |-> g.d]))

---------------------------------------------------------------------------
(***************************************************************************)
(* text -> up to seven bytes (string_dest.c): numerals separated by sep    *)
(***************************************************************************)
RECURSIVE FieldsFrom(_, _, _, _)
FieldsFrom(s, sep, i, cur) ==
  IF i > Len(s) THEN <<cur>>
  ELSE IF s[i] = sep THEN <<cur>> \o FieldsFrom(s, sep, i + 1, << >>)
  ELSE FieldsFrom(s, sep, i + 1, Append(cur, s[i]))
Fields(s, sep) == IF sep = 0 THEN <<s>> ELSE FieldsFrom(s, sep, 1, << >>)

(* Tier 1: o = [r, used, set (positions stored, 1..7), val (seven bytes)] *)
DestOK(chars, sep, max, o) ==
  o.r = "ok" =>
    /\ o.used <= Len(chars)
    /\ LET fs == Fields(SubSeq(chars, 1, o.used), sep) IN
       /\ \A i \in 1..Len(o.set) :
            LET p == o.set[i] IN
            /\ p <= Len(fs) /\ p <= max
            /\ LET dn == IntDenote(fs[p], 0) IN dn.k = "fin" /\ NumCmp(dn, NatNum(o.val[p])) = 0
       /\ \A p \in 1..Len(fs) :          \* a consumed numeral is not dropped
            AllBlank(fs[p]) \/ \E i \in 1..Len(o.set) : o.set[i] = p

(* Tier 2 *)
DObsRefused(p) == IF p = 0 THEN [r |-> "ok", used |-> 0, set |-> << >>, val |-> [i \in 1..7 |-> 0]]   \* "return -0"
                  ELSE [r |-> "refused", used |-> 0, set |-> << >>, val |-> [i \in 1..7 |-> 0]]
RECURSIVE DestLoop(_, _, _, _, _, _, _)
DestLoop(s, sep, max, i, p, set, val) ==
  IF i > max THEN [r |-> "ok", used |-> p - 1, set |-> set, val |-> val]
  ELSE LET sc == Scan(From(s, p), 0) IN
       IF sc.used = 0
       THEN (IF p > Len(s) THEN [r |-> "ok", used |-> p - 1, set |-> set, val |-> val]
             ELSE IF sep # 0 /\ s[p] = sep
             THEN (IF p + 1 <= Len(s) /\ IsBlank(s[p + 1]) THEN [r |-> "ok", used |-> p, set |-> set, val |-> val]
                   ELSE DestLoop(s, sep, max, i + 1, p + 1, set, val))
             ELSE DObsRefused(p - 1))
       ELSE LET v  == SatLong(sc.neg, sc.mag)
                p2 == p + sc.used
            IN IF NumCmp(v, NatNum(0)) < 0 \/ NumCmp(v, NatNum(ByteMax)) > 0 THEN DObsRefused(p2 - 1)
               ELSE LET set2 == Append(set, i)
                        val2 == [val EXCEPT ![i] = StoreByte(v)]
                    IN IF p2 > Len(s) \/ IsBlank(s[p2]) \/ sep # s[p2]
                       THEN [r |-> "ok", used |-> p2 - 1, set |-> set2, val |-> val2]
                       ELSE DestLoop(s, sep, max, i + 1, p2 + 1, set2, val2)
DesignDest(s, sep, max) == DestLoop(s, sep, max, 1, LeadBlanks(s) + 1, << >>, [i \in 1..7 |-> 0])

---------------------------------------------------------------------------
(***************************************************************************)
(* the range argument of mpt_c[u]int* / mpt_cfloat / cdouble / cldouble    *)
(***************************************************************************)
(* lo <= w <= hi for type values (inf compares like a number; nan: silent) *)
ExtCmp(a, b) ==
  IF a.k = "inf" \/ b.k = "inf"
  THEN LET sa == IF a.k = "inf" THEN (IF a.neg = 1 THEN -2 ELSE 2) ELSE 0
           sb == IF b.k = "inf" THEN (IF b.neg = 1 THEN -2 ELSE 2) ELSE 0
       IN IF sa < sb THEN -1 ELSE IF sa > sb THEN 1 ELSE 0
  ELSE NumCmp(a, b)
InRange(w, lo, hi) == w.k = "nan" \/ lo.k = "nan" \/ hi.k = "nan" \/ (ExtCmp(lo, w) <= 0 /\ ExtCmp(w, hi) <= 0)

RTextOK(dst, chars, base, lo, hi, o) ==
  /\ TextOK(dst, chars, base, o)
  /\ ((o.r = "ok" /\ o.st = 1) => InRange(o.w, lo, hi))

DesignRText(dst, base, chars, lo, hi) ==
  IF ~IsIntType(dst) THEN TObsRefused ELSE
  LET g == DesignCInt(dst, base, chars) IN
  IF g.r = "ok" /\ g.st = 1 /\ ~InRange(g.w, lo, hi) THEN TObsRefused ELSE g

(* expectation per consumed length: the admissible values inside the range *)
RPrefixExp(dst, chars, base, lo, hi, n) ==
  LET e == PrefixExp(dst, chars, base, n) IN
  [cls |-> e.cls, allowed |-> SelectSeq(e.allowed, LAMBDA w : InRange(w, lo, hi))]

---------------------------------------------------------------------------
(***************************************************************************)
(* typed vectors: element-wise                                             *)
(*   sk = kind of the source: "scalar" | "vec" (value of a vector type)    *)
(*        | "array" (typed buffer), dk = kind of the target: "vec" |       *)
(*        "gen" (untyped vector: elements keep the source type) | "scalar" *)
(***************************************************************************)
ElemType(src, dk, dst) == IF dk = "gen" THEN src ELSE dst

(* Tier 1: o = [r, q, ws, rem]; rem = bytes of the result that are no whole element *)
VecOK(src, dk, dst, vs, o) ==
  /\ o.q = o.r
  /\ (o.r = "ok" =>
        /\ o.rem = 0
        /\ Len(o.ws) = Len(vs)
        /\ \A i \in 1..Len(vs) : Same(ElemType(src, dk, dst), vs[i], o.ws[i]))

(* Tier 2: the dispatch of value_convert.c / data_convert_array.c: vectors *)
(* are handed on unconverted, so only identical element types are accepted *)
ConvVecTarget == [int8 |-> "b", uint8 |-> "y", int16 |-> "n", uint16 |-> "q", int32 |-> "i", uint32 |-> "u",
                  int64 |-> "x", uint64 |-> "t", float32 |-> "f", float64 |-> "d", exflt |-> "e"]
VObsRefused == [r |-> "refused", q |-> "refused", ws |-> << >>, rem |-> 0]
VObs(ws)    == [r |-> "ok", q |-> "ok", ws |-> ws, rem |-> 0]
DesignVec(api, sk, src, dk, dst, vs) ==
  CASE sk = "scalar" /\ dk = "scalar" ->                      \* plain scalar conversion (Convert's design)
         LET d == Design(api, src, dst, vs[1]) IN IF d.r = "ok" THEN VObs(<<Canon(d.w)>>) ELSE VObsRefused
    [] sk = "scalar" -> LET cv == ConverterOf(api, src) IN
                        IF dk = "vec" /\ ((cv # "none" /\ dst = ConvVecTarget[cv]) \/ (api = "value" /\ dst = src /\ src # "l"))
                        THEN VObs(vs) ELSE VObsRefused
    [] sk = "vec"    -> IF src = "l" THEN VObsRefused
                        ELSE IF dk = "gen" \/ (dk = "vec" /\ dst = src) THEN VObs(vs) ELSE VObsRefused
    [] sk = "array"  -> IF src = "l" THEN (IF dk = "gen" THEN VObs(vs) ELSE VObsRefused)      \* content without traits
                        ELSE IF dk = "vec" /\ dst = src THEN VObs(vs) ELSE VObsRefused        \* (typed content -> '@': BadType)
    [] OTHER         -> VObsRefused

(* admissible result per element; an element without one obliges refusal *)
VecAllowed(src, dk, dst, vs) == [i \in 1..Len(vs) |-> Allowed(ElemType(src, dk, dst), vs[i])]

---------------------------------------------------------------------------
(***************************************************************************)
(* text -> key (convert_key.c): the key is the consumed text without its   *)
(* leading blanks, without one trailing separator and trailing blanks      *)
(***************************************************************************)
KeyOf(pre, seps) ==
  LET body == From(pre, LeadBlanks(pre) + 1)
      b2   == IF Len(body) > 0 /\ body[Len(body)] \in seps /\ ~IsBlank(body[Len(body)])
              THEN SubSeq(body, 1, Len(body) - 1) ELSE body
  IN TrimR(b2)
KeyOK(chars, seps, o) ==
  o.r = "ok" => /\ o.used <= Len(chars)
                /\ o.key = KeyOf(SubSeq(chars, 1, o.used), seps)

---------------------------------------------------------------------------
(* actions: one per call family; obs.exp is what binding A compares *)
CanonP(o) == o

PrintNum(api, t, v, f, left) ==
  obs' = [a |-> "print",
          arg |-> [api |-> api, src |-> t, v |-> Canon(v), flags |-> f.flags, width |-> f.width, dec |-> f.dec, left |-> left],
          exp |-> [design |-> DesignPrint(t, v, f, left),
                   must |-> IF MustRefuse(t, v, FmtRadix(f.flags), left) THEN "refuse" ELSE "any"]]

PrintSink(api, t, v, pol, cap, left) ==
  obs' = [a |-> "print",
          arg |-> [api |-> api, src |-> t, v |-> Canon(v), flags |-> 0, width |-> 0, dec |-> 0, left |-> left, cb |-> pol, cap |-> cap],
          exp |-> [design |-> DesignSinkScalar(t, v, pol, cap, left),
                   must |-> IF SinkMustRefuse(t, <<v>>, left) THEN "refuse" ELSE "any"]]

PrintVec(t, vs, pol, cap, left) ==
  obs' = [a |-> "printvec",
          arg |-> [src |-> t, vs |-> [i \in 1..Len(vs) |-> Canon(vs[i])], left |-> left, cb |-> pol, cap |-> cap],
          exp |-> [design |-> DesignSinkVec(t, vs, pol, cap, left),
                   must |-> IF SinkMustRefuse(t, vs, left) THEN "refuse" ELSE "any"]]

FmtGet(api, chars) ==
  obs' = [a |-> "fmt", arg |-> [api |-> api, chars |-> chars],
          exp |-> [design |-> DesignFmtGet(chars),
                   byused |-> [n \in 1..(Len(chars) + 1) |->
                                 LET pre == SubSeq(chars, 1, n - 1) IN
                                 IF AllBlank(pre) THEN [cls |-> "blank", w |-> 0, hasdec |-> 0, d |-> 0]
                                 ELSE LET P  == FmtParts(pre)
                                          ok == /\ P.w.k = "fin" /\ NumCmp(P.w, NatNum(0)) >= 0 /\ NumCmp(P.w, NatNum(ByteMax)) <= 0
                                                /\ (P.hasdec => /\ P.d.k = "fin" /\ NumCmp(P.d, NatNum(0)) >= 0
                                                                /\ NumCmp(P.d, NatNum(ByteMax)) <= 0)
                                      IN IF ~ok THEN [cls |-> "bad", w |-> 0, hasdec |-> 0, d |-> 0]
                                         ELSE [cls |-> "num", w |-> SmallInt(P.w), hasdec |-> IF P.hasdec THEN 1 ELSE 0,
                                               d |-> IF P.hasdec THEN SmallInt(P.d) ELSE 0]]]]

FmtList(chars) ==
  obs' = [a |-> "fmtlist", arg |-> [chars |-> chars], exp |-> [design |-> DesignFmtList(chars, 1, << >>)]]

Dest(chars, sep, max) ==
  obs' = [a |-> "dest", arg |-> [chars |-> chars, sep |-> sep, max |-> max],
          exp |-> [design |-> DesignDest(chars, sep, max)]]

RText(dst, base, chars, lo, hi) ==
  obs' = [a |-> "rtext", arg |-> [dst |-> dst, base |-> base, chars |-> chars, lo |-> Canon(lo), hi |-> Canon(hi)],
          exp |-> [byused |-> [n \in 1..(Len(chars) + 1) |-> RPrefixExp(dst, chars, base, lo, hi, n - 1)],
                   design |-> CanonObs(DesignRText(dst, base, chars, lo, hi))]]

Vec(api, sk, src, dk, dst, vs) ==
  obs' = [a |-> "vec", arg |-> [api |-> api, sk |-> sk, src |-> src, dk |-> dk, dst |-> dst, vs |-> [i \in 1..Len(vs) |-> Canon(vs[i])]],
          exp |-> [allowed |-> VecAllowed(src, dk, dst, vs),
                   design |-> DesignVec(api, sk, src, dk, dst, [i \in 1..Len(vs) |-> Canon(vs[i])])]]

(* invariants: Tier 2 implies Tier 1 *)
XDesignSound ==
  CASE obs.a = "print"   -> obs.exp.design.r = "skip"
                            \/ /\ PrintOK(obs.arg.src, obs.arg.v, FmtRadix(obs.arg.flags), obs.exp.design)
                               /\ (obs.arg.api # "num" => SinkOK(obs.exp.design))
    [] obs.a = "printvec" -> obs.exp.design.r = "skip"
                            \/ (PrintVecOK(obs.arg.src, obs.arg.vs, obs.exp.design) /\ SinkOK(obs.exp.design))
    [] obs.a = "fmt"     -> FmtOK(obs.arg.chars, obs.exp.design)
    [] obs.a = "fmtlist" -> FmtListOK(obs.arg.chars, obs.exp.design)
    [] obs.a = "dest"    -> DestOK(obs.arg.chars, obs.arg.sep, obs.arg.max, obs.exp.design)
    [] obs.a = "rtext"   -> RTextOK(obs.arg.dst, obs.arg.chars, obs.arg.base, obs.arg.lo, obs.arg.hi, obs.exp.design)
    [] obs.a = "vec"     -> VecOK(obs.arg.src, obs.arg.dk, obs.arg.dst, obs.arg.vs, obs.exp.design)
    [] OTHER             -> TRUE

(* the design prints whenever the shortest numeral fits (not vacuous) *)
XDesignUseful ==
  (obs.a = "print" /\ obs.arg.api = "num" /\ obs.exp.design.r = "refused" /\ TypeTab[obs.arg.src].kind = "int" /\ obs.arg.src # "c"
     /\ (obs.arg.flags % 16) \in {0, 1, 2, 3} /\ (obs.arg.v.neg = 0 \/ FmtRadix(obs.arg.flags) = 10)) =>
       LET ml == MinLen(obs.arg.v, FmtRadix(obs.arg.flags)) IN
       \/ ml >= obs.arg.left \/ obs.arg.width >= obs.arg.left
       \/ (HasBit(obs.arg.flags, 256) /\ ml + 1 >= obs.arg.left)

(* digits: ToDigits inverts FromDigits *)
XDigitsSound ==
  (obs.a = "print" /\ TypeTab[obs.arg.src].kind = "int") =>
     \A radix \in {8, 10, 16} : LET mag == Shl(obs.arg.v.m, obs.arg.v.e) IN FromDigits(ToDigits(mag, radix), radix) = mag

(* the printed-numeral reading agrees with Convert's FloatDenote *)
XPrintedSound ==
  (obs.a = "print" /\ obs.exp.design.r = "ok" /\ TypeTab[obs.arg.src].kind = "flt") =>
     LET body == TrimR(obs.exp.design.text) IN SameNum(PNum(PrintedNum(body)), FloatDenote(body))
=============================================================================
