SPECIFICATION TraceSpec
CONSTANTS
  LBits = 16
  TypeTab <- RealTypes
  GraphLo = 33 GraphHi = 126 MaxBits = 64
  Apis = {} TextApis = {} TextDsts = {} Bases = {} Alphabet = {} TextLen = 0
  ConverseDsts = {} ConverseSrcs = {}
POSTCONDITION TraceAccepted
CHECK_DEADLOCK FALSE
