SPECIFICATION Spec
CONSTANTS
  Alphabet <- Alpha5
  Ranges <- Rng1
  MaxLen = 3
  Limit = 65535
  Chunked = FALSE
  NoRangeLen = 0
  CodeDen <- Den1
  Dims = 2
VIEW View
INVARIANTS TypeOK PartsOK Partition Complete
CHECK_DEADLOCK FALSE
