SPECIFICATION GenSpec
CONSTANTS
  Alphabet <- Alpha5
  Alphabet2 <- Alpha5
  Ranges <- Rng13
  MaxLen = 5
  Limit = 65535
  Chunked = FALSE
  NoRangeLen = 3
  CodeDen = {}
  Dims = 1
  Kinds <- KindsAll
  HalfLimits = FALSE
  Uneven = "same"
VIEW View
ACTION_CONSTRAINT Emit
CHECK_DEADLOCK FALSE
