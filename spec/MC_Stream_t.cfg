SPECIFICATION Spec
CONSTANTS MaxCode = 5 NMsg = 2
  MsgSet <- MsgsT
  Shapes <- OneShape
  Ks <- KsT
VIEW View
INVARIANTS TypeOK Integrity Conservation InTransit EarlyIsPrefix Availability
CHECK_DEADLOCK FALSE
