SPECIFICATION GenSpec
CONSTANTS
  Alphabet <- Alpha3
  Alphabet2 <- Alpha3
  Ranges <- Rng13
  MaxLen = 5
  Limit = 65535
  Chunked = FALSE
  NoRangeLen = 2
  CodeDen = {}
  Dims = 2
  Kinds <- KindsML
  HalfLimits = FALSE
  Uneven = "short"
VIEW View
ACTION_CONSTRAINT Emit
CHECK_DEADLOCK FALSE
