---------------------------- MODULE MC_ObjVararg ----------------------------
(* Exhaustive configuration of ObjVararg; obs is an observation, not state. *)
EXTENDS ObjVararg
ViewV == <<kind, st, ops>>
=============================================================================
