SPECIFICATION SpecPX
CONSTANTS Names <- NamesAB Depth = 1 Vals <- None Sep = 46 Design = "list" Base <- NoBase MaxSlots = 0
  Ends <- Ends0 Strs <- StrsQ Seps <- SepsQ Asgs <- AsgsQ Elems <- ElemsQ
  Configs <- DefaultOnly OptNames <- None SecNames <- None Values <- None Decos <- None MaxNodes = 0 MaxDepth = 0
  Routes <- None Cfgs <- None SingleKinds <- None PrePaths <- None
  LoadKinds <- None TwoFiles = FALSE EnvCalls <- None ArgCalls <- None ClearLists <- None
  MsgSets <- None MsgGets <- None NodeBases <- None FputSeps <- FputQ
  MaxOps = 0 MaxArr = 0 SingleWhen = "any" QuoteSet <- AllQuotes Observe = FALSE
CONSTRAINT BoundP
VIEW ViewP
INVARIANTS PathRefines
PROPERTIES PathProp PrintProp
CHECK_DEADLOCK FALSE
