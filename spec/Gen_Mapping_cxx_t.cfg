SPECIFICATION GenSpec
CONSTANTS DimSeq <- Dims2 MaskSeq <- MasksF CliSeq <- Clis1 DestSeq <- Dest3 PathSeq <- Path2 Toks <- Tok01
  Impl = "cxx" WithAll = TRUE Acts <- ActsCxx MaxTab = 2
  ItemSet <- None MaxItems = 0 GapSet <- None EdgeGaps <- None
  Letters <- None MaxLetters = 0 LetterGaps <- None NodeSet <- None MaxNodes = 0
CONSTRAINT Bound
VIEW Skel
ACTION_CONSTRAINT Emit
CHECK_DEADLOCK FALSE
