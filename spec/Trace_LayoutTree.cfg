SPECIFICATION TraceSpec
CONSTANTS MaxSecs = 100000 MaxOpts = 100000 MaxMem = 100000 MaxTop = 100000 Mode = "trace"
INVARIANTS Refines Contained BindsNamed CopiesEqual
POSTCONDITION TraceAccepted
CHECK_DEADLOCK FALSE
