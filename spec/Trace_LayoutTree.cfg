SPECIFICATION TraceSpec
CONSTANTS MaxSecs = 100000 MaxOpts = 100000 MaxMem = 100000 MaxTop = 100000 MaxDocs = 100000 MaxSteps = 100000 Mode = "trace"
INVARIANTS Refines Contained BindsNamed CopiesEqual
PROPERTIES RefusedFrame BindExact GSetFrame FreshDoc
POSTCONDITION TraceAccepted
CHECK_DEADLOCK FALSE
